#!/bin/sh
# usage: tools/seedtest.sh <mutant id> <Cnn> [tier]  — applies seeded/<id>/patch.diff to a scratch worktree,
# (VERIF_HOME=<clone of /verif> runs the check from that clone so that builders working in /verif are not disturbed)
# confirms the 252-test baseline still passes, runs the check against it, removes the worktree.
id=$1; prop=$2; tier=${3:-quick}
wt=/tmp/seedwt-$id-$$
git -C /repo worktree add -q $wt HEAD || exit 2
# hook files are untracked until committed: copy them
(cd /repo && git ls-files --others --exclude-standard | grep zz_verif_hooks | while read f; do cp /repo/$f $wt/$f; done)
git -C $wt apply /verif/seeded/$id/patch.diff || { echo "PATCH DOES NOT APPLY"; git -C /repo worktree remove --force $wt; exit 2; }
if [ -z "$SKIP_BASELINE" ]; then VERIF_REPO=$wt python3 /verif/tools/baseline.py | tail -3; fi
cd ${VERIF_HOME:-/verif} && VERIF_REPO=$wt ./check $prop $tier | cut -c1-400
rc=$?
git -C /repo worktree remove --force $wt
git -C /repo worktree prune
