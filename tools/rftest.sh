#!/bin/sh
# usage: tools/rftest.sh <patch file> <Cnn> [<Cnn> ...] — applies a (supposedly behaviour-preserving) patch to a scratch
# worktree of /repo and runs the quick checks of the given properties against it (VERIF_HOME=<clone of /verif> to run
# from a clone). A VIOLATION here is a false alarm of the machinery unless the patch does change behaviour.
patch=$1; shift
wt=/tmp/rfwt-$$
git -C /repo worktree add -q $wt HEAD || exit 2
git -C $wt apply $patch || { echo "PATCH DOES NOT APPLY"; git -C /repo worktree remove --force $wt; exit 2; }
cd ${VERIF_HOME:-/verif}
for p in "$@"; do VERIF_REPO=$wt ./check $p quick 2>&1 | grep -E "VIOLATION|quick seed" | cut -c1-300; done
git -C /repo worktree remove --force $wt
git -C /repo worktree prune
