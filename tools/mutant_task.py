#!/usr/bin/env python3
"""prints the task message for a seeding sub-agent: tools/mutant_task.py <mid> <Cnn>"""
import json, sys, glob, os
mid, prop = sys.argv[1], sys.argv[2]
brief = open("/verif/tools/mutant_brief.txt").read()
pb = open(f"/verif/tools/propbriefs/prop-{prop}.txt").read()
used = []
for f in sorted(glob.glob("/verif/seeded/*/meta.json")):
    m = json.load(open(f))
    if m.get("breaks") == prop:
        used.append("- " + (m.get("summary") or "")[:300])
print(brief)
print(f"\nYOUR WORKTREE: /tmp/wt-{mid}   (save your patch as /tmp/wt-{mid}.patch)\n")
print(pb)
if used:
    print("\nChanges already planted for this property by earlier rounds (choose a DIFFERENT code site and a different kind of mistake):\n" + "\n".join(used))
