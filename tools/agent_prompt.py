#!/usr/bin/env python3
"""prints the common part of a builder prompt for the given property ids"""
import json, sys
props = {json.loads(l)["id"]: json.loads(l) for l in open("/verif/properties.jsonl")}
ids = sys.argv[1:]
for i in ids:
    p = props[i]
    print(f"### {i} — {p['title']}\nSTATEMENT: {p['statement']}\nQUANTIFIER: {p['quantifier']['text']}\nANCHOR FILES: {', '.join(p['anchors']['files'])}\nMECHANISMS: " + "; ".join(f"{m.get('name')} ({m.get('where')})" for m in p['anchors']['mechanism']) + f"\nOBSERVE AT: {'; '.join(p['anchors'].get('observe_at') or [])}\n")
