#!/usr/bin/env python3
"""Run /repo's pinned test suite with the hook guard OFF (no -tags verif) and
compare with /root/.vp/BASELINE.json: every stable_pass test must pass."""
import json, os, subprocess, sys
repo = os.environ.get("VERIF_REPO", "/repo")
base = json.load(open("/root/.vp/BASELINE.json"))
want = set(base["stable_pass"])
env = dict(os.environ, GOFLAGS="-mod=mod", GOPROXY="off")
env.pop("GOSUMDB", None)
p = subprocess.run(["go", "test", "-json", "-vet=off", "-count=1", "-timeout", "25m", "./..."],
                   cwd=repo, env=env, stdout=subprocess.PIPE, stderr=subprocess.STDOUT, text=True)
passed, failed = set(), set()
for line in p.stdout.splitlines():
    try:
        e = json.loads(line)
    except ValueError:
        continue
    if e.get("Test") and e.get("Action") in ("pass", "fail"):
        k = f'{e["Package"]}::{e["Test"]}'
        (passed if e["Action"] == "pass" else failed).add(k)
missing = sorted(want - passed)
print(f"baseline: {len(want & passed)}/{len(want)} stable tests pass; {len(failed)} fail overall (27 expected from emptied fixtures)")
for m in missing[:40]:
    print("  NOT PASSING:", m)
sys.exit(1 if missing else 0)
