#!/usr/bin/env python3
"""Marks known_findings.json entries as fixed when fixes/<tag>.msg's subject is the subject of a commit in /repo."""
import json, subprocess, os
kf = json.load(open("/verif/known_findings.json"))
log = subprocess.run(["git", "-C", "/repo", "log", "--format=%h\t%s"], capture_output=True, text=True).stdout.splitlines()
subj = {l.split("\t", 1)[1].strip(): l.split("\t", 1)[0] for l in log}
n = 0
for f in kf["findings"]:
    p = f"/verif/fixes/{f['tag']}.msg"
    if f.get("status") == "known" and os.path.exists(p):
        s = open(p).readline().strip()
        if s in subj:
            f["status"] = "fixed"
            f["commit"] = subj[s]
            w = f.get("what", "")
            if w.startswith("known:"):
                f["what"] = "fixed:" + w[len("known:"):]
            n += 1
            print("fixed:", f["property"], f["tag"], subj[s])
json.dump(kf, open("/verif/known_findings.json", "w"), indent=1)
print(n, "flipped")
