#!/usr/bin/env python3
"""One-off helper: turn the damage engine's output (thorough run) into known_findings.json entries for C18.
usage: c18_collect.py <engine-output> ; prints JSON entries. Entries are reviewed and committed by hand."""
import sys, json, re
tags = {}
for line in open(sys.argv[1], errors="replace"):
    p = line.rstrip("\n").split("\t")
    if p[0] == "oracle" and len(p) > 5 and p[2] == "FAIL":
        tag, msg, repro = p[3], p[4], p[5]
        if tag not in tags:
            tags[tag] = (msg, repro)
out = []
for tag in sorted(tags):
    msg, repro = tags[tag]
    msg = re.sub(r"\s+", " ", msg)[:160]
    out.append(dict(property="C18", tag=tag, status="known",
                    what=f"reading a corrupted image: {msg} (first witness: {repro[:120]})",
                    witness=repro[:200]))
print(json.dumps(out, indent=1))
