#!/usr/bin/env python3
"""Regenerates the factual tables of DESIGN.md part I (fix commits, known findings, seeded changes)
from git, known_findings.json and seeded/*/meta.json. Output: markdown on stdout."""
import json, subprocess, glob, os, re, sys
sys.path.insert(0, os.path.join(os.path.dirname(os.path.abspath(__file__)), "..", "lib"))
kf = json.load(open("/verif/known_findings.json"))["findings"]
log = subprocess.run(["git", "-C", "/repo", "log", "--reverse", "--format=%h\t%s"], capture_output=True, text=True).stdout.splitlines()
fixes = [l.split("\t", 1) for l in log if l.split("\t", 1)[1].startswith("fix:")]
by_commit = {}
for f in kf:
    if f.get("status") == "fixed":
        by_commit.setdefault(f.get("commit", "")[:7], set()).add(f["property"])
print("### Fix commits in /repo (%d)\n" % len(fixes))
print("| commit | subject | properties whose oracle showed the defect |")
print("|---|---|---|")
for h, s in fixes:
    props = ", ".join(sorted(by_commit.get(h[:7], []))) or "—"
    print(f"| {h} | {s[5:].strip()} | {props} |")
print()
known = [f for f in kf if f.get("status") == "known"]
print("### Known findings still present (%d entries, %d distinct defects)\n" % (len(known), len({f['tag'] for f in known})))
print("| property | tag | what fails | why recorded, not repaired |")
print("|---|---|---|---|")
WHY = {
 "iso-start-ignored": "the reader and writer both ignore start; repairing it changes the on-disk position of every existing image created at start>0 (needs a maintainer decision)",
 "fat-stale-parent-snapshot": "handles keep a private snapshot of their parent directory; repair means re-reading the parent on every write-back (design change of the handle type)",
 "fat-sfn-alias": "8.3 aliasing of long names mapped to '_': needs a lookup-policy decision (prefer long name)",
 "fat-empty-sfn-base": "names with an empty 8.3 base ('.hidden') need a generated base; naming-policy decision",
 "fat-nonascii-name": "non-ASCII names need a code-page / LFN-only policy",
 "fat-name-equals-parent": "path handling treats dir==base as the directory itself throughout fat12.go; touches every entry point",
 "fat32-geometry-narrow-integers": "needs several struct fields and locals widened (uint16/uint32 -> uint32/uint64) across fat32.go and the BPB types",
 "iso-blocksize-descriptors": "writer puts descriptors at 16*blocksize, reader expects 32 KiB + i*2048: which side is right for 4096/8192-byte blocks is a format decision",
 "iso-rr-relocation-broken": "Rock Ridge deep-directory relocation is wrong in several cooperating places (CL/PL/RE records, sizes, Joliet view)",
 "iso-joliet-name-overflow": "reject or truncate Joliet names over 110 characters: policy decision",
 "iso-rr-symlink-over-block": "needs SL entries split across several continuation areas; today Finalize refuses with an error (after fix 6475c24, no panic)",
 "ext4-mkdirentry-leaks-inode": "needs allocateInode to be rolled back on every later failure path of mkDirEntry",
 "ext4-extent-block-csum": "extent-tree block checksum tail is not implemented in the writer",
 "ext4-create-no64bit-panic": "Create without 64bit writes 64-byte descriptors into 32-byte slots; needs the descriptor size threaded through the GDT writer (or the option refused)",
 "ext4-create-resize-inode-size": "resize inode contents wrong without flex_bg",
 "ext4-create-sparse-super2": "sparse_super2 backup placement not implemented",
 "ext4-create-project-quota": "project quota feature accepted but its inode not initialised",
 "ext4-create-few-inodes-underflow": "tiny InodeCount underflows a counter in Create",
 "ext4-create-flex-meta-overflow": "flex_bg metadata does not fit the first group for some sizes; layout redesign",
 "ext4-create-bitmap-csum-small-groups": "bitmap checksums for groups smaller than a bitmap block",
 "ext4-hole-stale-bytes": "a write beyond EOF leaves the skipped blocks' old contents visible; needs zeroing of newly allocated blocks (or unwritten extents)",
 "sqfs-dir-startblock-index": "directory inodes store a metadata block index instead of its byte offset; writer and reader agree with each other for the first 8 KiB only; repair touches both",
 "mbr-slot-by-position": "Partition.Index is ignored by mbr.Table.Write (slots by slice position); changing it alters the meaning of existing callers' tables",
}
for f in sorted(known, key=lambda f: (f["property"], f["tag"])):
    what = re.sub(r"^(known|fixed):\s*property=\S+\s*", "", f["what"])
    print(f"| {f['property']} | {f['tag']} | {what[:260]} | {WHY.get(f['tag'], 'no small safe repair')} |")
print()
print("### Seeded changes (independent sub-agents; none is committed in /repo)\n")
print("| id | property | change | needs | outcome of the check |")
print("|---|---|---|---|---|")
for d in sorted(glob.glob("/verif/seeded/m*/meta.json")):
    m = json.load(open(d))
    print(f"| {m['id']} | {m['breaks']} | {m['summary'][:300]} | {m['needs_to_manifest'][:260]} | {m.get('result','')[:520]} |")

def summary():
    import registry
    print("| id | level | engines (Go, real code) | regenerated facts | theorems | quick: model-vs-impl / oracle cases | what the theorems cover / what is partial |")
    print("|---|---|---|---|---|---|---|")
    for pid in registry.ALL_IDS:
        s = registry.PROPS[pid]
        ev = {}
        try:
            ev = json.load(open(f"/verif/evidence/{pid}.json"))
        except Exception:
            pass
        cov = ev.get("coverage", {})
        engines = ", ".join(e["name"] for e in s["engines"])
        facts = ", ".join(s.get("facts", [])) or "—"
        txt = s["text"].replace("\n", " ")
        note = s["note"].replace("\n", " ")
        print(f"| {pid} | {s['level']} | {engines} | {facts} | {cov.get('obligations','?')} | {cov.get('traces_validated_against_impl','?')} / {cov.get('input_distribution',{}) and sum(v for k,v in cov.get('input_distribution',{}).items() if k.endswith('.oracle_cases'))} | {txt[:420]} … **Partial/trusted:** {note[:300]} … |")

if len(sys.argv) > 1 and sys.argv[1] == "summary":
    print()
    summary()
