#!/bin/sh
# usage: tools/applyfix.sh <tag>  — apply fixes/<tag>.patch to /repo, run baseline, commit with fixes/<tag>.msg
tag=$1
cd /repo || exit 2
[ -z "$(git status --porcelain --untracked-files=no)" ] || { echo "/repo has tracked modifications"; git status --short --untracked-files=no; exit 2; }
git apply --check /verif/fixes/$tag.patch || { echo "DOES NOT APPLY"; exit 2; }
git apply /verif/fixes/$tag.patch
changed=$(git diff --name-only)
bad=$(gofmt -l $changed)
[ -z "$bad" ] || { echo "gofmt: $bad"; git checkout -- .; exit 2; }
export GOFLAGS=-mod=mod GOPROXY=off
go build ./... || { git checkout -- .; exit 2; }
python3 /verif/tools/baseline.py || { echo "BASELINE FAILS"; git checkout -- .; exit 2; }
git add $changed && git commit -q -F /verif/fixes/$tag.msg && git log --oneline -1
