#!/bin/sh
# usage: tools/intake.sh <mid> <Cnn> [tier] — move a seeder's patch + demo out of /tmp/wt-<mid> into seeded/<mid>,
# remove the worktree, run the check against the patch in a fresh scratch worktree; output -> seeded/<mid>/run.txt
id=$1; prop=$2; tier=${3:-quick}
mkdir -p /verif/seeded/$id
cp /tmp/wt-$id.patch /verif/seeded/$id/patch.diff || exit 2
(cd /tmp/wt-$id && git ls-files --others --exclude-standard | grep -i 'zz_\(mutant_\)\?demo' | while read f; do mkdir -p /verif/seeded/$id/demo/$(dirname $f); cp $f /verif/seeded/$id/demo/$f; done)
git -C /repo worktree remove --force /tmp/wt-$id; git -C /repo worktree prune
/verif/tools/seedtest.sh $id $prop $tier > /verif/seeded/$id/run.txt 2>&1
tail -4 /verif/seeded/$id/run.txt
