#!/usr/bin/env python3
"""Rewrites the generated parts of DESIGN.md Part I in place: the I.1 table and the three I.6 tables
(fix commits, known findings, seeded changes). Everything else is left as written."""
import subprocess, re, sys
D = "/verif/DESIGN.md"
s = open(D).read()
out = subprocess.run([sys.executable, "/verif/tools/design_tables.py", "summary"], capture_output=True, text=True, cwd="/verif").stdout
tables, summ = out.split("| id | level |", 1)
summ = "| id | level |" + summ
# I.1
m = re.search(r"\| id \| level \| engines.*?\n\n", s, re.S)
s = s[:m.start()] + summ.strip() + "\n\n" + s[m.end():]
# I.6 tables: from "### Fix commits" to "## I.7"
a = s.index("### Fix commits in /repo")
b = s.index("## I.7 Validation of the machinery")
s = s[:a] + tables.strip() + "\n\n\n" + s[b:]
open(D, "w").write(s)
print("DESIGN.md tables regenerated")
