"""check driver: build from /repo's working tree, proof obligations, axiom audit,
correspondence (Go harness vs Lean driver), property oracles, known findings,
evidence.  DESIGN.md section 4."""
import os, sys, json, subprocess, time, fcntl, shutil, tempfile, re, hashlib, contextlib

VERIF = os.path.dirname(os.path.dirname(os.path.abspath(__file__)))
REPO = os.environ.get("VERIF_REPO", "/repo")
LEAN = os.path.join(VERIF, "lean")
HARNESS = os.path.join(VERIF, "harness")
BINDIR = os.path.join(HARNESS, "bin")
DRIVER_ROOTS = {}
ALLOWED_AXIOMS = {"propext", "Classical.choice", "Quot.sound"}

import registry


def goenv():
    e = dict(os.environ)
    e["GOFLAGS"] = "-mod=mod"
    e["GOPROXY"] = "off"
    e.pop("GOSUMDB", None)  # GOSUMDB=off breaks the cached-toolchain switch
    e["GOTOOLCHAIN"] = "auto"
    e.setdefault("GOCACHE", os.path.join(os.path.expanduser("~"), ".cache", "go-build"))
    return e


@contextlib.contextmanager
def locked(name="build"):
    path = os.path.join(VERIF, ".lock-" + name)
    with open(path, "w") as f:
        fcntl.flock(f, fcntl.LOCK_EX)
        try:
            yield
        finally:
            fcntl.flock(f, fcntl.LOCK_UN)


def run(cmd, cwd=None, env=None, timeout=None, stdin=None, stdout=subprocess.PIPE):
    t0 = time.time()
    try:
        p = subprocess.run(cmd, cwd=cwd, env=env, timeout=timeout, stdin=stdin,
                           stdout=stdout, stderr=subprocess.STDOUT, text=True, errors="replace")
        return p.returncode, (p.stdout or ""), time.time() - t0
    except subprocess.TimeoutExpired as ex:
        out = ex.stdout or ""
        if isinstance(out, bytes):
            out = out.decode("utf-8", "replace")
        return 124, out + "\n[timeout]", time.time() - t0


def build_harness(log, engines=(), facts=()):
    """go build -tags verif of the fact and engine binaries against the repository's working tree.
    The harness module replaces github.com/diskfs/go-diskfs with /repo; when VERIF_REPO points
    elsewhere (a scratch worktree carrying a candidate change) an alternate go.mod is used."""
    global BINDIR
    pkgs = [f"./cmd/vf-{g}" for g in facts] + [f"./cmd/vh-{e}" for e in engines]
    if not pkgs:
        return True, ""
    extra = []
    if os.path.realpath(REPO) != "/repo":
        BINDIR = tempfile.mkdtemp(prefix="verif-altbin-")
        alt = os.path.join(BINDIR, "alt.mod")
        mod = open(os.path.join(HARNESS, "go.mod")).read().replace("=> /repo", "=> " + os.path.realpath(REPO))
        open(alt, "w").write(mod)
        shutil.copyfile(os.path.join(REPO, "go.sum"), os.path.join(BINDIR, "alt.sum"))
        extra = ["-modfile", alt]
    else:
        BINDIR = os.path.join(HARNESS, "bin")
        os.makedirs(BINDIR, exist_ok=True)
        try:
            shutil.copyfile(os.path.join(REPO, "go.sum"), os.path.join(HARNESS, "go.sum"))
        except OSError:
            pass
    rc, out, dt = run(["go", "build"] + extra + ["-tags", "verif", "-o", BINDIR + "/"] + pkgs,
                      cwd=HARNESS, env=goenv(), timeout=900)
    log.append(f"[harness build rc={rc} {dt:.1f}s]\n{out}")
    return rc == 0, out


def run_vfacts(log, groups=()):
    """regenerate lean/DiskfsModel/Generated/<Group>.lean for each fact group from /repo
    (the old file is replaced; untouched when the content is identical so lake need not rebuild)."""
    gen = os.path.join(LEAN, "DiskfsModel", "Generated")
    os.makedirs(gen, exist_ok=True)
    facts = {}
    allout = ""
    for g in groups:
        tmp = tempfile.mkdtemp(prefix="vfacts")
        try:
            rc, out, dt = run([os.path.join(BINDIR, "vf-" + g), "-repo", REPO, "-out", tmp],
                              cwd=HARNESS, env=goenv(), timeout=300)
            log.append(f"[vf-{g} rc={rc} {dt:.1f}s]\n{out}")
            allout += out
            if rc != 0:
                return False, allout, facts
            for f in os.listdir(tmp):
                src = os.path.join(tmp, f)
                if f.endswith(".lean"):
                    dst = os.path.join(gen, f)
                    a = open(src).read()
                    b = open(dst).read() if os.path.exists(dst) else None
                    if a != b:
                        if os.path.exists(dst):
                            os.remove(dst)
                        with open(dst, "w") as fh:
                            fh.write(a)
                elif f.endswith(".facts.json"):
                    facts[f[:-len(".facts.json")]] = json.load(open(src))
        finally:
            shutil.rmtree(tmp, ignore_errors=True)
    return True, allout, facts


def lake_build(targets, log, timeout=3000):
    rc, out, dt = run(["lake", "build"] + targets, cwd=LEAN, timeout=timeout)
    log.append(f"[lake build {' '.join(targets)} rc={rc} {dt:.1f}s]\n{out[-6000:]}")
    return rc == 0, out


def audit(prop, log):
    """#print-axioms audit of every theorem in Props/<prop>.lean (fresh elaboration each run)."""
    f = os.path.join("DiskfsModel", "Audit", prop + ".lean")
    rc, out, dt = run(["lake", "env", "lean", f], cwd=LEAN, timeout=900)
    log.append(f"[audit rc={rc} {dt:.1f}s]\n{out[-3000:]}")
    thms = {}
    count = None
    for line in out.splitlines():
        m = re.search(r"AUDIT-COUNT (\d+)", line)
        if m:
            count = int(m.group(1))
            continue
        m = re.search(r"AUDIT (\S+) (\S+)", line)
        if m:
            axs = [] if m.group(2) == "-" else m.group(2).split(",")
            thms[m.group(1)] = axs
    bad = {t: a for t, a in thms.items() if not set(a) <= ALLOWED_AXIOMS}
    ok = rc == 0 and count is not None and count == len(thms) and count > 0 and not bad
    return ok, thms, bad, out


FORBIDDEN = re.compile(r"\b(sorry|admit|native_decide|bv_decide|implemented_by|unsafe)\b|^axiom |maxHeartbeats 0")


def import_closure(roots):
    """Lean source files (relative to lean/) reachable from the given modules through `import DiskfsModel.*` / `import Driver.*`."""
    seen, todo = set(), list(roots)
    while todo:
        m = todo.pop()
        if m in seen:
            continue
        path = os.path.join(LEAN, *m.split(".")) + ".lean"
        if not os.path.exists(path):
            continue
        seen.add(m)
        for line in open(path, errors="replace"):
            mm = re.match(r"\s*import\s+((?:DiskfsModel|Driver)\.[\w.]+)", line)
            if mm:
                todo.append(mm.group(1))
    return sorted(seen)


def driver_roots(drivers):
    """root modules of the given lean_exe targets, read from lakefile.toml"""
    txt = open(os.path.join(LEAN, "lakefile.toml")).read()
    roots = []
    for m in re.finditer(r'\[\[lean_exe\]\]\s*name\s*=\s*"([^"]+)"\s*root\s*=\s*"([^"]+)"', txt):
        if m.group(1) in drivers:
            roots.append(m.group(2))
    return roots


def grep_forbidden(roots):
    """source scan for sorry/admit/axiom/native_decide/... outside comments, over the import closure of this property."""
    hits = []
    for mod in import_closure(roots):
        if mod == "DiskfsModel.Audit.Common":
            continue
        p = os.path.join(LEAN, *mod.split(".")) + ".lean"
        incomment = 0
        for i, line in enumerate(open(p, errors="replace"), 1):
            s = line
            if incomment:
                if "-/" in s:
                    incomment = 0
                    s = s.split("-/", 1)[1]
                else:
                    continue
            if "/-" in s:
                head, rest = s.split("/-", 1)
                if "-/" in rest:
                    s = head + rest.split("-/", 1)[1]
                else:
                    incomment = 1
                    s = head
            s = s.split("--", 1)[0]
            if FORBIDDEN.search(s):
                hits.append(f"{os.path.relpath(p, LEAN)}:{i}: {line.strip()}")
    return hits


def parse_protocol(text):
    res = dict(cases=[], impl={}, oracle={}, fails=[], findings={}, stats={}, samples=[], notes=[], done=False)
    for line in text.splitlines():
        parts = line.split("\t")
        k = parts[0]
        if k == "case" and len(parts) >= 3:
            res["cases"].append(line)
        elif k == "impl" and len(parts) >= 2:
            res["impl"][parts[1]] = "\t".join(parts[2:])
        elif k == "oracle" and len(parts) >= 3:
            if parts[2] == "ok":
                res["oracle"][parts[1]] = "ok"
            else:
                tag = parts[3] if len(parts) > 3 else "-"
                msg = parts[4] if len(parts) > 4 else ""
                repro = parts[5] if len(parts) > 5 else ""
                res["oracle"][parts[1]] = "FAIL"
                res["fails"].append(dict(id=parts[1], tag=tag, msg=msg, repro=repro))
        elif k == "finding" and len(parts) >= 3:
            res["findings"][parts[1]] = dict(state=parts[2], msg=parts[3] if len(parts) > 3 else "")
        elif k == "stat" and len(parts) >= 3:
            try:
                res["stats"][parts[1]] = res["stats"].get(parts[1], 0) + int(parts[2])
            except ValueError:
                pass
        elif k == "sample":
            res["samples"].append("\t".join(parts[1:]))
        elif k == "note":
            res["notes"].append("\t".join(parts[1:]))
        elif k == "done":
            res["done"] = True
    return res


def parse_model(text):
    m = {}
    for line in text.splitlines():
        parts = line.split("\t")
        if parts[0] == "model" and len(parts) >= 2:
            m[parts[1]] = "\t".join(parts[2:])
    return m


def load_known():
    p = os.path.join(VERIF, "known_findings.json")
    if not os.path.exists(p):
        return []
    return json.load(open(p)).get("findings", [])


def write_evidence(prop, ev):
    # evidence/ describes /repo itself; runs against a scratch worktree (VERIF_REPO) write elsewhere
    d = os.path.join(VERIF, "evidence" if os.path.realpath(REPO) == "/repo" else "evidence-alt")
    os.makedirs(d, exist_ok=True)
    tmp = os.path.join(d, f".{prop}.json.tmp{os.getpid()}")
    with open(tmp, "w") as f:
        json.dump(ev, f, indent=1, sort_keys=False)
    os.replace(tmp, os.path.join(d, prop + ".json"))


def write_replay(prop, seed, tier, payload):
    d = os.path.join(VERIF, "replays" if os.path.realpath(REPO) == "/repo" else "replays-alt")
    os.makedirs(d, exist_ok=True)
    p = os.path.join(d, f"{prop}-{tier}-seed{seed}.json")
    with open(p, "w") as f:
        json.dump(payload, f, indent=1)
    return p


def check_property(prop, tier, seed, only=None):
    t0 = time.time()
    spec = registry.PROPS[prop]
    log = []
    problems = []          # broken ties: (kind, description)
    scratch = tempfile.mkdtemp(prefix=f"verif-{prop}-")
    ev_cov = {}
    thms, facts = {}, {}
    try:
        # ---- 1. build from /repo's working tree -------------------------------
        with locked():
            enames = [e["name"] for e in spec["engines"]]
            drivers = sorted({e["driver"] for e in spec["engines"] if e.get("driver")})
            fgroups = spec.get("facts", [])
            hok, hout = build_harness(log, enames, fgroups)
            fok = False
            if hok:
                fok, fout, facts = run_vfacts(log, fgroups)
                if not fok:
                    problems.append(("facts", "vfacts failed: " + fout[-800:]))
            else:
                problems.append(("harness-build", "harness does not build against /repo with -tags verif: " + hout[-1500:]))
            targets = [f"DiskfsModel.Props.{prop}", "DiskfsModel.Audit.Common"] + drivers   # the audit file imports Audit.Common
            pok, pout = lake_build(targets, log)
            if not pok:
                # which theorem / agreement lemma broke?
                errs = [l for l in pout.splitlines() if "error" in l.lower()][:12]
                problems.append(("proof", "lake build failed: " + " | ".join(errs)))
            aok, thms, bad, aout = (False, {}, {}, "")
            if pok:
                aok, thms, bad, aout = audit(prop, log)
                if not aok:
                    problems.append(("audit", f"axiom audit failed: bad={bad} out={aout[-500:]}"))
            hits = grep_forbidden([f"DiskfsModel.Props.{prop}", f"DiskfsModel.Audit.{prop}"] + driver_roots(drivers))
            if hits:
                problems.append(("forbidden", "forbidden construct in Lean sources: " + "; ".join(hits[:5])))
            # private copies of the binaries so concurrent checks cannot disturb this run
            bins = {}
            if hok:
                for e in enames:
                    shutil.copy2(os.path.join(BINDIR, "vh-" + e), os.path.join(scratch, "vh-" + e))
            if not pok and drivers:
                # the model may still be executable although a proof broke
                lake_build(drivers, log)
            for dname in drivers:
                drv = os.path.join(LEAN, ".lake", "build", "bin", dname)
                if os.path.exists(drv):
                    shutil.copy2(drv, os.path.join(scratch, dname))
                    bins[dname] = os.path.join(scratch, dname)
        leanchecker = None
        if tier == "thorough" and pok:
            rc, out, dt = run(["lake", "env", "leanchecker", f"DiskfsModel.Props.{prop}"], cwd=LEAN, timeout=3000)
            leanchecker = dict(rc=rc, wall_s=round(dt, 1), tail=out[-300:])
            log.append(f"[leanchecker rc={rc} {dt:.1f}s]\n{out[-2000:]}")
            if rc != 0:
                problems.append(("leanchecker", "leanchecker rejected the compiled proofs: " + out[-500:]))

        # ---- 2. run the engines: real code, oracles, and model inputs ------------
        agg = dict(impl={}, model={}, fails=[], findings={}, stats={}, samples=[], cases=0, engines=[])
        mismatches = []
        if hok:
            for eng in spec["engines"]:
                ename, eargs = eng["name"], eng.get("args", {})
                tmo = eng.get("timeout", {}).get(tier, 1500 if tier == "quick" else 7200)
                escr = os.path.join(scratch, "e-" + ename)
                os.makedirs(escr, exist_ok=True)
                cmd = [os.path.join(scratch, "vh-" + ename), "--seed", str(seed), "--tier", tier, "--scratch", escr]
                if only:
                    cmd += ["--only", only]
                cmd += [f"{k}={v}" for k, v in eargs.items()]
                vd = bins.get(eng.get("driver"))
                have_driver = vd is not None
                env = dict(os.environ)
                env["TMPDIR"] = escr
                env.setdefault("GOMEMLIMIT", "24GiB")
                outp = os.path.join(escr, "out.txt")
                with open(outp, "w") as fo:
                    t1 = time.time()
                    try:
                        p = subprocess.run(cmd, stdout=fo, stderr=subprocess.PIPE, env=env, timeout=tmo, cwd=escr)
                        rc, err = p.returncode, p.stderr.decode("utf-8", "replace")
                    except subprocess.TimeoutExpired:
                        rc, err = 124, "[engine timeout]"
                    dt = time.time() - t1
                text = open(outp, errors="replace").read()
                r = parse_protocol(text)
                log.append(f"[engine {ename} rc={rc} {dt:.1f}s cases={len(r['cases'])} impl={len(r['impl'])} fails={len(r['fails'])}]\n{err[-3000:]}")
                agg["engines"].append(dict(name=ename, rc=rc, wall_s=round(dt, 1), model_cases=len(r["cases"]),
                                           oracle_cases=len(r["oracle"]), fails=len(r["fails"])))
                if rc != 0 or not r["done"]:
                    problems.append(("engine", f"engine {ename} did not finish (rc={rc}): {err[-1200:]}"))
                # model side
                model = {}
                if r["cases"]:
                    if have_driver:
                        cin = os.path.join(escr, "cases.txt")
                        with open(cin, "w") as fc:
                            fc.write("\n".join(r["cases"]) + "\n")
                        with open(cin) as fi:
                            mrc, mout, mdt = run([vd], stdin=fi, timeout=tmo)
                        model = parse_model(mout)
                        log.append(f"[driver {ename} rc={mrc} {mdt:.1f}s lines={len(model)}]")
                        if mrc != 0:
                            problems.append(("driver", f"vdriver failed rc={mrc}: {mout[-500:]}"))
                    else:
                        problems.append(("driver", f"model driver {eng.get('driver')} could not be built; correspondence not checked"))
                for cid, iv in r["impl"].items():
                    mv = model.get(cid)
                    if have_driver and mv != iv:
                        cl = next((c for c in r["cases"] if c.split("\t")[1] == cid), "")
                        mismatches.append(dict(engine=ename, id=cid, impl=iv[:2000], model=(mv or "<none>")[:2000], case=cl[:4000]))
                agg["cases"] += len(r["impl"])
                agg["fails"] += [dict(f, engine=ename) for f in r["fails"]]
                agg["findings"].update(r["findings"])
                for k, v in r["stats"].items():
                    agg["stats"][f"{ename}.{k}"] = v
                agg["samples"] += r["samples"][:4]
        # coverage floor: a run that compares or judges far fewer cases than the check normally does (an engine
        # whose generator silently skipped its inputs, e.g. reference tools refusing every image) must not pass
        # vacuously. Floors are half of the quick-tier numbers recorded when lib/floors.json was written.
        if hok and not only:
            try:
                fl = json.load(open(os.path.join(VERIF, "lib", "floors.json"))).get(prop, {})
            except Exception:
                fl = {}
            oc = sum(v for k, v in agg["stats"].items() if k.endswith(".oracle_cases"))
            if agg["cases"] < fl.get("model_vs_impl", 0) or oc < fl.get("oracle", 0):
                problems.append(("coverage", f"only {agg['cases']} model-vs-impl cases and {oc} oracle cases were produced "
                                             f"(floor {fl.get('model_vs_impl', 0)} / {fl.get('oracle', 0)}): the engines did not exercise what this check claims"))
        if mismatches:
            problems.append(("correspondence", f"{len(mismatches)} case(s) where model and implementation differ; first: {json.dumps(mismatches[0])[:1500]}"))

        # ---- 3. verdict -------------------------------------------------------------
        known = [k for k in load_known() if k["property"] == prop]
        known_by_tag = {k["tag"]: k for k in known}
        lines = []
        unknown_fails = []
        seen_known = set()
        for f in agg["fails"]:
            k = known_by_tag.get(f["tag"])
            if k and k.get("status") == "known":
                seen_known.add(f["tag"])
            else:
                unknown_fails.append(f)
        for tag, st in agg["findings"].items():
            k = known_by_tag.get(tag)
            if k and k.get("status") == "known" and st["state"] == "reproduced":
                seen_known.add(tag)
            elif k and k.get("status") == "fixed" and st["state"] == "reproduced":
                unknown_fails.append(dict(id="finding/" + tag, tag=tag, msg="fixed finding has returned: " + st["msg"], repro=k.get("witness", ""), engine="-"))
            elif not k and st["state"] == "reproduced":
                unknown_fails.append(dict(id="finding/" + tag, tag=tag, msg="unlisted finding reproduced: " + st["msg"], repro="", engine="-"))
        for tag in sorted(seen_known):
            what = re.sub(r"^known:\s*property=\S+\s*", "", known_by_tag[tag]["what"])
            lines.append(f"KNOWN-FINDING: property={prop} {what}")

        violation = bool(problems) or bool(unknown_fails)
        replay_path = None
        if violation:
            payload = dict(property=prop, tier=tier, seed=seed,
                           broken=[dict(kind=k, what=w) for k, w in problems],
                           failing_inputs=unknown_fails[:20], mismatches=mismatches[:20],
                           how_to_replay=f"VERIF_SEED={seed} ./check {prop} {tier}" + (f" --only <case id>" if unknown_fails else ""))
            replay_path = write_replay(prop, seed, tier, payload)
            suffix = "" if unknown_fails else " no-failing-input-found"
            lines.append(f"VIOLATION property={prop} replay={replay_path}{suffix}")

        # ---- 4. evidence ------------------------------------------------------------
        nthm = len(thms)
        distinct = sum(v for k, v in agg["stats"].items() if k.endswith(".distinct_nontrivial"))
        oracle_cases = sum(v for k, v in agg["stats"].items() if k.endswith(".oracle_cases"))
        cov = dict(
            obligations=nthm, discharged=nthm if (not any(k in ("proof", "audit", "forbidden", "leanchecker") for k, _ in problems)) else 0,
            checker_cmd=f"cd lean && lake build DiskfsModel.Props.{prop} && lake env lean DiskfsModel/Audit/{prop}.lean" + (" && lake env leanchecker DiskfsModel.Props." + prop if tier == "thorough" else ""),
            trusted_base=spec.get("trusted_base", registry.TRUSTED_BASE),
            theorems={t: a for t, a in sorted(thms.items())},
            evaluations=max(1, oracle_cases + agg["cases"]),
            distinct_nontrivial=distinct,
            rule=spec.get("rule", ""),
            samples=agg["samples"][:8] or ["(no samples emitted)"],
            traces_validated_against_impl=agg["cases"],
            correspondence_mismatches=len(mismatches),
            oracle_failures_unlisted=len(unknown_fails),
            known_findings_reproduced=sorted(seen_known),
            input_distribution={k: v for k, v in sorted(agg["stats"].items())},
            engines=agg["engines"],
            regenerated_facts=facts,
            broken_ties=[dict(kind=k, what=w[:500]) for k, w in problems],
        )
        if leanchecker:
            cov["leanchecker"] = leanchecker
        ev = dict(property_id=prop, tier=tier, seed=seed, level=spec["level"], coverage=cov,
                  assumptions=spec.get("assumptions", []), wall_s=round(time.time() - t0, 1),
                  violations=(1 if violation else 0))
        write_evidence(prop, ev)
        # log file for debugging
        os.makedirs(os.path.join(VERIF, "logs"), exist_ok=True)
        with open(os.path.join(VERIF, "logs", f"{prop}-{tier}.log"), "w") as f:
            f.write("\n".join(log))
        for l in lines:
            print(l)
        nk = len(seen_known)
        print(f"{prop} {tier} seed={seed}: theorems={nthm} model-vs-impl cases={agg['cases']} oracle cases={oracle_cases} "
              f"distinct={distinct} mismatches={len(mismatches)} unlisted-failures={len(unknown_fails)} known={nk} "
              f"wall={time.time()-t0:.1f}s -> {'VIOLATION' if violation else 'ok'}")
        return 1 if violation else 0
    finally:
        shutil.rmtree(scratch, ignore_errors=True)
        if BINDIR.startswith(tempfile.gettempdir()) and "verif-altbin-" in BINDIR:
            shutil.rmtree(BINDIR, ignore_errors=True)


def setup():
    log = []
    with locked():
        enames = sorted({e["name"] for s in registry.PROPS.values() for e in s["engines"]})
        drivers = sorted({e["driver"] for s in registry.PROPS.values() for e in s["engines"] if e.get("driver")})
        fgroups = sorted({g for s in registry.PROPS.values() for g in s.get("facts", [])})
        # setup only warms the build caches: every check rebuilds what it needs from /repo's working tree
        # and reports what does not build as a violation of ITS property, so a failure here (e.g. a
        # proof obligation broken by a change to /repo) must not stop the other properties' checks.
        warn = []
        ok, out = build_harness(log, enames, fgroups)
        if not ok:
            # one engine that does not compile must not keep the others from being built
            for e in enames:
                ok1, out1 = build_harness(log, [e], [])
                if not ok1:
                    warn.append(f"engine vh-{e} does not build: {out1[-400:]}")
            for g in fgroups:
                ok1, out1 = build_harness(log, [], [g])
                if not ok1:
                    warn.append(f"fact extractor vf-{g} does not build: {out1[-400:]}")
        for g in fgroups:
            if os.path.exists(os.path.join(BINDIR, "vf-" + g)):
                ok1, out1, _ = run_vfacts(log, [g])
                if not ok1:
                    warn.append(f"vf-{g} failed: {out1[-400:]}")
        targets = [f"DiskfsModel.Props.{p}" for p in sorted(registry.PROPS)] + ["DiskfsModel.Audit.Common"] + drivers
        ok, out = lake_build(targets, log, timeout=6000)
        if not ok:
            # build the rest target by target so that one broken module leaves the others compiled
            for t in targets:
                ok1, out1 = lake_build([t], log, timeout=3000)
                if not ok1:
                    errs = [l for l in out1.splitlines() if "error" in l.lower()][:3]
                    warn.append(f"lake build {t} failed: {' | '.join(errs)[:600]}")
    for w in warn:
        print("setup warning (the property's own check will report it):", w)
    print("setup ok" if not warn else f"setup finished with {len(warn)} warning(s)")
    return 0


def main(argv):
    if not argv:
        print(__doc__)
        return 2
    if argv[0] == "--manifest":
        registry.write_manifest(VERIF)
        return 0
    if argv[0] == "--setup":
        return setup()
    prop = argv[0]
    if prop in registry.LOAD_ERRORS:
        rp = write_replay(prop, os.environ.get("VERIF_SEED", "1"), "quick",
                          dict(property=prop, broken=[dict(kind="registration", what=f"lib/props/{prop}.py does not load: {registry.LOAD_ERRORS[prop]}")]))
        print(f"VIOLATION property={prop} replay={rp} no-failing-input-found")
        return 1
    if prop not in registry.PROPS:
        print(f"unknown or unclaimed property {prop}")
        return 2
    tier = os.environ.get("VERIF_TIER", "quick")
    only = None
    rest = argv[1:]
    i = 0
    while i < len(rest):
        a = rest[i]
        if a in ("quick", "thorough"):
            tier = a
        elif a == "--only":
            only = rest[i + 1]
            i += 1
        elif a == "--replay":
            rp = json.load(open(rest[i + 1]))
            os.environ["VERIF_SEED"] = str(rp.get("seed", 1))
            tier = rp.get("tier", tier)
            fi = rp.get("failing_inputs") or []
            if fi:
                only = fi[0]["id"]
            i += 1
        i += 1
    try:
        seed = int(os.environ.get("VERIF_SEED", "1"))
    except ValueError:
        seed = 1
    return check_property(prop, tier, seed, only)
