# registered through lib/registry.py (prop is injected)
prop("C13",
     level="proof",
     technique="Lean 4 theorems over a mirror of the WriteContents/ReadContents loops (induction over reader chunks) + differential correspondence of WriteAt logs + regenerated width facts",
     engines=[dict(name="partio", driver="vd-partio")],
     facts=["partio"],
     rule="seeded geometries (GPT/MBR x logical 512/4096 x physical 512/1024/4096 x start below/at/above the 4 GiB byte boundary) x reader shorter/equal/longer x odd-sized pieces; a case is non-trivial when a table was written and read back and data moved; distinct = distinct canonical descriptions",
     text="Every theorem quantifies over all starts/sizes (unbounded naturals), all chunkings and all prior device contents: writes stay inside the partition, success iff exactly size bytes were supplied, the partition then holds exactly those bytes, ReadContents returns exactly the partition, CopyPartitionRaw leaves the target's leading bytes equal to the source. The model is tied to the Go loops by comparing the real WriteAt log with the model's write list on every generated case and by regenerated arithmetic-width facts; a direct oracle on the real code (device bytes before/after) is the violation search.",
     note="Trusted: the io.Pipe/goroutine in CopyPartitionRaw is modelled as sequential composition; GPT uint64 products are assumed not to wrap (start*lss < 2^64); harness + memdev; Lean kernel. Theorems are about the model; the correspondence run samples the tie.",
     design_ref="5/C13",
     assumptions=["io.Pipe in CopyPartitionRaw modelled sequentially", "device returns full reads inside its size (memdev)", "GPT start*lss < 2^64"],
     )


