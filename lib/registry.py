"""Single source of truth for which properties are claimed, how each is checked,
and what MANIFEST.json says. `./check --manifest` regenerates MANIFEST.json."""
import json, os

TRUSTED_BASE = [
    "Lean 4.33.0 kernel (leanchecker re-check in the thorough tier)",
    "axioms: at most propext, Classical.choice, Quot.sound (audited per theorem on every run; no native_decide, no bv_decide, no own axioms, no sorry)",
    "the statements in lean/DiskfsModel/Props/<id>.lean and lean/DiskfsModel/Spec/ (what the property means)",
    "vfacts (go/ast extractor) and the Generated/*.lean facts it regenerates from /repo on every run",
    "the Go harness (harness/), memdev and the line-protocol comparison in lib/runner.py",
    "hand-written model (lean/DiskfsModel/Model) tied to /repo only by the correspondence run and the pinned facts",
    "Go compiler/runtime and standard library are modelled, not verified",
]

ALL_IDS = ["C%02d" % i for i in range(1, 21)]

# property id -> spec
PROPS = {}
LOAD_ERRORS = {}
def _hook_commits():
    """every `verif hooks:` commit of /repo (add-only files guarded by the build tag), newest first"""
    import subprocess
    try:
        out = subprocess.run(["git", "-C", "/repo", "log", "--format=%H", "--grep=^verif hooks:"],
                             capture_output=True, text=True, timeout=60).stdout.split()
        return out
    except Exception:
        return []


HOOK_COMMITS = _hook_commits()


def prop(pid, **kw):
    PROPS[pid] = kw


def _load():
    import importlib.util, glob
    d = os.path.join(os.path.dirname(os.path.abspath(__file__)), "props")
    for f in sorted(glob.glob(os.path.join(d, "C*.py"))):
        spec = importlib.util.spec_from_file_location("props_" + os.path.basename(f)[:-3], f)
        m = importlib.util.module_from_spec(spec)
        m.prop = prop
        try:
            spec.loader.exec_module(m)
        except Exception as ex:   # a broken registration file must not take the other properties' checks down
            import sys
            LOAD_ERRORS[os.path.basename(f)[:-3]] = repr(ex)[:300]
            print(f"registry: {f} does not load: {ex!r}"[:400], file=sys.stderr)
            continue
        HOOK_COMMITS.extend(getattr(m, "HOOK_COMMITS", []))


def manifest():
    checks = []
    for pid in ALL_IDS:
        if pid not in PROPS:
            continue
        s = PROPS[pid]
        checks.append(dict(
            property_id=pid,
            quick_cmd=f"./check {pid} quick",
            thorough_cmd=f"./check {pid} thorough",
            evidence_file=f"/verif/evidence/{pid}.json",
            replay_cmd_template=f"./check {pid} --replay {{path}}",
            engine="lean4+vharness",
            level_claimed=dict(category=s["level"], text=s["text"], design_ref=s.get("design_ref", "")),
            level_note=s["note"],
            technique=s["technique"],
        ))
    na = []
    for pid in ALL_IDS:
        if pid not in PROPS:
            na.append(dict(property_id=pid, reason=NOT_YET.get(pid, "model, theorems and correspondence for this property are not built yet (work in progress; see DESIGN.md section 5); no claim is made")))
    return dict(
        version=1,
        setup_cmd="cd /verif && ./check --setup",
        hooks=dict(guard="verif", enable="go build -tags verif (the harness module replaces github.com/diskfs/go-diskfs with /repo)",
                   baseline_off_cmd="python3 /verif/tools/baseline.py",
                   source_commits=HOOK_COMMITS, add_only=True),
        engines=[dict(name="lean4+vharness", path="/verif/check",
                      serves_properties=[c["property_id"] for c in checks],
                      kind_free_text="Lean 4 proofs over hand-written mirrors (lean/), tied to /repo on every run by regenerated facts (harness/cmd/vfacts) and a differential correspondence between the real code (harness/cmd/vharness, in-process) and the compiled Lean model (lean/Driver)")],
        checks=checks,
        notes="See DESIGN.md. fix: commits in /repo are listed in known_findings.json as fixed entries.",
        not_applicable=na,
    )


NOT_YET = {}


def write_manifest(verif):
    if LOAD_ERRORS:   # never write a manifest that silently drops a property
        raise SystemExit(f"registration files do not load: {LOAD_ERRORS}")
    m = manifest()
    with open(os.path.join(verif, "MANIFEST.json"), "w") as f:
        json.dump(m, f, indent=1)
    print(f"MANIFEST.json: {len(m['checks'])} checks, {len(m['not_applicable'])} not_applicable")


_load()
