// Package memdev is a sparse in-memory backend.Storage that records every
// WriteAt / Sync, can refuse to be writable, range-checks writes against an
// allowed window, and can be snapshotted cheaply. It is the observation point
// of every correspondence run.
package memdev

import (
	"crypto/sha256"
	"encoding/hex"
	"errors"
	"fmt"
	"io"
	"io/fs"
	"os"
	"sort"
	"sync"
	"time"

	"github.com/diskfs/go-diskfs/backend"
)

const pageSize = 4096

// Event is one entry of the write log.
type Event struct {
	Sync bool
	Off  int64
	Data []byte // copy of the written bytes (nil when the device is in NoData mode)
	Len  int
}

type Range struct{ Lo, Hi int64 } // [Lo, Hi)

// Dev is the device. It implements backend.Storage and backend.WritableFile.
type Dev struct {
	mu       sync.Mutex
	pages    map[int64][]byte
	size     int64
	pos      int64
	ReadOnly bool    // Writable() fails
	Log      []Event // every WriteAt and Sync in order
	KeepData bool    // keep a copy of written data in the log
	Allowed  []Range // if non-nil, writes outside the union are recorded in OutOfRange
	// OutOfRange lists writes (or parts) that fell outside Allowed or the device.
	OutOfRange     []Range
	NoSync         bool // when true the device does not expose Sync()
	ReadHook       func(off int64, n int)
	Closed         bool
	FailWriteAfter int // if >0: the n-th WriteAt from now fails (fault injection)
	writes         int
}

func New(size int64) *Dev {
	return &Dev{pages: map[int64][]byte{}, size: size, KeepData: true}
}

// Clone makes an independent copy of the contents (log is not copied).
func (d *Dev) Clone() *Dev {
	d.mu.Lock()
	defer d.mu.Unlock()
	c := New(d.size)
	for k, v := range d.pages {
		p := make([]byte, pageSize)
		copy(p, v)
		c.pages[k] = p
	}
	c.KeepData = d.KeepData
	return c
}

func (d *Dev) Size() int64 { return d.size }

func (d *Dev) ResetLog() {
	d.mu.Lock()
	d.Log = nil
	d.OutOfRange = nil
	d.mu.Unlock()
}

type info struct{ size int64 }

func (i info) Name() string       { return "memdev" }
func (i info) Size() int64        { return i.size }
func (i info) Mode() fs.FileMode  { return 0o644 }
func (i info) ModTime() time.Time { return time.Unix(0, 0) }
func (i info) IsDir() bool        { return false }
func (i info) Sys() any           { return nil }

func (d *Dev) Stat() (fs.FileInfo, error) { return info{d.size}, nil }

func (d *Dev) Read(b []byte) (int, error) {
	n, err := d.ReadAt(b, d.pos)
	d.pos += int64(n)
	return n, err
}

func (d *Dev) Close() error { d.Closed = true; return nil }

func (d *Dev) ReadAt(p []byte, off int64) (int, error) {
	if off < 0 {
		return 0, errors.New("memdev: negative offset")
	}
	if d.ReadHook != nil {
		d.ReadHook(off, len(p))
	}
	d.mu.Lock()
	defer d.mu.Unlock()
	if off >= d.size {
		return 0, io.EOF
	}
	n := len(p)
	var err error
	if off+int64(n) > d.size {
		n = int(d.size - off)
		err = io.EOF
	}
	d.readLocked(p[:n], off)
	return n, err
}

func (d *Dev) readLocked(p []byte, off int64) {
	for i := 0; i < len(p); {
		pg := (off + int64(i)) / pageSize
		po := int((off + int64(i)) % pageSize)
		c := pageSize - po
		if c > len(p)-i {
			c = len(p) - i
		}
		if page, ok := d.pages[pg]; ok {
			copy(p[i:i+c], page[po:po+c])
		} else {
			for j := i; j < i+c; j++ {
				p[j] = 0
			}
		}
		i += c
	}
}

func (d *Dev) Seek(offset int64, whence int) (int64, error) {
	var np int64
	switch whence {
	case io.SeekStart:
		np = offset
	case io.SeekCurrent:
		np = d.pos + offset
	case io.SeekEnd:
		np = d.size + offset
	default:
		return 0, errors.New("memdev: bad whence")
	}
	if np < 0 {
		return 0, errors.New("memdev: negative position")
	}
	d.pos = np
	return np, nil
}

func (d *Dev) Sys() (*os.File, error) { return nil, backend.ErrNotSuitable }

func (d *Dev) Path() string { return "" }

// Writable returns the device itself unless it is read-only.
func (d *Dev) Writable() (backend.WritableFile, error) {
	if d.ReadOnly {
		return nil, backend.ErrIncorrectOpenMode
	}
	if d.NoSync {
		return noSync{d}, nil
	}
	return d, nil
}

type noSync struct{ d *Dev }

func (n noSync) Stat() (fs.FileInfo, error)               { return n.d.Stat() }
func (n noSync) Read(b []byte) (int, error)               { return n.d.Read(b) }
func (n noSync) Close() error                             { return n.d.Close() }
func (n noSync) ReadAt(p []byte, off int64) (int, error)  { return n.d.ReadAt(p, off) }
func (n noSync) Seek(o int64, w int) (int64, error)       { return n.d.Seek(o, w) }
func (n noSync) WriteAt(p []byte, off int64) (int, error) { return n.d.WriteAt(p, off) }

func (d *Dev) Sync() error {
	d.mu.Lock()
	d.Log = append(d.Log, Event{Sync: true})
	d.mu.Unlock()
	return nil
}

// RawWrite changes contents without logging (test set-up).
func (d *Dev) RawWrite(p []byte, off int64) {
	d.mu.Lock()
	d.writeLocked(p, off)
	d.mu.Unlock()
}

func (d *Dev) writeLocked(p []byte, off int64) {
	for i := 0; i < len(p); {
		pg := (off + int64(i)) / pageSize
		po := int((off + int64(i)) % pageSize)
		c := pageSize - po
		if c > len(p)-i {
			c = len(p) - i
		}
		page, ok := d.pages[pg]
		if !ok {
			allZero := true
			for _, x := range p[i : i+c] {
				if x != 0 {
					allZero = false
					break
				}
			}
			if allZero {
				i += c
				continue
			}
			page = make([]byte, pageSize)
			d.pages[pg] = page
		}
		copy(page[po:po+c], p[i:i+c])
		i += c
	}
}

func (d *Dev) WriteAt(p []byte, off int64) (int, error) {
	if off < 0 {
		return 0, errors.New("memdev: negative offset")
	}
	d.mu.Lock()
	defer d.mu.Unlock()
	if d.ReadOnly {
		// a write reaching a read-only device is recorded, and refused
		d.OutOfRange = append(d.OutOfRange, Range{off, off + int64(len(p))})
		return 0, errors.New("memdev: write to read-only device")
	}
	d.writes++
	if d.FailWriteAfter > 0 && d.writes >= d.FailWriteAfter {
		return 0, errors.New("memdev: injected write failure")
	}
	ev := Event{Off: off, Len: len(p)}
	if d.KeepData {
		ev.Data = append([]byte(nil), p...)
	}
	d.Log = append(d.Log, ev)
	end := off + int64(len(p))
	if end > d.size {
		lo := off
		if lo < d.size {
			lo = d.size
		}
		d.OutOfRange = append(d.OutOfRange, Range{lo, end})
	}
	if d.Allowed != nil && len(p) > 0 {
		d.checkAllowed(off, end)
	}
	// the device has a fixed size: bytes past it are dropped (and were recorded above)
	if off < d.size {
		e := end
		if e > d.size {
			e = d.size
		}
		d.writeLocked(p[:e-off], off)
	}
	return len(p), nil
}

func (d *Dev) checkAllowed(lo, hi int64) {
	// subtract allowed ranges from [lo,hi)
	rs := append([]Range(nil), d.Allowed...)
	sort.Slice(rs, func(i, j int) bool { return rs[i].Lo < rs[j].Lo })
	cur := lo
	for _, r := range rs {
		if r.Hi <= cur {
			continue
		}
		if r.Lo >= hi {
			break
		}
		if r.Lo > cur {
			d.OutOfRange = append(d.OutOfRange, Range{cur, min64(r.Lo, hi)})
		}
		if r.Hi > cur {
			cur = r.Hi
		}
		if cur >= hi {
			return
		}
	}
	if cur < hi {
		d.OutOfRange = append(d.OutOfRange, Range{cur, hi})
	}
}

func min64(a, b int64) int64 {
	if a < b {
		return a
	}
	return b
}

// Bytes returns [off, off+n) of the device.
func (d *Dev) Bytes(off int64, n int) []byte {
	b := make([]byte, n)
	d.mu.Lock()
	d.readLocked(b, off)
	d.mu.Unlock()
	return b
}

// Hash returns the SHA-256 of [lo,hi) (sparse-aware: zero pages are hashed as zeros).
func (d *Dev) Hash(lo, hi int64) string {
	h := sha256.New()
	buf := make([]byte, 1<<16)
	zero := make([]byte, 1<<16)
	d.mu.Lock()
	defer d.mu.Unlock()
	for off := lo; off < hi; {
		c := int64(len(buf))
		if c > hi-off {
			c = hi - off
		}
		// fast path for holes
		hole := true
		for pg := off / pageSize; pg <= (off+c-1)/pageSize; pg++ {
			if _, ok := d.pages[pg]; ok {
				hole = false
				break
			}
		}
		if hole {
			h.Write(zero[:c])
		} else {
			d.readLocked(buf[:c], off)
			h.Write(buf[:c])
		}
		off += c
	}
	return hex.EncodeToString(h.Sum(nil))
}

// NonZeroOutside reports the first non-zero byte outside [lo,hi), or -1.
// Used with devices that start blank: any non-zero guard byte was written by the code under test.
func (d *Dev) NonZeroOutside(lo, hi int64) int64 {
	d.mu.Lock()
	defer d.mu.Unlock()
	keys := make([]int64, 0, len(d.pages))
	for k := range d.pages {
		keys = append(keys, k)
	}
	sort.Slice(keys, func(i, j int) bool { return keys[i] < keys[j] })
	for _, k := range keys {
		base := k * pageSize
		if base >= lo && base+pageSize <= hi {
			continue
		}
		for i, x := range d.pages[k] {
			a := base + int64(i)
			if x != 0 && (a < lo || a >= hi) {
				return a
			}
		}
	}
	return -1
}

// PageCount is the number of materialised pages (memory use indicator).
func (d *Dev) PageCount() int { d.mu.Lock(); defer d.mu.Unlock(); return len(d.pages) }

func (d *Dev) String() string { return fmt.Sprintf("memdev(size=%d,pages=%d)", d.size, len(d.pages)) }

// DiffOutside compares two devices outside [lo,hi); returns first differing offset or -1.
func DiffOutside(a, b *Dev, lo, hi int64) int64 {
	keys := map[int64]bool{}
	for k := range a.pages {
		keys[k] = true
	}
	for k := range b.pages {
		keys[k] = true
	}
	ks := make([]int64, 0, len(keys))
	for k := range keys {
		ks = append(ks, k)
	}
	sort.Slice(ks, func(i, j int) bool { return ks[i] < ks[j] })
	pa := make([]byte, pageSize)
	pb := make([]byte, pageSize)
	for _, k := range ks {
		base := k * pageSize
		if base >= lo && base+pageSize <= hi {
			continue
		}
		a.readLocked(pa, base)
		b.readLocked(pb, base)
		for i := range pa {
			off := base + int64(i)
			if pa[i] != pb[i] && (off < lo || off >= hi) {
				return off
			}
		}
	}
	return -1
}

var _ backend.Storage = (*Dev)(nil)
var _ backend.WritableFile = (*Dev)(nil)

// ForEachPage calls fn for every materialised page overlapping [lo,hi), in ascending order, with the
// overlapping part of the page (off is the device offset of data[0]). Pages never written are skipped.
func (d *Dev) ForEachPage(lo, hi int64, fn func(off int64, data []byte)) {
	d.mu.Lock()
	keys := make([]int64, 0, len(d.pages))
	for k := range d.pages {
		base := k * pageSize
		if base+pageSize > lo && base < hi {
			keys = append(keys, k)
		}
	}
	d.mu.Unlock()
	sort.Slice(keys, func(i, j int) bool { return keys[i] < keys[j] })
	buf := make([]byte, pageSize)
	for _, k := range keys {
		base := k * pageSize
		d.mu.Lock()
		copy(buf, d.pages[k])
		d.mu.Unlock()
		a, b := int64(0), int64(pageSize)
		if base < lo {
			a = lo - base
		}
		if base+pageSize > hi {
			b = hi - base
		}
		fn(base+a, buf[a:b])
	}
}
