package memdev

import "sort"

// Extent is a run of device bytes that is not all zero (at the given granularity).
type Extent struct {
	Off  int64
	Data []byte
}

// Extents lists the non-zero content of the device as runs of gran-byte blocks
// (gran must divide the 4096-byte page size), in ascending offset order, clipped to the device size.
// Everything not covered reads as zero. Used to hand a (sparse) device image to the Lean model driver.
func (d *Dev) Extents(gran int) []Extent {
	if gran <= 0 || pageSize%gran != 0 {
		gran = 64
	}
	d.mu.Lock()
	defer d.mu.Unlock()
	keys := make([]int64, 0, len(d.pages))
	for k := range d.pages {
		keys = append(keys, k)
	}
	sort.Slice(keys, func(i, j int) bool { return keys[i] < keys[j] })
	var out []Extent
	for _, k := range keys {
		page := d.pages[k]
		base := k * pageSize
		for o := 0; o < pageSize; o += gran {
			if base+int64(o) >= d.size {
				break
			}
			hi := o + gran
			if base+int64(hi) > d.size {
				hi = int(d.size - base)
			}
			nz := false
			for _, x := range page[o:hi] {
				if x != 0 {
					nz = true
					break
				}
			}
			if !nz {
				continue
			}
			off := base + int64(o)
			if n := len(out); n > 0 && out[n-1].Off+int64(len(out[n-1].Data)) == off {
				out[n-1].Data = append(out[n-1].Data, page[o:hi]...)
			} else {
				out = append(out, Extent{Off: off, Data: append([]byte(nil), page[o:hi]...)})
			}
		}
	}
	return out
}
