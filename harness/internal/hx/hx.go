// Package hx is the engine framework of vharness: seeded PRNG, line protocol
// emitters, distribution counters and the engine registry.
package hx

import (
	"bufio"
	"crypto/sha256"
	"encoding/hex"
	"flag"
	"fmt"
	"os"
	"sort"
	"strings"
	"sync"
)

// Rng is splitmix64; every random choice of a run derives from one state.
type Rng struct{ s uint64 }

func NewRng(seed uint64) *Rng { return &Rng{s: seed*0x9E3779B97F4A7C15 + 0x1234567} }

func (r *Rng) U64() uint64 {
	r.s += 0x9E3779B97F4A7C15
	z := r.s
	z = (z ^ (z >> 30)) * 0xBF58476D1CE4E5B9
	z = (z ^ (z >> 27)) * 0x94D049BB133111EB
	return z ^ (z >> 31)
}
func (r *Rng) Intn(n int) int {
	if n <= 0 {
		return 0
	}
	return int(r.U64() % uint64(n))
}
func (r *Rng) Int63n(n int64) int64 {
	if n <= 0 {
		return 0
	}
	return int64(r.U64() % uint64(n))
}
func (r *Rng) Bool() bool        { return r.U64()&1 == 1 }
func (r *Rng) Chance(p int) bool { return r.Intn(100) < p } // p percent
func (r *Rng) Bytes(n int) []byte {
	b := make([]byte, n)
	for i := 0; i < n; i += 8 {
		v := r.U64()
		for j := 0; j < 8 && i+j < n; j++ {
			b[i+j] = byte(v >> (8 * j))
		}
	}
	return b
}
func (r *Rng) Fork() *Rng          { return NewRng(r.U64()) }
func Pick[T any](r *Rng, xs []T) T { return xs[r.Intn(len(xs))] }

// Ctx is handed to every engine.
type Ctx struct {
	Seed     uint64
	Tier     string // quick | thorough
	Rng      *Rng
	Only     string // if set: run only the case with this id
	Scratch  string // per-run scratch directory
	Args     map[string]string
	w        *bufio.Writer
	mu       sync.Mutex
	stats    map[string]int
	distinct map[string]bool
	samples  int
	cases    int
	fails    int
}

func (c *Ctx) Thorough() bool { return c.Tier == "thorough" }

// N picks a count by tier.
func (c *Ctx) N(quick, thorough int) int {
	if c.Thorough() {
		return thorough
	}
	return quick
}

func (c *Ctx) line(parts ...string) {
	c.mu.Lock()
	c.w.WriteString(strings.Join(parts, "\t"))
	c.w.WriteByte('\n')
	c.mu.Unlock()
}

// Want reports whether the case id should be run (replay filter).
func (c *Ctx) Want(id string) bool {
	return c.Only == "" || c.Only == id || strings.HasPrefix(id, c.Only+"/")
}

// Case emits a model input line: the Lean driver answers with `model <id> <result>`.
func (c *Ctx) Case(id, engineOp string, args ...string) {
	c.line(append([]string{"case", id, engineOp}, args...)...)
}

// Impl emits the implementation's canonical result for case id.
func (c *Ctx) Impl(id string, result ...string) {
	c.line(append([]string{"impl", id}, result...)...)
}

// OK records that the property oracle held on case id.
func (c *Ctx) OK(id string) {
	c.mu.Lock()
	c.cases++
	c.mu.Unlock()
	c.line("oracle", id, "ok")
}

// Fail records a property failure on the real code. tag names the specific
// finding class ("-" if none applies); repro is a replayable description.
func (c *Ctx) Fail(id, tag, msg, repro string) {
	c.mu.Lock()
	c.cases++
	c.fails++
	c.mu.Unlock()
	c.line("oracle", id, "FAIL", tag, clean(msg), clean(repro))
}

// Known reports that a listed finding's witness still fails as recorded (reproduced=true)
// or no longer does.
func (c *Ctx) Known(tag string, reproduced bool, msg string) {
	st := "absent"
	if reproduced {
		st = "reproduced"
	}
	c.line("finding", tag, st, clean(msg))
}

func clean(s string) string {
	s = strings.ReplaceAll(s, "\t", " ")
	s = strings.ReplaceAll(s, "\n", " | ")
	if len(s) > 4000 {
		s = s[:4000] + "..."
	}
	return s
}

// Stat bumps a distribution counter.
func (c *Ctx) Stat(key string) { c.StatN(key, 1) }
func (c *Ctx) StatN(key string, n int) {
	c.mu.Lock()
	c.stats[key] += n
	c.mu.Unlock()
}

// Distinct records a canonical non-trivial case (counted by hash).
func (c *Ctx) Distinct(canon string) {
	h := sha256.Sum256([]byte(canon))
	c.mu.Lock()
	c.distinct[hex.EncodeToString(h[:8])] = true
	c.mu.Unlock()
}

// Sample emits up to 8 written-out cases for the evidence.
func (c *Ctx) Sample(s string) {
	c.mu.Lock()
	if c.samples >= 8 {
		c.mu.Unlock()
		return
	}
	c.samples++
	c.mu.Unlock()
	c.line("sample", clean(s))
}

// Note is free text that goes to the log.
func (c *Ctx) Note(format string, a ...any) { c.line("note", clean(fmt.Sprintf(format, a...))) }

func (c *Ctx) finish() {
	keys := make([]string, 0, len(c.stats))
	for k := range c.stats {
		keys = append(keys, k)
	}
	sort.Strings(keys)
	for _, k := range keys {
		c.line("stat", k, fmt.Sprint(c.stats[k]))
	}
	c.line("stat", "distinct_nontrivial", fmt.Sprint(len(c.distinct)))
	c.line("stat", "oracle_cases", fmt.Sprint(c.cases))
	c.line("stat", "oracle_fails", fmt.Sprint(c.fails))
	c.line("done")
	c.w.Flush()
}

type Engine func(c *Ctx)

// Main is the whole main() of an engine binary (cmd/vh-<engine>): it parses
//
//	--seed N --tier quick|thorough --only <case id> --scratch DIR  k=v ...
//
// runs the engine and writes the line protocol to stdout.
func Main(name string, e Engine) {
	seed := flag.Uint64("seed", 1, "PRNG seed")
	tier := flag.String("tier", "quick", "quick|thorough")
	only := flag.String("only", "", "run only this case id")
	scratch := flag.String("scratch", "", "scratch directory")
	flag.Parse()
	args := map[string]string{}
	for _, a := range flag.Args() {
		if k, v, ok := strings.Cut(a, "="); ok {
			args[k] = v
		}
	}
	if *scratch == "" {
		d, err := os.MkdirTemp("", "vh-"+name)
		if err != nil {
			panic(err)
		}
		defer os.RemoveAll(d)
		*scratch = d
	}
	os.Setenv("TMPDIR", *scratch)
	c := &Ctx{Seed: *seed, Tier: *tier, Rng: NewRng(*seed), Only: *only, Scratch: *scratch, Args: args,
		w: bufio.NewWriterSize(os.Stdout, 1<<20), stats: map[string]int{}, distinct: map[string]bool{}}
	e(c)
	c.finish()
}

func Hex(b []byte) string {
	if len(b) == 0 {
		return "-"
	}
	return hex.EncodeToString(b)
}
