// Package repro is the C14 engine: with reproducible=true and SOURCE_DATE_EPOCH
// fixed, the same FAT history run twice — in SEPARATE PROCESSES, at least 2.1 s
// apart (one FAT timestamp tick), at different offsets inside a larger device —
// gives byte-identical volume ranges; GPT (GUIDs given) / MBR written twice give
// identical bytes; a table read from disk and written back changes no byte.
//
// The engine binary re-executes itself as the child (argument child=<spec file>);
// the child runs the real library on an in-memory device and writes a JSON result.
package repro

import (
	"bytes"
	"encoding/binary"
	"encoding/json"
	"fmt"
	"hash/crc32"
	"io"
	"os"
	"os/exec"
	"path/filepath"
	"strings"
	"sync"
	"time"

	diskfs "github.com/diskfs/go-diskfs"
	"github.com/diskfs/go-diskfs/disk"
	"github.com/diskfs/go-diskfs/filesystem"
	"github.com/diskfs/go-diskfs/filesystem/fat12"
	"github.com/diskfs/go-diskfs/filesystem/fat16"
	"github.com/diskfs/go-diskfs/filesystem/fat32"
	"github.com/diskfs/go-diskfs/partition/gpt"
	"github.com/diskfs/go-diskfs/partition/mbr"

	ml "verif/harness/engines/modeslib"
	"verif/harness/internal/hx"
	"verif/harness/internal/memdev"
)

const (
	KB = int64(1024)
	MB = 1024 * KB
)

type Op struct {
	Op    string `json:"op"` // mkdir | write | append | trunc | rename | remove | setlabel | chtimes | read
	Path  string `json:"p,omitempty"`
	Path2 string `json:"q,omitempty"`
	Len   int    `json:"n,omitempty"`
	Seed  uint64 `json:"s,omitempty"`
}

type GPart struct {
	Start, End uint64
	GUID, Name string
	Type       string
	Attr       uint64
}
type MPart struct {
	Start, Size uint32
	Type        byte
	Boot        bool
}

type Spec struct {
	Kind    string  `json:"kind"`  // fat12 | fat16 | fat32
	Size    int64   `json:"size"`  // volume bytes
	Start   int64   `json:"start"` // volume offset in the device (ignored when Mode == "disk")
	Label   string  `json:"label"`
	Mode    string  `json:"mode"` // direct: fatNN.Create(start) | disk: GPT partition + Disk.CreateFilesystem(Reproducible)
	PartSec uint64  `json:"partsec"`
	Ops     []Op    `json:"ops"`
	GPT     []GPart `json:"gpt"`
	GPTSize int64   `json:"gptsize"`
	MBR     []MPart `json:"mbr"`
}

type Result struct {
	VolHash  string   `json:"vol"`   // SHA-256 of [start, start+size)
	DevHash  string   `json:"dev"`   // whole device (mode disk only: table + volume)
	Outcomes []string `json:"out"`   // ok/err per op
	Pack     [5]int   `json:"pack"`  // ctime, cdate, adate, mtime, mdate words of PROBE.TXT's directory entry (-1: not found)
	Wlist    string   `json:"wlist"` // create's WriteAt list, offsets relative to start: off:len,...
	WSha     string   `json:"wsha"`  // SHA-256 over the create write list (relative offsets and data)
	WCrc     string   `json:"wcrc"`  // create's WriteAt list with a CRC32 of each write's data: off:len:crc,...
	GPTHash  string   `json:"gpth"`  // device hash after writing the GPT
	GPT2     bool     `json:"gpt2"`  // a second write on a fresh device gave identical bytes
	GPTRW    string   `json:"gptrw"` // "" or what changed when the table read from disk was written back
	MBRHash  string   `json:"mbrh"`
	MBR2     bool     `json:"mbr2"`
	MBRRW    string   `json:"mbrrw"`
	MBRSec   string   `json:"mbrsec"` // sector 0 (hex) as mbr.Read saw it before the rewrite
	MBRWs    string   `json:"mbrws"`  // WriteAt log of the rewrite: off:hex;...
	MBRLP    [2]int   `json:"mbrlp"`  // sector sizes of the table read back
	Err      string   `json:"err"`
	Panic    string   `json:"panic"`
	Epoch    string   `json:"epoch"`
	WallUnix int64    `json:"wall"`
}

func data(seed uint64, n int) []byte { return hx.NewRng(seed).Bytes(n) }

func createFAT(b *memdev.Dev, s *Spec) (filesystem.FileSystem, int64, error) {
	if s.Mode == "disk" {
		d, err := diskfs.OpenBackend(b)
		if err != nil {
			return nil, 0, err
		}
		secs := uint64(s.Size / 512)
		if err := d.Partition(ml.GPTOne(s.PartSec, secs)); err != nil {
			return nil, 0, fmt.Errorf("partition: %w", err)
		}
		k, _ := ml.KindByName(s.Kind)
		fs, err := d.CreateFilesystem(disk.FilesystemSpec{Partition: 1, FSType: k.Type, VolumeLabel: s.Label, Reproducible: true})
		return fs, int64(s.PartSec) * 512, err
	}
	switch s.Kind {
	case "fat12":
		fs, err := fat12.Create(b, s.Size, s.Start, 512, s.Label, true)
		return fs, s.Start, err
	case "fat16":
		fs, err := fat16.Create(b, s.Size, s.Start, 512, s.Label, true)
		return fs, s.Start, err
	default:
		fs, err := fat32.Create(b, s.Size, s.Start, 512, s.Label, true)
		return fs, s.Start, err
	}
}

func applyOp(fs filesystem.FileSystem, o Op) error {
	switch o.Op {
	case "mkdir":
		return fs.Mkdir(o.Path)
	case "write", "append", "trunc":
		fl := os.O_CREATE | os.O_RDWR
		if o.Op == "append" {
			fl |= os.O_APPEND
		}
		if o.Op == "trunc" {
			fl |= os.O_TRUNC
		}
		f, err := fs.OpenFile(o.Path, fl)
		if err != nil {
			return err
		}
		defer f.Close()
		_, err = f.Write(data(o.Seed, o.Len))
		return err
	case "rename":
		return fs.Rename(o.Path, o.Path2)
	case "remove":
		return fs.Remove(o.Path)
	case "setlabel":
		return fs.SetLabel(o.Path)
	case "chtimes":
		t := time.Unix(int64(o.Seed%4000000000), 0).UTC()
		return fs.Chtimes(o.Path, t, t.Add(time.Hour), t.Add(2*time.Hour))
	case "read":
		f, err := fs.OpenFile(o.Path, os.O_RDONLY)
		if err != nil {
			return err
		}
		defer f.Close()
		_, err = io.ReadAll(io.LimitReader(f, 1<<20))
		return err
	}
	return fmt.Errorf("unknown op %s", o.Op)
}

// findEntryWords scans the root directory of the volume for the 8.3 name and returns its five date/time words.
func findEntryWords(dev *memdev.Dev, start int64, name11 string) [5]int {
	res := [5]int{-1, -1, -1, -1, -1}
	bs := dev.Bytes(start, 512)
	bps := int64(binary.LittleEndian.Uint16(bs[11:13]))
	spc := int64(bs[13])
	reserved := int64(binary.LittleEndian.Uint16(bs[14:16]))
	nf := int64(bs[16])
	rootEnts := int64(binary.LittleEndian.Uint16(bs[17:19]))
	spf := int64(binary.LittleEndian.Uint16(bs[22:24]))
	if bps == 0 || spc == 0 {
		return res
	}
	var off, n int64
	if rootEnts != 0 {
		off = (reserved + nf*spf) * bps
		n = rootEnts * 32
	} else {
		spf = int64(binary.LittleEndian.Uint32(bs[36:40]))
		off = (reserved + nf*spf) * bps // root cluster 2 = first data cluster
		n = spc * bps
	}
	b := dev.Bytes(start+off, int(n))
	for i := 0; i+32 <= len(b); i += 32 {
		if string(b[i:i+11]) == name11 && b[i+11]&0x0f != 0x0f {
			e := b[i : i+32]
			return [5]int{int(binary.LittleEndian.Uint16(e[14:16])), int(binary.LittleEndian.Uint16(e[16:18])),
				int(binary.LittleEndian.Uint16(e[18:20])), int(binary.LittleEndian.Uint16(e[22:24])), int(binary.LittleEndian.Uint16(e[24:26]))}
		}
	}
	return res
}

func wlist(dev *memdev.Dev, start int64) (string, string, string) {
	var sb, sc strings.Builder
	hs := newSha()
	first := true
	for _, e := range dev.Log {
		if e.Sync {
			continue
		}
		if !first {
			sb.WriteByte(',')
			sc.WriteByte(',')
		}
		first = false
		fmt.Fprintf(&sb, "%d:%d", e.Off-start, e.Len)
		fmt.Fprintf(&sc, "%d:%d:%d", e.Off-start, e.Len, crc32.ChecksumIEEE(e.Data))
		fmt.Fprintf(hs, "%d:%d:", e.Off-start, e.Len)
		hs.Write(e.Data)
	}
	return sb.String(), hs.hex(), sc.String()
}

// label11 is the 11 bytes SetLabel stores for a label ("" = NO NAME; left-justified, blank padded, cut at 11).
func label11(s string) []byte {
	if s == "" {
		s = "NO NAME"
	}
	b := []byte(fmt.Sprintf("%-11.11s", s))
	return b
}

func runChild(specPath string) {
	res := Result{Epoch: os.Getenv("SOURCE_DATE_EPOCH"), WallUnix: time.Now().Unix(), Pack: [5]int{-1, -1, -1, -1, -1}}
	defer func() {
		if e := recover(); e != nil {
			res.Panic = fmt.Sprint(e)
		}
		b, _ := json.Marshal(res)
		os.WriteFile(specPath+".out", b, 0o644)
	}()
	raw, err := os.ReadFile(specPath)
	if err != nil {
		res.Err = err.Error()
		return
	}
	var s Spec
	if err := json.Unmarshal(raw, &s); err != nil {
		res.Err = err.Error()
		return
	}
	if s.Kind != "" {
		vstart := s.Start
		if s.Mode == "disk" {
			vstart = int64(s.PartSec) * 512
		}
		devSize := vstart + s.Size + 64*KB
		dev := memdev.New(devSize)
		fs, start, err := createFAT(dev, &s)
		if err != nil {
			res.Err = "create: " + err.Error()
		} else {
			if s.Mode != "disk" {
				res.Wlist, res.WSha, res.WCrc = wlist(dev, start)
			}
			for _, o := range s.Ops {
				func() {
					defer func() {
						if e := recover(); e != nil {
							res.Outcomes = append(res.Outcomes, "panic")
						}
					}()
					if err := applyOp(fs, o); err != nil {
						res.Outcomes = append(res.Outcomes, "err")
					} else {
						res.Outcomes = append(res.Outcomes, "ok")
					}
				}()
			}
			res.VolHash = dev.Hash(start, start+s.Size)
			if s.Mode == "disk" {
				res.DevHash = dev.Hash(0, devSize)
			}
			res.Pack = findEntryWords(dev, start, "PROBE   TXT")
		}
	}
	if len(s.GPT) > 0 {
		mk := func() *gpt.Table {
			t := &gpt.Table{LogicalSectorSize: 512, PhysicalSectorSize: 512, ProtectiveMBR: true, GUID: ml.DiskGUID}
			for i, p := range s.GPT {
				t.Partitions = append(t.Partitions, &gpt.Partition{Index: i + 1, Start: p.Start, End: p.End, GUID: p.GUID, Name: p.Name,
					Type: gpt.Type(p.Type), Attributes: p.Attr})
			}
			return t
		}
		d1, d2 := memdev.New(s.GPTSize), memdev.New(s.GPTSize)
		// a GPT is written onto a disk whose LBA 0 already holds boot code and a disk signature (hybrid
		// BIOS/UEFI images): identical prior bytes in both; neither Write nor the rewrite of the table read
		// back may touch bytes 0..445
		gboot := data(98, 446)
		d1.RawWrite(gboot, 0)
		d2.RawWrite(gboot, 0)
		e1 := mk().Write(d1, s.GPTSize)
		e2 := mk().Write(d2, s.GPTSize)
		if e1 != nil || e2 != nil {
			res.GPTRW = fmt.Sprintf("write failed: %v / %v", e1, e2)
		} else {
			res.GPTHash = d1.Hash(0, s.GPTSize)
			res.GPT2 = res.GPTHash == d2.Hash(0, s.GPTSize)
			// the disk as another tool may have left it: the same table with boot code in front of the protective
			// record; reading that table and writing it back must change nothing (not even bytes 0..445)
			if !bytes.Equal(d1.Bytes(0, 446), gboot) {
				res.GPTRW = "Table.Write changed bytes in front of the protective MBR record (boot code area 0..445)"
			}
			d1.RawWrite(gboot, 0)
			d2.RawWrite(gboot, 0)
			rt, err := gpt.Read(d1, 512, 512)
			if err != nil {
				res.GPTRW = "read back failed: " + err.Error()
			} else if err := rt.Write(d1, s.GPTSize); err != nil {
				res.GPTRW = "rewrite failed: " + err.Error()
			} else if off := memdev.DiffOutside(d1, d2, 0, 0); off >= 0 && res.GPTRW == "" {
				res.GPTRW = fmt.Sprintf("byte %d differs after read+write (%#x vs %#x)", off, d1.Bytes(off, 1)[0], d2.Bytes(off, 1)[0])
			}
		}
	}
	if len(s.MBR) > 0 {
		mk := func() *mbr.Table {
			t := &mbr.Table{LogicalSectorSize: 512, PhysicalSectorSize: 512}
			for i, p := range s.MBR {
				t.Partitions = append(t.Partitions, &mbr.Partition{Index: i + 1, Start: p.Start, Size: p.Size, Type: mbr.Type(p.Type), Bootable: p.Boot})
			}
			return t
		}
		const sz = 8 * MB
		d1, d2 := memdev.New(sz), memdev.New(sz)
		// an MBR is written into a boot sector that already holds boot code: identical prior bytes in both
		boot := data(99, 446)
		d1.RawWrite(boot, 0)
		d2.RawWrite(boot, 0)
		e1 := mk().Write(d1, sz)
		e2 := mk().Write(d2, sz)
		if e1 != nil || e2 != nil {
			res.MBRRW = fmt.Sprintf("write failed: %v / %v", e1, e2)
		} else {
			res.MBRHash = d1.Hash(0, sz)
			res.MBR2 = res.MBRHash == d2.Hash(0, sz)
			rt, err := mbr.Read(d1, 512, 512)
			res.MBRSec = hx.Hex(d1.Bytes(0, 512))
			d1.ResetLog()
			if err != nil {
				res.MBRRW = "read back failed: " + err.Error()
			} else if err := rt.Write(d1, sz); err != nil {
				res.MBRRW = "rewrite failed: " + err.Error()
			} else if off := memdev.DiffOutside(d1, d2, 0, 0); off >= 0 {
				res.MBRRW = fmt.Sprintf("byte %d differs after read+write", off)
			}
			if err == nil {
				res.MBRLP = [2]int{rt.LogicalSectorSize, rt.PhysicalSectorSize}
				var ws []string
				for _, e := range d1.Log {
					if !e.Sync {
						ws = append(ws, fmt.Sprintf("%d:%s", e.Off, hx.Hex(e.Data)))
					}
				}
				res.MBRWs = strings.Join(ws, ";")
			}
		}
	}
}

// ---- parent ------------------------------------------------------------------------------------

var epochs = []int64{0, 1, 315532799, 315532800, 1700000001, 1 << 31, 4354819199}

var names = []string{"A.TXT", "B.BIN", "LONGFILENAME.DAT", "lower.txt", "DIR/C.TXT", "DIR/SUB/D.BIN", "DIR/Mixed Case Name.txt", "E"}
var dirs = []string{"DIR", "DIR/SUB", "OTHER", "DIR/SUB/DEEPER"}

func genOps(r *hx.Rng, n int) []Op {
	ops := []Op{{Op: "write", Path: "PROBE.TXT", Len: 10, Seed: 5}}
	for i := 0; i < n; i++ {
		switch r.Intn(12) {
		case 0, 1:
			ops = append(ops, Op{Op: "mkdir", Path: hx.Pick(r, dirs)})
		case 2, 3, 4:
			l := r.Intn(5000)
			if r.Chance(20) {
				l = r.Intn(70000)
			}
			ops = append(ops, Op{Op: "write", Path: hx.Pick(r, names), Len: l, Seed: r.U64()})
		case 5:
			ops = append(ops, Op{Op: "append", Path: hx.Pick(r, names), Len: r.Intn(3000), Seed: r.U64()})
		case 6:
			ops = append(ops, Op{Op: "trunc", Path: hx.Pick(r, names), Len: r.Intn(600), Seed: r.U64()})
		case 7:
			a := hx.Pick(r, names)
			b := filepath.ToSlash(filepath.Join(filepath.Dir(a), hx.Pick(r, []string{"R.TXT", "renamed long name.bin", "Z"})))
			ops = append(ops, Op{Op: "rename", Path: a, Path2: b})
		case 8:
			ops = append(ops, Op{Op: "remove", Path: hx.Pick(r, names)})
		case 9:
			ops = append(ops, Op{Op: "setlabel", Path: hx.Pick(r, []string{"LBL", "second lbl", ""})})
		case 10:
			ops = append(ops, Op{Op: "chtimes", Path: hx.Pick(r, names), Seed: r.U64()})
		default:
			ops = append(ops, Op{Op: "read", Path: hx.Pick(r, names)})
		}
	}
	return ops
}

func sizeFor(r *hx.Rng, kind string, big bool) int64 {
	switch kind {
	case "fat12":
		return hx.Pick(r, []int64{360 * KB, 1440 * KB, 2 * MB, 3 * MB, 6 * MB, 12 * MB})
	case "fat16":
		if big {
			return hx.Pick(r, []int64{200 * MB, 600 * MB})
		}
		return hx.Pick(r, []int64{5 * MB, 16 * MB, 40 * MB})
	}
	if big {
		return hx.Pick(r, []int64{300 * MB, 1024 * MB})
	}
	return hx.Pick(r, []int64{1 * MB, 34 * MB, 70 * MB})
}

func genTables(r *hx.Rng, s *Spec) {
	s.GPTSize = int64(8+r.Intn(56)) * MB
	n := 1 + r.Intn(6)
	cur := uint64(2048)
	types := []gpt.Type{gpt.LinuxFilesystem, gpt.EFISystemPartition, gpt.MicrosoftBasicData, gpt.LinuxSwap}
	for i := 0; i < n; i++ {
		l := uint64(1 + r.Intn(1500))
		g := fmt.Sprintf("%08X-%04X-4%03X-8%03X-%012X", uint32(r.U64()), uint16(r.U64()), r.Intn(0xfff), r.Intn(0xfff), r.U64()&0xffffffffffff)
		nm := hx.Pick(r, []string{"", "root", "EFI System", "data-1", "ünïcode", "a name that is fairly long 0123456"})
		s.GPT = append(s.GPT, GPart{Start: cur, End: cur + l - 1, GUID: g, Name: nm, Type: string(hx.Pick(r, types)), Attr: uint64(r.Intn(2)) << uint(r.Intn(3))})
		cur += l + uint64(r.Intn(64))
	}
	m := 1 + r.Intn(4)
	mc := uint32(63)
	mt := []byte{0x83, 0x0c, 0x06, 0x07, 0x82, 0xef}
	for i := 0; i < m; i++ {
		l := uint32(1 + r.Intn(3000))
		s.MBR = append(s.MBR, MPart{Start: mc, Size: l, Type: hx.Pick(r, mt), Boot: r.Chance(25)})
		mc += l + uint32(r.Intn(10))
	}
}

type job struct {
	id         string
	epoch      int64
	a, b       Spec // same history, different start
	ra, rb     *Result
	erra, errb string
}

func runProc(c *hx.Ctx, exe string, idx int, tag string, s *Spec, epoch int64, tz string) (*Result, string) {
	p := filepath.Join(c.Scratch, fmt.Sprintf("spec-%d-%s.json", idx, tag))
	b, _ := json.Marshal(s)
	if err := os.WriteFile(p, b, 0o644); err != nil {
		return nil, err.Error()
	}
	defer os.Remove(p)
	defer os.Remove(p + ".out")
	cmd := exec.Command(exe, "--scratch", c.Scratch, "child="+p)
	cmd.Env = append(os.Environ(), fmt.Sprintf("SOURCE_DATE_EPOCH=%d", epoch), "TZ="+tz)
	cmd.Stdout = io.Discard
	done := make(chan error, 1)
	if err := cmd.Start(); err != nil {
		return nil, "cannot start child: " + err.Error()
	}
	go func() { done <- cmd.Wait() }()
	select {
	case err := <-done:
		if err != nil {
			return nil, "child failed: " + err.Error()
		}
	case <-time.After(10 * time.Minute):
		cmd.Process.Kill()
		return nil, "child timed out"
	}
	ob, err := os.ReadFile(p + ".out")
	if err != nil {
		return nil, "child wrote no result: " + err.Error()
	}
	var r Result
	if err := json.Unmarshal(ob, &r); err != nil {
		return nil, "bad child result: " + err.Error()
	}
	return &r, ""
}

// Run is the engine entry point (and the child when child=<spec> is given).
func Run(c *hx.Ctx) {
	if sp := c.Args["child"]; sp != "" {
		runChild(sp)
		return
	}
	exe, err := os.Executable()
	if err != nil {
		c.Fail("setup", "-", "cannot find own executable: "+err.Error(), "")
		return
	}
	r := c.Rng
	var jobs []*job
	add := func(kind string, size int64, mode string, epoch int64, nops int, tables bool) {
		j := &job{id: fmt.Sprintf("h%d", len(jobs)), epoch: epoch}
		rr := r.Fork()
		s := Spec{Kind: kind, Size: size, Label: hx.Pick(rr, []string{"REPRO", "", "lbl"}), Mode: mode, Ops: genOps(rr, nops)}
		if tables {
			genTables(rr, &s)
		}
		j.a, j.b = s, s
		starts := []int64{0, 512, 1 * MB, 1*MB + 512, 7 * MB, 4096 * MB}
		j.a.Start = hx.Pick(rr, starts)
		for {
			j.b.Start = hx.Pick(rr, starts)
			if j.b.Start != j.a.Start {
				break
			}
		}
		j.a.PartSec, j.b.PartSec = 2048, uint64(2048+8*(1+rr.Intn(500)))
		jobs = append(jobs, j)
	}
	// boundary classes first: every epoch x every FAT kind, short history, direct and through Disk
	for _, e := range epochs {
		for _, k := range []string{"fat12", "fat16", "fat32"} {
			add(k, sizeFor(r, k, false), "direct", e, 6, e == 0)
		}
	}
	for i, k := range []string{"fat12", "fat16", "fat32"} {
		add(k, sizeFor(r, k, false), "disk", epochs[(i*2+1)%len(epochs)], 10, true)
	}
	// random histories
	for i := 0; i < c.N(24, 1500); i++ {
		k := hx.Pick(r, []string{"fat12", "fat16", "fat32"})
		mode := "direct"
		if r.Chance(25) {
			mode = "disk"
		}
		n := 1 + r.Intn(40)
		if c.Thorough() && r.Chance(10) {
			n = 100 + r.Intn(200)
		}
		add(k, sizeFor(r, k, c.Thorough() && r.Chance(8)), mode, hx.Pick(r, epochs), n, r.Chance(40))
	}
	// tables only
	for i := 0; i < c.N(10, 300); i++ {
		j := &job{id: fmt.Sprintf("t%d", i), epoch: hx.Pick(r, epochs)}
		genTables(r.Fork(), &j.a)
		j.b = j.a
		jobs = append(jobs, j)
	}

	// phase A: all first runs (parallel), then wait > one FAT timestamp tick, then all second runs
	par := 12
	runAll := func(second bool) {
		sem := make(chan struct{}, par)
		var wg sync.WaitGroup
		for i, j := range jobs {
			if !c.Want(j.id) {
				continue
			}
			wg.Add(1)
			sem <- struct{}{}
			go func(i int, j *job) {
				defer wg.Done()
				defer func() { <-sem }()
				if second {
					j.rb, j.errb = runProc(c, exe, i, "b", &j.b, j.epoch, "Asia/Tokyo")
				} else {
					j.ra, j.erra = runProc(c, exe, i, "a", &j.a, j.epoch, "UTC")
				}
			}(i, j)
		}
		wg.Wait()
	}
	t0 := time.Now()
	runAll(false)
	tA := time.Now()
	time.Sleep(2100*time.Millisecond + time.Duration(0))
	// make sure the wall clock second (and the 2-second FAT tick) really differs
	for time.Since(tA) < 2100*time.Millisecond {
		time.Sleep(50 * time.Millisecond)
	}
	runAll(true)
	c.Note("phase A %.1fs, phase B %.1fs", tA.Sub(t0).Seconds(), time.Since(tA).Seconds()-2.1)

	for _, j := range jobs {
		if !c.Want(j.id) {
			continue
		}
		judgeJob(c, j)
	}
}

func judgeJob(c *hx.Ctx, j *job) {
	desc := func() string {
		b, _ := json.Marshal(j.a)
		s := string(b)
		if len(s) > 1500 {
			s = s[:1500] + "..."
		}
		return fmt.Sprintf("epoch=%d startA=%d startB=%d partB=%d spec=%s", j.epoch, j.a.Start, j.b.Start, j.b.PartSec, s)
	}
	if j.erra != "" || j.errb != "" {
		c.Fail(j.id, "-", "child process: "+j.erra+" / "+j.errb, desc())
		return
	}
	a, b := j.ra, j.rb
	var probs []string
	if a.Panic != "" || b.Panic != "" {
		probs = append(probs, "panic: "+a.Panic+" / "+b.Panic)
	}
	if a.Epoch != fmt.Sprint(j.epoch) || b.Epoch != fmt.Sprint(j.epoch) {
		probs = append(probs, "child did not see SOURCE_DATE_EPOCH")
	}
	if b.WallUnix-a.WallUnix < 2 {
		probs = append(probs, fmt.Sprintf("harness: runs only %d s apart", b.WallUnix-a.WallUnix))
	}
	if j.a.Kind != "" {
		if a.Err != "" || b.Err != "" {
			if a.Err != b.Err {
				probs = append(probs, "different errors: "+a.Err+" / "+b.Err)
			} else {
				c.Stat("create-refused")
			}
		} else {
			if a.VolHash != b.VolHash {
				probs = append(probs, "volume SHA-256 differs between the two runs")
			}
			if strings.Join(a.Outcomes, ",") != strings.Join(b.Outcomes, ",") {
				probs = append(probs, "operation outcomes differ between the two runs")
			}
			if a.Pack != b.Pack {
				probs = append(probs, fmt.Sprintf("timestamp words differ: %v vs %v", a.Pack, b.Pack))
			}
			if j.a.Mode == "direct" {
				if a.Wlist != b.Wlist {
					probs = append(probs, "Create's write list is not a shift of the same list: "+a.Wlist+" vs "+b.Wlist)
				} else if a.WSha != b.WSha {
					probs = append(probs, "Create wrote different bytes at different starts")
				}
			}
			c.Stat("kind." + j.a.Kind)
			c.Stat("mode." + j.a.Mode)
			c.Stat(fmt.Sprintf("epoch.%d", j.epoch))
			c.Stat(fmt.Sprintf("ops.%d", len(j.a.Ops)/10*10))
			// correspondence: the model's packing of the epoch and its Create write list
			if a.Pack[0] >= 0 {
				c.Case(j.id+"/pack", "repro.pack", fmt.Sprintf("epoch=%d", j.epoch))
				c.Impl(j.id+"/pack", fmt.Sprintf("ctime=%d", a.Pack[0]), fmt.Sprintf("cdate=%d", a.Pack[1]), fmt.Sprintf("adate=%d", a.Pack[2]),
					fmt.Sprintf("mtime=%d", a.Pack[3]), fmt.Sprintf("mdate=%d", a.Pack[4]))
			}
			if j.a.Mode == "direct" {
				c.Case(j.id+"/create", "repro.create", "kind="+j.a.Kind, fmt.Sprintf("size=%d", j.a.Size))
				c.Impl(j.id+"/create", "ws="+a.Wlist)
				// the whole image: every byte Create wrote (CRC32 per WriteAt) against the model's image
				// function of (kind, size, label, epoch) - from BOTH runs (different start, time, TZ)
				c.Case(j.id+"/image", "repro.image", "kind="+j.a.Kind, fmt.Sprintf("size=%d", j.a.Size),
					"label="+hx.Hex(label11(j.a.Label)), fmt.Sprintf("epoch=%d", j.epoch))
				c.Impl(j.id+"/image", "ws="+a.WCrc)
				c.Case(j.id+"/imageB", "repro.image", "kind="+j.a.Kind, fmt.Sprintf("size=%d", j.a.Size),
					"label="+hx.Hex(label11(j.a.Label)), fmt.Sprintf("epoch=%d", j.epoch))
				c.Impl(j.id+"/imageB", "ws="+b.WCrc)
				c.Stat("image-tied." + j.a.Kind)
			}
		}
	}
	if len(j.a.GPT) > 0 {
		if a.GPTRW != "" || b.GPTRW != "" {
			probs = append(probs, "GPT read+write: "+a.GPTRW+" / "+b.GPTRW)
		}
		if !a.GPT2 || !b.GPT2 {
			probs = append(probs, "GPT written twice in one process differs")
		}
		if a.GPTHash != b.GPTHash {
			probs = append(probs, "GPT bytes differ between the two processes")
		}
		c.Stat("tables.gpt")
	}
	if len(j.a.MBR) > 0 {
		if a.MBRRW != "" || b.MBRRW != "" {
			probs = append(probs, "MBR read+write: "+a.MBRRW+" / "+b.MBRRW)
		}
		if !a.MBR2 || !b.MBR2 {
			probs = append(probs, "MBR written twice in one process differs")
		}
		if a.MBRHash != b.MBRHash {
			probs = append(probs, "MBR bytes differ between the two processes")
		}
		if a.MBRSec != "" && a.MBRWs != "" {
			// correspondence with the Table-level model: Read, then Write of what was read (theorem mbr_table_rewrite_idempotent)
			same := "1"
			if a.MBRRW != "" {
				same = "0"
			}
			c.Case(j.id+"/mbrrw", "repro.mbrrw", "sec="+a.MBRSec, fmt.Sprintf("size=%d", 8*MB), "lbs=512", "pbs=512")
			c.Impl(j.id+"/mbrrw", "res=ok", fmt.Sprintf("lss=%d", a.MBRLP[0]), fmt.Sprintf("pss=%d", a.MBRLP[1]), "ws="+a.MBRWs, "same="+same)
		}
		c.Stat("tables.mbr")
	}
	if len(probs) == 0 {
		c.OK(j.id)
		c.Distinct(desc())
		c.Sample(desc())
		return
	}
	c.Fail(j.id, "-", strings.Join(probs, "; "), desc())
}
