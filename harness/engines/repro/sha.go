package repro

import (
	"crypto/sha256"
	"encoding/hex"
	"hash"
)

type shaW struct{ h hash.Hash }

func newSha() *shaW                         { return &shaW{sha256.New()} }
func (s *shaW) Write(p []byte) (int, error) { return s.h.Write(p) }
func (s *shaW) hex() string                 { return hex.EncodeToString(s.h.Sum(nil)) }
