// Package gpt is the C02 engine: partition tables read back as written and are valid on disk.
package gpt

import (
	"bytes"
	"encoding/hex"
	"fmt"
	"hash/crc32"
	"strings"

	"github.com/diskfs/go-diskfs/disk"
	"github.com/diskfs/go-diskfs/partition"
	"github.com/diskfs/go-diskfs/partition/gpt"
	"github.com/diskfs/go-diskfs/partition/mbr"

	gc "verif/harness/engines/gptcommon"
	"verif/harness/internal/hx"
	"verif/harness/internal/memdev"
)

// Run is the engine entry point.
func Run(c *hx.Ctx) {
	cfg, probes := gc.ProbeCfg()
	for _, tag := range []string{"gpt-name-utf16-overflow", "gpt-pmbr-size-truncated", "gpt-no-min-disk-size"} {
		c.Known(tag, probes[tag].Reproduced, probes[tag].Msg)
	}
	pi := gc.ProbeMBRIndex()
	c.Known("mbr-slot-by-position", pi.Reproduced, pi.Msg)
	pe := gc.ProbeMBRExtra()
	c.Known("mbr-extra-entries-dropped", pe.Reproduced, pe.Msg)
	c.Note("model cfg=%s (1 = repaired) nameUnitCheck,pmbrClamp,minDiskCheck,arrayBounded", cfg)

	crcCases(c)
	gptCases(c, cfg)
	foreignCases(c, cfg)
	mbrCases(c)
	mbrTableCases(c)
	mbrDecodeCases(c)
}

// crcCases cross-checks the Lean CRC32 against hash/crc32.
func crcCases(c *hx.Ctx) {
	r := c.Rng.Fork()
	lens := []int{0, 1, 2, 3, 4, 7, 8, 9, 92, 128, 255, 256, 257, 512, 16384}
	for i := 0; i < c.N(40, 400); i++ {
		id := fmt.Sprintf("crc%d", i)
		n := r.Intn(300)
		if i < len(lens) {
			n = lens[i]
		}
		b := r.Bytes(n)
		if !c.Want(id) {
			continue
		}
		c.Case(id, "gpt.crc", "data="+hx.Hex(b))
		c.Impl(id, fmt.Sprintf("crc=%d", crc32.ChecksumIEEE(b)))
	}
}

type gptCase struct {
	id      string
	spec    gc.TableSpec
	exp     []gc.Expect
	wf      bool
	size    int64
	prior   int // 0 blank, 1 another table, 2 random bytes in the table regions, 3 MBR table
	viaDisk bool
	desc    string
}

func sizeClass(r *hx.Rng, lss int, i int) (int64, string) {
	l := int64(lss)
	min := int64(2*(16384/lss) + 3)
	switch i % 12 {
	case 0:
		return min * l, "min"
	case 1:
		return (min+1)*l + int64(r.Intn(lss)), "min+1"
	case 2:
		return (min + int64(1+r.Intn(40))) * l, "near-min"
	case 3:
		return (int64(1)<<32 + int64(r.Intn(3)) - 1) * l, "2^32-sectors"
	case 4:
		return (int64(1)<<32 + int64(1+r.Intn(1<<20))) * l, ">2^32-sectors"
	case 5:
		return int64(3)<<40 + int64(r.Intn(1<<30))*l, ">2TiB"
	case 6:
		// undersized: Write should refuse it
		return (int64(16384/lss) + 2 + int64(r.Intn(int(min)-16384/lss-2))) * l, "below-min"
	case 7:
		return int64(r.Intn(int(16384/lss)+2)) * l, "tiny"
	default:
		return (int64(2048) + int64(r.Intn(1<<16))) * l, "small"
	}
}

func gptCases(c *hx.Ctx, cfg gc.Cfg) {
	r := c.Rng.Fork()
	n := c.N(420, 12000)
	for i := 0; i < n; i++ {
		id := fmt.Sprintf("g%d", i)
		lss := hx.Pick(r, []int{512, 512, 4096})
		size, scls := sizeClass(r, lss, r.Intn(24))
		if i < 24 {
			lss = []int{512, 4096}[i%2]
			size, scls = sizeClass(r, lss, i/2)
		}
		o := gc.GenOpts{LSS: lss, Size: size, NParts: -1, Errors: r.Chance(12), Overflow: r.Chance(5), Wild: r.Chance(50), BlankGUIDs: true}
		spec, exp, wf, _ := gc.GenTable(r, o)
		gcase := gptCase{id: id, spec: spec, exp: exp, wf: wf, size: size, prior: r.Intn(5), viaDisk: r.Bool()}
		if gcase.prior > 3 {
			gcase.prior = 0
		}
		gcase.desc = fmt.Sprintf("gpt lss=%d size=%d(%s) parts=%d prior=%d viaDisk=%v pmbr=%v wf=%v", lss, size, scls, len(spec.Parts), gcase.prior, gcase.viaDisk, spec.PMBR, wf)
		priorSeed := r.U64()
		if !c.Want(id) {
			continue
		}
		runGPT(c, cfg, gcase, hx.NewRng(priorSeed), scls)
	}
}

func fillPrior(r *hx.Rng, d *memdev.Dev, size int64, lss int, kind int) {
	switch kind {
	case 1:
		// a different, valid table (possibly written for the other sector size)
		olss := hx.Pick(r, []int{512, 4096})
		if int64(2*(16384/olss)+8)*int64(olss) > size {
			olss = lss
		}
		sp, _, _, _ := gc.GenTable(r, gc.GenOpts{LSS: olss, Size: size, NParts: 1 + r.Intn(6)})
		sp.PMBR = true
		func() {
			defer func() { _ = recover() }()
			_ = sp.ToTable().Write(d, size)
		}()
	case 2:
		l := int64(lss)
		head := (2 + 16384/l) * l
		if head > size {
			head = size
		}
		d.RawWrite(r.Bytes(int(head)), 0)
		tail := (1 + 16384/l) * l
		if tail < size {
			d.RawWrite(r.Bytes(int(tail)), size/l*l-tail)
		}
	case 3:
		if size >= 512 {
			t := &mbr.Table{LogicalSectorSize: lss, PhysicalSectorSize: lss, Partitions: []*mbr.Partition{
				{Index: 1, Bootable: true, Type: mbr.Linux, Start: 2048, Size: 4096}, {Index: 2, Type: mbr.Fat32LBA, Start: 8192, Size: 100}}}
			_ = t.Write(d, size)
		}
	}
	d.ResetLog()
}

func runGPT(c *hx.Ctx, cfg gc.Cfg, g gptCase, pr *hx.Rng, scls string) {
	id, lss, size := g.id, g.spec.LSS, g.size
	d := memdev.New(size)
	fillPrior(pr, d, size, lss, g.prior)
	tb := g.spec.ToTable()
	var werr error
	var panicked any
	func() {
		defer func() {
			if e := recover(); e != nil {
				panicked = e
			}
		}()
		if g.viaDisk {
			dk := &disk.Disk{Backend: d, Size: size, LogicalBlocksize: int64(lss), PhysicalBlocksize: int64(lss)}
			werr = dk.Partition(tb)
		} else {
			werr = tb.Write(d, size)
		}
	}()
	// ---- model input: the table as handed in, with the GUIDs the library generated filled in
	spec := g.spec
	if spec.BlankGUID {
		spec.GUID, _ = gc.ParseGUID(tb.GUID)
	}
	parts := append([]gc.PartSpec(nil), spec.Parts...)
	for i := range parts {
		if parts[i].BlankGUID {
			parts[i].GUID, _ = gc.ParseGUID(tb.Partitions[i].GUID)
		}
	}
	pm := "0"
	if spec.PMBR {
		pm = "1"
	}
	wid := id + "/w"
	c.Case(wid, "gpt.write", "cfg="+cfg.String(), fmt.Sprintf("size=%d", size), fmt.Sprintf("lss=%d", lss), "pmbr="+pm,
		"guid="+hex.EncodeToString(spec.GUID[:]), "parts="+gc.SpecPartsStr(parts))
	maxUnits := 0
	for _, p := range spec.Parts {
		if u := gc.UTF16Len(p.Name); u > maxUnits && len([]rune(p.Name)) <= 36 {
			maxUnits = u
		}
	}
	c.Stat("size=" + scls)
	c.Stat(fmt.Sprintf("lss=%d", lss))
	switch {
	case panicked != nil:
		c.Impl(wid, "res=panic")
		if maxUnits > 36 {
			c.Fail(id, "gpt-name-utf16-overflow", fmt.Sprintf("Table.Write panicked: %v", panicked), g.desc)
		} else {
			c.Fail(id, "-", fmt.Sprintf("Table.Write panicked: %v", panicked), g.desc)
		}
		c.Stat("write=panic")
		return
	case werr != nil:
		c.Impl(wid, "res=err")
		c.Stat("write=refused")
		c.OK(id) // nothing was accepted: the property says nothing
		return
	}
	c.Stat("write=accepted")
	geo := tableGeo(tb)
	c.Impl(wid, "res=ok", "ws="+gc.WriteLogStr(d), "parts="+gc.LibPartsStr(tb.Partitions), "geo="+geo)

	// ---- the property, evaluated on the real code and the real bytes
	var problems []string
	layout := false // problem explained by an undersized disk
	pmbrOnly := true
	add := func(isPMBRSize bool, s string) {
		problems = append(problems, s)
		if !isPMBRSize {
			pmbrOnly = false
		}
	}
	var rt *gpt.Table
	var rerr error
	func() {
		defer func() {
			if e := recover(); e != nil {
				rerr = fmt.Errorf("panic: %v", e)
			}
		}()
		rt, rerr = gpt.Read(d, lss, lss)
	}()
	if rerr != nil {
		add(false, "gpt.Read of the written table failed: "+rerr.Error())
	} else {
		c.Case(id+"/r", "gpt.read", "cfg="+cfg.String(), fmt.Sprintf("size=%d", size), fmt.Sprintf("lss=%d", lss), "dev="+gc.DevStr(d))
		c.Impl(id+"/r", "res=ok", gc.LibTableStr(rt), "ranges="+gc.LibRangesStr(rt))
		// read-then-rewrite (C14 clause; theorem gpt_write_idempotent): write the table that was just read back
		// onto a copy of the device; the model does the same on the same bytes, and no byte may change
		{
			d2 := d.Clone()
			d2.ResetLog()
			var rwErr error
			var rwPanic any
			func() {
				defer func() {
					if e := recover(); e != nil {
						rwPanic = e
					}
				}()
				rwErr = rt.Write(d2, size)
			}()
			c.Case(id+"/i", "gpt.rewrite", "cfg="+cfg.String(), fmt.Sprintf("size=%d", size), fmt.Sprintf("lss=%d", lss), "dev="+gc.DevStr(d))
			switch {
			case rwPanic != nil:
				c.Impl(id+"/i", "res=panic")
				add(false, fmt.Sprintf("rewriting the table that was read back panicked: %v", rwPanic))
			case rwErr != nil:
				c.Impl(id+"/i", "res=err")
				c.Stat("rewrite=refused")
			default:
				same := "1"
				if off := memdev.DiffOutside(d, d2, 0, 0); off >= 0 {
					same = "0"
					add(false, fmt.Sprintf("rewriting the table that was read back changed the device (first difference at byte %d)", off))
				}
				c.Impl(id+"/i", "res=ok", "ws="+gc.WriteLogStr(d2), "same="+same)
				c.Stat("rewrite=same" + same)
			}
		}
		if rt.RecoveredFromBackup {
			add(false, "a completed Write reads back from the backup copy")
		}
		if g.wf {
			for _, s := range compareParts(rt.Partitions, g.exp) {
				add(false, "gpt.Read: "+s)
			}
		}
		if !spec.BlankGUID && !strings.EqualFold(rt.GUID, gc.GUIDString(spec.GUID)) {
			add(false, fmt.Sprintf("disk GUID reads back as %s, written %s", rt.GUID, gc.GUIDString(spec.GUID)))
		}
		if spec.PMBR && !rt.ProtectiveMBR {
			c.Stat(fmt.Sprintf("note.pmbr-flag-reads-false.lss=%d", lss))
		}
	}
	// partition.Read must see the same GPT
	if pt, err := safeTable(func() (partition.Table, error) { return partition.Read(d, lss, lss) }); err != nil {
		add(false, "partition.Read failed: "+err.Error())
	} else if gt, ok := pt.(*gpt.Table); !ok {
		add(false, fmt.Sprintf("partition.Read returned a %s table", pt.Type()))
	} else if rt != nil && gc.LibPartsStr(gt.Partitions) != gc.LibPartsStr(rt.Partitions) {
		add(false, "partition.Read and gpt.Read disagree")
	}
	// Disk.GetPartitionTable / GetPartition byte ranges
	if g.wf {
		dk := &disk.Disk{Backend: d, Size: size, LogicalBlocksize: int64(lss), PhysicalBlocksize: int64(lss)}
		if _, err := safeTable(func() (partition.Table, error) { return dk.GetPartitionTable() }); err != nil {
			add(false, "Disk.GetPartitionTable failed: "+err.Error())
		} else {
			for _, e := range g.exp {
				if e.End >= (1<<62)/uint64(lss) {
					continue // byte offsets not representable in the API's int64
				}
				p, err := dk.GetPartition(e.Index)
				if err != nil {
					add(false, fmt.Sprintf("Disk.GetPartition(%d): %v", e.Index, err))
					continue
				}
				if p.GetStart() != int64(e.Start)*int64(lss) || p.GetSize() != int64(e.Size) {
					add(false, fmt.Sprintf("Disk.GetPartition(%d) reports [%d,+%d), want [%d,+%d)", e.Index, p.GetStart(), p.GetSize(), int64(e.Start)*int64(lss), e.Size))
				}
			}
		}
	}
	// independent validity
	view, bad := gc.ValidateGPT(d, size, lss, spec.PMBR)
	if len(bad) > 0 && uint64(size)/uint64(lss) < uint64(2*(16384/lss)+3) {
		layout = true
	}
	// the Lean validity specification (Spec/GptValid.lean: GptValid / PmbrValid, written from the UEFI
	// rules) judges the same real bytes in the model driver; its verdict must equal this oracle's
	{
		gptOK, pmbrOK := true, true
		for _, b := range bad {
			if strings.HasPrefix(b, "protective MBR") {
				pmbrOK = false
			} else {
				gptOK = false
			}
		}
		b2s := func(b bool) string {
			if b {
				return "1"
			}
			return "0"
		}
		pv, used := "-", "-"
		if spec.PMBR {
			pv = b2s(pmbrOK)
		}
		if gptOK && view != nil {
			used = fmt.Sprint(len(view.Parts))
		}
		c.Case(id+"/v", "gpt.valid", fmt.Sprintf("size=%d", size), fmt.Sprintf("lss=%d", lss), "pmbr="+pm, "dev="+gc.DevStr(d))
		c.Impl(id+"/v", "gpt="+b2s(gptOK), "pmbr="+pv, "used="+used)
		c.Stat("lean-spec-judged=" + b2s(gptOK && pmbrOK))
	}
	for _, b := range bad {
		isP := strings.HasPrefix(b, "protective MBR does not cover the disk")
		add(isP, "independent parser: "+b)
		if strings.Contains(b, "overlap") || strings.Contains(b, "not between") || strings.Contains(b, "beyond the end") || strings.Contains(b, "fewer than 3") ||
			strings.Contains(b, "FirstUsableLBA") {
			layout = true
		}
	}
	if view != nil && g.wf {
		for _, s := range compareRaw(view.Parts, g.exp) {
			add(false, "independent parser: "+s)
		}
		if !spec.BlankGUID && view.DiskGUID != spec.GUID {
			add(false, "independent parser: disk GUID differs")
		}
		if rt != nil {
			if g2, _ := gc.ParseGUID(rt.GUID); g2 != view.DiskGUID {
				add(false, "gpt.Read and the independent parser disagree on the disk GUID")
			}
		}
	}
	sectors := uint64(size) / uint64(lss)
	minSec := uint64(2*(16384/lss) + 3)
	switch {
	case len(problems) == 0:
		c.OK(id)
	case sectors < minSec && layout:
		c.Fail(id, "gpt-no-min-disk-size", strings.Join(problems, "; "), g.desc)
	case pmbrOnly && sectors-1 > 0xFFFFFFFF:
		c.Fail(id, "gpt-pmbr-size-truncated", strings.Join(problems, "; "), g.desc)
	default:
		c.Fail(id, "-", strings.Join(problems, "; "), g.desc)
	}
	if g.wf && len(g.exp) > 0 {
		c.Distinct(g.desc + gc.SpecPartsStr(parts))
	}
	c.Stat(fmt.Sprintf("prior=%d", g.prior))
	switch n := len(spec.Parts); {
	case n == 0:
		c.Stat("parts=0")
	case n == 1:
		c.Stat("parts=1")
	case n == 128:
		c.Stat("parts=128")
	case n > 8:
		c.Stat("parts=9..127")
	default:
		c.Stat("parts=2..8")
	}
	if maxUnits == 36 {
		c.Stat("name=36units")
	}
	c.Sample(g.desc)
}

func tableGeo(t *gpt.Table) string {
	s := gc.LibTableStr(t) // backup pmbr guid geo parts
	for _, f := range strings.Split(s, "\t") {
		if strings.HasPrefix(f, "geo=") {
			xs := strings.Split(strings.TrimPrefix(f, "geo="), ",")
			return strings.Join(xs[:4], ",")
		}
	}
	return ""
}

func safeTable(f func() (partition.Table, error)) (t partition.Table, err error) {
	defer func() {
		if e := recover(); e != nil {
			err = fmt.Errorf("panic: %v", e)
		}
	}()
	return f()
}

func compareParts(got []*gpt.Partition, exp []gc.Expect) []string {
	var out []string
	if len(got) != len(exp) {
		out = append(out, fmt.Sprintf("%d partitions read back, %d written", len(got), len(exp)))
	}
	for i := 0; i < len(got) && i < len(exp); i++ {
		p, e := got[i], exp[i]
		ty, _ := gc.ParseGUID(string(p.Type))
		gu, err := gc.ParseGUID(p.GUID)
		var diffs []string
		if p.Index != e.Index {
			diffs = append(diffs, fmt.Sprintf("index %d want %d", p.Index, e.Index))
		}
		if p.Start != e.Start || p.End != e.End || p.Size != e.Size {
			diffs = append(diffs, fmt.Sprintf("start/end/size %d/%d/%d want %d/%d/%d", p.Start, p.End, p.Size, e.Start, e.End, e.Size))
		}
		if ty != e.Type {
			diffs = append(diffs, fmt.Sprintf("type %s want %s", p.Type, gc.GUIDString(e.Type)))
		}
		if err != nil || (!e.AnyGUID && gu != e.GUID) || (e.AnyGUID && gu == [16]byte{}) {
			diffs = append(diffs, fmt.Sprintf("GUID %s want %s", p.GUID, gc.GUIDString(e.GUID)))
		}
		if p.Attributes != e.Attrs {
			diffs = append(diffs, fmt.Sprintf("attributes %#x want %#x", p.Attributes, e.Attrs))
		}
		if p.Name != e.Name {
			diffs = append(diffs, fmt.Sprintf("name %q want %q", p.Name, e.Name))
		}
		if len(diffs) > 0 {
			out = append(out, fmt.Sprintf("partition #%d: %s", i, strings.Join(diffs, ", ")))
			if len(out) > 4 {
				break
			}
		}
	}
	return out
}

func compareRaw(got []gc.RawPart, exp []gc.Expect) []string {
	var out []string
	if len(got) != len(exp) {
		out = append(out, fmt.Sprintf("%d used entries on disk, %d written", len(got), len(exp)))
	}
	for i := 0; i < len(got) && i < len(exp); i++ {
		p, e := got[i], exp[i]
		if p.Index != e.Index || p.Start != e.Start || p.End != e.End || p.Type != e.Type || (!e.AnyGUID && p.GUID != e.GUID) || p.Attrs != e.Attrs || p.Name != e.Name {
			out = append(out, fmt.Sprintf("entry %d on disk is {%d %d %d %x %x %#x %q}, written {%d %d %d %x %x %#x %q}", i,
				p.Index, p.Start, p.End, p.Type, p.GUID, p.Attrs, p.Name, e.Index, e.Start, e.End, e.Type, e.GUID, e.Attrs, e.Name))
			if len(out) > 4 {
				break
			}
		}
	}
	return out
}

// ---------------------------------------------------------------------------------------------
// MBR

func mbrCases(c *hx.Ctx) {
	r := c.Rng.Fork()
	n := c.N(300, 20000)
	for i := 0; i < n; i++ {
		id := fmt.Sprintf("m%d", i)
		lss := hx.Pick(r, []int{512, 512, 4096})
		np := r.Intn(5)
		if i < 5 {
			np = i
		}
		var ps []*mbr.Partition
		byPos := true
		for k := 0; k < np; k++ {
			p := &mbr.Partition{Index: k + 1, Bootable: r.Chance(30), Type: mbr.Type(r.Intn(256)), Start: uint32(r.U64()), Size: uint32(r.U64()),
				StartHead: byte(r.Intn(256)), StartSector: byte(r.Intn(256)), StartCylinder: byte(r.Intn(256)),
				EndHead: byte(r.Intn(256)), EndSector: byte(r.Intn(256)), EndCylinder: byte(r.Intn(256))}
			switch r.Intn(6) {
			case 0:
				p.Start, p.Size = 0xFFFFFFFF, 0xFFFFFFFF
			case 1:
				p.Start, p.Size = uint32(1+r.Intn(1<<20)), uint32(1+r.Intn(1<<20))
			case 2:
				p.Start, p.Size = 0x80000000+uint32(r.Intn(4))-2, 1
			case 3:
				p.StartHead, p.StartSector, p.StartCylinder, p.EndHead, p.EndSector, p.EndCylinder = 0, 0, 0, 0, 0, 0
			}
			ps = append(ps, p)
		}
		if np > 0 && r.Chance(12) {
			// indices that do not follow the position in the slice
			byPos = false
			perm := []int{1, 2, 3, 4}
			for a := 3; a > 0; a-- {
				b := r.Intn(a + 1)
				perm[a], perm[b] = perm[b], perm[a]
			}
			same := true
			for k := range ps {
				ps[k].Index = perm[k]
				if perm[k] != k+1 {
					same = false
				}
			}
			byPos = same
		}
		prior := r.Intn(3)
		viaDisk := r.Bool()
		pseed := r.U64()
		if !c.Want(id) {
			continue
		}
		runMBR(c, id, lss, ps, byPos, prior, viaDisk, hx.NewRng(pseed))
	}
}

func runMBR(c *hx.Ctx, id string, lss int, ps []*mbr.Partition, byPos bool, prior int, viaDisk bool, pr *hx.Rng) {
	size := int64(8 << 20)
	d := memdev.New(size)
	if prior == 1 {
		d.RawWrite(pr.Bytes(1024), 0)
	} else if prior == 2 {
		b := pr.Bytes(512)
		b[510], b[511] = 0x55, 0xAA
		d.RawWrite(b, 0)
	}
	before := d.Bytes(0, 1024)
	d.ResetLog()
	desc := fmt.Sprintf("mbr lss=%d prior=%d viaDisk=%v parts=%s", lss, prior, viaDisk, gc.MbrPartsStr(ps))
	// what has to read back: four slots
	type slot struct {
		idx         int
		boot        bool
		typ         byte
		start, size uint32
		chs         [6]byte
	}
	var exp [4]slot
	for k := 0; k < 4; k++ {
		exp[k].idx = k + 1
	}
	for k, p := range ps {
		exp[k] = slot{p.Index, p.Bootable, byte(p.Type), p.Start, p.Size, [6]byte{p.StartHead, p.StartSector, p.StartCylinder, p.EndHead, p.EndSector, p.EndCylinder}}
	}
	c.Case(id+"/w", "mbr.write", "parts="+gc.MbrPartsStr(ps))
	t := &mbr.Table{LogicalSectorSize: lss, PhysicalSectorSize: lss, Partitions: ps}
	var werr error
	var panicked any
	func() {
		defer func() {
			if e := recover(); e != nil {
				panicked = e
			}
		}()
		if viaDisk {
			dk := &disk.Disk{Backend: d, Size: size, LogicalBlocksize: int64(lss), PhysicalBlocksize: int64(lss)}
			werr = dk.Partition(t)
		} else {
			werr = t.Write(d, size)
		}
	}()
	if panicked != nil {
		c.Impl(id+"/w", "ws=panic")
		c.Fail(id, "-", fmt.Sprintf("mbr Write panicked: %v", panicked), desc)
		return
	}
	if werr != nil {
		c.Impl(id+"/w", "ws=err")
		c.OK(id)
		c.Stat("mbr.refused")
		return
	}
	var ws []string
	for _, e := range d.Log {
		if !e.Sync {
			ws = append(ws, fmt.Sprintf("%d:%s", e.Off, hex.EncodeToString(e.Data)))
		}
	}
	c.Impl(id+"/w", "ws="+strings.Join(ws, ";"))
	var problems []string
	indexOnly := true
	add := func(isIndex bool, s string) {
		problems = append(problems, s)
		if !isIndex {
			indexOnly = false
		}
	}
	rt, rerr := func() (t *mbr.Table, err error) {
		defer func() {
			if e := recover(); e != nil {
				err = fmt.Errorf("panic: %v", e)
			}
		}()
		return mbr.Read(d, lss, lss)
	}()
	if rerr != nil {
		add(false, "mbr.Read failed: "+rerr.Error())
	} else {
		var rs []string
		for _, p := range rt.Partitions {
			rs = append(rs, fmt.Sprintf("%d:%d:%d", p.Index, p.GetStart(), p.GetSize()))
		}
		c.Case(id+"/r", "mbr.read", fmt.Sprintf("size=%d", size), fmt.Sprintf("lss=%d", lss), "dev="+gc.DevStr(d))
		c.Impl(id+"/r", "res=ok", "sig="+uuidDec(rt.UUID()),
			"parts="+gc.MbrPartsStr(rt.Partitions), "ranges="+strings.Join(rs, ";"))
		// read-then-rewrite (theorem mbr_write_idempotent): no byte may change
		{
			d2 := d.Clone()
			d2.ResetLog()
			var rwErr error
			func() {
				defer func() {
					if e := recover(); e != nil {
						rwErr = fmt.Errorf("panic: %v", e)
					}
				}()
				rwErr = rt.Write(d2, size)
			}()
			c.Case(id+"/i", "mbr.rewrite", fmt.Sprintf("size=%d", size), "dev="+gc.DevStr(d))
			if rwErr != nil {
				c.Impl(id+"/i", "res=err")
				add(false, "rewriting the MBR table that was read back failed: "+rwErr.Error())
			} else {
				var ws2 []string
				for _, e := range d2.Log {
					if !e.Sync {
						ws2 = append(ws2, fmt.Sprintf("%d:%s", e.Off, hex.EncodeToString(e.Data)))
					}
				}
				same := "1"
				if off := memdev.DiffOutside(d, d2, 0, 0); off >= 0 {
					same = "0"
					add(false, fmt.Sprintf("rewriting the MBR table that was read back changed byte %d", off))
				}
				c.Impl(id+"/i", "res=ok", "ws="+strings.Join(ws2, ";"), "same="+same)
				c.Stat("mbr.rewrite=same" + same)
			}
		}
		if len(rt.Partitions) != 4 {
			add(false, fmt.Sprintf("%d slots read back", len(rt.Partitions)))
		} else {
			for k, p := range rt.Partitions {
				e := exp[k]
				got := slot{e.idx, p.Bootable, byte(p.Type), p.Start, p.Size, [6]byte{p.StartHead, p.StartSector, p.StartCylinder, p.EndHead, p.EndSector, p.EndCylinder}}
				if got != e {
					add(false, fmt.Sprintf("slot %d reads back %+v, written %+v", k, got, e))
				}
				if p.Index != e.idx {
					add(true, fmt.Sprintf("partition written with Index %d reads back with index %d", e.idx, p.Index))
				}
				if p.GetStart() != int64(e.start)*int64(lss) || p.GetSize() != int64(e.size)*int64(lss) {
					add(false, fmt.Sprintf("slot %d byte range [%d,+%d), want [%d,+%d)", k, p.GetStart(), p.GetSize(), int64(e.start)*int64(lss), int64(e.size)*int64(lss)))
				}
			}
		}
		wantUUID := fmt.Sprintf("%02x%02x%02x%02x", before[443], before[442], before[441], before[440])
		if rt.UUID() != wantUUID {
			add(false, fmt.Sprintf("disk identity %s, bytes 440..443 were %s", rt.UUID(), wantUUID))
		}
	}
	// partition.Read: no GPT on these disks, so it has to be the MBR
	if pt, err := safeTable(func() (partition.Table, error) { return partition.Read(d, lss, lss) }); err != nil {
		add(false, "partition.Read failed: "+err.Error())
	} else if _, ok := pt.(*mbr.Table); !ok {
		if prior != 1 { // random bytes at LBA 1 could only by a miracle be a GPT header
			add(false, "partition.Read did not return the MBR table")
		}
	}
	// Disk.GetPartition
	dk := &disk.Disk{Backend: d, Size: size, LogicalBlocksize: int64(lss), PhysicalBlocksize: int64(lss)}
	if _, err := safeTable(func() (partition.Table, error) { return dk.GetPartitionTable() }); err != nil {
		add(false, "Disk.GetPartitionTable failed: "+err.Error())
	} else {
		for k := 0; k < len(ps); k++ {
			p, err := dk.GetPartition(k + 1)
			if err != nil {
				add(false, fmt.Sprintf("Disk.GetPartition(%d): %v", k+1, err))
			} else if p.GetStart() != int64(exp[k].start)*int64(lss) || p.GetSize() != int64(exp[k].size)*int64(lss) {
				add(false, fmt.Sprintf("Disk.GetPartition(%d) reports [%d,+%d)", k+1, p.GetStart(), p.GetSize()))
			}
		}
	}
	// independent parser
	raw, bad := gc.ParseMBR(d)
	for _, b := range bad {
		add(false, "independent parser: "+b)
	}
	for k := 0; k < 4; k++ {
		e := exp[k]
		wb := byte(0)
		if e.boot {
			wb = 0x80
		}
		if raw[k].Boot != wb || raw[k].Type != e.typ || raw[k].Start != e.start || raw[k].Size != e.size || raw[k].CHS != e.chs {
			add(false, fmt.Sprintf("independent parser: slot %d on disk %+v, written %+v", k, raw[k], e))
		}
	}
	after := d.Bytes(0, 1024)
	if !bytes.Equal(before[:446], after[:446]) || !bytes.Equal(before[512:], after[512:]) {
		add(false, "bytes outside 446..511 changed")
	}
	switch {
	case len(problems) == 0:
		c.OK(id)
	case indexOnly && !byPos:
		c.Fail(id, "mbr-slot-by-position", strings.Join(problems, "; "), desc)
	default:
		c.Fail(id, "-", strings.Join(problems, "; "), desc)
	}
	c.Stat(fmt.Sprintf("mbr.parts=%d", len(ps)))
	c.Stat(fmt.Sprintf("mbr.lss=%d", lss))
	if len(ps) > 0 {
		c.Distinct(desc)
	}
	if len(ps) == 4 {
		c.Sample(desc)
	}
}

func uuidDec(s string) string {
	var v uint64
	if _, err := fmt.Sscanf(s, "%x", &v); err != nil {
		return "bad:" + s
	}
	return fmt.Sprint(v)
}
