package gpt

// MBR at the level of the whole Table (Model/MbrTable.lean, Proofs/MbrRead.lean):
//
//   mt<i>  a table of 0..6 partitions is written by the real Table.Write over blank / random / signed
//          prior content (ops mbr.writet: refusal of more than four partitions, else the one WriteAt at 446)
//          and read back by the real mbr.Read with sector sizes from {0, -1, 512, 4096, 1024, 520, 65536}
//          (op mbr.readt: the table's and every partition's sector sizes, GetStart / GetSize).  Direct
//          oracle: decode(encode t) = t for the canonical tables (Index = position+1), the four slots, the
//          stamped sector sizes, byte ranges = sectors x logical sector size, bytes 0..445 and 512.. untouched.
//   mx<i>  total decode: arbitrary first sectors (random, random with signature, with all four boot flags
//          admissible, slightly damaged valid tables) on devices of 0 / 100 / 511 / 512 / 513 / 4096 bytes are
//          read by the real mbr.Read; a panic is a violation, acceptance must be exactly "size >= 512, 55AA,
//          four boot flags in {00, 80}", and the model's readT (every slice through the Go-panic model) must
//          agree on every one.

import (
	"bytes"
	"encoding/hex"
	"fmt"
	"reflect"
	"strings"

	"github.com/diskfs/go-diskfs/partition/mbr"

	gc "verif/harness/engines/gptcommon"
	"verif/harness/internal/hx"
	"verif/harness/internal/memdev"
)

var mbrSectorSizes = []int{0, -1, 512, 512, 4096, 4096, 1024, 520, 65536}

func privInt(p any, name string) int64 {
	v := reflect.ValueOf(p)
	if v.Kind() == reflect.Ptr {
		v = v.Elem()
	}
	f := v.FieldByName(name)
	if !f.IsValid() {
		return -1
	}
	return f.Int()
}

func stampOf(given int) int {
	if given > 0 {
		return given
	}
	return 512
}

// mbrTableStr is the impl side of op mbr.readt.
func mbrTableStr(t *mbr.Table) []string {
	var rs []string
	for _, p := range t.Partitions {
		l, ph := privInt(p, "logicalSectorSize"), privInt(p, "physicalSectorSize")
		if l == 0 {
			l = 512
		}
		if ph == 0 {
			ph = 512
		}
		rs = append(rs, fmt.Sprintf("%d:%d:%d:%d:%d", p.Index, p.GetStart(), p.GetSize(), l, ph))
	}
	return []string{"res=ok", fmt.Sprintf("lss=%d", t.LogicalSectorSize), fmt.Sprintf("pss=%d", t.PhysicalSectorSize),
		"parts=" + gc.MbrPartsStr(t.Partitions), "ranges=" + strings.Join(rs, ";")}
}

func safeMbrRead(d *memdev.Dev, lbs, pbs int) (t *mbr.Table, err error, panicked any) {
	defer func() {
		if e := recover(); e != nil {
			panicked = e
		}
	}()
	t, err = mbr.Read(d, lbs, pbs)
	return
}

func mbrTableCases(c *hx.Ctx) {
	r := c.Rng.Fork()
	n := c.N(250, 12000)
	for i := 0; i < n; i++ {
		id := fmt.Sprintf("mt%d", i)
		np := r.Intn(5)
		if r.Chance(15) {
			np = 5 + r.Intn(2)
		}
		if i < 7 {
			np = i
		}
		var ps []*mbr.Partition
		for k := 0; k < np; k++ {
			p := &mbr.Partition{Index: k + 1, Bootable: r.Chance(30), Type: mbr.Type(r.Intn(256)), Start: uint32(r.U64()), Size: uint32(r.U64()),
				StartHead: byte(r.Intn(256)), StartSector: byte(r.Intn(256)), StartCylinder: byte(r.Intn(256)),
				EndHead: byte(r.Intn(256)), EndSector: byte(r.Intn(256)), EndCylinder: byte(r.Intn(256))}
			switch r.Intn(6) {
			case 0:
				p.Start, p.Size = 0xFFFFFFFF, 0xFFFFFFFF
			case 1:
				p.Start, p.Size = uint32(1+r.Intn(1<<20)), uint32(1+r.Intn(1<<20))
			case 2:
				p.Start, p.Size = 0, 0
			}
			ps = append(ps, p)
		}
		tl, tp := hx.Pick(r, []int{512, 4096, 1024, 0}), hx.Pick(r, []int{512, 4096, 0})
		lbs, pbs := hx.Pick(r, mbrSectorSizes), hx.Pick(r, mbrSectorSizes)
		prior := r.Intn(3)
		pseed := r.U64()
		if !c.Want(id) {
			continue
		}
		runMbrTable(c, id, ps, tl, tp, lbs, pbs, prior, hx.NewRng(pseed))
	}
}

func runMbrTable(c *hx.Ctx, id string, ps []*mbr.Partition, tl, tp, lbs, pbs, prior int, pr *hx.Rng) {
	size := int64(1 << 20)
	d := memdev.New(size)
	if prior == 1 {
		d.RawWrite(pr.Bytes(1024), 0)
	} else if prior == 2 {
		b := pr.Bytes(512)
		b[510], b[511] = 0x55, 0xAA
		d.RawWrite(b, 0)
	}
	before := d.Bytes(0, 1024)
	d.ResetLog()
	desc := fmt.Sprintf("mbrtable tl=%d tp=%d lbs=%d pbs=%d prior=%d parts=%s", tl, tp, lbs, pbs, prior, gc.MbrPartsStr(ps))
	t := &mbr.Table{LogicalSectorSize: tl, PhysicalSectorSize: tp, Partitions: ps}
	var werr error
	var panicked any
	func() {
		defer func() {
			if e := recover(); e != nil {
				panicked = e
			}
		}()
		werr = t.Write(d, size)
	}()
	c.Case(id+"/w", "mbr.writet", "parts="+gc.MbrPartsStr(ps), fmt.Sprintf("lss=%d", tl), fmt.Sprintf("pss=%d", tp))
	if panicked != nil {
		c.Impl(id+"/w", "res=panic")
		c.Fail(id, "-", fmt.Sprintf("mbr Table.Write panicked: %v", panicked), desc)
		return
	}
	var ws []string
	for _, e := range d.Log {
		if !e.Sync {
			ws = append(ws, fmt.Sprintf("%d:%s", e.Off, hex.EncodeToString(e.Data)))
		}
	}
	var problems []string
	add := func(f string, a ...any) { problems = append(problems, fmt.Sprintf(f, a...)) }
	if werr != nil {
		c.Impl(id+"/w", "res=refused")
		c.Stat("mbrtable.refused")
		if len(ps) <= 4 {
			add("Table.Write refused a table of %d partitions: %v", len(ps), werr)
		}
		if len(ws) != 0 || !bytes.Equal(before, d.Bytes(0, 1024)) {
			add("a refused Table.Write wrote to the device")
		}
	} else {
		c.Impl(id+"/w", "res=ok", "ws="+strings.Join(ws, ";"))
		if len(ps) > 4 {
			add("Table.Write accepted %d partitions", len(ps))
		}
		after := d.Bytes(0, 1024)
		if !bytes.Equal(before[:446], after[:446]) || !bytes.Equal(before[512:], after[512:]) {
			add("bytes outside 446..511 changed")
		}
		rt, rerr, rp := safeMbrRead(d, lbs, pbs)
		c.Case(id+"/r", "mbr.readt", fmt.Sprintf("size=%d", size), fmt.Sprintf("lbs=%d", lbs), fmt.Sprintf("pbs=%d", pbs), "dev="+gc.DevStr(d))
		switch {
		case rp != nil:
			c.Impl(id+"/r", "res=panic")
			add("mbr.Read panicked: %v", rp)
		case rerr != nil:
			c.Impl(id+"/r", "res=err")
			add("mbr.Read of the table just written failed: %v", rerr)
		default:
			c.Impl(id+"/r", mbrTableStr(rt)...)
			wl, wp := stampOf(lbs), stampOf(pbs)
			if rt.LogicalSectorSize != wl || rt.PhysicalSectorSize != wp {
				add("table read with (%d,%d) carries sector sizes (%d,%d)", lbs, pbs, rt.LogicalSectorSize, rt.PhysicalSectorSize)
			}
			if len(rt.Partitions) != 4 {
				add("%d slots read back", len(rt.Partitions))
			} else {
				for k, p := range rt.Partitions {
					want := &mbr.Partition{Index: k + 1}
					if k < len(ps) {
						want = ps[k]
					}
					if gc.MbrPartStr(p) != gc.MbrPartStr(want) {
						add("slot %d reads back %s, written %s", k, gc.MbrPartStr(p), gc.MbrPartStr(want))
					}
					if p.GetStart() != int64(want.Start)*int64(wl) || p.GetSize() != int64(want.Size)*int64(wl) {
						add("slot %d byte range [%d,+%d), want [%d,+%d)", k, p.GetStart(), p.GetSize(), int64(want.Start)*int64(wl), int64(want.Size)*int64(wl))
					}
					if privInt(p, "physicalSectorSize") != int64(wp) {
						add("slot %d physical sector size %d, want %d", k, privInt(p, "physicalSectorSize"), wp)
					}
				}
			}
			c.Stat(fmt.Sprintf("mbrtable.read.lbs=%d", lbs))
		}
	}
	if len(problems) == 0 {
		c.OK(id)
	} else {
		c.Fail(id, "-", strings.Join(problems, "; "), desc)
	}
	c.Stat(fmt.Sprintf("mbrtable.parts=%d", len(ps)))
	if len(ps) > 0 {
		c.Distinct(desc)
	}
}

func mbrDecodeCases(c *hx.Ctx) {
	r := c.Rng.Fork()
	n := c.N(250, 12000)
	sizes := []int64{0, 100, 511, 512, 513, 4096}
	for i := 0; i < n; i++ {
		id := fmt.Sprintf("mx%d", i)
		size := hx.Pick(r, sizes)
		if i >= len(sizes) && r.Chance(60) {
			size = 4096
		}
		if i < len(sizes) {
			size = sizes[i]
		}
		kind := r.Intn(5)
		sec := r.Bytes(512)
		switch kind {
		case 0: // noise
		case 1: // noise with the signature
			sec[510], sec[511] = 0x55, 0xAA
		case 2, 3: // signature and admissible boot flags: decodes
			sec[510], sec[511] = 0x55, 0xAA
			for k := 0; k < 4; k++ {
				sec[446+16*k] = hx.Pick(r, []byte{0x00, 0x80})
			}
			if kind == 3 { // one damaged spot
				switch r.Intn(4) {
				case 0:
					sec[446+16*r.Intn(4)] = byte(1 + r.Intn(255))
				case 1:
					sec[510+r.Intn(2)] ^= byte(1 << r.Intn(8))
				case 2:
					sec[446+r.Intn(64)] ^= byte(1 << r.Intn(8))
				}
			}
		case 4: // all zero but the signature
			sec = make([]byte, 512)
			sec[510], sec[511] = 0x55, 0xAA
		}
		lbs, pbs := hx.Pick(r, mbrSectorSizes), hx.Pick(r, mbrSectorSizes)
		if !c.Want(id) {
			continue
		}
		d := memdev.New(size)
		if size > 0 {
			m := int64(len(sec))
			if m > size {
				m = size
			}
			d.RawWrite(sec[:m], 0)
		}
		desc := fmt.Sprintf("mbrdecode size=%d kind=%d lbs=%d pbs=%d sector=%s", size, kind, lbs, pbs, hex.EncodeToString(sec[440:]))
		accept := size >= 512 && sec[510] == 0x55 && sec[511] == 0xAA
		for k := 0; k < 4; k++ {
			if f := sec[446+16*k]; f != 0x00 && f != 0x80 {
				accept = false
			}
		}
		rt, rerr, rp := safeMbrRead(d, lbs, pbs)
		c.Case(id, "mbr.readt", fmt.Sprintf("size=%d", size), fmt.Sprintf("lbs=%d", lbs), fmt.Sprintf("pbs=%d", pbs), "dev="+gc.DevStr(d))
		switch {
		case rp != nil:
			c.Impl(id, "res=panic")
			c.Fail(id, "-", fmt.Sprintf("mbr.Read panicked: %v", rp), desc)
		case rerr != nil:
			c.Impl(id, "res=err")
			if accept {
				c.Fail(id, "-", "mbr.Read refused a sector with signature and admissible boot flags: "+rerr.Error(), desc)
			} else {
				c.OK(id)
			}
		default:
			c.Impl(id, mbrTableStr(rt)...)
			if !accept {
				c.Fail(id, "-", "mbr.Read accepted a sector it has to refuse", desc)
			} else {
				c.OK(id)
			}
		}
		c.Stat(fmt.Sprintf("mbrdecode.accept=%v", accept))
		c.Stat(fmt.Sprintf("mbrdecode.size=%d", size))
		if accept {
			c.Distinct(desc)
		}
	}
}
