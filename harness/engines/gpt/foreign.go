package gpt

// foreign.go — C02 for tables of ANY geometry (theorems gpt_read_write_geom / gpt_written_valid_geom over
// Model/GptGeom.lean): an independent writer (UEFI 2.10 section 5.3; shares no code with go-diskfs) lays out a valid
// GPT whose geometry this library would not choose itself — 4 / 20 / 30 / 32 / 64 / 100 / 256 entries, arrays that do
// not end on a sector boundary, array at LBA 4, first usable LBA 34 / 256 / 2048, sector sizes 512 / 1024 / 2048 / 4096
// —, gpt.Read returns it, the table is edited (nothing / drop / rename / add / new disk GUID) and written back with
// Table.Write or Disk.Partition, also on a device that has GROWN since (with and without Table.Repair).
//
// Two-sided: op gpt.rmw makes the model do the same on the same bytes (gpt.Read, edit, writeUp): the WriteAt log must
// equal the model's write list byte for byte (Write keeps the header's geometry, rounds the array sectors up, ignores
// its size argument), and the model reports GeomWF / UsableWF of the table, what its gpt.Read returns on its resulting
// device and the verdict of the Lean specification GptValid there; the engine computes all of these independently on
// the real device.  Direct oracle: with well-formed geometry the partitions and the disk GUID read back as written,
// from the primary; with a sane usable range as well the independent parser accepts the device.

import (
	"encoding/binary"
	"encoding/hex"
	"fmt"
	"hash/crc32"
	"sort"
	"strings"
	"unicode/utf16"

	"github.com/diskfs/go-diskfs/disk"
	"github.com/diskfs/go-diskfs/partition/gpt"

	gc "verif/harness/engines/gptcommon"
	"verif/harness/internal/hx"
	"verif/harness/internal/memdev"
)

type fEntry struct {
	index      int
	typ, guid  [16]byte
	start, end uint64
	attrs      uint64
	name       string
}

func fGUID(g [16]byte) []byte {
	return []byte{g[3], g[2], g[1], g[0], g[5], g[4], g[7], g[6], g[8], g[9], g[10], g[11], g[12], g[13], g[14], g[15]}
}

func fHeader(lss int, my, alt, first, last uint64, guid [16]byte, arrLBA uint64, count, arrCRC uint32) []byte {
	b := make([]byte, lss)
	copy(b, "EFI PART")
	binary.LittleEndian.PutUint32(b[8:], 0x00010000)
	binary.LittleEndian.PutUint32(b[12:], 92)
	binary.LittleEndian.PutUint64(b[24:], my)
	binary.LittleEndian.PutUint64(b[32:], alt)
	binary.LittleEndian.PutUint64(b[40:], first)
	binary.LittleEndian.PutUint64(b[48:], last)
	copy(b[56:], fGUID(guid))
	binary.LittleEndian.PutUint64(b[72:], arrLBA)
	binary.LittleEndian.PutUint32(b[80:], count)
	binary.LittleEndian.PutUint32(b[84:], 128)
	binary.LittleEndian.PutUint32(b[88:], arrCRC)
	binary.LittleEndian.PutUint32(b[16:], crc32.ChecksumIEEE(b[:92]))
	return b
}

// fWrite lays out a complete GPT for a disk of `sectors` sectors.
func fWrite(d *memdev.Dev, lss int, count uint32, arrLBA, first, sectors uint64, guid [16]byte, ents []fEntry) {
	arrBytes := int(count) * 128
	arrSec := uint64((arrBytes + lss - 1) / lss)
	last := sectors - 1
	bArr := last - arrSec
	arr := make([]byte, arrBytes)
	for _, e := range ents {
		b := arr[(e.index-1)*128:]
		copy(b[0:], fGUID(e.typ))
		copy(b[16:], fGUID(e.guid))
		binary.LittleEndian.PutUint64(b[32:], e.start)
		binary.LittleEndian.PutUint64(b[40:], e.end)
		binary.LittleEndian.PutUint64(b[48:], e.attrs)
		for i, u := range utf16.Encode([]rune(e.name)) {
			if i >= 36 {
				break
			}
			binary.LittleEndian.PutUint16(b[56+2*i:], u)
		}
	}
	crc := crc32.ChecksumIEEE(arr)
	m := make([]byte, 66)
	m[4] = 0xEE
	binary.LittleEndian.PutUint32(m[8:], 1)
	binary.LittleEndian.PutUint32(m[12:], uint32(last))
	m[64], m[65] = 0x55, 0xAA
	d.RawWrite(m, 446)
	d.RawWrite(fHeader(lss, 1, last, first, bArr-1, guid, arrLBA, count, crc), int64(lss))
	d.RawWrite(arr, int64(arrLBA)*int64(lss))
	d.RawWrite(arr, int64(bArr)*int64(lss))
	d.RawWrite(fHeader(lss, last, 1, first, bArr-1, guid, bArr, count, crc), int64(last)*int64(lss))
}

type fGeo struct {
	lss     int
	count   uint32
	arrLBA  uint64
	firstLB uint64 // 0: right behind the array
}

func foreignCases(c *hx.Ctx, cfg gc.Cfg) {
	r := c.Rng.Fork()
	geos := []fGeo{{512, 30, 2, 34}, {4096, 4, 2, 6}, {512, 32, 2, 34}, {4096, 64, 2, 0}, {512, 128, 2, 2048}, {4096, 256, 2, 0},
		{512, 128, 4, 2048}, {1024, 20, 2, 18}, {2048, 100, 2, 16}, {512, 4, 2, 34}, {4096, 128, 2, 256}, {512, 256, 2, 0}}
	n := c.N(24, 360)
	for i := 0; i < n; i++ {
		id := fmt.Sprintf("f%d", i)
		g := geos[i%len(geos)]
		arrSec := (uint64(g.count)*128 + uint64(g.lss) - 1) / uint64(g.lss)
		first := g.firstLB
		if first == 0 {
			first = g.arrLBA + arrSec
		}
		sectors := first + arrSec + 40 + uint64(r.Intn(60))
		grow := uint64(0)
		repair := false
		if i%5 == 3 { // the device has grown since the table was made
			grow = 5 + uint64(r.Intn(30))
			repair = i%10 == 3
		}
		size := int64(sectors+grow)*int64(g.lss) + int64(r.Intn(2)*r.Intn(g.lss))
		ne := 1 + r.Intn(4)
		var ents []fEntry
		cur := first
		for k := 0; k < ne && cur+10 < sectors-arrSec-2; k++ {
			e := fEntry{index: k + 1, typ: gc.RandGUID(r), guid: gc.RandGUID(r), attrs: r.U64() & 7, name: gc.GenName(r, false, false)}
			if k == ne-1 && int(g.count) > ne {
				e.index = int(g.count) // the last slot of the array
			}
			e.start = cur + uint64(r.Intn(4))
			e.end = e.start + uint64(r.Intn(6))
			cur = e.end + 1
			ents = append(ents, e)
		}
		dg := gc.RandGUID(r)
		edit := r.Intn(5)
		newName := gc.GenName(r, false, false)
		newGUID := gc.GUIDString(gc.RandGUID(r))
		partGUID := gc.GUIDString(gc.RandGUID(r))
		viaDisk := r.Bool()
		desc := fmt.Sprintf("foreign GPT: %d entries, array at LBA %d, first usable %d, lss=%d, table for %d sectors on a device of %d bytes (grown by %d sectors, Repair=%v), edit=%d viaDisk=%v",
			g.count, g.arrLBA, first, g.lss, sectors, size, grow, repair, edit, viaDisk)
		if !c.Want(id) {
			continue
		}
		func() {
			defer func() {
				if e := recover(); e != nil {
					c.Fail(id, "-", fmt.Sprintf("panic in harness/library: %v", e), desc)
				}
			}()
			lss := g.lss
			d := memdev.New(size)
			fWrite(d, lss, g.count, g.arrLBA, first, sectors, dg, ents)
			t, err := gpt.Read(d, lss, lss)
			if err != nil {
				c.Fail(id, "-", "the hand-built foreign GPT does not read: "+err.Error(), desc)
				return
			}
			if len(t.Partitions) != len(ents) {
				c.Fail(id, "-", fmt.Sprintf("the hand-built foreign GPT reads with %d partitions, written %d", len(t.Partitions), len(ents)), desc)
				return
			}
			// the edit
			changedGUID := false
			switch edit {
			case 1:
				if len(t.Partitions) > 0 {
					t.Partitions = t.Partitions[:len(t.Partitions)-1]
				}
			case 2:
				for _, p := range t.Partitions {
					p.Name = newName
				}
			case 3:
				used := map[int]bool{}
				var hi uint64
				for _, p := range t.Partitions {
					used[p.Index] = true
					if p.End > hi {
						hi = p.End
					}
				}
				for k := 1; k <= int(g.count); k++ {
					if !used[k] {
						t.Partitions = append(t.Partitions, &gpt.Partition{Index: k, Start: hi + 1, End: hi + 3, Type: gpt.LinuxFilesystem, GUID: partGUID, Name: newName})
						break
					}
				}
			case 4:
				t.GUID, changedGUID = newGUID, true
			}
			args := []string{"cfg=" + cfg.String(), fmt.Sprintf("size=%d", size), fmt.Sprintf("lss=%d", lss), "dev=" + gc.DevStr(d),
				"nparts=" + gc.LibPartsStr(t.Partitions)}
			if changedGUID {
				gg, _ := gc.ParseGUID(t.GUID)
				args = append(args, "nguid="+hex.EncodeToString(gg[:]))
			}
			if repair {
				if err := t.Repair(uint64(size)); err != nil {
					c.Fail(id, "-", "Table.Repair failed: "+err.Error(), desc)
					return
				}
				args = append(args, "repair=1")
			}
			wantGUID := t.GUID
			wf := grow == 0 || repair
			fd, ld, sh := fieldU(t, "firstDataSector"), fieldU(t, "lastDataSector"), fieldU(t, "secondaryHeader")
			uw := 2+arrSec <= fd && uint64(2*lss+16384) <= fd*uint64(lss) && fd <= ld+1 && sh >= arrSec && ld < sh-arrSec
			dn := d.Clone()
			dn.ResetLog()
			var werr error
			if viaDisk {
				dk := &disk.Disk{Backend: dn, Size: size, LogicalBlocksize: int64(lss), PhysicalBlocksize: int64(lss)}
				werr = dk.Partition(t)
			} else {
				werr = t.Write(dn, size)
			}
			c.Case(id, "gpt.rmw", args...)
			b2s := func(b bool) string {
				if b {
					return "1"
				}
				return "0"
			}
			c.Stat(fmt.Sprintf("foreign.entries=%d", g.count))
			c.Stat(fmt.Sprintf("foreign.lss=%d", lss))
			c.Stat("foreign.geomwf=" + b2s(wf))
			c.Stat("foreign.usablewf=" + b2s(uw))
			if (uint64(g.count)*128)%uint64(lss) != 0 {
				c.Stat("foreign.array-not-sector-multiple")
			}
			if werr != nil {
				c.Impl(id, "res=err", "wf="+b2s(wf))
				c.Fail(id, "-", "Write of the edited foreign table failed: "+werr.Error(), desc)
				return
			}
			// what reads back, on the real device
			rb, rt := "err", false
			expected := append([]*gpt.Partition(nil), t.Partitions...)
			sort.SliceStable(expected, func(a, b int) bool { return expected[a].Index < expected[b].Index })
			var used []*gpt.Partition
			for _, p := range expected {
				if p.Type != gpt.Unused {
					used = append(used, p)
				}
			}
			tr, rerr := gpt.Read(dn, lss, lss)
			if rerr == nil {
				gg, _ := gc.ParseGUID(tr.GUID)
				rb = fmt.Sprintf("%s:%s:%s", b2s(tr.RecoveredFromBackup), hex.EncodeToString(gg[:]), gc.LibPartsStr(tr.Partitions))
				rt = gc.LibPartsStr(tr.Partitions) == gc.LibPartsStr(used)
			}
			_, bad := gc.ValidateGPT(dn, size, lss, false)
			gptOK := true
			for _, b := range bad {
				if !strings.HasPrefix(b, "protective MBR") {
					gptOK = false
				}
			}
			// UEFI 2.10 section 5.3.1: "a minimum of 16,384 bytes of space must be reserved for the GPT Partition Entry Array" -
			// the Lean specification GptValid demands it (entry array LBA * lss + 16384 <= FirstUsableLBA * lss), the shared Go
			// validator does not look at it; after Write the primary array is at LBA 2
			if uint64(2*lss+16384) > fd*uint64(lss) {
				gptOK = false
				c.Stat("foreign.less-than-16KiB-reserved")
			}
			c.Impl(id, "res=ok", "ws="+gc.WriteLogStr(dn), "parts="+gc.LibPartsStr(t.Partitions),
				fmt.Sprintf("geo=%d,%d,%d,%d,%d", fieldU(t, "primaryHeader"), fieldU(t, "secondaryHeader"), fieldU(t, "firstDataSector"), fieldU(t, "lastDataSector"), fieldU(t, "partitionArraySize")),
				"wf="+b2s(wf), "uw="+b2s(uw), "rb="+rb, "rt="+b2s(rt), "valid="+b2s(gptOK))
			// the real bytes, through the model's reader and the Lean validity specification
			if rerr == nil {
				c.Case(id+"/r", "gpt.read", "cfg="+cfg.String(), fmt.Sprintf("size=%d", size), fmt.Sprintf("lss=%d", lss), "dev="+gc.DevStr(dn))
				c.Impl(id+"/r", "res=ok", gc.LibTableStr(tr), "ranges="+gc.LibRangesStr(tr))
			}
			c.Case(id+"/v", "gpt.valid", fmt.Sprintf("size=%d", size), fmt.Sprintf("lss=%d", lss), "pmbr=0", "dev="+gc.DevStr(dn))
			usedN := "-"
			if gptOK {
				usedN = fmt.Sprint(len(used))
			}
			c.Impl(id+"/v", "gpt="+b2s(gptOK), "pmbr=-", "used="+usedN)
			// the property
			var problems []string
			if wf {
				switch {
				case rerr != nil:
					problems = append(problems, "gpt.Read of the rewritten table failed: "+rerr.Error())
				case tr.RecoveredFromBackup:
					problems = append(problems, "the rewritten table reads back from the backup copy")
				default:
					if !rt {
						problems = append(problems, fmt.Sprintf("partitions read back as %s, written %s", gc.LibPartsStr(tr.Partitions), gc.LibPartsStr(used)))
					}
					if !strings.EqualFold(tr.GUID, wantGUID) {
						problems = append(problems, fmt.Sprintf("disk GUID reads back as %s, written %s", tr.GUID, wantGUID))
					}
				}
				if uw && !gptOK {
					problems = append(problems, "independent parser: "+strings.Join(bad, "; "))
				}
			}
			if len(problems) > 0 {
				c.Fail(id, "-", strings.Join(problems, " | "), desc)
			} else {
				c.OK(id)
			}
			if wf && rerr == nil {
				c.Distinct(desc + rb)
			}
			c.Sample(desc)
		}()
	}
}

func fieldU(t *gpt.Table, name string) uint64 {
	s := gc.LibTableStr(t)
	idx := map[string]int{"primaryHeader": 0, "secondaryHeader": 1, "firstDataSector": 2, "lastDataSector": 3, "partitionFirstLBA": 4, "partitionArraySize": 5, "partitionEntrySize": 6}[name]
	for _, f := range strings.Split(s, "\t") {
		if strings.HasPrefix(f, "geo=") {
			xs := strings.Split(strings.TrimPrefix(f, "geo="), ",")
			var v uint64
			fmt.Sscan(xs[idx], &v)
			return v
		}
	}
	return 0
}
