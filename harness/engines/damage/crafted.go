package damage

// Crafted multi-byte cases: corruptions that no single-field patch of the enumeration produces but that
// a repaired defect needs (they must stay silent; the enumeration's verdict logic reports them like any
// other case if the defect returns). Run by both tiers, after the declared-field cases.

import (
	"encoding/hex"
	"fmt"

	"verif/harness/internal/hx"
)

// bothEndian encodes a 32-bit value the iso9660 way: little endian, then big endian.
func bothEndian(v uint32) []byte {
	return []byte{byte(v), byte(v >> 8), byte(v >> 16), byte(v >> 24), byte(v >> 24), byte(v >> 16), byte(v >> 8), byte(v)}
}

// craftedCases returns case lines ("off:hex[,off:hex]\tdescription") for one base image.
func craftedCases(c *hx.Ctx, b baseImage) []string {
	var out []string
	defer func() { _ = recover() }() // a base the small parsers below do not understand gets no crafted case
	if b.kind == "iso9660" {
		out = append(out, isoCEEmptyArea(c, b)...)
	}
	return out
}

// isoCEEmptyArea: fix 0896e03. The system use area of a file's directory record is replaced by exactly
// one CE entry (the rest of the area zeroed: an entry length below 4 ends the list) that points at a
// continuation area holding no entry - an all-zero block of the image, or an area of length 0, or of
// length 3. parseDirEntry then replaced the CE entry by nothing and looked at the last element of an
// empty list (index out of range [-1]). Only images read with SUSP enabled (Rock Ridge) follow CE entries.
func isoCEEmptyArea(c *hx.Ctx, b baseImage) []string {
	const sec = 2048
	img := b.img[b.start:]
	pvd := img[16*sec : 17*sec]
	if string(pvd[1:6]) != "CD001" || pvd[0] != 1 {
		return nil
	}
	root := pvd[156:190]
	lba, size := int(le.Uint32(root[2:])), int(le.Uint32(root[10:]))
	if lba*sec+size > len(img) {
		return nil
	}
	// an all-zero block of the image, if there is one (searched from the end)
	zeroLBA := -1
	for k := len(img)/sec - 1; k > 20 && zeroLBA < 0; k-- {
		z := true
		for _, v := range img[k*sec : (k+1)*sec] {
			if v != 0 {
				z = false
				break
			}
		}
		if z {
			zeroLBA = k
		}
	}
	var out []string
	data := img[lba*sec : lba*sec+size]
	done := 0
	for o := 0; o < len(data) && done < 2; {
		n := int(data[o])
		if n == 0 {
			o = (o/sec + 1) * sec
			continue
		}
		if o+n > len(data) || n < 34 {
			break
		}
		r := data[o : o+n]
		nl := int(r[32])
		su := 33 + nl
		if nl%2 == 0 {
			su++
		}
		isFile := r[25]&2 == 0 && !(nl == 1 && r[33] <= 1)
		// Rock Ridge record with room for a CE entry
		if isFile && n-su >= 28 && (string(r[su:su+2]) == "RR" || string(r[su:su+2]) == "PX" || string(r[su:su+2]) == "NM") {
			at := int64(b.start) + int64(lba*sec+o+su)
			variants := []struct {
				what          string
				loc, off, len uint32
			}{
				{"area-of-length-0", uint32(lba), 0, 0},
				{"area-of-length-3", uint32(lba), 0, 3},
			}
			if zeroLBA >= 0 {
				variants = append(variants, struct {
					what          string
					loc, off, len uint32
				}{"all-zero-area", uint32(zeroLBA), 0, 64})
			}
			for _, v := range variants {
				ce := append([]byte{'C', 'E', 28, 1}, bothEndian(v.loc)...)
				ce = append(ce, bothEndian(v.off)...)
				ce = append(ce, bothEndian(v.len)...)
				patch := append(ce, make([]byte, n-su-28)...)
				out = append(out, fmt.Sprintf("%d:%s\t%s crafted iso-ce-empty-area/%s: system use area of the record at directory byte %d = one CE entry -> block %d offset %d length %d",
					at, hex.EncodeToString(patch), b.name, v.what, o, v.loc, v.off, v.len))
				c.Stat("crafted/iso-ce-empty-area/" + b.name)
			}
			done++
		}
		o += n
	}
	return out
}
