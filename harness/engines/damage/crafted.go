package damage

// Crafted multi-byte cases: corruptions that no single-field patch of the enumeration produces but that
// a repaired defect needs (they must stay silent; the enumeration's verdict logic reports them like any
// other case if the defect returns). Run by both tiers, after the declared-field cases.

import (
	"encoding/hex"
	"fmt"
	"strings"

	"verif/harness/internal/hx"
)

// fatBoundaryLinks: cluster numbers at the three limits a FAT reader has to tell apart - the number of
// entries the on-disk FAT holds (N: fat32 len/4, fat16 len/2, fat12 len*2/3), the highest index the
// library's in-memory table reports (MaxCluster(), asked of the real table that fatNN.Read built from
// the intact image bytes) and the end of the data area (cluster count + 2) - each with its two
// neighbours, written (i) into a FAT link of a file's chain (the link of its first cluster and the one
// that held the end-of-chain mark), identically in every FAT copy (Read refuses copies that differ), and
// (ii) into the first-cluster field of a file's and of a directory's entry in the root directory. The
// byte-value set of the enumeration (0, FF, 80, 7F, old+-1.., small integers) holds none of these values,
// and the fatwalk engine's boundary families run on a table made by the fat12 hook, not on one that
// fatNN.Read decoded. Stat keys fat.boundary_link.<type>.<site>.<value>.
func fatBoundaryLinks(c *hx.Ctx, b baseImage) []string {
	img := b.img[b.start:]
	bps := int64(le.Uint16(img[11:]))
	spc := int64(img[13])
	reserved := int64(le.Uint16(img[14:]))
	nfats := int64(img[16])
	rootEnts := int64(le.Uint16(img[17:]))
	total := int64(le.Uint16(img[19:]))
	if total == 0 {
		total = int64(le.Uint32(img[32:]))
	}
	spf := int64(le.Uint16(img[22:]))
	rootCluster := int64(0)
	if b.kind == "fat32" {
		spf = int64(le.Uint32(img[36:]))
		rootCluster = int64(le.Uint32(img[44:]))
	}
	if bps == 0 || spc == 0 || nfats == 0 || spf == 0 {
		return nil
	}
	fatBytes, fatOff := spf*bps, reserved*bps
	rootOff := fatOff + nfats*fatBytes
	dataOff := rootOff + (rootEnts*32+bps-1)/bps*bps
	bpc := spc * bps
	clusterCount := (total*bps - dataOff) / bpc
	var n, width int64
	switch b.kind {
	case "fat12":
		n, width = fatBytes*2/3, 1<<12
	case "fat16":
		n, width = fatBytes/2, 1<<16
	default:
		n, width = fatBytes/4, 1<<28
	}
	// entry k of FAT copy 0, and the patch that sets entry k to v in every copy
	get := func(k int64) int64 {
		switch b.kind {
		case "fat12":
			w := int64(le.Uint16(img[fatOff+k*3/2:]))
			if k%2 == 0 {
				return w & 0xFFF
			}
			return w >> 4
		case "fat16":
			return int64(le.Uint16(img[fatOff+2*k:]))
		}
		return int64(le.Uint32(img[fatOff+4*k:])) & 0x0FFFFFFF
	}
	set := func(k, v int64) string {
		var segs []string
		for f := int64(0); f < nfats; f++ {
			base := fatOff + f*fatBytes
			var at int64
			var val []byte
			switch b.kind {
			case "fat12":
				at = base + k*3/2
				w := int64(le.Uint16(img[at:]))
				if k%2 == 0 {
					w = w&0xF000 | v
				} else {
					w = w&0x000F | v<<4
				}
				val = []byte{byte(w), byte(w >> 8)}
			case "fat16":
				at, val = base+2*k, []byte{byte(v), byte(v >> 8)}
			default:
				at = base + 4*k
				w := int64(le.Uint32(img[at:]))&0xF0000000 | v
				val = []byte{byte(w), byte(w >> 8), byte(w >> 16), byte(w >> 24)}
			}
			segs = append(segs, fmt.Sprintf("%d:%s", b.start+at, hex.EncodeToString(val)))
		}
		return strings.Join(segs, ",")
	}
	isEOC := func(v int64) bool { return v >= width-8 }
	// MaxCluster() of the table the real Read builds from these bytes (hook VerifMaxCluster, promoted from
	// the embedded fat12.FileSystem); without the hook the value the three tableFromBytes compute today
	maxCl := n
	func() {
		defer func() { _ = recover() }()
		fsys, err := openFS(b.spec(), &overlay{base: b.img}, int64(len(b.img)))
		if err != nil {
			return
		}
		if h, ok := fsys.(interface{ VerifMaxCluster() uint32 }); ok {
			maxCl = int64(h.VerifMaxCluster())
			c.Stat("fat.boundary_link." + b.kind + ".max-cluster-from-library")
		}
	}()
	// the root directory's 32-byte entries (offsets relative to the filesystem start)
	var ents []int64
	if rootEnts > 0 {
		for i := int64(0); i < rootEnts; i++ {
			ents = append(ents, rootOff+32*i)
		}
	} else {
		for k, steps := rootCluster, 0; k >= 2 && k < n && !isEOC(k) && steps < 64; k, steps = get(k), steps+1 {
			for o := int64(0); o < bpc; o += 32 {
				ents = append(ents, dataOff+(k-2)*bpc+o)
			}
		}
	}
	first := func(e int64) int64 { return int64(le.Uint16(img[e+26:])) | int64(le.Uint16(img[e+20:]))<<16 }
	fileEnt, dirEnt := int64(-1), int64(-1)
	for _, e := range ents {
		if e+32 > int64(len(img)) || img[e] == 0 {
			break
		}
		attr := img[e+11]
		if img[e] == 0xE5 || img[e] == '.' || attr&0x0F == 0x0F || attr&0x08 != 0 {
			continue
		}
		fc := first(e)
		if fc < 2 || fc >= n {
			continue
		}
		if attr&0x10 != 0 {
			if dirEnt < 0 {
				dirEnt = e
			}
		} else if int64(le.Uint32(img[e+28:])) > 2*bpc && (fileEnt < 0) {
			fileEnt = e
		}
	}
	type val struct {
		v     int64
		names []string
	}
	var vals []val
	addv := func(v int64, name string) {
		for i := range vals {
			if vals[i].v == v {
				vals[i].names = append(vals[i].names, name)
				return
			}
		}
		vals = append(vals, val{v, []string{name}})
	}
	for _, l := range []struct {
		name string
		v    int64
	}{{"N", n}, {"max", maxCl}, {"limit", clusterCount + 2}} {
		addv(l.v-1, l.name+"-1")
		addv(l.v, l.name)
		addv(l.v+1, l.name+"+1")
	}
	var out []string
	emit := func(site, patch string, v val, what string) {
		out = append(out, fmt.Sprintf("%s\t%s crafted fat-boundary-link/%s: %s = %d (%s; FAT entries N=%d, MaxCluster()=%d, data clusters+2=%d)",
			patch, b.name, site, what, v.v, strings.Join(v.names, "="), n, maxCl, clusterCount+2))
		for _, nm := range v.names {
			c.Stat("fat.boundary_link." + b.kind + "." + site + "." + nm)
		}
	}
	for _, v := range vals {
		if v.v < 0 || v.v >= width {
			for _, nm := range v.names {
				c.Stat("fat.boundary_link." + b.kind + ".wider-than-an-entry." + nm)
			}
			continue
		}
		if fileEnt >= 0 {
			fc := first(fileEnt)
			emit("link-first", set(fc, v.v), v, fmt.Sprintf("FAT link of cluster %d (first of the file at byte %d), all %d copies", fc, fileEnt, nfats))
			last := fc
			for steps := int64(0); steps < n && get(last) >= 2 && get(last) < n && !isEOC(get(last)); steps++ {
				last = get(last)
			}
			if last != fc {
				emit("link-last", set(last, v.v), v, fmt.Sprintf("FAT link of cluster %d (end of the chain of the file at byte %d), all %d copies", last, fileEnt, nfats))
			}
			emit("dirent-file", fmt.Sprintf("%d:%02x%02x,%d:%02x%02x", b.start+fileEnt+26, byte(v.v), byte(v.v>>8), b.start+fileEnt+20, byte(v.v>>16), byte(v.v>>24)),
				v, fmt.Sprintf("first cluster of the file entry at byte %d", fileEnt))
		}
		if dirEnt >= 0 {
			emit("dirent-dir", fmt.Sprintf("%d:%02x%02x,%d:%02x%02x", b.start+dirEnt+26, byte(v.v), byte(v.v>>8), b.start+dirEnt+20, byte(v.v>>16), byte(v.v>>24)),
				v, fmt.Sprintf("first cluster of the directory entry at byte %d", dirEnt))
		}
	}
	if fileEnt < 0 {
		c.Stat("fat.boundary_link." + b.kind + ".no-multi-cluster-file-in-root")
	}
	if dirEnt < 0 {
		c.Stat("fat.boundary_link." + b.kind + ".no-directory-in-root")
	}
	return out
}

// bothEndian encodes a 32-bit value the iso9660 way: little endian, then big endian.
func bothEndian(v uint32) []byte {
	return []byte{byte(v), byte(v >> 8), byte(v >> 16), byte(v >> 24), byte(v >> 24), byte(v >> 16), byte(v >> 8), byte(v)}
}

// craftedCases returns case lines ("off:hex[,off:hex]\tdescription") for one base image.
func craftedCases(c *hx.Ctx, b baseImage) []string {
	var out []string
	defer func() { _ = recover() }() // a base the small parsers below do not understand gets no crafted case
	if b.kind == "iso9660" {
		out = append(out, isoCEEmptyArea(c, b)...)
	}
	if b.kind == "fat12" || b.kind == "fat16" || b.kind == "fat32" {
		out = append(out, fatBoundaryLinks(c, b)...)
	}
	return out
}

// isoCEEmptyArea: fix 0896e03. The system use area of a file's directory record is replaced by exactly
// one CE entry (the rest of the area zeroed: an entry length below 4 ends the list) that points at a
// continuation area holding no entry - an all-zero block of the image, or an area of length 0, or of
// length 3. parseDirEntry then replaced the CE entry by nothing and looked at the last element of an
// empty list (index out of range [-1]). Only images read with SUSP enabled (Rock Ridge) follow CE entries.
func isoCEEmptyArea(c *hx.Ctx, b baseImage) []string {
	const sec = 2048
	img := b.img[b.start:]
	pvd := img[16*sec : 17*sec]
	if string(pvd[1:6]) != "CD001" || pvd[0] != 1 {
		return nil
	}
	root := pvd[156:190]
	lba, size := int(le.Uint32(root[2:])), int(le.Uint32(root[10:]))
	if lba*sec+size > len(img) {
		return nil
	}
	// an all-zero block of the image, if there is one (searched from the end)
	zeroLBA := -1
	for k := len(img)/sec - 1; k > 20 && zeroLBA < 0; k-- {
		z := true
		for _, v := range img[k*sec : (k+1)*sec] {
			if v != 0 {
				z = false
				break
			}
		}
		if z {
			zeroLBA = k
		}
	}
	var out []string
	data := img[lba*sec : lba*sec+size]
	done := 0
	for o := 0; o < len(data) && done < 2; {
		n := int(data[o])
		if n == 0 {
			o = (o/sec + 1) * sec
			continue
		}
		if o+n > len(data) || n < 34 {
			break
		}
		r := data[o : o+n]
		nl := int(r[32])
		su := 33 + nl
		if nl%2 == 0 {
			su++
		}
		isFile := r[25]&2 == 0 && !(nl == 1 && r[33] <= 1)
		// Rock Ridge record with room for a CE entry
		if isFile && n-su >= 28 && (string(r[su:su+2]) == "RR" || string(r[su:su+2]) == "PX" || string(r[su:su+2]) == "NM") {
			at := int64(b.start) + int64(lba*sec+o+su)
			variants := []struct {
				what          string
				loc, off, len uint32
			}{
				{"area-of-length-0", uint32(lba), 0, 0},
				{"area-of-length-3", uint32(lba), 0, 3},
			}
			if zeroLBA >= 0 {
				variants = append(variants, struct {
					what          string
					loc, off, len uint32
				}{"all-zero-area", uint32(zeroLBA), 0, 64})
			}
			for _, v := range variants {
				ce := append([]byte{'C', 'E', 28, 1}, bothEndian(v.loc)...)
				ce = append(ce, bothEndian(v.off)...)
				ce = append(ce, bothEndian(v.len)...)
				patch := append(ce, make([]byte, n-su-28)...)
				out = append(out, fmt.Sprintf("%d:%s\t%s crafted iso-ce-empty-area/%s: system use area of the record at directory byte %d = one CE entry -> block %d offset %d length %d",
					at, hex.EncodeToString(patch), b.name, v.what, o, v.loc, v.off, v.len))
				c.Stat("crafted/iso-ce-empty-area/" + b.name)
			}
			done++
		}
		o += n
	}
	return out
}
