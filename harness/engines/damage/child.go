// Package damage is the C18 engine: open and walk single-field corruptions of
// valid images of every filesystem type in child processes with a deadline and
// an address-space cap; data or errors are fine, panic / hang / OOM are not.
package damage

import (
	"bufio"
	"errors"
	"fmt"
	"io"
	"io/fs"
	"os"
	"runtime"
	"runtime/debug"
	"strconv"
	"strings"
	"sync/atomic"
	"time"

	"github.com/diskfs/go-diskfs/backend"
	"github.com/diskfs/go-diskfs/filesystem"
	"github.com/diskfs/go-diskfs/filesystem/ext4"
	"github.com/diskfs/go-diskfs/filesystem/fat12"
	"github.com/diskfs/go-diskfs/filesystem/fat16"
	"github.com/diskfs/go-diskfs/filesystem/fat32"
	"github.com/diskfs/go-diskfs/filesystem/iso9660"
	"github.com/diskfs/go-diskfs/filesystem/squashfs"
)

// overlay is a read-only device: a base image plus a small patch.
type overlay struct {
	base  []byte
	patch map[int64]byte
	pos   int64
	trace func(off int64, n int)
	limit int64 // ReadAt buffers larger than this are reported as out-of-proportion allocations
}

type bigRead struct {
	n    int
	site string
}

// callerSite: innermost go-diskfs frame above the device's ReadAt.
func callerSite() string {
	pcs := make([]uintptr, 32)
	n := runtime.Callers(3, pcs)
	fr := runtime.CallersFrames(pcs[:n])
	for {
		f, more := fr.Next()
		if strings.HasPrefix(f.Function, "github.com/diskfs/go-diskfs/") && !strings.Contains(f.Function, "/backend.") {
			return strings.TrimPrefix(f.Function, "github.com/diskfs/go-diskfs/")
		}
		if !more {
			return "unknown-site"
		}
	}
}

type oinfo struct{ size int64 }

func (i oinfo) Name() string       { return "overlay" }
func (i oinfo) Size() int64        { return i.size }
func (i oinfo) Mode() fs.FileMode  { return 0o444 }
func (i oinfo) ModTime() time.Time { return time.Unix(0, 0) }
func (i oinfo) IsDir() bool        { return false }
func (i oinfo) Sys() any           { return nil }

func (o *overlay) Stat() (fs.FileInfo, error) { return oinfo{int64(len(o.base))}, nil }
func (o *overlay) Read(b []byte) (int, error) {
	n, err := o.ReadAt(b, o.pos)
	o.pos += int64(n)
	return n, err
}
func (o *overlay) Close() error { return nil }
func (o *overlay) ReadAt(p []byte, off int64) (int, error) {
	if off < 0 {
		return 0, errors.New("negative offset")
	}
	if o.trace != nil {
		o.trace(off, len(p))
	}
	if o.limit > 0 && int64(len(p)) > o.limit {
		// a read buffer far larger than the image: the allocation behind it is out of proportion.
		// Detected here, deterministically, at the call site that allocated it.
		panic(bigRead{n: len(p), site: callerSite()})
	}
	if off >= int64(len(o.base)) {
		return 0, io.EOF
	}
	n := copy(p, o.base[off:])
	for k, v := range o.patch {
		if k >= off && k < off+int64(n) {
			p[k-off] = v
		}
	}
	if n < len(p) {
		return n, io.EOF
	}
	return n, nil
}
func (o *overlay) Seek(offset int64, whence int) (int64, error) {
	switch whence {
	case io.SeekStart:
		o.pos = offset
	case io.SeekCurrent:
		o.pos += offset
	case io.SeekEnd:
		o.pos = int64(len(o.base)) + offset
	}
	return o.pos, nil
}
func (o *overlay) Sys() (*os.File, error) { return nil, backend.ErrNotSuitable }
func (o *overlay) Writable() (backend.WritableFile, error) {
	return nil, backend.ErrIncorrectOpenMode
}
func (o *overlay) Path() string { return "" }

// openFS opens the image as spec says: kind[:sector[:start[:size]]] (see baseImage.spec); devLen is
// the length of the device. Defaults: the kind's usual sector size, start 0, size = devLen-start.
func openFS(spec string, dev backend.Storage, devLen int64) (filesystem.FileSystem, error) {
	f := strings.Split(spec, ":")
	kind := f[0]
	num := func(i int) int64 {
		if i < len(f) {
			v, _ := strconv.ParseInt(f[i], 10, 64)
			return v
		}
		return 0
	}
	sector, start, size := num(1), num(2), num(3)
	if size == 0 {
		size = devLen - start
	}
	pick := func(def int64) int64 {
		if sector != 0 {
			return sector
		}
		return def
	}
	switch kind {
	case "fat12":
		return fat12.Read(dev, size, start, pick(512))
	case "fat16":
		return fat16.Read(dev, size, start, pick(512))
	case "fat32":
		return fat32.Read(dev, size, start, pick(512))
	case "ext4":
		return ext4.Read(dev, size, start, pick(512))
	case "iso9660":
		return iso9660.Read(dev, size, start, pick(2048))
	case "squashfs":
		return squashfs.Read(dev, size, start, pick(4096))
	}
	return nil, errors.New("unknown kind")
}

// dbg prints why the walk counted an error (VERIF_C18_DEBUG=1; for the builder of a base image).
func dbg(format string, a ...any) {
	if os.Getenv("VERIF_C18_DEBUG") != "" {
		fmt.Fprintf(os.Stderr, "walk: "+format+"\n", a...)
	}
}

var readBuf = make([]byte, 64*1024)

type walkStats struct {
	began             time.Time
	dirs, files, errs int
	special           int // symlinks, fifos, sockets, devices met
	bytes             int64
}

// walk lists every directory and reads every file, with harness-side bounds (depth, node count,
// bytes per file) so that only a loop INSIDE a library call can exceed the deadline.
func walk(fsys filesystem.FileSystem, dir string, depth int, st *walkStats, capBytes int64, readFiles bool) {
	// harness-side bounds: depth, node count and 4 s of walking per case (a damaged tree may be huge or cyclic;
	// that is the walker's problem, not the library's — only a single library call that does not return is a hang)
	if depth > 8 || st.dirs+st.files > 600 || time.Since(st.began) > 4*time.Second {
		return
	}
	st.dirs++
	type rd struct {
		e   []fs.DirEntry
		err error
	}
	r0 := timed(func() rd { e, err := fsys.ReadDir(dir); return rd{e, err} })
	ents, err := r0.e, r0.err
	if err != nil {
		dbg("ReadDir %s: %v", dir, err)
		st.errs++
		return
	}
	empties := 0
	for _, e := range ents {
		name := e.Name()
		if name == "." || name == ".." || name == "" {
			continue
		}
		p := name
		if dir != "." {
			p = dir + "/" + name
		}
		if err := timed(func() error { _, err := e.Info(); return err }); err != nil {
			dbg("Info %s: %v", p, err)
			st.errs++
		}
		if e.IsDir() {
			walk(fsys, p, depth+1, st, capBytes, readFiles)
			continue
		}
		st.files++
		if !readFiles {
			continue
		}
		// an empty regular file has no block list, chain or fragment to consult: beyond the first eight of
		// a directory such files are listed (their entry and inode are parsed by ReadDir / Info above) but
		// not opened - a directory of hundreds of entries would otherwise cost a path walk per entry
		if e.Type().IsRegular() {
			if fi, err := e.Info(); err == nil && fi.Size() == 0 {
				if empties++; empties > 8 {
					continue
				}
			}
		}
		// symbolic links, fifos, sockets and devices have no body of their own: Stat/Open on them are
		// still called (a dangling or '..' target, a fifo: an error is the right answer on the intact
		// image too), but their refusal is not counted as damage
		special := e.Type()&(fs.ModeSymlink|fs.ModeNamedPipe|fs.ModeSocket|fs.ModeDevice|fs.ModeCharDevice|fs.ModeIrregular) != 0
		if special {
			st.special++
			if rl, ok := fsys.(interface{ ReadLink(string) (string, error) }); ok && e.Type()&fs.ModeSymlink != 0 {
				if err := timed(func() error { _, err := rl.ReadLink(p); return err }); err != nil {
					dbg("ReadLink %s: %v", p, err)
					st.errs++
				}
			}
		}
		if err := timed(func() error { _, err := fsys.Stat(p); return err }); err != nil && !special {
			dbg("Stat %s: %v", p, err)
			st.errs++
		}
		type op struct {
			f   fs.File
			err error
		}
		o0 := timed(func() op { f, err := fsys.Open(p); return op{f, err} })
		f, err := o0.f, o0.err
		if err != nil {
			if !special {
				dbg("Open %s: %v", p, err)
				st.errs++
			}
			continue
		}
		buf := readBuf // one buffer for the whole process: a fresh 64 KiB per file made the collector the main cost of a case
		var total int64
		for total < capBytes && time.Since(st.began) < 6*time.Second {
			type rr struct {
				n   int
				err error
			}
			r1 := timed(func() rr { n, err := f.Read(buf); return rr{n, err} })
			n, err := r1.n, r1.err
			total += int64(n)
			if err != nil {
				if err != io.EOF {
					dbg("Read %s after %d bytes: %v", p, total, err)
					st.errs++
				}
				break
			}
			if n == 0 {
				break
			}
		}
		st.bytes += total
		_ = f.Close()
	}
}

// runCase returns the outcome class and detail of one corrupted image.
func runCase(kind string, base []byte, patch map[int64]byte) (outcome, detail string) {
	defer func() {
		if e := recover(); e != nil {
			if br, ok := e.(bigRead); ok {
				outcome = "bigalloc"
				detail = fmt.Sprintf("read buffer of %d bytes for an image of %d bytes @ %s", br.n, len(base), br.site)
				return
			}
			outcome = "panic"
			detail = fmt.Sprintf("%v @ %s", e, panicSite())
		}
	}()
	dev := &overlay{base: base, patch: patch, limit: int64(len(base))*4 + 64<<20}
	type of struct {
		f   filesystem.FileSystem
		err error
	}
	o := timed(func() of { f, err := openFS(kind, dev, int64(len(base))); return of{f, err} })
	fsys, err := o.f, o.err
	if err != nil {
		return "error", "open"
	}
	st := &walkStats{began: time.Now()}
	walk(fsys, ".", 0, st, int64(len(base))*2+1<<20, true)
	if st.errs > 0 {
		return "error", fmt.Sprintf("walk errs=%d dirs=%d files=%d", st.errs, st.dirs, st.files)
	}
	return "data", fmt.Sprintf("dirs=%d files=%d bytes=%d", st.dirs, st.files, st.bytes)
}

// panicSite: the innermost go-diskfs frame of the panicking stack, followed (after a space) by its
// file:line and the calling go-diskfs functions, for the human reader. Only the first word is the site.
func panicSite() string {
	st := string(debug.Stack())
	lines := strings.Split(st, "\n")
	seenPanic := false
	var chain []string
	where := ""
	for i := 0; i < len(lines); i++ {
		l := lines[i]
		if strings.HasPrefix(l, "panic(") {
			seenPanic = true
			continue
		}
		if !seenPanic {
			continue
		}
		if strings.Contains(l, "github.com/diskfs/go-diskfs/") && !strings.HasPrefix(l, "\t") {
			fn := l
			if j := strings.LastIndex(fn, "("); j > 0 {
				fn = fn[:j]
			}
			fn = strings.TrimPrefix(fn, "github.com/diskfs/go-diskfs/")
			if len(chain) == 0 && i+1 < len(lines) {
				w := strings.TrimSpace(lines[i+1])
				if j := strings.Index(w, " +0x"); j > 0 {
					w = w[:j]
				}
				if j := strings.LastIndex(w, "/"); j > 0 {
					w = w[j+1:]
				}
				where = w
			}
			if len(chain) < 4 {
				chain = append(chain, fn)
			}
		}
	}
	if len(chain) == 0 {
		return "unknown-site"
	}
	return chain[0] + " [" + where + " <- " + strings.Join(chain[1:], " <- ") + "]"
}

var currentCase atomic.Int64

// callStart is the start time (UnixNano) of the library call in progress, 0 between calls: the deadline
// applies to one library call, not to the harness's own walk over a (possibly cyclic) damaged tree.
var callStart atomic.Int64

func timed[T any](f func() T) T {
	callStart.Store(time.Now().UnixNano())
	defer callStart.Store(0)
	return f()
}

// ChildMain: vh-damage --child <kind> <basefile> <casesfile> <from> <deadlineSec> <capMiB>
// prints one line per case: "k <idx> <outcome> <detail>" and exits 0 when all are done.
func ChildMain(args []string) {
	kind, basefile, casesfile := args[0], args[1], args[2]
	from, _ := strconv.Atoi(args[3])
	deadline, _ := strconv.Atoi(args[4])
	capMiB, _ := strconv.Atoi(args[5])
	base, err := os.ReadFile(basefile)
	if err != nil {
		fmt.Println("fatal", err)
		os.Exit(2)
	}
	cases, err := readCases(casesfile)
	if err != nil {
		fmt.Println("fatal", err)
		os.Exit(2)
	}
	// heap cap: an allocation out of proportion to the image ends this process, not the harness.
	// (RLIMIT_AS is not usable: the Go runtime's own address-space reservations trip it at random sites.)
	lim := uint64(capMiB) << 20
	debug.SetGCPercent(50)
	go func() {
		var ms runtime.MemStats
		for {
			time.Sleep(25 * time.Millisecond)
			runtime.ReadMemStats(&ms)
			if ms.HeapAlloc > lim {
				fmt.Fprintf(os.Stdout, "k %d oom heap=%dMiB cap=%dMiB\n", currentCase.Load(), ms.HeapAlloc>>20, capMiB)
				os.Exit(4)
			}
		}
	}()
	out := bufio.NewWriter(os.Stdout)
	var started atomic.Int64
	started.Store(time.Now().UnixNano())
	currentCase.Store(int64(from))
	go func() {
		for {
			time.Sleep(200 * time.Millisecond)
			cs := callStart.Load()
			if cs != 0 && time.Duration(time.Now().UnixNano()-cs) > time.Duration(deadline)*time.Second {
				// the watchdog writes directly: the main goroutine may be spinning
				fmt.Fprintf(os.Stdout, "k %d timeout deadline-%ds\n", currentCase.Load(), deadline)
				os.Exit(3)
			}
		}
	}()
	for i := from; i < len(cases); i++ {
		currentCase.Store(int64(i))
		started.Store(time.Now().UnixNano())
		oc, det := runCase(kind, base, cases[i].patch)
		fmt.Fprintf(out, "k %d %s %s\n", i, oc, strings.ReplaceAll(det, "\n", " "))
		out.Flush()
		if i%64 == 0 {
			runtime.GC()
		}
	}
	fmt.Fprintln(out, "end")
	out.Flush()
}

type dcase struct {
	desc  string
	patch map[int64]byte
}

func readCases(path string) ([]dcase, error) {
	f, err := os.Open(path)
	if err != nil {
		return nil, err
	}
	defer f.Close()
	var cs []dcase
	sc := bufio.NewScanner(f)
	sc.Buffer(make([]byte, 1<<20), 1<<20)
	for sc.Scan() {
		// off:hexbytes[,off:hexbytes] <TAB> description
		parts := strings.SplitN(sc.Text(), "\t", 2)
		p := map[int64]byte{}
		for _, seg := range strings.Split(parts[0], ",") {
			a, b, ok := strings.Cut(seg, ":")
			if !ok {
				continue
			}
			off, _ := strconv.ParseInt(a, 10, 64)
			for i := 0; i+1 < len(b); i += 2 {
				v, _ := strconv.ParseUint(b[i:i+2], 16, 8)
				p[off+int64(i/2)] = byte(v)
			}
		}
		d := ""
		if len(parts) > 1 {
			d = parts[1]
		}
		cs = append(cs, dcase{desc: d, patch: p})
	}
	return cs, sc.Err()
}
