package damage

// regimeStats measures, on the finished intact base image and with parsers of its own (nothing of
// go-diskfs is used here), which structural regimes the image contains: the evidence keys
// regime/<base>/<what> are what /verif/regimes/C18.md points at. A key that is 0 says the base does
// not reach that regime.

import (
	"encoding/binary"
	"fmt"

	"verif/harness/internal/hx"
)

func regimeStats(c *hx.Ctx, b baseImage) {
	st := map[string]int{}
	func() {
		defer func() {
			if p := recover(); p != nil {
				c.Note("C18: regime probe of %s gave up: %v", b.name, p)
			}
		}()
		img := b.img[b.start:]
		switch b.kind {
		case "fat12", "fat16", "fat32":
			fatRegimes(img, b.kind, st)
		case "ext4":
			ext4Regimes(img, st)
		case "iso9660":
			isoRegimes(img, st)
		case "squashfs":
			sqfsRegimes(img, st)
		}
	}()
	if b.start != 0 {
		st["start_nonzero"] = 1
	}
	// share of non-zero bytes: a base built on a zero-filled device has zeros wherever nothing was written;
	// the -stale bases were built over random bytes (about 996 per mille non-zero)
	nz := 0
	for _, v := range b.img {
		if v != 0 {
			nz++
		}
	}
	if len(b.img) > 0 {
		st["image_nonzero_permille"] = nz * 1000 / len(b.img)
	}
	for k, v := range st {
		c.StatN(fmt.Sprintf("regime/%s/%s", b.name, k), v)
	}
}

var le = binary.LittleEndian

// ---- FAT -------------------------------------------------------------------------------------------

func fatRegimes(img []byte, kind string, st map[string]int) {
	bps := int(le.Uint16(img[11:]))
	spc := int(img[13])
	reserved := int(le.Uint16(img[14:]))
	nfats := int(img[16])
	rootEnts := int(le.Uint16(img[17:]))
	spf := int(le.Uint16(img[22:]))
	if spf == 0 {
		spf = int(le.Uint32(img[36:]))
	}
	st[fmt.Sprintf("sector_bytes_%d", bps)] = 1
	st["sectors_per_cluster"] = spc
	st["fat_sectors"] = spf // > 1: the table spills into a second sector
	fatOff := reserved * bps
	rootDirSectors := (rootEnts*32 + bps - 1) / bps
	dataOff := (reserved + nfats*spf + rootDirSectors) * bps
	cb := bps * spc
	entry := func(cl int) int {
		switch kind {
		case "fat12":
			v := int(le.Uint16(img[fatOff+cl*3/2:]))
			if cl&1 == 1 {
				return v >> 4
			}
			return v & 0xFFF
		case "fat16":
			return int(le.Uint16(img[fatOff+cl*2:]))
		}
		return int(le.Uint32(img[fatOff+cl*4:]) & 0x0FFFFFFF)
	}
	eoc := map[string]int{"fat12": 0xFF8, "fat16": 0xFFF8, "fat32": 0x0FFFFFF8}[kind]
	chain := func(cl int) []int {
		var out []int
		for n := 0; cl >= 2 && cl < eoc && n < 1<<20; n++ {
			out = append(out, cl)
			cl = entry(cl)
		}
		return out
	}
	readChain := func(cl int) []byte {
		var out []byte
		for _, k := range chain(cl) {
			o := dataOff + (k-2)*cb
			if o+cb > len(img) {
				break
			}
			out = append(out, img[o:o+cb]...)
		}
		return out
	}
	maxFileChain, maxDirClusters, lfn, dirs, nonContig := 0, 0, 0, 0, 0
	var walkDir func(data []byte, depth int)
	walkDir = func(data []byte, depth int) {
		dirs++
		for o := 0; o+32 <= len(data); o += 32 {
			e := data[o : o+32]
			if e[0] == 0 {
				break
			}
			if e[0] == 0xE5 {
				continue
			}
			if e[11] == 0x0F {
				lfn++
				continue
			}
			if e[0] == '.' || e[11]&0x08 != 0 {
				continue
			}
			cl := int(le.Uint16(e[26:])) | int(le.Uint16(e[20:]))<<16
			ch := chain(cl)
			for i := 1; i < len(ch); i++ {
				if ch[i] != ch[i-1]+1 {
					nonContig++
					break
				}
			}
			if e[11]&0x10 != 0 {
				if len(ch) > maxDirClusters {
					maxDirClusters = len(ch)
				}
				if depth < 8 {
					walkDir(readChain(cl), depth+1)
				}
			} else {
				if len(ch) > maxFileChain {
					maxFileChain = len(ch)
				}
				if sz := int(le.Uint32(e[28:])); sz > 0 && sz%cb == 0 {
					st["files_ending_on_a_cluster_boundary"]++
				}
			}
		}
	}
	if kind == "fat32" {
		rootCl := int(le.Uint32(img[44:]))
		st["root_dir_clusters"] = len(chain(rootCl))
		walkDir(readChain(rootCl), 0)
	} else {
		ro := (reserved + nfats*spf) * bps
		walkDir(img[ro:ro+rootEnts*32], 0)
	}
	st["directories"] = dirs
	st["subdir_clusters_max"] = maxDirClusters // > 1: a directory continues in a second cluster
	st["file_chain_clusters_max"] = maxFileChain
	st["long_name_entries"] = lfn
	st["chains_not_contiguous"] = nonContig
	// does the longest chain's FAT entries cross a FAT sector boundary?
	width := map[string]int{"fat12": 12, "fat16": 16, "fat32": 32}[kind]
	st["fat_entries_per_sector"] = bps * 8 / width
}

// ---- ext4 ------------------------------------------------------------------------------------------

func ext4Regimes(img []byte, st map[string]int) {
	sb := img[1024:2048]
	bs := 1024 << le.Uint32(sb[0x18:])
	blocks := int(le.Uint32(sb[0x4:]))
	first := int(le.Uint32(sb[0x14:]))
	bpg := int(le.Uint32(sb[0x20:]))
	ipg := int(le.Uint32(sb[0x28:]))
	isz := int(le.Uint16(sb[0x58:]))
	incompat := le.Uint32(sb[0x60:])
	rocompat := le.Uint32(sb[0x64:])
	compat := le.Uint32(sb[0x5C:])
	dsz := 32
	if incompat&0x80 != 0 {
		dsz = int(le.Uint16(sb[0xFE:]))
	}
	groups := (blocks - first + bpg - 1) / bpg
	st[fmt.Sprintf("block_bytes_%d", bs)] = 1
	st["block_groups"] = groups
	st["gdt_blocks"] = (groups*dsz + bs - 1) / bs // > 1: descriptors spill into a second block
	st[fmt.Sprintf("desc_bytes_%d", dsz)] = 1
	st[fmt.Sprintf("inode_bytes_%d", isz)] = 1
	st["feature_64bit"] = int(incompat >> 7 & 1)
	st["feature_flex_bg"] = int(incompat >> 9 & 1)
	st["feature_metadata_csum"] = int(rocompat >> 10 & 1)
	st["feature_has_journal"] = int(compat >> 2 & 1)
	st["feature_dir_index"] = int(compat >> 5 & 1)
	gdt := (first + 1) * bs
	for g := 0; g < groups; g++ {
		d := img[gdt+g*dsz:]
		tbl := int(le.Uint32(d[8:]))
		if dsz >= 64 {
			tbl |= int(le.Uint32(d[0x28:])) << 32
		}
		for i := 0; i < ipg; i++ {
			o := tbl*bs + i*isz
			if o+isz > len(img) {
				break
			}
			in := img[o : o+isz]
			mode := le.Uint16(in[0:])
			links := le.Uint16(in[0x1A:])
			if mode == 0 || links == 0 {
				continue
			}
			ino := g*ipg + i + 1
			if ino < 11 && ino != 2 {
				continue
			}
			size := int(le.Uint32(in[4:]))
			flags := le.Uint32(in[0x20:])
			typ := mode & 0xF000
			st["inodes_in_use"]++
			if g > 0 {
				st["inodes_in_group_1_or_later"]++
			}
			if flags&0x1000 != 0 {
				st["htree_directories"]++
			}
			switch typ {
			case 0x8000:
				if size > 0 && size%bs == 0 {
					st["files_ending_on_a_block_boundary"]++
				}
			case 0x4000:
				st["directories"]++
				if size > bs {
					st["directories_of_several_blocks"]++
				}
			case 0xA000:
				if size < 60 {
					st["symlinks_fast"]++
				} else {
					st["symlinks_slow"]++
				}
			}
			if flags&0x80000 != 0 && (typ != 0xA000 || size >= 60) {
				eh := in[0x28:]
				if le.Uint16(eh[0:]) == 0xF30A {
					n, depth := int(le.Uint16(eh[2:])), int(le.Uint16(eh[6:]))
					if depth > st["extent_depth_max"] {
						st["extent_depth_max"] = depth
					}
					if depth > 0 {
						st["inodes_with_extent_index"]++
					} else if n > 1 {
						st["inodes_with_several_extents"]++
					}
				}
			}
		}
	}
}

// ---- iso9660 ---------------------------------------------------------------------------------------

func isoRegimes(img []byte, st map[string]int) {
	const sec = 2048
	var pvd []byte
	for i := 16; (i+1)*sec <= len(img); i++ {
		d := img[i*sec : (i+1)*sec]
		if string(d[1:6]) != "CD001" {
			break
		}
		switch d[0] {
		case 0:
			st["boot_record_descriptors"]++
		case 1:
			pvd = d
		case 2:
			st["supplementary_descriptors"]++
			if d[88] == 0x25 && d[89] == 0x2F {
				st["joliet"] = 1
			}
		}
		st["volume_descriptors"]++
		if d[0] == 255 {
			break
		}
	}
	if pvd == nil {
		return
	}
	st["path_table_bytes"] = int(le.Uint32(pvd[132:]))
	st["path_table_sectors"] = (st["path_table_bytes"] + sec - 1) / sec
	seen := map[int]bool{}
	var walkDir func(lba, size, depth int)
	walkDir = func(lba, size, depth int) {
		if seen[lba] || depth > 10 || lba*sec+size > len(img) {
			return
		}
		seen[lba] = true
		st["directories"]++
		if depth > st["depth_max"] {
			st["depth_max"] = depth
		}
		if size > sec {
			st["directories_of_several_sectors"]++
		}
		data := img[lba*sec : lba*sec+size]
		for o := 0; o < len(data); {
			n := int(data[o])
			if n == 0 { // records do not cross sectors: the rest of this sector is padding
				o = (o/sec + 1) * sec
				continue
			}
			if o+n > len(data) || n < 34 {
				break
			}
			r := data[o : o+n]
			o += n
			nl := int(r[32])
			su := 33 + nl
			if nl%2 == 0 {
				su++
			}
			for su+4 <= len(r) { // system use entries (SUSP / Rock Ridge)
				sig, l := string(r[su:su+2]), int(r[su+2])
				if l < 4 || su+l > len(r) {
					break
				}
				switch sig {
				case "CE":
					st["rr_continuation_areas"]++
				case "SL":
					st["rr_symlink_entries"]++
					if r[su+4]&1 != 0 {
						st["rr_symlink_continued"]++
					}
				case "NM":
					if r[su+4]&1 != 0 {
						st["rr_name_continued"]++
					}
				case "CL", "PL", "RE":
					st["rr_relocation_entries"]++
				}
				st["susp_entries"]++
				su += l
			}
			if nl == 1 && (r[33] == 0 || r[33] == 1) {
				continue
			}
			if r[25]&2 != 0 {
				walkDir(int(le.Uint32(r[2:])), int(le.Uint32(r[10:])), depth+1)
			} else {
				st["files"]++
				if sz := int(le.Uint32(r[10:])); sz > 0 && sz%sec == 0 {
					st["files_ending_on_a_sector_boundary"]++
				}
				if r[25]&0x80 != 0 {
					st["multi_extent_files"]++
				}
			}
		}
	}
	root := pvd[156:190]
	walkDir(int(le.Uint32(root[2:])), int(le.Uint32(root[10:])), 0)
}

// ---- squashfs --------------------------------------------------------------------------------------

func sqfsRegimes(img []byte, st map[string]int) {
	inodes := int(le.Uint32(img[4:]))
	bsz := int(le.Uint32(img[12:]))
	frags := int(le.Uint32(img[16:]))
	comp := int(le.Uint16(img[20:]))
	flags := le.Uint16(img[24:])
	ids := int(le.Uint16(img[26:]))
	idTab := int(le.Uint64(img[48:]))
	xattrTab := le.Uint64(img[56:])
	inoTab := int(le.Uint64(img[64:]))
	dirTab := int(le.Uint64(img[72:]))
	fragTab := int(le.Uint64(img[80:]))
	exportTab := le.Uint64(img[88:])
	st["inodes"] = inodes
	st[fmt.Sprintf("block_bytes_%d", bsz)] = 1
	st[fmt.Sprintf("compression_%d", comp)] = 1
	st["fragment_blocks"] = frags
	st["fragment_table_metadata_blocks"] = (frags + 511) / 512 // > 1 needs more than 512 fragment blocks
	st["ids"] = ids
	if xattrTab != ^uint64(0) {
		st["xattr_table"] = 1
	}
	if exportTab != ^uint64(0) {
		st["export_table"] = 1
	}
	st["flag_compressor_options"] = int(flags >> 10 & 1)
	// metadata blocks of a table: walk the 2-byte headers
	countBlocks := func(from, to int) (n int, raw [][]byte, stored bool) {
		stored = true
		for o := from; o+2 <= to && o+2 <= len(img); {
			h := le.Uint16(img[o:])
			l := int(h & 0x7FFF)
			if h&0x8000 == 0 {
				stored = false
			} else if o+2+l <= len(img) {
				raw = append(raw, img[o+2:o+2+l])
			}
			n++
			o += 2 + l
		}
		return
	}
	nIno, rawIno, stored := countBlocks(inoTab, dirTab)
	st["inode_table_metadata_blocks"] = nIno // > 1: inodes beyond the first 8 KiB block
	dirEnd := fragTab
	if frags == 0 || fragTab > len(img) {
		dirEnd = idTab
	}
	nDir, rawDir, storedDir := countBlocks(dirTab, dirEnd)
	_ = nDir
	// the fragment table's own blocks lie before its index, after the directory table: count only
	// directory blocks by stopping at the first fragment-entry block is not possible without the
	// index; the directory table's length is taken from the index's first pointer instead
	switch {
	case frags > 0 && fragTab+8 <= len(img):
		nDir, rawDir, storedDir = countBlocks(dirTab, int(le.Uint64(img[fragTab:])))
	case exportTab != ^uint64(0) && int(exportTab)+8 <= len(img):
		nDir, rawDir, storedDir = countBlocks(dirTab, int(le.Uint64(img[exportTab:])))
	case idTab+8 <= len(img):
		nDir, rawDir, storedDir = countBlocks(dirTab, int(le.Uint64(img[idTab:])))
	}
	st["directory_table_metadata_blocks"] = nDir
	if !stored {
		return // compressed inode table: types are not visible without the compressor
	}
	// uncompressed inode table: histogram of inode types
	var tab []byte
	for _, r := range rawIno {
		tab = append(tab, r...)
	}
	names := map[int]string{1: "dir", 2: "file", 3: "symlink", 4: "blockdev", 5: "chardev", 6: "fifo", 7: "socket",
		8: "ext_dir", 9: "ext_file", 10: "ext_symlink", 11: "ext_blockdev", 12: "ext_chardev", 13: "ext_fifo", 14: "ext_socket"}
	nblocks := func(size int, frag uint32) int {
		if frag == 0xFFFFFFFF {
			return (size + bsz - 1) / bsz
		}
		return size / bsz
	}
	o := 0
	for k := 0; k < inodes && o+16 <= len(tab); k++ {
		t := int(le.Uint16(tab[o:]))
		st["inode_type_"+names[t]]++
		if o/8192 != (o+15)/8192 {
			st["inode_headers_straddling_a_metadata_block"]++
		}
		start := o
		b := tab[o+16:]
		switch t {
		case 1:
			o += 16 + 16
		case 2:
			o += 16 + 16 + 4*nblocks(int(le.Uint32(b[12:])), le.Uint32(b[4:]))
		case 3, 10:
			o += 16 + 8 + int(le.Uint32(b[4:]))
			if t == 10 {
				o += 4
			}
		case 4, 5:
			o += 16 + 8
		case 6, 7:
			o += 16 + 4
		case 8:
			idx := int(le.Uint16(b[16:]))
			o += 16 + 24
			for i := 0; i < idx && o+12 <= len(tab); i++ {
				o += 12 + int(le.Uint32(tab[o+8:])) + 1
			}
			if idx > 0 {
				st["ext_dir_with_index"]++
			}
		case 9:
			size := int(le.Uint64(b[8:]))
			if le.Uint64(b[16:]) != 0 {
				st["files_with_sparse_count"]++
			}
			o += 16 + 40 + 4*nblocks(size, le.Uint32(b[28:]))
		case 11, 12:
			o += 16 + 12
		case 13, 14:
			o += 16 + 8
		default:
			st["inode_type_unknown"]++
			return
		}
		if start/8192 != (o-1)/8192 {
			st["inodes_straddling_a_metadata_block"]++
		}
	}
	if storedDir {
		var dt []byte
		for _, r := range rawDir {
			dt = append(dt, r...)
		}
		// directory headers: count (count+1 entries each, at most 256)
		hdrs := 0
		for p := 0; p+12 <= len(dt); {
			cnt := int(le.Uint32(dt[p:])) + 1
			if cnt > 256 {
				break
			}
			hdrs++
			if cnt == 256 {
				st["directory_headers_full_256"]++
			}
			p += 12
			for i := 0; i < cnt && p+8 <= len(dt); i++ {
				p += 8 + int(le.Uint16(dt[p+6:])) + 1
			}
		}
		st["directory_headers"] = hdrs
	}
}
