package damage

import (
	"bufio"
	"bytes"
	"encoding/hex"
	"fmt"
	"os"
	"os/exec"
	"path/filepath"
	"runtime/pprof"
	"sort"
	"strconv"
	"strings"
	"sync"
	"time"

	"github.com/diskfs/go-diskfs/filesystem"
	"github.com/diskfs/go-diskfs/filesystem/ext4"
	"github.com/diskfs/go-diskfs/filesystem/fat12"
	"github.com/diskfs/go-diskfs/filesystem/fat16"
	"github.com/diskfs/go-diskfs/filesystem/fat32"
	"github.com/diskfs/go-diskfs/filesystem/iso9660"
	"github.com/diskfs/go-diskfs/filesystem/squashfs"

	"verif/harness/internal/hx"
	"verif/harness/internal/memdev"
)

type baseImage struct {
	name, kind  string
	img         []byte
	be          bool  // big-endian duplicates matter (iso9660)
	start       int64 // the filesystem begins at this device offset (0 for the first nine bases)
	sector      int64 // sector / block size handed to Read (0 = the kind's usual one)
	size        int64 // filesystem size handed to Read (0 = len(img)-start)
	extra       bool  // one of the regime bases of bases2.go
	quickBudget int   // traced cases of the quick tier (0 = the default)
}

// spec is what a child needs to open the image: kind[:sector[:start[:size]]].
func (b baseImage) spec() string {
	if b.start == 0 && b.sector == 0 && b.size == 0 {
		return b.kind
	}
	return fmt.Sprintf("%s:%d:%d:%d", b.kind, b.sector, b.start, b.size)
}

func put(fsys filesystem.FileSystem, name string, data []byte) error {
	f, err := fsys.OpenFile(name, os.O_CREATE|os.O_RDWR)
	if err != nil {
		return err
	}
	defer f.Close()
	_, err = f.Write(data)
	return err
}

func populate(r *hx.Rng, fsys filesystem.FileSystem, symlinks bool) error {
	if err := fsys.Mkdir("dir1"); err != nil {
		return err
	}
	if err := fsys.Mkdir("dir1/sub"); err != nil {
		return err
	}
	files := map[string]int{"a.txt": 10, "empty.bin": 0, "dir1/file-with-a-long-name.dat": 5000, "dir1/sub/deep.bin": 70000, "big.bin": 200000}
	names := make([]string, 0, len(files))
	for n := range files {
		names = append(names, n)
	}
	sort.Strings(names)
	for _, n := range names {
		data := r.Bytes(files[n])
		// second half compressible, so that compressing formats store a mix of raw and compressed blocks
		for i := len(data) / 2; i < len(data); i++ {
			data[i] = byte('a' + (i/97)%5)
		}
		if err := put(fsys, n, data); err != nil {
			return fmt.Errorf("%s: %w", n, err)
		}
	}
	for i := 0; i < 20; i++ {
		if err := put(fsys, fmt.Sprintf("dir1/many%02d.txt", i), r.Bytes(33*i)); err != nil {
			return err
		}
	}
	if symlinks {
		long := "dir1/" + strings.Repeat("long-target-name-", 5) + ".dat"
		if err := put(fsys, long, r.Bytes(1234)); err != nil {
			return err
		}
		_ = fsys.Symlink("a.txt", "link-short")
		_ = fsys.Symlink(long, "link-long")
	}
	return nil
}

func buildBases(c *hx.Ctx) ([]baseImage, error) {
	var out []baseImage
	r := hx.NewRng(12345) // base images do not depend on the run's seed: cases are comparable across runs
	type fatMk func(d *memdev.Dev, size int64) (filesystem.FileSystem, error)
	fats := []struct {
		kind string
		size int64
		mk   fatMk
	}{
		{"fat12", 1474560, func(d *memdev.Dev, s int64) (filesystem.FileSystem, error) {
			return fat12.Create(d, s, 0, 512, "BASE", true)
		}},
		{"fat16", 17 << 20, func(d *memdev.Dev, s int64) (filesystem.FileSystem, error) {
			return fat16.Create(d, s, 0, 512, "BASE", true)
		}},
		{"fat32", 3 << 20, func(d *memdev.Dev, s int64) (filesystem.FileSystem, error) {
			return fat32.Create(d, s, 0, 512, "BASE", true)
		}},
	}
	for _, f := range fats {
		d := memdev.New(f.size)
		d.KeepData = false
		fsys, err := f.mk(d, f.size)
		if err != nil {
			return nil, fmt.Errorf("%s create: %w", f.kind, err)
		}
		if err := populate(r.Fork(), fsys, false); err != nil {
			return nil, fmt.Errorf("%s populate: %w", f.kind, err)
		}
		out = append(out, baseImage{name: f.kind, kind: f.kind, img: d.Bytes(0, int(f.size))})
	}
	{
		size := int64(12 << 20)
		d := memdev.New(size)
		d.KeepData = false
		fsys, err := ext4.Create(d, size, 0, 512, &ext4.Params{})
		if err != nil {
			return nil, fmt.Errorf("ext4 create: %w", err)
		}
		if err := populate(r.Fork(), fsys, true); err != nil {
			return nil, fmt.Errorf("ext4 populate: %w", err)
		}
		out = append(out, baseImage{name: "ext4", kind: "ext4", img: d.Bytes(0, int(size))})
	}
	for _, opt := range []string{"plain", "rr"} {
		size := int64(2 << 20)
		d := memdev.New(size)
		d.KeepData = false
		fsys, err := iso9660.Create(d, size, 0, 2048, "")
		if err != nil {
			return nil, err
		}
		if err := populate(r.Fork(), fsys, false); err != nil {
			return nil, fmt.Errorf("iso populate: %w", err)
		}
		if err := fsys.Finalize(iso9660.FinalizeOptions{RockRidge: opt == "rr", VolumeIdentifier: "BASE"}); err != nil {
			return nil, fmt.Errorf("iso finalize: %w", err)
		}
		out = append(out, baseImage{name: "iso9660-" + opt, kind: "iso9660", img: d.Bytes(0, int(size)), be: true})
	}
	for _, opt := range []string{"gzip", "nocomp"} {
		size := int64(2 << 20)
		d := memdev.New(size)
		d.KeepData = false
		fsys, err := squashfs.Create(d, size, 0, 4096)
		if err != nil {
			return nil, err
		}
		if err := populate(r.Fork(), fsys, false); err != nil {
			return nil, fmt.Errorf("squashfs populate: %w", err)
		}
		o := squashfs.FinalizeOptions{Compression: &squashfs.CompressorGzip{CompressionLevel: 6}}
		if opt == "nocomp" {
			o = squashfs.FinalizeOptions{}
			o.NoCompressData, o.NoCompressFragments, o.NoCompressInodes = true, true, true
		}
		if err := fsys.Finalize(o); err != nil {
			return nil, fmt.Errorf("squashfs finalize: %w", err)
		}
		_ = fsys.Close()
		// trim to what was written (bytes used, padded)
		end := int64(0)
		for _, e := range d.Log {
			if !e.Sync && e.Off+int64(e.Len) > end {
				end = e.Off + int64(e.Len)
			}
		}
		if end < 4096 {
			end = 4096
		}
		out = append(out, baseImage{name: "squashfs-" + opt, kind: "squashfs", img: d.Bytes(0, int(end))})
	}
	return out, nil
}

// staticFields: header fields of each format (offset, width) — every one gets the full boundary set.
func staticFields(b baseImage) [][2]int64 {
	var f [][2]int64
	add := func(base int64, offs ...int64) {
		for i := 0; i+1 < len(offs); i += 2 {
			f = append(f, [2]int64{b.start + base + offs[i], offs[i+1]})
		}
	}
	switch b.kind {
	case "fat12", "fat16":
		add(0, 11, 2, 13, 1, 14, 2, 16, 1, 17, 2, 19, 2, 21, 1, 22, 2, 24, 2, 26, 2, 28, 4, 32, 4, 36, 1, 38, 1, 39, 4, 510, 2)
	case "fat32":
		add(0, 11, 2, 13, 1, 14, 2, 16, 1, 17, 2, 19, 2, 21, 1, 22, 2, 24, 2, 26, 2, 28, 4, 32, 4, 36, 4, 40, 2, 42, 2, 44, 4, 48, 2, 50, 2, 64, 1, 66, 1, 67, 4, 510, 2)
		fsis := int64(512)
		if b.sector > 0 {
			fsis = b.sector
		}
		add(fsis, 0, 4, 484, 4, 488, 4, 492, 4, 508, 4) // FSInfo
	case "ext4":
		sb := int64(1024)
		for o := int64(0); o < 0x68; o += 4 {
			add(sb, o, 4)
		}
		add(sb, 0x38, 2, 0x3A, 2, 0x3C, 2, 0x58, 2, 0x5A, 2, 0xFE, 2, 0x104, 4, 0x150, 4, 0x154, 4, 0x158, 4, 0x15C, 2, 0x15E, 2, 0x174, 1, 0x175, 1)
	case "iso9660":
		pvd := int64(16 * 2048)
		add(pvd, 0, 1, 1, 5, 6, 1, 80, 4, 84, 4, 120, 2, 122, 2, 124, 2, 126, 2, 128, 2, 130, 2, 132, 4, 136, 4, 140, 4, 144, 4, 148, 4, 152, 4)
		add(pvd+156, 0, 1, 1, 1, 2, 4, 6, 4, 10, 4, 14, 4, 25, 1, 26, 1, 27, 1, 28, 2, 32, 1, 33, 1) // root directory record
		add(pvd+2048, 0, 1, 1, 5, 6, 1)                                                              // next descriptor (terminator)
	case "squashfs":
		for o := int64(0); o < 96; {
			w := int64(4)
			switch {
			case o >= 20 && o < 32:
				w = 2
			case o >= 32:
				w = 8
			}
			add(0, o, w)
			o += w
		}
	}
	return f
}

func boundaryValues(w int64, old []byte, be bool) [][]byte {
	max := make([]byte, w)
	for i := range max {
		max[i] = 0xFF
	}
	le := func(v uint64) []byte {
		b := make([]byte, w)
		for i := int64(0); i < w; i++ {
			b[i] = byte(v >> (8 * i))
		}
		if be {
			for i, j := 0, len(b)-1; i < j; i, j = i+1, j-1 {
				b[i], b[j] = b[j], b[i]
			}
		}
		return b
	}
	var oldv uint64
	for i := int64(0); i < w && i < 8; i++ {
		if be {
			oldv = oldv<<8 | uint64(old[i])
		} else {
			oldv |= uint64(old[i]) << (8 * i)
		}
	}
	bits := uint(8 * w)
	mask := ^uint64(0)
	if bits < 64 {
		mask = (1 << bits) - 1
	}
	vals := []uint64{0, 1, mask, mask - 1, 1 << (bits - 1), (1 << (bits - 1)) - 1, (oldv + 1) & mask, (oldv - 1) & mask, (oldv * 2) & mask, oldv ^ 1}
	if w >= 4 {
		vals = append(vals, 0x7FFFFFFF&mask, 0xFFFF&mask, 0x10000&mask)
	}
	var out [][]byte
	seen := map[string]bool{string(old[:w]): true}
	for _, v := range vals {
		b := le(v)
		if !seen[string(b)] {
			seen[string(b)] = true
			out = append(out, b)
		}
	}
	return out
}

// tracedPositions: every metadata byte the reader consumed while opening and listing the intact image.
// contentSite: the library function that issued a device read fetches file content, not a structure.
func contentSite(site string) bool {
	return strings.HasSuffix(site, ".(*File).Read") || strings.HasSuffix(site, ".(*File).ReadAt") ||
		strings.Contains(site, "squashfs.(*FileSystem).readBlock") || strings.Contains(site, "squashfs.(*FileSystem).readFragment")
}

// structuralInFileReads: device reads of the last tracedPositions call that happened only while files
// were opened and read and did not fetch content (evidence key file-read-structural-reads/<base>).
var structuralInFileReads int

func tracedPositions(b baseImage, r *hx.Rng) []int64 {
	type rd struct {
		off int64
		n   int
	}
	var reads []rd
	dev := &overlay{base: b.img, trace: func(off int64, n int) { reads = append(reads, rd{off, n}) }}
	func() {
		defer func() { _ = recover() }()
		fsys, err := openFS(b.spec(), dev, int64(len(b.img)))
		if err != nil {
			return
		}
		st := &walkStats{began: time.Now()}
		walk(fsys, ".", 0, st, 0, false) // listing only: file contents are not structural fields
		// second pass, opening and reading every file: structures that are only consulted then (ext4
		// extent-tree blocks below the inode) are structural too; the reads that fetch file CONTENT
		// (innermost library frame is a File.Read or a squashfs data/fragment block fetch) are left out
		listed := len(reads)
		dev.trace = func(off int64, n int) {
			site := callerSite()
			if !contentSite(site) {
				reads = append(reads, rd{off, n})
				if os.Getenv("VERIF_C18_DEBUG") != "" {
					fmt.Fprintf(os.Stderr, "structural read in pass 2: %s off=%d n=%d\n", site, off, n)
				}
			}
		}
		st = &walkStats{began: time.Now()}
		walk(fsys, ".", 0, st, int64(len(b.img)), true)
		structuralInFileReads = len(reads) - listed
	}()
	seen := map[int64]bool{}
	var pos []int64
	addp := func(p int64) {
		if p >= 0 && p < int64(len(b.img)) && !seen[p] {
			seen[p] = true
			pos = append(pos, p)
		}
	}
	for _, x := range reads {
		if x.n <= 1024 {
			for i := 0; i < x.n; i++ {
				addp(x.off + int64(i))
			}
			continue
		}
		for i := 0; i < 256; i++ {
			addp(x.off + int64(i))
		}
		for i := 0; i < 64; i++ {
			addp(x.off + int64(x.n-64+i))
		}
		// non-zero bytes are the populated structures of a large metadata read
		nz := 0
		for i := 256; i < x.n-64 && nz < 512; i++ {
			if x.off+int64(i) < int64(len(b.img)) && b.img[x.off+int64(i)] != 0 {
				addp(x.off + int64(i))
				nz++
			}
		}
		for i := 0; i < 32; i++ {
			addp(x.off + int64(r.Intn(x.n)))
		}
	}
	sort.Slice(pos, func(i, j int) bool { return pos[i] < pos[j] })
	return pos
}

func genCases(c *hx.Ctx, b baseImage) []string {
	var lines []string
	if c.Args["crafted"] != "" { // builder's aid: the crafted cases only
		return craftedCases(c, b)
	}
	add := func(off int64, val []byte, desc string) {
		lines = append(lines, fmt.Sprintf("%d:%s\t%s", off, hex.EncodeToString(val), desc))
	}
	// 1. declared header fields x full boundary set (both byte orders for iso9660)
	for _, f := range staticFields(b) {
		off, w := f[0], f[1]
		if off+w > int64(len(b.img)) {
			continue
		}
		if w > 8 {
			w = 8
		}
		for _, v := range boundaryValues(w, b.img[off:off+w], false) {
			add(off, v, fmt.Sprintf("%s field@%d/%d=%x", b.name, off, w, v))
		}
		if b.be && w > 1 {
			for _, v := range boundaryValues(w, b.img[off:off+w], true) {
				add(off, v, fmt.Sprintf("%s field@%d/%dBE=%x", b.name, off, w, v))
			}
		}
	}
	// 1b. crafted multi-byte cases (crafted.go): always run, like the declared-field cases
	lines = append(lines, craftedCases(c, b)...)
	nStatic := len(lines)
	// 2. every traced metadata byte x byte-level and aligned multi-byte boundary values
	pos := tracedPositions(b, hx.NewRng(777))
	var traced []string
	for _, p := range pos {
		old := b.img[p]
		seenV := map[byte]bool{old: true}
		for _, v := range []byte{0x00, 0xFF, 0x80, 0x7F, old + 1, old - 1, old ^ 0x01, old ^ 0x10,
			// off-by-a-few bounds on small count / length fields: old+2..old+5 and the small integers
			old + 2, old + 3, old + 4, old + 5, 2, 3, 4, 5, 8} {
			if !seenV[v] {
				seenV[v] = true
				traced = append(traced, fmt.Sprintf("%d:%02x\t%s byte@%d=%02x(was %02x)", p, v, b.name, p, v, old))
			}
		}
		if p%2 == 0 && p+2 <= int64(len(b.img)) {
			for _, v := range [][]byte{{0xFF, 0xFF}, {0x00, 0x80}, {0xFF, 0x7F}} {
				traced = append(traced, fmt.Sprintf("%d:%s\t%s u16@%d=%x", p, hex.EncodeToString(v), b.name, p, v))
			}
		}
		if p%4 == 0 && p+4 <= int64(len(b.img)) {
			for _, v := range [][]byte{{0xFF, 0xFF, 0xFF, 0xFF}, {0, 0, 0, 0x80}, {0xFF, 0xFF, 0xFF, 0x7F}, {0, 0, 0, 0}} {
				if !bytes.Equal(v, b.img[p:p+4]) {
					traced = append(traced, fmt.Sprintf("%d:%s\t%s u32@%d=%x", p, hex.EncodeToString(v), b.name, p, v))
				}
			}
		}
	}
	c.StatN("positions/"+b.name, len(pos))
	c.StatN("file-read-structural-reads/"+b.name, structuralInFileReads)
	c.StatN("cases-enumerated/"+b.name, nStatic+len(traced))
	// quick: all declared-field cases plus a seed-rotated slice of the traced ones; thorough: everything
	// the regime bases (bases2.go) are several times larger than the first nine: quick takes a thinner
	// slice of their traced cases, thorough a seed-rotated 8 000 instead of all of them
	budget := 700
	if b.extra {
		budget = 400
	}
	if b.quickBudget > 0 {
		budget = b.quickBudget
	}
	if c.Thorough() && b.extra {
		budget = 8000
	}
	if !c.Thorough() || b.extra {
		if len(traced) > budget {
			stride := len(traced)/budget + 1
			off := int(c.Seed) % stride
			var pick []string
			for i := off; i < len(traced); i += stride {
				pick = append(pick, traced[i])
			}
			traced = pick
		}
	}
	return append(lines, traced...)
}

type result struct {
	idx             int
	outcome, detail string
}

// runChildren executes all cases of one base image in child processes (restarting after a death).
func runChildren(c *hx.Ctx, b baseImage, cases []string) []result {
	dir := filepath.Join(c.Scratch, b.name)
	_ = os.MkdirAll(dir, 0o755)
	basefile := filepath.Join(dir, "base.img")
	_ = os.WriteFile(basefile, b.img, 0o644)
	self, _ := os.Executable()
	capMiB := 512 + 8*(len(b.img)>>20)
	deadline := 3
	res := make([]result, len(cases))
	workers := 12
	chunk := (len(cases) + workers - 1) / workers
	var wg sync.WaitGroup
	for w := 0; w < workers; w++ {
		lo, hi := w*chunk, (w+1)*chunk
		if hi > len(cases) {
			hi = len(cases)
		}
		if lo >= hi {
			break
		}
		wg.Add(1)
		go func(w, lo, hi int) {
			defer wg.Done()
			cf := filepath.Join(dir, fmt.Sprintf("cases-%d.txt", w))
			_ = os.WriteFile(cf, []byte(strings.Join(cases[lo:hi], "\n")+"\n"), 0o644)
			from := 0
			n := hi - lo
			for from < n {
				cmd := exec.Command(self, "--child", b.spec(), basefile, cf, strconv.Itoa(from), strconv.Itoa(deadline), strconv.Itoa(capMiB))
				var stderr bytes.Buffer
				cmd.Stderr = &stderr
				cmd.Env = append(os.Environ(), "GOTRACEBACK=single", "GOMAXPROCS=2")
				op, _ := cmd.StdoutPipe()
				if err := cmd.Start(); err != nil {
					for i := from; i < n; i++ {
						res[lo+i] = result{lo + i, "harness", "cannot start child: " + err.Error()}
					}
					return
				}
				last := from - 1
				ended := false
				selfExit := false
				sc := bufio.NewScanner(op)
				sc.Buffer(make([]byte, 1<<20), 1<<20)
				for sc.Scan() {
					t := sc.Text()
					if t == "end" {
						ended = true
						break
					}
					f := strings.SplitN(t, " ", 4)
					if len(f) >= 3 && f[0] == "k" {
						i, _ := strconv.Atoi(f[1])
						det := ""
						if len(f) > 3 {
							det = f[3]
						}
						if i >= 0 && i < n {
							res[lo+i] = result{lo + i, f[2], det}
							last = i
							selfExit = f[2] == "timeout" || f[2] == "oom"
						}
					}
				}
				done := make(chan struct{})
				go func() { _ = cmd.Wait(); close(done) }()
				select {
				case <-done:
				case <-time.After(30 * time.Second):
					_ = cmd.Process.Kill()
					<-done
				}
				if ended {
					return
				}
				// the child died: the case after the last reported one is the culprit unless it reported a timeout itself
				if !selfExit && last+1 < n && res[lo+last+1].outcome == "" {
					msg := stderr.String()
					cls := "died"
					switch {
					case strings.Contains(msg, "out of memory") || strings.Contains(msg, "cannot allocate memory"):
						cls = "oom"
					case strings.Contains(msg, "stack overflow") || strings.Contains(msg, "goroutine stack exceeds"):
						cls = "stackoverflow"
					case strings.Contains(msg, "fatal error"):
						cls = "fatal"
					}
					site := fatalSite(msg)
					if len(msg) > 300 {
						msg = msg[:300]
					}
					res[lo+last+1] = result{lo + last + 1, cls, site + " :: " + strings.ReplaceAll(msg, "\n", " | ")}
					last++
				}
				from = last + 1
			}
		}(w, lo, hi)
	}
	wg.Wait()
	return res
}

// fatalSite: first go-diskfs frame in a fatal-error traceback.
func fatalSite(trace string) string {
	for _, l := range strings.Split(trace, "\n") {
		if strings.HasPrefix(l, "github.com/diskfs/go-diskfs/") {
			fn := l
			if j := strings.LastIndex(fn, "("); j > 0 {
				fn = fn[:j]
			}
			return strings.TrimPrefix(fn, "github.com/diskfs/go-diskfs/")
		}
	}
	return "unknown-site"
}

// siteOf extracts the call-site part of a panic detail ("msg @ site").
func siteOf(detail string) string {
	if i := strings.LastIndex(detail, " @ "); i >= 0 {
		site := strings.TrimSpace(detail[i+3:])
		if j := strings.Index(site, " "); j > 0 {
			site = site[:j]
		}
		return site
	}
	if i := strings.Index(detail, " :: "); i >= 0 {
		return strings.TrimSpace(detail[:i])
	}
	return "unknown-site"
}

func Run(c *hx.Ctx) {
	bases, err := buildBases(c)
	if err != nil {
		c.Fail("bases", "-", "cannot build base images with the library: "+err.Error(), "")
		return
	}
	bases = append(bases, buildExtraBases(c)...)
	for _, b := range bases {
		if only := c.Args["base"]; only != "" && only != b.name {
			continue
		}
		if one := c.Args["patch"]; one != "" {
			// replay of a single patch in-process: vh-damage base=<name> patch=<off>:<hex>[,<off>:<hex>]
			// a hang dumps all goroutine stacks after 30 s
			go func() {
				time.Sleep(30 * time.Second)
				_ = pprof.Lookup("goroutine").WriteTo(os.Stderr, 2)
				os.Exit(3)
			}()
			tmp := filepath.Join(c.Scratch, "one.txt")
			_ = os.WriteFile(tmp, []byte(one+"\treplay\n"), 0o644)
			cs, _ := readCases(tmp)
			oc, det := runCase(b.spec(), b.img, cs[0].patch)
			c.Note("replay %s patch=%s -> %s %s", b.name, one, oc, det)
			if oc == "data" || oc == "error" {
				c.OK("replay/" + b.name)
			} else {
				c.Fail("replay/"+b.name, oc+"@"+siteOf(det)+msgClass(det), oc+": "+det, b.name+" patch="+one)
			}
			continue
		}
		if c.Args["bench"] != "" { // builder's aid: cost of one walk of the intact image
			t0 := time.Now()
			for i := 0; i < 10; i++ {
				runCase(b.spec(), b.img, nil)
			}
			c.Note("bench %s: %v per intact case, image %d bytes", b.name, time.Since(t0)/10, len(b.img))
			continue
		}
		regimeStats(c, b)
		cases := genCases(c, b)
		if c.Args["gen"] != "" { // builder's aid: enumerate only
			continue
		}
		// the intact image must read as data: otherwise the enumeration means nothing
		oc, det := runCase(b.spec(), b.img, nil)
		if oc != "data" {
			c.Fail("intact/"+b.name, "-", "intact base image does not read cleanly: "+oc+" "+det, b.name)
			continue
		}
		c.OK("intact/" + b.name)
		t0 := time.Now()
		res := runChildren(c, b, cases)
		c.StatN("children-wall-ms/"+b.name, int(time.Since(t0).Milliseconds()))
		// a deadline miss on a busy machine is not yet a hang: re-run each such case alone, generously
		var tmo []int
		for i, r := range res {
			if r.outcome == "timeout" {
				tmo = append(tmo, i)
			}
		}
		if len(tmo) > 0 {
			confirmTimeouts(c, b, cases, res, tmo)
		}
		bad := map[string][]int{}
		for i, r := range res {
			id := fmt.Sprintf("%s/%d", b.name, i)
			desc := ""
			if parts := strings.SplitN(cases[i], "\t", 2); len(parts) == 2 {
				desc = parts[1] + " patch=" + parts[0]
			}
			switch r.outcome {
			case "data", "error":
				c.Stat("outcome=" + r.outcome + "/" + b.name)
				if r.outcome == "error" {
					c.Distinct(cases[i])
				}
			case "":
				c.Stat("outcome=not-run/" + b.name)
			default:
				c.Stat("outcome=" + r.outcome + "/" + b.name)
				tag := r.outcome + "@" + siteOf(r.detail) + msgClass(r.detail)
				switch r.outcome {
				case "timeout":
					tag = "timeout@" + b.kind
				case "oom", "died", "fatal":
					// found by the heap watchdog or a runtime fatal error: the allocating site is not
					// known reliably, so the finding is identified by filesystem kind only
					tag = "oom@" + b.kind
				}
				bad[tag] = append(bad[tag], i)
				if len(bad[tag]) <= 3 {
					c.Fail(id, tag, r.outcome+": "+r.detail, desc)
				}
				c.Distinct(cases[i])
			}
		}
		c.StatN("cases-run/"+b.name, len(res))
		tags := make([]string, 0, len(bad))
		for t := range bad {
			tags = append(tags, t)
		}
		sort.Strings(tags)
		for _, t := range tags {
			c.Note("%s: %s x%d (first case %d)", b.name, t, len(bad[t]), bad[t][0])
		}
		if len(cases) > 0 {
			c.Sample(strings.SplitN(cases[len(cases)/2], "\t", 2)[1])
		}
		// one oracle verdict for the whole enumeration of this base when nothing bad happened
		if len(bad) == 0 {
			c.OK("enum/" + b.name)
		}
	}
}

// msgClass: coarse class of a runtime error message, part of the finding tag.
func msgClass(detail string) string {
	switch {
	case strings.Contains(detail, "divide by zero"):
		return "#div0"
	case strings.Contains(detail, "slice bounds"):
		return "#slice"
	case strings.Contains(detail, "index out of range"):
		return "#index"
	case strings.Contains(detail, "nil pointer"):
		return "#nil"
	case strings.Contains(detail, "makeslice"):
		return "#makeslice"
	case strings.Contains(detail, "stack overflow") || strings.Contains(detail, "stack exceeds"):
		return "#stack"
	}
	return ""
}

// confirmTimeouts re-runs timed-out cases one per child with a 20 s deadline, 6 at a time.
func confirmTimeouts(c *hx.Ctx, b baseImage, cases []string, res []result, idx []int) {
	if len(idx) > 60 {
		// a systematic hang: confirm a sample, keep the rest as reported
		idx = idx[:60]
	}
	dir := filepath.Join(c.Scratch, b.name)
	basefile := filepath.Join(dir, "base.img")
	self, _ := os.Executable()
	capMiB := 512 + 8*(len(b.img)>>20)
	var wg sync.WaitGroup
	sem := make(chan struct{}, 6)
	for _, i := range idx {
		wg.Add(1)
		sem <- struct{}{}
		go func(i int) {
			defer wg.Done()
			defer func() { <-sem }()
			cf := filepath.Join(dir, fmt.Sprintf("confirm-%d.txt", i))
			_ = os.WriteFile(cf, []byte(cases[i]+"\n"), 0o644)
			cmd := exec.Command(self, "--child", b.spec(), basefile, cf, "0", "20", strconv.Itoa(capMiB))
			cmd.Env = append(os.Environ(), "GOTRACEBACK=single", "GOMAXPROCS=2")
			out, _ := cmd.Output()
			for _, l := range strings.Split(string(out), "\n") {
				f := strings.SplitN(l, " ", 4)
				if len(f) >= 3 && f[0] == "k" && f[1] == "0" {
					det := ""
					if len(f) > 3 {
						det = f[3]
					}
					if f[2] != "timeout" {
						c.Stat("timeout-not-confirmed/" + b.name)
					}
					res[i] = result{i, f[2], det}
				}
			}
		}(i)
	}
	wg.Wait()
}
