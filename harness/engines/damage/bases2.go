package damage

// Further base images (regime audit, /verif/regimes/C18.md; the last three are the small tree built over
// random bytes instead of zeros): the first nine bases are small trees
// whose every table fits its first block / sector / cluster. The bases below are built so that the
// readers leave that regime: 4096-byte sectors and a non-zero start (fat32, squashfs), more than
// one block of group descriptors, extent trees of depth 1, multi-block directories (ext4),
// directories of several sectors, Joliet, Rock Ridge symlinks and continuation areas (iso9660),
// several inode-table metadata blocks, a second fragment-table block, symlink / fifo inodes,
// zstd and 128 KiB data blocks, a mksquashfs-made image, a hand-written image with the basic inode
// forms (squashfs).
//
// regimeStats (regimes.go) measures on the finished image that the regime is really there.

import (
	"fmt"
	"os"
	"os/exec"
	"path/filepath"
	"strings"
	"syscall"
	"time"

	"github.com/diskfs/go-diskfs/filesystem"
	"github.com/diskfs/go-diskfs/filesystem/ext4"
	"github.com/diskfs/go-diskfs/filesystem/fat16"
	"github.com/diskfs/go-diskfs/filesystem/fat32"
	"github.com/diskfs/go-diskfs/filesystem/iso9660"
	"github.com/diskfs/go-diskfs/filesystem/squashfs"

	"verif/harness/internal/hx"
	"verif/harness/internal/memdev"
)

// lead fills [0,start) of a device with non-zero bytes: a reader that forgets the start offset
// finds garbage there, not zeros.
func lead(r *hx.Rng, start int64) []byte {
	b := r.Bytes(int(start))
	for i := range b {
		b[i] |= 0x41
	}
	return b
}

// writtenEnd: end of the last byte written to the device.
func writtenEnd(d *memdev.Dev) int64 {
	end := int64(0)
	for _, e := range d.Log {
		if !e.Sync && e.Off+int64(e.Len) > end {
			end = e.Off + int64(e.Len)
		}
	}
	return end
}

type extraBase struct {
	name  string
	build func(r *hx.Rng) (baseImage, error)
}

// scratchDir is the engine's scratch directory (host trees for mke2fs live there).
var scratchDir string

func extraBases() []extraBase {
	if os.Getenv("VERIF_C18_NOEXTRA") != "" { // builder's switch: the first nine bases only
		return nil
	}
	return []extraBase{
		{"fat32-4k-start", buildFat32Sector4k},
		{"ext4-groups-frag", buildExt4GroupsFrag},
		{"ext4-mke2fs-htree", buildExt4Mke2fs},
		{"iso9660-joliet", func(r *hx.Rng) (baseImage, error) { return buildIsoRich(r, "iso9660-joliet", false, true) }},
		{"iso9660-rr-rich", func(r *hx.Rng) (baseImage, error) { return buildIsoRich(r, "iso9660-rr-rich", true, true) }},
		{"squashfs-rich", buildSquashfsRich},
		{"squashfs-zstd-128k-start", buildSquashfsZstd},
		{"squashfs-mksquashfs", buildSquashfsFixture},
		{"squashfs-basic-handmade", buildSquashfsBasic},
		{"fat16-stale", func(r *hx.Rng) (baseImage, error) { return buildOverGarbage(r, "fat16") }},
		{"ext4-stale", func(r *hx.Rng) (baseImage, error) { return buildOverGarbage(r, "ext4") }},
		{"iso9660-stale", func(r *hx.Rng) (baseImage, error) { return buildOverGarbage(r, "iso9660") }},
	}
}

// buildExtraBases: a base the library cannot build (or cannot read back cleanly: checked by the
// caller) is reported and left out; that is another property's business.
func buildExtraBases(c *hx.Ctx) []baseImage {
	var out []baseImage
	r := hx.NewRng(54321)
	scratchDir = c.Scratch
	for _, e := range extraBases() {
		rr := r.Fork()
		if only := c.Args["base"]; only != "" && only != e.name {
			continue
		}
		var b baseImage
		var err error
		func() {
			defer func() {
				if p := recover(); p != nil {
					err = fmt.Errorf("panic: %v", p)
				}
			}()
			b, err = e.build(rr)
		}()
		if err != nil {
			c.Note("C18: base image %s could not be built with the library: %v", e.name, err)
			c.Stat("base-unavailable/" + e.name)
			continue
		}
		b.extra = true
		out = append(out, b)
	}
	return out
}

// ---- FAT32 with 4096-byte sectors at a non-zero start ----------------------------------------------

func buildFat32Sector4k(r *hx.Rng) (baseImage, error) {
	const start, size = int64(3 * 4096), int64(8 << 20)
	d := memdev.New(start + size)
	d.KeepData = false
	d.RawWrite(lead(r, start), 0)
	fsys, err := fat32.Create(d, size, start, 4096, "BASE4K", true)
	if err != nil {
		return baseImage{}, fmt.Errorf("create: %w", err)
	}
	if err := populate(r.Fork(), fsys, false); err != nil {
		return baseImage{}, fmt.Errorf("populate: %w", err)
	}
	// a directory of more than one 4096-byte cluster: 36 long names of 5 entries each
	if err := fsys.Mkdir("wide"); err != nil {
		return baseImage{}, err
	}
	for i := 0; i < 36; i++ {
		if err := put(fsys, fmt.Sprintf("wide/entry-number-%02d-with-a-long-file-name.txt", i), r.Bytes(10+i)); err != nil {
			return baseImage{}, err
		}
	}
	// a file that ends exactly on a cluster boundary (two clusters of 4096 bytes)
	if err := put(fsys, "exact2.bin", r.Bytes(2*4096)); err != nil {
		return baseImage{}, err
	}
	return baseImage{name: "fat32-4k-start", kind: "fat32", img: d.Bytes(0, int(start+size)), start: start, sector: 4096, quickBudget: 150}, nil
}

// ---- ext4: 2 KiB blocks, 40 groups (two blocks of descriptors), depth-1 extent trees, big directory ---

func appendTo(fsys filesystem.FileSystem, name string, data []byte) error {
	f, err := fsys.OpenFile(name, os.O_CREATE|os.O_RDWR|os.O_APPEND)
	if err != nil {
		return err
	}
	defer f.Close()
	_, err = f.Write(data)
	return err
}

func buildExt4GroupsFrag(r *hx.Rng) (baseImage, error) {
	size := int64(20 << 20)
	d := memdev.New(size)
	d.KeepData = false
	fsys, err := ext4.Create(d, size, 0, 512, &ext4.Params{SectorsPerBlock: 4, BlocksPerGroup: 256,
		Features: []ext4.FeatureOpt{ext4.WithFeatureHasJournal(false)}}) // a journal would need an index node Create cannot build
	if err != nil {
		return baseImage{}, fmt.Errorf("create: %w", err)
	}
	if err := populate(r.Fork(), fsys, true); err != nil {
		return baseImage{}, fmt.Errorf("populate: %w", err)
	}
	// two files grown alternately: every round gives each a new extent; 7 extents need an index node
	for round := 0; round < 7; round++ {
		for _, n := range []string{"frag-a.bin", "frag-b.bin"} {
			if err := appendTo(fsys, n, r.Bytes(5000)); err != nil {
				return baseImage{}, fmt.Errorf("append %s round %d: %w", n, round, err)
			}
		}
	}
	// a directory of several blocks
	if err := fsys.Mkdir("wide"); err != nil {
		return baseImage{}, err
	}
	for i := 0; i < 80; i++ {
		if err := put(fsys, fmt.Sprintf("wide/%02d-%s.txt", i, strings.Repeat("long-name-", 6)), r.Bytes(7*i)); err != nil {
			return baseImage{}, fmt.Errorf("wide %d: %w", i, err)
		}
	}
	// a file that ends exactly on a block boundary (two blocks of 2048 bytes)
	if err := put(fsys, "exact2.bin", r.Bytes(2*2048)); err != nil {
		return baseImage{}, err
	}
	return baseImage{name: "ext4-groups-frag", kind: "ext4", img: d.Bytes(0, int(size)), quickBudget: 150}, nil
}

// ext4 made by the reference mke2fs (the library never writes these): 32-byte group descriptors (no
// 64bit), 128-byte inodes, metadata_csum (checksum tails in directory blocks), a hash-indexed
// directory (e2fsck -D), slow and fast symlinks. Without e2fsprogs the base is reported unavailable.
func buildExt4Mke2fs(r *hx.Rng) (baseImage, error) {
	const mke2fs, e2fsck = "/usr/sbin/mke2fs", "/usr/sbin/e2fsck"
	for _, t := range []string{mke2fs, e2fsck} {
		if _, err := os.Stat(t); err != nil {
			return baseImage{}, fmt.Errorf("%s not available", t)
		}
	}
	dir, err := os.MkdirTemp(scratchDir, "mke2fs-")
	if err != nil {
		return baseImage{}, err
	}
	defer os.RemoveAll(dir)
	root := filepath.Join(dir, "root")
	w := func(p string, data []byte) error {
		full := filepath.Join(root, filepath.FromSlash(p))
		if err := os.MkdirAll(filepath.Dir(full), 0o755); err != nil {
			return err
		}
		return os.WriteFile(full, data, 0o644)
	}
	for n, sz := range map[string]int{"a.txt": 10, "empty.bin": 0, "dir1/file-with-a-long-name.dat": 5000, "dir1/sub/deep.bin": 70000} {
		if err := w(n, r.Bytes(sz)); err != nil {
			return baseImage{}, err
		}
	}
	for i := 0; i < 150; i++ { // about 5 KiB of entries: e2fsck -D turns this into a hash tree at 1 KiB blocks
		if err := w(fmt.Sprintf("big/entry-%03d-%s", i, strings.Repeat("x", 5+i%17)), r.Bytes(i%50)); err != nil {
			return baseImage{}, err
		}
	}
	_ = os.Symlink("a.txt", filepath.Join(root, "link-fast"))
	_ = os.Symlink("dir1/"+strings.Repeat("long-target-name-", 5)+".dat", filepath.Join(root, "link-slow"))
	// the same timestamps on every run: the image (and with it the set of cases) is then the same
	stamp := time.Unix(1700000000, 0)
	_ = filepath.WalkDir(root, func(p string, d os.DirEntry, err error) error {
		if err == nil && d.Type()&os.ModeSymlink == 0 {
			_ = os.Chtimes(p, stamp, stamp)
		}
		return nil
	})
	img := filepath.Join(dir, "img")
	run := func(name string, okExit int, a ...string) error {
		cmd := exec.Command(name, a...)
		cmd.Env = append(os.Environ(), "E2FSPROGS_FAKE_TIME=1700000000")
		out, err := cmd.CombinedOutput()
		if err != nil {
			if ee, ok := err.(*exec.ExitError); ok && ee.ExitCode() <= okExit {
				return nil
			}
			if len(out) > 300 {
				out = out[len(out)-300:]
			}
			return fmt.Errorf("%s: %v: %s", filepath.Base(name), err, out)
		}
		return nil
	}
	if err := run(mke2fs, 0, "-q", "-F", "-t", "ext4", "-b", "1024", "-I", "128", "-O", "^64bit,^extra_isize", "-g", "2048",
		"-U", "11111111-2222-3333-4444-555555555555", "-E", "hash_seed=aaaaaaaa-bbbb-cccc-dddd-eeeeeeeeeeee,lazy_itable_init=1,nodiscard",
		"-d", root, img, "6144K"); err != nil {
		return baseImage{}, err
	}
	if err := run(e2fsck, 1, "-f", "-y", "-D", img); err != nil {
		return baseImage{}, err
	}
	if err := run(e2fsck, 0, "-f", "-n", img); err != nil {
		return baseImage{}, err
	}
	b, err := os.ReadFile(img)
	if err != nil {
		return baseImage{}, err
	}
	return baseImage{name: "ext4-mke2fs-htree", kind: "ext4", img: b, quickBudget: 150}, nil
}

// ---- iso9660: Joliet; Rock Ridge with symlinks, continuation areas, multi-sector directories ----------

func buildIsoRich(r *hx.Rng, name string, rockRidge, joliet bool) (baseImage, error) {
	size := int64(4 << 20)
	d := memdev.New(size)
	d.KeepData = false
	fsys, err := iso9660.Create(d, size, 0, 2048, "")
	if err != nil {
		return baseImage{}, err
	}
	ws := fsys.Workspace()
	defer os.RemoveAll(ws)
	if err := populate(r.Fork(), fsys, false); err != nil {
		return baseImage{}, fmt.Errorf("populate: %w", err)
	}
	// a directory whose records fill several sectors (also without Rock Ridge): 50 entries
	if err := fsys.Mkdir("wide"); err != nil {
		return baseImage{}, err
	}
	wide := 50
	if rockRidge {
		wide = 30 // Rock Ridge records are three times as long
	}
	for i := 0; i < wide; i++ {
		if err := put(fsys, fmt.Sprintf("wide/Entry-%03d.Txt", i), r.Bytes(i)); err != nil {
			return baseImage{}, err
		}
	}
	// a file that ends exactly on a sector boundary
	if err := put(fsys, "exact2.bin", r.Bytes(2*2048)); err != nil {
		return baseImage{}, err
	}
	// six levels of directories and 12 more directories: path table records of every parent width
	if err := fsys.Mkdir("l1/l2/l3/l4/l5/l6"); err != nil {
		return baseImage{}, err
	}
	if err := put(fsys, "l1/l2/l3/l4/l5/l6/bottom.txt", r.Bytes(3000)); err != nil {
		return baseImage{}, err
	}
	for i := 0; i < 12; i++ {
		if err := fsys.Mkdir(fmt.Sprintf("dirs/sub%02d", i)); err != nil {
			return baseImage{}, err
		}
	}
	if rockRidge {
		// names and link targets that do not fit the directory record: continuation areas (CE), NM and SL
		// entries split over several entries
		longName := strings.Repeat("a-very-long-rock-ridge-name-", 7) + ".dat" // 200 characters
		if err := os.WriteFile(filepath.Join(ws, longName), r.Bytes(777), 0o644); err != nil {
			return baseImage{}, err
		}
		links := map[string]string{
			"link-short":       "a.txt",
			"link-abs":         "/dir1/sub/deep.bin",
			"link-up":          "../../outside/of/the/image",
			"link-long":        "dir1/" + strings.Repeat("component-of-a-long-target/", 8) + "end",
			"dir1/link-in-dir": "../big.bin",
		}
		for l, t := range links {
			if err := os.Symlink(t, filepath.Join(ws, filepath.FromSlash(l))); err != nil {
				return baseImage{}, err
			}
		}
	}
	if err := fsys.Finalize(iso9660.FinalizeOptions{RockRidge: rockRidge, Joliet: joliet, VolumeIdentifier: "BASE2"}); err != nil {
		return baseImage{}, fmt.Errorf("finalize: %w", err)
	}
	end := (writtenEnd(d) + 2047) / 2048 * 2048
	if end < 64*2048 {
		end = 64 * 2048
	}
	return baseImage{name: name, kind: "iso9660", img: d.Bytes(0, int(end)), be: true, quickBudget: 100}, nil
}

// ---- squashfs: many inodes and fragment blocks, symlinks, fifo; zstd with options at a start offset --

func buildSquashfsRich(r *hx.Rng) (baseImage, error) {
	size := int64(8 << 20)
	d := memdev.New(size)
	d.KeepData = false
	fsys, err := squashfs.Create(d, size, 0, 4096)
	if err != nil {
		return baseImage{}, err
	}
	ws := fsys.Workspace()
	defer os.RemoveAll(ws)
	// p: 258 empty files - more than 256 entries need a second directory header; their inodes, with those
	// of q, fill two inode-table metadata blocks. q: ten files with a tail of nearly a block or a few
	// bytes (fragment blocks, shared and not), one of 17 blocks and a tail, one of exactly two blocks.
	// The tree is kept narrow on purpose: a path walk reads every inode of every directory on the path,
	// so a case costs (files opened) x (entries of the directories above them) inode reads. Names are
	// short: the directory table must stay inside its first metadata block (C07 finding
	// sqfs-dir-startblock-index: directories listed in later blocks are unreadable as found). More than
	// 512 fragment blocks (a second block of the fragment table) would need more than 512 files with
	// tails, i.e. seconds per case: not reached here (regimes/C18.md).
	const nEmpty = 258
	for i := 0; i < nEmpty+12; i++ {
		dir, n := "p", 0
		if i >= nEmpty {
			k := i - nEmpty
			dir, n = "q", 3900+r.Intn(190)
			switch {
			case k == 10:
				n = 17*4096 + 1234
			case k == 11:
				n = 2 * 4096
			case k%2 == 1:
				n = 1 + r.Intn(200)
			}
		}
		full := filepath.Join(ws, dir, fmt.Sprintf("%03d", i))
		if err := os.MkdirAll(filepath.Dir(full), 0o755); err != nil {
			return baseImage{}, err
		}
		data := r.Bytes(n)
		for j := len(data) / 2; j < len(data); j++ { // second half compressible, as in populate
			data[j] = byte('a' + (j/97)%5)
		}
		if err := os.WriteFile(full, data, 0o644); err != nil {
			return baseImage{}, err
		}
	}
	links := map[string]string{"ls": "q/258", "ll": strings.Repeat("long/target/", 20) + "x", "q/lu": "../p/000"}
	for l, t := range links {
		if err := os.Symlink(t, filepath.Join(ws, filepath.FromSlash(l))); err != nil {
			return baseImage{}, err
		}
	}
	_ = os.Link(filepath.Join(ws, "q", "259"), filepath.Join(ws, "hl")) // hard link: link count 2
	_ = syscall.Mkfifo(filepath.Join(ws, "ff"), 0o644)                  // not everywhere possible: measured, not assumed
	o := squashfs.FinalizeOptions{}
	o.NoCompressData, o.NoCompressFragments, o.NoCompressInodes = true, true, true
	if err := fsys.Finalize(o); err != nil {
		return baseImage{}, fmt.Errorf("finalize: %w", err)
	}
	_ = fsys.Close()
	end := writtenEnd(d)
	if end < 4096 {
		end = 4096
	}
	// a case costs some 15 000 inode reads (a path walk reads every inode of every directory on the path)
	return baseImage{name: "squashfs-rich", kind: "squashfs", img: d.Bytes(0, int(end)), quickBudget: 150}, nil
}

// buildSquashfsFixture: the one non-empty image of the repository's test data that mksquashfs made
// (zstd, 300 empty files in one directory): the only source of BASIC file and directory inodes - the
// library's own writer emits the extended forms for every file and directory (link count >= 1).
func buildSquashfsFixture(*hx.Rng) (baseImage, error) {
	repo := os.Getenv("VERIF_REPO")
	if repo == "" {
		repo = "/repo"
	}
	b, err := os.ReadFile(filepath.Join(repo, "filesystem/squashfs/testdata/dir_read.sqs"))
	if err != nil {
		return baseImage{}, err
	}
	if len(b) < 96 || string(b[:4]) != "hsqs" {
		return baseImage{}, fmt.Errorf("dir_read.sqs is not a squashfs image (%d bytes)", len(b))
	}
	return baseImage{name: "squashfs-mksquashfs", kind: "squashfs", img: b, quickBudget: 100}, nil
}

func buildSquashfsZstd(r *hx.Rng) (baseImage, error) {
	const start, size = int64(5 * 4096), int64(4 << 20)
	d := memdev.New(start + size)
	d.KeepData = false
	d.RawWrite(lead(r, start), 0)
	fsys, err := squashfs.Create(d, size, start, 131072)
	if err != nil {
		return baseImage{}, err
	}
	ws := fsys.Workspace()
	defer os.RemoveAll(ws)
	if err := populate(r.Fork(), fsys, false); err != nil {
		return baseImage{}, fmt.Errorf("populate: %w", err)
	}
	_ = os.Symlink("dir1/sub/deep.bin", filepath.Join(ws, "ls"))
	// a file with an all-zero block in the middle (sparse block: size word 0) and one of exactly two blocks
	sp := r.Bytes(3 * 131072)
	for i := 131072; i < 2*131072; i++ {
		sp[i] = 0
	}
	if err := os.WriteFile(filepath.Join(ws, "sparse.bin"), sp, 0o644); err != nil {
		return baseImage{}, err
	}
	if err := os.WriteFile(filepath.Join(ws, "exact2.bin"), r.Bytes(2*131072), 0o644); err != nil {
		return baseImage{}, err
	}
	if err := fsys.Finalize(squashfs.FinalizeOptions{Compression: &squashfs.CompressorZstd{}}); err != nil {
		return baseImage{}, fmt.Errorf("finalize: %w", err)
	}
	_ = fsys.Close()
	end := writtenEnd(d)
	if end < start+4096 {
		end = start + 4096
	}
	return baseImage{name: "squashfs-zstd-128k-start", kind: "squashfs", img: d.Bytes(0, int(end)), start: start, sector: 131072, quickBudget: 150}, nil
}

// buildSquashfsBasic writes, byte by byte from the format description, a small uncompressed squashfs 4.0
// image that uses the BASIC inode forms (directory 1, file 2, symlink 3) which the library's own writer
// never emits: a file of two data blocks plus a tail in a fragment block, a file that lives in the fragment
// block only, an empty file, a symlink, an empty subdirectory and a subdirectory with one file. Every
// table is stored (uncompressed), so each byte of the inode and directory tables is reachable by a patch.
func buildSquashfsBasic(r *hx.Rng) (baseImage, error) {
	const bs = 4096
	var img []byte
	u16 := func(b []byte, v int) []byte { return append(b, byte(v), byte(v>>8)) }
	u32 := func(b []byte, v uint32) []byte { return append(b, byte(v), byte(v>>8), byte(v>>16), byte(v>>24)) }
	u64 := func(b []byte, v uint64) []byte { return u32(u32(b, uint32(v)), uint32(v>>32)) }
	meta := func(body []byte) []byte { return append(u16(nil, len(body)|0x8000), body...) }
	img = make([]byte, 96)
	// data: file "big" = 2 blocks + tail of 1000 bytes
	big := r.Bytes(2*bs + 1000)
	bigStart := len(img)
	img = append(img, big[:2*bs]...)
	// fragment block: tail of big (1000 bytes), then "small" (300 bytes)
	small := r.Bytes(300)
	fragStart := len(img)
	frag := append(append([]byte{}, big[2*bs:]...), small...)
	img = append(img, frag...)
	// inodes (one metadata block); numbers 1..8
	hdr := func(typ, mode, ino int) []byte {
		b := u16(u16(u16(u16(nil, typ), mode), 0), 0)
		return u32(u32(b, 1700000000), uint32(ino))
	}
	var itab []byte
	off := map[string]int{}
	add := func(name string, b []byte) { off[name] = len(itab); itab = append(itab, b...) }
	const unc = 1 << 24
	add("big", u32(u32(u32(u32(u32(u32(hdr(2, 0o644, 1), uint32(bigStart)), 0), 0), uint32(len(big))), bs|unc), bs|unc))
	add("small", u32(u32(u32(u32(hdr(2, 0o644, 2), 0), 0), 1000), uint32(len(small))))
	add("empty", u32(u32(u32(u32(hdr(2, 0o600, 3), 0), 0xFFFFFFFF), 0), 0))
	target := "sub/inner"
	add("link", append(u32(u32(hdr(3, 0o777, 4), 1), uint32(len(target))), target...))
	add("inner", u32(u32(u32(u32(hdr(2, 0o644, 5), 0), 0xFFFFFFFF), 0), 0))
	// directory listings (one metadata block): void (empty), sub {inner}, root {big,empty,link,small,sub,void}
	ent := func(name string, typ, ino, base int) []byte {
		b := u16(u16(u16(u16(nil, off[name]), ino-base), typ), len(name)-1)
		return append(b, name...)
	}
	var dtab []byte
	subOff := len(dtab)
	subList := append(u32(u32(u32(nil, 0), 0), 5), ent("inner", 2, 5, 5)...)
	dtab = append(dtab, subList...)
	// the directory inodes must exist before the root listing names their offsets
	add("sub", u32(u32(u16(u16(u32(u32(hdr(1, 0o755, 6), 0), 2), len(subList)+3), subOff), 8), 0)[:32])
	add("void", u32(u16(u16(u32(u32(hdr(1, 0o755, 7), 0), 2), 3), 0), 8))
	rootOff := len(dtab)
	rootList := u32(u32(u32(nil, 5), 0), 1)
	for _, e := range []struct {
		n        string
		typ, ino int
	}{{"big", 2, 1}, {"empty", 2, 3}, {"link", 3, 4}, {"small", 2, 2}, {"sub", 1, 6}, {"void", 1, 7}} {
		rootList = append(rootList, ent(e.n, e.typ, e.ino, 1)...)
	}
	dtab = append(dtab, rootList...)
	add("root", u32(u16(u16(u32(u32(hdr(1, 0o755, 8), 0), 4), len(rootList)+3), rootOff), 9))
	inoStart := len(img)
	img = append(img, meta(itab)...)
	dirStart := len(img)
	img = append(img, meta(dtab)...)
	// fragment table: one entry, then the index
	fragBlock := len(img)
	img = append(img, meta(u32(u32(u64(nil, uint64(fragStart)), uint32(len(frag))|unc), 0))...)
	fragTab := len(img)
	img = u64(img, uint64(fragBlock))
	// id table: one id, then the index
	idBlock := len(img)
	img = append(img, meta(u32(nil, 0))...)
	idTab := len(img)
	img = u64(img, uint64(idBlock))
	used := len(img)
	for len(img)%4096 != 0 {
		img = append(img, 0)
	}
	sb := u32(u32(u32(u32(u32(nil, 0x73717368), 8), 1700000000), bs), 1)
	sb = u16(u16(u16(u16(u16(u16(sb, 1), 12), 0x0001|0x0002|0x0008|0x0200|0x0800), 1), 4), 0)
	sb = u64(u64(u64(u64(sb, uint64(off["root"])), uint64(used)), uint64(idTab)), ^uint64(0))
	sb = u64(u64(u64(u64(sb, uint64(inoStart)), uint64(dirStart)), uint64(fragTab)), ^uint64(0))
	copy(img, sb)
	return baseImage{name: "squashfs-basic-handmade", kind: "squashfs", img: img, quickBudget: 250}, nil
}

// buildOverGarbage builds the small tree of the first bases on a device that holds random bytes instead
// of zeros (what is left of an earlier, different use of the device): a damaged pointer - cluster link,
// inode number, extent, directory location - then leads the reader into garbage instead of into zeros,
// which a parser takes for "end of list".
func buildOverGarbage(r *hx.Rng, kind string) (baseImage, error) {
	size := map[string]int64{"fat16": 17 << 20, "ext4": 12 << 20, "iso9660": 2 << 20}[kind]
	d := memdev.New(size)
	d.KeepData = false
	d.RawWrite(r.Bytes(int(size)), 0)
	d.Log = nil
	name := kind + "-stale"
	switch kind {
	case "fat16":
		fsys, err := fat16.Create(d, size, 0, 512, "STALE", true)
		if err != nil {
			return baseImage{}, err
		}
		if err := populate(r.Fork(), fsys, false); err != nil {
			return baseImage{}, err
		}
	case "ext4":
		fsys, err := ext4.Create(d, size, 0, 512, &ext4.Params{})
		if err != nil {
			return baseImage{}, err
		}
		if err := populate(r.Fork(), fsys, true); err != nil {
			return baseImage{}, err
		}
	case "iso9660":
		fsys, err := iso9660.Create(d, size, 0, 2048, "")
		if err != nil {
			return baseImage{}, err
		}
		defer os.RemoveAll(fsys.Workspace())
		if err := populate(r.Fork(), fsys, false); err != nil {
			return baseImage{}, err
		}
		if err := fsys.Finalize(iso9660.FinalizeOptions{RockRidge: true, VolumeIdentifier: "STALE"}); err != nil {
			return baseImage{}, err
		}
	}
	return baseImage{name: name, kind: kind, img: d.Bytes(0, int(size)), be: kind == "iso9660", quickBudget: 100}, nil
}
