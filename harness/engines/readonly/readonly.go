// Package readonly is the C11 engine: on a disk / backend that is read-only in
// any of the four ways the library offers, and on a finalized iso9660/squashfs
// filesystem, every mutating call returns an error and no byte of the image
// changes; purely reading calls never write, whatever the mode.
//
// Observation: the WriteAt log of the in-memory device (which also records
// writes that reach a device whose Writable() refused), and the SHA-256 of the
// image before/after (for the three file-backed modes the image is a real
// temporary file under the scratch directory).
package readonly

import (
	"bytes"
	"crypto/sha256"
	"encoding/hex"
	"fmt"
	"io"
	"os"
	"path/filepath"
	"strings"
	"time"

	diskfs "github.com/diskfs/go-diskfs"
	"github.com/diskfs/go-diskfs/backend"
	"github.com/diskfs/go-diskfs/backend/file"
	"github.com/diskfs/go-diskfs/disk"
	"github.com/diskfs/go-diskfs/filesystem"
	"github.com/diskfs/go-diskfs/filesystem/ext4"

	ml "verif/harness/engines/modeslib"
	"verif/harness/internal/hx"
	"verif/harness/internal/memdev"
)

const (
	KB = int64(1024)
	MB = 1024 * KB
)

// image is a prepared disk image: bytes on a memdev, optionally dumped to a file.
type image struct {
	name  string // fs kind, or "gpt" / "mbr" (table with a fat12 partition)
	kind  string // kind of the filesystem that ops are run on
	part  int
	ss    int64
	size  int64
	proto *memdev.Dev // pristine content
	file  string      // path of the dumped copy (lazily made)
}

func imgSize(kind string) int64 {
	switch kind {
	case "fat12":
		return 1 * MB
	case "fat16":
		return 5 * MB
	case "fat32":
		return 2 * MB
	case "ext4":
		return 16 * MB
	}
	return 1 * MB
}

func secSize(kind string) int64 {
	switch kind {
	case "iso9660":
		return 2048
	case "squashfs":
		return 4096
	}
	return 512
}

func openDisk(b backend.Storage, ss int64) (*disk.Disk, error) {
	if ss == 512 {
		return diskfs.OpenBackend(b)
	}
	return diskfs.OpenBackend(b, diskfs.WithSectorSize(diskfs.SectorSize(ss)))
}

func buildImages() ([]*image, error) {
	var out []*image
	for _, k := range ml.Kinds {
		im := &image{name: k.Name, kind: k.Name, ss: secSize(k.Name), size: imgSize(k.Name)}
		im.proto = memdev.New(im.size)
		d, err := openDisk(im.proto, im.ss)
		if err != nil {
			return nil, err
		}
		if err := ml.MakeFS(d, 0, k, "RO", ml.SmallTree(3)); err != nil {
			return nil, fmt.Errorf("build %s: %w", k.Name, err)
		}
		out = append(out, im)
	}
	for _, t := range []string{"gpt", "mbr"} {
		im := &image{name: t, kind: "fat12", part: 1, ss: 512, size: 4 * MB}
		im.proto = memdev.New(im.size)
		d, err := openDisk(im.proto, 512)
		if err != nil {
			return nil, err
		}
		if t == "gpt" {
			err = d.Partition(ml.GPTOne(2048, 2048))
		} else {
			err = d.Partition(ml.MBROne(2048, 2048))
		}
		if err != nil {
			return nil, fmt.Errorf("build %s: %w", t, err)
		}
		k, _ := ml.KindByName("fat12")
		if err := ml.MakeFS(d, 1, k, "RO", ml.SmallTree(3)); err != nil {
			return nil, fmt.Errorf("build %s fs: %w", t, err)
		}
		out = append(out, im)
	}
	return out, nil
}

// modes of access. ro* are the four ways of being read-only; rw is a writable backend (used for
// the reader clause and for finalized iso9660/squashfs).
var modes = []string{"ro-backend", "ro-open", "ro-frompath", "ro-filenew", "rw"}

type env struct {
	im    *image
	mode  string
	d     *disk.Disk
	dev   *memdev.Dev // non-nil for memdev-backed modes
	path  string      // non-empty for file-backed modes
	hash0 string
	close func()
}

func fileHash(p string) string {
	f, err := os.Open(p)
	if err != nil {
		return "unreadable:" + err.Error()
	}
	defer f.Close()
	h := sha256.New()
	io.Copy(h, f)
	return hex.EncodeToString(h.Sum(nil))
}

func (im *image) dump(dir string) (string, error) {
	if im.file != "" {
		return im.file, nil
	}
	p := filepath.Join(dir, "ro-"+im.name+".img")
	f, err := os.Create(p)
	if err != nil {
		return "", err
	}
	defer f.Close()
	const chunk = 1 << 20
	for off := int64(0); off < im.size; off += chunk {
		n := int64(chunk)
		if off+n > im.size {
			n = im.size - off
		}
		if _, err := f.WriteAt(im.proto.Bytes(off, int(n)), off); err != nil {
			return "", err
		}
	}
	im.file = p
	return p, nil
}

func openEnv(c *hx.Ctx, im *image, mode string) (*env, error) {
	e := &env{im: im, mode: mode, close: func() {}}
	var err error
	switch mode {
	case "ro-backend", "rw":
		e.dev = im.proto.Clone()
		e.dev.ReadOnly = mode == "ro-backend"
		e.hash0 = e.dev.Hash(0, im.size)
		e.d, err = openDisk(e.dev, im.ss)
	case "ro-open":
		if e.path, err = im.dump(c.Scratch); err != nil {
			return nil, err
		}
		e.hash0 = fileHash(e.path)
		opts := []diskfs.OpenOpt{diskfs.WithOpenMode(diskfs.ReadOnly)}
		if im.ss != 512 {
			opts = append(opts, diskfs.WithSectorSize(diskfs.SectorSize(im.ss)))
		}
		e.d, err = diskfs.Open(e.path, opts...)
	case "ro-frompath":
		if e.path, err = im.dump(c.Scratch); err != nil {
			return nil, err
		}
		e.hash0 = fileHash(e.path)
		var b backend.Storage
		if b, err = file.OpenFromPath(e.path, true); err == nil {
			e.d, err = openDisk(b, im.ss)
		}
	case "ro-filenew":
		// the OS handle IS writable; only the library's own refusal protects the image
		if e.path, err = im.dump(c.Scratch); err != nil {
			return nil, err
		}
		e.hash0 = fileHash(e.path)
		var f *os.File
		if f, err = os.OpenFile(e.path, os.O_RDWR, 0o600); err == nil {
			e.d, err = openDisk(file.New(f, true), im.ss)
		}
	}
	if err != nil {
		return nil, fmt.Errorf("open %s/%s: %w", im.name, mode, err)
	}
	if e.d != nil {
		d := e.d
		e.close = func() {
			if d.Backend != nil {
				d.Backend.Close()
			}
		}
	}
	return e, nil
}

// writesSeen: number of WriteAt calls that reached the device since the last call (memdev modes).
func (e *env) writesSeen() int {
	if e.dev == nil {
		return 0
	}
	n := len(e.dev.OutOfRange)
	for _, ev := range e.dev.Log {
		if !ev.Sync {
			n++
		}
	}
	e.dev.ResetLog()
	return n
}

func (e *env) changed() bool {
	if e.dev != nil {
		return e.dev.Hash(0, e.im.size) != e.hash0
	}
	return fileHash(e.path) != e.hash0
}

// ---- operations ------------------------------------------------------------------------------

type opDef struct {
	name    string
	level   string // "disk" | "fs"
	mutator bool   // named by the property as a mutating call that must return an error
	extra   bool   // not named by the property: only "must not write" is judged
	run     func(e *env, fs filesystem.FileSystem) error
}

var wflags = map[string]int{
	"open-rdwr":   os.O_RDWR,
	"open-wronly": os.O_WRONLY,
	"open-create": os.O_CREATE | os.O_RDWR,
	"open-append": os.O_APPEND | os.O_RDWR,
	"open-trunc":  os.O_TRUNC | os.O_RDWR,
}

func openThen(fs filesystem.FileSystem, p string, flag int, then func(f filesystem.File) error) error {
	f, err := fs.OpenFile(p, flag)
	if err != nil {
		return err
	}
	defer f.Close()
	if then == nil {
		return nil
	}
	return then(f)
}

func ops() []opDef {
	t := time.Unix(1700000000, 0)
	list := []opDef{
		// --- Disk level
		{"partition-gpt", "disk", true, false, func(e *env, _ filesystem.FileSystem) error {
			return e.d.Partition(ml.GPTOne(64, 256))
		}},
		{"partition-mbr", "disk", true, false, func(e *env, _ filesystem.FileSystem) error {
			return e.d.Partition(ml.MBROne(64, 256))
		}},
		{"writepart", "disk", true, false, func(e *env, _ filesystem.FileSystem) error {
			p := e.im.part
			if p == 0 {
				p = 1 // no table: must still fail and write nothing
			}
			_, err := e.d.WritePartitionContents(p, bytes.NewReader(make([]byte, 2048*512)))
			return err
		}},
		{"gettable", "disk", false, false, func(e *env, _ filesystem.FileSystem) error {
			e.d.GetPartitionTable()
			return nil
		}},
		{"readpart", "disk", false, false, func(e *env, _ filesystem.FileSystem) error {
			e.d.ReadPartitionContents(1, io.Discard)
			return nil
		}},
		{"getfs", "disk", false, false, func(e *env, _ filesystem.FileSystem) error {
			fs, err := e.d.GetFilesystem(e.im.part)
			if err == nil {
				fs.Close()
			}
			return nil
		}},
	}
	for _, k := range ml.Kinds {
		k := k
		list = append(list, opDef{"createfs-" + k.Name, "disk", true, false, func(e *env, _ filesystem.FileSystem) error {
			fs, err := e.d.CreateFilesystem(disk.FilesystemSpec{Partition: e.im.part, FSType: k.Type, VolumeLabel: "X"})
			if err == nil {
				fs.Close()
			}
			return err
		}})
	}
	// --- FileSystem level: mutators named by the property
	list = append(list,
		opDef{"mkdir", "fs", true, false, func(_ *env, fs filesystem.FileSystem) error { return fs.Mkdir("NEWDIR") }},
		opDef{"mkdir-nested", "fs", true, false, func(_ *env, fs filesystem.FileSystem) error { return fs.Mkdir("DIR/SUB/DEEP") }},
		opDef{"rename", "fs", true, false, func(_ *env, fs filesystem.FileSystem) error { return fs.Rename("A.TXT", "C.TXT") }},
		opDef{"remove", "fs", true, false, func(_ *env, fs filesystem.FileSystem) error { return fs.Remove("A.TXT") }},
		opDef{"remove-dirfile", "fs", true, false, func(_ *env, fs filesystem.FileSystem) error { return fs.Remove("DIR/B.BIN") }},
		opDef{"setlabel", "fs", true, false, func(_ *env, fs filesystem.FileSystem) error { return fs.SetLabel("NEWLABEL") }},
		// mutators whose argument is the value already there, and an immediate retry of a refused call: still mutating
		// calls, still to be refused (a shortcut that returns nil for "nothing to do" answers before the guard)
		opDef{"setlabel-current", "fs", true, false, func(_ *env, fs filesystem.FileSystem) error { return fs.SetLabel(fs.Label()) }},
		opDef{"setlabel-retry", "fs", true, false, func(_ *env, fs filesystem.FileSystem) error {
			_ = fs.SetLabel("RETRYLBL")
			return fs.SetLabel("RETRYLBL")
		}},
		opDef{"rename-same", "fs", true, false, func(_ *env, fs filesystem.FileSystem) error { return fs.Rename("A.TXT", "A.TXT") }},
		opDef{"chmod-retry", "fs", true, false, func(_ *env, fs filesystem.FileSystem) error {
			_ = fs.Chmod("A.TXT", 0o640)
			return fs.Chmod("A.TXT", 0o640)
		}},
		opDef{"chmod", "fs", true, false, func(_ *env, fs filesystem.FileSystem) error { return fs.Chmod("A.TXT", 0o600) }},
		opDef{"chown", "fs", true, false, func(_ *env, fs filesystem.FileSystem) error { return fs.Chown("A.TXT", 1, 1) }},
		opDef{"chtimes", "fs", true, false, func(_ *env, fs filesystem.FileSystem) error { return fs.Chtimes("A.TXT", t, t, t) }},
		opDef{"symlink", "fs", true, false, func(_ *env, fs filesystem.FileSystem) error { return fs.Symlink("A.TXT", "L.LNK") }},
		opDef{"write", "fs", true, false, func(_ *env, fs filesystem.FileSystem) error {
			// Write on a handle: one opened for writing if the filesystem hands one out, else a read handle
			f, err := fs.OpenFile("A.TXT", os.O_RDWR)
			if err != nil {
				f, err = fs.OpenFile("A.TXT", os.O_RDONLY)
				if err != nil {
					return nil // no handle to write on: nothing to judge (reported as skipped)
				}
			}
			defer f.Close()
			_, err = f.Write([]byte("overwrite"))
			return err
		}},
		opDef{"write-append", "fs", true, false, func(_ *env, fs filesystem.FileSystem) error {
			f, err := fs.OpenFile("DIR/B.BIN", os.O_RDWR|os.O_APPEND)
			if err != nil {
				f, err = fs.OpenFile("DIR/B.BIN", os.O_RDONLY)
				if err != nil {
					return nil
				}
			}
			defer f.Close()
			_, err = f.Write(make([]byte, 5000))
			return err
		}},
	)
	for n, fl := range wflags {
		n, fl := n, fl
		p := "A.TXT"
		if n == "open-create" {
			p = "NEW.TXT"
		}
		list = append(list, opDef{n, "fs", true, false, func(_ *env, fs filesystem.FileSystem) error { return openThen(fs, p, fl, nil) }})
	}
	// --- mutators the property does not name: only "no write" is judged
	list = append(list,
		opDef{"link", "fs", false, true, func(_ *env, fs filesystem.FileSystem) error { return fs.Link("A.TXT", "H.LNK") }},
		opDef{"mknod", "fs", false, true, func(_ *env, fs filesystem.FileSystem) error { return fs.Mknod("NOD", 0o600, 0) }},
		opDef{"truncate", "fs", false, true, func(_ *env, fs filesystem.FileSystem) error {
			if x, ok := fs.(*ext4.FileSystem); ok {
				return x.Truncate("A.TXT", 3)
			}
			return nil
		}},
	)
	// --- readers
	list = append(list,
		opDef{"readdir", "fs", false, false, func(_ *env, fs filesystem.FileSystem) error { fs.ReadDir("."); fs.ReadDir("DIR"); return nil }},
		opDef{"open", "fs", false, false, func(_ *env, fs filesystem.FileSystem) error {
			f, err := fs.Open("A.TXT")
			if err == nil {
				f.Close()
			}
			return nil
		}},
		opDef{"open-rdonly", "fs", false, false, func(_ *env, fs filesystem.FileSystem) error {
			return openThen(fs, "A.TXT", os.O_RDONLY, nil)
		}},
		opDef{"read", "fs", false, false, func(_ *env, fs filesystem.FileSystem) error {
			return openThen(fs, "DIR/B.BIN", os.O_RDONLY, func(f filesystem.File) error {
				b := make([]byte, 100)
				f.Read(b)
				f.Seek(300, io.SeekStart)
				f.Read(b)
				f.Seek(-50, io.SeekEnd)
				f.Read(b)
				f.Seek(0, io.SeekCurrent)
				return nil
			})
		}},
		opDef{"stat", "fs", false, false, func(_ *env, fs filesystem.FileSystem) error {
			fs.Stat("A.TXT")
			fs.Stat("DIR")
			fs.Stat(".")
			fs.Stat("MISSING")
			return nil
		}},
		opDef{"readfile", "fs", false, false, func(_ *env, fs filesystem.FileSystem) error { fs.ReadFile("A.TXT"); return nil }},
		opDef{"label", "fs", false, false, func(_ *env, fs filesystem.FileSystem) error { fs.Label(); fs.Type(); return nil }},
		opDef{"open-missing", "fs", false, false, func(_ *env, fs filesystem.FileSystem) error {
			openThen(fs, "MISSING.TXT", os.O_RDONLY, nil)
			return nil
		}},
	)
	return list
}

func opByName(name string) *opDef {
	for _, o := range allOps {
		if o.name == name {
			o := o
			return &o
		}
	}
	return nil
}

var allOps []opDef

// findingFor names the recorded defect whose trigger the (kind, mode, op, outcome) meets, or "".
func findingFor(kind, mode string, fin bool, op string, errored bool, writes int, changed bool) string {
	if writes != 0 || changed {
		return "" // a byte changed or a write was attempted: never explained by a recorded finding
	}
	ro := strings.HasPrefix(mode, "ro-")
	if ro && !errored {
		switch {
		case (kind == "fat12" || kind == "fat16" || kind == "fat32" || kind == "ext4") &&
			(op == "open-rdwr" || op == "open-wronly" || op == "open-append"):
			// handle is handed out; the error only appears at Write; no byte is written
			return "openfile-write-on-readonly-succeeds"
		case (kind == "fat12" || kind == "fat16" || kind == "fat32" || kind == "ext4") && op == "open-trunc":
			return "openfile-write-on-readonly-succeeds"
		case op == "createfs-iso9660" || op == "createfs-squashfs":
			// staged filesystems touch the device only at Finalize; CreateFilesystem itself succeeds
			return "staged-createfs-on-readonly-succeeds"
		}
	}
	return ""
}

type result struct {
	errored  bool
	panicked string
	writes   int
}

func runOp(e *env, fs filesystem.FileSystem, o *opDef) (r result) {
	defer func() {
		if p := recover(); p != nil {
			r.panicked = fmt.Sprint(p)
			r.writes = e.writesSeen()
		}
	}()
	err := o.run(e, fs)
	r.errored = err != nil
	r.writes = e.writesSeen()
	return r
}

func finalized(kind string) bool { return kind == "iso9660" || kind == "squashfs" }

// judge applies the property to one executed op. Returns "" if it holds.
func judge(e *env, o *opDef, r result) string {
	ro := strings.HasPrefix(e.mode, "ro-")
	mustReject := o.mutator && (ro || (o.level == "fs" && finalized(e.im.kind)))
	var probs []string
	if r.panicked != "" {
		probs = append(probs, "panic: "+r.panicked)
	}
	noWrite := ro || !o.mutator && !o.extra || (o.level == "fs" && finalized(e.im.kind))
	if noWrite && r.writes != 0 {
		probs = append(probs, fmt.Sprintf("%d WriteAt call(s) reached the device", r.writes))
	}
	if mustReject && !r.errored && r.panicked == "" {
		probs = append(probs, "mutating call returned nil error")
	}
	return strings.Join(probs, "; ")
}

func outcome(r result) string {
	switch {
	case r.panicked != "":
		return "panic"
	case r.errored:
		return "err"
	}
	return "ok"
}

// one (image, mode) table row set: every op once on a fresh environment
func tableCases(c *hx.Ctx, im *image, mode string) {
	for i := range allOps {
		o := &allOps[i]
		id := fmt.Sprintf("t/%s/%s/%s", im.name, mode, o.name)
		if !c.Want(id) {
			continue
		}
		if mode == "rw" && (o.mutator || o.extra) && !(o.level == "fs" && finalized(im.kind)) {
			continue // a writable, unfinalized filesystem may be modified: not this property's subject
		}
		desc := fmt.Sprintf("image=%s kind=%s mode=%s op=%s", im.name, im.kind, mode, o.name)
		func() {
			e, err := openEnv(c, im, mode)
			if err != nil {
				c.Fail(id, "-", "cannot open: "+err.Error(), desc)
				return
			}
			defer e.close()
			e.writesSeen()
			var fs filesystem.FileSystem
			if o.level == "fs" {
				fs, err = e.d.GetFilesystem(im.part)
				if err != nil {
					c.Fail(id, "-", "GetFilesystem on the prepared image: "+err.Error(), desc)
					return
				}
				defer fs.Close()
				if n := e.writesSeen(); n != 0 {
					c.Fail(id, "-", fmt.Sprintf("GetFilesystem wrote (%d WriteAt)", n), desc)
					return
				}
			}
			r := runOp(e, fs, o)
			ch := e.changed()
			msg := judge(e, o, r)
			if ch {
				msg = strings.TrimPrefix(msg+"; image SHA-256 changed", "; ")
			}
			fin := finalized(im.kind) && o.level == "fs"
			c.Stat("op." + o.name)
			c.Stat("mode." + mode)
			c.Stat("outcome." + outcome(r))
			// correspondence with the Lean decision table
			rok := 0
			if strings.HasPrefix(mode, "ro-") {
				rok = 1
			}
			if !o.extra { // Link / Mknod / Truncate are outside the modelled decision table
				c.Case(id, "readonly.op", "kind="+im.kind, fmt.Sprintf("ro=%d", rok), fmt.Sprintf("fin=%d", b2i(fin)),
					fmt.Sprintf("ss=%d", im.ss), "op="+o.name)
				c.Impl(id, "out="+outcome(r), fmt.Sprintf("w=%d", r.writes))
			}
			if msg == "" {
				c.OK(id)
				c.Distinct(desc)
				return
			}
			tag := findingFor(im.kind, mode, fin, o.name, r.errored, r.writes, ch)
			if tag == "" || msg != "mutating call returned nil error" {
				tag = "-"
			}
			c.Fail(id, tag, msg, desc)
		}()
	}
}

func b2i(b bool) int {
	if b {
		return 1
	}
	return 0
}

// sequences: interleavings of reads and rejected writes on ONE opened disk / filesystem object.
func sequence(c *hx.Ctx, id string, im *image, mode string, names []string) {
	desc := fmt.Sprintf("image=%s kind=%s mode=%s ops=%s", im.name, im.kind, mode, strings.Join(names, ","))
	e, err := openEnv(c, im, mode)
	if err != nil {
		c.Fail(id, "-", "cannot open: "+err.Error(), desc)
		return
	}
	defer e.close()
	e.writesSeen()
	fs, err := e.d.GetFilesystem(im.part)
	if err != nil {
		c.Fail(id, "-", "GetFilesystem on the prepared image: "+err.Error(), desc)
		return
	}
	defer fs.Close()
	var probs []string
	tag := ""
	for i, n := range names {
		o := opByName(n)
		if o == nil {
			continue
		}
		if strings.HasPrefix(n, "createfs-") || strings.HasPrefix(n, "partition-") {
			// keeps the same Disk; the filesystem object stays valid because nothing may change
		}
		r := runOp(e, fs, o)
		if msg := judge(e, o, r); msg != "" {
			t := findingFor(im.kind, mode, finalized(im.kind) && o.level == "fs", o.name, r.errored, r.writes, false)
			if t != "" && msg == "mutating call returned nil error" {
				if tag == "" {
					tag = t
				}
				continue // the recorded finding; keep going to see that still no byte changes
			}
			probs = append(probs, fmt.Sprintf("step %d %s: %s", i, n, msg))
			tag = "-"
		}
	}
	if e.changed() {
		probs = append(probs, "image SHA-256 changed")
		tag = "-"
	}
	// after the whole history the tree still reads back as built
	if got, err := ml.ReadTree(fs); err != nil {
		probs = append(probs, "tree no longer readable through the same filesystem object: "+err.Error())
		tag = "-"
	} else if diff := ml.TreeDiff(ml.SmallTree(3), got); diff != "" {
		// FAT's failed Mkdir/create leave phantom state in the object; the image itself is intact,
		// which is what the property is about — recorded in the distribution, not judged
		c.Stat("seq.object-view-drifted")
	}
	c.Stat("seq.len." + fmt.Sprint(len(names)/10*10))
	if len(probs) == 0 {
		c.OK(id)
		c.Distinct(desc)
		c.Sample(desc)
		return
	}
	if tag == "" {
		tag = "-"
	}
	c.Fail(id, tag, strings.Join(probs, " | "), desc)
}

// Run is the engine entry point.
func Run(c *hx.Ctx) {
	allOps = ops()
	images, err := buildImages()
	if err != nil {
		c.Fail("setup", "-", "cannot build the images: "+err.Error(), "")
		return
	}
	// 1. the whole table: every entry point x every image x every mode
	for _, im := range images {
		for _, m := range modes {
			tableCases(c, im, m)
		}
	}
	// 2. interleavings. Sequence alphabet: fs-level ops plus the disk-level ones.
	var names []string
	for _, o := range allOps {
		names = append(names, o.name)
	}
	r := c.Rng
	// all ordered pairs on the memdev read-only backend, per image
	short := []string{"mkdir", "open-create", "write", "remove", "rename", "setlabel", "readdir", "read", "stat", "createfs-fat12", "partition-gpt", "chtimes"}
	for _, im := range images {
		n := 0
		for _, a := range short {
			for _, b := range short {
				id := fmt.Sprintf("s2/%s/%s+%s", im.name, a, b)
				n++
				if !c.Want(id) || (!c.Thorough() && a != b && n%3 != int(c.Seed%3)) {
					continue
				}
				sequence(c, id, im, "ro-backend", []string{a, b})
			}
		}
	}
	// random histories up to 50 ops, all read-only modes (and rw for finalized kinds, fs-level ops only)
	nseq := c.N(120, 3000)
	for i := 0; i < nseq; i++ {
		im := hx.Pick(r, images)
		mode := hx.Pick(r, modes[:4])
		if finalized(im.kind) && r.Chance(30) {
			mode = "rw"
		}
		l := 1 + r.Intn(50)
		if r.Chance(50) {
			l = 1 + r.Intn(6)
		}
		seq := make([]string, l)
		for j := range seq {
			for {
				seq[j] = hx.Pick(r, names)
				o := opByName(seq[j])
				if mode == "rw" && o.level == "disk" && o.mutator {
					continue
				}
				break
			}
		}
		id := fmt.Sprintf("sr/%d", i)
		if !c.Want(id) {
			continue
		}
		sequence(c, id, im, mode, seq)
	}
	witnesses(c, images)
	for _, im := range images {
		if im.file != "" {
			os.Remove(im.file)
		}
	}
}

func witnesses(c *hx.Ctx, images []*image) {
	if c.Only != "" {
		return
	}
	byName := map[string]*image{}
	for _, im := range images {
		byName[im.name] = im
	}
	try := func(tag, img, op string) {
		e, err := openEnv(c, byName[img], "ro-backend")
		if err != nil {
			c.Known(tag, false, "cannot open: "+err.Error())
			return
		}
		defer e.close()
		e.writesSeen()
		o := opByName(op)
		var fs filesystem.FileSystem
		if o.level == "fs" {
			if fs, err = e.d.GetFilesystem(byName[img].part); err != nil {
				c.Known(tag, false, "GetFilesystem: "+err.Error())
				return
			}
			defer fs.Close()
		}
		r := runOp(e, fs, o)
		c.Known(tag, !r.errored && r.panicked == "" && r.writes == 0,
			fmt.Sprintf("image=%s mode=ro-backend op=%s -> %s, %d writes", img, op, outcome(r), r.writes))
	}
	try("openfile-write-on-readonly-succeeds", "fat16", "open-rdwr")
	try("staged-createfs-on-readonly-succeeds", "fat12", "createfs-squashfs")
}
