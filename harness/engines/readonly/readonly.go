// Package readonly is the C11 engine: on a disk / backend that is read-only in
// any of the four ways the library offers, and on a finalized iso9660/squashfs
// filesystem, every mutating call returns an error and no byte of the image
// changes; purely reading calls never write, whatever the mode.
//
// Observation: the WriteAt log of the in-memory device (which also records
// writes that reach a device whose Writable() refused), and the SHA-256 of the
// image before/after (for the file-backed modes - every constructor of backend/file and diskfs.Open
// with every flag combination, directly and under backend.Sub - the image is a real temporary file
// under the scratch directory), and, per constructor, the access mode of the OS handle (fcntl
// F_GETFL) and the answer of Writable().
package readonly

import (
	"bytes"
	"crypto/sha256"
	"encoding/hex"
	"fmt"
	"io"
	iofs "io/fs"
	"os"
	"path/filepath"
	"strings"
	"syscall"
	"time"

	diskfs "github.com/diskfs/go-diskfs"
	"github.com/diskfs/go-diskfs/backend"
	"github.com/diskfs/go-diskfs/backend/file"
	"github.com/diskfs/go-diskfs/disk"
	"github.com/diskfs/go-diskfs/filesystem"
	"github.com/diskfs/go-diskfs/filesystem/ext4"
	"github.com/diskfs/go-diskfs/filesystem/iso9660"
	"github.com/diskfs/go-diskfs/filesystem/squashfs"
	"github.com/diskfs/go-diskfs/partition/gpt"

	ml "verif/harness/engines/modeslib"
	"verif/harness/internal/hx"
	"verif/harness/internal/memdev"
)

const (
	KB = int64(1024)
	MB = 1024 * KB
)

// image is a prepared disk image: bytes on a memdev, optionally dumped to a file.
type image struct {
	name  string // fs kind, or "gpt" / "mbr" (table with a fat12 partition)
	kind  string // kind of the filesystem that ops are run on
	part  int
	ss    int64
	size  int64
	proto *memdev.Dev // pristine content
	file  string      // path of the dumped copy (lazily made)
	fhash string      // SHA-256 of the dumped copy as written (the file must never differ from it)
	fstat string      // size, mtime and ctime of the dumped copy as written
}

func imgSize(kind string) int64 {
	switch kind {
	case "fat12":
		return 1 * MB
	case "fat16":
		return 5 * MB
	case "fat32":
		return 2 * MB
	case "ext4":
		return 16 * MB
	}
	return 1 * MB
}

func secSize(kind string) int64 {
	switch kind {
	case "iso9660":
		return 2048
	case "squashfs":
		return 4096
	}
	return 512
}

func openDisk(b backend.Storage, ss int64) (*disk.Disk, error) {
	if ss == 512 {
		return diskfs.OpenBackend(b)
	}
	return diskfs.OpenBackend(b, diskfs.WithSectorSize(diskfs.SectorSize(ss)))
}

func buildImages(thorough bool) ([]*image, error) {
	var out []*image
	for _, k := range ml.Kinds {
		im := &image{name: k.Name, kind: k.Name, ss: secSize(k.Name), size: imgSize(k.Name)}
		im.proto = memdev.New(im.size)
		d, err := openDisk(im.proto, im.ss)
		if err != nil {
			return nil, err
		}
		if err := ml.MakeFS(d, 0, k, "RO", ml.SmallTree(3)); err != nil {
			return nil, fmt.Errorf("build %s: %w", k.Name, err)
		}
		out = append(out, im)
	}
	type tbl struct {
		name, table, kind string
		secs              uint32
	}
	tbls := []tbl{{"gpt", "gpt", "fat12", 2048}, {"mbr", "mbr", "fat12", 2048}}
	if thorough {
		// a filesystem that the library reads through backend.Sub at a non-zero start (ext4 in a partition)
		tbls = append(tbls, tbl{"mbr-ext4", "mbr", "ext4", 32768})
	}
	for _, t := range tbls {
		im := &image{name: t.name, kind: t.kind, part: 1, ss: 512, size: int64(2048+t.secs+2048) * 512}
		im.proto = memdev.New(im.size)
		d, err := openDisk(im.proto, 512)
		if err != nil {
			return nil, err
		}
		if t.table == "gpt" {
			err = d.Partition(ml.GPTOne(2048, uint64(t.secs)))
		} else {
			err = d.Partition(ml.MBROne(2048, t.secs))
		}
		if err != nil {
			return nil, fmt.Errorf("build %s: %w", t.name, err)
		}
		k, _ := ml.KindByName(t.kind)
		if err := ml.MakeFS(d, 1, k, "RO", ml.SmallTree(3)); err != nil {
			return nil, fmt.Errorf("build %s fs: %w", t.name, err)
		}
		out = append(out, im)
	}
	return out, nil
}

// modes of access. ro-* : read-only access was asked for, through one constructor of the library (or a
// backend of ours whose Writable() refuses), directly or under backend.Sub; rw* : a writable backend
// (used for the reader clause and for finalized iso9660/squashfs).
//
// model key: the row of the Lean constructor table the mode corresponds to (ctor, a, b), the access
// mode of the caller's handle for file.New, and the backend.Sub nesting depth.
type modeDef struct {
	name   string
	ro     bool
	mem    bool   // backed by the in-memory device (write log available)
	level  string // "all" | "disk": run disk-level ops only (the prepared filesystem need not open at this sector size)
	thin   bool   // quick tier: the reduced op set (the constructor's full table runs under its direct mode)
	ctor   string // "refusing" | "nowriter" | "0".."3"
	a      string
	b      int
	handle int
	sub    int
	ss4k   bool // open with a 4096-byte sector size whatever the image was made with
	obOpt  bool // the storage is writable; read-only is asked for through diskfs.OpenBackend(b, WithOpenMode(ReadOnly))
	images []string // table cases only on these images (nil: all)
	// open returns the disk (diskfs.Open) or the storage to hand to diskfs.OpenBackend
	open func(path string, ssOpt []diskfs.OpenOpt) (*disk.Disk, backend.Storage, error)
}

func stor(b backend.Storage, err error) (*disk.Disk, backend.Storage, error) { return nil, b, err }

func osNew(flag int, ro bool) func(string, []diskfs.OpenOpt) (*disk.Disk, backend.Storage, error) {
	return func(p string, _ []diskfs.OpenOpt) (*disk.Disk, backend.Storage, error) {
		f, err := os.OpenFile(p, flag, 0o600)
		if err != nil {
			return nil, nil, err
		}
		return nil, file.New(f, ro), nil
	}
}

// plainFile is an fs.File with ReadAt and Seek and NO WriteAt: rawBackend.Writable's third branch
// (the handle is no backend.WritableFile: ErrNotSuitable), whatever the readOnly flag says.
type plainFile struct{ f *os.File }

func (p plainFile) Stat() (iofs.FileInfo, error)            { return p.f.Stat() }
func (p plainFile) Read(b []byte) (int, error)              { return p.f.Read(b) }
func (p plainFile) Close() error                            { return p.f.Close() }
func (p plainFile) ReadAt(b []byte, off int64) (int, error) { return p.f.ReadAt(b, off) }
func (p plainFile) Seek(off int64, wh int) (int64, error)   { return p.f.Seek(off, wh) }

func plainNew(flag int, ro bool) func(string, []diskfs.OpenOpt) (*disk.Disk, backend.Storage, error) {
	return func(p string, _ []diskfs.OpenOpt) (*disk.Disk, backend.Storage, error) {
		f, err := os.OpenFile(p, flag, 0o600)
		if err != nil {
			return nil, nil, err
		}
		return nil, file.New(plainFile{f}, ro), nil
	}
}

func fromPathX(ro, excl bool) func(string, []diskfs.OpenOpt) (*disk.Disk, backend.Storage, error) {
	return func(p string, _ []diskfs.OpenOpt) (*disk.Disk, backend.Storage, error) {
		return stor(file.OpenFromPathWithExclusive(p, ro, excl))
	}
}

func fromPath(ro bool) func(string, []diskfs.OpenOpt) (*disk.Disk, backend.Storage, error) {
	return func(p string, _ []diskfs.OpenOpt) (*disk.Disk, backend.Storage, error) {
		return stor(file.OpenFromPath(p, ro))
	}
}

// dOpen: diskfs.Open with the mode options given; where: where the sector-size option goes ("last" | "first")
func dOpen(where string, modeOpts ...diskfs.OpenOpt) func(string, []diskfs.OpenOpt) (*disk.Disk, backend.Storage, error) {
	return func(p string, ssOpt []diskfs.OpenOpt) (*disk.Disk, backend.Storage, error) {
		var opts []diskfs.OpenOpt
		if where == "first" {
			opts = append(append(opts, ssOpt...), modeOpts...)
		} else {
			opts = append(append(opts, modeOpts...), ssOpt...)
		}
		d, err := diskfs.Open(p, opts...)
		return d, nil, err
	}
}

var (
	optRO  = diskfs.WithOpenMode(diskfs.ReadOnly)
	optRW  = diskfs.WithOpenMode(diskfs.ReadWrite)
	optRWX = diskfs.WithOpenMode(diskfs.ReadWriteExclusive)
)

var modeDefs = []modeDef{
	// a backend of ours whose Writable() refuses
	{name: "ro-backend", ro: true, mem: true, level: "all", ctor: "refusing"},
	// diskfs.Open(ReadOnly) and its option combinations
	{name: "ro-open", ro: true, level: "all", ctor: "0", a: "0", open: dOpen("last", optRO)},
	{name: "ro-open-ssfirst", ro: true, level: "all", ctor: "0", a: "0", open: dOpen("first", optRO)},
	{name: "ro-open-override", ro: true, level: "all", ctor: "0", a: "0", open: dOpen("last", optRW, optRWX, optRO)}, // the last WithOpenMode wins
	{name: "ro-open-ss4k", ro: true, level: "disk", ctor: "0", a: "0", ss4k: true, open: dOpen("last", optRO)},
	// backend/file constructors
	{name: "ro-frompath", ro: true, level: "all", ctor: "1", a: "1", open: fromPath(true)},
	{name: "ro-frompathx-excl", ro: true, level: "all", ctor: "2", a: "1", b: 1, open: fromPathX(true, true)},
	{name: "ro-frompathx-nonexcl", ro: true, level: "all", ctor: "2", a: "1", b: 0, open: fromPathX(true, false)},
	// file.New(readOnly=true): over a handle that IS writable (only the library's own refusal protects the image) and over an O_RDONLY one
	{name: "ro-filenew", ro: true, level: "all", ctor: "3", a: "1", handle: 2, open: osNew(os.O_RDWR, true)},
	{name: "ro-filenew-rdonly", ro: true, level: "all", ctor: "3", a: "1", handle: 0, open: osNew(os.O_RDONLY, true)},
	// file.New over an fs.File that is no io.WriterAt (the OS handle behind it is O_RDWR): Writable() fails with
	// ErrNotSuitable even with readOnly=false - "a backend whose Writable() fails" made by the library itself
	{name: "ro-filenew-nowriter", ro: true, level: "all", thin: true, ctor: "nowriter", a: "0", handle: 2, open: plainNew(os.O_RDWR, false)},
	{name: "ro-filenew-nowriter-ro", ro: true, level: "all", thin: true, ctor: "nowriter", a: "1", handle: 2, open: plainNew(os.O_RDWR, true)},
	// backend.Sub over each
	{name: "ro-sub-backend", ro: true, mem: true, level: "all", thin: true, ctor: "refusing", sub: 1},
	{name: "ro-sub-open", ro: true, level: "all", thin: true, ctor: "0", a: "0", sub: 1, open: dOpen("last", optRO)},
	{name: "ro-sub-frompath", ro: true, level: "all", thin: true, ctor: "1", a: "1", sub: 1, open: fromPath(true)},
	{name: "ro-sub-frompathx-excl", ro: true, level: "all", thin: true, ctor: "2", a: "1", b: 1, sub: 1, open: fromPathX(true, true)},
	{name: "ro-sub-frompathx-nonexcl", ro: true, level: "all", thin: true, ctor: "2", a: "1", b: 0, sub: 1, open: fromPathX(true, false)},
	{name: "ro-sub-filenew", ro: true, level: "all", thin: true, ctor: "3", a: "1", handle: 2, sub: 1, open: osNew(os.O_RDWR, true)},
	{name: "ro-sub-filenew-rdonly", ro: true, level: "all", thin: true, ctor: "3", a: "1", handle: 0, sub: 1, open: osNew(os.O_RDONLY, true)},
	{name: "ro-sub2-frompathx-nonexcl", ro: true, level: "all", thin: true, ctor: "2", a: "1", b: 0, sub: 2, open: fromPathX(true, false)},
	// diskfs.OpenBackend(b, WithOpenMode(ReadOnly)) over a writable storage. As found the option is parsed and ignored
	// (finding openbackend-ignores-readonly-mode): the table runs on a few images only, to keep the list of tagged failures short
	{name: "ro-openbackend-opt", ro: true, level: "all", thin: true, obOpt: true, ctor: "2", a: "0", b: 0, images: []string{"fat12"}, open: fromPathX(false, false)},
	{name: "ro-openbackend-opt-mem", ro: true, mem: true, level: "all", thin: true, obOpt: true, ctor: "memrw", images: []string{"fat32", "ext4", "gpt", "squashfs"}},
	// writable, for the reader clause and for finalized iso9660/squashfs: every constructor asked for write access
	{name: "rw", mem: true, level: "all"},
	{name: "rw-open-default", level: "all", ctor: "0", a: "default", open: dOpen("last")},
	{name: "rw-open-rw", level: "all", ctor: "0", a: "2", open: dOpen("first", optRO, optRW)},
	{name: "rw-open-rwx", level: "all", ctor: "0", a: "1", open: dOpen("last", optRWX)},
	{name: "rw-frompath", level: "all", ctor: "1", a: "0", open: fromPath(false)},
	{name: "rw-frompathx-excl", level: "all", ctor: "2", a: "0", b: 1, open: fromPathX(false, true)},
	{name: "rw-frompathx-nonexcl", level: "all", ctor: "2", a: "0", b: 0, open: fromPathX(false, false)},
	{name: "rw-filenew", level: "all", ctor: "3", a: "0", handle: 2, open: osNew(os.O_RDWR, false)},
	{name: "rw-sub-frompathx-nonexcl", level: "all", thin: true, ctor: "2", a: "0", b: 0, sub: 1, open: fromPathX(false, false)},
}

func modeByName(n string) *modeDef {
	for i := range modeDefs {
		if modeDefs[i].name == n {
			return &modeDefs[i]
		}
	}
	return nil
}

type env struct {
	im    *image
	mode  string
	md    *modeDef
	d     *disk.Disk
	ss    int64       // the sector size the disk was opened with
	dev   *memdev.Dev // non-nil for memdev-backed modes
	path  string      // non-empty for file-backed modes
	hash0 string
	cheap bool // table cases of the quick tier: stamp per call, SHA-256 per (image, mode) group
	close func()
}

func fileHash(p string) string {
	f, err := os.Open(p)
	if err != nil {
		return "unreadable:" + err.Error()
	}
	defer f.Close()
	h := sha256.New()
	io.Copy(h, f)
	return hex.EncodeToString(h.Sum(nil))
}

// dump writes the pristine image to its file (again, after a case changed it).
func (im *image) dump(dir string) (string, error) {
	if im.file != "" {
		return im.file, nil
	}
	p := filepath.Join(dir, "ro-"+im.name+".img")
	f, err := os.Create(p)
	if err != nil {
		return "", err
	}
	defer f.Close()
	const chunk = 1 << 20
	for off := int64(0); off < im.size; off += chunk {
		n := int64(chunk)
		if off+n > im.size {
			n = im.size - off
		}
		if _, err := f.WriteAt(im.proto.Bytes(off, int(n)), off); err != nil {
			return "", err
		}
	}
	im.file = p
	f.Sync()
	im.fhash = fileHash(p)
	// let the clock leave the timestamp granule of the last write: a later write then shows in mtime/ctime
	time.Sleep(20 * time.Millisecond)
	im.fstat = fileStamp(p)
	return p, nil
}

// fileStamp: size, mtime and ctime (which no user call can set back). Every write(2)/pwrite(2)/truncate
// changes it; it is the cheap per-call probe of the quick tier, the SHA-256 of the file being compared
// at the end of every (image, mode) group, after every sequence, after every constructor case and at once
// whenever the stamp moved (thorough tier: SHA-256 after every call).
func fileStamp(p string) string {
	fi, err := os.Stat(p)
	if err != nil {
		return "unreadable:" + err.Error()
	}
	st, _ := fi.Sys().(*syscall.Stat_t)
	if st == nil {
		return fmt.Sprintf("%d/%d", fi.Size(), fi.ModTime().UnixNano())
	}
	return fmt.Sprintf("%d/%d.%d/%d.%d", fi.Size(), st.Mtim.Sec, st.Mtim.Nsec, st.Ctim.Sec, st.Ctim.Nsec)
}

// restore: a case changed the file (a property failure, reported by that case): the next case starts
// from the pristine image again.
func (im *image) restore(dir string) {
	if im.file != "" {
		os.Remove(im.file)
		im.file = ""
	}
	im.dump(dir)
}

func ssOptions(ss int64, explicit bool) []diskfs.OpenOpt {
	if ss == 512 && !explicit {
		return nil
	}
	return []diskfs.OpenOpt{diskfs.WithSectorSize(diskfs.SectorSize(ss))}
}

func openEnv(c *hx.Ctx, im *image, mode string) (*env, error) {
	md := modeByName(mode)
	if md == nil {
		return nil, fmt.Errorf("unknown mode %s", mode)
	}
	e := &env{im: im, mode: mode, md: md, ss: im.ss, close: func() {}}
	if md.ss4k {
		e.ss = 4096
	}
	ssOpt := ssOptions(e.ss, md.name == "ro-open-ssfirst")
	var (
		err error
		b   backend.Storage
	)
	if md.mem {
		e.dev = im.proto.Clone()
		e.dev.ReadOnly = md.ro && !md.obOpt
		e.hash0 = e.dev.Hash(0, im.size)
		b = e.dev
	} else {
		if e.path, err = im.dump(c.Scratch); err != nil {
			return nil, err
		}
		e.hash0 = im.fhash
		e.d, b, err = md.open(e.path, ssOpt)
		if err != nil {
			return nil, fmt.Errorf("open %s/%s: %w", im.name, mode, err)
		}
		if e.d != nil && md.sub > 0 {
			b, e.d = e.d.Backend, nil
		}
	}
	for i := 0; i < md.sub; i++ {
		b = backend.Sub(b, 0, im.size)
	}
	if e.d == nil {
		if md.obOpt {
			ssOpt = append(append([]diskfs.OpenOpt{}, ssOpt...), optRO)
		}
		if e.d, err = diskfs.OpenBackend(b, ssOpt...); err != nil {
			b.Close()
			return nil, fmt.Errorf("open %s/%s: %w", im.name, mode, err)
		}
	}
	d := e.d
	e.close = func() {
		if d.Backend != nil {
			d.Backend.Close()
		}
	}
	return e, nil
}

// writesSeen: number of WriteAt calls that reached the device since the last call (memdev modes).
func (e *env) writesSeen() int {
	if e.dev == nil {
		return 0
	}
	n := len(e.dev.OutOfRange)
	for _, ev := range e.dev.Log {
		if !ev.Sync {
			n++
		}
	}
	e.dev.ResetLog()
	return n
}

func (e *env) changed() bool {
	if e.dev != nil {
		return e.dev.Hash(0, e.im.size) != e.hash0
	}
	if e.cheap && fileStamp(e.path) == e.im.fstat {
		return false
	}
	return fileHash(e.path) != e.hash0
}

// accMode: O_ACCMODE of the OS handle behind the backend ("-" when there is none): 0 O_RDONLY, 1 O_WRONLY, 2 O_RDWR
func accMode(b backend.Storage) string {
	f, err := b.Sys()
	if err != nil || f == nil {
		return "-"
	}
	fl, _, en := syscall.Syscall(syscall.SYS_FCNTL, f.Fd(), syscall.F_GETFL, 0)
	if en != 0 {
		return "?"
	}
	return fmt.Sprint(int(fl) & syscall.O_ACCMODE)
}

// thinOps: the reduced op set of the quick tier for modes that wrap a constructor whose full table runs
// under its direct mode: every disk-level op and one op of every class of the decision model
var thinOps = map[string]bool{"mkdir": true, "rename": true, "remove": true, "setlabel": true, "setlabel-current": true,
	"chmod": true, "chown": true, "chtimes": true, "symlink": true, "write": true, "write-append": true, "open-rdwr": true,
	"open-create": true, "open-trunc": true, "readdir": true, "read": true, "link": true}

// ctorCase: one (image, mode): which handle and which answer of Writable() the constructor really gives,
// against the row of the Lean constructor table
func ctorCase(c *hx.Ctx, im *image, md *modeDef) {
	id := fmt.Sprintf("c/%s/%s", im.name, md.name)
	if !c.Want(id) || md.ctor == "" {
		return
	}
	desc := fmt.Sprintf("image=%s mode=%s constructor", im.name, md.name)
	e, err := openEnv(c, im, md.name)
	if err != nil {
		c.Fail(id, "-", "cannot open: "+err.Error(), desc)
		return
	}
	defer e.close()
	e.writesSeen()
	w, werr := e.d.Backend.Writable()
	wst := "ok"
	if werr != nil {
		wst = "refused"
	} else if w == nil {
		wst = "nil"
	}
	acc := accMode(e.d.Backend)
	c.Case(id, "readonly.ctor", "ctor="+md.ctor, "a="+md.a, fmt.Sprintf("b=%d", md.b), fmt.Sprintf("handle=%d", md.handle),
		fmt.Sprintf("sub=%d", md.sub), fmt.Sprintf("ob=%d", b2i(md.obOpt)))
	c.Impl(id, "open=ok", "acc="+acc, "w="+wst)
	c.Stat("ctor." + md.name)
	c.Stat("ctor.acc." + acc + ".writable-" + wst)
	var probs []string
	if md.ro && werr == nil {
		probs = append(probs, "read-only access was asked for and Writable() hands out a writer")
	}
	if !md.ro && werr != nil {
		probs = append(probs, "write access was asked for and Writable() refuses: "+werr.Error())
	}
	if n := e.writesSeen(); n != 0 {
		probs = append(probs, fmt.Sprintf("%d WriteAt call(s) while opening", n))
	}
	if e.changed() {
		probs = append(probs, "image SHA-256 changed by opening")
		if e.dev == nil {
			im.restore(c.Scratch)
		}
	}
	if len(probs) == 0 {
		c.OK(id)
		c.Distinct(desc)
		return
	}
	tag := "-"
	if md.obOpt && len(probs) == 1 && strings.HasPrefix(probs[0], "read-only access was asked for and Writable()") {
		tag = tagOpenBackend
	}
	c.Fail(id, tag, strings.Join(probs, "; "), desc)
}

// tagOpenBackend: diskfs.OpenBackend parses WithOpenMode and ignores it; trigger: the mode is asked through that
// option over a storage that is itself writable; the failure it explains: the disk behaves as writable
const tagOpenBackend = "openbackend-ignores-readonly-mode"

// missingPathCases: every path-taking constructor asked for read-only access on a path that does not exist:
// an error, and the path still does not exist afterwards (nothing may be created)
func missingPathCases(c *hx.Ctx) {
	p := filepath.Join(c.Scratch, "ro-no-such-image.img")
	try := func(name string, open func() error) {
		id := "c/missing-path/" + name
		if !c.Want(id) {
			return
		}
		os.Remove(p)
		err := open()
		_, serr := os.Stat(p)
		c.Stat("ctor.missing-path")
		switch {
		case err == nil:
			c.Fail(id, "-", "opening a path that does not exist succeeded", name)
		case serr == nil:
			c.Fail(id, "-", "a refused read-only open created the file", name)
			os.Remove(p)
		default:
			c.OK(id)
		}
	}
	try("open-ro", func() error { _, err := diskfs.Open(p, optRO); return err })
	try("frompath-ro", func() error { _, err := file.OpenFromPath(p, true); return err })
	try("frompathx-ro-excl", func() error { _, err := file.OpenFromPathWithExclusive(p, true, true); return err })
	try("frompathx-ro-nonexcl", func() error { _, err := file.OpenFromPathWithExclusive(p, true, false); return err })
	try("frompathx-empty", func() error { _, err := file.OpenFromPathWithExclusive("", true, false); return err })
}

// badModeCase: an OpenModeOption that is none of the three yields no disk
func badModeCase(c *hx.Ctx, im *image) {
	id := fmt.Sprintf("c/%s/open-badmode", im.name)
	if !c.Want(id) {
		return
	}
	desc := fmt.Sprintf("image=%s diskfs.Open(WithOpenMode(7))", im.name)
	p, err := im.dump(c.Scratch)
	if err != nil {
		c.Fail(id, "-", err.Error(), desc)
		return
	}
	d, err := diskfs.Open(p, diskfs.WithOpenMode(diskfs.OpenModeOption(7)))
	c.Case(id, "readonly.ctor", "ctor=0", "a=7", "b=0", "handle=0", "sub=0")
	if err != nil {
		c.Impl(id, "open=refused", "acc=-", "w=refused")
	} else {
		c.Impl(id, "open=ok", "acc="+accMode(d.Backend), "w=?")
		d.Backend.Close()
	}
	c.Stat("ctor.open-badmode")
	if fileHash(p) != im.fhash {
		c.Fail(id, "-", "image SHA-256 changed", desc)
		im.restore(c.Scratch)
		return
	}
	c.OK(id)
}

// ---- operations ------------------------------------------------------------------------------

type opDef struct {
	name    string
	level   string // "disk" | "fs"
	mutator bool   // named by the property as a mutating call that must return an error
	extra   bool   // not named by the property: only "must not write" is judged
	run     func(e *env, fs filesystem.FileSystem) error
}

var wflags = map[string]int{
	"open-rdwr":   os.O_RDWR,
	"open-wronly": os.O_WRONLY,
	"open-create": os.O_CREATE | os.O_RDWR,
	"open-append": os.O_APPEND | os.O_RDWR,
	"open-trunc":  os.O_TRUNC | os.O_RDWR,
}

func openThen(fs filesystem.FileSystem, p string, flag int, then func(f filesystem.File) error) error {
	f, err := fs.OpenFile(p, flag)
	if err != nil {
		return err
	}
	defer f.Close()
	if then == nil {
		return nil
	}
	return then(f)
}

func ops() []opDef {
	t := time.Unix(1700000000, 0)
	list := []opDef{
		// --- Disk level
		{"partition-gpt", "disk", true, false, func(e *env, _ filesystem.FileSystem) error {
			return e.d.Partition(ml.GPTOne(64, 256))
		}},
		{"partition-mbr", "disk", true, false, func(e *env, _ filesystem.FileSystem) error {
			return e.d.Partition(ml.MBROne(64, 256))
		}},
		{"writepart", "disk", true, false, func(e *env, _ filesystem.FileSystem) error {
			p := e.im.part
			if p == 0 {
				p = 1 // no table: must still fail and write nothing
			}
			_, err := e.d.WritePartitionContents(p, bytes.NewReader(make([]byte, 2048*512)))
			return err
		}},
		{"gettable", "disk", false, false, func(e *env, _ filesystem.FileSystem) error {
			e.d.GetPartitionTable()
			return nil
		}},
		{"readpart", "disk", false, false, func(e *env, _ filesystem.FileSystem) error {
			e.d.ReadPartitionContents(1, io.Discard)
			return nil
		}},
		{"getpartition", "disk", false, false, func(e *env, _ filesystem.FileSystem) error {
			e.d.GetPartition(1)
			e.d.GetPartition(0)
			return nil
		}},
		{"verify-table", "disk", false, false, func(e *env, _ filesystem.FileSystem) error {
			// gpt.Table.Verify takes the storage itself
			if t, err := e.d.GetPartitionTable(); err == nil {
				if g, ok := t.(*gpt.Table); ok {
					g.Verify(e.d.Backend, uint64(e.d.Size))
				}
			}
			return nil
		}},
		{"reread-table", "disk", false, true, func(e *env, _ filesystem.FileSystem) error {
			return e.d.ReReadPartitionTable() // ioctl on the handle from Sys() on block devices; nothing on a file
		}},
		{"getfs", "disk", false, false, func(e *env, _ filesystem.FileSystem) error {
			fs, err := e.d.GetFilesystem(e.im.part)
			if err == nil {
				fs.Close()
			}
			return nil
		}},
	}
	for _, k := range ml.Kinds {
		k := k
		list = append(list, opDef{"createfs-" + k.Name, "disk", true, false, func(e *env, _ filesystem.FileSystem) error {
			fs, err := e.d.CreateFilesystem(disk.FilesystemSpec{Partition: e.im.part, FSType: k.Type, VolumeLabel: "X"})
			if err == nil {
				fs.Close()
			}
			return err
		}})
	}
	// --- FileSystem level: mutators named by the property
	list = append(list,
		opDef{"mkdir", "fs", true, false, func(_ *env, fs filesystem.FileSystem) error { return fs.Mkdir("NEWDIR") }},
		opDef{"mkdir-nested", "fs", true, false, func(_ *env, fs filesystem.FileSystem) error { return fs.Mkdir("DIR/SUB/DEEP") }},
		opDef{"rename", "fs", true, false, func(_ *env, fs filesystem.FileSystem) error { return fs.Rename("A.TXT", "C.TXT") }},
		opDef{"remove", "fs", true, false, func(_ *env, fs filesystem.FileSystem) error { return fs.Remove("A.TXT") }},
		opDef{"remove-dirfile", "fs", true, false, func(_ *env, fs filesystem.FileSystem) error { return fs.Remove("DIR/B.BIN") }},
		opDef{"setlabel", "fs", true, false, func(_ *env, fs filesystem.FileSystem) error { return fs.SetLabel("NEWLABEL") }},
		// mutators whose argument is the value already there, and an immediate retry of a refused call: still mutating
		// calls, still to be refused (a shortcut that returns nil for "nothing to do" answers before the guard)
		opDef{"setlabel-current", "fs", true, false, func(_ *env, fs filesystem.FileSystem) error { return fs.SetLabel(fs.Label()) }},
		opDef{"setlabel-retry", "fs", true, false, func(_ *env, fs filesystem.FileSystem) error {
			_ = fs.SetLabel("RETRYLBL")
			return fs.SetLabel("RETRYLBL")
		}},
		opDef{"rename-same", "fs", true, false, func(_ *env, fs filesystem.FileSystem) error { return fs.Rename("A.TXT", "A.TXT") }},
		opDef{"chmod-retry", "fs", true, false, func(_ *env, fs filesystem.FileSystem) error {
			_ = fs.Chmod("A.TXT", 0o640)
			return fs.Chmod("A.TXT", 0o640)
		}},
		opDef{"chmod", "fs", true, false, func(_ *env, fs filesystem.FileSystem) error { return fs.Chmod("A.TXT", 0o600) }},
		opDef{"chown", "fs", true, false, func(_ *env, fs filesystem.FileSystem) error { return fs.Chown("A.TXT", 1, 1) }},
		opDef{"chtimes", "fs", true, false, func(_ *env, fs filesystem.FileSystem) error { return fs.Chtimes("A.TXT", t, t, t) }},
		opDef{"symlink", "fs", true, false, func(_ *env, fs filesystem.FileSystem) error { return fs.Symlink("A.TXT", "L.LNK") }},
		opDef{"write", "fs", true, false, func(_ *env, fs filesystem.FileSystem) error {
			// Write on a handle: one opened for writing if the filesystem hands one out, else a read handle
			f, err := fs.OpenFile("A.TXT", os.O_RDWR)
			if err != nil {
				f, err = fs.OpenFile("A.TXT", os.O_RDONLY)
				if err != nil {
					return nil // no handle to write on: nothing to judge (reported as skipped)
				}
			}
			defer f.Close()
			_, err = f.Write([]byte("overwrite"))
			return err
		}},
		opDef{"write-append", "fs", true, false, func(_ *env, fs filesystem.FileSystem) error {
			f, err := fs.OpenFile("DIR/B.BIN", os.O_RDWR|os.O_APPEND)
			if err != nil {
				f, err = fs.OpenFile("DIR/B.BIN", os.O_RDONLY)
				if err != nil {
					return nil
				}
			}
			defer f.Close()
			_, err = f.Write(make([]byte, 5000))
			return err
		}},
	)
	for n, fl := range wflags {
		n, fl := n, fl
		p := "A.TXT"
		if n == "open-create" {
			p = "NEW.TXT"
		}
		list = append(list, opDef{n, "fs", true, false, func(_ *env, fs filesystem.FileSystem) error { return openThen(fs, p, fl, nil) }})
	}
	// --- mutators the property does not name: only "no write" is judged
	list = append(list,
		opDef{"link", "fs", false, true, func(_ *env, fs filesystem.FileSystem) error { return fs.Link("A.TXT", "H.LNK") }},
		opDef{"mknod", "fs", false, true, func(_ *env, fs filesystem.FileSystem) error { return fs.Mknod("NOD", 0o600, 0) }},
		opDef{"finalize", "fs", false, true, func(_ *env, fs filesystem.FileSystem) error {
			// Finalize of a filesystem that was read from the image (already finalized): must not reach the device
			switch x := fs.(type) {
			case *iso9660.FileSystem:
				return x.Finalize(iso9660.FinalizeOptions{})
			case *squashfs.FileSystem:
				return x.Finalize(squashfs.FinalizeOptions{})
			}
			return nil
		}},
		opDef{"truncate", "fs", false, true, func(_ *env, fs filesystem.FileSystem) error {
			if x, ok := fs.(*ext4.FileSystem); ok {
				return x.Truncate("A.TXT", 3)
			}
			return nil
		}},
	)
	// --- readers
	list = append(list,
		opDef{"readdir", "fs", false, false, func(_ *env, fs filesystem.FileSystem) error { fs.ReadDir("."); fs.ReadDir("DIR"); return nil }},
		opDef{"open", "fs", false, false, func(_ *env, fs filesystem.FileSystem) error {
			f, err := fs.Open("A.TXT")
			if err == nil {
				f.Close()
			}
			return nil
		}},
		opDef{"open-rdonly", "fs", false, false, func(_ *env, fs filesystem.FileSystem) error {
			return openThen(fs, "A.TXT", os.O_RDONLY, nil)
		}},
		opDef{"read", "fs", false, false, func(_ *env, fs filesystem.FileSystem) error {
			return openThen(fs, "DIR/B.BIN", os.O_RDONLY, func(f filesystem.File) error {
				b := make([]byte, 100)
				f.Read(b)
				f.Seek(300, io.SeekStart)
				f.Read(b)
				f.Seek(-50, io.SeekEnd)
				f.Read(b)
				f.Seek(0, io.SeekCurrent)
				return nil
			})
		}},
		opDef{"stat", "fs", false, false, func(_ *env, fs filesystem.FileSystem) error {
			fs.Stat("A.TXT")
			fs.Stat("DIR")
			fs.Stat(".")
			fs.Stat("MISSING")
			return nil
		}},
		opDef{"readfile", "fs", false, false, func(_ *env, fs filesystem.FileSystem) error { fs.ReadFile("A.TXT"); return nil }},
		opDef{"label", "fs", false, false, func(_ *env, fs filesystem.FileSystem) error { fs.Label(); fs.Type(); return nil }},
		opDef{"open-missing", "fs", false, false, func(_ *env, fs filesystem.FileSystem) error {
			openThen(fs, "MISSING.TXT", os.O_RDONLY, nil)
			return nil
		}},
	)
	return list
}

func opByName(name string) *opDef {
	for _, o := range allOps {
		if o.name == name {
			o := o
			return &o
		}
	}
	return nil
}

var allOps []opDef

// findingFor names the recorded defect whose trigger the (kind, mode, op, outcome) meets, or "".
func findingFor(kind, mode string, fin bool, op string, errored bool, writes int, changed bool) string {
	if writes != 0 || changed {
		return "" // a byte changed or a write was attempted: never explained by a recorded finding
	}
	ro := strings.HasPrefix(mode, "ro-")
	if ro && !errored {
		switch {
		case (kind == "fat12" || kind == "fat16" || kind == "fat32" || kind == "ext4") &&
			(op == "open-rdwr" || op == "open-wronly" || op == "open-append"):
			// handle is handed out; the error only appears at Write; no byte is written
			return "openfile-write-on-readonly-succeeds"
		case (kind == "fat12" || kind == "fat16" || kind == "fat32" || kind == "ext4") && op == "open-trunc":
			return "openfile-write-on-readonly-succeeds"
		case op == "createfs-iso9660" || op == "createfs-squashfs":
			// staged filesystems touch the device only at Finalize; CreateFilesystem itself succeeds
			return "staged-createfs-on-readonly-succeeds"
		}
	}
	return ""
}

type result struct {
	errored  bool
	panicked string
	writes   int
}

func runOp(e *env, fs filesystem.FileSystem, o *opDef) (r result) {
	defer func() {
		if p := recover(); p != nil {
			r.panicked = fmt.Sprint(p)
			r.writes = e.writesSeen()
		}
	}()
	err := o.run(e, fs)
	r.errored = err != nil
	r.writes = e.writesSeen()
	return r
}

func finalized(kind string) bool { return kind == "iso9660" || kind == "squashfs" }

// judge applies the property to one executed op. Returns "" if it holds.
func judge(e *env, o *opDef, r result) string {
	ro := e.md.ro
	mustReject := o.mutator && (ro || (o.level == "fs" && finalized(e.im.kind)))
	var probs []string
	if r.panicked != "" {
		probs = append(probs, "panic: "+r.panicked)
	}
	noWrite := ro || !o.mutator && !o.extra || (o.level == "fs" && finalized(e.im.kind))
	if noWrite && r.writes != 0 {
		probs = append(probs, fmt.Sprintf("%d WriteAt call(s) reached the device", r.writes))
	}
	if mustReject && !r.errored && r.panicked == "" {
		probs = append(probs, "mutating call returned nil error")
	}
	return strings.Join(probs, "; ")
}

func outcome(r result) string {
	switch {
	case r.panicked != "":
		return "panic"
	case r.errored:
		return "err"
	}
	return "ok"
}

// one (image, mode) table row set: every op once on a fresh environment
func tableCases(c *hx.Ctx, im *image, mode string) {
	md := modeByName(mode)
	if md.ss4k && im.ss == 4096 {
		return // the image already has 4096-byte sectors: the plain mode is this one
	}
	if md.images != nil {
		in := false
		for _, n := range md.images {
			in = in || n == im.name
		}
		if !in {
			return
		}
	}
	ran := false
	defer func() {
		// the SHA-256 of the file after every call of this (image, mode) group
		if !ran || im.file == "" {
			return
		}
		id := fmt.Sprintf("t/%s/%s/image-sha256", im.name, mode)
		if fileHash(im.file) == im.fhash {
			c.OK(id)
			return
		}
		c.Fail(id, "-", "image SHA-256 changed during the calls of this group", fmt.Sprintf("image=%s mode=%s (all ops)", im.name, mode))
		im.restore(c.Scratch)
	}()
	for i := range allOps {
		o := &allOps[i]
		id := fmt.Sprintf("t/%s/%s/%s", im.name, mode, o.name)
		if !c.Want(id) {
			continue
		}
		if !md.ro && (o.mutator || o.extra) && !(o.level == "fs" && finalized(im.kind)) {
			continue // a writable, unfinalized filesystem may be modified: not this property's subject
		}
		if md.level == "disk" && o.level != "disk" {
			continue
		}
		if md.thin && !c.Thorough() && o.level != "disk" && !thinOps[o.name] {
			continue
		}
		desc := fmt.Sprintf("image=%s kind=%s mode=%s op=%s", im.name, im.kind, mode, o.name)
		func() {
			e, err := openEnv(c, im, mode)
			if err != nil {
				c.Fail(id, "-", "cannot open: "+err.Error(), desc)
				return
			}
			defer e.close()
			e.cheap = !c.Thorough()
			ran = ran || e.dev == nil
			e.writesSeen()
			var fs filesystem.FileSystem
			if o.level == "fs" {
				fs, err = e.d.GetFilesystem(im.part)
				if err != nil {
					c.Fail(id, "-", "GetFilesystem on the prepared image: "+err.Error(), desc)
					return
				}
				defer safeClose(fs)
				if n := e.writesSeen(); n != 0 {
					c.Fail(id, "-", fmt.Sprintf("GetFilesystem wrote (%d WriteAt)", n), desc)
					return
				}
			}
			r := runOp(e, fs, o)
			if fs != nil {
				// Close of the filesystem object belongs to the call: nothing it does may reach the device either
				func() {
					defer func() { recover() }()
					fs.Close()
				}()
				r.writes += e.writesSeen()
			}
			ch := e.changed()
			msg := judge(e, o, r)
			if ch {
				msg = strings.TrimPrefix(msg+"; image SHA-256 changed", "; ")
				if e.dev == nil {
					defer im.restore(c.Scratch)
				}
			}
			fin := finalized(im.kind) && o.level == "fs"
			c.Stat("op." + o.name)
			c.Stat("mode." + mode)
			c.Stat("image." + im.name)
			c.Stat("outcome." + outcome(r))
			// correspondence with the Lean decision table
			rok := b2i(md.ro)
			if !o.extra && !md.obOpt { // Link / Mknod / Truncate are outside the modelled decision table; obOpt: only the constructor is compared
				c.Case(id, "readonly.op", "kind="+im.kind, fmt.Sprintf("ro=%d", rok), fmt.Sprintf("fin=%d", b2i(fin)),
					fmt.Sprintf("ss=%d", e.ss), "op="+o.name)
				c.Impl(id, "out="+outcome(r), fmt.Sprintf("w=%d", r.writes))
			}
			if msg == "" {
				c.OK(id)
				c.Distinct(desc)
				return
			}
			tag := findingFor(im.kind, mode, fin, o.name, r.errored, r.writes, ch)
			if tag == "" || msg != "mutating call returned nil error" {
				tag = "-"
			}
			if md.obOpt && r.panicked == "" {
				tag = tagOpenBackend // the disk is writable although read-only was asked for: the call went through / wrote
			}
			c.Fail(id, tag, msg, desc)
		}()
	}
}

// safeClose: a second Close (the call's own Close came first) must not take the harness down
func safeClose(fs filesystem.FileSystem) {
	defer func() { recover() }()
	fs.Close()
}

func b2i(b bool) int {
	if b {
		return 1
	}
	return 0
}

// sequences: interleavings of reads and rejected writes on ONE opened disk / filesystem object.
func sequence(c *hx.Ctx, id string, im *image, mode string, names []string) {
	desc := fmt.Sprintf("image=%s kind=%s mode=%s ops=%s", im.name, im.kind, mode, strings.Join(names, ","))
	e, err := openEnv(c, im, mode)
	if err != nil {
		c.Fail(id, "-", "cannot open: "+err.Error(), desc)
		return
	}
	defer e.close()
	e.writesSeen()
	fs, err := e.d.GetFilesystem(im.part)
	if err != nil {
		c.Fail(id, "-", "GetFilesystem on the prepared image: "+err.Error(), desc)
		return
	}
	defer safeClose(fs)
	var probs []string
	tag := ""
	for i, n := range names {
		o := opByName(n)
		if o == nil {
			continue
		}
		if strings.HasPrefix(n, "createfs-") || strings.HasPrefix(n, "partition-") {
			// keeps the same Disk; the filesystem object stays valid because nothing may change
		}
		r := runOp(e, fs, o)
		if msg := judge(e, o, r); msg != "" {
			t := findingFor(im.kind, mode, finalized(im.kind) && o.level == "fs", o.name, r.errored, r.writes, false)
			if t != "" && msg == "mutating call returned nil error" {
				if tag == "" {
					tag = t
				}
				continue // the recorded finding; keep going to see that still no byte changes
			}
			probs = append(probs, fmt.Sprintf("step %d %s: %s", i, n, msg))
			tag = "-"
		}
	}
	// after the whole history the tree still reads back as built
	if got, err := ml.ReadTree(fs); err != nil {
		probs = append(probs, "tree no longer readable through the same filesystem object: "+err.Error())
		tag = "-"
	} else if diff := ml.TreeDiff(ml.SmallTree(3), got); diff != "" {
		// FAT's failed Mkdir/create leave phantom state in the object; the image itself is intact,
		// which is what the property is about — recorded in the distribution, not judged
		c.Stat("seq.object-view-drifted")
	}
	// closing the filesystem object after the history (phantom state included) must not reach the device either
	func() {
		defer func() { recover() }()
		fs.Close()
	}()
	if n := e.writesSeen(); n != 0 && (e.md.ro || finalized(im.kind)) {
		probs = append(probs, fmt.Sprintf("Close after the history: %d WriteAt call(s) reached the device", n))
		tag = "-"
	}
	if e.changed() {
		probs = append(probs, "image SHA-256 changed")
		tag = "-"
		if e.dev == nil {
			defer im.restore(c.Scratch)
		}
	}
	c.Stat("seq.len." + fmt.Sprint(len(names)/10*10))
	c.Stat("seq.mode." + mode)
	if len(probs) == 0 {
		c.OK(id)
		c.Distinct(desc)
		c.Sample(desc)
		return
	}
	if tag == "" {
		tag = "-"
	}
	c.Fail(id, tag, strings.Join(probs, " | "), desc)
}

// Run is the engine entry point.
func Run(c *hx.Ctx) {
	allOps = ops()
	images, err := buildImages(c.Thorough())
	if err != nil {
		c.Fail("setup", "-", "cannot build the images: "+err.Error(), "")
		return
	}
	// 0. the constructors themselves: handle and Writable() of every mode against the Lean constructor table
	for _, im := range images {
		for k := range modeDefs {
			ctorCase(c, im, &modeDefs[k])
		}
		badModeCase(c, im)
	}
	missingPathCases(c)
	// 1. the whole table: every entry point x every image x every mode
	var roModes, rwModes []string
	for _, md := range modeDefs {
		if md.level == "all" && md.ro && !md.obOpt {
			roModes = append(roModes, md.name)
		}
		if md.level == "all" && !md.ro {
			rwModes = append(rwModes, md.name)
		}
	}
	for _, im := range images {
		for _, md := range modeDefs {
			tableCases(c, im, md.name)
		}
	}
	// 2. interleavings. Sequence alphabet: fs-level ops plus the disk-level ones.
	var names []string
	for _, o := range allOps {
		names = append(names, o.name)
	}
	r := c.Rng
	// all ordered pairs on the memdev read-only backend, per image
	short := []string{"mkdir", "open-create", "write", "remove", "rename", "setlabel", "readdir", "read", "stat", "createfs-fat12", "partition-gpt", "chtimes"}
	for _, im := range images {
		n := 0
		for _, a := range short {
			for _, b := range short {
				id := fmt.Sprintf("s2/%s/%s+%s", im.name, a, b)
				n++
				if !c.Want(id) || (!c.Thorough() && a != b && n%3 != int(c.Seed%3)) {
					continue
				}
				sequence(c, id, im, "ro-backend", []string{a, b})
			}
		}
	}
	// random histories up to 50 ops, all read-only modes (and rw for finalized kinds, fs-level ops only)
	nseq := c.N(120, 3000)
	for i := 0; i < nseq; i++ {
		im := hx.Pick(r, images)
		mode := hx.Pick(r, roModes)
		rw := false
		if finalized(im.kind) && r.Chance(30) {
			mode = hx.Pick(r, rwModes)
			rw = true
		}
		l := 1 + r.Intn(50)
		if r.Chance(50) {
			l = 1 + r.Intn(6)
		}
		seq := make([]string, l)
		for j := range seq {
			for {
				seq[j] = hx.Pick(r, names)
				o := opByName(seq[j])
				if rw && o.level == "disk" && o.mutator {
					continue
				}
				break
			}
		}
		id := fmt.Sprintf("sr/%d", i)
		if !c.Want(id) {
			continue
		}
		sequence(c, id, im, mode, seq)
	}
	witnesses(c, images)
	for _, im := range images {
		if im.file != "" {
			os.Remove(im.file)
		}
	}
}

func witnesses(c *hx.Ctx, images []*image) {
	if c.Only != "" {
		return
	}
	byName := map[string]*image{}
	for _, im := range images {
		byName[im.name] = im
	}
	try := func(tag, img, op string) {
		e, err := openEnv(c, byName[img], "ro-backend")
		if err != nil {
			c.Known(tag, false, "cannot open: "+err.Error())
			return
		}
		defer e.close()
		e.writesSeen()
		o := opByName(op)
		var fs filesystem.FileSystem
		if o.level == "fs" {
			if fs, err = e.d.GetFilesystem(byName[img].part); err != nil {
				c.Known(tag, false, "GetFilesystem: "+err.Error())
				return
			}
			defer fs.Close()
		}
		r := runOp(e, fs, o)
		c.Known(tag, !r.errored && r.panicked == "" && r.writes == 0,
			fmt.Sprintf("image=%s mode=ro-backend op=%s -> %s, %d writes", img, op, outcome(r), r.writes))
	}
	try("openfile-write-on-readonly-succeeds", "fat16", "open-rdwr")
	try("staged-createfs-on-readonly-succeeds", "fat12", "createfs-squashfs")
}
