package syncfs

import (
	"fmt"
	"io"
	"io/fs"
	"os"
	"sort"
	"strings"

	"github.com/diskfs/go-diskfs/filesystem"
	dsync "github.com/diskfs/go-diskfs/sync"

	"verif/harness/internal/hx"
)

var srcKinds = []string{"osdir", "fat32", "ext4", "iso9660", "squashfs"}
var dstKinds = []string{"fat12", "fat16", "fat32", "ext4"}

func isFAT(k string) bool { return k == "fat12" || k == "fat16" || k == "fat32" }

// expectedFromSnapshot: the source as the harness read it, minus every path with an excluded component,
// minus non-regular entries.
func expectedFromSnapshot(src map[string]Item, dropOthers bool) map[string]Item {
	out := map[string]Item{}
	for p, it := range src {
		skip := false
		for _, comp := range strings.Split(p, "/") {
			if documentedExcluded[comp] {
				skip = true
			}
		}
		if skip || (dropOthers && it.Kind == KOther) {
			continue
		}
		out[p] = it
	}
	return out
}

// fatSafeSizes: file sizes at which the FAT reader's known over-read (fat-read-past-eof, owner C10) cannot
// trigger under io.ReadAll: at most one 512-byte read, or a whole number of 32 KiB (so of clusters).
var fatSafeSizes = []int{0, 1, 100, 511, 512, 32768, 65536, 98304}

func fatSafe(n *Node, r *hx.Rng) {
	for _, c := range n.Children {
		switch c.Kind {
		case KDir:
			fatSafe(c, r)
		case KFile:
			ok := false
			for _, s := range fatSafeSizes {
				if len(c.Data) == s {
					ok = true
				}
			}
			if !ok {
				c.Data = r.Bytes(hx.Pick(r, fatSafeSizes[:5]))
			}
		}
	}
}

// overReadExplains: every content difference is a file whose source reader, driven by io.ReadAll exactly as
// copyOneFile drives it, returns more bytes than the file has, and the destination holds exactly those bytes.
func overReadExplains(src fs.FS, srcSnap, dstSnap map[string]Item, diffs []string) bool {
	if len(diffs) == 0 {
		return false
	}
	for _, d := range diffs {
		if !strings.HasPrefix(d, "content ") {
			return false
		}
		p := strings.Fields(d)[1]
		// names with spaces: recover the path by matching against the snapshot
		if _, ok := srcSnap[p]; !ok {
			p = ""
			for q := range srcSnap {
				if strings.HasPrefix(d, "content "+q+" want=") {
					p = q
				}
			}
			if p == "" {
				return false
			}
		}
		var data []byte
		var err error
		perr := safely(func() {
			var f fs.File
			f, err = src.Open(p)
			if err != nil {
				return
			}
			defer f.Close()
			data, err = io.ReadAll(f)
		})
		if perr != nil || err != nil {
			return false
		}
		if int64(len(data)) <= srcSnap[p].Size {
			return false
		}
		if dstSnap[p].Size != int64(len(data)) || dstSnap[p].Sha != sha(data) {
			return false
		}
	}
	return true
}

// mutateReal applies one single-point mutation to a real destination filesystem through its own write API.
func mutateReal(r *hx.Rng, dst filesystem.FileSystem, snap map[string]Item, kind string) (what string, err error) {
	var files, dirs []string
	for p, it := range snap {
		if it.Kind == KFile {
			files = append(files, p)
		}
		if it.Kind == KDir {
			dirs = append(dirs, p)
		}
	}
	sort.Strings(files)
	sort.Strings(dirs)
	perr := safely(func() {
		switch kind {
		case "byte":
			var cands []string
			for _, p := range files {
				if snap[p].Size > 0 {
					cands = append(cands, p)
				}
			}
			if len(cands) == 0 {
				return
			}
			p := hx.Pick(r, cands)
			size := snap[p].Size
			pos := int64(0)
			switch r.Intn(3) {
			case 0:
				pos = 0
			case 1:
				pos = size - 1
			default:
				pos = r.Int63n(size)
			}
			var f filesystem.File
			f, err = dst.OpenFile(p, os.O_RDWR)
			if err != nil {
				return
			}
			defer f.Close()
			if _, err = f.Seek(pos, io.SeekStart); err != nil {
				return
			}
			one := make([]byte, 1)
			if _, err = f.Read(one); err != nil && err != io.EOF {
				return
			}
			if _, err = f.Seek(pos, io.SeekStart); err != nil {
				return
			}
			one[0] ^= 0x5a
			_, err = f.Write(one)
			what = fmt.Sprintf("byte %d of %s (%d bytes) changed", pos, p, size)
		case "extra":
			name := "zzextra.bin"
			if len(dirs) > 0 && r.Bool() {
				name = hx.Pick(r, dirs) + "/zzextra.bin"
			}
			var f filesystem.File
			f, err = dst.OpenFile(name, os.O_CREATE|os.O_RDWR)
			if err != nil {
				return
			}
			_, err = f.Write([]byte("extra"))
			f.Close()
			what = "extra file " + name
		case "extradir":
			name := "zzextradir"
			if len(dirs) > 0 && r.Bool() {
				name = hx.Pick(r, dirs) + "/zzextradir"
			}
			err = dst.Mkdir(name)
			what = "extra directory " + name
		case "missing":
			if len(files) == 0 {
				return
			}
			p := hx.Pick(r, files)
			err = dst.Remove(p)
			what = "removed " + p
		case "grow":
			if len(files) == 0 {
				return
			}
			p := hx.Pick(r, files)
			var f filesystem.File
			f, err = dst.OpenFile(p, os.O_RDWR)
			if err != nil {
				return
			}
			defer f.Close()
			if _, err = f.Seek(snap[p].Size, io.SeekStart); err != nil {
				return
			}
			_, err = f.Write([]byte{0x77})
			what = fmt.Sprintf("%s grown from %d by one byte", p, snap[p].Size)
		}
	})
	if perr != nil {
		return what, perr
	}
	return what, err
}

func partPairs(c *hx.Ctx) {
	rounds := c.N(3, 16)
	for round := 0; round < rounds; round++ {
		for _, sk := range srcKinds {
			for _, dk := range dstKinds {
				id := fmt.Sprintf("pair/%s-%s/%d", sk, dk, round)
				r := c.Rng.Fork()
				if !wantTree(c, id) {
					continue
				}
				onePair(c, id, sk, dk, round, r)
			}
		}
	}
}

func onePair(c *hx.Ctx, id, sk, dk string, round int, r *hx.Rng) {
	budget := int64(500 << 10)
	if dk == "fat12" {
		budget = 400 << 10
	}
	o := genOpts{budget: budget, maxFile: 100000, depth: 3, maxEnts: 28, longNames: true,
		noDot:  sk == "iso9660" || isFAT(sk),
		links:  dk == "ext4" && (sk == "osdir" || sk == "ext4") && round%2 == 1,
		others: sk == "osdir" && round%3 == 2}
	tree := genTree(r, o)
	safeSizes := isFAT(sk) && round%2 == 0
	if safeSizes {
		fatSafe(tree, r)
	}
	_, _, nl, no, _ := tree.count()
	desc := fmt.Sprintf("src=%s dst=%s fatSafeSizes=%v tree=%s", sk, dk, safeSizes, tree.encode())
	src, err := buildSource(sk, tree, c.Scratch)
	if err != nil {
		c.Note("%s: cannot build %s source (not this property's failure): %v", id, sk, err)
		c.Stat("pair/source-build-failed/" + sk)
		return
	}
	defer src.cleanup()
	srcSnap, err := snapshot(src.fsys)
	if err != nil {
		c.Note("%s: cannot read %s source back (not this property's failure): %v", id, sk, err)
		c.Stat("pair/source-unreadable/" + sk)
		return
	}
	truth := map[string]Item{}
	tree.flatten("", truth)
	if d := diffFlat(truth, srcSnap, false); len(d) > 0 {
		// the source filesystem does not hold what was put in (naming / builder issue owned elsewhere):
		// the oracle uses the source as the harness reads it.
		c.Stat("pair/source-differs-from-generated-tree/" + sk)
		c.Note("%s: %s source differs from the generated tree: %s", id, sk, strings.Join(first(d, 3), "; "))
	}
	dst, _, err := newWritable(dk)
	if err != nil {
		c.Note("%s: cannot create %s destination: %v", id, dk, err)
		c.Stat("pair/dest-create-failed/" + dk)
		return
	}
	var cerr error
	if perr := safely(func() { cerr = dsync.CopyFileSystem(src.fsys, dst) }); perr != nil {
		c.Fail(id+"/copy", "-", perr.Error(), desc)
		return
	}
	c.Stat("pair/" + sk + "->" + dk)
	if nl > 0 {
		c.Stat("pair/with-symlinks")
	}
	if no > 0 {
		c.Stat("pair/with-special-files")
	}
	dstSnap, serr := snapshot(dst)
	if serr != nil {
		c.Fail(id+"/copy", "-", "cannot read the destination back: "+serr.Error(), desc)
		return
	}
	want := expectedFromSnapshot(srcSnap, true)
	got := expectedFromSnapshot(dstSnap, false) // a destination may own a lost+found of its own
	// symlink targets can only be read back where the filesystem offers ReadLink (ext4)
	diffs := diffFlat(want, got, dk == "ext4" && (sk == "ext4" || sk == "osdir"))
	switch {
	case cerr != nil:
		c.Fail(id+"/copy", "-", "CopyFileSystem failed: "+cerr.Error(), desc)
	case len(diffs) == 0:
		c.OK(id + "/copy")
	case isFAT(sk) && overReadExplains(src.fsys, srcSnap, dstSnap, diffs):
		c.Fail(id+"/copy", "fat-read-past-eof", "destination differs from source: "+strings.Join(first(diffs, 4), "; ")+
			" — each such file's FAT source reader returns more bytes than the file holds when driven by io.ReadAll", desc)
	default:
		c.Fail(id+"/copy", "-", "destination differs from source minus excluded names: "+strings.Join(first(diffs, 6), "; "), desc)
	}
	c.Distinct("pair:" + desc)
	nf, nd, _, _, nb := tree.count()
	c.Sample(fmt.Sprintf("pair %s->%s files=%d dirs=%d links=%d bytes=%d diffs=%d", sk, dk, nf, nd, nl, nb, len(diffs)))
	if cerr != nil {
		return
	}
	// CompareFS must tell the truth about the two real filesystems as the harness reads them.
	// (Trees with symlinks or special files are outside CompareFS's domain: it resolves links / demands
	// entries the copy skips.)
	if nl > 0 || no > 0 {
		return
	}
	cmpTruth := func(cid, what string) {
		ds, err := snapshot(dst)
		if err != nil {
			c.Note("%s: destination unreadable after %s: %v", cid, what, err)
			c.Stat("pair/dest-unreadable-after-mutation/" + dk)
			return
		}
		a := expectedFromSnapshot(srcSnap, false)
		b := expectedFromSnapshot(ds, false)
		d := diffFlat(a, b, false)
		var verr error
		if perr := safely(func() { verr = dsync.CompareFS(src.fsys, dst) }); perr != nil {
			c.Fail(cid, "-", "CompareFS: "+perr.Error(), desc+" after: "+what)
			return
		}
		switch {
		case len(d) == 0 && verr != nil:
			c.Fail(cid, "-", "CompareFS reports "+verr.Error()+" but the harness finds the trees equal", desc+" after: "+what)
		case len(d) > 0 && verr == nil:
			c.Fail(cid, "-", "CompareFS returned nil but the trees differ: "+strings.Join(first(d, 4), "; "), desc+" after: "+what)
		default:
			c.OK(cid)
			if len(d) > 0 {
				c.Stat("pair/compare-detected")
			} else {
				c.Stat("pair/compare-equal")
			}
		}
	}
	cmpTruth(id+"/compare", "copy")
	muts := []string{"byte", "extra", "missing", "grow", "extradir"}
	nm := c.N(1, 2)
	for k := 0; k < nm; k++ {
		mk := muts[(round*len(dstKinds)+k+r.Intn(len(muts)))%len(muts)]
		cid := fmt.Sprintf("%s/mut-%s", id, mk)
		cur, err := snapshot(dst)
		if err != nil {
			break
		}
		what, merr := mutateReal(r, dst, cur, mk)
		if what == "" {
			c.Stat("pair/mutation-not-applicable")
			continue
		}
		if merr != nil {
			// the destination filesystem refused or broke the mutation: not CompareFS's business, but whatever
			// state it left must still be judged truthfully
			c.Stat("pair/mutation-errored/" + dk)
			c.Note("%s: mutation %q on %s failed: %v", cid, what, dk, merr)
		}
		cmpTruth(cid, what)
	}
	recopy(c, id+"/recopy", src, srcSnap, dst, dk, desc)
}

// recopy: the source is copied once more, into the destination as the mutations left it (a file changed, grown or
// removed, an extra file or directory). A destination is writable whether or not it is empty: afterwards every
// source path must be there with the source's contents again, and what the destination held in addition must be
// as it was.
func recopy(c *hx.Ctx, id string, src *srcHandle, srcSnap map[string]Item, dst filesystem.FileSystem, dk, desc string) {
	before, err := snapshot(dst)
	if err != nil {
		c.Stat("pair/recopy-dest-unreadable/" + dk)
		return
	}
	var cerr error
	if perr := safely(func() { cerr = dsync.CopyFileSystem(src.fsys, dst) }); perr != nil {
		c.Fail(id, "-", "second CopyFileSystem into the same destination: "+perr.Error(), desc)
		return
	}
	if cerr != nil {
		c.Fail(id, "-", "second CopyFileSystem into the same destination failed: "+cerr.Error(), desc)
		return
	}
	after, err := snapshot(dst)
	if err != nil {
		c.Fail(id, "-", "cannot read the destination back after the second copy: "+err.Error(), desc)
		return
	}
	want := expectedFromSnapshot(srcSnap, true)
	got := expectedFromSnapshot(after, false)
	for p, it := range expectedFromSnapshot(before, false) {
		if _, inSrc := want[p]; !inSrc {
			want[p] = it // an extra of the destination stays
		}
	}
	diffs := diffFlat(want, got, false)
	c.Stat("pair/recopy/" + dk)
	longer := 0
	for p, it := range want {
		if b, ok := before[p]; ok && it.Kind == KFile && b.Kind == KFile && b.Size > it.Size {
			longer++
		}
	}
	if longer > 0 {
		c.Stat("pair/recopy-over-longer-file/" + dk)
	}
	switch {
	case len(diffs) == 0:
		c.OK(id)
	case dk == "ext4" && truncIgnored() && keptTailExplains(dst, srcSnap, before, after, want, got):
		c.Fail(id, tagTruncIgnored, "the second copy returned nil but: "+strings.Join(first(diffs, 4), "; ")+
			" - each such file was longer in the destination than in the source and keeps its old tail behind the new bytes", desc)
	default:
		c.Fail(id, "-", "after the second copy the destination differs from source + its own extras: "+strings.Join(first(diffs, 6), "; "), desc)
	}
}

const tagTruncIgnored = "ext4-openfile-ignores-trunc"

var truncProbe struct {
	done, ignored bool
	msg           string
}

// truncIgnored replays the witness of finding ext4-openfile-ignores-trunc on a fresh ext4 volume (once per run):
// 50000 bytes, then OpenFile(O_CREATE|O_TRUNC|O_RDWR) and two bytes.
func truncIgnored() bool {
	if truncProbe.done {
		return truncProbe.ignored
	}
	truncProbe.done = true
	perr := safely(func() {
		dst, _, err := newWritable("ext4")
		if err != nil {
			truncProbe.msg = "cannot create an ext4 volume: " + err.Error()
			return
		}
		f, err := dst.OpenFile("a.bin", os.O_CREATE|os.O_RDWR)
		if err != nil {
			truncProbe.msg = "create: " + err.Error()
			return
		}
		old := make([]byte, 50000)
		for i := range old {
			old[i] = byte(i*13 + 5)
		}
		if _, err = f.Write(old); err != nil {
			truncProbe.msg = "write: " + err.Error()
			return
		}
		f.Close()
		if f, err = dst.OpenFile("a.bin", os.O_CREATE|os.O_TRUNC|os.O_RDWR); err != nil {
			truncProbe.msg = "open with O_TRUNC: " + err.Error()
			return
		}
		if _, err = f.Write([]byte("hi")); err != nil {
			truncProbe.msg = "write after O_TRUNC: " + err.Error()
			return
		}
		f.Close()
		got, err := dst.ReadFile("a.bin")
		if err != nil {
			truncProbe.msg = "read back: " + err.Error()
			return
		}
		truncProbe.ignored = len(got) == len(old) && string(got[:2]) == "hi" && string(got[2:]) == string(old[2:])
		truncProbe.msg = fmt.Sprintf("ext4: a.bin of 50000 bytes re-opened with O_CREATE|O_TRUNC|O_RDWR and 'hi' written: %d bytes afterwards", len(got))
	})
	if perr != nil {
		truncProbe.msg = perr.Error()
	}
	return truncProbe.ignored
}

// keptTailExplains: trigger and symptom of finding ext4-openfile-ignores-trunc for a second copy - every difference is
// a file that the destination held before with MORE bytes than the source has, and that now has its old length,
// the source's bytes in front and behind them the bytes it had there before (the mutations only ever append).
func keptTailExplains(dst filesystem.FileSystem, srcSnap, before, after, want, got map[string]Item) bool {
	n := 0
	for p, w := range want {
		g, ok := got[p]
		if ok && g.Kind == w.Kind && (w.Kind != KFile || (g.Size == w.Size && g.Sha == w.Sha)) {
			continue // no difference for diffFlat
		}
		s, inSrc := srcSnap[p]
		b, had := before[p]
		if !ok || !inSrc || !had || w.Kind != KFile || g.Kind != KFile || b.Kind != KFile || b.Size <= s.Size || g.Size != b.Size {
			return false
		}
		data, err := dst.ReadFile(p)
		if err != nil || int64(len(data)) != b.Size || sha(data[:s.Size]) != s.Sha {
			return false
		}
		n++
	}
	for p := range got {
		if _, ok := want[p]; !ok {
			return false
		}
	}
	return n > 0
}

// ---------------------------------------------------------------------------------------------
// replay of the listed findings' witnesses

func partKnown(c *hx.Ctx) {
	if c.Only != "" && !strings.HasPrefix(c.Only, "known") {
		return
	}
	// fat-read-past-eof (owner C10): a 1000-byte file on FAT32 copied into the recording filesystem
	perr := safely(func() {
		data := make([]byte, 1000)
		for i := range data {
			data[i] = byte(i*7 + 1)
		}
		tree := &Node{Name: ".", Kind: KDir, Children: []*Node{{Name: "f1000.bin", Kind: KFile, Data: data}}}
		src, err := buildSource("fat32", tree, c.Scratch)
		if err != nil {
			c.Note("known/fat-read-past-eof: cannot build source: %v", err)
			return
		}
		rf := newRecFS()
		cerr := dsync.CopyFileSystem(src.fsys, rf)
		it := rf.flat()["f1000.bin"]
		n := rf.nodes["f1000.bin"]
		if cerr == nil && it.Size > 1000 && n != nil && string(n.data[:1000]) == string(data) {
			c.Known("fat-read-past-eof", true, fmt.Sprintf("1000-byte file on FAT32 (512-byte clusters) arrives as %d bytes: io.ReadAll on the FAT handle reads past the end of the file", it.Size))
		} else {
			c.Known("fat-read-past-eof", false, fmt.Sprintf("1000-byte file copied as %d bytes err=%v", it.Size, cerr))
		}
	})
	if perr != nil {
		c.Note("known/fat-read-past-eof: %v", perr)
	}
	// ext4-openfile-ignores-trunc (owner: the ext4 writer): the witness on the raw API, then the same through
	// CopyFileSystem - a destination that holds a.bin with 50000 bytes receives a source whose a.bin has 2
	ignored := truncIgnored()
	msg := truncProbe.msg
	perr = safely(func() {
		dst, _, err := newWritable("ext4")
		if err != nil {
			return
		}
		long := &Node{Name: ".", Kind: KDir, Children: []*Node{{Name: "a.bin", Kind: KFile, Data: patData(50000, 3)}}}
		short := &Node{Name: ".", Kind: KDir, Children: []*Node{{Name: "a.bin", Kind: KFile, Data: []byte("hi")}}}
		if err := dsync.CopyFileSystem(long.toMapFS(), dst); err != nil {
			msg += "; first copy: " + err.Error()
			return
		}
		cerr := dsync.CopyFileSystem(short.toMapFS(), dst)
		got, rerr := dst.ReadFile("a.bin")
		msg += fmt.Sprintf("; CopyFileSystem of a 2-byte a.bin over a 50000-byte a.bin: err=%v, %d bytes afterwards (read err=%v)", cerr, len(got), rerr)
		if ignored != (cerr == nil && len(got) == 50000) {
			msg += " - the raw witness and the copy disagree"
		}
	})
	if perr != nil {
		msg += "; " + perr.Error()
	}
	c.Known(tagTruncIgnored, ignored, msg)
}
