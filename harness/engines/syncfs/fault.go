package syncfs

// (1b) CopyFileSystem against a destination whose calls fail or take only part of a slice: the log of the
// calls issued and the result vs the Lean fault model (Model/SyncFault.lean), and independently of the
// model: a failing Mkdir / OpenFile / Write / Symlink (or a short whole-file Write) must make
// CopyFileSystem return an error and stop; a failing Chtimes must change nothing; a nil result must leave
// exactly the source minus excluded names.

import (
	"crypto/sha256"
	"encoding/hex"
	"errors"
	"fmt"
	"io"
	"io/fs"
	"strings"

	dsync "github.com/diskfs/go-diskfs/sync"

	"verif/harness/internal/hx"
)

type faultPlan struct {
	text  string // as the driver parses it
	at    int    // -1: caps plan
	fail  bool
	short int // >= 0 with at >= 0: the Write takes at most that many bytes
	caps  []int
}

func (p faultPlan) fn() func(int) (bool, int) {
	return func(i int) (bool, int) {
		if p.at >= 0 {
			if i != p.at {
				return false, -1
			}
			if p.fail {
				return true, -1
			}
			return false, p.short
		}
		if len(p.caps) == 0 {
			return false, -1
		}
		k := p.caps[i%len(p.caps)]
		if k < 1 {
			k = 1
		}
		return false, k
	}
}

func writeLen(logLine string) (int, bool) {
	if !strings.HasPrefix(logLine, "write:") {
		return 0, false
	}
	f := strings.Split(logLine, ":")
	if len(f) < 3 {
		return 0, false
	}
	var n int
	fmt.Sscanf(f[2], "%d", &n)
	return n, true
}

func partCopyFault(c *hx.Ctx) {
	n := c.N(160, 4000)
	for i := 0; i < n; i++ {
		id := fmt.Sprintf("copyfault/%d", i)
		r := c.Rng.Fork()
		if !c.Want(id) {
			continue
		}
		o := genOpts{budget: 60 << 10, maxFile: 40000, depth: 3, maxEnts: 14, longNames: false, pattern: true,
			links: r.Chance(40), others: r.Chance(20)}
		if i < 8 {
			o.maxEnts = 1 + i
		}
		tree := genTree(r, o)
		src := tree.toMapFS()
		// fault-free run: the calls there are to fail
		rf0 := newRecFS()
		var err0 error
		if perr := safely(func() { err0 = dsync.CopyFileSystem(src, rf0) }); perr != nil || err0 != nil {
			c.Fail(id, "-", fmt.Sprintf("fault-free copy failed: %v %v", perr, err0), tree.encode())
			continue
		}
		L := len(rf0.Log)
		var plan faultPlan
		switch {
		case L == 0 || i%5 == 4:
			caps := []int{hx.Pick(r, []int{1, 7, 100, 4096, 40000}), hx.Pick(r, []int{1, 512, 100000})}
			plan = faultPlan{at: -1, caps: caps, text: fmt.Sprintf("caps:%d,%d", caps[0], caps[1])}
		case i%5 == 3: // a Write that takes only part (or nothing) of its slice
			var ws []int
			for k, l := range rf0.Log {
				if wl, ok := writeLen(l); ok && wl > 0 {
					ws = append(ws, k)
				}
			}
			if len(ws) == 0 {
				k := r.Intn(L)
				plan = faultPlan{at: k, fail: true, text: fmt.Sprintf("at:%d:fail", k)}
				break
			}
			k := hx.Pick(r, ws)
			wl, _ := writeLen(rf0.Log[k])
			sh := r.Intn(wl)
			if r.Chance(30) {
				sh = 0
			}
			plan = faultPlan{at: k, short: sh, text: fmt.Sprintf("at:%d:short:%d", k, sh)}
		default:
			k := r.Intn(L + 1) // L: beyond the last call, nothing fails
			if i%5 == 2 {      // aim at a Chtimes
				var cs []int
				for j, l := range rf0.Log {
					if strings.HasPrefix(l, "chtimes:") {
						cs = append(cs, j)
					}
				}
				if len(cs) > 0 {
					k = hx.Pick(r, cs)
				}
			}
			plan = faultPlan{at: k, fail: true, text: fmt.Sprintf("at:%d:fail", k)}
		}
		desc := fmt.Sprintf("plan=%s tree=%s", plan.text, tree.encode())
		rf := newRecFS()
		rf.Plan = plan.fn()
		var cerr error
		if perr := safely(func() { cerr = dsync.CopyFileSystem(src, rf) }); perr != nil {
			c.Fail(id, "-", perr.Error(), desc)
			continue
		}
		okStr := "1"
		if cerr != nil {
			okStr = "0"
		}
		ops := "-"
		if len(rf.Log) > 0 {
			ops = strings.Join(rf.Log, ";")
		}
		c.Case(id, "syncfs.copyfault", "readlink=1", "tree="+tree.encode(), "plan="+plan.text)
		c.Impl(id, "ok="+okStr, "ops="+ops)

		// S: judged without the model
		var problems []string
		fatalAt := -1
		for k, l := range rf.Log {
			fail, short := rf.Plan(k)
			if strings.HasPrefix(l, "chtimes:") {
				continue
			}
			wl, isW := writeLen(l)
			if fail || (isW && short >= 0 && short < wl) { // every file here is below the streaming threshold: no retry
				fatalAt = k
				break
			}
		}
		switch {
		case fatalAt >= 0:
			if cerr == nil {
				problems = append(problems, fmt.Sprintf("call %d (%s) failed but CopyFileSystem returned nil", fatalAt, rf.Log[fatalAt]))
			}
			if len(rf.Log) != fatalAt+1 {
				problems = append(problems, fmt.Sprintf("%d more destination calls after the failing call %d", len(rf.Log)-fatalAt-1, fatalAt))
			}
			if _, isW := writeLen(rf.Log[fatalAt]); isW {
				if f, _ := rf.Plan(fatalAt); !f && !errors.Is(cerr, io.ErrShortWrite) {
					problems = append(problems, fmt.Sprintf("short write reported as %v, not io.ErrShortWrite", cerr))
				}
			}
			c.Stat("copyfault/fatal")
		default:
			if cerr != nil {
				problems = append(problems, "no fatal outcome but CopyFileSystem failed: "+cerr.Error())
			}
			if strings.Join(rf.Log, ";") != strings.Join(rf0.Log, ";") {
				problems = append(problems, "calls differ from the fault-free run although only Chtimes failed")
			}
			c.Stat("copyfault/benign")
		}
		if cerr == nil {
			want := map[string]Item{}
			tree.expectedCopy().flatten("", want)
			if d := diffFlat(want, rf.flat(), true); len(d) > 0 {
				problems = append(problems, "nil result but destination differs from source minus excluded names: "+strings.Join(first(d, 6), "; "))
			}
		}
		if len(problems) > 0 {
			c.Fail(id, "-", strings.Join(problems, " | "), desc)
		} else {
			c.OK(id)
		}
		c.Stat("copyfault/plan=" + strings.SplitN(plan.text, ":", 2)[0] + map[bool]string{true: "-fail", false: ""}[plan.at >= 0 && plan.fail] +
			map[bool]string{true: "-short", false: ""}[plan.at >= 0 && !plan.fail])
		if L > 0 {
			c.Distinct("copyfault:" + desc)
		}
	}
}

// partBigFault: the streaming path (> 64 MiB) with a destination that takes only part of each slice
// (retry loop), takes nothing (io.ErrShortWrite) or fails.
func partBigFault(c *hx.Ctx) {
	type sc struct {
		size int64
		beh  behaviour
		plan faultPlan
		ok   bool
	}
	cases := []sc{
		{documentedMax + 70001, behaviour{caps: []int{32768, 5000}, eofWith: true}, faultPlan{at: -1, caps: []int{1000, 32768, 5, 20000}, text: "caps:1000,32768,5,20000"}, true},
		{documentedMax + 33000, behaviour{}, faultPlan{at: 7, short: 0, text: "at:7:short:0"}, false},
	}
	if c.Thorough() {
		cases = append(cases,
			sc{documentedMax + 1, behaviour{eofWith: true}, faultPlan{at: -1, caps: []int{32767}, text: "caps:32767"}, true},
			sc{documentedMax + 4097, behaviour{caps: []int{16384}}, faultPlan{at: 2049, fail: true, text: "at:2049:fail"}, false},
			sc{documentedMax + 4097, behaviour{}, faultPlan{at: 2, short: 1, text: "at:2:short:1"}, true},
			sc{documentedMax + 99999, behaviour{caps: []int{32767, 1, 32768}}, faultPlan{at: -1, caps: []int{1}, text: "caps:1"}, true},
		)
	}
	for i, k := range cases {
		id := fmt.Sprintf("bigfault/%d", i)
		if !c.Want(id) {
			continue
		}
		desc := fmt.Sprintf("synthetic %d-byte file read with behaviour %s -> recording filesystem with plan %s", k.size, k.beh, k.plan.text)
		rf := newRecFS()
		rf.HashOnly = true
		rf.Plan = k.plan.fn()
		var cerr error
		if perr := safely(func() { cerr = dsync.CopyFileSystem(synthFS{k.size, k.beh}, rf) }); perr != nil {
			c.Fail(id, "-", perr.Error(), desc)
			continue
		}
		nw, _, sum, last, _ := bigSummary(rf)
		okStr := "1"
		if cerr != nil {
			okStr = "0"
		}
		c.Case(id, "syncfs.bigfault", fmt.Sprintf("size=%d", k.size), "rb="+k.beh.String(), "plan="+k.plan.text)
		c.Impl(id, "ok="+okStr, fmt.Sprintf("writes=%d", nw), fmt.Sprintf("last=%d", last), fmt.Sprintf("sum=%d", sum))
		var problems []string
		if k.ok {
			if cerr != nil {
				problems = append(problems, "CopyFileSystem failed although every Write made progress: "+cerr.Error())
			}
			h := sha256.New()
			buf := make([]byte, 1<<20)
			for off := int64(0); off < k.size; {
				n := int64(len(buf))
				if n > k.size-off {
					n = k.size - off
				}
				for j := int64(0); j < n; j++ {
					buf[j] = synthByte(off + j)
				}
				h.Write(buf[:n])
				off += n
			}
			wantSha := hex.EncodeToString(h.Sum(nil)[:8])
			gotSize, gotSha := rf.fileSha("d/big.img")
			if gotSize != k.size || gotSha != wantSha {
				problems = append(problems, fmt.Sprintf("copied file is %d bytes sha %s, source is %d bytes sha %s", gotSize, gotSha, k.size, wantSha))
			}
		} else {
			if cerr == nil {
				problems = append(problems, "a Write failed / took nothing but CopyFileSystem returned nil")
			}
			if !k.plan.fail && !errors.Is(cerr, io.ErrShortWrite) {
				problems = append(problems, fmt.Sprintf("a Write that took nothing is reported as %v, not io.ErrShortWrite", cerr))
			}
			if len(rf.Log) != k.plan.at+1 {
				problems = append(problems, fmt.Sprintf("%d destination calls, expected to stop after call %d", len(rf.Log), k.plan.at))
			}
		}
		if len(problems) > 0 {
			c.Fail(id, "-", strings.Join(problems, " | "), desc)
		} else {
			c.OK(id)
		}
		c.Stat("bigfault/cases")
		c.Distinct("bigfault:" + desc)
		c.Sample(fmt.Sprintf("%s: ok=%s writes=%d sum=%d", desc, okStr, nw, sum))
	}
}

var _ fs.FS = synthFS{}
