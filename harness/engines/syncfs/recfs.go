package syncfs

import (
	"crypto/sha256"
	"encoding/hex"
	"errors"
	"fmt"
	"hash"
	"io"
	"io/fs"
	"os"
	"path"
	"sort"
	"strings"
	"time"

	"github.com/diskfs/go-diskfs/filesystem"
)

// recFS is a recording filesystem.FileSystem: a plain in-memory tree that logs every mutating call.
// It is the destination of the op-log correspondence and can be read back as an fs.FS.
type recFS struct {
	nodes    map[string]*recNode // "." is the root
	Log      []string            // canonical op log
	Writes   []int               // size of every Write call
	HashOnly bool                // do not keep file contents (only size + SHA-256)
	FailOn   string              // op prefix that fails (fault injection), e.g. "chtimes"
	Plan     func(idx int) (fail bool, short int) // outcome of the idx-th logged call (nil: all succeed); short >= 0: a Write takes at most that many bytes
	Mtimes   map[string]time.Time
}

type recNode struct {
	kind   Kind
	data   []byte
	size   int64
	h      hash.Hash
	target string
	mtime  time.Time
}

func newRecFS() *recFS {
	return &recFS{nodes: map[string]*recNode{".": {kind: KDir}}, Mtimes: map[string]time.Time{}}
}

// planned is the outcome the fault plan assigns to the call just logged.
func (r *recFS) planned() (fail bool, short int) {
	if r.Plan == nil {
		return false, -1
	}
	return r.Plan(len(r.Log) - 1)
}

var errInjected = errors.New("recfs: injected failure (fault plan)")

func cleanP(p string) string {
	p = path.Clean(strings.TrimPrefix(p, "/"))
	if p == "" {
		p = "."
	}
	return p
}

func fnv32(b []byte) uint32 {
	h := uint32(2166136261)
	for _, x := range b {
		h ^= uint32(x)
		h *= 16777619
	}
	return h
}

func flagStr(flag int) string {
	var s []string
	if flag&os.O_CREATE != 0 {
		s = append(s, "create")
	}
	if flag&os.O_TRUNC != 0 {
		s = append(s, "trunc")
	}
	if flag&os.O_EXCL != 0 {
		s = append(s, "excl")
	}
	if flag&os.O_APPEND != 0 {
		s = append(s, "append")
	}
	switch flag & (os.O_RDONLY | os.O_WRONLY | os.O_RDWR) {
	case os.O_RDWR:
		s = append(s, "rdwr")
	case os.O_WRONLY:
		s = append(s, "wronly")
	default:
		s = append(s, "rdonly")
	}
	return strings.Join(s, "+")
}

func (r *recFS) parentOK(p string) error {
	d := path.Dir(p)
	n, ok := r.nodes[d]
	if !ok {
		return fmt.Errorf("recfs: parent %s of %s does not exist", d, p)
	}
	if n.kind != KDir {
		return fmt.Errorf("recfs: parent %s of %s is not a directory", d, p)
	}
	return nil
}

func (r *recFS) Type() filesystem.Type { return filesystem.TypeExt4 }

func (r *recFS) Mkdir(pathname string) error {
	p := cleanP(pathname)
	r.Log = append(r.Log, "mkdir:"+p)
	if r.FailOn == "mkdir" {
		return errors.New("recfs: injected mkdir failure")
	}
	if f, _ := r.planned(); f {
		return errInjected
	}
	if err := r.parentOK(p); err != nil {
		return err
	}
	if _, ok := r.nodes[p]; ok {
		return fmt.Errorf("recfs: %s exists", p)
	}
	r.nodes[p] = &recNode{kind: KDir}
	return nil
}

func (r *recFS) Mknod(string, uint32, int) error { return filesystem.ErrNotSupported }
func (r *recFS) Link(string, string) error       { return filesystem.ErrNotSupported }
func (r *recFS) Chmod(string, os.FileMode) error { return nil }
func (r *recFS) Chown(string, int, int) error    { return nil }
func (r *recFS) Rename(string, string) error     { return filesystem.ErrNotSupported }
func (r *recFS) Label() string                   { return "" }
func (r *recFS) SetLabel(string) error           { return nil }
func (r *recFS) Close() error                    { return nil }

func (r *recFS) Symlink(oldpath, newpath string) error {
	p := cleanP(newpath)
	r.Log = append(r.Log, "symlink:"+p+":"+strings.ReplaceAll(oldpath, "/", "|"))
	if f, _ := r.planned(); f {
		return errInjected
	}
	if err := r.parentOK(p); err != nil {
		return err
	}
	if _, ok := r.nodes[p]; ok {
		return fmt.Errorf("recfs: %s exists", p)
	}
	r.nodes[p] = &recNode{kind: KLink, target: oldpath}
	return nil
}

func (r *recFS) Chtimes(pathname string, ctime, atime, mtime time.Time) error {
	p := cleanP(pathname)
	r.Log = append(r.Log, "chtimes:"+p)
	if r.FailOn == "chtimes" {
		return errors.New("recfs: injected chtimes failure")
	}
	if f, _ := r.planned(); f {
		return errInjected
	}
	n, ok := r.nodes[p]
	if !ok {
		return fs.ErrNotExist
	}
	n.mtime = mtime
	r.Mtimes[p] = mtime
	return nil
}

func (r *recFS) Remove(pathname string) error {
	p := cleanP(pathname)
	if _, ok := r.nodes[p]; !ok {
		return fs.ErrNotExist
	}
	delete(r.nodes, p)
	return nil
}

func (r *recFS) OpenFile(pathname string, flag int) (filesystem.File, error) {
	p := cleanP(pathname)
	r.Log = append(r.Log, "open:"+p+":"+flagStr(flag))
	if f, _ := r.planned(); f {
		return nil, errInjected
	}
	n, ok := r.nodes[p]
	if ok && n.kind == KDir {
		return nil, fmt.Errorf("recfs: %s is a directory", p)
	}
	if !ok {
		if flag&os.O_CREATE == 0 {
			return nil, fs.ErrNotExist
		}
		if err := r.parentOK(p); err != nil {
			return nil, err
		}
		n = &recNode{kind: KFile}
		r.nodes[p] = n
	}
	if flag&os.O_TRUNC != 0 {
		n.data = nil
		n.size = 0
		n.h = nil
	}
	if r.HashOnly && n.h == nil {
		n.h = sha256.New()
	}
	return &recFile{fs: r, p: p, n: n, writable: flag&(os.O_WRONLY|os.O_RDWR) != 0, off: 0}, nil
}

func (r *recFS) Open(name string) (fs.File, error) {
	p := cleanP(name)
	n, ok := r.nodes[p]
	if !ok {
		return nil, &fs.PathError{Op: "open", Path: name, Err: fs.ErrNotExist}
	}
	return &recFile{fs: r, p: p, n: n}, nil
}

func (r *recFS) Stat(name string) (fs.FileInfo, error) {
	p := cleanP(name)
	n, ok := r.nodes[p]
	if !ok {
		return nil, &fs.PathError{Op: "stat", Path: name, Err: fs.ErrNotExist}
	}
	return recInfo{name: path.Base(p), n: n}, nil
}

func (r *recFS) ReadFile(name string) ([]byte, error) {
	p := cleanP(name)
	n, ok := r.nodes[p]
	if !ok || n.kind != KFile {
		return nil, fs.ErrNotExist
	}
	return append([]byte(nil), n.data...), nil
}

func (r *recFS) ReadDir(name string) ([]fs.DirEntry, error) {
	p := cleanP(name)
	n, ok := r.nodes[p]
	if !ok {
		return nil, &fs.PathError{Op: "readdir", Path: name, Err: fs.ErrNotExist}
	}
	if n.kind != KDir {
		return nil, &fs.PathError{Op: "readdir", Path: name, Err: errors.New("not a directory")}
	}
	var out []fs.DirEntry
	for q, c := range r.nodes {
		if q == "." || path.Dir(q) != p {
			continue
		}
		out = append(out, fs.FileInfoToDirEntry(recInfo{name: path.Base(q), n: c}))
	}
	sort.Slice(out, func(i, j int) bool { return out[i].Name() < out[j].Name() })
	return out, nil
}

func (r *recFS) ReadLink(name string) (string, error) {
	n, ok := r.nodes[cleanP(name)]
	if !ok || n.kind != KLink {
		return "", fs.ErrInvalid
	}
	return n.target, nil
}

// sha of a file's content (works in both modes)
func (r *recFS) fileSha(p string) (int64, string) {
	n := r.nodes[p]
	if n == nil {
		return -1, ""
	}
	if n.h != nil {
		return n.size, hex.EncodeToString(n.h.Sum(nil)[:8])
	}
	return int64(len(n.data)), sha(n.data)
}

// flat lists the recorded tree like Node.flatten does.
func (r *recFS) flat() map[string]Item {
	out := map[string]Item{}
	for p, n := range r.nodes {
		if p == "." {
			continue
		}
		switch n.kind {
		case KDir:
			out[p] = Item{Kind: KDir}
		case KFile:
			sz, h := r.fileSha(p)
			out[p] = Item{Kind: KFile, Size: sz, Sha: h}
		case KLink:
			out[p] = Item{Kind: KLink, Target: n.target}
		}
	}
	return out
}

type recInfo struct {
	name string
	n    *recNode
}

func (i recInfo) Name() string { return i.name }
func (i recInfo) Size() int64 {
	if i.n.kind != KFile {
		return 0
	}
	if i.n.h != nil {
		return i.n.size
	}
	return int64(len(i.n.data))
}
func (i recInfo) Mode() fs.FileMode {
	switch i.n.kind {
	case KDir:
		return fs.ModeDir | 0o755
	case KLink:
		return fs.ModeSymlink | 0o777
	}
	return 0o644
}
func (i recInfo) ModTime() time.Time { return i.n.mtime }
func (i recInfo) IsDir() bool        { return i.n.kind == KDir }
func (i recInfo) Sys() any           { return nil }

type recFile struct {
	fs       *recFS
	p        string
	n        *recNode
	off      int64
	writable bool
	closed   bool
}

func (f *recFile) Stat() (fs.FileInfo, error) { return recInfo{name: path.Base(f.p), n: f.n}, nil }
func (f *recFile) Close() error               { f.closed = true; return nil }
func (f *recFile) Read(b []byte) (int, error) {
	if f.n.kind == KDir {
		return 0, errors.New("recfs: is a directory")
	}
	if f.off >= int64(len(f.n.data)) {
		return 0, io.EOF
	}
	n := copy(b, f.n.data[f.off:])
	f.off += int64(n)
	return n, nil
}
func (f *recFile) Write(b []byte) (int, error) {
	if !f.writable {
		return 0, errors.New("recfs: not writable")
	}
	f.fs.Writes = append(f.fs.Writes, len(b))
	if f.fs.HashOnly {
		f.fs.Log = append(f.fs.Log, fmt.Sprintf("write:%s:%d", f.p, len(b)))
		if fail, short := f.fs.planned(); fail {
			return 0, errInjected
		} else if short >= 0 && short < len(b) {
			b = b[:short] // short write, nil error
		}
		if f.off != f.n.size {
			return 0, errors.New("recfs: hash-only mode supports sequential writes only")
		}
		f.n.h.Write(b)
		f.n.size += int64(len(b))
		f.off += int64(len(b))
		return len(b), nil
	}
	f.fs.Log = append(f.fs.Log, fmt.Sprintf("write:%s:%d:%08x", f.p, len(b), fnv32(b)))
	if fail, short := f.fs.planned(); fail {
		return 0, errInjected
	} else if short >= 0 && short < len(b) {
		b = b[:short] // short write, nil error
	}
	end := f.off + int64(len(b))
	if end > int64(len(f.n.data)) {
		f.n.data = append(f.n.data, make([]byte, end-int64(len(f.n.data)))...)
	}
	copy(f.n.data[f.off:], b)
	f.off = end
	return len(b), nil
}
func (f *recFile) Seek(offset int64, whence int) (int64, error) {
	switch whence {
	case io.SeekStart:
		f.off = offset
	case io.SeekCurrent:
		f.off += offset
	case io.SeekEnd:
		f.off = int64(len(f.n.data)) + offset
	}
	return f.off, nil
}
func (f *recFile) ReadDir(n int) ([]fs.DirEntry, error) {
	if f.n.kind != KDir {
		return nil, errors.New("recfs: not a directory")
	}
	return f.fs.ReadDir(f.p)
}
