// Package syncfs is the C16 engine: sync.CopyFileSystem / sync.CompareFS on the real code.
package syncfs

import (
	"crypto/sha256"
	"encoding/hex"
	"fmt"
	"io/fs"
	"os"
	"path"
	"path/filepath"
	"sort"
	"strings"
	"syscall"
	"testing/fstest"
	"time"

	"github.com/diskfs/go-diskfs/filesystem"

	"verif/harness/internal/hx"
)

// Kind of a tree node.
type Kind int

const (
	KFile Kind = iota
	KDir
	KLink
	KOther // named pipe: something CopyFileSystem skips
)

// Node is the harness's own description of a tree (the ground truth of every oracle).
type Node struct {
	Name     string
	Kind     Kind
	Data     []byte  // KFile
	Pat      int     // >=0: Data is patData(len, Pat) (model-reproducible content), possibly with one byte replaced:
	FlipPos  int     // -1, or the index of the replaced byte
	FlipVal  int     // its value
	Target   string  // KLink
	Children []*Node // KDir, kept sorted by Name (fs.ReadDir order)
}

// the names sync/copy.go documents as excluded (the harness's own copy of the documented list;
// the model takes its list from the regenerated facts instead).
var documentedExcluded = map[string]bool{"lost+found": true, ".DS_Store": true, "System Volume Information": true}

func (n *Node) sortRec() {
	sort.Slice(n.Children, func(i, j int) bool { return n.Children[i].Name < n.Children[j].Name })
	for _, c := range n.Children {
		if c.Kind == KDir {
			c.sortRec()
		}
	}
}

func (n *Node) clone() *Node {
	m := *n
	m.Data = append([]byte(nil), n.Data...)
	m.Children = nil
	for _, c := range n.Children {
		m.Children = append(m.Children, c.clone())
	}
	return &m
}

func (n *Node) child(name string) *Node {
	for _, c := range n.Children {
		if c.Name == name {
			return c
		}
	}
	return nil
}

// patData is the content function shared with the Lean driver: byte i = pat + i + 3*(i/256) + 5*(i/65536) mod 256.
func patData(size, pat int) []byte {
	b := make([]byte, size)
	for i := range b {
		b[i] = byte(pat + i + 3*(i/256) + 5*(i/65536))
	}
	return b
}

// Item is one entry of a flattened tree: what the oracles compare.
type Item struct {
	Kind   Kind
	Size   int64
	Sha    string
	Target string
}

func sha(b []byte) string {
	h := sha256.Sum256(b)
	return hex.EncodeToString(h[:8])
}

// flatten lists every path below n ("" prefix for the root's children).
func (n *Node) flatten(prefix string, out map[string]Item) {
	for _, c := range n.Children {
		p := c.Name
		if prefix != "" {
			p = prefix + "/" + c.Name
		}
		switch c.Kind {
		case KDir:
			out[p] = Item{Kind: KDir}
			c.flatten(p, out)
		case KFile:
			out[p] = Item{Kind: KFile, Size: int64(len(c.Data)), Sha: sha(c.Data)}
		case KLink:
			out[p] = Item{Kind: KLink, Target: c.Target}
		default:
			out[p] = Item{Kind: KOther}
		}
	}
}

// expectedCopy is the tree CopyFileSystem must produce: the source minus excluded names (at every level)
// and minus non-regular entries.
func (n *Node) expectedCopy() *Node {
	m := &Node{Name: n.Name, Kind: KDir}
	for _, c := range n.Children {
		if documentedExcluded[c.Name] || c.Kind == KOther {
			continue
		}
		if c.Kind == KDir {
			m.Children = append(m.Children, c.expectedCopy())
		} else {
			cc := *c
			cc.Children = nil
			m.Children = append(m.Children, &cc)
		}
	}
	return m
}

// stripExcluded: the source minus excluded names only (what CompareFS looks at).
func (n *Node) stripExcluded() *Node {
	m := &Node{Name: n.Name, Kind: KDir}
	for _, c := range n.Children {
		if documentedExcluded[c.Name] {
			continue
		}
		if c.Kind == KDir {
			m.Children = append(m.Children, c.stripExcluded())
		} else {
			cc := *c
			m.Children = append(m.Children, &cc)
		}
	}
	return m
}

func (n *Node) count() (files, dirs, links, others int, bytes int64) {
	for _, c := range n.Children {
		switch c.Kind {
		case KDir:
			dirs++
			f, d, l, o, b := c.count()
			files, dirs, links, others, bytes = files+f, dirs+d, links+l, others+o, bytes+b
		case KFile:
			files++
			bytes += int64(len(c.Data))
		case KLink:
			links++
		default:
			others++
		}
	}
	return
}

// encode is the compact tree text of the `case` lines: tokens joined by "/".
//
//	D<name> … E   directory;  F<size>:<pat>:<name>  file;  L<target with / as |>:<name>  symlink;  O<name>  other
func (n *Node) encode() string {
	var tok []string
	var rec func(d *Node)
	rec = func(d *Node) {
		for _, c := range d.Children {
			switch c.Kind {
			case KDir:
				tok = append(tok, "D"+c.Name)
				rec(c)
				tok = append(tok, "E")
			case KFile:
				if c.Pat >= 0 && c.FlipPos >= 0 {
					tok = append(tok, fmt.Sprintf("F%d:%d@%d=%d:%s", len(c.Data), c.Pat, c.FlipPos, c.FlipVal, c.Name))
				} else {
					tok = append(tok, fmt.Sprintf("F%d:%d:%s", len(c.Data), c.Pat, c.Name))
				}
			case KLink:
				tok = append(tok, "L"+strings.ReplaceAll(c.Target, "/", "|")+":"+c.Name)
			default:
				tok = append(tok, "O"+c.Name)
			}
		}
	}
	rec(n)
	if len(tok) == 0 {
		return "-"
	}
	return strings.Join(tok, "/")
}

// ---------------------------------------------------------------------------------------------
// generation

type genOpts struct {
	budget    int64 // total content bytes
	maxFile   int   // largest single file
	links     bool
	others    bool
	longNames bool
	depth     int
	pattern   bool // contents from patData (model-reproducible) instead of random bytes
	maxEnts   int
	noDot     bool // no names with a leading dot (FAT and iso9660 sources mangle them; not this property's business)
}

var boundarySizes = []int{0, 1, 2, 511, 512, 513, 4095, 4096, 4097, 32767, 32768, 32769, 65535, 65536, 65537, 98304, 98305}

var simpleNames = []string{"a.txt", "b.dat", "readme", "data.bin", "x", "file1.txt", "file2.txt", "notes.md", "img.raw", "z9", "k.cfg", "m_1.log"}
var longNames = []string{"a long file name 01.data", "Another-Long-Name.with.dots.txt", "mixedCaseName.TXT", "this_is_a_rather_long_directory_entry_name_0123456789.bin"}
var dirNames = []string{"dir1", "dir2", "sub", "etc", "var", "deep", "empty", "docs"}
var exclNames = []string{"lost+found", ".DS_Store", "System Volume Information"}

// genTree makes a seeded tree: boundary sizes first, excluded names at the top level and nested,
// empty directories, empty files.
func genTree(r *hx.Rng, o genOpts) *Node {
	root := &Node{Name: ".", Kind: KDir}
	budget := o.budget
	ents := 0
	mkFile := func(name string) *Node {
		var size int
		switch r.Intn(10) {
		case 0, 1, 2, 3, 4:
			size = hx.Pick(r, boundarySizes)
		case 5:
			size = 0
		default:
			size = r.Intn(3000)
		}
		if size > o.maxFile {
			size = r.Intn(o.maxFile + 1)
		}
		if int64(size) > budget {
			size = int(budget)
		}
		budget -= int64(size)
		f := &Node{Name: name, Kind: KFile, Pat: -1, FlipPos: -1}
		if o.pattern {
			f.Pat = r.Intn(256)
			f.Data = patData(size, f.Pat)
		} else {
			f.Data = r.Bytes(size)
		}
		return f
	}
	var fill func(d *Node, depth int)
	fill = func(d *Node, depth int) {
		used := map[string]bool{}
		n := 1 + r.Intn(6)
		if depth == 0 {
			n = 3 + r.Intn(6)
		}
		if r.Chance(12) && depth > 0 {
			n = 0 // empty directory
		}
		for i := 0; i < n && ents < o.maxEnts; i++ {
			var c *Node
			k := r.Intn(100)
			switch {
			case k < 14: // an excluded name: directory with content, or a file
				name := hx.Pick(r, exclNames)
				if o.noDot && strings.HasPrefix(name, ".") {
					name = "lost+found"
				}
				if used[name] {
					continue
				}
				if r.Bool() {
					c = &Node{Name: name, Kind: KDir}
					c.Children = append(c.Children, mkFile("orphan1"))
					if r.Bool() {
						c.Children = append(c.Children, &Node{Name: "inner", Kind: KDir, Children: []*Node{mkFile("deep.bin")}})
					}
				} else {
					c = mkFile(name)
				}
			case k < 40 && depth < o.depth:
				name := hx.Pick(r, dirNames)
				if used[name] {
					continue
				}
				c = &Node{Name: name, Kind: KDir}
				used[name] = true
				ents++
				fill(c, depth+1)
				d.Children = append(d.Children, c)
				continue
			case k < 47 && o.links:
				name := fmt.Sprintf("link%d", r.Intn(4))
				if used[name] {
					continue
				}
				c = &Node{Name: name, Kind: KLink, Target: hx.Pick(r, []string{"a.txt", "../x", "dir1/readme", "nowhere", "/abs/target"})}
			case k < 51 && o.others:
				name := fmt.Sprintf("pipe%d", r.Intn(3))
				if used[name] {
					continue
				}
				c = &Node{Name: name, Kind: KOther}
			default:
				name := hx.Pick(r, simpleNames)
				if o.longNames && r.Chance(20) {
					name = hx.Pick(r, longNames)
				}
				if used[name] {
					continue
				}
				c = mkFile(name)
			}
			used[c.Name] = true
			ents++
			d.Children = append(d.Children, c)
		}
	}
	fill(root, 0)
	root.sortRec()
	return root
}

// ---------------------------------------------------------------------------------------------
// materialising a tree

var baseTime = time.Date(2021, 3, 4, 5, 6, 8, 0, time.UTC)

// toMapFS builds an fstest.MapFS (supports ReadLink since Go 1.25).
func (n *Node) toMapFS() fstest.MapFS {
	m := fstest.MapFS{}
	var rec func(d *Node, prefix string)
	rec = func(d *Node, prefix string) {
		for _, c := range d.Children {
			p := path.Join(prefix, c.Name)
			switch c.Kind {
			case KDir:
				m[p] = &fstest.MapFile{Mode: fs.ModeDir | 0o755, ModTime: baseTime}
				rec(c, p)
			case KFile:
				m[p] = &fstest.MapFile{Data: c.Data, Mode: 0o644, ModTime: baseTime}
			case KLink:
				m[p] = &fstest.MapFile{Data: []byte(c.Target), Mode: fs.ModeSymlink | 0o777, ModTime: baseTime}
			default:
				m[p] = &fstest.MapFile{Mode: fs.ModeNamedPipe | 0o644, ModTime: baseTime}
			}
		}
	}
	rec(n, "")
	return m
}

// toOSDir writes the tree below dir (which must exist and be empty).
func (n *Node) toOSDir(dir string) error {
	for _, c := range n.Children {
		p := filepath.Join(dir, c.Name)
		switch c.Kind {
		case KDir:
			if err := os.Mkdir(p, 0o755); err != nil {
				return err
			}
			if err := c.toOSDir(p); err != nil {
				return err
			}
		case KFile:
			if err := os.WriteFile(p, c.Data, 0o644); err != nil {
				return err
			}
			_ = os.Chtimes(p, baseTime, baseTime)
		case KLink:
			if err := os.Symlink(c.Target, p); err != nil {
				return err
			}
		default:
			if err := syscall.Mkfifo(p, 0o644); err != nil {
				return err
			}
		}
	}
	return nil
}

// toFS writes the tree through a library filesystem's own write API (Mkdir / OpenFile / Write / Symlink).
func (n *Node) toFS(fsys filesystem.FileSystem, prefix string) error {
	for _, c := range n.Children {
		p := path.Join(prefix, c.Name)
		switch c.Kind {
		case KDir:
			if err := fsys.Mkdir(p); err != nil {
				return fmt.Errorf("mkdir %s: %w", p, err)
			}
			if err := c.toFS(fsys, p); err != nil {
				return err
			}
		case KFile:
			f, err := fsys.OpenFile(p, os.O_CREATE|os.O_RDWR)
			if err != nil {
				return fmt.Errorf("create %s: %w", p, err)
			}
			data := c.Data
			for len(data) > 0 {
				w, err := f.Write(data)
				if err != nil {
					f.Close()
					return fmt.Errorf("write %s: %w", p, err)
				}
				if w == 0 {
					f.Close()
					return fmt.Errorf("write %s: zero progress", p)
				}
				data = data[w:]
			}
			if err := f.Close(); err != nil {
				return fmt.Errorf("close %s: %w", p, err)
			}
		case KLink:
			if err := fsys.Symlink(c.Target, p); err != nil {
				return fmt.Errorf("symlink %s: %w", p, err)
			}
		default:
			return fmt.Errorf("cannot create special file %s", p)
		}
	}
	return nil
}
