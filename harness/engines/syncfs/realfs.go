package syncfs

import (
	"crypto/sha256"
	"encoding/hex"
	"errors"
	"fmt"
	"io"
	"io/fs"
	"os"
	"path"
	"sort"
	"strings"

	"github.com/diskfs/go-diskfs/filesystem"
	"github.com/diskfs/go-diskfs/filesystem/ext4"
	"github.com/diskfs/go-diskfs/filesystem/fat12"
	"github.com/diskfs/go-diskfs/filesystem/fat16"
	"github.com/diskfs/go-diskfs/filesystem/fat32"
	"github.com/diskfs/go-diskfs/filesystem/iso9660"
	"github.com/diskfs/go-diskfs/filesystem/squashfs"

	"verif/harness/internal/memdev"
)

// sizes of the real destination / source volumes
var volSize = map[string]int64{
	"fat12": 4 << 20,
	"fat16": 20 << 20,
	"fat32": 40 << 20,
	"ext4":  24 << 20,
}

// newWritable creates an empty writable filesystem of the given kind on a fresh in-memory device.
func newWritable(kind string) (fsys filesystem.FileSystem, dev *memdev.Dev, err error) {
	defer func() {
		if e := recover(); e != nil {
			err = fmt.Errorf("panic creating %s: %v", kind, e)
		}
	}()
	size := volSize[kind]
	d := memdev.New(size)
	d.KeepData = false
	switch kind {
	case "fat12":
		fsys, err = fat12.Create(d, size, 0, 512, "VERIF", true)
	case "fat16":
		fsys, err = fat16.Create(d, size, 0, 512, "VERIF", true)
	case "fat32":
		fsys, err = fat32.Create(d, size, 0, 512, "VERIF", true)
	case "ext4":
		fsys, err = ext4.Create(d, size, 0, 512, &ext4.Params{})
	default:
		err = errors.New("unknown kind " + kind)
	}
	return fsys, d, err
}

// srcHandle is a source filesystem as CopyFileSystem / CompareFS see it.
type srcHandle struct {
	kind    string
	fsys    fs.FS
	cleanup func()
}

// buildSource materialises tree as a source of the given kind below scratch and returns its fs.FS view.
// iso9660 and squashfs are built through the library's workspace + Finalize and then re-opened with Read.
func buildSource(kind string, tree *Node, scratch string) (h *srcHandle, err error) {
	defer func() {
		if e := recover(); e != nil {
			err = fmt.Errorf("panic building %s source: %v", kind, e)
		}
	}()
	switch kind {
	case "mapfs":
		return &srcHandle{kind: kind, fsys: tree.toMapFS(), cleanup: func() {}}, nil
	case "osdir":
		dir, err := os.MkdirTemp(scratch, "src-os")
		if err != nil {
			return nil, err
		}
		if err := tree.toOSDir(dir); err != nil {
			os.RemoveAll(dir)
			return nil, err
		}
		return &srcHandle{kind: kind, fsys: os.DirFS(dir), cleanup: func() { os.RemoveAll(dir) }}, nil
	case "fat32", "ext4", "fat16", "fat12":
		fsys, _, err := newWritable(kind)
		if err != nil {
			return nil, err
		}
		if err := tree.toFS(fsys, ""); err != nil {
			return nil, err
		}
		return &srcHandle{kind: kind, fsys: fsys, cleanup: func() {}}, nil
	case "iso9660":
		ws, err := os.MkdirTemp(scratch, "ws-iso")
		if err != nil {
			return nil, err
		}
		defer os.RemoveAll(ws)
		if err := tree.toOSDir(ws); err != nil {
			return nil, err
		}
		d := memdev.New(64 << 20)
		d.KeepData = false
		w, err := iso9660.Create(d, 0, 0, 2048, ws)
		if err != nil {
			return nil, err
		}
		if err := w.Finalize(iso9660.FinalizeOptions{RockRidge: true, VolumeIdentifier: "VERIF", DeepDirectories: true}); err != nil {
			return nil, fmt.Errorf("finalize: %w", err)
		}
		rd, err := iso9660.Read(d, 0, 0, 2048)
		if err != nil {
			return nil, fmt.Errorf("read back: %w", err)
		}
		return &srcHandle{kind: kind, fsys: rd, cleanup: func() {}}, nil
	case "squashfs":
		d := memdev.New(64 << 20)
		d.KeepData = false
		w, err := squashfs.Create(d, 0, 0, 4096)
		if err != nil {
			return nil, err
		}
		defer w.Close()
		if err := tree.toFS(w, ""); err != nil {
			return nil, err
		}
		if err := w.Finalize(squashfs.FinalizeOptions{}); err != nil {
			return nil, fmt.Errorf("finalize: %w", err)
		}
		rd, err := squashfs.Read(d, 0, 0, 4096)
		if err != nil {
			return nil, fmt.Errorf("read back: %w", err)
		}
		return &srcHandle{kind: kind, fsys: rd, cleanup: func() {}}, nil
	}
	return nil, errors.New("unknown source kind " + kind)
}

// snapshot is the harness's own reading of a tree through ReadDir + Open + sequential 32 KiB reads
// (offsets stay cluster/block aligned, so the reader defects other properties own do not interfere).
// It never uses the sync package.
func snapshot(fsys fs.FS) (out map[string]Item, err error) {
	defer func() {
		if e := recover(); e != nil {
			err = fmt.Errorf("panic reading tree: %v", e)
		}
	}()
	out = map[string]Item{}
	type readlinker interface {
		ReadLink(string) (string, error)
	}
	var rec func(dir string) error
	rec = func(dir string) error {
		ents, err := fs.ReadDir(fsys, dir)
		if err != nil {
			return fmt.Errorf("readdir %s: %w", dir, err)
		}
		sort.Slice(ents, func(i, j int) bool { return ents[i].Name() < ents[j].Name() })
		for _, e := range ents {
			if e.Name() == "." || e.Name() == ".." {
				continue
			}
			if e.Name() == "" || strings.Contains(e.Name(), "/") || strings.Count(dir, "/") > 40 {
				return fmt.Errorf("readdir %s: unusable entry name %q", dir, e.Name())
			}
			p := e.Name()
			if dir != "." {
				p = path.Join(dir, e.Name())
			}
			info, ierr := e.Info()
			mode := e.Type()
			if ierr == nil {
				mode = info.Mode()
			}
			switch {
			case mode&fs.ModeSymlink != 0:
				it := Item{Kind: KLink}
				if rl, ok := fsys.(readlinker); ok {
					if t, err := rl.ReadLink(p); err == nil {
						it.Target = t
					} else {
						it.Target = "<readlink error: " + err.Error() + ">"
					}
				} else {
					it.Target = "<no ReadLink>"
				}
				out[p] = it
			case e.IsDir():
				out[p] = Item{Kind: KDir}
				if err := rec(p); err != nil {
					return err
				}
			case mode.IsRegular() || mode.Type() == 0:
				f, err := fsys.Open(p)
				if err != nil {
					return fmt.Errorf("open %s: %w", p, err)
				}
				h := sha256.New()
				buf := make([]byte, 32*1024)
				var total int64
				for {
					n, rerr := f.Read(buf)
					if n > 0 {
						h.Write(buf[:n])
						total += int64(n)
					}
					if rerr == io.EOF {
						break
					}
					if rerr != nil {
						f.Close()
						return fmt.Errorf("read %s: %w", p, rerr)
					}
					if n == 0 {
						f.Close()
						return fmt.Errorf("read %s: no progress", p)
					}
				}
				f.Close()
				out[p] = Item{Kind: KFile, Size: total, Sha: hex.EncodeToString(h.Sum(nil)[:8])}
			default:
				out[p] = Item{Kind: KOther}
			}
		}
		return nil
	}
	return out, rec(".")
}

// diffFlat compares two flattened trees; returns a sorted list of differences ("" = equal).
func diffFlat(want, got map[string]Item, withLinkTargets bool) []string {
	var d []string
	for p, w := range want {
		g, ok := got[p]
		if !ok {
			d = append(d, "missing "+p)
			continue
		}
		if w.Kind != g.Kind {
			d = append(d, fmt.Sprintf("kind %s want=%d got=%d", p, w.Kind, g.Kind))
			continue
		}
		if w.Kind == KFile && (w.Size != g.Size || w.Sha != g.Sha) {
			d = append(d, fmt.Sprintf("content %s want=%d/%s got=%d/%s", p, w.Size, w.Sha, g.Size, g.Sha))
		}
		if w.Kind == KLink && withLinkTargets && w.Target != g.Target {
			d = append(d, fmt.Sprintf("target %s want=%q got=%q", p, w.Target, g.Target))
		}
	}
	for p := range got {
		if _, ok := want[p]; !ok {
			d = append(d, "extra "+p)
		}
	}
	sort.Strings(d)
	return d
}
