package syncfs

import (
	"fmt"
	"io/fs"
	"strings"

	"verif/harness/internal/hx"
)

// ---------------------------------------------------------------------------------------------
// (2b) CompareFS on names that collide under normalisation
//
// ext4, squashfs, Rock Ridge, os directories and any in-memory fs.FS are case-sensitive: docs/readme.txt and
// docs/README.TXT are two entries, an extra Docs/ tree beside docs/ is an extra tree. The same holds for names
// that a normaliser would identify: a trailing dot or space, Unicode case pairs without an ASCII counterpart
// (Kelvin sign / k, long s / s, dotless i / I, sharp s / SS), composed and decomposed accents. CompareFS must
// treat all of them as different names (the Lean model compares names as strings); the generators here put
// such pairs into the compared trees: an extra variant in the target, an extra variant in the source, the
// same name in a different case with different content, and pairs present on both sides.

// foldKey is what a case-insensitive, dot/space-trimming, accent-composing normaliser would make of a name:
// two names with the same key are "colliding".
func foldKey(s string) string {
	s = strings.NewReplacer("\u212a", "k", "\u017f", "s", "\u0131", "i", "\u0130", "i", "\u00df", "ss", "e\u0301", "\u00e9").Replace(s)
	s = strings.ToLower(s)
	return strings.TrimRight(s, ". ")
}

// caseVariants lists names different from name that collide with it.
func caseVariants(name string) []string {
	var out []string
	add := func(v string) {
		if v == name || v == "" || v == "." || v == ".." || documentedExcluded[v] {
			return
		}
		for _, o := range out {
			if o == v {
				return
			}
		}
		out = append(out, v)
	}
	add(strings.ToUpper(name))
	add(strings.ToLower(name))
	if len(name) > 0 { // first letter only: Docs / docs
		add(strings.ToUpper(name[:1]) + name[1:])
		add(strings.ToLower(name[:1]) + name[1:])
	}
	add(name + ".")
	add(name + " ")
	add(name + "..")
	add(strings.Replace(name, "k", "\u212a", 1))       // KELVIN SIGN
	add(strings.Replace(name, "s", "\u017f", 1))       // LATIN SMALL LETTER LONG S
	add(strings.Replace(name, "i", "\u0131", 1))       // dotless i
	add(strings.Replace(name, "ss", "\u00df", 1))      // sharp s
	add(strings.Replace(name, "e", "e\u0301", 1))      // decomposed e-acute …
	add(strings.Replace(name, "e\u0301", "\u00e9", 1)) // … and the composed form
	add(strings.Replace(name, "e", "\u00e9", 1))
	return out
}

func pickVariant(r *hx.Rng, d *Node, name string) string {
	var free []string
	for _, v := range caseVariants(name) {
		if d.child(v) == nil {
			free = append(free, v)
		}
	}
	if len(free) == 0 {
		return ""
	}
	// ASCII case variants are the common case on real volumes: prefer them half of the time
	if r.Bool() && d.child(free[0]) == nil {
		return free[0]
	}
	return hx.Pick(r, free)
}

// collidingPairs lists the (x, y) sibling pairs of visible entries of the same kind whose names collide.
func collidingPairs(root *Node) [][2]entRef {
	var out [][2]entRef
	es := visibleEntries(root)
	for i, x := range es {
		for _, y := range es[i+1:] {
			if x.parent == y.parent && x.node.Kind == y.node.Kind && x.node.Name != y.node.Name && foldKey(x.node.Name) == foldKey(y.node.Name) {
				out = append(out, [2]entRef{x, y})
			}
		}
	}
	return out
}

// seedCollisions adds, beside k random visible entries, a sibling with a colliding name and different content.
func seedCollisions(r *hx.Rng, root *Node, k int) int {
	done := 0
	for try := 0; try < 4*k && done < k; try++ {
		es := visibleEntries(root)
		if len(es) == 0 {
			break
		}
		e := hx.Pick(r, es)
		if e.node.Kind != KFile && e.node.Kind != KDir {
			continue
		}
		v := pickVariant(r, e.parent, e.node.Name)
		if v == "" {
			continue
		}
		var c *Node
		if e.node.Kind == KDir {
			c = &Node{Name: v, Kind: KDir}
			if r.Bool() {
				c.Children = []*Node{{Name: "only-here.txt", Kind: KFile, Pat: 9, FlipPos: -1, Data: patData(1+r.Intn(300), 9)}}
			}
		} else {
			p := (e.node.Pat + 1 + r.Intn(200)) % 256
			sz := len(e.node.Data)
			if r.Bool() {
				sz = r.Intn(2000)
			}
			c = &Node{Name: v, Kind: KFile, Pat: p, FlipPos: -1, Data: patData(sz, p)}
		}
		e.parent.Children = append(e.parent.Children, c)
		done++
	}
	root.sortRec()
	return done
}

var caseMutations = []mutation{
	{name: "case-none", equal: true, apply: func(r *hx.Rng, root *Node) string {
		if len(collidingPairs(root)) == 0 {
			return ""
		}
		return fmt.Sprintf("identical, %d colliding pairs on both sides", len(collidingPairs(root)))
	}},
	{name: "case-extra-file", apply: func(r *hx.Rng, root *Node) string {
		e := pickFile(r, root, 0)
		if e == nil {
			return ""
		}
		v := pickVariant(r, e.parent, e.node.Name)
		if v == "" {
			return ""
		}
		c := *e.node // same content: only the name tells them apart
		c.Name = v
		c.Data = append([]byte(nil), e.node.Data...)
		e.parent.Children = append(e.parent.Children, &c)
		e.parent.sortRec()
		return fmt.Sprintf("added %q beside %s (same content)", v, e.path)
	}},
	{name: "case-extra-dir", apply: func(r *hx.Rng, root *Node) string {
		var ds []entRef
		for _, e := range visibleEntries(root) {
			if e.node.Kind == KDir {
				ds = append(ds, e)
			}
		}
		if len(ds) == 0 {
			return ""
		}
		e := hx.Pick(r, ds)
		v := pickVariant(r, e.parent, e.node.Name)
		if v == "" {
			return ""
		}
		c := e.node.clone() // an extra Docs/ tree with the same content as docs/
		c.Name = v
		e.parent.Children = append(e.parent.Children, c)
		e.parent.sortRec()
		return fmt.Sprintf("added tree %q beside %s (same content)", v, e.path)
	}},
	{name: "case-rename", apply: func(r *hx.Rng, root *Node) string {
		es := visibleEntries(root)
		if len(es) == 0 {
			return ""
		}
		e := hx.Pick(r, es)
		if e.node.Kind != KFile && e.node.Kind != KDir {
			return ""
		}
		v := pickVariant(r, e.parent, e.node.Name)
		if v == "" {
			return ""
		}
		e.node.Name = v
		e.parent.sortRec()
		return fmt.Sprintf("%s is called %q", e.path, v)
	}},
	{name: "case-swap-content", apply: func(r *hx.Rng, root *Node) string {
		var ps [][2]entRef
		for _, p := range collidingPairs(root) {
			if p[0].node.Kind == KFile && string(p[0].node.Data) != string(p[1].node.Data) {
				ps = append(ps, p)
			}
		}
		if len(ps) == 0 {
			return ""
		}
		p := hx.Pick(r, ps)
		x, y := p[0].node, p[1].node
		x.Data, y.Data = y.Data, x.Data
		x.Pat, y.Pat = y.Pat, x.Pat
		x.FlipPos, y.FlipPos = y.FlipPos, x.FlipPos
		x.FlipVal, y.FlipVal = y.FlipVal, x.FlipVal
		return fmt.Sprintf("contents of %s and %s exchanged", p[0].path, p[1].path)
	}},
	{name: "case-drop-one", apply: func(r *hx.Rng, root *Node) string {
		ps := collidingPairs(root)
		if len(ps) == 0 {
			return ""
		}
		p := hx.Pick(r, ps)
		e := p[r.Intn(2)]
		removeChild(e.parent, e.node)
		return fmt.Sprintf("removed %s, its colliding sibling stays", e.path)
	}},
}

// realTargets: case-sensitive filesystems of the library (and an os directory) holding the second tree
var realTargets = []string{"ext4", "squashfs", "osdir"}

func partCaseCollision(c *hx.Ctx) {
	n := c.N(16, 400)
	for i := 0; i < n; i++ {
		base := fmt.Sprintf("case/%d", i)
		r := c.Rng.Fork()
		if !wantTree(c, base) {
			continue
		}
		o := genOpts{budget: 24 << 10, maxFile: 3000, depth: 3, maxEnts: 12, longNames: true, pattern: true}
		a := genTree(r, o)
		if len(visibleDirs(a)) < 2 { // make sure there is a docs/ to shadow
			a.Children = append(a.Children, &Node{Name: "docs", Kind: KDir, Children: []*Node{
				{Name: "readme.txt", Kind: KFile, Pat: 5, FlipPos: -1, Data: patData(40+r.Intn(400), 5)}}})
			a.sortRec()
		}
		seeded := 0
		if i%2 == 1 {
			seeded = seedCollisions(r, a, 1+r.Intn(3))
		}
		for _, m := range caseMutations {
			id := fmt.Sprintf("%s/%s", base, m.name)
			mr := r.Fork()
			if !wantTree(c, id) {
				continue
			}
			b := a.clone()
			what := m.apply(mr, b)
			if what == "" {
				c.Stat("case_collision/not-applicable/" + m.name)
				continue
			}
			// in-memory fs.FS on both sides: correspondence with the model + the harness's own diff
			for dir := 0; dir < 2; dir++ {
				x, y, did := a, b, id+"/ab"
				if dir == 1 {
					x, y, did = b, a, id+"/ba"
					if m.equal {
						continue
					}
				}
				if !c.Want(did) {
					continue
				}
				desc := fmt.Sprintf("mutation=%s (%s) seeded-pairs=%d orig=%s target=%s", m.name, what, seeded, x.encode(), y.encode())
				verdict, perr := compareOnce(x.toMapFS(), y.toMapFS())
				if perr != nil {
					c.Fail(did, "-", perr.Error(), desc)
					continue
				}
				c.Case(did, "syncfs.compare", "ra=full|0", "rb=full|0", "a="+x.encode(), "b="+y.encode())
				c.Impl(did, "res="+verdict)
				judgeCompare(c, did, x, y, m.equal, verdict, what, desc)
				c.Stat("case_collision")
				c.Stat("case_collision/" + m.name)
				c.Distinct("case:" + desc)
				if dir == 0 {
					c.Sample(fmt.Sprintf("compare %s (%s) verdict=%s", m.name, what, verdict))
				}
			}
			// the second tree on a real case-sensitive filesystem, compared in both orders (oracle only: the
			// order in which such a filesystem lists a directory is its own)
			if i%4 < 2 {
				kind := realTargets[(i/4+len(m.name))%len(realTargets)]
				rid := id + "/" + kind
				if !wantTree(c, rid) {
					continue
				}
				caseReal(c, rid, kind, a, b, m, what)
			}
		}
	}
}

// judgeCompare: the harness's own diff decides what the truth is.
func judgeCompare(c *hx.Ctx, did string, x, y *Node, wantEqual bool, verdict, what, desc string) {
	wa, wb := map[string]Item{}, map[string]Item{}
	x.stripExcluded().flatten("", wa)
	y.stripExcluded().flatten("", wb)
	same := len(diffFlat(wa, wb, true)) == 0
	switch {
	case same != wantEqual:
		c.Fail(did, "-", "harness error: mutation did not have the intended effect", desc)
	case same && verdict != "ok":
		c.Fail(did, "-", "CompareFS reports "+verdict+" on trees that are equal (apart from excluded names)", desc)
	case !same && verdict == "ok":
		c.Fail(did, "-", "CompareFS returned nil although the trees differ: "+what, desc)
	default:
		c.OK(did)
	}
}

func caseReal(c *hx.Ctx, rid, kind string, a, b *Node, m mutation, what string) {
	desc := fmt.Sprintf("mutation=%s (%s) in-memory tree=%s %s tree=%s", m.name, what, a.encode(), kind, b.encode())
	h, err := buildSource(kind, b, c.Scratch)
	if err != nil {
		c.Note("%s: cannot build the %s tree (not this property's failure): %v", rid, kind, err)
		c.Stat("case_collision/real-build-failed/" + kind)
		return
	}
	defer h.cleanup()
	// the truth is what the harness itself reads from the real filesystem
	snap, err := snapshot(h.fsys)
	if err != nil {
		c.Note("%s: cannot read the %s tree back: %v", rid, kind, err)
		c.Stat("case_collision/real-unreadable/" + kind)
		return
	}
	wb := map[string]Item{}
	b.stripExcluded().flatten("", wb)
	if d := diffFlat(wb, expectedFromSnapshot(snap, false), false); len(d) > 0 {
		// the filesystem does not hold the colliding names as given (owned by that filesystem's properties)
		c.Note("%s: the %s tree differs from what was put in: %s", rid, kind, strings.Join(first(d, 3), "; "))
		c.Stat("case_collision/real-differs/" + kind)
		return
	}
	wa := map[string]Item{}
	a.stripExcluded().flatten("", wa)
	same := len(diffFlat(wa, wb, false)) == 0
	for dir := 0; dir < 2; dir++ {
		var x, y fs.FS = a.toMapFS(), h.fsys
		did := rid + "/mem-real"
		if dir == 1 {
			x, y = y, x
			did = rid + "/real-mem"
		}
		if !c.Want(did) {
			continue
		}
		verdict, perr := compareOnce(x, y)
		switch {
		case perr != nil:
			c.Fail(did, "-", perr.Error(), desc)
		case same && verdict != "ok":
			c.Fail(did, "-", "CompareFS reports "+verdict+" on trees that are equal", desc)
		case !same && verdict == "ok":
			c.Fail(did, "-", "CompareFS returned nil although the trees differ: "+what, desc)
		default:
			c.OK(did)
		}
		c.Stat("case_collision")
		c.Stat("case_collision/real/" + kind)
		c.Distinct("case-real:" + did + desc)
	}
}
