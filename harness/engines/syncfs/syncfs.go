package syncfs

import (
	"crypto/sha256"
	"encoding/hex"
	"fmt"
	"io"
	"io/fs"
	"os"
	"path/filepath"
	"regexp"
	"strings"
	"time"

	dsync "github.com/diskfs/go-diskfs/sync"

	"verif/harness/internal/hx"
)

// Run is the engine entry point.
func Run(c *hx.Ctx) {
	partCopyLog(c)
	partCopyFault(c)
	partCompare(c)
	partBig(c)
	partBigSynth(c)
	partBigFault(c)
	partPairs(c)
	partCaseCollision(c)
	partKnown(c)
}

// wantTree: the case id, something below it, or something above it is selected (replay filter)
func wantTree(c *hx.Ctx, id string) bool {
	return c.Want(id) || strings.HasPrefix(c.Only, id+"/")
}

func safely(f func()) (perr error) {
	defer func() {
		if e := recover(); e != nil {
			perr = fmt.Errorf("panic: %v", e)
		}
	}()
	f()
	return nil
}

// ---------------------------------------------------------------------------------------------
// (1) CopyFileSystem into the recording filesystem: op log vs the model, recorded tree vs the source

// noReadLinkFS hides everything but Open (so the source does not support reading symlinks).
type noReadLinkFS struct{ inner fs.FS }

func (n noReadLinkFS) Open(name string) (fs.File, error) { return n.inner.Open(name) }

func partCopyLog(c *hx.Ctx) {
	n := c.N(140, 4000)
	for i := 0; i < n; i++ {
		id := fmt.Sprintf("copy/%d", i)
		r := c.Rng.Fork()
		if !c.Want(id) {
			continue
		}
		srcKind := "mapfs"
		if i%4 == 3 {
			srcKind = "osdir"
		}
		o := genOpts{budget: 260 << 10, maxFile: 100000, depth: 3, maxEnts: 30, longNames: true, pattern: true,
			links: r.Chance(45), others: r.Chance(35)}
		if i < 6 { // small boundary trees first
			o.maxEnts = 2 + i
		}
		tree := genTree(r, o)
		if i == 0 {
			tree = &Node{Name: ".", Kind: KDir} // empty source
		}
		_, _, nl, _, _ := tree.count()
		readlink := true
		if nl > 0 && r.Chance(25) {
			readlink = false
		}
		failChtimes := r.Chance(15)
		desc := fmt.Sprintf("src=%s readlink=%v failChtimes=%v tree=%s", srcKind, readlink, failChtimes, tree.encode())
		src, err := buildSource(srcKind, tree, c.Scratch)
		if err != nil {
			c.Note("%s: cannot build source: %v", id, err)
			c.Stat("source-build-failed/" + srcKind)
			continue
		}
		var sfs fs.FS = src.fsys
		if !readlink {
			sfs = noReadLinkFS{src.fsys}
		}
		rf := newRecFS()
		if failChtimes {
			rf.FailOn = "chtimes"
		}
		var cerr error
		if perr := safely(func() { cerr = dsync.CopyFileSystem(sfs, rf) }); perr != nil {
			c.Fail(id, "-", perr.Error(), desc)
			src.cleanup()
			continue
		}
		src.cleanup()
		// D: op log
		rl := "1"
		if !readlink {
			rl = "0"
		}
		okStr := "1"
		if cerr != nil {
			okStr = "0"
		}
		ops := "-"
		if len(rf.Log) > 0 {
			ops = strings.Join(rf.Log, ";")
		}
		c.Case(id, "syncfs.copy", "readlink="+rl, "tree="+tree.encode())
		c.Impl(id, "ok="+okStr, "ops="+ops)
		// S: independent oracle
		var problems []string
		expectErr := !readlink && nl > 0 && hasNonExcludedLink(tree)
		if expectErr {
			if cerr == nil {
				problems = append(problems, "source cannot read symlinks but CopyFileSystem reported success")
			}
			c.Stat("copy/readlink-unsupported")
		} else {
			if cerr != nil {
				problems = append(problems, "CopyFileSystem failed: "+cerr.Error())
			}
			want := map[string]Item{}
			tree.expectedCopy().flatten("", want)
			if d := diffFlat(want, rf.flat(), true); len(d) > 0 {
				problems = append(problems, "destination differs from source minus excluded names: "+strings.Join(first(d, 6), "; "))
			}
			if !failChtimes {
				for p, it := range want {
					if it.Kind == KFile && !rf.Mtimes[p].Equal(baseTime) {
						problems = append(problems, fmt.Sprintf("mtime of %s not restored: %v", p, rf.Mtimes[p]))
						break
					}
				}
			}
		}
		if len(problems) > 0 {
			c.Fail(id, "-", strings.Join(problems, " | "), desc)
		} else {
			c.OK(id)
		}
		nf, nd, _, no, nb := tree.count()
		c.Stat("copy/src=" + srcKind)
		if failChtimes {
			c.Stat("copy/chtimes-fails")
		}
		if nl > 0 {
			c.Stat("copy/with-symlinks")
		}
		if no > 0 {
			c.Stat("copy/with-special-files")
		}
		if hasExcluded(tree) {
			c.Stat("copy/with-excluded-names")
		}
		if nf+nd > 0 {
			c.Distinct("copy:" + desc)
		}
		c.Sample(fmt.Sprintf("copy %s files=%d dirs=%d links=%d bytes=%d ops=%d tree=%s", srcKind, nf, nd, nl, nb, len(rf.Log), clip(tree.encode(), 300)))
	}
}

func clip(s string, n int) string {
	if len(s) > n {
		return s[:n] + "…"
	}
	return s
}

func first(d []string, n int) []string {
	if len(d) > n {
		return d[:n]
	}
	return d
}

func hasExcluded(n *Node) bool {
	for _, c := range n.Children {
		if documentedExcluded[c.Name] || (c.Kind == KDir && hasExcluded(c)) {
			return true
		}
	}
	return false
}

func hasNonExcludedLink(n *Node) bool {
	for _, c := range n.Children {
		if documentedExcluded[c.Name] {
			continue
		}
		if c.Kind == KLink || (c.Kind == KDir && hasNonExcludedLink(c)) {
			return true
		}
	}
	return false
}

// ---------------------------------------------------------------------------------------------
// (2) CompareFS on in-memory trees

// chunkFS wraps an fs.FS so that regular files deliver their bytes in pieces: the k-th Read returns at
// most caps[k mod len(caps)] bytes (at least 1), and io.EOF comes with the last bytes iff eofWith.
type chunkFS struct {
	inner   fs.FS
	caps    []int
	eofWith bool
}

func (c chunkFS) Open(name string) (fs.File, error) {
	f, err := c.inner.Open(name)
	if err != nil {
		return nil, err
	}
	st, err := f.Stat()
	if err != nil || st.IsDir() {
		return f, nil
	}
	data, err := io.ReadAll(f)
	f.Close()
	if err != nil {
		return nil, err
	}
	return &chunkFile{st: st, data: data, caps: c.caps, eofWith: c.eofWith}, nil
}
func (c chunkFS) ReadDir(name string) ([]fs.DirEntry, error) { return fs.ReadDir(c.inner, name) }
func (c chunkFS) Stat(name string) (fs.FileInfo, error)      { return fs.Stat(c.inner, name) }

type chunkFile struct {
	st      fs.FileInfo
	data    []byte
	caps    []int
	eofWith bool
	call    int
}

func (f *chunkFile) Stat() (fs.FileInfo, error) { return f.st, nil }
func (f *chunkFile) Close() error               { return nil }
func (f *chunkFile) Read(b []byte) (int, error) {
	if len(f.data) == 0 {
		return 0, io.EOF
	}
	n := len(b)
	if len(f.caps) > 0 {
		k := f.caps[f.call%len(f.caps)]
		if k < 1 {
			k = 1
		}
		if k < n {
			n = k
		}
	}
	f.call++
	if n > len(f.data) {
		n = len(f.data)
	}
	copy(b, f.data[:n])
	f.data = f.data[n:]
	if len(f.data) == 0 && f.eofWith {
		return n, io.EOF
	}
	return n, nil
}

type behaviour struct {
	caps    []int
	eofWith bool
}

func (b behaviour) String() string {
	s := "full"
	if len(b.caps) > 0 {
		p := make([]string, len(b.caps))
		for i, x := range b.caps {
			p[i] = fmt.Sprint(x)
		}
		s = strings.Join(p, ",")
	}
	if b.eofWith {
		return s + "|1"
	}
	return s + "|0"
}
func (b behaviour) full() bool { return len(b.caps) == 0 }

var cmpErrRe = []struct {
	kind string
	re   *regexp.Regexp
}{
	{"missing", regexp.MustCompile(`^path "(.*)" missing in target FS`)},
	{"type", regexp.MustCompile(`^type mismatch at "(.*)"$`)},
	{"size", regexp.MustCompile(`^size mismatch at "(.*)"$`)},
	{"content", regexp.MustCompile(`^content mismatch at "(.*)"$`)},
	{"extra", regexp.MustCompile(`^extra path "(.*)" in target FS$`)},
}

// canonical verdict of CompareFS: ok | <kind>:<path> | other:<text>
func canonCmp(err error) string {
	if err == nil {
		return "ok"
	}
	s := err.Error()
	for _, k := range cmpErrRe {
		if m := k.re.FindStringSubmatch(s); m != nil {
			return k.kind + ":" + m[1]
		}
	}
	return "other:" + s
}

// a mutation of tree b at one point; returns a description, or "" when it does not apply.
type mutation struct {
	name  string
	apply func(r *hx.Rng, root *Node) string
	equal bool // the mutation leaves the trees equal as far as the property is concerned
}

// allEntries lists (parent, child, path) of every entry that is not inside / itself an excluded name.
type entRef struct {
	parent *Node
	node   *Node
	path   string
}

func visibleEntries(root *Node) []entRef {
	var out []entRef
	var rec func(d *Node, prefix string)
	rec = func(d *Node, prefix string) {
		for _, c := range d.Children {
			if documentedExcluded[c.Name] {
				continue
			}
			p := c.Name
			if prefix != "" {
				p = prefix + "/" + c.Name
			}
			out = append(out, entRef{d, c, p})
			if c.Kind == KDir {
				rec(c, p)
			}
		}
	}
	rec(root, "")
	return out
}

func visibleDirs(root *Node) []entRef {
	out := []entRef{{nil, root, "."}}
	for _, e := range visibleEntries(root) {
		if e.node.Kind == KDir {
			out = append(out, e)
		}
	}
	return out
}

func pickFile(r *hx.Rng, root *Node, minSize int) *entRef {
	var fs []entRef
	for _, e := range visibleEntries(root) {
		if e.node.Kind == KFile && len(e.node.Data) >= minSize {
			fs = append(fs, e)
		}
	}
	if len(fs) == 0 {
		return nil
	}
	e := hx.Pick(r, fs)
	return &e
}

func removeChild(d *Node, c *Node) {
	for i, x := range d.Children {
		if x == c {
			d.Children = append(d.Children[:i:i], d.Children[i+1:]...)
			return
		}
	}
}

func flipByte(where string) func(r *hx.Rng, root *Node) string {
	return func(r *hx.Rng, root *Node) string {
		min := 1
		switch where {
		case "buf-1", "buf", "buf+1":
			min = 32770
		case "lastpartial":
			min = 32769
		}
		e := pickFile(r, root, min)
		if e == nil {
			return ""
		}
		n := len(e.node.Data)
		var pos int
		switch where {
		case "first":
			pos = 0
		case "last":
			pos = n - 1
		case "buf-1":
			pos = 32767
		case "buf":
			pos = 32768
		case "buf+1":
			pos = 32769
		case "lastpartial":
			pos = (n-1)/32768*32768 + r.Intn(n-(n-1)/32768*32768)
		default:
			pos = r.Intn(n)
		}
		e.node.Data = append([]byte(nil), e.node.Data...)
		e.node.Data[pos] ^= byte(1 + r.Intn(255))
		e.node.FlipPos, e.node.FlipVal = pos, int(e.node.Data[pos])
		return fmt.Sprintf("%s byte %d of %d", e.path, pos, n)
	}
}

var mutations = []mutation{
	{name: "none", equal: true, apply: func(r *hx.Rng, root *Node) string { return "identical" }},
	{name: "byte-first", apply: flipByte("first")},
	{name: "byte-last", apply: flipByte("last")},
	{name: "byte-32767", apply: flipByte("buf-1")},
	{name: "byte-32768", apply: flipByte("buf")},
	{name: "byte-32769", apply: flipByte("buf+1")},
	{name: "byte-lastpartial", apply: flipByte("lastpartial")},
	{name: "byte-random", apply: flipByte("random")},
	{name: "len+1", apply: func(r *hx.Rng, root *Node) string {
		e := pickFile(r, root, 0)
		if e == nil {
			return ""
		}
		e.node.Data = patData(len(e.node.Data)+1, e.node.Pat) // same prefix, one more byte
		return fmt.Sprintf("%s grown to %d", e.path, len(e.node.Data))
	}},
	{name: "len-1", apply: func(r *hx.Rng, root *Node) string {
		e := pickFile(r, root, 1)
		if e == nil {
			return ""
		}
		e.node.Data = patData(len(e.node.Data)-1, e.node.Pat) // same prefix, one byte fewer
		return fmt.Sprintf("%s shrunk to %d", e.path, len(e.node.Data))
	}},
	{name: "missing", apply: func(r *hx.Rng, root *Node) string {
		es := visibleEntries(root)
		if len(es) == 0 {
			return ""
		}
		e := hx.Pick(r, es)
		removeChild(e.parent, e.node)
		return "removed " + e.path
	}},
	{name: "missing-leaf", apply: func(r *hx.Rng, root *Node) string {
		var es []entRef
		for _, e := range visibleEntries(root) {
			if e.node.Kind == KFile || len(e.node.Children) == 0 {
				es = append(es, e)
			}
		}
		if len(es) == 0 {
			return ""
		}
		e := hx.Pick(r, es)
		removeChild(e.parent, e.node)
		return "removed leaf " + e.path
	}},
	{name: "extra", apply: func(r *hx.Rng, root *Node) string {
		d := hx.Pick(r, visibleDirs(root))
		name := hx.Pick(r, []string{"0extra", "extra.bin", "zzz-extra", "m-extra"})
		if d.node.child(name) != nil {
			return ""
		}
		var c *Node
		switch r.Intn(3) {
		case 0:
			c = &Node{Name: name, Kind: KDir}
		case 1:
			c = &Node{Name: name, Kind: KFile, Pat: 0, FlipPos: -1}
		default:
			c = &Node{Name: name, Kind: KFile, Pat: 7, FlipPos: -1, Data: patData(1+r.Intn(500), 7)}
		}
		d.node.Children = append(d.node.Children, c)
		d.node.sortRec()
		return fmt.Sprintf("added %s in %s (kind %d)", name, d.path, c.Kind)
	}},
	{name: "file-to-dir", apply: func(r *hx.Rng, root *Node) string {
		e := pickFile(r, root, 0)
		if e == nil {
			return ""
		}
		sz := len(e.node.Data)
		e.node.Kind, e.node.Data, e.node.Pat = KDir, nil, 0
		return fmt.Sprintf("%s (size %d) became an empty directory", e.path, sz)
	}},
	{name: "dir-to-file", apply: func(r *hx.Rng, root *Node) string {
		var ds []entRef
		for _, e := range visibleEntries(root) {
			if e.node.Kind == KDir {
				ds = append(ds, e)
			}
		}
		if len(ds) == 0 {
			return ""
		}
		e := hx.Pick(r, ds)
		e.node.Kind, e.node.Children = KFile, nil
		e.node.Pat, e.node.FlipPos = 3, -1
		e.node.Data = patData(r.Intn(3)*100, 3)
		return fmt.Sprintf("directory %s became a file of %d bytes", e.path, len(e.node.Data))
	}},
	// differences that only concern excluded names: the trees are equal for the property
	{name: "excluded-extra", equal: true, apply: func(r *hx.Rng, root *Node) string {
		d := hx.Pick(r, visibleDirs(root))
		name := hx.Pick(r, exclNames)
		if d.node.child(name) != nil {
			return ""
		}
		c := &Node{Name: name, Kind: KDir, Children: []*Node{{Name: "inside", Kind: KFile, Pat: 1, FlipPos: -1, Data: patData(10, 1)}}}
		if r.Bool() {
			c = &Node{Name: name, Kind: KFile, Pat: 2, FlipPos: -1, Data: patData(20, 2)}
		}
		d.node.Children = append(d.node.Children, c)
		d.node.sortRec()
		return "added excluded " + name + " in " + d.path
	}},
	{name: "excluded-removed", equal: true, apply: func(r *hx.Rng, root *Node) string {
		var found *entRef
		var rec func(d *Node, prefix string)
		rec = func(d *Node, prefix string) {
			for _, c := range d.Children {
				if found != nil {
					return
				}
				if documentedExcluded[c.Name] {
					found = &entRef{d, c, prefix + "/" + c.Name}
					return
				}
				if c.Kind == KDir {
					rec(c, prefix+"/"+c.Name)
				}
			}
		}
		rec(root, "")
		if found == nil {
			return ""
		}
		removeChild(found.parent, found.node)
		return "removed excluded " + found.path
	}},
}

func compareOnce(a, b fs.FS) (verdict string, perr error) {
	var err error
	perr = safely(func() { err = dsync.CompareFS(a, b) })
	return canonCmp(err), perr
}

func partCompare(c *hx.Ctx) {
	n := c.N(18, 500)
	for i := 0; i < n; i++ {
		base := fmt.Sprintf("cmp/%d", i)
		r := c.Rng.Fork()
		if !wantTree(c, base) {
			continue
		}
		o := genOpts{budget: 330 << 10, maxFile: 100000, depth: 3, maxEnts: 16, longNames: true, pattern: true}
		a := genTree(r, o)
		// make sure files around the buffer boundaries exist in most trees
		if i%3 != 2 {
			for k, sz := range []int{32768 + r.Intn(3) - 1, 65536 + r.Intn(3) - 1, 70000 + r.Intn(20000)} {
				name := fmt.Sprintf("big%d.bin", k)
				if a.child(name) == nil {
					p := r.Intn(256)
					a.Children = append(a.Children, &Node{Name: name, Kind: KFile, Pat: p, FlipPos: -1, Data: patData(sz, p)})
				}
			}
			a.sortRec()
		}
		if i == 0 {
			a = &Node{Name: ".", Kind: KDir}
		}
		for mi, m := range mutations {
			id := fmt.Sprintf("%s/%s", base, m.name)
			mr := r.Fork()
			if !wantTree(c, id) {
				continue
			}
			b := a.clone()
			what := m.apply(mr, b)
			if what == "" {
				c.Stat("cmp/mutation-not-applicable/" + m.name)
				continue
			}
			for dir := 0; dir < 2; dir++ {
				x, y := a, b
				did := id + "/ab"
				if dir == 1 {
					x, y = b, a
					did = id + "/ba"
					if m.name == "none" {
						continue
					}
				}
				if !c.Want(did) {
					continue
				}
				desc := fmt.Sprintf("mutation=%s (%s) orig=%s target=%s", m.name, what, x.encode(), y.encode())
				verdict, perr := compareOnce(x.toMapFS(), y.toMapFS())
				if perr != nil {
					c.Fail(did, "-", perr.Error(), desc)
					continue
				}
				c.Case(did, "syncfs.compare", "ra=full|0", "rb=full|0", "a="+x.encode(), "b="+y.encode())
				c.Impl(did, "res="+verdict)
				// S: the harness's own diff decides what the truth is
				wa, wb := map[string]Item{}, map[string]Item{}
				x.stripExcluded().flatten("", wa)
				y.stripExcluded().flatten("", wb)
				same := len(diffFlat(wa, wb, true)) == 0
				if same != m.equal {
					c.Fail(did, "-", "harness error: mutation did not have the intended effect", desc)
					continue
				}
				switch {
				case same && verdict != "ok":
					c.Fail(did, "-", "CompareFS reports "+verdict+" on trees that are equal (apart from excluded names)", desc)
				case !same && verdict == "ok":
					c.Fail(did, "-", "CompareFS returned nil although the trees differ: "+what, desc)
				default:
					c.OK(did)
				}
				c.Stat("cmp/" + m.name)
				c.Distinct("cmp:" + desc)
				if mi > 0 && dir == 0 {
					c.Sample(fmt.Sprintf("compare mutation=%s (%s) verdict=%s", m.name, what, verdict))
				}
			}
		}
		// reader chunking: same trees through readers that deliver short reads. No verdict is demanded
		// by the property here (FullReads is the documented hypothesis) — correspondence with the model only,
		// except that identical behaviour on both sides must still give the right answer.
		if !wantTree(c, base+"/chunk") {
			continue
		}
		behs := []behaviour{{}, {eofWith: true}, {caps: []int{32768}}, {caps: []int{1000}, eofWith: true}, {caps: []int{32767}},
			{caps: []int{5, 70000, 123}}, {caps: []int{16384, 32768}}, {caps: []int{1 + r.Intn(40000)}, eofWith: r.Bool()}}
		for k := 0; k < c.N(4, 10); k++ {
			did := fmt.Sprintf("%s/chunk/%d", base, k)
			r := r.Fork()
			if !c.Want(did) {
				continue
			}
			ra, rb := hx.Pick(r, behs), hx.Pick(r, behs)
			if k == 0 {
				rb = ra
			}
			b := a.clone()
			what := "identical"
			if r.Chance(30) {
				if w := flipByte("random")(r, b); w != "" {
					what = w
				}
			}
			desc := fmt.Sprintf("chunking ra=%s rb=%s (%s) orig=%s target=%s", ra, rb, what, a.encode(), b.encode())
			verdict, perr := compareOnce(chunkFS{a.toMapFS(), ra.caps, ra.eofWith}, chunkFS{b.toMapFS(), rb.caps, rb.eofWith})
			if perr != nil {
				c.Fail(did, "-", perr.Error(), desc)
				continue
			}
			c.Case(did, "syncfs.compare", "ra="+ra.String(), "rb="+rb.String(), "a="+a.encode(), "b="+b.encode())
			c.Impl(did, "res="+verdict)
			sameBeh := ra.String() == rb.String() || (effFull(ra) && effFull(rb))
			if sameBeh {
				if (verdict == "ok") != (what == "identical") {
					c.Fail(did, "-", fmt.Sprintf("readers with the same chunking: CompareFS says %s but trees are: %s", verdict, what), desc)
				} else {
					c.OK(did)
				}
				c.Stat("cmp/chunking-same")
			} else {
				if what == "identical" && verdict != "ok" {
					c.Stat("cmp/chunking-differs-false-mismatch")
				} else {
					c.Stat("cmp/chunking-differs-right-answer")
				}
			}
		}
	}
}

// effFull: the behaviour returns full buffers (caps >= 32 KiB everywhere)
func effFull(b behaviour) bool {
	for _, k := range b.caps {
		if k < 32768 {
			return false
		}
	}
	return true
}

// synthFS is a source holding one directory "d" with one large file "big.img" whose bytes are a function of
// the index (never materialised) and whose Read follows a behaviour (short reads, EOF with the last bytes).
type synthFS struct {
	size int64
	beh  behaviour
}

func synthByte(i int64) byte { return byte(i*131 + i/4096*7 + i/(1<<20)) }

type synthInfo struct {
	name string
	size int64
	dir  bool
}

func (i synthInfo) Name() string { return i.name }
func (i synthInfo) Size() int64  { return i.size }
func (i synthInfo) Mode() fs.FileMode {
	if i.dir {
		return fs.ModeDir | 0o755
	}
	return 0o644
}
func (i synthInfo) ModTime() time.Time { return baseTime }
func (i synthInfo) IsDir() bool        { return i.dir }
func (i synthInfo) Sys() any           { return nil }

type synthDir struct {
	info synthInfo
	ents []fs.DirEntry
	done bool
}

func (d *synthDir) Stat() (fs.FileInfo, error) { return d.info, nil }
func (d *synthDir) Read([]byte) (int, error)   { return 0, fmt.Errorf("is a directory") }
func (d *synthDir) Close() error               { return nil }
func (d *synthDir) ReadDir(n int) ([]fs.DirEntry, error) {
	if d.done {
		if n > 0 {
			return nil, io.EOF
		}
		return nil, nil
	}
	d.done = true
	return d.ents, nil
}

type synthFile struct {
	info synthInfo
	off  int64
	beh  behaviour
	call int
}

func (f *synthFile) Stat() (fs.FileInfo, error) { return f.info, nil }
func (f *synthFile) Close() error               { return nil }
func (f *synthFile) Read(b []byte) (int, error) {
	rem := f.info.size - f.off
	if rem <= 0 {
		return 0, io.EOF
	}
	n := int64(len(b))
	if len(f.beh.caps) > 0 {
		k := int64(f.beh.caps[f.call%len(f.beh.caps)])
		if k < 1 {
			k = 1
		}
		if k < n {
			n = k
		}
	}
	f.call++
	if n > rem {
		n = rem
	}
	for i := int64(0); i < n; i++ {
		b[i] = synthByte(f.off + i)
	}
	f.off += n
	if f.off == f.info.size && f.beh.eofWith {
		return int(n), io.EOF
	}
	return int(n), nil
}

func (s synthFS) Open(name string) (fs.File, error) {
	file := synthInfo{name: "big.img", size: s.size}
	dir := synthInfo{name: "d", dir: true}
	switch name {
	case ".":
		return &synthDir{info: synthInfo{name: ".", dir: true}, ents: []fs.DirEntry{fs.FileInfoToDirEntry(dir)}}, nil
	case "d":
		return &synthDir{info: dir, ents: []fs.DirEntry{fs.FileInfoToDirEntry(file)}}, nil
	case "d/big.img":
		return &synthFile{info: file, beh: s.beh}, nil
	}
	return nil, &fs.PathError{Op: "open", Path: name, Err: fs.ErrNotExist}
}

// bigSummary reduces the write log of d/big.img to what the model prints.
func bigSummary(rf *recFS) (nw int, full, sum int64, last, maxw int) {
	for _, l := range rf.Log {
		if !strings.HasPrefix(l, "write:d/big.img:") {
			continue
		}
		var w int
		fmt.Sscanf(strings.TrimPrefix(l, "write:d/big.img:"), "%d", &w)
		nw++
		sum += int64(w)
		if w == 32768 {
			full++
		}
		if w > maxw {
			maxw = w
		}
		last = w
	}
	return
}

// partBigSynth: the streaming path fed by readers with short reads / EOF delivered with the last bytes.
func partBigSynth(c *hx.Ctx) {
	type sc struct {
		size int64
		beh  behaviour
	}
	cases := []sc{
		{documentedMax + 4097, behaviour{eofWith: true}},
		{documentedMax + 70001, behaviour{caps: []int{5000, 40000, 32768, 1}, eofWith: true}},
	}
	if c.Thorough() {
		cases = append(cases,
			sc{documentedMax + 1, behaviour{eofWith: true}},
			sc{documentedMax + 32768, behaviour{caps: []int{32768}, eofWith: true}},
			sc{documentedMax + 32769, behaviour{caps: []int{16384}}},
			sc{documentedMax + 99999, behaviour{caps: []int{32767, 1, 32768}}},
			sc{documentedMax, behaviour{caps: []int{1000}, eofWith: true}}, // at the threshold: whole-file path through io.ReadAll
		)
	}
	for i, k := range cases {
		id := fmt.Sprintf("bigsynth/%d", i)
		if !c.Want(id) {
			continue
		}
		desc := fmt.Sprintf("synthetic %d-byte file read with behaviour %s -> recording filesystem", k.size, k.beh)
		rf := newRecFS()
		rf.HashOnly = true
		var cerr error
		if perr := safely(func() { cerr = dsync.CopyFileSystem(synthFS{k.size, k.beh}, rf) }); perr != nil {
			c.Fail(id, "-", perr.Error(), desc)
			continue
		}
		h := sha256.New()
		buf := make([]byte, 1<<20)
		for off := int64(0); off < k.size; {
			n := int64(len(buf))
			if n > k.size-off {
				n = k.size - off
			}
			for j := int64(0); j < n; j++ {
				buf[j] = synthByte(off + j)
			}
			h.Write(buf[:n])
			off += n
		}
		wantSha := hex.EncodeToString(h.Sum(nil)[:8])
		nw, full, sum, last, maxw := bigSummary(rf)
		c.Case(id, "syncfs.big", fmt.Sprintf("size=%d", k.size), "rb="+k.beh.String())
		c.Impl(id, fmt.Sprintf("writes=%d", nw), fmt.Sprintf("full=%d", full), fmt.Sprintf("last=%d", last), fmt.Sprintf("sum=%d", sum))
		var problems []string
		if cerr != nil {
			problems = append(problems, "CopyFileSystem failed: "+cerr.Error())
		}
		gotSize, gotSha := rf.fileSha("d/big.img")
		if gotSize != k.size || gotSha != wantSha {
			problems = append(problems, fmt.Sprintf("copied file is %d bytes sha %s, source is %d bytes sha %s", gotSize, gotSha, k.size, wantSha))
		}
		if k.size > documentedMax && maxw > 32768 {
			problems = append(problems, fmt.Sprintf("a file above the streaming threshold was written with a %d-byte write", maxw))
		}
		if len(problems) > 0 {
			c.Fail(id, "-", strings.Join(problems, " | "), desc)
		} else {
			c.OK(id)
		}
		c.Stat("big/synthetic-readers")
		c.Distinct("big:" + desc)
		c.Sample(fmt.Sprintf("%s: writes=%d sum=%d", desc, nw, sum))
	}
}

// ---------------------------------------------------------------------------------------------
// (3) the streaming path: a sparse file above maxCopyAllSize from an os directory

const documentedMax = 64 * 1024 * 1024

func partBig(c *hx.Ctx) {
	sizes := []int64{documentedMax + 5000}
	if c.Thorough() {
		sizes = []int64{documentedMax + 5000, documentedMax, documentedMax + 1, documentedMax + 32768, documentedMax + 32769, documentedMax - 1, documentedMax + 3*32768 - 1}
	}
	for i, size := range sizes {
		id := fmt.Sprintf("big/%d", i)
		if !c.Want(id) {
			continue
		}
		desc := fmt.Sprintf("sparse file of %d bytes in an os directory -> recording filesystem", size)
		dir, err := os.MkdirTemp(c.Scratch, "big")
		if err != nil {
			c.Note("%s: %v", id, err)
			continue
		}
		func() {
			defer os.RemoveAll(dir)
			if err := os.Mkdir(filepath.Join(dir, "d"), 0o755); err != nil {
				c.Note("%s: %v", id, err)
				return
			}
			p := filepath.Join(dir, "d", "big.img")
			f, err := os.Create(p)
			if err != nil {
				c.Note("%s: %v", id, err)
				return
			}
			marks := []int64{0, 1, 32767, 32768, documentedMax - 1, documentedMax, documentedMax + 1, size - 1, size - 2, size / 2}
			if err := f.Truncate(size); err != nil {
				f.Close()
				c.Note("%s: %v", id, err)
				return
			}
			for k, m := range marks {
				if m >= 0 && m < size {
					f.WriteAt([]byte{byte(0xA0 + k)}, m)
				}
			}
			f.Close()
			os.WriteFile(filepath.Join(dir, "small.txt"), []byte("small"), 0o644)
			// truth: the harness's own streaming hash of the source
			h := sha256.New()
			sf, _ := os.Open(p)
			io.Copy(h, sf)
			sf.Close()
			wantSha := hex.EncodeToString(h.Sum(nil)[:8])
			rf := newRecFS()
			rf.HashOnly = true
			var cerr error
			if perr := safely(func() { cerr = dsync.CopyFileSystem(os.DirFS(dir), rf) }); perr != nil {
				c.Fail(id, "-", perr.Error(), desc)
				return
			}
			// op log summary for the model
			nw, full, sum, last, maxw := bigSummary(rf)
			c.Case(id, "syncfs.big", fmt.Sprintf("size=%d", size), "rb=full|0")
			c.Impl(id, fmt.Sprintf("writes=%d", nw), fmt.Sprintf("full=%d", full), fmt.Sprintf("last=%d", last), fmt.Sprintf("sum=%d", sum))
			var problems []string
			if cerr != nil {
				problems = append(problems, "CopyFileSystem failed: "+cerr.Error())
			}
			gotSize, gotSha := rf.fileSha("d/big.img")
			if gotSize != size || gotSha != wantSha {
				problems = append(problems, fmt.Sprintf("copied file is %d bytes sha %s, source is %d bytes sha %s", gotSize, gotSha, size, wantSha))
			}
			if size > documentedMax && maxw > 32768 {
				problems = append(problems, fmt.Sprintf("a file above the streaming threshold was written with a %d-byte write", maxw))
			}
			if it := rf.flat()["small.txt"]; it.Size != 5 {
				problems = append(problems, "sibling small file not copied")
			}
			if len(problems) > 0 {
				c.Fail(id, "-", strings.Join(problems, " | "), desc)
			} else {
				c.OK(id)
			}
			c.Stat("big/files")
			c.Distinct("big:" + desc)
			c.Sample(fmt.Sprintf("%s: writes=%d sum=%d", desc, nw, sum))
		}()
	}
}
