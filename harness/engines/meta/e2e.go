package meta

import (
	"fmt"
	iofs "io/fs"
	"os"
	"os/exec"
	"path"
	"path/filepath"
	"sort"
	"strconv"
	"strings"
	"syscall"
	"time"

	"github.com/diskfs/go-diskfs/filesystem"
	"github.com/diskfs/go-diskfs/filesystem/ext4"
	"github.com/diskfs/go-diskfs/filesystem/fat12"
	"github.com/diskfs/go-diskfs/filesystem/fat16"
	"github.com/diskfs/go-diskfs/filesystem/fat32"
	"github.com/diskfs/go-diskfs/filesystem/iso9660"
	"github.com/diskfs/go-diskfs/filesystem/squashfs"

	"verif/harness/internal/hx"
	"verif/harness/internal/memdev"
)

// Run is the engine entry point.
func Run(c *hx.Ctx) {
	r := c.Rng
	rc := r.Fork()
	if c.Only == "" || strings.HasPrefix(c.Only, "codec") {
		codecFat(c, rc)
		codecExt4(c, rc)
		codecSqfs(c, rc)
		codecRR(c, rc)
	}
	nExt4 := c.N(6, 60)
	for i := 0; i < nExt4; i++ {
		rr := r.Fork()
		id := fmt.Sprintf("ext4-%d", i)
		if c.Only == "" || c.Only == id || strings.HasPrefix(c.Only, id+"/") {
			e2eExt4(c, rr, id, i)
		}
	}
	nFat := c.N(6, 60)
	for i := 0; i < nFat; i++ {
		rr := r.Fork()
		id := fmt.Sprintf("fat-%d", i)
		if c.Only == "" || c.Only == id || strings.HasPrefix(c.Only, id+"/") {
			e2eFat(c, rr, id, i)
		}
	}
	nWs := c.N(3, 30)
	for i := 0; i < nWs; i++ {
		rr := r.Fork()
		for _, kind := range []string{"sqfs", "iso"} {
			id := fmt.Sprintf("%s-%d", kind, i)
			if c.Only == "" || c.Only == id || strings.HasPrefix(c.Only, id+"/") {
				e2eWorkspace(c, rr.Fork(), id, kind, i, "base", 0)
			}
		}
	}
	// one symlink per image: a dangling target, and resolvable targets of growing length
	for _, kind := range []string{"sqfs", "iso"} {
		rr := r.Fork()
		for j, ln := range []int{0, -1, 80, 100, 110, 120, 150, 200, 247, 248, 255, 600, 1023, 4095} {
			variant := fmt.Sprintf("long%d", ln)
			if ln == 0 {
				variant = "dangling"
			}
			if ln == -1 {
				if kind != "sqfs" {
					continue
				}
				variant = "cwd-elsewhere"
			}
			id := fmt.Sprintf("%s-%s", kind, variant)
			if c.Only == "" || c.Only == id || strings.HasPrefix(c.Only, id+"/") {
				e2eWorkspace(c, rr.Fork(), id, kind, j, variant, ln)
			}
		}
	}
	// FAT volumes holding a root entry named like the volume label (label.go); last, so that the streams of the
	// cases above are what they were
	nLab := c.N(1, 9)
	for i := 0; i < nLab; i++ {
		rr := r.Fork()
		id := fmt.Sprintf("fatlabel-%d", i)
		if c.Only == "" || c.Only == id || strings.HasPrefix(c.Only, id+"/") {
			e2eFatLabel(c, rr, id, i)
		}
	}
	// ext4 setters on the whole inode record (frame.go)
	nFr := c.N(2, 20)
	for i := 0; i < nFr; i++ {
		rr := r.Fork()
		id := fmt.Sprintf("ext4frame-%d", i)
		if c.Only == "" || c.Only == id || strings.HasPrefix(c.Only, id+"/") {
			e2eExt4Frame(c, rr, id, i)
		}
	}
	// FAT Chtimes: the three stamps of an entry as stored, inside and outside 1980..2107 (fatchtimes.go)
	nCt := c.N(3, 18)
	for i := 0; i < nCt; i++ {
		rr := r.Fork()
		id := fmt.Sprintf("fatchtimes-%d", i)
		if c.Only == "" || c.Only == id || strings.HasPrefix(c.Only, id+"/") {
			e2eFatChtimes(c, rr, id, i)
		}
	}
	// second round of codec cases (deep5.go): Rock Ridge stamps / TF / PX big-endian halves, squashfs id table blocks and
	// inode types; after everything else, so that the streams of the cases above are what they were
	rd := r.Fork()
	if c.Only == "" || strings.HasPrefix(c.Only, "codec") {
		codecDeep5(c, rd)
	}
	// ext4 setters on inode records made by mke2fs / debugfs (in-inode extended attributes, project id, i_version)
	nRmw := c.N(3, 24)
	for i := 0; i < nRmw; i++ {
		rr := r.Fork()
		id := fmt.Sprintf("ext4rmw-%d", i)
		if c.Only == "" || c.Only == id || strings.HasPrefix(c.Only, id+"/") {
			e2eExt4Rmw(c, rr, id, i)
		}
	}
	runDeep7(c, r.Fork()) // deep7.go: symlink targets with backslashes / long components, squashfs xattrs, FAT flags
}

type kind int

const (
	kDir kind = iota
	kFile
	kLink
)

func (k kind) String() string { return [...]string{"dir", "file", "symlink"}[k] }

func kindOfMode(m iofs.FileMode) string {
	switch {
	case m.IsDir():
		return "dir"
	case m&iofs.ModeSymlink != 0:
		return "symlink"
	case m.IsRegular():
		return "file"
	}
	return "other(" + m.String() + ")"
}

func unixBits(m iofs.FileMode) uint32 {
	v := uint32(m.Perm())
	if m&iofs.ModeSetuid != 0 {
		v |= 0o4000
	}
	if m&iofs.ModeSetgid != 0 {
		v |= 0o2000
	}
	if m&iofs.ModeSticky != 0 {
		v |= 0o1000
	}
	return v
}

func goModeOf(bits uint32) os.FileMode {
	return goMode(int(bits&0o777), bits&0o4000 != 0, bits&0o2000 != 0, bits&0o1000 != 0)
}

func targetOf(r *hx.Rng, n int, abs bool) string {
	var sb strings.Builder
	if abs {
		sb.WriteByte('/')
	}
	for sb.Len() < n {
		seg := 1 + r.Intn(30)
		if sb.Len()+seg >= n {
			seg = n - sb.Len()
			sb.WriteString(strings.Repeat("t", seg))
			break
		}
		for j := 0; j < seg; j++ {
			sb.WriteByte(byte('a' + r.Intn(26)))
		}
		sb.WriteByte('/')
	}
	s := sb.String()
	if len(s) > n {
		s = s[:n]
	}
	if strings.HasSuffix(s, "/") && n > 1 {
		s = s[:n-1] + "z"
	}
	return s
}

// ---- ext4: attributes set through the API ------------------------------------------------------------

type enode struct {
	kind                 kind
	perm                 uint32 // 12 bits
	uid, gid             uint32
	crtime, atime, mtime *time.Time // nil: never set through the API (not compared)
	target               string
	size                 int64
}

func e2eExt4(c *hx.Ctx, r *hx.Rng, id string, idx int) {
	spb := uint8(0)
	size := int64(24 << 20)
	if idx%3 == 1 {
		size = 520 << 20 // from 512 MiB on Create picks 4 KiB blocks: symlink targets up to 4095 bytes
	}
	desc := fmt.Sprintf("ext4 sectorsPerBlock=%d size=%d seed-case=%s", spb, size, id)
	dev := memdev.New(size)
	dev.KeepData = false
	var fsys *ext4.FileSystem
	var err error
	if p := safe(func() { fsys, err = ext4.Create(dev, size, 0, 512, &ext4.Params{SectorsPerBlock: spb}) }); p != "" || err != nil {
		c.Note("%s: ext4.Create failed (%v %s); skipped", id, err, p)
		c.Stat("ext4-create-failed")
		return
	}
	bs := 1024
	if size >= 512<<20 {
		bs = 4096
	}
	nodes := map[string]*enode{}
	var hist []string
	do := func(what string, f func() error) bool {
		var e error
		p := safe(func() { e = f() })
		hist = append(hist, what)
		if p != "" {
			c.Fail(id+"/op"+strconv.Itoa(len(hist)), "-", fmt.Sprintf("%s panicked: %s", what, p), desc+" history="+strings.Join(hist, "; "))
			return false
		}
		if e != nil {
			hist[len(hist)-1] += " -> " + e.Error()
			return false
		}
		return true
	}
	// --- a small tree
	for _, d := range []string{"d1", "d1/sub", "d2"} {
		d := d
		if do("Mkdir "+d, func() error { return fsys.Mkdir(d) }) {
			nodes[d] = &enode{kind: kDir}
		}
	}
	files := []string{"a", "b.txt", "d1/x", "d1/sub/y", "d2/z"}
	for _, f := range files {
		f := f
		data := r.Bytes(r.Intn(3 * bs))
		if do("write "+f, func() error {
			h, e := fsys.OpenFile(f, os.O_CREATE|os.O_RDWR)
			if e != nil {
				return e
			}
			if _, e = h.Write(data); e != nil {
				return e
			}
			return nil
		}) {
			nodes[f] = &enode{kind: kFile, size: int64(len(data))}
		}
	}
	// --- symlinks 1..4095 incl. the inline boundary
	maxT := bs - 1
	for i, ln := range []int{1, 58, 59, 60, 61, 255, maxT, 2 + r.Intn(57), 60 + r.Intn(maxT-60)} {
		p := fmt.Sprintf("l%d_%d", i, ln)
		t := targetOf(r, ln, i%2 == 1)
		if do(fmt.Sprintf("Symlink len=%d %s", ln, p), func() error { return fsys.Symlink(t, p) }) {
			nodes[p] = &enode{kind: kLink, target: t, size: int64(ln)}
			c.Stat("ext4-symlink-created")
		} else {
			c.Stat("ext4-symlink-refused")
		}
	}
	// initial attributes as the library reports them (creation defaults are not the subject)
	paths := func() []string {
		ps := make([]string, 0, len(nodes))
		for p := range nodes {
			ps = append(ps, p)
		}
		sort.Strings(ps)
		return ps
	}
	for _, p := range paths() {
		n := nodes[p]
		fi, e := fsys.Stat(p)
		if e != nil {
			continue
		}
		n.perm = unixBits(fi.Mode())
		if st, ok := fi.Sys().(*ext4.StatT); ok {
			n.uid, n.gid = st.UID, st.GID
		}
	}
	// --- a history of setters interleaved with content writes
	var targets []string
	for _, p := range paths() {
		if nodes[p].kind != kLink {
			targets = append(targets, p)
		}
	}
	nops := c.N(40, 160)
	for i := 0; i < nops && len(targets) > 0; i++ {
		p := hx.Pick(r, targets)
		n := nodes[p]
		switch r.Intn(5) {
		case 0, 1:
			bits := uint32(r.Intn(1 << 12))
			if r.Chance(30) {
				bits = hx.Pick(r, []uint32{0, 0o7777, 0o4755, 0o2750, 0o1777, 0o644})
			}
			if do(fmt.Sprintf("Chmod %s %04o", p, bits), func() error { return fsys.Chmod(p, goModeOf(bits)) }) {
				n.perm = bits
			}
		case 2:
			uid, gid := int(hx.Pick(r, idChoices)), int(hx.Pick(r, idChoices))
			if r.Chance(20) {
				uid = -1
			}
			if r.Chance(20) {
				gid = -1
			}
			if uid == 0xffffffff || gid == 0xffffffff {
				continue // int(-1) on a 32-bit int would mean "unchanged"; keep the history portable
			}
			if do(fmt.Sprintf("Chown %s %d:%d", p, uid, gid), func() error { return fsys.Chown(p, uid, gid) }) {
				if uid != -1 {
					n.uid = uint32(uid)
				}
				if gid != -1 {
					n.gid = uint32(gid)
				}
			}
		case 3:
			cr, at, mt := ext4Time(r), ext4Time(r), ext4Time(r)
			if do(fmt.Sprintf("Chtimes %s cr=%d at=%d mt=%d.%d", p, cr.Unix(), at.Unix(), mt.Unix(), mt.Nanosecond()), func() error { return fsys.Chtimes(p, cr, at, mt) }) {
				n.crtime, n.atime, n.mtime = &cr, &at, &mt
			}
		default:
			if n.kind != kFile {
				continue
			}
			data := r.Bytes(1 + r.Intn(2*bs))
			var pan string
			var werr error
			hist = append(hist, fmt.Sprintf("append %s %d bytes", p, len(data)))
			pan = safe(func() {
				h, e := fsys.OpenFile(p, os.O_RDWR|os.O_APPEND)
				if e != nil {
					werr = e
					return
				}
				_, werr = h.Write(data)
			})
			switch {
			case pan != "":
				// content writes are not this property's subject; a crash in them is reported under the defect's own tag
				tag := "-"
				if strings.Contains(pan, "makeslice: len out of range") {
					tag = "ext4-extent-skip-lt"
				}
				c.Fail(id+"/op"+strconv.Itoa(len(hist)), tag, "append to "+p+" panicked: "+pan, desc+" history="+strings.Join(hist, "; "))
				n.size = -1
			case werr == nil:
				if n.size >= 0 {
					n.size += int64(len(data))
				}
			}
		}
	}
	// --- re-open and compare
	var re *ext4.FileSystem
	if p := safe(func() { re, err = ext4.Read(dev, size, 0, 512) }); p != "" || err != nil {
		c.Fail(id+"/reopen", "-", fmt.Sprintf("cannot re-open the image: %v %s", err, p), desc+" history="+strings.Join(hist, "; "))
		return
	}
	histS := desc + " history=" + strings.Join(hist, "; ")
	for _, p := range paths() {
		n := nodes[p]
		sub := id + "/" + p
		if !c.Want(sub) {
			continue
		}
		var fi iofs.FileInfo
		var e error
		if pp := safe(func() { fi, e = re.Stat(p) }); pp != "" || e != nil {
			c.Fail(sub, "-", fmt.Sprintf("Stat(%s) after re-open: %v %s", p, e, pp), histS)
			continue
		}
		var probs []string
		if k := kindOfMode(fi.Mode()); k != n.kind.String() {
			probs = append(probs, fmt.Sprintf("kind %s want %s", k, n.kind))
		}
		if fi.IsDir() != (n.kind == kDir) {
			probs = append(probs, fmt.Sprintf("IsDir=%v", fi.IsDir()))
		}
		if got := unixBits(fi.Mode()); got != n.perm {
			probs = append(probs, fmt.Sprintf("mode %04o want %04o", got, n.perm))
		}
		st, _ := fi.Sys().(*ext4.StatT)
		if st == nil {
			probs = append(probs, "Sys() is not *ext4.StatT")
		} else {
			if st.UID != n.uid || st.GID != n.gid {
				probs = append(probs, fmt.Sprintf("owner %d:%d want %d:%d", st.UID, st.GID, n.uid, n.gid))
			}
			if n.mtime != nil {
				if !fi.ModTime().Equal(*n.mtime) {
					probs = append(probs, fmt.Sprintf("mtime %d.%d want %d.%d", fi.ModTime().Unix(), fi.ModTime().Nanosecond(), n.mtime.Unix(), n.mtime.Nanosecond()))
				}
				if !st.AccessTime.Equal(*n.atime) {
					probs = append(probs, fmt.Sprintf("atime %d want %d", st.AccessTime.Unix(), n.atime.Unix()))
				}
				if !st.CreateTime.Equal(*n.crtime) {
					probs = append(probs, fmt.Sprintf("crtime %d want %d", st.CreateTime.Unix(), n.crtime.Unix()))
				}
			}
		}
		if n.kind != kDir && n.size >= 0 && fi.Size() != n.size {
			probs = append(probs, fmt.Sprintf("size %d want %d", fi.Size(), n.size))
		}
		if n.kind == kLink {
			var got string
			if pp := safe(func() { got, e = re.ReadLink(p) }); pp != "" || e != nil {
				probs = append(probs, fmt.Sprintf("ReadLink: %v %s", e, pp))
			} else if got != n.target {
				probs = append(probs, fmt.Sprintf("ReadLink returned %d bytes, want %d", len(got), len(n.target)))
			}
			switch {
			case len(n.target) < 60:
				c.Stat("ext4-symlink-inline")
			default:
				c.Stat("ext4-symlink-extent")
			}
		}
		if len(probs) > 0 {
			c.Fail(sub, "-", fmt.Sprintf("%s %s after re-open: %s", n.kind, p, strings.Join(probs, "; ")), histS)
		} else {
			c.OK(sub)
		}
		c.Stat("ext4-node-checked")
	}
	// --- second opinion: debugfs on the same bytes
	if c.Want(id + "/debugfs") {
		ext4SecondOpinion(c, id, dev, size, nodes, histS)
	}
	c.Distinct(strings.Join(hist, ";"))
	c.Sample(id + ": " + tailStr(strings.Join(hist, "; "), 700))
}

func tailStr(s string, n int) string {
	if len(s) > n {
		return s[:n] + "..."
	}
	return s
}

func ext4SecondOpinion(c *hx.Ctx, id string, dev *memdev.Dev, size int64, nodes map[string]*enode, histS string) {
	img := filepath.Join(c.Scratch, id+".img")
	f, err := os.Create(img)
	if err != nil {
		return
	}
	defer os.Remove(img)
	const chunk = 1 << 20
	for off := int64(0); off < size; off += chunk {
		n := chunk
		if size-off < chunk {
			n = int(size - off)
		}
		b := dev.Bytes(off, n)
		zero := true
		for _, x := range b {
			if x != 0 {
				zero = false
				break
			}
		}
		if !zero {
			f.WriteAt(b, off)
		}
	}
	f.Truncate(size)
	f.Close()
	var paths []string
	for p := range nodes {
		paths = append(paths, p)
	}
	sort.Strings(paths)
	var cmds strings.Builder
	for _, p := range paths {
		fmt.Fprintf(&cmds, "stat %s\n", p)
	}
	cf := img + ".cmds"
	os.WriteFile(cf, []byte(cmds.String()), 0o644)
	defer os.Remove(cf)
	cmd := exec.Command("/usr/sbin/debugfs", "-f", cf, img)
	cmd.Env = append(os.Environ(), "DEBUGFS_PAGER=__none__", "PAGER=cat")
	out, err := cmd.Output()
	if err != nil {
		c.Note("%s: debugfs failed: %v", id, err)
		return
	}
	chunks := strings.Split(string(out), "\ndebugfs: stat ")
	if len(chunks) != len(paths) {
		c.Note("%s: debugfs printed %d stat blocks for %d paths", id, len(chunks), len(paths))
		return
	}
	var probs []string
	for i, ch := range chunks {
		n := nodes[paths[i]]
		fld := func(key string) string {
			j := strings.Index(ch, key)
			if j < 0 {
				return ""
			}
			rest := strings.TrimLeft(ch[j+len(key):], " ")
			k := strings.IndexAny(rest, " \n")
			if k < 0 {
				return rest
			}
			return rest[:k]
		}
		mode, e1 := strconv.ParseUint(fld("Mode:"), 8, 32)
		uid, e2 := strconv.ParseInt(fld("User:"), 10, 64)
		gid, e3 := strconv.ParseInt(fld("Group:"), 10, 64)
		if e1 != nil || e2 != nil || e3 != nil {
			probs = append(probs, fmt.Sprintf("%s: debugfs output not understood (inode unreadable?): %s", paths[i], tailStr(ch, 120)))
			continue
		}
		if uint32(mode) != n.perm || uint32(uid) != n.uid || uint32(gid) != n.gid {
			probs = append(probs, fmt.Sprintf("%s: debugfs sees mode %04o owner %d:%d, set %04o %d:%d", paths[i], mode, uint32(uid), uint32(gid), n.perm, n.uid, n.gid))
		}
		typ := fld("Type:")
		want := map[kind]string{kDir: "directory", kFile: "regular", kLink: "symlink"}[n.kind]
		if typ != want {
			probs = append(probs, fmt.Sprintf("%s: debugfs sees type %s, want %s", paths[i], typ, want))
		}
		if n.mtime != nil {
			j := strings.Index(ch, " mtime: 0x")
			if j >= 0 {
				w := strings.Fields(ch[j+8:])[0]
				parts := strings.Split(strings.TrimPrefix(w, "0x"), ":")
				lo, _ := strconv.ParseUint(parts[0], 16, 64)
				sec := int64(int32(uint32(lo)))
				ns := int64(0)
				if len(parts) == 2 {
					ex, _ := strconv.ParseUint(parts[1], 16, 64)
					sec += int64(ex&3) << 32
					ns = int64(ex >> 2)
				}
				if sec != n.mtime.Unix() || ns != int64(n.mtime.Nanosecond()) {
					probs = append(probs, fmt.Sprintf("%s: debugfs sees mtime %d.%d, set %d.%d", paths[i], sec, ns, n.mtime.Unix(), n.mtime.Nanosecond()))
				}
			}
		}
	}
	if len(probs) > 0 {
		c.Fail(id+"/debugfs", "-", "second opinion (debugfs stat) disagrees with what was set: "+strings.Join(probs, "; "), histS)
	} else {
		c.OK(id + "/debugfs")
		c.Stat("ext4-debugfs-agrees")
	}
}

// ---- FAT: Chtimes and the attribute flags --------------------------------------------------------------

type fnode struct {
	isDir                 bool
	hidden, system, ro    bool
	archive               bool
	archiveKnown          bool
	create, modify, acces *time.Time
	size                  int64
}

func fatTime(r *hx.Rng) time.Time {
	y := 1980 + r.Intn(128)
	switch r.Intn(6) {
	case 0:
		y = 1980
	case 1:
		y = 2107
	case 2:
		y = hx.Pick(r, []int{2037, 2038, 2039, 2099, 2100})
	}
	mo := 1 + r.Intn(12)
	d := 1 + r.Intn(daysIn[mo-1])
	return time.Date(y, time.Month(mo), d, r.Intn(24), r.Intn(60), r.Intn(60), r.Intn(1e9), time.UTC)
}

func e2eFat(c *hx.Ctx, r *hx.Rng, id string, idx int) {
	kinds := []string{"fat12", "fat16", "fat32"}
	k := kinds[idx%3]
	size := map[string]int64{"fat12": 3 << 20, "fat16": 16 << 20, "fat32": 40 << 20}[k]
	desc := fmt.Sprintf("%s size=%d case=%s", k, size, id)
	dev := memdev.New(size)
	dev.KeepData = false
	mk := func() (filesystem.FileSystem, error) {
		switch k {
		case "fat12":
			return fat12.Create(dev, size, 0, 512, "META", false)
		case "fat16":
			return fat16.Create(dev, size, 0, 512, "META", false)
		}
		return fat32.Create(dev, size, 0, 512, "META", false)
	}
	rd := func() (filesystem.FileSystem, error) {
		switch k {
		case "fat12":
			return fat12.Read(dev, size, 0, 512)
		case "fat16":
			return fat16.Read(dev, size, 0, 512)
		}
		return fat32.Read(dev, size, 0, 512)
	}
	var fsys filesystem.FileSystem
	var err error
	if p := safe(func() { fsys, err = mk() }); p != "" || err != nil {
		c.Note("%s: Create failed: %v %s", id, err, p)
		return
	}
	type chtimer interface {
		Chtimes(string, time.Time, time.Time, time.Time) error
	}
	type archiver interface {
		SetArchiveBit(string, bool) error
		GetArchiveBit(string) (bool, error)
	}
	type timesHook interface {
		VerifEntryTimes(string) (time.Time, time.Time, time.Time, bool, error)
	}
	nodes := map[string]*fnode{}
	var hist []string
	do := func(what string, f func() error) bool {
		var e error
		p := safe(func() { e = f() })
		hist = append(hist, what)
		if p != "" {
			c.Fail(id+"/op"+strconv.Itoa(len(hist)), "-", what+" panicked: "+p, desc+" history="+strings.Join(hist, "; "))
			return false
		}
		if e != nil {
			hist[len(hist)-1] += " -> " + e.Error()
			return false
		}
		return true
	}
	for _, d := range []string{"DIR1", "DIR1/SUB", "longer directory name"} {
		d := d
		if do("Mkdir "+d, func() error { return fsys.Mkdir(d) }) {
			nodes[d] = &fnode{isDir: true}
		}
	}
	for _, f := range []string{"A.TXT", "b.dat", "DIR1/X.BIN", "DIR1/SUB/a long file name.text", "longer directory name/q"} {
		f := f
		data := r.Bytes(r.Intn(3000))
		if do("write "+f, func() error {
			h, e := fsys.OpenFile(f, os.O_CREATE|os.O_RDWR)
			if e != nil {
				return e
			}
			defer h.Close()
			_, e = h.Write(data)
			return e
		}) {
			nodes[f] = &fnode{size: int64(len(data))}
		}
	}
	var all, filesOnly []string
	for p, n := range nodes {
		all = append(all, p)
		if !n.isDir {
			filesOnly = append(filesOnly, p)
		}
	}
	sort.Strings(all)
	sort.Strings(filesOnly)
	nops := c.N(40, 200)
	for i := 0; i < nops && len(filesOnly) > 0; i++ {
		switch r.Intn(6) {
		case 0, 1:
			p := hx.Pick(r, all)
			ct, at, mt := fatTime(r), fatTime(r), fatTime(r)
			ch, ok := fsys.(chtimer)
			if !ok {
				continue
			}
			if do(fmt.Sprintf("Chtimes %s c=%s a=%s m=%s", p, ct.Format(time.RFC3339), at.Format("2006-01-02"), mt.Format(time.RFC3339)), func() error { return ch.Chtimes(p, ct, at, mt) }) {
				n := nodes[p]
				n.create, n.acces, n.modify = &ct, &at, &mt
			}
		case 2, 3:
			p := hx.Pick(r, filesOnly)
			which := r.Intn(3)
			on := r.Bool()
			name := []string{"SetHidden", "SetSystem", "SetReadOnly"}[which]
			if do(fmt.Sprintf("%s %s %v", name, p, on), func() error {
				h, e := fsys.OpenFile(p, os.O_RDWR)
				if e != nil {
					return e
				}
				defer h.Close()
				fl, ok := h.(*fat12.File)
				if !ok {
					return fmt.Errorf("OpenFile did not return *fat12.File but %T", h)
				}
				switch which {
				case 0:
					return fl.SetHidden(on)
				case 1:
					return fl.SetSystem(on)
				}
				return fl.SetReadOnly(on)
			}) {
				n := nodes[p]
				switch which {
				case 0:
					n.hidden = on
				case 1:
					n.system = on
				default:
					n.ro = on
				}
			}
		case 4:
			p := hx.Pick(r, filesOnly)
			on := r.Bool()
			ar, ok := fsys.(archiver)
			if !ok {
				continue
			}
			if do(fmt.Sprintf("SetArchiveBit %s %v", p, on), func() error { return ar.SetArchiveBit(p, on) }) {
				nodes[p].archive, nodes[p].archiveKnown = on, true
			}
		default:
			p := hx.Pick(r, filesOnly)
			if nodes[p].ro {
				continue
			}
			data := r.Bytes(1 + r.Intn(1500))
			if do(fmt.Sprintf("append %s %d", p, len(data)), func() error {
				h, e := fsys.OpenFile(p, os.O_RDWR|os.O_APPEND)
				if e != nil {
					return e
				}
				defer h.Close()
				_, e = h.Write(data)
				return e
			}) {
				nodes[p].size += int64(len(data))
				nodes[p].modify = nil // a content write may stamp the modification time
				nodes[p].archiveKnown = false
			}
		}
	}
	histS := desc + " history=" + strings.Join(hist, "; ")
	var re filesystem.FileSystem
	if p := safe(func() { re, err = rd() }); p != "" || err != nil {
		c.Fail(id+"/reopen", "-", fmt.Sprintf("cannot re-open: %v %s", err, p), histS)
		return
	}
	floor2 := func(t time.Time) time.Time {
		return t.Truncate(time.Second).Add(-time.Duration(t.Second()%2) * time.Second)
	}
	for _, p := range all {
		n := nodes[p]
		sub := id + "/" + p
		if !c.Want(sub) {
			continue
		}
		var probs []string
		var fi iofs.FileInfo
		var e error
		if pp := safe(func() { fi, e = re.Stat(p) }); pp != "" || e != nil {
			c.Fail(sub, "-", fmt.Sprintf("Stat(%s) after re-open: %v %s", p, e, pp), histS)
			continue
		}
		if fi.IsDir() != n.isDir {
			probs = append(probs, fmt.Sprintf("IsDir=%v want %v", fi.IsDir(), n.isDir))
		}
		if !n.isDir && fi.Size() != n.size {
			probs = append(probs, fmt.Sprintf("size %d want %d", fi.Size(), n.size))
		}
		if n.modify != nil && !fi.ModTime().Equal(floor2(*n.modify)) {
			probs = append(probs, fmt.Sprintf("ModTime %s want %s", fi.ModTime().UTC().Format(time.RFC3339), floor2(*n.modify).Format(time.RFC3339)))
		}
		if th, ok := re.(timesHook); ok && n.create != nil {
			cr, _, ac, found, e := th.VerifEntryTimes(p)
			if e != nil || !found {
				probs = append(probs, fmt.Sprintf("entry not found for times: %v", e))
			} else {
				if !cr.Equal(floor2(*n.create)) {
					probs = append(probs, fmt.Sprintf("create time %s want %s", cr.Format(time.RFC3339), floor2(*n.create).Format(time.RFC3339)))
				}
				y, m, d := n.acces.Date()
				if !ac.Equal(time.Date(y, m, d, 0, 0, 0, 0, time.UTC)) {
					probs = append(probs, fmt.Sprintf("access date %s want %04d-%02d-%02d", ac.Format("2006-01-02"), y, m, d))
				}
			}
		}
		if !n.isDir {
			if pp := safe(func() {
				h, e := re.OpenFile(p, os.O_RDONLY)
				if e != nil {
					probs = append(probs, "OpenFile: "+e.Error())
					return
				}
				defer h.Close()
				fl, ok := h.(*fat12.File)
				if !ok {
					probs = append(probs, fmt.Sprintf("OpenFile returned %T", h))
					return
				}
				if fl.IsHidden() != n.hidden || fl.IsSystem() != n.system || fl.IsReadOnly() != n.ro {
					probs = append(probs, fmt.Sprintf("flags hidden=%v system=%v readonly=%v want %v %v %v", fl.IsHidden(), fl.IsSystem(), fl.IsReadOnly(), n.hidden, n.system, n.ro))
				}
			}); pp != "" {
				probs = append(probs, "panic: "+pp)
			}
			if ar, ok := re.(archiver); ok && n.archiveKnown {
				if got, e := ar.GetArchiveBit(p); e != nil || got != n.archive {
					probs = append(probs, fmt.Sprintf("archive bit %v (%v) want %v", got, e, n.archive))
				}
			}
		}
		if len(probs) > 0 {
			c.Fail(sub, "-", fmt.Sprintf("%s after re-open: %s", p, strings.Join(probs, "; ")), histS)
		} else {
			c.OK(sub)
		}
		c.Stat("fat-node-checked")
	}
	c.Stat("fat-kind=" + k)
	c.Distinct(k + ":" + strings.Join(hist, ";"))
	c.Sample(id + " " + k + ": " + tailStr(strings.Join(hist, "; "), 600))
}

// ---- squashfs / Rock Ridge ISO: attributes present on the workspace files at Finalize ------------------

// isoLongLink: from about this target length on the Rock Ridge fields of a symlink no longer fit the
// directory record and need a continuation area (33 + name + PX 44 + TF 26 + NM + SL 7+n > 254)
const isoLongLink = 111 // on the current tree 110 bytes still fit, 120 do not

type wnode struct {
	kind     kind
	perm     uint32
	uid, gid uint32
	mtime    time.Time
	target   string
	size     int64
}

func e2eWorkspace(c *hx.Ctx, r *hx.Rng, id, kindName string, idx int, variant string, longLen int) {
	size := int64(32 << 20)
	dev := memdev.New(size)
	dev.KeepData = false
	desc := fmt.Sprintf("%s case=%s variant=%s", kindName, id, variant)
	var ws string
	var finalize func() error
	var reopen func() (filesystem.FileSystem, error)
	var closer func()
	var err error
	if p := safe(func() {
		if kindName == "sqfs" {
			var f *squashfs.FileSystem
			f, err = squashfs.Create(dev, size, 0, 4096)
			if err == nil {
				ws = f.Workspace()
				finalize = func() error {
					return f.Finalize(squashfs.FinalizeOptions{NoCompressInodes: idx%2 == 0, NoCompressData: true, NoCompressFragments: true})
				}
				closer = func() { f.Close() }
				reopen = func() (filesystem.FileSystem, error) { return squashfs.Read(dev, size, 0, 4096) }
			}
		} else {
			var f *iso9660.FileSystem
			f, err = iso9660.Create(dev, size, 0, 2048, "")
			if err == nil {
				ws = f.Workspace()
				finalize = func() error { return f.Finalize(iso9660.FinalizeOptions{RockRidge: true, VolumeIdentifier: "META"}) }
				closer = func() { f.Close() }
				reopen = func() (filesystem.FileSystem, error) { return iso9660.Read(dev, size, 0, 2048) }
			}
		}
	}); p != "" || err != nil {
		c.Note("%s: Create failed: %v %s", id, err, p)
		return
	}
	defer func() {
		if closer != nil {
			safe(closer)
		}
		os.RemoveAll(ws)
	}()
	nodes := map[string]*wnode{}
	mk := func(p string, k kind, data []byte, target string) {
		full := filepath.Join(ws, filepath.FromSlash(p))
		var e error
		switch k {
		case kDir:
			e = os.Mkdir(full, 0o755)
		case kFile:
			e = os.WriteFile(full, data, 0o644)
		default:
			e = os.Symlink(target, full)
		}
		if e != nil {
			c.Note("%s: workspace %s: %v", id, p, e)
			return
		}
		nodes[p] = &wnode{kind: k, target: target, size: int64(len(data))}
	}
	mk("dir1", kDir, nil, "")
	mk("dir1/sub", kDir, nil, "")
	mk("dir2", kDir, nil, "")
	for i, f := range []string{"a.txt", "b", "dir1/x.bin", "dir1/sub/deep.dat", "dir2/z", "empty"} {
		n := r.Intn(6000)
		if i == 5 {
			n = 0
		}
		mk(f, kFile, r.Bytes(n), "")
	}
	// symlink targets that resolve inside the workspace, padded with "./" to the wanted length
	resolvable := func(n int, abs bool) string {
		tail := "a.txt"
		if abs {
			root := filepath.ToSlash(ws) + "/"
			if (n-len(root)-len(tail))%2 != 0 {
				tail = "dir2/z"
			}
			k := (n - len(root) - len(tail)) / 2
			if k < 0 {
				return ""
			}
			return root + strings.Repeat("./", k) + tail
		}
		switch {
		case n == 1:
			return "b"
		case n < 5:
			return strings.Repeat(".", n-1) + "/"[:1]
		}
		if (n-len(tail))%2 != 0 {
			tail = "dir2/z"
		}
		return strings.Repeat("./", (n-len(tail))/2) + tail
	}
	var lens []int
	switch variant {
	case "base":
		lens = []int{1, 5, 6, 59, 60, 61, 62 + r.Intn(10)}
		if kindName == "sqfs" {
			lens = append(lens, 100, 255, 256, 1000+r.Intn(3000))
		}
		for i, ln := range lens {
			t := resolvable(ln, i%3 == 2)
			if t == "" {
				t = resolvable(ln, false)
			}
			mk(fmt.Sprintf("l%d_%d", i, len(t)), kLink, nil, t)
		}
	case "dangling":
		lens = []int{12}
		mk("dangling", kLink, nil, "no/such/file")
	case "cwd-elsewhere":
		lens = []int{5}
		mk("link", kLink, nil, "a.txt")
	default:
		lens = []int{longLen}
		mk(fmt.Sprintf("long_%d", longLen), kLink, nil, resolvable(longLen, false))
	}
	// attributes: children before parents
	var paths []string
	for p := range nodes {
		paths = append(paths, p)
	}
	sort.Slice(paths, func(i, j int) bool {
		return len(paths[i]) > len(paths[j]) || (len(paths[i]) == len(paths[j]) && paths[i] < paths[j])
	})
	for _, p := range paths {
		n := nodes[p]
		full := filepath.Join(ws, filepath.FromSlash(p))
		n.uid, n.gid = hx.Pick(r, idChoices[:10]), hx.Pick(r, idChoices[:10])
		if e := os.Lchown(full, int(n.uid), int(n.gid)); e != nil {
			c.Note("%s: lchown: %v", id, e)
		}
		if n.kind != kLink {
			bits := uint32(r.Intn(1 << 12))
			if n.kind == kDir {
				bits |= 0o700
			}
			if r.Chance(30) {
				bits = hx.Pick(r, []uint32{0o755, 0o644, 0o4755, 0o2755, 0o1777, 0o7777})
			}
			os.Chmod(full, goModeOf(bits))
			var mt time.Time
			switch r.Intn(5) {
			case 0:
				mt = time.Unix(0, 0)
			case 1:
				mt = time.Unix(1<<31+r.Int63n(1<<30), 0) // after 2038, before 2106
			default:
				mt = time.Unix(r.Int63n(1<<31), r.Int63n(1e9))
			}
			os.Chtimes(full, mt, mt)
		}
	}
	// what is on the workspace when Finalize runs is the reference
	for _, p := range paths {
		n := nodes[p]
		fi, e := os.Lstat(filepath.Join(ws, filepath.FromSlash(p)))
		if e != nil {
			delete(nodes, p)
			continue
		}
		n.perm = unixBits(fi.Mode())
		n.mtime = fi.ModTime()
		if st, ok := fi.Sys().(*syscall.Stat_t); ok {
			n.uid, n.gid = st.Uid, st.Gid
		}
	}
	// squashfs Finalize reads symlink targets relative to the process working directory (recorded defect
	// sqfs-symlink-relative-readlink); run it from the workspace so that the attributes can be examined at all
	if kindName == "sqfs" && variant != "cwd-elsewhere" {
		if old, e := os.Getwd(); e == nil {
			if os.Chdir(ws) == nil {
				defer os.Chdir(old)
			}
		}
	}
	if p := safe(func() { err = finalize() }); p != "" || err != nil {
		tag := "-"
		switch {
		case kindName == "sqfs" && variant == "cwd-elsewhere" && err != nil && strings.Contains(err.Error(), "unable to read target for symlink"):
			tag = "sqfs-symlink-relative-readlink"
		case kindName == "sqfs" && variant == "dangling" && err != nil && strings.Contains(err.Error(), "unable to list xattrs"):
			tag = "sqfs-dangling-symlink"
		case kindName == "iso" && err != nil && strings.Contains(err.Error(), "does not fit a continuation area"):
			// a Rock Ridge symlink target whose SL entries exceed one block is refused (with an error) by Finalize
			tag = "iso-rr-symlink-over-block"
		}
		c.Fail(id+"/finalize", tag, fmt.Sprintf("Finalize failed: %v %s", err, p), desc)
		return
	}
	var re filesystem.FileSystem
	if p := safe(func() { re, err = reopen() }); p != "" || err != nil {
		c.Fail(id+"/reopen", "-", fmt.Sprintf("cannot re-open: %v %s", err, p), desc)
		return
	}
	sort.Strings(paths)
	for _, p := range paths {
		n := nodes[p]
		if n == nil {
			continue
		}
		sub := id + "/" + p
		if !c.Want(sub) {
			continue
		}
		// Stat through the parent listing (both filesystems implement Stat that way)
		var fi iofs.FileInfo
		var e error
		pp := safe(func() {
			var des []iofs.DirEntry
			des, e = re.ReadDir(path.Dir(p))
			if e != nil {
				return
			}
			for _, d := range des {
				if d.Name() == path.Base(p) {
					fi, e = d.Info()
					return
				}
			}
			e = fmt.Errorf("not listed in %s", path.Dir(p))
		})
		if pp != "" || e != nil || fi == nil {
			tag := "-"
			_ = longLen // the Rock Ridge long-link defects are repaired: any failure here is unlisted
			c.Fail(sub, tag, fmt.Sprintf("%s %s: cannot stat after re-open: %v %s", n.kind, p, e, pp), desc)
			continue
		}
		// each deviation carries the tag of the recorded defect that explains it ("-" if none does)
		type dev struct{ msg, tag string }
		var devs []dev
		add := func(tag, format string, a ...any) { devs = append(devs, dev{fmt.Sprintf(format, a...), tag}) }
		if k := kindOfMode(fi.Mode()); k != n.kind.String() {
			add("-", "kind %s want %s", k, n.kind)
		}
		if fi.IsDir() != (n.kind == kDir) {
			add("-", "IsDir=%v", fi.IsDir())
		}
		if got := unixBits(fi.Mode()); got != n.perm {
			tag := "-"
			if kindName == "sqfs" && got == n.perm&0o777 && n.perm&0o7000 != 0 {
				tag = "sqfs-mode-special-bits"
			}
			add(tag, "mode %04o want %04o", got, n.perm)
		}
		var uid, gid uint32
		var target string
		haveIDs := false
		switch st := fi.Sys().(type) {
		case *squashfs.StatT:
			uid, gid, target, haveIDs = st.UID, st.GID, st.LinkTarget, true
		case *iso9660.StatT:
			uid, gid, target, haveIDs = st.UID, st.GID, st.LinkTarget, st.RockRidge
		}
		if !haveIDs {
			add("-", "Sys() carries no owner information (%T)", fi.Sys())
		} else if uid != n.uid || gid != n.gid {
			tag := "-"
			if kindName == "sqfs" && uid == 0 && gid == 0 {
				tag = "sqfs-owner-not-recorded"
			}
			add(tag, "owner %d:%d want %d:%d", uid, gid, n.uid, n.gid)
		}
		if n.kind != kLink && fi.ModTime().Unix() != n.mtime.Unix() {
			add("-", "mtime %d want %d", fi.ModTime().Unix(), n.mtime.Unix())
		}
		if n.kind == kFile && fi.Size() != n.size {
			add("-", "size %d want %d", fi.Size(), n.size)
		}
		if n.kind == kLink && target != n.target {
			tag := "-"
			add(tag, "link target has %d bytes %q, want %d bytes %q", len(target), tailStr(target, 40), len(n.target), tailStr(n.target, 40))
		}
		if len(devs) == 0 {
			c.OK(sub)
		} else {
			// one verdict per explaining defect, so that an unexplained deviation is never hidden behind a known one
			byTag := map[string][]string{}
			var order []string
			for _, d := range devs {
				if _, ok := byTag[d.tag]; !ok {
					order = append(order, d.tag)
				}
				byTag[d.tag] = append(byTag[d.tag], d.msg)
			}
			for _, tag := range order {
				c.Fail(sub+"#"+tag, tag, fmt.Sprintf("%s %s after re-open: %s", n.kind, p, strings.Join(byTag[tag], "; ")), desc)
			}
		}
		c.Stat(kindName + "-node-checked")
		if n.kind == kLink {
			c.Stat(kindName + "-symlink")
		}
	}
	c.Distinct(desc)
	c.Sample(fmt.Sprintf("%s: %d workspace nodes incl. symlink targets of %v bytes", id, len(nodes), lens))
}
