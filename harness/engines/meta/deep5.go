package meta

import (
	"bytes"
	"encoding/binary"
	"encoding/hex"
	"fmt"
	iofs "io/fs"
	"os"
	"os/exec"
	"path/filepath"
	"sort"
	"strings"
	"time"

	"github.com/diskfs/go-diskfs/filesystem/ext4"
	"github.com/diskfs/go-diskfs/filesystem/iso9660"
	"github.com/diskfs/go-diskfs/filesystem/squashfs"

	"verif/harness/internal/hx"
	"verif/harness/internal/memdev"
)

// Codec cases of the second round: Rock Ridge 7-/17-byte stamps and TF records (both forms), the big-endian halves of
// PX, the squashfs id table across metadata blocks, the squashfs inode types the data-path model does not cover; and the
// ext4 setters on images made by mke2fs (inode records carrying what the library's inode struct does not).

const (
	tagIDWrap    = "sqfs-idtable-count-wraps"
	tagWriteBack = "ext4-inode-writeback-drops-unmodelled-fields"
)

// ---- Rock Ridge stamps --------------------------------------------------------------------------------------

func stampArg(t time.Time) string {
	_, off := t.Zone()
	return fmt.Sprintf("%d:%d:%d:%d:%d:%d:%d:%d", t.Year(), int(t.Month()), t.Day(), t.Hour(), t.Minute(), t.Second(), t.Nanosecond()/1e7, off)
}

var stampYears = []int{1899, 1900, 1901, 1969, 1970, 2000, 2038, 2106, 2155, 2156, 2411, 1644, 987, 9999, 10000, 12345, 0, 1}
var stampOffsets = []int{0, 0, 3600, -5400, 14 * 3600, -12 * 3600, 900 * 127, -900 * 128, 900 * 128, 900 * 99, -900 * 99, 900 * 100, 899, -899, 100000, -100000, 45 * 60, 20700}

func stampTime(r *hx.Rng, i int, lo, hi int) time.Time {
	y := lo + r.Intn(hi-lo+1)
	if i%3 == 0 {
		y = stampYears[(i/3)%len(stampYears)]
	}
	off := hx.Pick(r, stampOffsets)
	if r.Chance(30) {
		off = (r.Intn(193) - 96) * 900
	}
	mo := 1 + r.Intn(12)
	d := 1 + r.Intn(daysIn[mo-1])
	ns := r.Intn(1e9)
	switch r.Intn(4) {
	case 0:
		ns = 0
	case 1:
		ns = 990000000 + r.Intn(1e7)
	}
	return time.Date(y, time.Month(mo), d, r.Intn(24), r.Intn(60), r.Intn(60), ns, time.FixedZone("z", off))
}

func quarters(t time.Time) int {
	_, off := t.Zone()
	return off / 60 / 15
}

func codecStamps(c *hx.Ctx, r *hx.Rng) {
	n := c.N(400, 8000)
	for i := 0; i < n; i++ {
		id := fmt.Sprintf("codec/stamp7_%d", i)
		t := stampTime(r, i, 1900, 2155)
		if !c.Want(id) {
			continue
		}
		var b []byte
		var back time.Time
		p := safe(func() { b = iso9660.VerifStamp7(t); back = iso9660.VerifStamp7Time(b) })
		c.Case(id, "meta.stamp7", "t="+stampArg(t))
		if p != "" {
			c.Impl(id, "panic")
			c.Fail(id, "-", "Rock Ridge 7-byte stamp codec panicked: "+p, id)
			continue
		}
		c.Impl(id, "enc="+hex.EncodeToString(b), "dec="+stampArg(back))
		_, off := t.Zone()
		q := quarters(t)
		if t.Year() >= 1900 && t.Year() <= 2155 && off%900 == 0 && q >= -128 && q <= 127 {
			if back.Equal(t.Truncate(time.Second)) {
				c.OK(id)
			} else {
				c.Fail(id, "-", fmt.Sprintf("7-byte stamp: %v comes back as %v", t, back), id)
			}
			c.Stat("stamp7-in-range")
		} else {
			c.Stat("stamp7-out-of-range")
			c.Distinct(fmt.Sprintf("stamp7-out:%d:%d", t.Year(), q))
		}
	}
	for i := 0; i < n; i++ {
		id := fmt.Sprintf("codec/stamp17_%d", i)
		t := stampTime(r, i, 0, 9999)
		if t.Year() < 0 {
			continue
		}
		if !c.Want(id) {
			continue
		}
		var b []byte
		var back time.Time
		var err error
		p := safe(func() { b = iso9660.VerifStamp17(t); back, err = iso9660.VerifStamp17Time(b) })
		c.Case(id, "meta.stamp17", "t="+stampArg(t))
		if p != "" {
			c.Impl(id, "panic")
			c.Fail(id, "-", "17-byte stamp codec panicked: "+p, id)
			continue
		}
		dec := "none"
		if err == nil {
			dec = stampArg(back)
		}
		c.Impl(id, "enc="+hex.EncodeToString(b), "dec="+dec)
		_, off := t.Zone()
		q := quarters(t)
		if t.Year() <= 9999 && off%900 == 0 && q >= -96 && q <= 96 {
			if err == nil && back.Equal(t.Truncate(10*time.Millisecond)) {
				c.OK(id)
			} else {
				c.Fail(id, "-", fmt.Sprintf("17-byte stamp: %v comes back as %v (%v)", t, back, err), id)
			}
			c.Stat("stamp17-in-range")
		} else {
			c.Stat("stamp17-out-of-range")
			c.Distinct(fmt.Sprintf("stamp17-out:%d:%d", t.Year(), q))
		}
	}
	// decoder alone: hand-made digits, valid and not
	m := c.N(400, 8000)
	for i := 0; i < m; i++ {
		id := fmt.Sprintf("codec/stamp17dec%d", i)
		y, mo, d, h, mi, s, cs := r.Intn(10000), 1+r.Intn(12), 1+r.Intn(28), r.Intn(24), r.Intn(60), r.Intn(60), r.Intn(100)
		switch r.Intn(10) {
		case 0:
			mo = hx.Pick(r, []int{0, 13, 99})
		case 1:
			mo, d = 2, hx.Pick(r, []int{28, 29, 30})
			y = hx.Pick(r, []int{1900, 2000, 2023, 2024, 2100, 0, 400})
		case 2:
			mo, d = hx.Pick(r, []int{4, 6, 9, 11, 1, 12}), hx.Pick(r, []int{30, 31, 32, 0})
		case 3:
			h = hx.Pick(r, []int{23, 24, 25, 99})
		case 4:
			mi, s = hx.Pick(r, []int{59, 60, 61}), hx.Pick(r, []int{59, 60, 99})
		}
		b := []byte(fmt.Sprintf("%04d%02d%02d%02d%02d%02d%02d", y, mo, d, h, mi, s, cs))
		tz := byte(r.Intn(256))
		if r.Chance(50) {
			tz = byte(int8(r.Intn(101) - 50))
		}
		if r.Chance(20) {
			tz = hx.Pick(r, []byte{96, 97, 99, 100, 101, 127, 128, 0x9c, 0x9d, 0x9f, 0xa0})
		}
		b = append(b, tz)
		if r.Chance(8) {
			b[r.Intn(16)] = hx.Pick(r, []byte{' ', '-', '+', ':', 'a', 0, '/'})
		}
		if !c.Want(id) {
			continue
		}
		var back time.Time
		var err error
		p := safe(func() { back, err = iso9660.VerifStamp17Time(b) })
		c.Case(id, "meta.stamp17dec", "b="+hex.EncodeToString(b))
		switch {
		case p != "":
			c.Impl(id, "panic")
			c.Fail(id, "-", "decBytesToTime panicked: "+p, id)
		case err != nil:
			c.Impl(id, "dec=none")
			c.Stat("stamp17dec-refused")
		default:
			c.Impl(id, "dec="+stampArg(back))
			c.Stat("stamp17dec-accepted")
		}
	}
}

var tfKinds = []uint8{1, 2, 4, 8, 16, 32, 64}

func tfSlots(kinds []uint8, times []time.Time, long bool) string {
	slots := make([]string, 7)
	for i := range slots {
		slots[i] = "-"
	}
	for i, k := range kinds {
		for j, kk := range tfKinds {
			if k == kk {
				slots[j] = stampArg(times[i])
			}
		}
	}
	return fmt.Sprintf("%d/%s", b2i(long), strings.Join(slots, ","))
}

func codecTF(c *hx.Ctx, r *hx.Rng) {
	n := c.N(400, 8000)
	for i := 0; i < n; i++ {
		id := fmt.Sprintf("codec/tf%d", i)
		long := i%2 == 1
		var kinds []uint8
		var times []time.Time
		mask := r.Intn(128)
		switch i % 8 {
		case 0:
			mask = 2 | 4 | 8 // what Finalize writes
		case 2:
			mask = 127
		case 4:
			mask = 0
		}
		inRange := true
		for _, k := range tfKinds {
			if mask&int(k) == 0 {
				continue
			}
			var t time.Time
			if long {
				t = stampTime(r, 1, 0, 9999)
				if r.Chance(90) {
					_, off := t.Zone()
					if off%900 != 0 || off/900 > 96 || off/900 < -96 {
						t = t.In(time.UTC)
					}
				}
				_, off := t.Zone()
				if off%900 != 0 || off/900 > 96 || off/900 < -96 || t.Year() > 9999 || t.Year() < 0 {
					inRange = false
				}
				if t.Year() < 0 {
					t = t.AddDate(-t.Year()+5, 0, 0)
				}
			} else {
				t = stampTime(r, 1, 1900, 2155)
				_, off := t.Zone()
				if off%900 != 0 || off/900 > 127 || off/900 < -128 || t.Year() > 2155 || t.Year() < 1900 {
					inRange = false
				}
			}
			kinds = append(kinds, k)
			times = append(times, t)
		}
		// the encoder sorts: hand the stamps over in a random order
		perm := make([]int, len(kinds))
		for j := range perm {
			perm[j] = j
		}
		for j := len(perm) - 1; j > 0; j-- {
			k := r.Intn(j + 1)
			perm[j], perm[k] = perm[k], perm[j]
		}
		sk, st := make([]uint8, len(kinds)), make([]time.Time, len(kinds))
		for j, pj := range perm {
			sk[j], st[j] = kinds[pj], times[pj]
		}
		if !c.Want(id) {
			continue
		}
		var b []byte
		var dk []uint8
		var dt []time.Time
		var dlong bool
		var err error
		p := safe(func() {
			b = iso9660.VerifTFEncodeForm(long, sk, st)
			dk, dt, dlong, err = iso9660.VerifTFDecode(b)
		})
		args := []string{fmt.Sprintf("long=%d", b2i(long))}
		for j, k := range kinds {
			args = append(args, fmt.Sprintf("s%d=%s", k, stampArg(times[j])))
		}
		c.Case(id, "meta.tf", args...)
		if p != "" {
			c.Impl(id, "panic")
			c.Fail(id, "-", "Rock Ridge TF codec panicked: "+p, id)
			continue
		}
		if err != nil {
			c.Impl(id, "enc="+hex.EncodeToString(b), "dec=none")
			if inRange {
				c.Fail(id, "-", fmt.Sprintf("Rock Ridge TF record of representable stamps is refused by the parser: %v", err), id)
			}
			c.Stat("tf-refused")
			continue
		}
		c.Impl(id, "enc="+hex.EncodeToString(b), "dec="+tfSlots(dk, dt, dlong))
		if inRange {
			ok := dlong == long && len(dk) == len(kinds)
			for j := 0; ok && j < len(kinds); j++ {
				gran := time.Second
				if long {
					gran = 10 * time.Millisecond
				}
				ok = dk[j] == kinds[j] && dt[j].Equal(times[j].Truncate(gran))
			}
			if ok {
				c.OK(id)
			} else {
				c.Fail(id, "-", fmt.Sprintf("Rock Ridge TF: kinds %v times %v come back as %v %v", kinds, times, dk, dt), id)
			}
			c.Stat("tf-in-range")
		}
		c.Distinct(fmt.Sprintf("tf:long=%v:kinds=%07b:inrange=%v", long, mask, inRange))
		if long {
			c.Stat("tf-long-form")
		} else {
			c.Stat("tf-short-form")
		}
		// the parser alone on a damaged copy: flags announcing other stamps, a wrong length byte, a wrong version
		did := fmt.Sprintf("codec/tfdec%d", i)
		if !c.Want(did) || len(b) < 5 {
			continue
		}
		d := append([]byte(nil), b...)
		switch r.Intn(5) {
		case 0: // the form bit stays: a stamp read in the other form holds fields only Go's time package can normalise
			d[4] = d[4]&0x80 | byte(r.Intn(128))
		case 1:
			d[4] ^= 1 << uint(r.Intn(7))
		case 2:
			d[2] = byte(int(d[2]) + r.Intn(3) - 1)
		case 3:
			d[3] = byte(r.Intn(3))
		default:
			cut := 5 + r.Intn(len(d)-4)
			if cut > len(d) {
				cut = len(d)
			}
			d = d[:cut]
			d[2] = byte(len(d))
		}
		p = safe(func() { dk, dt, dlong, err = iso9660.VerifTFDecode(d) })
		c.Case(did, "meta.tfdec", "b="+hex.EncodeToString(d))
		switch {
		case p != "":
			c.Impl(did, "panic")
			c.Fail(did, "-", "parseTimestamps panicked: "+p, did)
		case err != nil:
			c.Impl(did, "dec=none")
			c.Stat("tfdec-refused")
		default:
			c.Impl(did, "dec="+tfSlots(dk, dt, dlong))
			c.Stat("tfdec-accepted")
		}
	}
	// PX: the big-endian copies say what the little-endian ones say
	m := c.N(300, 4096)
	for i := 0; i < m; i++ {
		id := fmt.Sprintf("codec/pxbe%d", i)
		if !c.Want(id) {
			continue
		}
		k := pxKinds[i%len(pxKinds)]
		bits := r.Intn(4096)
		perm, su, sg, st := bits&0o777, bits&0o4000 != 0, bits&0o2000 != 0, bits&0o1000 != 0
		links, uid, gid := uint32(r.U64()>>uint(32+r.Intn(32))), hx.Pick(r, idChoices), hx.Pick(r, idChoices)
		if r.Chance(40) {
			uid, gid = 65536+uint32(r.Intn(1<<20))|1, uint32(r.U64())|1
		}
		serial := r.U64() >> uint(r.Intn(40))
		var b []byte
		p := safe(func() { b = iso9660.VerifPXEncode(goMode(perm, su, sg, st)|k.bits, links, uid, gid, serial) })
		c.Case(id, "meta.pxbe", fmt.Sprintf("kind=%d", k.code), fmt.Sprintf("perm=%d", perm), fmt.Sprintf("su=%d", b2i(su)), fmt.Sprintf("sg=%d", b2i(sg)), fmt.Sprintf("st=%d", b2i(st)),
			fmt.Sprintf("links=%d", links), fmt.Sprintf("uid=%d", uid), fmt.Sprintf("gid=%d", gid), fmt.Sprintf("serial=%d", serial))
		if p != "" || len(b) != 44 {
			c.Impl(id, "error")
			c.Fail(id, "-", fmt.Sprintf("PX encoder: panic=%q len=%d", p, len(b)), id)
			continue
		}
		be := func(o int) uint32 { return binary.BigEndian.Uint32(b[o:]) }
		le := func(o int) uint32 { return binary.LittleEndian.Uint32(b[o:]) }
		c.Impl(id, fmt.Sprintf("be=%d:%d:%d:%d", be(8), be(16), be(24), be(32)), fmt.Sprintf("le=%d:%d:%d:%d", le(4), le(12), le(20), le(28)))
		if be(8) == le(4) && be(16) == links && be(24) == uid && be(32) == gid && le(12) == links && le(20) == uid && le(28) == gid {
			c.OK(id)
		} else {
			c.Fail(id, "-", fmt.Sprintf("PX both-endian fields disagree: % x", b), id)
		}
		c.Stat("pxbe")
	}
}

// ---- squashfs: id table across metadata blocks ---------------------------------------------------------------

func idBlkRun(n int, base, step uint32) (blocks int, back []uint32, ids []uint32, err error, pan string) {
	ids = make([]uint32, n)
	for j := range ids {
		ids[j] = base + uint32(j)*step
	}
	dev := memdev.New(1 << 20)
	pan = safe(func() {
		f, e := dev.Writable()
		if e != nil {
			err = e
			return
		}
		var written int
		_, _, written, back, err = squashfs.VerifIDTableBlocks(ids, f, 96)
		blocks = (written - 4*n) / 10
	})
	return
}

// e2eSqfsManyIDs: a workspace whose files have more than 16384 distinct owner ids, finalized and re-opened; every
// file must report the uid and gid it had. hookRepro / hookMsg: what the function-level replay saw.
func e2eSqfsManyIDs(c *hx.Ctx, r *hx.Rng, hookRepro bool, hookMsg string) {
	id := "codec/sqfs-manyids"
	known := func(e2eRepro bool, msg string) {
		c.Known(tagIDWrap, hookRepro || e2eRepro, hookMsg+"; image: "+msg)
	}
	if !c.Want(id) {
		known(false, "not run")
		return
	}
	const nfiles = 8200
	size := int64(64 << 20)
	dev := memdev.New(size)
	dev.KeepData = false
	var f *squashfs.FileSystem
	var err error
	if p := safe(func() { f, err = squashfs.Create(dev, size, 0, 4096) }); p != "" || err != nil {
		c.Note("%s: Create failed: %v %s", id, err, p)
		known(false, "not run")
		return
	}
	ws := f.Workspace()
	defer os.RemoveAll(ws)
	base := uint32(100000 + r.Intn(1<<20))
	for i := 0; i < nfiles; i++ {
		if i%100 == 0 {
			os.Mkdir(filepath.Join(ws, fmt.Sprintf("d%03d", i/100)), 0o755)
		}
		full := filepath.Join(ws, fmt.Sprintf("d%03d", i/100), fmt.Sprintf("f%05d", i))
		if e := os.WriteFile(full, nil, 0o644); e == nil {
			e = os.Lchown(full, int(base)+2*i, int(base)+2*i+1)
			if e != nil {
				c.Note("%s: lchown: %v; skipped", id, e)
				known(false, "not run")
				return
			}
		}
	}
	desc := fmt.Sprintf("squashfs workspace d000/f00000..f%05d (100 files to a directory), file i owned by %d+2i:%d+2i+1 (%d distinct ids), Finalize, Read, ReadDir of every directory", nfiles-1, base, base, 2*nfiles+1)
	if p := safe(func() {
		err = f.Finalize(squashfs.FinalizeOptions{NoCompressInodes: true, NoCompressData: true, NoCompressFragments: true})
	}); p != "" || err != nil {
		c.Fail(id, "-", fmt.Sprintf("Finalize failed: %v %s", err, p), desc)
		known(false, "Finalize failed")
		return
	}
	wrong, seen, unreadable := 0, 0, 0
	first := ""
	pan := safe(func() {
		re, e := squashfs.Read(dev, size, 0, 4096)
		if e != nil {
			wrong, first = nfiles, "Read: "+e.Error()
			return
		}
		var des []iofs.DirEntry
		for k := 0; k < (nfiles+99)/100; k++ {
			ds, e := re.ReadDir(fmt.Sprintf("d%03d", k))
			if e != nil && k > 0 && strings.Contains(e.Error(), "unable to read directory from table: error reading block at position") {
				// C07's open defect sqfs-dir-startblock-index: listings beyond the first 8 KiB of the directory table cannot be
				// read at all; those files are not judged here (the function-level replay covers their id indices)
				unreadable++
				seen += 100
				if k == (nfiles+99)/100-1 && nfiles%100 != 0 {
					seen += nfiles%100 - 100
				}
				continue
			}
			if e != nil {
				if first == "" {
					first = "ReadDir: " + e.Error()
				}
				continue
			}
			des = append(des, ds...)
		}
		for _, d := range des {
			var i int
			if _, e := fmt.Sscanf(d.Name(), "f%05d", &i); e != nil {
				continue
			}
			seen++
			fi, e := d.Info()
			var st *squashfs.StatT
			if e == nil {
				st, _ = fi.Sys().(*squashfs.StatT)
			}
			if e != nil || st == nil || st.UID != base+uint32(2*i) || st.GID != base+uint32(2*i+1) {
				wrong++
				if first == "" {
					first = fmt.Sprintf("%s: %v %+v", d.Name(), e, st)
				}
			}
		}
		wrong += nfiles - seen
	})
	switch {
	case pan == "" && wrong == 0:
		c.OK(id)
		known(false, fmt.Sprintf("all files of the %d directories that can be listed report their owners (%d directories unreadable: C07 sqfs-dir-startblock-index)", (nfiles+99)/100-unreadable, unreadable))
		c.StatN("sqfs-manyids-dirs-unreadable(C07 sqfs-dir-startblock-index)", unreadable)
	case hookRepro:
		c.Fail(id, tagIDWrap, fmt.Sprintf("%d of %d files do not report the owner they had (first: %s) %s", wrong, nfiles, first, pan), desc)
		known(true, fmt.Sprintf("%d of %d files do not report their owners", wrong, nfiles))
	default:
		c.Fail(id, "-", fmt.Sprintf("%d of %d files do not report the owner they had (first: %s) %s", wrong, nfiles, first, pan), desc)
		known(false, "owners wrong for another reason")
	}
	c.Stat("sqfs-manyids-files-checked")
	c.Distinct(fmt.Sprintf("sqfs-manyids:%d", base))
}

func codecSqIDBlocks(c *hx.Ctx, r *hx.Rng) {
	// which arithmetic the reader has: decided by what it does with 16385 ids (the Lean model has both)
	_, probe, _, perr, ppan := idBlkRun(16385, 7, 3)
	widen := perr == nil && ppan == "" && len(probe) == 16385
	// the listed finding's replay: here at function level, and through Finalize / Read / Stat (sqfs-manyids)
	e2eSqfsManyIDs(c, r.Fork(), !widen, fmt.Sprintf("16385 distinct ids written by writeIDTable (9 metadata blocks), readUidsGids returns %d ids (err=%v %s)", len(probe), perr, ppan))
	ns := []int{1, 2, 2047, 2048, 2049, 4096, 4097, 6000, 16383, 16384, 16385, 16386, 18432, 20000}
	if c.Thorough() {
		ns = append(ns, 24576, 32767, 32768, 32769, 40000, 49152, 65535)
	}
	for i, n := range ns {
		id := fmt.Sprintf("codec/sqidblk%d", i)
		if !c.Want(id) {
			continue
		}
		base, step := uint32(r.U64()), uint32(r.U64())|1
		blocks, back, ids, err, pan := idBlkRun(n, base, step)
		c.Case(id, "meta.sqidblk", fmt.Sprintf("n=%d", n), fmt.Sprintf("base=%d", base), fmt.Sprintf("step=%d", step), fmt.Sprintf("widen=%d", b2i(widen)))
		if pan != "" || err != nil {
			c.Impl(id, "error", pan, fmt.Sprint(err))
			c.Fail(id, "-", fmt.Sprintf("squashfs id table of %d ids: %v %s", n, err, pan), id)
			continue
		}
		var sum, last uint32
		for _, x := range back {
			sum += x
			last = x
		}
		c.Impl(id, fmt.Sprintf("blocks=%d", blocks), fmt.Sprintf("read=%d", len(back)), fmt.Sprintf("sum=%d", sum), fmt.Sprintf("last=%d", last))
		same := len(back) == n
		for j := 0; same && j < n; j++ {
			same = back[j] == ids[j]
		}
		switch {
		case same:
			c.OK(id)
		case n > 16384 && !widen && len(back) < n && len(back)%2048 == 0:
			c.Fail(id, tagIDWrap, fmt.Sprintf("squashfs id table of %d ids in %d metadata blocks: readUidsGids returns only the first %d", n, blocks, len(back)), id)
		default:
			c.Fail(id, "-", fmt.Sprintf("squashfs id table of %d ids comes back with %d ids", n, len(back)), id)
		}
		c.Stat("sqidblk")
		c.Distinct(fmt.Sprintf("sqidblk:%d", n))
		if n > 2048 {
			c.Stat("sqidblk-multi-block")
		}
		if n > 16384 {
			c.Stat("sqidblk-over-64KiB")
		}
	}
}

// ---- squashfs: every inode type -------------------------------------------------------------------------------

var sqTypeMode = map[uint16]os.FileMode{1: os.ModeDir, 8: os.ModeDir, 2: 0, 9: 0, 3: os.ModeSymlink, 10: os.ModeSymlink, 4: os.ModeDevice, 11: os.ModeDevice,
	5: os.ModeDevice | os.ModeCharDevice, 12: os.ModeDevice | os.ModeCharDevice, 6: os.ModeNamedPipe, 13: os.ModeNamedPipe, 7: os.ModeSocket, 14: os.ModeSocket}

func codecSqInodes(c *hx.Ctx, r *hx.Rng) {
	n := c.N(700, 14000)
	for i := 0; i < n; i++ {
		id := fmt.Sprintf("codec/sqx%d", i)
		typ := uint16(1 + i%14)
		bits := uint32(r.Intn(4096))
		if i < 14*8 {
			bits = []uint32{0, 0o7777, 0o4755, 0o2750, 0o1777, 0o644, 0o4000, 0o1000}[i/14]
		}
		v := squashfs.VerifMetaInode{Type: typ, Mode: goModeOf(bits) | sqTypeMode[typ], UID: uint16(r.Intn(65536)), GID: uint16(r.Intn(65536)),
			MTime: r.Int63n(1 << 32), Index: uint32(r.U64() >> uint(32+r.Intn(32))), Links: uint32(r.U64() >> uint(32+r.Intn(32)))}
		if r.Chance(25) {
			v.UID, v.GID, v.MTime, v.Links = hx.Pick(r, []uint16{0, 1, 2047, 2048, 65535}), hx.Pick(r, []uint16{0, 2048, 16384, 65535}), hx.Pick(r, []int64{0, 1<<31 - 1, 1 << 31, 1<<32 - 1}), hx.Pick(r, []uint32{0, 1, 2, 65536, 0xffffffff})
		}
		ext := typ >= 8
		if ext {
			v.Xattr = uint32(r.Intn(1000))
			if r.Chance(30) {
				v.Xattr = 0xffffffff
			}
		}
		switch typ {
		case 4, 5, 11, 12:
			v.Major, v.Minor = uint32(r.Intn(4096)), uint32(r.Intn(1<<20))
			if r.Chance(25) {
				v.Major, v.Minor = hx.Pick(r, []uint32{0, 1, 8, 255, 256, 4095, 4096, 70000}), hx.Pick(r, []uint32{0, 255, 256, 1<<20 - 1, 1 << 20, 0xffffffff})
			}
		case 3, 10:
			v.Target = targetOf(r, 1+r.Intn(300), r.Bool())
		case 1, 2:
			v.Size = uint64(r.Intn(60000))
		case 8, 9:
			v.Size = uint64(r.Intn(130000))
		}
		if !c.Want(id) {
			continue
		}
		var b []byte
		var back squashfs.VerifMetaInode
		var rep os.FileMode
		var extra int
		var err error
		p := safe(func() {
			if b, err = squashfs.VerifMetaInodeBytes(v); err == nil {
				back, rep, extra, err = squashfs.VerifMetaInodeParse(b, 131072)
			}
		})
		if p != "" || err != nil || extra != 0 {
			c.Fail(id, "-", fmt.Sprintf("squashfs inode type %d: codec failed: %v %s extra=%d", typ, err, p, extra), id)
			continue
		}
		// D: the nine types the data-path model does not cover
		if typ != 1 && typ != 2 && typ != 3 && typ != 8 && typ != 9 {
			args := []string{fmt.Sprintf("typ=%d", typ), fmt.Sprintf("mode=%d", bits), fmt.Sprintf("uid=%d", v.UID), fmt.Sprintf("gid=%d", v.GID), fmt.Sprintf("mtime=%d", v.MTime),
				fmt.Sprintf("index=%d", v.Index), fmt.Sprintf("links=%d", v.Links), fmt.Sprintf("major=%d", v.Major), fmt.Sprintf("minor=%d", v.Minor), fmt.Sprintf("xattr=%d", v.Xattr)}
			if typ == 10 {
				args = append(args, "target="+hex.EncodeToString([]byte(v.Target)))
			}
			c.Case(id, "meta.sqx", args...)
			hdr := fmt.Sprintf("%d:%d:%d:%d:%d:%d", back.Type, uint16(back.Mode), back.UID, back.GID, back.MTime, back.Index)
			var body string
			switch typ {
			case 10:
				body = fmt.Sprintf("lnk:%d:%s:%d", back.Links, hx.Hex([]byte(back.Target)), back.Xattr)
			case 4, 5:
				body = fmt.Sprintf("dev:%d:%d:%d", back.Links, back.Major, back.Minor)
			case 11, 12:
				body = fmt.Sprintf("devx:%d:%d:%d:%d", back.Links, back.Major, back.Minor, back.Xattr)
			case 6, 7:
				body = fmt.Sprintf("ipc:%d", back.Links)
			default:
				body = fmt.Sprintf("ipcx:%d:%d", back.Links, back.Xattr)
			}
			typeBits := uint32(rep &^ (os.ModePerm | os.ModeSetuid | os.ModeSetgid | os.ModeSticky))
			c.Impl(id, "enc="+hex.EncodeToString(b), fmt.Sprintf("dec=%s/%s/0", hdr, body), fmt.Sprintf("bits=%d", typeBits))
		}
		// S: what was put in comes out
		var probs []string
		if uint32(back.Mode) != bits {
			probs = append(probs, fmt.Sprintf("mode word %04o want %04o", uint32(back.Mode), bits))
		}
		if rep != goModeOf(bits)|sqTypeMode[typ] {
			probs = append(probs, fmt.Sprintf("reported mode %v want %v", rep, goModeOf(bits)|sqTypeMode[typ]))
		}
		if back.Type != typ || back.UID != v.UID || back.GID != v.GID || back.MTime != v.MTime || back.Index != v.Index {
			probs = append(probs, fmt.Sprintf("header %+v want %+v", back, v))
		}
		if typ != 2 && back.Links != v.Links {
			probs = append(probs, fmt.Sprintf("links %d want %d", back.Links, v.Links))
		}
		if back.Xattr != v.Xattr || back.Target != v.Target || back.Size != v.Size {
			probs = append(probs, fmt.Sprintf("xattr/target/size %d %q %d want %d %q %d", back.Xattr, tailStr(back.Target, 30), back.Size, v.Xattr, tailStr(v.Target, 30), v.Size))
		}
		devRange := v.Major < 4096 && v.Minor < 1<<20
		if devRange && (back.Major != v.Major || back.Minor != v.Minor) {
			probs = append(probs, fmt.Sprintf("device %d:%d want %d:%d", back.Major, back.Minor, v.Major, v.Minor))
		}
		if len(probs) > 0 {
			c.Fail(id, "-", fmt.Sprintf("squashfs inode type %d: %s", typ, strings.Join(probs, "; ")), id)
		} else {
			c.OK(id)
		}
		c.Stat(fmt.Sprintf("sqx-type%d", typ))
		c.Distinct(fmt.Sprintf("sqx:type=%d:special=%o:xattr=%v:dev-in-range=%v:links>1=%v", typ, bits>>9, v.Xattr != 0xffffffff && ext, devRange, v.Links > 1))
		if !devRange {
			c.Stat("sqx-device-number-out-of-range")
		}
	}
}

func codecDeep5(c *hx.Ctx, r *hx.Rng) {
	codecStamps(c, r)
	codecTF(c, r)
	codecSqIDBlocks(c, r)
	codecSqInodes(c, r)
}

// ---- ext4: the setters on inode records made by mke2fs / debugfs ----------------------------------------------

func droppedAt(i int) bool { return (i >= 0x70 && i < 0x74) || (i >= 0x7e && i < 0x80) || i >= 0x98 }

func xattrStr(m map[string][]byte) string {
	var ks []string
	for k := range m {
		ks = append(ks, k)
	}
	sort.Strings(ks)
	var sb strings.Builder
	for _, k := range ks {
		fmt.Fprintf(&sb, "%s=%x;", k, m[k])
	}
	return sb.String()
}

func e2eExt4Rmw(c *hx.Ctx, r *hx.Rng, id string, idx int) {
	dir, err := os.MkdirTemp(c.Scratch, "rmw")
	if err != nil {
		c.Note("%s: %v", id, err)
		return
	}
	defer os.RemoveAll(dir)
	src := filepath.Join(dir, "src")
	os.MkdirAll(filepath.Join(src, "d", "sub"), 0o755)
	os.WriteFile(filepath.Join(src, "f1"), r.Bytes(1+r.Intn(40)), 0o644)
	os.WriteFile(filepath.Join(src, "f2"), r.Bytes(3000+r.Intn(9000)), 0o640)
	os.WriteFile(filepath.Join(src, "d", "g"), r.Bytes(r.Intn(2000)), 0o600)
	os.WriteFile(filepath.Join(src, "d", "sub", "h"), nil, 0o444)
	os.Symlink("f1", filepath.Join(src, "lnk"))
	size := int64(8 << 20)
	bsz := []string{"1024", "4096"}[idx%2]
	isz := []string{"256", "256", "512"}[idx%3]
	img := filepath.Join(dir, "x.img")
	run := func(name string, args ...string) (string, error) {
		out, e := exec.Command(name, args...).CombinedOutput()
		return string(out), e
	}
	if out, e := run("truncate", "-s", fmt.Sprint(size), img); e != nil {
		c.Note("%s: truncate: %v %s", id, e, out)
		return
	}
	if out, e := run("/usr/sbin/mke2fs", "-q", "-t", "ext4", "-b", bsz, "-I", isz, "-d", src, img); e != nil {
		c.Note("%s: mke2fs unavailable or failed (%v %s); skipped", id, e, tailStr(out, 200))
		c.Stat("ext4rmw-skipped")
		return
	}
	paths := []string{"f1", "f2", "d", "d/g", "d/sub", "d/sub/h"}
	var cmds strings.Builder
	desc := fmt.Sprintf("mke2fs -t ext4 -b %s -I %s -d <tree: f1 f2 d/ d/g d/sub/ d/sub/h lnk>; debugfs:", bsz, isz)
	for _, p := range paths {
		if r.Chance(70) {
			val := hex.EncodeToString(r.Bytes(1 + r.Intn(12)))
			name := hx.Pick(r, []string{"user.verif", "user.a", "security.selinux", "trusted.t", "user.longer_attribute_name"})
			fmt.Fprintf(&cmds, "ea_set /%s %s %s\n", p, name, val)
		}
		if r.Chance(30) {
			fmt.Fprintf(&cmds, "ea_set /%s user.second %s\n", p, hex.EncodeToString(r.Bytes(1+r.Intn(20))))
		}
		if r.Chance(50) {
			fmt.Fprintf(&cmds, "set_inode_field /%s projid %d\n", p, 1+r.Intn(100000))
		}
		if r.Chance(50) {
			fmt.Fprintf(&cmds, "set_inode_field /%s version 0x%x\n", p, r.U64()>>uint(r.Intn(30)))
		}
		if r.Chance(30) {
			fmt.Fprintf(&cmds, "set_inode_field /%s uid %d\nset_inode_field /%s gid %d\n", p, hx.Pick(r, idChoices[:10]), p, hx.Pick(r, idChoices[:10]))
		}
	}
	cf := filepath.Join(dir, "cmds")
	os.WriteFile(cf, []byte(cmds.String()), 0o644)
	if out, e := run("/usr/sbin/debugfs", "-w", "-f", cf, img); e != nil {
		c.Note("%s: debugfs failed (%v %s); skipped", id, e, tailStr(out, 200))
		return
	}
	desc += " " + strings.ReplaceAll(strings.TrimSpace(cmds.String()), "\n", "; ")
	raw, err := os.ReadFile(img)
	if err != nil {
		c.Note("%s: %v", id, err)
		return
	}
	dev := memdev.New(size)
	dev.KeepData = false
	dev.RawWrite(raw, 0)
	var fsys *ext4.FileSystem
	if p := safe(func() { fsys, err = ext4.Read(dev, size, 0, 512) }); p != "" || err != nil {
		c.Fail(id+"/open", "-", fmt.Sprintf("cannot open the mke2fs image: %v %s", err, p), desc)
		return
	}
	want := map[string]string{}
	for _, p := range paths {
		var m map[string][]byte
		var e error
		if pp := safe(func() { m, e = fsys.GetXattr(p) }); pp != "" || e != nil {
			c.Fail(id+"/xattr0/"+p, "-", fmt.Sprintf("GetXattr(%s) on the fresh image: %v %s", p, e, pp), desc)
			return
		}
		want[p] = xattrStr(m)
		if len(m) > 0 {
			c.Stat("ext4rmw-path-with-xattrs")
		}
	}
	var hist []string
	nops := c.N(14, 60)
	reproduced := false
	for k := 0; k < nops; k++ {
		sub := fmt.Sprintf("%s/op%d", id, k)
		p := hx.Pick(r, paths)
		op := []string{"chmod", "chown", "chtimes"}[r.Intn(3)]
		bits := uint32(r.Intn(1 << 12))
		uid, gid := int64(hx.Pick(r, idChoices[:10])), int64(hx.Pick(r, idChoices[:10]))
		if r.Chance(25) {
			uid = -1
		}
		if r.Chance(25) {
			gid = -1
		}
		cr, at, mt := ext4Time(r), ext4Time(r), ext4Time(r)
		if !c.Want(sub) {
			continue
		}
		var ino uint32
		var b0, b1 []byte
		var opErr error
		var xa map[string][]byte
		what := ""
		pan := safe(func() {
			if ino, err = fsys.VerifLookup(p); err != nil {
				return
			}
			if b0, err = fsys.VerifInodeRaw(ino); err != nil {
				return
			}
			switch op {
			case "chmod":
				what = fmt.Sprintf("Chmod %s %04o", p, bits)
				opErr = fsys.Chmod(p, goModeOf(bits))
			case "chown":
				what = fmt.Sprintf("Chown %s %d:%d", p, uid, gid)
				opErr = fsys.Chown(p, int(uid), int(gid))
			default:
				what = fmt.Sprintf("Chtimes %s cr=%d at=%d mt=%d", p, cr.Unix(), at.Unix(), mt.Unix())
				opErr = fsys.Chtimes(p, cr, at, mt)
			}
			if opErr != nil {
				return
			}
			if b1, err = fsys.VerifInodeRaw(ino); err != nil {
				return
			}
			xa, err = fsys.GetXattr(p)
		})
		hist = append(hist, what)
		histS := desc + " history=" + tailStr(strings.Join(hist, "; "), 1200)
		if pan != "" || err != nil || opErr != nil {
			c.Fail(sub, "-", fmt.Sprintf("%s on the mke2fs image: %v %v %s", what, opErr, err, pan), histS)
			err = nil
			continue
		}
		// which write-back the code has, judged on this record: were the bytes the struct does not carry kept?
		keep := len(b0) == len(b1)
		for i := 0; keep && i < len(b0); i++ {
			if droppedAt(i) && b0[i] != b1[i] {
				keep = false
			}
		}
		args := []string{"op=" + op, fmt.Sprintf("keep=%d", b2i(keep)), "before=" + hex.EncodeToString(b0)}
		switch op {
		case "chmod":
			args = append(args, fmt.Sprintf("perm=%d", bits))
		case "chown":
			args = append(args, fmt.Sprintf("uid=%d", uid), fmt.Sprintf("gid=%d", gid))
		default:
			t := func(k string, x time.Time) []string {
				return []string{fmt.Sprintf("%s=%d", k, x.Unix()), fmt.Sprintf("%sn=%d", k, x.Nanosecond())}
			}
			args = append(args, t("cr", cr)...)
			args = append(args, t("at", at)...)
			args = append(args, t("mt", mt)...)
		}
		c.Case(sub, "meta.ext4rmw", args...)
		c.Impl(sub, "after="+hex.EncodeToString(blankCsum(b1)))
		// S: nothing but the setter's words (and the checksum) changes, the extended attributes included
		var probs []string
		onlyDropped := true
		for i := range b0 {
			if i >= len(b1) || b0[i] == b1[i] || (i >= 0x7c && i < 0x7e) || (i >= 0x82 && i < 0x84) {
				continue
			}
			ok := false
			for _, rg := range frameRanges[op] {
				if i >= rg[0] && i < rg[1] {
					ok = true
				}
			}
			if !ok {
				probs = append(probs, fmt.Sprintf("byte %#x changed %02x -> %02x", i, b0[i], b1[i]))
				if !droppedAt(i) || b1[i] != 0 {
					onlyDropped = false
				}
			}
		}
		if got := xattrStr(xa); got != want[p] {
			probs = append(probs, fmt.Sprintf("extended attributes %q, before the call %q", tailStr(got, 120), tailStr(want[p], 120)))
			want[p] = got // one verdict per loss
		}
		switch {
		case len(probs) == 0:
			c.OK(sub)
		case onlyDropped && !keep:
			reproduced = true
			c.Fail(sub, tagWriteBack, fmt.Sprintf("%s (inode %d): %s", what, ino, strings.Join(first6(probs), "; ")), histS)
		default:
			c.Fail(sub, "-", fmt.Sprintf("%s (inode %d): %s", what, ino, strings.Join(first6(probs), "; ")), histS)
		}
		c.Stat("ext4rmw/" + op)
		if bytes.ContainsRune(b0[0x98:], 0xea) || !bytes.Equal(b0[0x98:0xa0], make([]byte, 8)) {
			c.Stat("ext4rmw/record-with-extra-fields")
		}
	}
	_ = reproduced
	// re-open: the attributes are still what the last live look said
	var re *ext4.FileSystem
	if p := safe(func() { re, err = ext4.Read(dev, size, 0, 512) }); p != "" || err != nil {
		c.Fail(id+"/reopen", "-", fmt.Sprintf("cannot re-open the image: %v %s", err, p), desc)
		return
	}
	for _, p := range paths {
		sub := id + "/reopen/" + p
		if !c.Want(sub) {
			continue
		}
		var m map[string][]byte
		var e error
		if pp := safe(func() { m, e = re.GetXattr(p) }); pp != "" || e != nil {
			c.Fail(sub, "-", fmt.Sprintf("GetXattr(%s) after re-open: %v %s", p, e, pp), desc)
			continue
		}
		if got := xattrStr(m); got != want[p] {
			c.Fail(sub, "-", fmt.Sprintf("extended attributes of %s after re-open %q, live %q", p, got, want[p]), desc)
		} else {
			c.OK(sub)
		}
	}
	c.Distinct("ext4rmw:" + desc + strings.Join(hist, ";"))
	c.Sample(id + ": " + tailStr(desc, 300) + " | " + tailStr(strings.Join(hist, "; "), 300))
}
