package meta

import (
	"bytes"
	"fmt"
	iofs "io/fs"
	"os"
	"path/filepath"
	"strings"

	"github.com/diskfs/go-diskfs/filesystem"
	"github.com/diskfs/go-diskfs/filesystem/ext4"
	"github.com/diskfs/go-diskfs/filesystem/iso9660"
	"github.com/diskfs/go-diskfs/filesystem/squashfs"

	"verif/harness/internal/hx"
	"verif/harness/internal/memdev"
)

// Symlink targets with characters and component lengths at which a path codec may go wrong: backslashes (an
// ordinary character of a POSIX name) and components near NAME_MAX. Every target goes through the real writer of
// each filesystem that stores symlinks (Rock Ridge ISO and squashfs: workspace + Finalize; ext4: Symlink), the
// image is re-opened and the target read back through the listing's entry (ReadLink / Readlink / Sys().LinkTarget)
// or FileSystem.ReadLink (ext4). On squashfs and ext4 a target is an opaque byte string and must come back
// unchanged; on Rock Ridge it is split into component records (C06 models the SL records), two recorded
// defects live there:
//
//	iso-rr-symlink-backslash        trigger: the target contains a backslash;  as found: it comes back with every
//	                                backslash turned into a component separator (a\b -> a/b, \x -> x)
//	iso-rr-symlink-long-component   trigger: a component of 249 bytes or more; as found: the SL entry's length byte
//	                                wraps, the target is lost / different or the directory holding the link unreadable
//
// Every link lives in a directory of its own, so that an unreadable directory is charged to the link that caused it.
const (
	tagRRBackslash = "iso-rr-symlink-backslash"
	tagRRLongComp  = "iso-rr-symlink-long-component"
)

type linkTarget struct {
	name, target string
}

func hasBackslash(t string) bool { return strings.Contains(t, `\`) }

func longestComponent(t string) int {
	m := 0
	for _, c := range strings.Split(t, "/") {
		if len(c) > m {
			m = len(c)
		}
	}
	return m
}

func hasLongComponent(t string) bool { return longestComponent(t) >= 249 }

// backslashAsFound is what the target came back as while the SL encoder split it with universalizePath
func backslashAsFound(t string) string {
	u := strings.ReplaceAll(t, `\`, "/")
	var parts []string
	for _, p := range strings.Split(u, "/") {
		if p != "" {
			parts = append(parts, p)
		}
	}
	s := strings.Join(parts, "/")
	if t[0] == '/' { // the root flag was taken from the target as given
		s = "/" + s
	}
	return s
}

func linkTargetSet(c *hx.Ctx, r *hx.Rng) []linkTarget {
	var ts []linkTarget
	add := func(name, t string) { ts = append(ts, linkTarget{name, t}) }
	// backslashes: alone, leading, trailing, doubled, between names, mixed with '/', beside '.' and '..'
	for i, t := range []string{
		`\`, `\x`, `x\`, `a\b`, `a\\b`, `\\`, `\\\`, `\a\b\`,
		`a\b/c`, `a/b\c`, `a\b/c\d`, `\/x`, `x/\`, `/\`, `/a\b`, `/\x/y\`,
		`.\x`, `..\..\x`, `../a\b`, `./\`, `C:\dir\file.txt`,
	} {
		add(fmt.Sprintf("bs%02d", i), t)
	}
	// one long component, alone and with neighbours; 248 is the last length the SL entry's length byte holds
	lens := []int{247, 248, 249, 255}
	if c.Thorough() {
		lens = []int{243, 244, 245, 246, 247, 248, 249, 250, 251, 252, 253, 254, 255}
	}
	for _, n := range lens {
		y := strings.Repeat("y", n)
		add(fmt.Sprintf("comp%d", n), y)
		add(fmt.Sprintf("comp%d-tail", n), "x/"+y)
		add(fmt.Sprintf("comp%d-head", n), y+"/x")
		add(fmt.Sprintf("comp%d-abs", n), "/"+y)
		add(fmt.Sprintf("comp%d-mid", n), "../"+y+"/./z")
	}
	// random targets: components of printable bytes (backslash among them, a few two-byte UTF-8 letters), up to 248 bytes
	// each, within the targets one continuation block holds
	alphabet := []byte(`abcXYZ019 .-_+~!#$%&()[]{}'"` + "`" + `\\\\`)
	nr := c.N(12, 120)
	for i := 0; i < nr; i++ {
		var sb strings.Builder
		if r.Chance(25) {
			sb.WriteByte('/')
		}
		nc := 1 + r.Intn(5)
		for j := 0; j < nc; j++ {
			if j > 0 {
				sb.WriteByte('/')
			}
			ln := 1 + r.Intn(20)
			switch r.Intn(6) {
			case 0:
				ln = 240 + r.Intn(9)
			case 1:
				ln = 1 + r.Intn(3)
			}
			var comp []byte
			for len(comp) < ln {
				if r.Chance(5) && len(comp)+2 <= ln {
					comp = append(comp, 0xc3, byte(0xa0+r.Intn(30)))
					continue
				}
				comp = append(comp, hx.Pick(r, alphabet))
			}
			if s := string(comp); s == "." || s == ".." {
				comp = append(comp, 'q') // "." and ".." have records of their own; C06's subject
			}
			sb.Write(comp)
		}
		add(fmt.Sprintf("rnd%03d", i), sb.String())
	}
	return ts
}

func e2eLinkTargets(c *hx.Ctx, r *hx.Rng) {
	ts := linkTargetSet(c, r)
	for _, k := range []string{"iso", "sqfs", "ext4"} {
		id := "linktgt-" + k
		if c.Only == "" || c.Only == id || strings.HasPrefix(c.Only, id+"/") {
			linkTargetsImage(c, id, k, ts)
		}
	}
	if c.Only == "" || strings.HasPrefix(c.Only, "linktgt-known") {
		linkTargetWitnesses(c)
	}
}

// linkWorkspaceImage finalizes a workspace holding one directory per link and returns the re-opened filesystem
func linkWorkspaceImage(kind string, ts []linkTarget) (re filesystem.FileSystem, made map[string]bool, cleanup func(), err error) {
	size := int64(32 << 20)
	dev := memdev.New(size)
	dev.KeepData = false
	made = map[string]bool{}
	cleanup = func() {}
	var ws string
	var finalize func() error
	var reopen func() (filesystem.FileSystem, error)
	if kind == "sqfs" {
		f, e := squashfs.Create(dev, size, 0, 4096)
		if e != nil {
			return nil, nil, cleanup, fmt.Errorf("Create: %w", e)
		}
		ws = f.Workspace()
		finalize = func() error {
			return f.Finalize(squashfs.FinalizeOptions{NoCompressInodes: true, NoCompressData: true, NoCompressFragments: true})
		}
		cleanup = func() { safe(func() { f.Close() }); os.RemoveAll(ws) }
		reopen = func() (filesystem.FileSystem, error) { return squashfs.Read(dev, size, 0, 4096) }
	} else {
		f, e := iso9660.Create(dev, size, 0, 2048, "")
		if e != nil {
			return nil, nil, cleanup, fmt.Errorf("Create: %w", e)
		}
		ws = f.Workspace()
		finalize = func() error { return f.Finalize(iso9660.FinalizeOptions{RockRidge: true, VolumeIdentifier: "LINKS"}) }
		cleanup = func() { safe(func() { f.Close() }); os.RemoveAll(ws) }
		reopen = func() (filesystem.FileSystem, error) { return iso9660.Read(dev, size, 0, 2048) }
	}
	for _, t := range ts {
		d := filepath.Join(ws, t.name)
		if e := os.Mkdir(d, 0o755); e != nil {
			continue
		}
		if e := os.Symlink(t.target, filepath.Join(d, "link")); e != nil {
			continue
		}
		made[t.name] = true
	}
	if e := finalize(); e != nil {
		return nil, made, cleanup, fmt.Errorf("Finalize: %w", e)
	}
	re, err = reopen()
	if err != nil {
		return nil, made, cleanup, fmt.Errorf("re-open: %w", err)
	}
	return re, made, cleanup, nil
}

// readBackLink reads the target of <dir>/link from a re-opened squashfs or ISO image through the listing:
// the entry's own ReadLink/Readlink and Sys().LinkTarget must agree
func readBackLink(re filesystem.FileSystem, dir string) (target string, problem string) {
	var des []iofs.DirEntry
	var e error
	if p := safe(func() { des, e = re.ReadDir(dir) }); p != "" {
		return "", "ReadDir(" + dir + ") panicked: " + p
	}
	if e != nil {
		return "", "ReadDir(" + dir + "): " + e.Error()
	}
	var ent iofs.DirEntry
	for _, d := range des {
		if d.Name() == "link" {
			ent = d
		}
	}
	if ent == nil {
		return "", fmt.Sprintf("%s lists %d entries, none named link", dir, len(des))
	}
	var fi iofs.FileInfo
	if p := safe(func() { fi, e = ent.Info() }); p != "" || e != nil || fi == nil {
		return "", fmt.Sprintf("Info(): %v %s", e, p)
	}
	if fi.Mode()&iofs.ModeSymlink == 0 {
		return "", "listed with mode " + fi.Mode().String() + ", not as a symlink"
	}
	var viaSys, viaEntry string
	haveEntry := false
	switch st := fi.Sys().(type) {
	case *squashfs.StatT:
		viaSys = st.LinkTarget
	case *iso9660.StatT:
		viaSys = st.LinkTarget
	default:
		return "", fmt.Sprintf("Sys() is %T", fi.Sys())
	}
	if p := safe(func() {
		switch x := ent.(type) {
		case interface{ ReadLink() (string, bool) }:
			var ok bool
			viaEntry, ok = x.ReadLink()
			haveEntry = true
			if !ok {
				problem = "the entry's ReadLink reports no target"
			}
		case interface{ Readlink() (string, error) }:
			var e2 error
			viaEntry, e2 = x.Readlink()
			haveEntry = true
			if e2 != nil {
				problem = "the entry's Readlink: " + e2.Error()
			}
		}
	}); p != "" {
		return "", "ReadLink panicked: " + p
	}
	if problem != "" {
		return viaSys, problem
	}
	if !haveEntry {
		return viaSys, fmt.Sprintf("the listing's entry (%T) has no ReadLink", ent)
	}
	if viaEntry != viaSys {
		return viaSys, fmt.Sprintf("ReadLink says %q, Sys().LinkTarget %q", tailStr(viaEntry, 60), tailStr(viaSys, 60))
	}
	return viaSys, ""
}

func describeTarget(t string) string {
	return fmt.Sprintf("%d bytes, longest component %d, %q", len(t), longestComponent(t), tailStr(t, 48))
}

func linkTargetsImage(c *hx.Ctx, id, kind string, ts []linkTarget) {
	desc := fmt.Sprintf("%s case=%s: one directory per symlink, <name>/link -> target; writer, re-open, read the target back", kind, id)
	verdict := func(t linkTarget, got, problem string) {
		sub := id + "/" + t.name
		repro := desc + fmt.Sprintf("; target=%q", t.target)
		c.Stat("linktgt-" + kind + "-checked")
		switch {
		case hasLongComponent(t.target):
			c.Stat("linktgt-" + kind + "-component>=249")
		case hasBackslash(t.target):
			c.Stat("linktgt-" + kind + "-backslash")
		case longestComponent(t.target) >= 240:
			c.Stat("linktgt-" + kind + "-component-240..248")
		}
		if problem == "" && got == t.target {
			c.OK(sub)
			return
		}
		tag := "-"
		if kind == "iso" {
			switch {
			case hasLongComponent(t.target) && !hasBackslash(t.target):
				// the wrapped length byte explains a lost or different target and an unreadable directory
				tag = tagRRLongComp
			case hasBackslash(t.target) && !hasLongComponent(t.target) && problem == "" && got == backslashAsFound(t.target):
				tag = tagRRBackslash
			}
		}
		if problem == "" {
			problem = fmt.Sprintf("target read back as %s", describeTarget(got))
		}
		c.Fail(sub, tag, fmt.Sprintf("%s symlink to (%s): %s", kind, describeTarget(t.target), problem), repro)
	}
	if kind == "ext4" {
		size := int64(24 << 20)
		dev := memdev.New(size)
		dev.KeepData = false
		var fsys *ext4.FileSystem
		var err error
		if p := safe(func() { fsys, err = ext4.Create(dev, size, 0, 512, &ext4.Params{}) }); p != "" || err != nil {
			c.Note("%s: ext4.Create failed (%v %s); skipped", id, err, p)
			return
		}
		made := map[string]bool{}
		for _, t := range ts {
			t := t
			var e error
			p := safe(func() {
				if e = fsys.Mkdir(t.name); e == nil {
					e = fsys.Symlink(t.target, t.name+"/link")
				}
			})
			if p != "" || e != nil {
				c.Fail(id+"/"+t.name, "-", fmt.Sprintf("ext4 Mkdir+Symlink to (%s): %v %s", describeTarget(t.target), e, p), desc)
				continue
			}
			made[t.name] = true
		}
		var re *ext4.FileSystem
		if p := safe(func() { re, err = ext4.Read(dev, size, 0, 512) }); p != "" || err != nil {
			c.Fail(id+"/reopen", "-", fmt.Sprintf("cannot re-open: %v %s", err, p), desc)
			return
		}
		for _, t := range ts {
			if !made[t.name] || !c.Want(id+"/"+t.name) {
				continue
			}
			var got string
			var e error
			problem := ""
			if p := safe(func() { got, e = re.ReadLink(t.name + "/link") }); p != "" || e != nil {
				problem = fmt.Sprintf("ReadLink: %v %s", e, p)
			} else if fi, e2 := re.Stat(t.name + "/link"); e2 == nil && fi.Mode()&iofs.ModeSymlink != 0 && fi.Size() != int64(len(t.target)) {
				problem = fmt.Sprintf("size %d", fi.Size())
			}
			verdict(t, got, problem)
		}
		c.Distinct(id)
		return
	}
	var re filesystem.FileSystem
	var made map[string]bool
	var cleanup func()
	var err error
	if p := safe(func() { re, made, cleanup, err = linkWorkspaceImage(kind, ts) }); p != "" || err != nil {
		if cleanup != nil {
			cleanup()
		}
		c.Fail(id+"/image", "-", fmt.Sprintf("%s image with %d symlinks: %v %s", kind, len(ts), err, p), desc)
		return
	}
	defer cleanup()
	for _, t := range ts {
		if !made[t.name] || !c.Want(id+"/"+t.name) {
			continue
		}
		got, problem := readBackLink(re, t.name)
		verdict(t, got, problem)
	}
	c.Distinct(id)
	c.Sample(fmt.Sprintf("%s: %d symlinks, one per directory, targets with backslashes and components of 240..255 bytes", id, len(ts)))
}

// linkTargetWitnesses replays the witnesses of the two recorded Rock Ridge findings on the encoder (hook) and on an
// image of its own each: a repaired defect that comes back is reported as such, an open one as still there.
func linkTargetWitnesses(c *hx.Ctx) {
	one := func(target string) (got, problem string) {
		var re filesystem.FileSystem
		var cleanup func()
		var err error
		if p := safe(func() { re, _, cleanup, err = linkWorkspaceImage("iso", []linkTarget{{"w", target}}) }); p != "" || err != nil {
			if cleanup != nil {
				cleanup()
			}
			return "", fmt.Sprintf("image: %v %s", err, p)
		}
		defer cleanup()
		return readBackLink(re, "w")
	}
	// backslash: a\b stored as the components a and b
	{
		var enc1, enc2 []byte
		p := safe(func() { enc1, enc2 = iso9660.VerifC06SLBytes(`a\b`), iso9660.VerifC06SLBytes(`a/b`) })
		hook := p == "" && bytes.Equal(enc1, enc2)
		got, problem := one(`a\b`)
		img := problem == "" && got == `a/b`
		c.Known(tagRRBackslash, hook || img, fmt.Sprintf(`SL bytes of a\b = %x, of a/b = %x %s; image: link -> a\b read back as %q %s`, enc1, enc2, p, got, problem))
		if !(hook || img) {
			c.Stat("linktgt-witness-backslash-absent")
		}
	}
	// long component: x/ + 249 y; the second SL entry's length byte is 0
	{
		t := "x/" + strings.Repeat("y", 249)
		var enc []byte
		p := safe(func() { enc = iso9660.VerifC06SLBytes(t) })
		// first entry: SL, 5+3 bytes (component x), continued; second: header + 2 + 249 = 256 bytes
		hook := p == "" && len(enc) > 8+2 && enc[2] == 8 && enc[8] == 'S' && enc[9] == 'L' && enc[10] == 0
		got, problem := one(t)
		img := problem != "" || got != t
		c.Known(tagRRLongComp, hook && img, fmt.Sprintf("SL bytes of x/ + 249 y: %d bytes, second entry's length byte %s %s; image: read back as (%s) %s",
			len(enc), lenByte(enc, 10), p, describeTarget(got), problem))
		if hook && img {
			c.Stat("linktgt-witness-longcomponent-reproduced")
		}
	}
}

func lenByte(b []byte, i int) string {
	if i < len(b) {
		return fmt.Sprint(b[i])
	}
	return "absent"
}
