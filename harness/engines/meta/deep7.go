package meta

import (
	"fmt"
	"strings"

	"verif/harness/internal/hx"
)

// runDeep7 holds the regimes of the seventh round; each draws from a fork of its own, in a fixed order, after all earlier
// regimes, so that the streams of the cases above are what they were.
func runDeep7(c *hx.Ctx, r *hx.Rng) {
	e2eLinkTargets(c, r.Fork())
	rx := r.Fork()
	if c.Only == "" || strings.HasPrefix(c.Only, "codec") {
		codecSqXattr(c, rx)
		codecSqXattrWriter(c, rx)
	}
	nx := c.N(2, 12)
	for i := 0; i < nx; i++ {
		rr := r.Fork()
		id := fmt.Sprintf("sqxattr-%d", i)
		if c.Only == "" || c.Only == id || strings.HasPrefix(c.Only, id+"/") {
			e2eSqXattr(c, rr, id, i)
		}
	}
	if c.Only == "" || strings.HasPrefix(c.Only, "sqxattr-fixture") {
		sqXattrFixture(c)
	}
	if c.Only == "" || strings.HasPrefix(c.Only, "sqxattr-known") {
		sqXattrWitness(c)
	}
	// FAT flags and stamps on the raw directory bytes (fatflags.go)
	nf := c.N(3, 18)
	for i := 0; i < nf; i++ {
		rr := r.Fork()
		id := fmt.Sprintf("fatflags-%d", i)
		if c.Only == "" || c.Only == id || strings.HasPrefix(c.Only, id+"/") {
			e2eFatFlags(c, rr, id, i)
		}
	}
}
