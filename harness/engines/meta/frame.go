package meta

import (
	"encoding/hex"
	"fmt"
	"os"
	"strings"
	"time"

	"github.com/diskfs/go-diskfs/filesystem/ext4"

	"verif/harness/internal/hx"
	"verif/harness/internal/memdev"
)

// ---- ext4: Chmod / Chown / Chtimes on the whole inode record -----------------------------------------
//
// The setters read the inode, change their fields and write the inode back. The 256-byte record before and
// after is read through a hook; the Lean mirror (Model/Ext4/InodeAttrBytes.lean) replaces the setter's words
// in the record before and must arrive at the record after (checksum fields blanked on both sides), and the
// harness itself demands that no byte outside the setter's words and the checksum changed and that the
// record decodes to the attributes that were set.

// byte ranges a setter may change (besides the checksum halves at 0x7c and 0x82)
var frameRanges = map[string][][2]int{
	"chmod":   {{0x0, 0x2}},
	"chown":   {{0x2, 0x4}, {0x18, 0x1a}, {0x78, 0x7c}},
	"chtimes": {{0x8, 0xc}, {0x10, 0x14}, {0x88, 0x98}},
}

func blankCsum(b []byte) []byte {
	c := append([]byte(nil), b...)
	if len(c) >= 0x84 {
		c[0x7c], c[0x7d], c[0x82], c[0x83] = 0, 0, 0, 0
	}
	return c
}

func e2eExt4Frame(c *hx.Ctx, r *hx.Rng, id string, idx int) {
	size := int64(24 << 20)
	desc := fmt.Sprintf("ext4 size=%d case=%s", size, id)
	dev := memdev.New(size)
	dev.KeepData = false
	var fsys *ext4.FileSystem
	var err error
	if p := safe(func() { fsys, err = ext4.Create(dev, size, 0, 512, &ext4.Params{}) }); p != "" || err != nil {
		c.Note("%s: ext4.Create failed (%v %s); skipped", id, err, p)
		return
	}
	var hist []string
	try := func(what string, f func() error) bool {
		var e error
		p := safe(func() { e = f() })
		if p != "" {
			e = fmt.Errorf("panic: %s", p)
		}
		if e != nil {
			hist = append(hist, what+" -> "+e.Error())
			return false
		}
		hist = append(hist, what)
		return true
	}
	write := func(p string, flag int, n int) func() error {
		return func() error {
			h, e := fsys.OpenFile(p, flag)
			if e != nil {
				return e
			}
			defer h.Close()
			_, e = h.Write(r.Bytes(n))
			return e
		}
	}
	var paths []string
	for _, d := range []string{"d", "d/sub"} {
		d := d
		if try("Mkdir "+d, func() error { return fsys.Mkdir(d) }) {
			paths = append(paths, d)
		}
	}
	for _, f := range []struct {
		p string
		n int
	}{{"empty", 0}, {"d/x", 5000}, {"small", 17}, {"d/sub/two-extents", 3000}} {
		if try(fmt.Sprintf("write %s %d", f.p, f.n), write(f.p, os.O_CREATE|os.O_RDWR, f.n)) {
			paths = append(paths, f.p)
		}
	}
	// another file in between, then an append: the second file's blocks are not contiguous
	try("write filler 2000", write("filler", os.O_CREATE|os.O_RDWR, 2000))
	try("append d/sub/two-extents 4000", write("d/sub/two-extents", os.O_RDWR|os.O_APPEND, 4000))
	if len(paths) == 0 {
		c.Note("%s: nothing to work on: %s", id, strings.Join(hist, "; "))
		return
	}
	nops := c.N(24, 150)
	for k := 0; k < nops; k++ {
		sub := fmt.Sprintf("%s/op%d", id, k)
		p := hx.Pick(r, paths)
		op := []string{"chmod", "chown", "chtimes"}[r.Intn(3)]
		bits := uint32(r.Intn(1 << 12))
		if r.Chance(25) {
			bits = hx.Pick(r, []uint32{0, 0o7777, 0o4755, 0o2750, 0o1777, 0o644})
		}
		uid, gid := int64(hx.Pick(r, idChoices)), int64(hx.Pick(r, idChoices))
		if r.Chance(25) {
			uid = -1
		}
		if r.Chance(25) {
			gid = -1
		}
		if uid == 0xffffffff {
			uid = 0xfffffffe
		}
		if gid == 0xffffffff {
			gid = 0xfffffffe
		}
		cr, at, mt := ext4Time(r), ext4Time(r), ext4Time(r)
		if !c.Want(sub) {
			continue
		}
		var ino uint32
		var b0, b1 []byte
		var a0, a1 ext4.VerifInodeAttrs
		var gm1 uint32
		var opErr error
		what := ""
		pan := safe(func() {
			if ino, err = fsys.VerifLookup(p); err != nil {
				return
			}
			if b0, err = fsys.VerifInodeRaw(ino); err != nil {
				return
			}
			if a0, _, err = decodeRecord(b0); err != nil {
				return
			}
			switch op {
			case "chmod":
				what = fmt.Sprintf("Chmod %s %04o", p, bits)
				opErr = fsys.Chmod(p, goModeOf(bits))
			case "chown":
				what = fmt.Sprintf("Chown %s %d:%d", p, uid, gid)
				opErr = fsys.Chown(p, int(uid), int(gid))
			default:
				what = fmt.Sprintf("Chtimes %s cr=%d.%d at=%d.%d mt=%d.%d", p, cr.Unix(), cr.Nanosecond(), at.Unix(), at.Nanosecond(), mt.Unix(), mt.Nanosecond())
				opErr = fsys.Chtimes(p, cr, at, mt)
			}
			if opErr != nil {
				return
			}
			if b1, err = fsys.VerifInodeRaw(ino); err != nil {
				return
			}
			a1, gm1, err = decodeRecord(b1)
		})
		hist = append(hist, what)
		histS := desc + " history=" + tailStr(strings.Join(hist, "; "), 1500)
		if pan != "" || err != nil {
			c.Fail(sub, "-", fmt.Sprintf("%s: cannot read the inode record of %s: %v %s", what, p, err, pan), histS)
			err = nil
			continue
		}
		if opErr != nil {
			c.Fail(sub, "-", fmt.Sprintf("%s failed: %v", what, opErr), histS)
			continue
		}
		// D: the record afterwards as the mirror computes it from the record before
		args := []string{"op=" + op, "before=" + hex.EncodeToString(b0)}
		switch op {
		case "chmod":
			args = append(args, fmt.Sprintf("perm=%d", bits))
		case "chown":
			args = append(args, fmt.Sprintf("uid=%d", uid), fmt.Sprintf("gid=%d", gid))
		default:
			t := func(k string, x time.Time) []string {
				return []string{fmt.Sprintf("%s=%d", k, x.Unix()), fmt.Sprintf("%sn=%d", k, x.Nanosecond())}
			}
			args = append(args, t("cr", cr)...)
			args = append(args, t("at", at)...)
			args = append(args, t("mt", mt)...)
		}
		c.Case(sub, "meta.ext4frame", args...)
		c.Impl(sub, "after="+hex.EncodeToString(blankCsum(b1)), "attrs="+attrsStr(a1, gm1))
		// S: frame and effect, judged by the harness
		var probs []string
		if len(b0) != len(b1) {
			probs = append(probs, fmt.Sprintf("record length %d -> %d", len(b0), len(b1)))
		} else {
			for i := range b0 {
				if b0[i] == b1[i] || (i >= 0x7c && i < 0x7e) || (i >= 0x82 && i < 0x84) {
					continue
				}
				ok := false
				for _, rg := range frameRanges[op] {
					if i >= rg[0] && i < rg[1] {
						ok = true
					}
				}
				if !ok {
					probs = append(probs, fmt.Sprintf("byte %#x changed %02x -> %02x", i, b0[i], b1[i]))
				}
			}
		}
		want := a0
		switch op {
		case "chmod":
			want.Perm = uint16(bits)
		case "chown":
			if uid >= 0 {
				want.UID = uint32(uid)
			}
			if gid >= 0 {
				want.GID = uint32(gid)
			}
		default:
			want.Crtim, want.Atime, want.Mtime = cr, at, mt
		}
		if got, exp := attrsStr(a1, 0), attrsStr(want, 0); got != exp {
			probs = append(probs, fmt.Sprintf("record decodes to %s, want %s", got, exp))
		}
		if len(probs) > 0 {
			c.Fail(sub, "-", fmt.Sprintf("%s (inode %d): %s", what, ino, strings.Join(first6(probs), "; ")), histS)
		} else {
			c.OK(sub)
		}
		c.Stat("ext4frame/" + op)
		if a0.FileType == 0x4000 {
			c.Stat("ext4frame/on-directory")
		}
	}
	c.Distinct("ext4frame:" + strings.Join(hist, ";"))
	c.Sample(id + ": " + tailStr(strings.Join(hist, "; "), 500))
}

// decodeRecord is inodeFromBytes on a copy whose checksum is recomputed for the hook's superblock (the
// volume's own checksum seed is not the subject here).
func decodeRecord(b []byte) (ext4.VerifInodeAttrs, uint32, error) {
	c := append([]byte(nil), b...)
	ext4.VerifInodeFixChecksum(c, uint16(len(c)))
	return ext4.VerifInodeDecode(c, uint16(len(c)))
}

func first6(s []string) []string {
	if len(s) > 6 {
		return s[:6]
	}
	return s
}
