package meta

import (
	"fmt"
	"os"
	"strings"
	"time"

	"github.com/diskfs/go-diskfs/filesystem"
	"github.com/diskfs/go-diskfs/filesystem/fat12"
	"github.com/diskfs/go-diskfs/filesystem/fat16"
	"github.com/diskfs/go-diskfs/filesystem/fat32"

	"verif/harness/internal/hx"
	"verif/harness/internal/memdev"
)

// ---- FAT Chtimes: the three timestamps of an entry, as stored ------------------------------------------
//
// Chtimes(p, ctime, atime, mtime) -> writeDirectoryEntries -> re-open -> the entry's create / modify / access
// times as parsed. The Lean mirror (fatTimesEnc / fatTimesDec) predicts all three for every civil time,
// also outside 1980..2107 where the 7-bit year field wraps; inside the range the harness itself demands
// create and modify to 2 s and the access date.

func civilStr(t time.Time) string {
	return fmt.Sprintf("%d-%d-%d-%d-%d-%d", t.Year(), int(t.Month()), t.Day(), t.Hour(), t.Minute(), t.Second())
}

func fatCivil(r *hx.Rng) (t time.Time, inRange bool) {
	y := 1980 + r.Intn(128)
	switch r.Intn(10) {
	case 0:
		y = 1980
	case 1:
		y = 2107
	case 2, 3:
		y = hx.Pick(r, []int{1900, 1969, 1970, 1979, 2108, 2109, 2200, 2235, 2236})
	}
	mo := 1 + r.Intn(12)
	d := 1 + r.Intn(daysIn[mo-1])
	h, mi, s := r.Intn(24), r.Intn(60), r.Intn(60)
	switch r.Intn(8) {
	case 0:
		mo, d, h, mi, s = 1, 1, 0, 0, 0
	case 1:
		mo, d, h, mi, s = 12, 31, 23, 59, 59
	}
	return time.Date(y, time.Month(mo), d, h, mi, s, r.Intn(1e9), time.UTC), y >= 1980 && y <= 2107
}

func e2eFatChtimes(c *hx.Ctx, r *hx.Rng, id string, idx int) {
	kinds := []string{"fat12", "fat16", "fat32"}
	k := kinds[idx%3]
	size := map[string]int64{"fat12": 3 << 20, "fat16": 16 << 20, "fat32": 40 << 20}[k]
	desc := fmt.Sprintf("%s size=%d case=%s", k, size, id)
	dev := memdev.New(size)
	dev.KeepData = false
	var fsys, re filesystem.FileSystem
	var err error
	if p := safe(func() {
		switch k {
		case "fat12":
			fsys, err = fat12.Create(dev, size, 0, 512, "TIMES", false)
		case "fat16":
			fsys, err = fat16.Create(dev, size, 0, 512, "TIMES", false)
		default:
			fsys, err = fat32.Create(dev, size, 0, 512, "TIMES", false)
		}
	}); p != "" || err != nil {
		c.Note("%s: Create failed: %v %s", id, err, p)
		return
	}
	type want struct {
		ct, at, mt time.Time
		in         bool
	}
	set := map[string]want{}
	var order []string
	var hist []string
	n := c.N(14, 80)
	for i := 0; i < n; i++ {
		p := fmt.Sprintf("F%d.DAT", i)
		if i%4 == 3 {
			p = fmt.Sprintf("a longer name %d.data", i)
		}
		isDir := i%5 == 4
		var e error
		if pp := safe(func() {
			if isDir {
				p = fmt.Sprintf("DIR%d", i)
				e = fsys.Mkdir(p)
				return
			}
			var h filesystem.File
			if h, e = fsys.OpenFile(p, os.O_CREATE|os.O_RDWR); e == nil {
				_, e = h.Write(r.Bytes(r.Intn(700)))
				h.Close()
			}
		}); pp != "" || e != nil {
			c.Note("%s: cannot create %s: %v %s", id, p, e, pp)
			continue
		}
		ct, in1 := fatCivil(r)
		at, in2 := fatCivil(r)
		mt, in3 := fatCivil(r)
		if pp := safe(func() { e = fsys.Chtimes(p, ct, at, mt) }); pp != "" || e != nil {
			c.Fail(fmt.Sprintf("%s/%d", id, i), "-", fmt.Sprintf("Chtimes(%s) failed: %v %s", p, e, pp), desc)
			continue
		}
		hist = append(hist, fmt.Sprintf("Chtimes %s c=%s a=%s m=%s", p, civilStr(ct), civilStr(at), civilStr(mt)))
		set[p] = want{ct, at, mt, in1 && in2 && in3}
		order = append(order, p)
	}
	if p := safe(func() {
		switch k {
		case "fat12":
			re, err = fat12.Read(dev, size, 0, 512)
		case "fat16":
			re, err = fat16.Read(dev, size, 0, 512)
		default:
			re, err = fat32.Read(dev, size, 0, 512)
		}
	}); p != "" || err != nil {
		c.Fail(id+"/reopen", "-", fmt.Sprintf("cannot re-open: %v %s", err, p), desc+" history="+strings.Join(hist, "; "))
		return
	}
	th, ok := re.(interface {
		VerifEntryTimesOf(string) (time.Time, time.Time, time.Time, bool, error)
	})
	if !ok {
		c.Note("%s: %T has no entry-times hook", id, re)
		return
	}
	floor2 := func(t time.Time) time.Time {
		return time.Date(t.Year(), t.Month(), t.Day(), t.Hour(), t.Minute(), t.Second()/2*2, 0, time.UTC)
	}
	for i, p := range order {
		sub := fmt.Sprintf("%s/e%d", id, i)
		if !c.Want(sub) {
			continue
		}
		w := set[p]
		var cr, mo, ac time.Time
		var found bool
		var e error
		if pp := safe(func() { cr, mo, ac, found, e = th.VerifEntryTimesOf(p) }); pp != "" || e != nil || !found {
			c.Fail(sub, "-", fmt.Sprintf("entry %s not found after re-open: %v %s", p, e, pp), desc)
			continue
		}
		c.Case(sub, "meta.fatchtimes", "c="+civilStr(w.ct), "a="+civilStr(w.at), "m="+civilStr(w.mt))
		c.Impl(sub, "cr="+civilStr(cr), "mo="+civilStr(mo), "ac="+civilStr(ac))
		if w.in {
			y, m, d := w.at.Date()
			if cr.Equal(floor2(w.ct)) && mo.Equal(floor2(w.mt)) && ac.Equal(time.Date(y, m, d, 0, 0, 0, 0, time.UTC)) {
				c.OK(sub)
			} else {
				c.Fail(sub, "-", fmt.Sprintf("Chtimes(%s, %s, %s, %s) reads back create=%s modify=%s access=%s", p, civilStr(w.ct), civilStr(w.at), civilStr(w.mt),
					civilStr(cr), civilStr(mo), civilStr(ac)), desc)
			}
			c.Stat("fatchtimes/in-range")
		} else {
			c.Stat("fatchtimes/year-outside-1980..2107")
		}
	}
	c.Distinct("fatchtimes:" + k + ":" + strings.Join(hist, ";"))
	c.Sample(id + " " + k + ": " + tailStr(strings.Join(hist, "; "), 400))
}
