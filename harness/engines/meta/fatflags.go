package meta

import (
	"encoding/binary"
	"fmt"
	"os"
	"path"
	"sort"
	"strings"
	"time"
	"unicode/utf16"

	"github.com/diskfs/go-diskfs/filesystem"
	"github.com/diskfs/go-diskfs/filesystem/fat12"
	"github.com/diskfs/go-diskfs/filesystem/fat16"
	"github.com/diskfs/go-diskfs/filesystem/fat32"

	"verif/harness/internal/hx"
	"verif/harness/internal/memdev"
)

// tagFat32Dotdot: '..' of a directory below a FAT32 root names the root's own cluster instead of 0
const tagFat32Dotdot = "fat32-dotdot-root-cluster"

// FAT attribute flags and time stamps on the raw directory bytes.
//
// Every setter of the FAT driver re-serialises the whole parent directory. The regime reads the raw bytes of every
// directory of the volume (fixed root region or cluster chain, located through the hooks VerifGeom / VerifTable /
// VerifGetClusterList and a parser of its own) before and after each operation and demands:
//
//   - no directory but the parent of the entry changes at all;
//   - in the parent no 32-byte slot but the entry's 8.3 slot changes: the slots of its long name (order, checksum byte),
//     the volume-label entry, '.' and '..' and every other entry stay as they were;
//   - in the 8.3 slot a flag setter changes its own bit of the attribute byte and nothing else (so neither the directory
//     bit nor the volume-label bit), Chtimes the ten bytes of the three stamps and nothing else;
//   - the long-name slots in front of every 8.3 slot carry its checksum and the sequence n|0x40, n-1 .. 1, before and after;
//   - an operation aimed at the volume label's name is refused and changes nothing;
//   - '.' and '..' of a new directory: right clusters, directory bit, no long name, stamps equal to those of the
//     directory's entry in its parent at creation.
type fatRawHooks interface {
	VerifGeom() (dataStart uint32, bytesPerCluster int, rootDirOffset int64, rootDirMaxEntries int, fat1, fat2 uint64)
	VerifTable() fat12.FATTable
	VerifGetClusterList(first uint32) ([]uint32, error)
}

type rawSlot struct {
	dirKey string // "root" or "c<first cluster>"
	idx    int    // slot index in its directory
	long   string
	short  string // NAME.EXT as stored (upper case), without regard to the lcase byte
	lfnN   int    // number of long-name slots in front
	lfnOK  bool   // checksum and sequence numbers right
	b      []byte // the 32 bytes
}

func (s rawSlot) attr() byte { return s.b[11] }
func (s rawSlot) cluster() uint32 {
	return uint32(binary.LittleEndian.Uint16(s.b[26:28])) | uint32(binary.LittleEndian.Uint16(s.b[20:22]))<<16
}
func (s rawSlot) matches(name string) bool {
	if s.long != "" && s.long == name {
		return true
	}
	return strings.EqualFold(s.short, name)
}

type fatSnap struct {
	dirs   map[string][]byte
	slots  map[string][]rawSlot
	parent map[string]string // dirKey -> key of the directory holding its entry
	errs   []string
}

func sfnChecksum(name11 []byte) byte {
	var s byte
	for _, c := range name11 {
		s = (s>>1 | s<<7) + c
	}
	return s
}

func fatSnapshot(dev *memdev.Dev, h fatRawHooks, fat32root bool) *fatSnap {
	dataStart, bpc, rootOff, rootMax, _, _ := h.VerifGeom()
	sn := &fatSnap{dirs: map[string][]byte{}, slots: map[string][]rawSlot{}, parent: map[string]string{}}
	readChain := func(first uint32) []byte {
		cl, err := h.VerifGetClusterList(first)
		if err != nil {
			sn.errs = append(sn.errs, fmt.Sprintf("cluster list of %d: %v", first, err))
			return nil
		}
		var b []byte
		for _, c := range cl {
			b = append(b, dev.Bytes(int64(dataStart)+int64(c-2)*int64(bpc), bpc)...)
		}
		return b
	}
	var walk func(key string, b []byte, depth int)
	walk = func(key string, b []byte, depth int) {
		sn.dirs[key] = b
		var lfn []string
		var lfnSeq []byte
		var lfnSum []byte
		for i := 0; i+32 <= len(b); i += 32 {
			e := b[i : i+32]
			if e[0] == 0 {
				break
			}
			if e[0] == 0xe5 {
				lfn, lfnSeq, lfnSum = nil, nil, nil
				continue
			}
			if e[11] == 0x0f {
				var u []uint16
				for _, o := range []int{1, 3, 5, 7, 9, 14, 16, 18, 20, 22, 24, 28, 30} {
					u = append(u, binary.LittleEndian.Uint16(e[o:]))
				}
				for j, c := range u {
					if c == 0 {
						u = u[:j]
						break
					}
				}
				lfn = append([]string{string(utf16.Decode(u))}, lfn...)
				lfnSeq = append(lfnSeq, e[0])
				lfnSum = append(lfnSum, e[13])
				continue
			}
			s := rawSlot{dirKey: key, idx: i / 32, b: append([]byte(nil), e...), lfnN: len(lfn), lfnOK: true}
			s.long = strings.Join(lfn, "")
			base, ext := strings.TrimRight(string(e[0:8]), " "), strings.TrimRight(string(e[8:11]), " ")
			s.short = base
			if ext != "" {
				s.short += "." + ext
			}
			sum := sfnChecksum(e[0:11])
			for j := range lfnSeq {
				want := byte(len(lfnSeq) - j)
				if j == 0 {
					want |= 0x40
				}
				if lfnSeq[j] != want || lfnSum[j] != sum {
					s.lfnOK = false
				}
			}
			lfn, lfnSeq, lfnSum = nil, nil, nil
			sn.slots[key] = append(sn.slots[key], s)
			if s.attr()&0x10 != 0 && s.attr()&0x08 == 0 && base != "." && base != ".." && depth < 8 {
				ck := fmt.Sprintf("c%d", s.cluster())
				if _, seen := sn.dirs[ck]; !seen && s.cluster() >= 2 {
					sn.parent[ck] = key
					walk(ck, readChain(s.cluster()), depth+1)
				}
			}
		}
	}
	if fat32root || rootMax == 0 {
		walk("root", readChain(h.VerifTable().RootDirCluster()), 0)
	} else {
		walk("root", dev.Bytes(rootOff, rootMax*32), 0)
	}
	return sn
}

// find the 8.3 slot of path p (components matched by long or short name)
func (sn *fatSnap) find(p string) (rawSlot, bool) {
	key := "root"
	parts := strings.Split(p, "/")
	for i, name := range parts {
		var hit *rawSlot
		for j := range sn.slots[key] {
			s := &sn.slots[key][j]
			if s.attr()&0x08 == 0 && s.matches(name) {
				hit = s
			}
		}
		if hit == nil {
			return rawSlot{}, false
		}
		if i == len(parts)-1 {
			return *hit, true
		}
		key = fmt.Sprintf("c%d", hit.cluster())
	}
	return rawSlot{}, false
}

func (sn *fatSnap) lfnProblems() []string {
	var out []string
	for key, ss := range sn.slots {
		for _, s := range ss {
			if !s.lfnOK {
				out = append(out, fmt.Sprintf("%s slot %d (%s %q): long-name slots with a wrong checksum or sequence", key, s.idx, s.short, s.long))
			}
		}
	}
	sort.Strings(out)
	return out
}

// fatDiff lists the bytes that differ between two snapshots as dirKey -> slot index -> offsets within the slot
func fatDiff(a, b *fatSnap) (map[string]map[int][]int, []string) {
	diff := map[string]map[int][]int{}
	var probs []string
	for key, ab := range a.dirs {
		bb, ok := b.dirs[key]
		if !ok {
			probs = append(probs, "directory "+key+" is gone")
			continue
		}
		if len(ab) != len(bb) {
			probs = append(probs, fmt.Sprintf("directory %s has %d bytes, had %d", key, len(bb), len(ab)))
		}
		for i := 0; i < len(ab) && i < len(bb); i++ {
			if ab[i] != bb[i] {
				if diff[key] == nil {
					diff[key] = map[int][]int{}
				}
				diff[key][i/32] = append(diff[key][i/32], i%32)
			}
		}
	}
	for key := range b.dirs {
		if _, ok := a.dirs[key]; !ok {
			probs = append(probs, "directory "+key+" appeared")
		}
	}
	return diff, probs
}

func e2eFatFlags(c *hx.Ctx, r *hx.Rng, id string, idx int) {
	kinds := []string{"fat12", "fat16", "fat32"}
	k := kinds[idx%3]
	size := map[string]int64{"fat12": 3 << 20, "fat16": 16 << 20, "fat32": 40 << 20}[k]
	const label = "FLAGVOL"
	desc := fmt.Sprintf("%s size=%d label=%s case=%s", k, size, label, id)
	dev := memdev.New(size)
	var fsys filesystem.FileSystem
	var err error
	if p := safe(func() {
		switch k {
		case "fat12":
			fsys, err = fat12.Create(dev, size, 0, 512, label, false)
		case "fat16":
			fsys, err = fat16.Create(dev, size, 0, 512, label, false)
		default:
			fsys, err = fat32.Create(dev, size, 0, 512, label, false)
		}
	}); p != "" || err != nil {
		c.Note("%s: Create failed: %v %s", id, err, p)
		return
	}
	hooks, ok := fsys.(fatRawHooks)
	if !ok {
		c.Note("%s: %T has no raw hooks; skipped", id, fsys)
		return
	}
	type chtimer interface {
		Chtimes(string, time.Time, time.Time, time.Time) error
	}
	type archiver interface {
		SetArchiveBit(string, bool) error
	}
	snap := func() *fatSnap { return fatSnapshot(dev, hooks, k == "fat32") }
	var hist []string
	// --- the tree; every Mkdir is looked at for its '.' and '..'
	dirs := []string{"DIR1", "DIR1/SUB", "a longer Directory name", "a longer Directory name/Inner Dir.d"}
	for _, d := range dirs {
		d := d
		var e error
		if p := safe(func() { e = fsys.Mkdir(d) }); p != "" || e != nil {
			c.Fail(id+"/mkdir/"+d, "-", fmt.Sprintf("Mkdir: %v %s", e, p), desc)
			return
		}
		hist = append(hist, "Mkdir "+d)
		sub := id + "/dots/" + d
		if !c.Want(sub) {
			continue
		}
		sn := snap()
		ent, found := sn.find(d)
		if !found {
			c.Fail(sub, "-", "the new directory's entry is not in the raw bytes of its parent", desc)
			continue
		}
		var probs []string
		knownDotdot := ""
		ss := sn.slots[fmt.Sprintf("c%d", ent.cluster())]
		if len(ss) < 2 || ss[0].short != "." || ss[1].short != ".." || ss[0].idx != 0 || ss[1].idx != 1 {
			probs = append(probs, fmt.Sprintf("the directory does not start with '.' and '..' (%d entries)", len(ss)))
		} else {
			dot, dotdot := ss[0], ss[1]
			wantParent := uint32(0)
			if pd := path.Dir(d); pd != "." {
				if pe, ok := sn.find(pd); ok {
					wantParent = pe.cluster()
				}
			} else if k == "fat32" {
				wantParent = 0 // the root is written as 0 in '..' whatever its cluster
			}
			if dot.attr() != 0x10 || dotdot.attr() != 0x10 {
				probs = append(probs, fmt.Sprintf("attribute bytes %#02x / %#02x, want 0x10", dot.attr(), dotdot.attr()))
			}
			if dot.lfnN != 0 || dotdot.lfnN != 0 {
				probs = append(probs, "'.' or '..' has long-name slots")
			}
			if dot.cluster() != ent.cluster() {
				probs = append(probs, fmt.Sprintf("'.' points at cluster %d, the directory is at %d", dot.cluster(), ent.cluster()))
			}
			if dotdot.cluster() != wantParent {
				if k == "fat32" && path.Dir(d) == "." && dotdot.cluster() == hooks.VerifTable().RootDirCluster() {
					// recorded defect: the root's own cluster instead of 0
					knownDotdot = fmt.Sprintf("'..' of %s, a directory below the root of a FAT32 volume, points at cluster %d (the root's own), the specification wants 0", d, dotdot.cluster())
				} else {
					probs = append(probs, fmt.Sprintf("'..' points at cluster %d, the parent is at %d", dotdot.cluster(), wantParent))
				}
			}
			// stamps: bytes 14..19 and 22..25
			for _, rg := range [][2]int{{14, 20}, {22, 26}} {
				if string(dot.b[rg[0]:rg[1]]) != string(ent.b[rg[0]:rg[1]]) {
					probs = append(probs, fmt.Sprintf("'.' stamp bytes %d..%d are %x, the directory's entry has %x", rg[0], rg[1]-1, dot.b[rg[0]:rg[1]], ent.b[rg[0]:rg[1]]))
				}
				for _, s := range []rawSlot{dot, dotdot} {
					for _, o := range []int{16, 24} { // creation and modification dates: a month 1..12, a day 1..31
						if o < rg[0] || o >= rg[1] {
							continue
						}
						dt := binary.LittleEndian.Uint16(s.b[o:])
						if mo, day := dt>>5&15, dt&31; mo < 1 || mo > 12 || day < 1 {
							probs = append(probs, fmt.Sprintf("%s date word at %d is %#04x (month %d day %d)", s.short, o, dt, mo, day))
						}
					}
				}
			}
			if dot.b[28]|dot.b[29]|dot.b[30]|dot.b[31]|dotdot.b[28]|dotdot.b[29]|dotdot.b[30]|dotdot.b[31] != 0 {
				probs = append(probs, "'.' or '..' has a size")
			}
		}
		if knownDotdot != "" {
			c.Fail(sub+"#"+tagFat32Dotdot, tagFat32Dotdot, knownDotdot, desc)
		}
		if len(probs) > 0 {
			c.Fail(sub, "-", fmt.Sprintf("'.'/'..' of the new directory %s: %s", d, strings.Join(probs, "; ")), desc)
		} else if knownDotdot == "" {
			c.OK(sub)
		}
		c.Stat("fatflags-dots-checked")
	}
	files := []string{"A.TXT", "lower.txt", "Mixed Case Long Name.data", "DIR1/X.BIN", "DIR1/another long file name.bin",
		"DIR1/SUB/deep file with a long name.text", "a longer Directory name/q", "a longer Directory name/Inner Dir.d/thirteen chars"}
	for _, f := range files {
		f := f
		var e error
		if p := safe(func() {
			var h filesystem.File
			if h, e = fsys.OpenFile(f, os.O_CREATE|os.O_RDWR); e == nil {
				_, e = h.Write(r.Bytes(1 + r.Intn(2000)))
				h.Close()
			}
		}); p != "" || e != nil {
			c.Fail(id+"/create/"+f, "-", fmt.Sprintf("create: %v %s", e, p), desc)
			return
		}
		hist = append(hist, "write "+f)
	}
	before := snap()
	if lp := before.lfnProblems(); len(lp) > 0 || len(before.errs) > 0 {
		c.Fail(id+"/lfn-initial", "-", "after creating the tree: "+strings.Join(append(lp, before.errs...), "; "), desc)
	} else if c.Want(id + "/lfn-initial") {
		c.OK(id + "/lfn-initial")
	}
	// --- operations, each judged on the raw bytes
	type op struct {
		name    string
		target  string
		allowed func(old, new []byte) []string // problems in the entry's 8.3 slot
		run     func() error
		refuse  bool
	}
	attrBit := func(bit byte, on bool) func(old, new []byte) []string {
		return func(o, n []byte) []string {
			want := append([]byte(nil), o...)
			if on {
				want[11] |= bit
			} else {
				want[11] &^= bit
			}
			if string(want) != string(n) {
				return []string{fmt.Sprintf("8.3 slot is %x, want %x (attribute byte %#02x -> %#02x, want %#02x)", n, want, o[11], n[11], want[11])}
			}
			return nil
		}
	}
	stampsOnly := func(o, n []byte) []string {
		var bad []int
		for i := range o {
			if o[i] != n[i] && !(i >= 13 && i < 20) && !(i >= 22 && i < 26) {
				bad = append(bad, i)
			}
		}
		if len(bad) > 0 {
			return []string{fmt.Sprintf("Chtimes changed bytes %v of the 8.3 slot outside the stamps (%x -> %x)", bad, o, n)}
		}
		return nil
	}
	viaFile := func(p string, f func(fl *fat12.File) error) func() error {
		return func() error {
			h, e := fsys.OpenFile(p, os.O_RDWR)
			if e != nil {
				return e
			}
			defer h.Close()
			fl, ok := h.(*fat12.File)
			if !ok {
				return fmt.Errorf("OpenFile returned %T", h)
			}
			return f(fl)
		}
	}
	all := append(append([]string(nil), dirs...), files...)
	nops := c.N(30, 120)
	for i := 0; i < nops; i++ {
		var o op
		switch w := r.Intn(10); {
		case w < 3: // flag setters through a file handle
			p := hx.Pick(r, files)
			on := r.Bool()
			which := r.Intn(3)
			o = op{name: fmt.Sprintf("%s %s %v", []string{"SetReadOnly", "SetHidden", "SetSystem"}[which], p, on), target: p,
				allowed: attrBit([]byte{0x01, 0x02, 0x04}[which], on),
				run: viaFile(p, func(fl *fat12.File) error {
					switch which {
					case 0:
						return fl.SetReadOnly(on)
					case 1:
						return fl.SetHidden(on)
					}
					return fl.SetSystem(on)
				})}
		case w < 6: // archive bit on files and directories
			p := hx.Pick(r, all)
			on := r.Bool()
			o = op{name: fmt.Sprintf("SetArchiveBit %s %v", p, on), target: p, allowed: attrBit(0x20, on),
				run: func() error { return fsys.(archiver).SetArchiveBit(p, on) }}
		case w < 9: // times on files and directories
			p := hx.Pick(r, all)
			ct, at, mt := fatTime(r), fatTime(r), fatTime(r)
			o = op{name: fmt.Sprintf("Chtimes %s c=%s a=%s m=%s", p, ct.Format(time.RFC3339), at.Format("2006-01-02"), mt.Format(time.RFC3339)), target: p,
				allowed: stampsOnly, run: func() error { return fsys.(chtimer).Chtimes(p, ct, at, mt) }}
		default: // aimed at the volume label's name: no entry of that name exists
			on := r.Bool()
			if r.Bool() {
				o = op{name: fmt.Sprintf("SetArchiveBit %s %v (the label's name)", label, on), refuse: true,
					run: func() error { return fsys.(archiver).SetArchiveBit(label, on) }}
			} else {
				t := fatTime(r)
				o = op{name: "Chtimes " + label + " (the label's name)", refuse: true, run: func() error { return fsys.(chtimer).Chtimes(label, t, t, t) }}
			}
		}
		sub := fmt.Sprintf("%s/op%d", id, i)
		var e error
		pan := safe(func() { e = o.run() })
		hist = append(hist, o.name)
		after := snap()
		if !c.Want(sub) {
			before = after
			continue
		}
		repro := desc + " history=" + strings.Join(hist, "; ")
		var probs []string
		diff, dp := fatDiff(before, after)
		probs = append(probs, dp...)
		probs = append(probs, after.errs...)
		probs = append(probs, after.lfnProblems()...)
		switch {
		case pan != "":
			probs = append(probs, "panicked: "+pan)
		case o.refuse:
			if e == nil {
				probs = append(probs, "accepted although no file or directory has that name")
			}
			if len(diff) > 0 {
				probs = append(probs, fmt.Sprintf("changed directory bytes %v", diff))
			}
			c.Stat("fatflags-label-name-op")
		case e != nil:
			probs = append(probs, "refused: "+e.Error())
		default:
			ob, ok1 := before.find(o.target)
			nb, ok2 := after.find(o.target)
			if !ok1 || !ok2 {
				probs = append(probs, fmt.Sprintf("the entry's 8.3 slot was not found in the raw bytes (before %v, after %v)", ok1, ok2))
				break
			}
			if ob.dirKey != nb.dirKey || ob.idx != nb.idx || ob.lfnN != nb.lfnN {
				probs = append(probs, fmt.Sprintf("the entry moved: %s slot %d (%d long-name slots) -> %s slot %d (%d)", ob.dirKey, ob.idx, ob.lfnN, nb.dirKey, nb.idx, nb.lfnN))
			}
			for key, slots := range diff {
				for si, offs := range slots {
					if key == ob.dirKey && si == ob.idx {
						continue
					}
					what := "another entry"
					if key == ob.dirKey && si < ob.idx && si >= ob.idx-ob.lfnN {
						what = "a long-name slot of the entry"
					}
					if key != ob.dirKey {
						what = "a slot of another directory"
					}
					probs = append(probs, fmt.Sprintf("%s changed: %s slot %d bytes %v (%x -> %x)", what, key, si, offs, before.dirs[key][si*32:si*32+32], after.dirs[key][si*32:si*32+32]))
				}
			}
			probs = append(probs, o.allowed(ob.b, nb.b)...)
			if ob.attr()&0x18 != nb.attr()&0x18 {
				probs = append(probs, fmt.Sprintf("directory / volume-label bits changed: %#02x -> %#02x", ob.attr(), nb.attr()))
			}
			if ob.attr()&0x10 != 0 {
				c.Stat("fatflags-op-on-directory")
			} else {
				c.Stat("fatflags-op-on-file")
			}
			if ob.lfnN > 0 {
				c.Stat("fatflags-op-on-long-name")
			}
		}
		if len(probs) > 6 {
			probs = append(probs[:6], fmt.Sprintf("... %d more", len(probs)-6))
		}
		if len(probs) > 0 {
			c.Fail(sub, "-", o.name+": "+strings.Join(probs, "; "), repro)
		} else {
			c.OK(sub)
		}
		before = after
	}
	c.Stat("fatflags-kind=" + k)
	c.Distinct(k + ":" + strings.Join(hist, ";"))
	c.Sample(id + " " + k + ": " + tailStr(strings.Join(hist[len(dirs)+len(files):], "; "), 500))
}
