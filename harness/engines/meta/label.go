package meta

import (
	"fmt"
	iofs "io/fs"
	"os"
	"strings"
	"time"

	"github.com/diskfs/go-diskfs/filesystem"
	"github.com/diskfs/go-diskfs/filesystem/fat12"
	"github.com/diskfs/go-diskfs/filesystem/fat16"
	"github.com/diskfs/go-diskfs/filesystem/fat32"

	"verif/harness/internal/hx"
	"verif/harness/internal/memdev"
)

// ---- FAT: a root entry whose name equals the volume label ------------------------------------------------
//
// The volume label is stored as a directory entry of the root directory (attribute 0x08), first in the
// directory when the volume was created with a label. Its 8.3 name matches a file or directory of the same
// name case-insensitively (an EFI system partition labelled EFI that holds /EFI; a file created first and the
// label set to its name later). Every operation that looks an entry up by name must act on the real entry
// and leave the label entry alone: its name (Label()), its three timestamps and its attribute flags.
//
// One fresh volume per (scenario, operation), so that a wrong step cannot hide or fake the next one.

// knownLabelOps: the operations on which the unchanged tree is known to pick the label entry
// (finding fat-label-entry-matched-by-name); a failure of any other operation is never classified under it.
var knownLabelOps = map[string]bool{"rename-away": true, "rename-onto": true, "remove": true, "create": true, "getarchive": true}

const labelTag = "fat-label-entry-matched-by-name"

type labelScenario struct {
	name   string
	label  string // as handed to Create / SetLabel
	entry  string // the root entry named like the label
	isDir  bool
	late   bool // the entry is created first, the label is set afterwards
	absent bool // no entry of that name exists at first (only the label matches)
}

var labelScenarios = []labelScenario{
	{name: "efi-dir", label: "EFI", entry: "EFI", isDir: true},
	{name: "lower-file", label: "DATA", entry: "data"},
	{name: "ext-file", label: "BOOT    BIN", entry: "boot.bin"},
	{name: "late-label", label: "LATER   TXT", entry: "later.txt", late: true},
	{name: "mixed-dir", label: "Meta", entry: "meta", isDir: true},
	{name: "late-dir", label: "efi", entry: "Efi", isDir: true, late: true},
	{name: "only-label", label: "GHOST", entry: "ghost", absent: true},
}

type labelSnap struct {
	name             string
	create, mod, acc time.Time
	flags            [4]bool
	found            bool
	apiLabel         string
	err              error
}

type labelHooks interface {
	VerifEntryTimesOf(string) (time.Time, time.Time, time.Time, bool, error)
	VerifLabelEntry() (string, time.Time, time.Time, time.Time, [4]bool, bool, error)
	VerifEntryFlagsOf(string) ([4]bool, uint32, bool, error)
	SetArchiveBit(string, bool) error
	GetArchiveBit(string) (bool, error)
}

func snapLabel(fsys filesystem.FileSystem) (s labelSnap) {
	h, ok := fsys.(labelHooks)
	if !ok {
		s.err = fmt.Errorf("%T has no label hooks", fsys)
		return
	}
	if p := safe(func() {
		s.name, s.create, s.mod, s.acc, s.flags, s.found, s.err = h.VerifLabelEntry()
		s.apiLabel = fsys.Label()
	}); p != "" {
		s.err = fmt.Errorf("panic: %s", p)
	}
	return
}

func (a labelSnap) diff(b labelSnap) []string {
	var d []string
	if a.err != nil || b.err != nil {
		return []string{fmt.Sprintf("label entry unreadable: %v / %v", a.err, b.err)}
	}
	if a.found != b.found {
		d = append(d, fmt.Sprintf("label entry present=%v, was %v", b.found, a.found))
		return d
	}
	if a.name != b.name {
		d = append(d, fmt.Sprintf("label entry is now %q, was %q", b.name, a.name))
	}
	if a.apiLabel != b.apiLabel {
		d = append(d, fmt.Sprintf("Label() is now %q, was %q", b.apiLabel, a.apiLabel))
	}
	if !a.create.Equal(b.create) || !a.mod.Equal(b.mod) || !a.acc.Equal(b.acc) {
		d = append(d, fmt.Sprintf("label entry times changed: create %s mod %s access %s, were %s %s %s",
			b.create.Format(time.RFC3339), b.mod.Format(time.RFC3339), b.acc.Format("2006-01-02"),
			a.create.Format(time.RFC3339), a.mod.Format(time.RFC3339), a.acc.Format("2006-01-02")))
	}
	if a.flags != b.flags {
		d = append(d, fmt.Sprintf("label entry flags (ro,hidden,system,archive) now %v, were %v", b.flags, a.flags))
	}
	return d
}

func e2eFatLabel(c *hx.Ctx, r *hx.Rng, base string, round int) {
	kinds := []string{"fat12", "fat16", "fat32"}
	ops := []string{"chtimes", "setarchive", "getarchive", "flags", "append", "trunc", "rename-away", "rename-onto", "remove", "create", "open-create-existing"}
	for si, sc := range labelScenarios {
		for oi, op := range ops {
			k := kinds[(round+si+oi)%3]
			id := fmt.Sprintf("%s/%s/%s", base, sc.name, op)
			rr := r.Fork()
			if !(c.Only == "" || c.Only == id || strings.HasPrefix(c.Only, id+"/") || strings.HasPrefix(id, c.Only+"/")) {
				continue
			}
			oneLabelCase(c, rr, id, k, sc, op)
		}
	}
}

func oneLabelCase(c *hx.Ctx, r *hx.Rng, id, k string, sc labelScenario, op string) {
	// which operations make sense for the scenario
	switch {
	case sc.absent && op != "create":
		return
	case !sc.absent && op == "create":
		// "create": OpenFile(O_CREATE) of the name while only the label carries it; for the other scenarios this
		// is reached by removing the entry first, which is the remove case's business
		return
	case sc.isDir && (op == "flags" || op == "append" || op == "trunc" || op == "open-create-existing"):
		return
	}
	size := map[string]int64{"fat12": 3 << 20, "fat16": 16 << 20, "fat32": 40 << 20}[k]
	desc := fmt.Sprintf("%s size=%d label=%q entry=%q dir=%v label-set-after-entry=%v op=%s", k, size, sc.label, sc.entry, sc.isDir, sc.late, op)
	dev := memdev.New(size)
	dev.KeepData = false
	first := sc.label
	if sc.late {
		first = ""
	}
	mk := func() (filesystem.FileSystem, error) {
		switch k {
		case "fat12":
			return fat12.Create(dev, size, 0, 512, first, false)
		case "fat16":
			return fat16.Create(dev, size, 0, 512, first, false)
		}
		return fat32.Create(dev, size, 0, 512, first, false)
	}
	rd := func() (filesystem.FileSystem, error) {
		switch k {
		case "fat12":
			return fat12.Read(dev, size, 0, 512)
		case "fat16":
			return fat16.Read(dev, size, 0, 512)
		}
		return fat32.Read(dev, size, 0, 512)
	}
	var fsys filesystem.FileSystem
	var err error
	if p := safe(func() { fsys, err = mk() }); p != "" || err != nil {
		c.Note("%s: Create failed: %v %s", id, err, p)
		return
	}
	var hist []string
	step := func(what string, f func() error) error {
		var e error
		if p := safe(func() { e = f() }); p != "" {
			e = fmt.Errorf("panic: %s", p)
		}
		if e != nil {
			hist = append(hist, what+" -> "+e.Error())
		} else {
			hist = append(hist, what)
		}
		return e
	}
	writeFile := func(fs filesystem.FileSystem, p string, flag int, data []byte) error {
		h, e := fs.OpenFile(p, flag)
		if e != nil {
			return e
		}
		defer h.Close()
		_, e = h.Write(data)
		return e
	}
	// a neighbour that must never be affected, and the entry itself
	content := r.Bytes(700 + r.Intn(900))
	if step("write OTHER.BIN", func() error { return writeFile(fsys, "OTHER.BIN", os.O_CREATE|os.O_RDWR, []byte("neighbour")) }) != nil {
		c.Note("%s: setup failed: %s", id, strings.Join(hist, "; "))
		return
	}
	if !sc.absent {
		var e error
		if sc.isDir {
			e = step("Mkdir "+sc.entry, func() error { return fsys.Mkdir(sc.entry) })
			if e == nil {
				e = step("write "+sc.entry+"/INSIDE.TXT", func() error {
					return writeFile(fsys, sc.entry+"/INSIDE.TXT", os.O_CREATE|os.O_RDWR, []byte("inside"))
				})
			}
		} else {
			e = step("write "+sc.entry, func() error { return writeFile(fsys, sc.entry, os.O_CREATE|os.O_RDWR, content) })
		}
		if e != nil {
			c.Fail(id, "-", "cannot create an entry named like the volume label: "+e.Error(), desc+" history="+strings.Join(hist, "; "))
			return
		}
	}
	if !sc.absent && !sc.isDir && !sc.late {
		// the file was created while the label already carried its name: it must have an entry of its own
		if _, _, found, e := fsys.(labelHooks).VerifEntryFlagsOf(sc.entry); e != nil || !found {
			c.Stat("name_equals_label")
			c.Stat("name_equals_label/create-in-setup")
			c.Distinct("label:" + desc)
			c.Fail(id, labelTag, fmt.Sprintf("OpenFile(%s, O_CREATE) + Write on a volume labelled %q returned nil but the directory holds no file entry of that name (%v): the label entry was opened as the file",
				sc.entry, sc.label, e), desc+" history="+strings.Join(hist, "; "))
			return
		}
	}
	if sc.late {
		if step("SetLabel "+sc.label, func() error { return fsys.SetLabel(sc.label) }) != nil {
			c.Note("%s: SetLabel failed: %s", id, strings.Join(hist, "; "))
			return
		}
	}
	before := snapLabel(fsys)
	if before.err != nil || !before.found {
		c.Note("%s: no label entry to watch (%v)", id, before.err)
		c.Stat("name_equals_label/no-label-entry")
		return
	}
	// the regime's precondition, established by the harness itself: the label entry's 8.3 name equals the entry's name
	norm := func(s string) string {
		return strings.ToUpper(strings.NewReplacer(" ", "", ".", "").Replace(s))
	}
	if norm(before.name) != norm(sc.entry) {
		c.Note("%s: label entry %q does not match %q; skipped", id, before.name, sc.entry)
		c.Stat("name_equals_label/label-differs")
		return
	}
	ct := time.Date(1999, 12, 31, 23, 59, 58, 0, time.UTC)
	at := time.Date(2003, 4, 5, 0, 0, 0, 0, time.UTC)
	mt := time.Date(2011, 6, 7, 8, 9, 10, 0, time.UTC)
	extra := r.Bytes(1 + r.Intn(600))
	var opErr error
	archWant := false
	switch op {
	case "chtimes":
		opErr = step("Chtimes "+sc.entry, func() error { return fsys.Chtimes(sc.entry, ct, at, mt) })
	case "setarchive", "getarchive":
		// the bit is set to the opposite of what the entry carries; for the getter the entry must also differ
		// from the label entry in that bit (the label entry is created without it)
		fl, _, found, e := fsys.(labelHooks).VerifEntryFlagsOf(sc.entry)
		if e != nil || !found {
			c.Note("%s: entry flags unreadable: %v", id, e)
			return
		}
		archWant = !fl[3]
		if op == "getarchive" {
			archWant = !before.flags[3]
		}
		opErr = step(fmt.Sprintf("SetArchiveBit %s %v", sc.entry, archWant), func() error { return fsys.(labelHooks).SetArchiveBit(sc.entry, archWant) })
	case "flags":
		opErr = step("OpenFile "+sc.entry+" SetHidden+SetSystem+SetReadOnly", func() error {
			h, e := fsys.OpenFile(sc.entry, os.O_RDWR)
			if e != nil {
				return e
			}
			defer h.Close()
			fl, ok := h.(*fat12.File)
			if !ok {
				return fmt.Errorf("OpenFile returned %T", h)
			}
			if e = fl.SetHidden(true); e != nil {
				return e
			}
			if e = fl.SetSystem(true); e != nil {
				return e
			}
			return fl.SetReadOnly(true)
		})
	case "append":
		opErr = step(fmt.Sprintf("append %s %d", sc.entry, len(extra)), func() error {
			return writeFile(fsys, sc.entry, os.O_RDWR|os.O_APPEND, extra)
		})
	case "trunc":
		opErr = step(fmt.Sprintf("OpenFile %s O_TRUNC + write %d", sc.entry, len(extra)), func() error {
			return writeFile(fsys, sc.entry, os.O_RDWR|os.O_TRUNC, extra)
		})
	case "open-create-existing":
		opErr = step(fmt.Sprintf("OpenFile %s O_CREATE + overwrite first %d", sc.entry, len(extra)), func() error {
			return writeFile(fsys, sc.entry, os.O_RDWR|os.O_CREATE, extra)
		})
	case "rename-away":
		opErr = step("Rename "+sc.entry+" MOVED.X", func() error { return fsys.Rename(sc.entry, "MOVED.X") })
	case "rename-onto":
		// free the name, then rename the neighbour onto it: the label entry carries "the new name"
		if sc.isDir {
			opErr = step("Remove "+sc.entry+"/INSIDE.TXT", func() error { return fsys.Remove(sc.entry + "/INSIDE.TXT") })
		}
		if opErr == nil {
			opErr = step("Rename "+sc.entry+" PARKED.X", func() error { return fsys.Rename(sc.entry, "PARKED.X") })
		}
		// the label must be watched from here (the step before is the rename-away case)
		if opErr == nil {
			if now := snapLabel(fsys); len(before.diff(now)) > 0 {
				// rename-away already damaged the label: restore the regime's precondition through SetLabel
				step("SetLabel "+sc.label+" (restore)", func() error { return fsys.SetLabel(sc.label) })
				before = snapLabel(fsys)
			}
			opErr = step("Rename OTHER.BIN "+sc.entry, func() error { return fsys.Rename("OTHER.BIN", sc.entry) })
		}
	case "remove":
		if sc.isDir {
			opErr = step("Remove "+sc.entry+"/INSIDE.TXT", func() error { return fsys.Remove(sc.entry + "/INSIDE.TXT") })
		}
		if opErr == nil {
			opErr = step("Remove "+sc.entry, func() error { return fsys.Remove(sc.entry) })
		}
	case "create":
		opErr = step(fmt.Sprintf("OpenFile %s O_CREATE + write %d", sc.entry, len(extra)), func() error {
			return writeFile(fsys, sc.entry, os.O_RDWR|os.O_CREATE, extra)
		})
	}
	histS := desc + " history=" + strings.Join(hist, "; ")
	// judge on the live handle and again after re-opening the image
	var probs []string    // anything wrong
	var labelHit []string // the part of it that is "the label entry was taken for the named entry"
	judge := func(when string, fs filesystem.FileSystem) {
		add := func(hit bool, format string, a ...any) {
			m := when + ": " + fmt.Sprintf(format, a...)
			probs = append(probs, m)
			if hit {
				labelHit = append(labelHit, m)
			}
		}
		if opErr != nil {
			return
		}
		for _, d := range before.diff(snapLabel(fs)) {
			add(true, "%s", d)
		}
		stat := func(p string) (iofs.FileInfo, error) {
			var fi iofs.FileInfo
			var e error
			if pp := safe(func() { fi, e = fs.Stat(p) }); pp != "" {
				e = fmt.Errorf("panic: %s", pp)
			}
			return fi, e
		}
		readAll := func(p string) ([]byte, error) {
			var b []byte
			var e error
			if pp := safe(func() { b, e = fs.ReadFile(p) }); pp != "" {
				e = fmt.Errorf("panic: %s", pp)
			}
			return b, e
		}
		// the neighbour
		if op != "rename-onto" {
			if b, e := readAll("OTHER.BIN"); e != nil || string(b) != "neighbour" {
				add(false, "neighbour OTHER.BIN reads %q (%v)", tailStr(string(b), 20), e)
			}
		}
		hk := fs.(labelHooks)
		switch op {
		case "chtimes":
			fi, e := stat(sc.entry)
			if e != nil {
				add(false, "Stat(%s): %v", sc.entry, e)
				break
			}
			if !fi.ModTime().Equal(mt) {
				add(true, "ModTime of %s is %s, set %s", sc.entry, fi.ModTime().UTC().Format(time.RFC3339), mt.Format(time.RFC3339))
			}
			cr, _, ac, found, e := hk.VerifEntryTimesOf(sc.entry)
			if e != nil || !found {
				add(false, "entry %s not found: %v", sc.entry, e)
			} else if !cr.Equal(ct) || !ac.Equal(at) {
				add(true, "create/access of %s are %s / %s, set %s / %s", sc.entry, cr.Format(time.RFC3339), ac.Format("2006-01-02"), ct.Format(time.RFC3339), at.Format("2006-01-02"))
			}
		case "setarchive", "getarchive":
			// the stored bit of the real entry is read through the hook (independent of the getter under test)
			fl, _, found, e := hk.VerifEntryFlagsOf(sc.entry)
			if e != nil || !found {
				add(false, "entry %s not found: %v", sc.entry, e)
				break
			}
			if fl[3] != archWant {
				add(false, "archive bit of %s is stored as %v after SetArchiveBit(%v)", sc.entry, fl[3], archWant)
				break
			}
			if op == "getarchive" {
				got, e := hk.GetArchiveBit(sc.entry)
				if e != nil {
					add(false, "GetArchiveBit(%s): %v", sc.entry, e)
				} else if got != archWant {
					add(true, "GetArchiveBit(%s) = %v although the entry stores %v (the label entry stores %v)", sc.entry, got, fl[3], before.flags[3])
				}
			}
		case "flags":
			if pp := safe(func() {
				h, e := fs.OpenFile(sc.entry, os.O_RDONLY)
				if e != nil {
					add(false, "OpenFile(%s): %v", sc.entry, e)
					return
				}
				defer h.Close()
				fl, ok := h.(*fat12.File)
				if !ok {
					add(false, "OpenFile returned %T", h)
					return
				}
				if !fl.IsHidden() || !fl.IsSystem() || !fl.IsReadOnly() {
					add(true, "flags of %s hidden=%v system=%v readonly=%v, all three were set", sc.entry, fl.IsHidden(), fl.IsSystem(), fl.IsReadOnly())
				}
			}); pp != "" {
				add(false, "panic: %s", pp)
			}
		case "append", "trunc", "open-create-existing", "create":
			want := extra
			switch op {
			case "append":
				want = append(append([]byte(nil), content...), extra...)
			case "open-create-existing":
				want = append([]byte(nil), content...)
				copy(want, extra)
				if len(extra) > len(want) {
					want = extra
				}
			}
			fi, e := stat(sc.entry)
			switch {
			case e != nil:
				add(op == "create", "Stat(%s): %v", sc.entry, e)
			case fi.IsDir() || fi.Size() != int64(len(want)):
				add(true, "%s has %d bytes (dir=%v), want %d", sc.entry, fi.Size(), fi.IsDir(), len(want))
			default:
				if b, e := readAll(sc.entry); e != nil || string(b) != string(want) {
					add(false, "%s reads back %d bytes (%v), want %d with the written content", sc.entry, len(b), e, len(want))
				}
			}
		case "rename-away":
			if _, e := stat(sc.entry); e == nil {
				add(false, "%s still exists after Rename", sc.entry)
			}
			fi, e := stat("MOVED.X")
			if e != nil {
				add(false, "Stat(MOVED.X): %v", e)
			} else if fi.IsDir() != sc.isDir {
				add(false, "MOVED.X IsDir=%v", fi.IsDir())
			} else if !sc.isDir {
				if b, e := readAll("MOVED.X"); e != nil || string(b) != string(content) {
					add(false, "MOVED.X reads back %d bytes (%v), want the %d written", len(b), e, len(content))
				}
			}
		case "rename-onto":
			if b, e := readAll(sc.entry); e != nil || string(b) != "neighbour" {
				add(false, "%s reads %q (%v) after Rename(OTHER.BIN, %s)", sc.entry, tailStr(string(b), 20), e, sc.entry)
			}
			if _, e := stat("OTHER.BIN"); e == nil {
				add(false, "OTHER.BIN still exists after Rename")
			}
		case "remove":
			if fi, e := stat(sc.entry); e == nil {
				add(true, "%s still exists after Remove returned nil (dir=%v size=%d)", sc.entry, fi.IsDir(), fi.Size())
			}
		}
	}
	judge("live", fsys)
	if opErr == nil {
		var re filesystem.FileSystem
		if p := safe(func() { re, err = rd() }); p != "" || err != nil {
			probs = append(probs, fmt.Sprintf("cannot re-open the image: %v %s", err, p))
		} else {
			judge("re-opened", re)
		}
	}
	c.Stat("name_equals_label")
	c.Stat("name_equals_label/" + op)
	c.Stat("name_equals_label/kind=" + k)
	c.Distinct("label:" + desc)
	switch {
	case opErr != nil:
		// the operation refused: nothing was promised to be stored. A refusal is not a metadata violation,
		// but the regime was not exercised either.
		c.Stat("name_equals_label/op-refused/" + op)
		c.Note("%s: %s refused: %v", id, op, opErr)
	case len(probs) == 0:
		c.OK(id)
	case knownLabelOps[op] && len(labelHit) == len(probs):
		c.Fail(id, labelTag, fmt.Sprintf("%s on an entry named like the volume label: %s", op, strings.Join(probs, "; ")), histS)
	default:
		c.Fail(id, "-", fmt.Sprintf("%s on an entry named like the volume label: %s", op, strings.Join(probs, "; ")), histS)
	}
	c.Sample(fmt.Sprintf("%s %s label=%q entry=%q op=%s problems=%d", id, k, sc.label, sc.entry, op, len(probs)))
}
