// Package meta is the C19 engine: file metadata (modes, owners, times, link targets, FAT flags) set
// through the API or present on workspace files must be reported unchanged after the image is
// re-opened; plus codec-level correspondence cases for the Lean mirrors.
package meta

import (
	"encoding/binary"
	"encoding/hex"
	"fmt"
	"os"
	"strings"
	"time"

	"github.com/diskfs/go-diskfs/filesystem/ext4"
	"github.com/diskfs/go-diskfs/filesystem/fat12"
	"github.com/diskfs/go-diskfs/filesystem/iso9660"
	"github.com/diskfs/go-diskfs/filesystem/squashfs"

	"verif/harness/internal/hx"
)

func safe(f func()) (panicked string) {
	defer func() {
		if e := recover(); e != nil {
			panicked = fmt.Sprint(e)
		}
	}()
	f()
	return ""
}

func b2i(b bool) int {
	if b {
		return 1
	}
	return 0
}

var daysIn = []int{31, 28, 31, 30, 31, 30, 31, 31, 30, 31, 30, 31}

// ---- FAT date/time and attribute byte ------------------------------------------------------------

func codecFat(c *hx.Ctx, r *hx.Rng) {
	years := []int{1979, 1980, 1981, 1999, 2000, 2038, 2099, 2106, 2107, 2108, 2200, 1970, 1900}
	n := c.N(600, 20000)
	for i := 0; i < n; i++ {
		id := fmt.Sprintf("codec/fatdt%d", i)
		y := hx.Pick(r, years)
		if i >= len(years)*4 {
			y = 1980 + r.Intn(128)
		}
		mo := 1 + r.Intn(12)
		d := 1 + r.Intn(daysIn[mo-1])
		h, mi, s := r.Intn(24), r.Intn(60), r.Intn(60)
		switch i % 7 {
		case 0:
			mo, d, h, mi, s = 1, 1, 0, 0, 0
		case 1:
			mo, d, h, mi, s = 12, 31, 23, 59, 59
		}
		if !c.Want(id) {
			continue
		}
		var dw, tw uint16
		var back time.Time
		p := safe(func() {
			dw, tw = fat12.VerifTimeToDateTime(time.Date(y, time.Month(mo), d, h, mi, s, 0, time.UTC))
			back = fat12.VerifDateTimeToTime(dw, tw)
		})
		c.Case(id, "meta.fatdt", fmt.Sprintf("y=%d", y), fmt.Sprintf("mo=%d", mo), fmt.Sprintf("d=%d", d), fmt.Sprintf("h=%d", h), fmt.Sprintf("mi=%d", mi), fmt.Sprintf("s=%d", s))
		if p != "" {
			c.Impl(id, "panic")
			continue
		}
		c.Impl(id, fmt.Sprintf("d=%d", dw), fmt.Sprintf("t=%d", tw), fmt.Sprintf("u=%d-%d-%d-%d-%d-%d", back.Year(), int(back.Month()), back.Day(), back.Hour(), back.Minute(), back.Second()))
		// the property itself on the codec: inside 1980..2107 the civil time comes back to 2 s
		if y >= 1980 && y <= 2107 {
			want := time.Date(y, time.Month(mo), d, h, mi, s/2*2, 0, time.UTC)
			if back.Equal(want) {
				c.OK(id)
			} else {
				c.Fail(id, "-", fmt.Sprintf("FAT time codec: %v came back as %v", want, back), id)
			}
			c.Stat("fatdt-in-range")
		} else {
			c.Stat("fatdt-out-of-range")
		}
	}
	// attribute byte: all 64 flag combinations, and every byte decoded
	for v := 0; v < 64; v++ {
		for _, raw := range []int{v, v | 0x40, v | 0x80, v | 0xc0} {
			id := fmt.Sprintf("codec/fatattr%d_%d", v, raw)
			if raw&0x3f == 0x0f || !c.Want(id) {
				continue // 0x0f marks a long-name slot
			}
			var by byte
			var err error
			var dec int
			ok := false
			p := safe(func() {
				by, err = fat12.VerifAttrByte(v&1 != 0, v&2 != 0, v&4 != 0, v&8 != 0, v&16 != 0, v&32 != 0)
				a, b, cc, d, e, f, o := fat12.VerifAttrDecode(byte(raw))
				ok = o
				dec = b2i(a) | b2i(b)<<1 | b2i(cc)<<2 | b2i(d)<<3 | b2i(e)<<4 | b2i(f)<<5
			})
			c.Case(id, "meta.fatattr", fmt.Sprintf("v=%d", v), fmt.Sprintf("raw=%d", raw))
			if p != "" || err != nil || !ok {
				c.Impl(id, "error")
				continue
			}
			c.Impl(id, fmt.Sprintf("byte=%d", by), fmt.Sprintf("dec=%d", dec))
			if int(by) == v && dec == raw&0x3f {
				c.OK(id)
			} else {
				c.Fail(id, "-", fmt.Sprintf("FAT attribute byte: flags %06b encode to %#x; byte %#x decodes to %06b", v, by, raw, dec), id)
			}
			c.Stat("fatattr")
		}
	}
}

// ---- ext4 inode ------------------------------------------------------------------------------------

var wordLayout = []struct {
	name       string
	off, width int
}{{"mode", 0x0, 2}, {"uidLo", 0x2, 2}, {"sizeLo", 0x4, 4}, {"atimeLo", 0x8, 4}, {"ctimeLo", 0xc, 4}, {"mtimeLo", 0x10, 4},
	{"gidLo", 0x18, 2}, {"links", 0x1a, 2}, {"flags", 0x20, 4}, {"sizeHi", 0x6c, 4}, {"uidHi", 0x78, 2}, {"gidHi", 0x7a, 2},
	{"ctimeExtra", 0x84, 4}, {"mtimeExtra", 0x88, 4}, {"atimeExtra", 0x8c, 4}, {"crtimeLo", 0x90, 4}, {"crtimeExtra", 0x94, 4}}

func wordsOf(b []byte) string {
	var s []string
	for _, w := range wordLayout {
		var v uint64
		if w.width == 2 {
			v = uint64(binary.LittleEndian.Uint16(b[w.off:]))
		} else {
			v = uint64(binary.LittleEndian.Uint32(b[w.off:]))
		}
		s = append(s, fmt.Sprintf("%s=%d", w.name, v))
	}
	return strings.Join(s, ",")
}

func attrsStr(a ext4.VerifInodeAttrs, gomode uint32) string {
	t := func(x time.Time) string { return fmt.Sprintf("%d.%d", x.Unix(), x.Nanosecond()) }
	return fmt.Sprintf("ft=%d,perm=%d,uid=%d,gid=%d,size=%d,links=%d,flags=%d,at=%s,ct=%s,mt=%s,cr=%s,gomode=%d",
		a.FileType>>12, a.Perm, a.UID, a.GID, a.Size, a.Links, a.Flags, t(a.Atime), t(a.Ctime), t(a.Mtime), t(a.Crtim), gomode)
}

var idChoices = []uint32{0, 1, 1000, 65534, 65535, 65536, 65537, 0x7fffffff, 0x80000000, 0xfffffffe, 0xffffffff}
var ftypes = []uint16{0x1000, 0x2000, 0x4000, 0x6000, 0x8000, 0xA000, 0xC000}

func ext4Time(r *hx.Rng) time.Time {
	const lo, hi = -(1 << 31), 1<<34 - 1<<31
	var s int64
	switch r.Intn(8) {
	case 0:
		s = lo
	case 1:
		s = hi - 1
	case 2:
		s = hx.Pick(r, []int64{-1, 0, 1, 1<<31 - 1, 1 << 31, 1<<32 - 1, 1 << 32, 1<<33 - 1, 1 << 33, 3 << 32})
	case 3:
		s = -1 - r.Int63n(1<<31)
	default:
		s = lo + r.Int63n(hi-lo)
	}
	ns := r.Int63n(1e9)
	if r.Chance(20) {
		ns = hx.Pick(r, []int64{0, 1, 999999999})
	}
	return time.Unix(s, ns)
}

func codecExt4(c *hx.Ctx, r *hx.Rng) {
	// encode: every 12-bit permission pattern (x a type), then random attribute records
	n := 4096 + c.N(1500, 20000)
	for i := 0; i < n; i++ {
		id := fmt.Sprintf("codec/ext4enc%d", i)
		a := ext4.VerifInodeAttrs{FileType: 0x8000, Perm: uint16(i & 0xfff), UID: hx.Pick(r, idChoices), GID: hx.Pick(r, idChoices),
			Size: r.U64() >> uint(r.Intn(64)), Links: uint16(r.Intn(65536)), Flags: uint32(r.U64()) & 0x3D6FFFFF &^ 0x80000,
			Atime: ext4Time(r), Ctime: ext4Time(r), Mtime: ext4Time(r), Crtim: ext4Time(r)}
		if i < 4096 {
			a.FileType = ftypes[i%len(ftypes)]
		} else {
			a.FileType = hx.Pick(r, ftypes)
			a.Perm = uint16(r.Intn(4096))
			if r.Chance(30) {
				a.UID, a.GID = uint32(r.U64()), uint32(r.U64())
			}
		}
		if a.FileType == 0xA000 {
			a.Size = 60 + a.Size%4000 // a symlink below 60 bytes keeps its target in the inode, not attributes
		}
		if !c.Want(id) {
			continue
		}
		var b []byte
		var back ext4.VerifInodeAttrs
		var gomode uint32
		var err error
		p := safe(func() {
			b = ext4.VerifInodeEncode(a, 256)
			back, gomode, err = ext4.VerifInodeDecode(b, 256)
		})
		t := func(k string, x time.Time) []string {
			return []string{fmt.Sprintf("%s=%d", k, x.Unix()), fmt.Sprintf("%sn=%d", k, x.Nanosecond())}
		}
		args := []string{fmt.Sprintf("ft=%d", a.FileType>>12), fmt.Sprintf("perm=%d", a.Perm), fmt.Sprintf("uid=%d", a.UID), fmt.Sprintf("gid=%d", a.GID),
			fmt.Sprintf("size=%d", a.Size), fmt.Sprintf("links=%d", a.Links), fmt.Sprintf("flags=%d", a.Flags)}
		args = append(args, t("at", a.Atime)...)
		args = append(args, t("ct", a.Ctime)...)
		args = append(args, t("mt", a.Mtime)...)
		args = append(args, t("cr", a.Crtim)...)
		c.Case(id, "meta.ext4enc", args...)
		if p != "" || err != nil {
			c.Impl(id, "error", p, fmt.Sprint(err))
			c.Fail(id, "-", fmt.Sprintf("ext4 inode codec failed on %+v: panic=%q err=%v", a, p, err), id)
			continue
		}
		c.Impl(id, "w="+wordsOf(b), "back="+attrsStr(back, gomode))
		// property on the codec: decode(encode(a)) = a
		eq := back.FileType == a.FileType && back.Perm == a.Perm && back.UID == a.UID && back.GID == a.GID && back.Size == a.Size &&
			back.Links == a.Links && back.Flags == a.Flags && back.Atime.Equal(a.Atime) && back.Ctime.Equal(a.Ctime) &&
			back.Mtime.Equal(a.Mtime) && back.Crtim.Equal(a.Crtim)
		if eq {
			c.OK(id)
		} else {
			c.Fail(id, "-", fmt.Sprintf("ext4 inode codec: %s came back as %s", attrsStr(a, 0), attrsStr(back, gomode)), id)
		}
		c.Stat("ext4enc")
		if a.Perm&0o7000 != 0 {
			c.Stat("ext4enc-special-bits")
		}
		if a.UID > 65535 || a.GID > 65535 {
			c.Stat("ext4enc-id>16bit")
		}
		if a.Mtime.Unix() < 0 || a.Atime.Unix() < 0 {
			c.Stat("ext4enc-time<1970")
		}
		if a.Mtime.Unix() >= 1<<31 || a.Atime.Unix() >= 1<<31 {
			c.Stat("ext4enc-time>=2038")
		}
	}
	// decode: hand-made words (arbitrary halves and extra words)
	m := c.N(1500, 20000)
	base := ext4.VerifInodeEncode(ext4.VerifInodeAttrs{FileType: 0x8000, Perm: 0o644, Links: 1, Atime: time.Unix(0, 0), Ctime: time.Unix(0, 0), Mtime: time.Unix(0, 0), Crtim: time.Unix(0, 0)}, 256)
	for i := 0; i < m; i++ {
		id := fmt.Sprintf("codec/ext4dec%d", i)
		if !c.Want(id) {
			continue
		}
		b := append([]byte(nil), base...)
		var args []string
		for _, w := range wordLayout {
			var v uint64
			switch r.Intn(4) {
			case 0:
				v = 0
			case 1:
				v = 1<<(8*uint(w.width)) - 1
			default:
				v = r.U64() & (1<<(8*uint(w.width)) - 1)
			}
			if w.name == "flags" {
				v &= 0x3D6FFFFF            // the flag bits the library knows (others are dropped by design of inodeFlags)
				v &^= 0x80000 | 0x10000000 // no extent tree / inline data to parse
			}
			if w.name == "mode" {
				v = uint64(hx.Pick(r, ftypes)) | v&0xfff
				if v&0xf000 == 0xA000 {
					v = 0x8000 | v&0xfff
				}
			}
			if w.width == 2 {
				binary.LittleEndian.PutUint16(b[w.off:], uint16(v))
			} else {
				binary.LittleEndian.PutUint32(b[w.off:], uint32(v))
			}
			args = append(args, fmt.Sprintf("%s=%d", w.name, v))
		}
		ext4.VerifInodeFixChecksum(b, 256)
		var back ext4.VerifInodeAttrs
		var gomode uint32
		var err error
		p := safe(func() { back, gomode, err = ext4.VerifInodeDecode(b, 256) })
		c.Case(id, "meta.ext4dec", args...)
		if p != "" || err != nil {
			c.Impl(id, "error", p, fmt.Sprint(err))
			continue
		}
		c.Impl(id, "a="+attrsStr(back, gomode))
		c.Stat("ext4dec")
	}
}

// ---- squashfs header, id table ------------------------------------------------------------------------

func goMode(perm int, su, sg, st bool) os.FileMode {
	m := os.FileMode(perm & 0o777)
	if su {
		m |= os.ModeSetuid
	}
	if sg {
		m |= os.ModeSetgid
	}
	if st {
		m |= os.ModeSticky
	}
	return m
}

func modeStr(m os.FileMode) string {
	return fmt.Sprintf("%d/%d%d%d", int(m.Perm()), b2i(m&os.ModeSetuid != 0), b2i(m&os.ModeSetgid != 0), b2i(m&os.ModeSticky != 0))
}

func codecSqfs(c *hx.Ctx, r *hx.Rng) {
	times := []int64{0, 1, 1<<31 - 1, 1 << 31, 1<<32 - 1, 1 << 32, -1, -86400, 1<<33 + 5}
	for i := 0; i < 4096; i++ {
		id := fmt.Sprintf("codec/sqhdr%d", i)
		if !c.Want(id) {
			continue
		}
		perm, su, sg, st := i&0o777, i&0o4000 != 0, i&0o2000 != 0, i&0o1000 != 0
		mt := times[i%len(times)]
		if i%3 == 0 {
			mt = r.Int63n(1 << 32)
		}
		var b []byte
		var dm os.FileMode
		var dt int64
		var err error
		p := safe(func() {
			b = squashfs.VerifHeaderEncode(goMode(perm, su, sg, st), uint16(i), uint16(i>>3), time.Unix(mt, 0), uint32(i))
			dm, _, _, dt, _, err = squashfs.VerifHeaderDecode(b)
		})
		c.Case(id, "meta.sqhdr", fmt.Sprintf("perm=%d", perm), fmt.Sprintf("su=%d", b2i(su)), fmt.Sprintf("sg=%d", b2i(sg)), fmt.Sprintf("st=%d", b2i(st)), fmt.Sprintf("mtime=%d", mt))
		if p != "" || err != nil {
			c.Impl(id, "error")
			continue
		}
		c.Impl(id, fmt.Sprintf("mode=%d", binary.LittleEndian.Uint16(b[2:4])), fmt.Sprintf("time=%d", binary.LittleEndian.Uint32(b[8:12])),
			"dmode="+modeStr(dm), fmt.Sprintf("dtime=%d", dt))
		// property on the codec
		want := goMode(perm, su, sg, st)
		okMode := dm&(os.ModePerm|os.ModeSetuid|os.ModeSetgid|os.ModeSticky) == want
		okTime := dt == mt || mt < 0 || mt >= 1<<32
		switch {
		case okMode && okTime:
			c.OK(id)
		case okTime && dm.Perm() == want.Perm() && (su || sg || st):
			c.Fail(id, "sqfs-mode-special-bits", fmt.Sprintf("squashfs inode header: mode %v comes back as %v (setuid/setgid/sticky lost)", want, dm), id)
		default:
			c.Fail(id, "-", fmt.Sprintf("squashfs inode header: mode %v mtime %d come back as %v, %d", want, mt, dm, dt), id)
		}
		c.Stat("sqhdr")
	}
	n := c.N(200, 4000)
	for i := 0; i < n; i++ {
		id := fmt.Sprintf("codec/sqids%d", i)
		if !c.Want(id) {
			continue
		}
		k := 1 + r.Intn(12)
		ids := make([]uint32, k)
		pool := []uint32{0, 1000, 65534, 65536, 1 << 31, 0xffffffff, uint32(r.U64()), uint32(r.U64())}
		strs := make([]string, k)
		for j := range ids {
			ids[j] = hx.Pick(r, pool)
			strs[j] = fmt.Sprint(ids[j])
		}
		var idx []uint16
		var tbl []uint32
		p := safe(func() { idx, tbl = squashfs.VerifIDTable(ids) })
		c.Case(id, "meta.sqids", "ids="+strings.Join(strs, ","))
		if p != "" {
			c.Impl(id, "panic")
			continue
		}
		is := make([]string, len(idx))
		bad := false
		for j, x := range idx {
			is[j] = fmt.Sprint(x)
			if int(x) >= len(tbl) || tbl[x] != ids[j] {
				bad = true
			}
		}
		ts := make([]string, len(tbl))
		for j, x := range tbl {
			ts[j] = fmt.Sprint(x)
		}
		c.Impl(id, "idx="+strings.Join(is, ","), "tbl="+strings.Join(ts, ","))
		if bad {
			c.Fail(id, "-", fmt.Sprintf("squashfs id table: ids %v got indices %v into table %v", ids, idx, tbl), id)
		} else {
			c.OK(id)
		}
		c.Stat("sqids")
	}
}

// ---- Rock Ridge PX, NM ------------------------------------------------------------------------------------

var pxKinds = []struct {
	code int
	bits os.FileMode
}{{8, 0}, {4, os.ModeDir}, {10, os.ModeSymlink}, {2, os.ModeDevice | os.ModeCharDevice}, {6, os.ModeDevice}, {1, os.ModeNamedPipe}, {12, os.ModeSocket}}

func kindCodeOf(m os.FileMode) int {
	switch {
	case m&os.ModeSocket != 0:
		return 12
	case m&os.ModeSymlink != 0:
		return 10
	case m&os.ModeDevice != 0 && m&os.ModeCharDevice != 0:
		return 2
	case m&os.ModeDevice != 0:
		return 6
	case m&os.ModeDir != 0:
		return 4
	case m&os.ModeNamedPipe != 0:
		return 1
	}
	return 8
}

func codecRR(c *hx.Ctx, r *hx.Rng) {
	for i := 0; i < 4096; i++ {
		id := fmt.Sprintf("codec/px%d", i)
		if !c.Want(id) {
			continue
		}
		k := pxKinds[i%len(pxKinds)]
		perm, su, sg, st := i&0o777, i&0o4000 != 0, i&0o2000 != 0, i&0o1000 != 0
		links, uid, gid := uint32(1+r.Intn(5)), hx.Pick(r, idChoices), hx.Pick(r, idChoices)
		serial := r.U64() >> uint(r.Intn(40))
		mode := goMode(perm, su, sg, st) | k.bits
		var b []byte
		var dm os.FileMode
		var dl, du, dg uint32
		var err error
		p := safe(func() {
			b = iso9660.VerifPXEncode(mode, links, uid, gid, serial)
			dm, dl, du, dg, err = iso9660.VerifPXDecode(b)
		})
		c.Case(id, "meta.px", fmt.Sprintf("kind=%d", k.code), fmt.Sprintf("perm=%d", perm), fmt.Sprintf("su=%d", b2i(su)), fmt.Sprintf("sg=%d", b2i(sg)), fmt.Sprintf("st=%d", b2i(st)),
			fmt.Sprintf("links=%d", links), fmt.Sprintf("uid=%d", uid), fmt.Sprintf("gid=%d", gid), fmt.Sprintf("serial=%d", serial))
		if p != "" || err != nil {
			c.Impl(id, "error", p, fmt.Sprint(err))
			c.Fail(id, "-", fmt.Sprintf("Rock Ridge PX codec failed: panic=%q err=%v", p, err), id)
			continue
		}
		c.Impl(id, "enc="+hex.EncodeToString(b), fmt.Sprintf("dec=%d:%s:%d:%d:%d", kindCodeOf(dm), modeStr(dm), dl, du, dg))
		if dm == mode && dl == links && du == uid && dg == gid {
			c.OK(id)
		} else {
			c.Fail(id, "-", fmt.Sprintf("Rock Ridge PX: mode %v links %d uid %d gid %d come back as %v %d %d %d", mode, links, uid, gid, dm, dl, du, dg), id)
		}
		c.Stat("px")
	}
	lens := []int{1, 2, 100, 248, 249, 250, 255, 498, 499, 600}
	n := c.N(60, 1500)
	for i := 0; i < n; i++ {
		id := fmt.Sprintf("codec/nm%d", i)
		if !c.Want(id) {
			continue
		}
		ln := lens[i%len(lens)]
		if i >= 2*len(lens) {
			ln = 1 + r.Intn(255)
		}
		name := make([]byte, ln)
		for j := range name {
			name[j] = byte('a' + r.Intn(26))
		}
		var b []byte
		var back string
		var err error
		p := safe(func() {
			b = iso9660.VerifNMEncode(string(name))
			back, err = iso9660.VerifNMDecode(b)
		})
		c.Case(id, "meta.nm", "name="+hex.EncodeToString(name))
		if p != "" || err != nil {
			c.Impl(id, "error", p, fmt.Sprint(err))
			c.Fail(id, "-", fmt.Sprintf("Rock Ridge NM codec failed on a %d-byte name: panic=%q err=%v", ln, p, err), id)
			continue
		}
		c.Impl(id, "enc="+hx.Hex(b), "dec="+hx.Hex([]byte(back)))
		if back == string(name) {
			c.OK(id)
		} else {
			c.Fail(id, "-", fmt.Sprintf("Rock Ridge NM: %d-byte name comes back with %d bytes", ln, len(back)), id)
		}
		c.Stat("nm")
		if ln > 249 {
			c.Stat("nm-multi-record")
		}
	}
}
