package meta

import (
	"encoding/binary"
	"fmt"
	iofs "io/fs"
	"os"
	"path/filepath"
	"sort"
	"strings"
	"syscall"
	"time"

	"github.com/diskfs/go-diskfs/backend/file"
	"github.com/diskfs/go-diskfs/filesystem/squashfs"

	"verif/harness/internal/hx"
	"verif/harness/internal/memdev"
)

// squashfs extended attributes.
//
//	codec/sqxattr-*     the reader's lookup (parseXattrsTable + xAttrTable.find, hook VerifXattrFind) over key/value
//	                    tables built here in the on-disk layout (type u16, name size u16, name, value size u32, value;
//	                    id entries offset u16 | block u32 | count u32 | size u32), sets of 0,1,2,3,5.. attributes, names of
//	                    1..255 bytes, values empty to long, tables over more than one metadata block; compared attribute
//	                    by attribute with the Lean mirror (Model/MetaSqXattr walk) and with what was put in
//	sqxattr-<i>         workspace files carrying 0,1,2,3,5 user.* attributes -> Finalize -> Read -> Sys().Xattrs
//	sqxattr-fixture     the repository's mksquashfs-made image testdata/dir_read.sqs (one attribute user.test=NNN per file)
//
// The reader reports names without their prefix (user.abc as abc; upstream's own tests expect that), so names are
// compared without it.
const tagSqXattrPanic = "sqfs-finalize-xattr-panic"

type xkv struct {
	typ       uint16
	name, val []byte
}

func encXattrSet(set []xkv) []byte {
	var b []byte
	for _, a := range set {
		b = binary.LittleEndian.AppendUint16(b, a.typ)
		b = binary.LittleEndian.AppendUint16(b, uint16(len(a.name)))
		b = append(b, a.name...)
		b = binary.LittleEndian.AppendUint32(b, uint32(len(a.val)))
		b = append(b, a.val...)
	}
	return b
}

func randXattrSet(r *hx.Rng, n int, long bool) []xkv {
	seen := map[string]bool{}
	var set []xkv
	for len(set) < n {
		ln := 1 + r.Intn(12)
		switch r.Intn(8) {
		case 0:
			ln = 1
		case 1:
			ln = 40 + r.Intn(60)
		case 2:
			ln = 250 + r.Intn(6) // with the prefix this is the kernel's 255-byte name limit and a little more
		}
		name := make([]byte, ln)
		for i := range name {
			name[i] = "abcdefghijklmnopqrstuvwxyz_.0123456789"[r.Intn(38)]
		}
		if seen[string(name)] {
			continue
		}
		seen[string(name)] = true
		var val []byte
		switch r.Intn(6) {
		case 0: // empty value
		case 1:
			val = r.Bytes(1)
		case 2:
			if long {
				val = r.Bytes(300 + r.Intn(3000))
			} else {
				val = r.Bytes(100 + r.Intn(200))
			}
		default:
			val = r.Bytes(1 + r.Intn(24))
		}
		set = append(set, xkv{typ: uint16(r.Intn(3)), name: name, val: val})
	}
	return set
}

func hexOr(b []byte) string { return hx.Hex(b) }

func codecSqXattr(c *hx.Ctx, r *hx.Rng) {
	const blk = 8192
	nTables := c.N(10, 80)
	for t := 0; t < nTables; t++ {
		long := t%4 == 3
		// the sets of one table: the sizes the task names first, then random ones
		sizes := []int{0, 1, 2, 3, 5}
		for i := r.Intn(4); i > 0; i-- {
			sizes = append(sizes, r.Intn(9))
		}
		if t%2 == 1 {
			for i := len(sizes) - 1; i > 0; i-- {
				j := r.Intn(i + 1)
				sizes[i], sizes[j] = sizes[j], sizes[i]
			}
		}
		var sets [][]xkv
		var data, index []byte
		var pos []int
		for _, n := range sizes {
			set := randXattrSet(r, n, long)
			enc := encXattrSet(set)
			p := len(data)
			pos = append(pos, p)
			sets = append(sets, set)
			data = append(data, enc...)
			e := make([]byte, 16)
			binary.LittleEndian.PutUint16(e[0:2], uint16(p%blk))
			binary.LittleEndian.PutUint32(e[2:6], uint32(p/blk*(blk+2)))
			binary.LittleEndian.PutUint32(e[8:12], uint32(n))
			binary.LittleEndian.PutUint32(e[12:16], uint32(len(enc)))
			index = append(index, e...)
		}
		offsetMap := map[uint32]uint32{}
		for b := 0; b*blk <= len(data); b++ {
			offsetMap[uint32(b*(blk+2))] = uint32(b * blk)
		}
		if len(data) > blk {
			c.Stat("sqxattr-table-over-one-block")
		}
		// damaged variants of the same table: the last id announces more attributes than it has; the data is cut inside
		// the last value
		type variant struct {
			name        string
			data, index []byte
			damagedID   int
		}
		vars := []variant{{"ok", data, index, -1}}
		if last := len(sizes) - 1; t%3 == 0 {
			ix := append([]byte(nil), index...)
			binary.LittleEndian.PutUint32(ix[last*16+8:], uint32(sizes[last]+1+r.Intn(3)))
			vars = append(vars, variant{"count+", data, ix, last})
			if sizes[last] > 0 && len(data) > pos[last]+9 {
				vars = append(vars, variant{"cut", data[:len(data)-1-r.Intn(len(data)-pos[last]-8)], index, last})
			}
		}
		for _, v := range vars {
			for i := range sets {
				if v.damagedID >= 0 && i != v.damagedID {
					continue
				}
				id := fmt.Sprintf("codec/sqxattr-%d-%s-%d", t, v.name, i)
				if !c.Want(id) {
					continue
				}
				count := int(binary.LittleEndian.Uint32(v.index[i*16+8:]))
				var got map[string]string
				var err error
				pan := safe(func() { got, err = squashfs.VerifXattrFind(v.data, v.index, offsetMap, i) })
				// model input: the bytes from the entry's position on (find never looks before it)
				if pos[i] < len(v.data) {
					if len(v.data) <= 3000 {
						c.Case(id, "meta.sqxattr", "data="+hexOr(v.data), fmt.Sprintf("pos=%d", pos[i]), fmt.Sprintf("count=%d", count))
					} else {
						c.Case(id, "meta.sqxattr", "data="+hexOr(v.data[pos[i]:]), "pos=0", fmt.Sprintf("count=%d", count))
					}
					if pan != "" || err != nil {
						c.Impl(id, "err")
					} else {
						// the map in the order the attributes were laid out ("?": not in the map)
						var parts []string
						for _, a := range sets[i] {
							if val, ok := got[string(a.name)]; ok {
								parts = append(parts, hexOr(a.name)+":"+hexOr([]byte(val)))
							} else {
								parts = append(parts, hexOr(a.name)+":?")
							}
						}
						c.Impl(id, fmt.Sprintf("n=%d", len(got)), "kv="+strings.Join(parts, ","))
					}
				}
				repro := fmt.Sprintf("VerifXattrFind(data=%d bytes, %d ids, id %d at %d, count %d) variant %s", len(v.data), len(sets), i, pos[i], count, v.name)
				switch {
				case pan != "":
					c.Fail(id, "-", "xAttrTable.find panicked: "+pan, repro)
				case v.damagedID >= 0:
					if err == nil && !(count == 0) && !(pos[i] >= len(v.data)) {
						c.Fail(id, "-", fmt.Sprintf("a damaged xattr id (%s) is read without an error: %d attributes", v.name, len(got)), repro)
					} else {
						c.OK(id)
					}
					c.Stat("sqxattr-find-damaged")
				default:
					var probs []string
					if err != nil {
						if len(sets[i]) == 0 && pos[i] >= len(v.data) {
							// an empty set at the very end of the data: find refuses a position at the end; no image has such an id
							c.OK(id)
							c.Stat("sqxattr-find-empty-at-end")
							continue
						}
						probs = append(probs, "error: "+err.Error())
					} else {
						if len(got) != len(sets[i]) {
							probs = append(probs, fmt.Sprintf("%d attributes, want %d", len(got), len(sets[i])))
						}
						for k, a := range sets[i] {
							if val, ok := got[string(a.name)]; !ok {
								probs = append(probs, fmt.Sprintf("attribute %d of %d (name of %d bytes) not found", k, len(sets[i]), len(a.name)))
							} else if val != string(a.val) {
								probs = append(probs, fmt.Sprintf("attribute %d of %d: value of %d bytes, want %d", k, len(sets[i]), len(val), len(a.val)))
							}
						}
					}
					if len(probs) > 0 {
						c.Fail(id, "-", "xattr lookup: "+strings.Join(probs, "; "), repro)
					} else {
						c.OK(id)
					}
					c.Stat(fmt.Sprintf("sqxattr-find-count=%d", min(len(sets[i]), 6)))
					c.Distinct(id + hexOr(encXattrSet(sets[i])))
				}
			}
		}
	}
}

// e2eSqXattr: workspace files with extended attributes through Finalize and Read.
func e2eSqXattr(c *hx.Ctx, r *hx.Rng, id string, idx int) {
	size := int64(16 << 20)
	dev := memdev.New(size)
	dev.KeepData = false
	f, err := squashfs.Create(dev, size, 0, 4096)
	if err != nil {
		c.Note("%s: Create failed: %v", id, err)
		return
	}
	ws := f.Workspace()
	defer func() { safe(func() { f.Close() }); os.RemoveAll(ws) }()
	type node struct {
		isDir bool
		perm  uint32
		uid   uint32
		gid   uint32
		mtime time.Time
		xa    map[string]string // full names (user.x)
	}
	nodes := map[string]*node{}
	counts := []int{0, 1, 2, 3, 5, r.Intn(8)}
	anyXattr := false
	mkXattrs := func(full string, n int) map[string]string {
		m := map[string]string{}
		for _, a := range randXattrSet(r, n, idx%2 == 1) {
			name := "user." + string(a.name)
			if len(name) > 255 {
				name = name[:255]
			}
			if e := syscall.Setxattr(full, name, a.val, 0); e != nil {
				c.Stat("sqxattr-setxattr-refused")
				continue
			}
			m[name] = string(a.val)
			anyXattr = true
		}
		return m
	}
	os.Mkdir(filepath.Join(ws, "d"), 0o755)
	nodes["d"] = &node{isDir: true}
	for i, n := range counts {
		p := fmt.Sprintf("f%d_%d", i, n)
		if i%2 == 1 {
			p = "d/" + p
		}
		full := filepath.Join(ws, filepath.FromSlash(p))
		if e := os.WriteFile(full, r.Bytes(r.Intn(5000)), 0o644); e != nil {
			continue
		}
		nodes[p] = &node{xa: mkXattrs(full, n)}
	}
	// two files with the same attribute set (the writer stores one copy), and a directory with attributes
	for _, p := range []string{"same1", "same2"} {
		full := filepath.Join(ws, p)
		os.WriteFile(full, []byte(p), 0o644)
		m := map[string]string{"user.shared": "v", "user.second": ""}
		for k, v := range m {
			if syscall.Setxattr(full, k, []byte(v), 0) == nil {
				anyXattr = true
			} else {
				delete(m, k)
			}
		}
		nodes[p] = &node{xa: m}
	}
	nodes["d"].xa = mkXattrs(filepath.Join(ws, "d"), 2)
	var paths []string
	for p := range nodes {
		paths = append(paths, p)
	}
	sort.Sort(sort.Reverse(sort.StringSlice(paths))) // children before their directory
	for _, p := range paths {
		full := filepath.Join(ws, filepath.FromSlash(p))
		bits := uint32(r.Intn(1 << 12))
		if nodes[p].isDir {
			bits |= 0o700
		}
		os.Lchown(full, int(hx.Pick(r, idChoices[:10])), int(hx.Pick(r, idChoices[:10])))
		os.Chmod(full, goModeOf(bits))
		mt := time.Unix(r.Int63n(1<<31), 0)
		os.Chtimes(full, mt, mt)
	}
	for _, p := range paths {
		fi, e := os.Lstat(filepath.Join(ws, filepath.FromSlash(p)))
		if e != nil {
			delete(nodes, p)
			continue
		}
		n := nodes[p]
		n.perm, n.mtime = unixBits(fi.Mode()), fi.ModTime()
		if st, ok := fi.Sys().(*syscall.Stat_t); ok {
			n.uid, n.gid = st.Uid, st.Gid
		}
	}
	desc := fmt.Sprintf("sqfs case=%s: workspace files with %v user.* attributes (+ two files sharing a set, a directory with 2), Finalize(Xattrs: true)", id, counts)
	pan := safe(func() {
		err = f.Finalize(squashfs.FinalizeOptions{Xattrs: true, NoCompressInodes: idx%2 == 0, NoCompressData: true, NoCompressFragments: true, NoCompressXattrs: idx%3 == 0})
	})
	if pan != "" || err != nil {
		tag := "-"
		if anyXattr && strings.Contains(pan, "slice bounds out of range") {
			tag = tagSqXattrPanic
		}
		c.Fail(id+"/finalize", tag, fmt.Sprintf("Finalize of a workspace whose files carry extended attributes: %v %s", err, pan), desc)
		return
	}
	re, err := squashfs.Read(dev, size, 0, 4096)
	if err != nil {
		c.Fail(id+"/reopen", "-", "cannot re-open: "+err.Error(), desc)
		return
	}
	sort.Strings(paths)
	for _, p := range paths {
		n := nodes[p]
		sub := id + "/" + p
		if n == nil || !c.Want(sub) {
			continue
		}
		var fi iofs.FileInfo
		var e error
		if pp := safe(func() { fi, e = re.Stat(p) }); pp != "" || e != nil {
			c.Fail(sub, "-", fmt.Sprintf("Stat after re-open: %v %s", e, pp), desc)
			continue
		}
		var probs []string
		st, _ := fi.Sys().(*squashfs.StatT)
		if st == nil {
			c.Fail(sub, "-", fmt.Sprintf("Sys() is %T", fi.Sys()), desc)
			continue
		}
		if got := unixBits(fi.Mode()); got != n.perm {
			probs = append(probs, fmt.Sprintf("mode %04o want %04o", got, n.perm))
		}
		if st.UID != n.uid || st.GID != n.gid {
			probs = append(probs, fmt.Sprintf("owner %d:%d want %d:%d", st.UID, st.GID, n.uid, n.gid))
		}
		if fi.ModTime().Unix() != n.mtime.Unix() {
			probs = append(probs, fmt.Sprintf("mtime %d want %d", fi.ModTime().Unix(), n.mtime.Unix()))
		}
		if fi.IsDir() != n.isDir {
			probs = append(probs, fmt.Sprintf("IsDir=%v", fi.IsDir()))
		}
		if len(st.Xattrs) != len(n.xa) {
			probs = append(probs, fmt.Sprintf("%d extended attributes, want %d", len(st.Xattrs), len(n.xa)))
		}
		for k, v := range n.xa {
			got, ok := st.Xattrs[strings.TrimPrefix(k, "user.")]
			if !ok {
				got, ok = st.Xattrs[k]
			}
			if !ok {
				probs = append(probs, fmt.Sprintf("attribute %q missing", tailStr(k, 30)))
			} else if got != v {
				probs = append(probs, fmt.Sprintf("attribute %q: value of %d bytes, want %d", tailStr(k, 30), len(got), len(v)))
			}
		}
		if len(probs) > 0 {
			c.Fail(sub, "-", p+" after re-open: "+strings.Join(probs, "; "), desc)
		} else {
			c.OK(sub)
		}
		c.Stat(fmt.Sprintf("sqxattr-e2e-count=%d", min(len(n.xa), 6)))
	}
	c.Distinct(desc)
}

// sqXattrFixture: the mksquashfs-made image of the repository (zstd): file_NNN carries user.test=NNN
func sqXattrFixture(c *hx.Ctx) {
	repo := os.Getenv("VERIF_REPO")
	if repo == "" {
		repo = "/repo"
	}
	p := filepath.Join(repo, "filesystem/squashfs/testdata/dir_read.sqs")
	fh, err := os.Open(p)
	if err != nil {
		c.Note("sqxattr-fixture: %v; skipped", err)
		return
	}
	defer fh.Close()
	st, _ := fh.Stat()
	if st.Size() == 0 {
		c.Note("sqxattr-fixture: %s is empty; skipped", p)
		return
	}
	var re *squashfs.FileSystem
	if pp := safe(func() { re, err = squashfs.Read(file.New(fh, true), st.Size(), 0, 0) }); pp != "" || err != nil {
		c.Fail("sqxattr-fixture/open", "-", fmt.Sprintf("cannot open the fixture: %v %s", err, pp), p)
		return
	}
	var des []iofs.DirEntry
	if pp := safe(func() { des, err = re.ReadDir(".") }); pp != "" || err != nil {
		c.Fail("sqxattr-fixture/readdir", "-", fmt.Sprintf("ReadDir: %v %s", err, pp), p)
		return
	}
	for _, d := range des {
		num, ok := strings.CutPrefix(d.Name(), "file_")
		if !ok {
			continue
		}
		id := "sqxattr-fixture/" + d.Name()
		if !c.Want(id) {
			continue
		}
		fi, e := d.Info()
		if e != nil {
			c.Fail(id, "-", "Info: "+e.Error(), p)
			continue
		}
		s, _ := fi.Sys().(*squashfs.StatT)
		if s == nil || len(s.Xattrs) != 1 || s.Xattrs["test"] != num {
			c.Fail(id, "-", fmt.Sprintf("extended attributes %q, want test=%s", fmt.Sprint(s), num), p)
			continue
		}
		c.OK(id)
		c.Stat("sqxattr-fixture-file")
	}
}

// sqXattrWitness replays the writer's defect on writeXattrs itself: one set of one attribute
func sqXattrWitness(c *hx.Ctx) {
	dev := memdev.New(1 << 20)
	var err error
	var back []map[string]string
	pan := safe(func() {
		var start uint64
		_, start, err = squashfs.VerifWriteXattrs(dev, []map[string]string{{"user.a": "1"}}, 4096)
		if err == nil {
			back, err = squashfs.VerifReadXattrs(dev, start, 1)
		}
	})
	rep := strings.Contains(pan, "slice bounds out of range")
	c.Known(tagSqXattrPanic, rep, fmt.Sprintf("writeXattrs([{user.a: 1}]) then readXattrsTable + find(0): panic %q, error %v, read back %q", pan, err, back))
	if rep {
		c.Stat("sqxattr-witness-reproduced")
	}
}

// codecSqXattrWriter: writeXattrs + readXattrsTable + find on their own (hooks VerifWriteXattrs / VerifReadXattrs), for
// numbers of attribute sets no workspace of the quick tier reaches: id tables over one metadata block (more than 512
// sets), key/value data over several blocks. While the writer panics on every input (recorded defect) each case
// fails under that tag.
func codecSqXattrWriter(c *hx.Ctx, r *hx.Rng) {
	ns := []int{1, 2, 5, 40, 513, 600}
	if c.Thorough() {
		ns = append(ns, 511, 512, 1024, 1025, 1500, 3000)
	}
	for _, n := range ns {
		id := fmt.Sprintf("codec/sqxattrw-%d", n)
		if !c.Want(id) {
			continue
		}
		sets := make([]map[string]string, n)
		for i := range sets {
			m := map[string]string{}
			k := 1 + r.Intn(5)
			if n > 100 {
				k = 1 + r.Intn(2)
			}
			for _, a := range randXattrSet(r, k, n <= 40 && i%3 == 0) {
				m[[]string{"user.", "trusted.", "security."}[a.typ]+string(a.name)] = string(a.val)
			}
			m["user.id"] = fmt.Sprint(i) // no two sets alike
			sets[i] = m
		}
		dev := memdev.New(64 << 20)
		var back []map[string]string
		var err error
		var written int
		var start uint64
		const at = 4096 + 17
		pan := safe(func() {
			written, start, err = squashfs.VerifWriteXattrs(dev, sets, at)
			if err == nil {
				back, err = squashfs.VerifReadXattrs(dev, start, n)
			}
		})
		repro := fmt.Sprintf("VerifWriteXattrs(%d sets of 1..6 attributes, location %d) -> VerifReadXattrs", n, at)
		if pan != "" || err != nil {
			tag := "-"
			switch {
			case strings.Contains(pan, "slice bounds out of range") && back == nil && start == 0:
				tag = tagSqXattrPanic
			case pan == "" && err != nil && strings.Contains(err.Error(), "error reading xattr index meta block 0 at position 0"):
				// an id table whose backing array happens to reach 8192 bytes (511, 512 sets) gets past the slicing; the header
				// then lists the id blocks behind zeroed slots, so the reader looks for the first one at position 0 (same defect)
				tag = tagSqXattrPanic
			}
			c.Fail(id, tag, fmt.Sprintf("writing / reading an xattr table of %d sets: %v %s", n, err, pan), repro)
			continue
		}
		var probs []string
		if len(back) != n {
			probs = append(probs, fmt.Sprintf("%d sets read back, want %d", len(back), n))
		}
		if start < at || int64(start) >= at+int64(written) {
			probs = append(probs, fmt.Sprintf("table start %d outside the %d bytes written at %d", start, written, at))
		}
		for i := 0; i < len(back) && i < n && len(probs) < 4; i++ {
			want := map[string]string{}
			for k, v := range sets[i] {
				want[k[strings.Index(k, ".")+1:]] = v // the reader drops the prefix
			}
			if len(want) != len(sets[i]) {
				continue // two names alike but for the prefix: the reader cannot tell them apart
			}
			if len(back[i]) != len(want) {
				probs = append(probs, fmt.Sprintf("set %d: %d attributes, want %d", i, len(back[i]), len(want)))
				continue
			}
			for k, v := range want {
				if got, ok := back[i][k]; !ok || got != v {
					probs = append(probs, fmt.Sprintf("set %d: attribute of %d-byte name: found=%v, value %d bytes want %d", i, len(k), ok, len(got), len(v)))
					break
				}
			}
		}
		if len(probs) > 0 {
			c.Fail(id, "-", fmt.Sprintf("xattr table of %d sets written and read back: %s", n, strings.Join(probs, "; ")), repro)
		} else {
			c.OK(id)
			c.Stat("sqxattr-writer-roundtrip")
			c.Distinct(id)
		}
	}
}
