package lru

// Immutability of cached data: the Lean machine's Data values are immutable; in Go the cached []byte
// is shared by every reader that gets a hit. immWatch looks at the cache through the accessor of
// zz_verif_hooks_C17b.go (the cached slices themselves, not copies), remembers a hash of every
// cached slice the first time it sees it (identified by block position, address of the first byte
// and length) and recomputes it at every later look and at the end of the run: cached data must
// never change, whoever reads it and whatever callers do with the buffers they passed to Read.

import (
	"fmt"
	"hash/fnv"
	"sync"
	"unsafe"

	"github.com/diskfs/go-diskfs/filesystem/squashfs"
)

type immKey struct {
	pos int64
	ptr uintptr
	n   int
}

type immKept struct {
	k immKey
	d []byte
}

type immWatch struct {
	mu     sync.Mutex
	seen   map[immKey]uint64
	keep   []immKept // the slices stay referenced, so an address is never reused for another slice
	checks int
}

func newImmWatch() *immWatch { return &immWatch{seen: map[immKey]uint64{}} }

func hash64(b []byte) uint64 {
	h := fnv.New64a()
	h.Write(b)
	return h.Sum64()
}

// observe looks at every cached block whose fetch is not in flight; returns a complaint or "".
func (w *immWatch) observe(l *squashfs.LRUForVerif) (bad string) {
	if l == nil {
		return ""
	}
	defer func() {
		if p := recover(); p != nil {
			bad = fmt.Sprintf("cache walk: panic: %v", p)
		}
	}()
	blocks := l.Blocks()
	w.mu.Lock()
	defer w.mu.Unlock()
	for _, b := range blocks {
		if len(b.Data) == 0 {
			continue
		}
		k := immKey{b.Pos, uintptr(unsafe.Pointer(&b.Data[0])), len(b.Data)}
		h := hash64(b.Data)
		if old, ok := w.seen[k]; ok {
			w.checks++
			if old != h && bad == "" {
				bad = fmt.Sprintf("the cached block at position %d (%d bytes) changed after it was stored: cached data was written to", b.Pos, len(b.Data))
			}
		} else {
			w.seen[k] = h
			w.keep = append(w.keep, immKept{k, b.Data})
		}
	}
	return bad
}

// final re-hashes every slice ever seen (also those evicted since: readers may still hold them).
func (w *immWatch) final() string {
	w.mu.Lock()
	defer w.mu.Unlock()
	for _, e := range w.keep {
		w.checks++
		if hash64(e.d) != w.seen[e.k] {
			return fmt.Sprintf("the block cached at position %d (%d bytes) changed after it was stored: cached data was written to", e.k.pos, len(e.d))
		}
	}
	return ""
}
