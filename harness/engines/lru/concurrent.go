package lru

import (
	"bytes"
	"encoding/binary"
	"encoding/gob"
	"errors"
	"fmt"
	"io"
	"io/fs"
	"os"
	"path/filepath"
	"runtime"
	"sort"
	"strings"
	"sync"
	"sync/atomic"
	"time"

	"github.com/diskfs/go-diskfs/backend"
	"github.com/diskfs/go-diskfs/filesystem/squashfs"

	"verif/harness/internal/hx"
	"verif/harness/internal/memdev"
)

const blockSize = 4096

// image is one squashfs image built by the library together with what went into it.
type image struct {
	name  string
	bytes []byte
	files map[string][]byte   // path -> contents
	dirs  map[string][]string // directory -> sorted entry names
	paths []string            // sorted file paths
	dpath []string            // sorted directory paths
}

// roDev is an immutable, lock-free backend.Storage (used for the -race runs: a device mutex would
// add happens-before edges between the readers and could hide races of the code under test).
type roDev struct {
	b    []byte
	hook func(off int64, n int)
}

type roInfo struct{ n int64 }

func (i roInfo) Name() string       { return "rodev" }
func (i roInfo) Size() int64        { return i.n }
func (i roInfo) Mode() fs.FileMode  { return 0o444 }
func (i roInfo) ModTime() time.Time { return time.Unix(0, 0) }
func (i roInfo) IsDir() bool        { return false }
func (i roInfo) Sys() any           { return nil }

func (d *roDev) Stat() (fs.FileInfo, error) { return roInfo{int64(len(d.b))}, nil }
func (d *roDev) Read([]byte) (int, error) {
	return 0, errors.New("rodev: sequential Read not supported")
}
func (d *roDev) Close() error { return nil }
func (d *roDev) Seek(int64, int) (int64, error) {
	return 0, errors.New("rodev: Seek not supported")
}
func (d *roDev) Sys() (*os.File, error) { return nil, backend.ErrNotSuitable }
func (d *roDev) Writable() (backend.WritableFile, error) {
	return nil, backend.ErrIncorrectOpenMode
}
func (d *roDev) Path() string { return "" }
func (d *roDev) ReadAt(p []byte, off int64) (int, error) {
	if off < 0 {
		return 0, errors.New("rodev: negative offset")
	}
	if d.hook != nil {
		d.hook(off, len(p))
	}
	if off >= int64(len(d.b)) {
		return 0, io.EOF
	}
	n := copy(p, d.b[off:])
	if n < len(p) {
		return n, io.EOF
	}
	return n, nil
}

// buildImage creates a squashfs image through the library: many small files (their contents share
// fragment blocks; their inodes and directory entries share metadata blocks), a few multi-block
// files with and without a tail, empty files, nested directories.
func buildImage(c *hx.Ctx, r *hx.Rng, name string, gzip bool) (*image, error) {
	im := &image{name: name, files: map[string][]byte{}, dirs: map[string][]string{}}
	const devSize = 64 << 20
	dev := memdev.New(devSize)
	dev.KeepData = false
	fsys, err := squashfs.Create(dev, devSize, 0, blockSize)
	if err != nil {
		return nil, fmt.Errorf("squashfs.Create: %v", err)
	}
	ws := fsys.Workspace()
	defer os.RemoveAll(ws)
	content := func(n int) []byte {
		switch r.Intn(3) {
		case 0: // incompressible
			return r.Bytes(n)
		case 1: // highly compressible
			b := make([]byte, n)
			v := byte(r.Intn(256))
			for i := range b {
				b[i] = v + byte(i/97)
			}
			return b
		default: // text-like
			b := make([]byte, n)
			w := r.Bytes(16)
			for i := range b {
				b[i] = 'a' + w[(i*7+i/13)%16]%26
			}
			return b
		}
	}
	add := func(p string, data []byte) error {
		full := filepath.Join(ws, filepath.FromSlash(p))
		if err := os.MkdirAll(filepath.Dir(full), 0o755); err != nil {
			return err
		}
		if err := os.WriteFile(full, data, 0o644); err != nil {
			return err
		}
		im.files[p] = data
		return nil
	}
	ndirs := c.N(10, 16)
	perDir := c.N(36, 60)
	for d := 0; d < ndirs; d++ {
		for f := 0; f < perDir; f++ {
			var n int
			switch {
			case f%17 == 0:
				n = 0
			case f%5 == 0:
				n = 1 + r.Intn(40)
			default:
				n = 1 + r.Intn(3600)
			}
			if err := add(fmt.Sprintf("d%02d/f%03d_%s.dat", d, f, strings.Repeat("n", 1+r.Intn(20))), content(n)); err != nil {
				return nil, err
			}
		}
	}
	for i, k := range []int{1, 1, 2, 3, 5, 9, 17} {
		tail := hx.Pick(r, []int{0, 1, 17, 2000, 4095})
		if i == 0 {
			tail = 0
		}
		if err := add(fmt.Sprintf("big%d_%dk.bin", i, k), content(k*blockSize+tail)); err != nil {
			return nil, err
		}
	}
	for i := 0; i < 6; i++ {
		if err := add(fmt.Sprintf("deep/a%d/b/c/leaf%d.txt", i, i), content(1+r.Intn(900))); err != nil {
			return nil, err
		}
	}
	opts := squashfs.FinalizeOptions{}
	if gzip {
		opts.Compression = &squashfs.CompressorGzip{CompressionLevel: 6}
	}
	if err := fsys.Finalize(opts); err != nil {
		return nil, fmt.Errorf("Finalize: %v", err)
	}
	end := int64(0)
	for _, e := range dev.Log {
		if !e.Sync && e.Off+int64(e.Len) > end {
			end = e.Off + int64(e.Len)
		}
	}
	if end == 0 || end > devSize {
		return nil, fmt.Errorf("image end %d", end)
	}
	end = (end + blockSize - 1) / blockSize * blockSize
	im.bytes = dev.Bytes(0, int(end))
	// directory listing expected from the file paths
	set := map[string]map[string]bool{".": {}}
	for p := range im.files {
		im.paths = append(im.paths, p)
		cur := p
		for {
			dir := pathDir(cur)
			if set[dir] == nil {
				set[dir] = map[string]bool{}
			}
			set[dir][pathBase(cur)] = true
			if dir == "." {
				break
			}
			cur = dir
		}
	}
	sort.Strings(im.paths)
	for d, m := range set {
		var names []string
		for n := range m {
			names = append(names, n)
		}
		sort.Strings(names)
		im.dirs[d] = names
		im.dpath = append(im.dpath, d)
	}
	sort.Strings(im.dpath)
	return im, nil
}

// imageRegimes reads, with a parser of its own, how many blocks of each kind the image has: the cache
// is shared by fragment blocks and by the 8 KiB metadata blocks of the inode and directory tables, and
// "a cache too small for the working set" means more such blocks than cache slots.
func imageRegimes(img []byte) map[string]int {
	st := map[string]int{}
	defer func() { _ = recover() }()
	le := binary.LittleEndian
	frags := int(le.Uint32(img[16:]))
	inoTab, dirTab, fragTab := int(le.Uint64(img[64:])), int(le.Uint64(img[72:])), int(le.Uint64(img[80:]))
	count := func(from, to int) (n int) {
		for o := from; o+2 <= to && o+2 <= len(img); n++ {
			o += 2 + int(le.Uint16(img[o:])&0x7FFF)
		}
		return n
	}
	st["fragment_blocks"] = frags
	st["inode_table_metadata_blocks"] = count(inoTab, dirTab)
	if frags > 0 && fragTab+8 <= len(img) {
		st["directory_table_metadata_blocks"] = count(dirTab, int(le.Uint64(img[fragTab:])))
	}
	st["fragment_table_metadata_blocks"] = (frags + 511) / 512
	return st
}

func pathDir(p string) string {
	if i := strings.LastIndexByte(p, '/'); i >= 0 {
		return p[:i]
	}
	return "."
}
func pathBase(p string) string { return p[strings.LastIndexByte(p, '/')+1:] }

// faultDev fails a ReadAt with probability pct% while *on is 1 (transient device errors: the failing
// fetch of the Lean machine, here under real concurrency). Nothing is read on a failure.
type faultDev struct {
	backend.Storage
	on       *int32
	pct      int
	seed     uint64
	ctr      uint64
	injected *int64
}

var errInjectedRead = errors.New("verif: injected read failure")

func (d *faultDev) ReadAt(p []byte, off int64) (int, error) {
	if atomic.LoadInt32(d.on) == 1 {
		h := splitmix(d.seed ^ (atomic.AddUint64(&d.ctr, 1) * 0x9E3779B97F4A7C15))
		if int(h%100) < d.pct {
			atomic.AddInt64(d.injected, 1)
			return 0, errInjectedRead
		}
	}
	return d.Storage.ReadAt(p, off)
}

// open opens the image for reading on a fresh device; hook is called in every ReadAt.
func (im *image) open(lockFree bool, hook func(off int64, n int)) (*squashfs.FileSystem, error) {
	return im.openWrapped(lockFree, hook, nil)
}

func (im *image) openWrapped(lockFree bool, hook func(off int64, n int), wrap func(backend.Storage) backend.Storage) (*squashfs.FileSystem, error) {
	var st backend.Storage
	if lockFree {
		st = &roDev{b: im.bytes, hook: hook}
	} else {
		d := memdev.New(int64(len(im.bytes)))
		d.KeepData = false
		d.RawWrite(im.bytes, 0)
		d.ReadOnly = true
		d.ReadHook = hook
		st = d
	}
	if wrap != nil {
		st = wrap(st)
	}
	return squashfs.Read(st, int64(len(im.bytes)), 0, blockSize)
}

// isIOError: the complaint of readTask is an error RETURNED by the library (not wrong data, not a panic).
func isIOError(bad string) bool {
	for _, p := range []string{"ReadDir: ", "ReadFile: ", "OpenFile: ", "ReadAll: ", "Read: ", "Seek: "} {
		if strings.HasPrefix(bad, p) {
			return true
		}
	}
	return false
}

// cleanPass reads every file and lists every directory once, sequentially: after injected read failures
// have stopped nothing of them may be left behind in the cache.
func cleanPass(fsys *squashfs.FileSystem, im *image) (bad string) {
	defer func() {
		if p := recover(); p != nil {
			bad = fmt.Sprintf("panic: %v", p)
		}
	}()
	for _, p := range im.paths {
		b, err := fsys.ReadFile(p)
		if err != nil {
			return fmt.Sprintf("ReadFile %s: %v", p, err)
		}
		if !bytes.Equal(b, im.files[p]) {
			return fmt.Sprintf("ReadFile %s: %d bytes differ from the %d source bytes", p, len(b), len(im.files[p]))
		}
	}
	for _, d := range im.dpath {
		ents, err := fsys.ReadDir(d)
		if err != nil {
			return fmt.Sprintf("ReadDir %s: %v", d, err)
		}
		var names []string
		for _, e := range ents {
			names = append(names, e.Name())
		}
		sort.Strings(names)
		if strings.Join(names, "\x00") != strings.Join(im.dirs[d], "\x00") {
			return fmt.Sprintf("ReadDir %s lists %d names, source has %d", d, len(names), len(im.dirs[d]))
		}
	}
	return ""
}

// ---- one reader task -------------------------------------------------------------------------

// readTask reads one file (or lists one directory) through a handle of its own and compares with
// the source. mode: 0 io.ReadAll, 1 odd-sized chunks, 2 seek to an offset then read a range,
// 3 ReadFile, 4 ReadDir.
func readTask(fsys *squashfs.FileSystem, im *image, r *hx.Rng) (what string, bad string) {
	defer func() {
		if p := recover(); p != nil {
			bad = fmt.Sprintf("panic: %v", p)
		}
	}()
	mode := r.Intn(6)
	if mode == 5 {
		return sameFileTask(fsys, im, r)
	}
	if mode == 4 {
		d := hx.Pick(r, im.dpath)
		what = "readdir " + d
		ents, err := fsys.ReadDir(d)
		if err != nil {
			return what, fmt.Sprintf("ReadDir: %v", err)
		}
		var names []string
		for _, e := range ents {
			names = append(names, e.Name())
		}
		sort.Strings(names)
		if strings.Join(names, "\x00") != strings.Join(im.dirs[d], "\x00") {
			return what, fmt.Sprintf("directory lists %d names, source has %d (%.200q vs %.200q)", len(names), len(im.dirs[d]), names, im.dirs[d])
		}
		return what, ""
	}
	p := hx.Pick(r, im.paths)
	if r.Chance(15) { // the big files and the shared directories get extra traffic
		p = im.paths[r.Intn(8)%len(im.paths)]
	}
	want := im.files[p]
	var got []byte
	wantPart := want
	switch mode {
	case 3:
		what = "readfile " + p
		b, err := fsys.ReadFile(p)
		if err != nil {
			return what, fmt.Sprintf("ReadFile: %v", err)
		}
		got = b
	default:
		f, err := fsys.OpenFile(p, os.O_RDONLY)
		if err != nil {
			return "open " + p, fmt.Sprintf("OpenFile: %v", err)
		}
		defer f.Close()
		switch mode {
		case 0:
			what = "readall " + p
			b, err := io.ReadAll(f)
			if err != nil {
				return what, fmt.Sprintf("ReadAll: %v after %d bytes", err, len(b))
			}
			got = b
		case 1:
			chunk := 1 + r.Intn(9001)
			what = fmt.Sprintf("chunks(%d) %s", chunk, p)
			buf := make([]byte, chunk)
			for guard := 0; ; guard++ {
				n, err := f.Read(buf)
				got = append(got, buf[:n]...)
				if err == io.EOF {
					break
				}
				if err != nil {
					return what, fmt.Sprintf("Read: %v after %d bytes", err, len(got))
				}
				if n == 0 || guard > len(want)+8 {
					return what, fmt.Sprintf("Read makes no progress after %d bytes", len(got))
				}
			}
		case 2:
			off := 0
			if len(want) > 0 {
				off = r.Intn(len(want) + 1)
			}
			ln := 1 + r.Intn(2*blockSize+100)
			what = fmt.Sprintf("seek(%d)+read(%d) %s", off, ln, p)
			if _, err := f.Seek(int64(off), io.SeekStart); err != nil {
				return what, fmt.Sprintf("Seek: %v", err)
			}
			buf := make([]byte, ln)
			n, err := io.ReadFull(f, buf)
			if err != nil && err != io.EOF && err != io.ErrUnexpectedEOF {
				return what, fmt.Sprintf("Read: %v", err)
			}
			got = buf[:n]
			hi := off + ln
			if hi > len(want) {
				hi = len(want)
			}
			wantPart = want[off:hi]
		}
	}
	if !bytes.Equal(got, wantPart) {
		i := 0
		for i < len(got) && i < len(wantPart) && got[i] == wantPart[i] {
			i++
		}
		return what, fmt.Sprintf("bytes differ from the source: got %d bytes, want %d, first difference at %d", len(got), len(wantPart), i)
	}
	return what, ""
}

// sameFileTask: 2-3 handles of ONE goroutine on the same file (one of the multi-block files, which other
// goroutines read at the same time too), sub-block reads alternating between the handles, each handle
// with a cursor of its own: every handle must see the file's bytes at ITS cursor (a block buffer shared
// between handles, or between a handle and a later read, shows here).
func sameFileTask(fsys *squashfs.FileSystem, im *image, r *hx.Rng) (what string, bad string) {
	p := im.paths[r.Intn(8)%len(im.paths)]
	want := im.files[p]
	nh := 2 + r.Intn(2)
	what = fmt.Sprintf("samefile(%d handles) %s", nh, p)
	atomic.AddInt64(&sameFileTasks, 1)
	type hnd struct {
		f interface {
			io.ReadSeeker
			io.Closer
		}
		off int
	}
	hs := make([]hnd, nh)
	for i := range hs {
		f, err := fsys.OpenFile(p, os.O_RDONLY)
		if err != nil {
			return what, fmt.Sprintf("OpenFile: %v", err)
		}
		defer f.Close()
		hs[i].f = f
		if i > 0 && len(want) > 0 {
			hs[i].off = r.Intn(len(want))
			if _, err := f.Seek(int64(hs[i].off), io.SeekStart); err != nil {
				return what, fmt.Sprintf("Seek: %v", err)
			}
		}
	}
	chunk := hx.Pick(r, []int{1, 13, 100, 700, 1500, 4095})
	buf := make([]byte, chunk)
	for step := 0; step < 40; step++ {
		h := &hs[step%nh]
		if h.off >= len(want) {
			h.off = r.Intn(len(want) + 1)
			if _, err := h.f.Seek(int64(h.off), io.SeekStart); err != nil {
				return what, fmt.Sprintf("Seek: %v", err)
			}
		}
		n, err := h.f.Read(buf)
		if err != nil && err != io.EOF {
			return what, fmt.Sprintf("Read: %v at offset %d", err, h.off)
		}
		hi := h.off + chunk
		if hi > len(want) {
			hi = len(want)
		}
		if !bytes.Equal(buf[:n], want[h.off:hi]) {
			return what, fmt.Sprintf("bytes differ from the source: handle %d of %d at offset %d got %d bytes, want %d", step%nh, nh, h.off, n, hi-h.off)
		}
		h.off += n
		for i := range buf { // the caller's buffer is the caller's
			buf[i] = 0x5A
		}
	}
	return what, ""
}

var sameFileTasks int64

// ---- one concurrent run ------------------------------------------------------------------------

type runCfg struct {
	img      int
	g        int // goroutines
	procs    int // GOMAXPROCS
	cache    string
	resize   bool
	getSize  bool // the resizer also calls GetCacheSize (dedicated -race scenario)
	yieldPct int
	tasks    int
	seed     uint64
	faultPct int  // > 0: this share of the backend reads fails while the readers run
	storm    bool // the resizer does not pause: bursts of SetCacheSize(0) / SetCacheSize(big)
}

func (k runCfg) String() string {
	s := fmt.Sprintf("img=%d goroutines=%d gomaxprocs=%d cache=%s resize=%v getsize=%v yield=%d%% tasks=%d seed=%d",
		k.img, k.g, k.procs, k.cache, k.resize, k.getSize, k.yieldPct, k.tasks, k.seed)
	if k.faultPct > 0 {
		s += fmt.Sprintf(" failing-reads=%d%%", k.faultPct)
	}
	if k.storm {
		s += " resize-storm"
	}
	return s
}

var cacheBytes = map[string]int{"0": 0, "1": blockSize, "2": 2 * blockSize, "few": 3 * blockSize, "default": -12345}

type runResult struct {
	bad      string // first oracle complaint
	deadline bool
	tasks    int64
	reads    int64
	wall     time.Duration
	injected int64 // backend reads failed on purpose
	faulted  int64 // reader tasks that returned an error while reads were failing
	rehashed int   // cached slices hashed again and found unchanged
}

func splitmix(x uint64) uint64 {
	x += 0x9E3779B97F4A7C15
	x = (x ^ (x >> 30)) * 0xBF58476D1CE4E5B9
	x = (x ^ (x >> 27)) * 0x94D049BB133111EB
	return x ^ (x >> 31)
}

func runConcurrent(im *image, k runCfg, lockFree bool, deadline time.Duration) (res runResult) {
	t0 := time.Now()
	defer func() { res.wall = time.Since(t0) }()
	old := runtime.GOMAXPROCS(k.procs)
	defer runtime.GOMAXPROCS(old)
	var ctr, reads uint64
	hook := func(off int64, n int) {
		atomic.AddUint64(&reads, 1)
		h := splitmix(k.seed ^ atomic.AddUint64(&ctr, 1))
		switch {
		case int(h%100) < k.yieldPct:
			runtime.Gosched()
		case int(h>>8%1000) < k.yieldPct/4:
			time.Sleep(time.Duration(h>>20%50) * time.Microsecond)
		}
	}
	var faultsOn int32
	var injected, faulted int64
	var wrap func(backend.Storage) backend.Storage
	if k.faultPct > 0 {
		wrap = func(st backend.Storage) backend.Storage {
			return &faultDev{Storage: st, on: &faultsOn, pct: k.faultPct, seed: k.seed, injected: &injected}
		}
	}
	var fsys *squashfs.FileSystem
	var err error
	func() {
		defer func() {
			if p := recover(); p != nil {
				err = fmt.Errorf("panic: %v", p)
			}
		}()
		fsys, err = im.openWrapped(lockFree, hook, wrap)
	}()
	if err != nil {
		res.bad = fmt.Sprintf("squashfs.Read: %v", err)
		return res
	}
	if cb := cacheBytes[k.cache]; cb != -12345 {
		func() {
			defer func() {
				if p := recover(); p != nil {
					err = fmt.Errorf("SetCacheSize(%d): panic: %v", cb, p)
				}
			}()
			fsys.SetCacheSize(cb)
		}()
		if err != nil {
			res.bad = err.Error()
			return res
		}
	}
	var mu sync.Mutex
	fail := func(s string) {
		mu.Lock()
		if res.bad == "" {
			res.bad = s
		}
		mu.Unlock()
	}
	var tasks int64
	var wg sync.WaitGroup
	stop := make(chan struct{})
	for g := 0; g < k.g; g++ {
		wg.Add(1)
		r := hx.NewRng(splitmix(k.seed + uint64(g)*1000003))
		go func(g int, r *hx.Rng) {
			defer wg.Done()
			for i := 0; i < k.tasks; i++ {
				what, bad := readTask(fsys, im, r)
				atomic.AddInt64(&tasks, 1)
				if bad != "" && k.faultPct > 0 && isIOError(bad) {
					// an error is the right answer while reads fail; wrong bytes or a panic never are
					atomic.AddInt64(&faulted, 1)
					continue
				}
				if bad != "" {
					fail(fmt.Sprintf("goroutine %d task %d (%s): %s", g, i, what, bad))
					return
				}
			}
		}(g, r)
	}
	atomic.StoreInt32(&faultsOn, 1) // opening the image was undisturbed
	defer func() { res.injected, res.faulted = atomic.LoadInt64(&injected), atomic.LoadInt64(&faulted) }()
	var rwg sync.WaitGroup
	if k.resize {
		rwg.Add(1)
		go func() {
			defer rwg.Done()
			defer func() {
				if p := recover(); p != nil {
					fail(fmt.Sprintf("SetCacheSize goroutine: panic: %v", p))
				}
			}()
			r := hx.NewRng(splitmix(k.seed ^ 0xabcdef))
			sizes := []int{0, blockSize, 2 * blockSize, 3 * blockSize, 16 * blockSize, 128 << 20, -1, blockSize - 1}
			for i := 0; ; i++ {
				select {
				case <-stop:
					return
				default:
				}
				if k.storm {
					// a storm: the cache is emptied and reopened as fast as the lock allows
					for j := 0; j < 50; j++ {
						fsys.SetCacheSize([]int{0, 128 << 20, 0, blockSize, 0, 2 * blockSize}[j%6])
					}
					runtime.Gosched()
					continue
				}
				fsys.SetCacheSize(hx.Pick(r, sizes))
				if k.getSize {
					_ = fsys.GetCacheSize()
				}
				if r.Chance(50) {
					runtime.Gosched()
				} else {
					time.Sleep(time.Duration(r.Intn(200)) * time.Microsecond)
				}
			}
		}()
	}
	// cached data is immutable: a watcher hashes the cached slices while the readers run (immut.go)
	watch := newImmWatch()
	if l := fsys.CacheForVerif(); l != nil {
		rwg.Add(1)
		go func() {
			defer rwg.Done()
			for {
				select {
				case <-stop:
					return
				default:
				}
				t0 := time.Now()
				if bad := watch.observe(l); bad != "" {
					fail(bad)
					return
				}
				// the watcher must not dominate the run: pause at least eight times as long as a look took
				pause := 8 * time.Since(t0)
				if pause < 2*time.Millisecond {
					pause = 2 * time.Millisecond
				}
				time.Sleep(pause)
			}
		}()
	}
	defer func() { res.rehashed = watch.checks }()
	if k.getSize {
		// a reader of the cache size, as a monitoring goroutine of an application would be
		rwg.Add(1)
		go func() {
			defer rwg.Done()
			for {
				select {
				case <-stop:
					return
				default:
				}
				_ = fsys.GetCacheSize()
				runtime.Gosched()
			}
		}()
	}
	done := make(chan struct{})
	go func() { wg.Wait(); close(done) }()
	tm := time.NewTimer(deadline)
	defer tm.Stop()
	select {
	case <-done:
	case <-tm.C:
		res.deadline = true
		buf := make([]byte, 1<<16)
		n := runtime.Stack(buf, true)
		fail(fmt.Sprintf("readers did not finish within %v (%d of %d tasks done); goroutines: %.3000s", deadline, atomic.LoadInt64(&tasks), k.g*k.tasks, buf[:n]))
		close(stop)
		res.tasks, res.reads = atomic.LoadInt64(&tasks), int64(atomic.LoadUint64(&reads))
		return res
	}
	close(stop)
	rwg.Wait()
	res.tasks, res.reads = atomic.LoadInt64(&tasks), int64(atomic.LoadUint64(&reads))
	if k.faultPct > 0 {
		// the failures were transient: once they stop, every file and directory must read back exactly
		// (a failed fetch must not leave a short, empty or foreign block in the cache)
		atomic.StoreInt32(&faultsOn, 0)
		if bad := cleanPass(fsys, im); bad != "" {
			fail(fmt.Sprintf("after %d injected read failures had stopped, a sequential pass over the image: %s", atomic.LoadInt64(&injected), bad))
		}
	}
	if bad := watch.observe(fsys.CacheForVerif()); bad != "" {
		fail(bad)
	}
	if bad := watch.final(); bad != "" {
		fail("at the end of the run: " + bad)
	}
	// quiescent: the real cache must be a well-formed list of at most max(1, maxBlocks) blocks
	if l := fsys.CacheForVerif(); l != nil {
		func() {
			defer func() {
				if p := recover(); p != nil {
					fail(fmt.Sprintf("cache snapshot: panic: %v", p))
				}
			}()
			if _, bad := checkShape(l, boundFromCache); bad != "" {
				fail("cache after the run: " + bad)
			}
		}()
	}
	return res
}

// ---- the concurrent part of the engine -------------------------------------------------------

// imageFile is the gob form of an image: the parent process hands its images to the -race child
// so that the (slow, instrumented) child does not have to build them again.
type imageFile struct {
	Name         string
	Bytes        []byte
	Files        map[string][]byte
	Dirs         map[string][]string
	Paths, Dpath []string
}

func saveImages(path string, imgs []*image) error {
	var out []imageFile
	for _, im := range imgs {
		out = append(out, imageFile{im.name, im.bytes, im.files, im.dirs, im.paths, im.dpath})
	}
	f, err := os.Create(path)
	if err != nil {
		return err
	}
	defer f.Close()
	return gob.NewEncoder(f).Encode(out)
}

func loadImages(path string) ([]*image, error) {
	f, err := os.Open(path)
	if err != nil {
		return nil, err
	}
	defer f.Close()
	var in []imageFile
	if err := gob.NewDecoder(f).Decode(&in); err != nil {
		return nil, err
	}
	var imgs []*image
	for _, x := range in {
		imgs = append(imgs, &image{x.Name, x.Bytes, x.Files, x.Dirs, x.Paths, x.Dpath})
	}
	return imgs, nil
}

func imagesPath(c *hx.Ctx) string { return filepath.Join(c.Scratch, "c17-images.gob") }

func concurrent(c *hx.Ctx, isRace bool) {
	var imgs []*image
	if p := c.Args["images"]; p != "" {
		var err error
		if imgs, err = loadImages(p); err != nil {
			c.Note("C17: cannot load the images handed over by the parent (%v); building them", err)
			imgs = nil
		}
	}
	loaded := len(imgs) > 0
	for i, gz := range []bool{true, false} {
		if loaded {
			break
		}
		if isRace && i == 1 && !c.Thorough() {
			break
		}
		name := map[bool]string{true: "gzip", false: "uncompressed"}[gz]
		var im *image
		var err error
		func() {
			defer func() {
				if p := recover(); p != nil {
					err = fmt.Errorf("panic: %v", p)
				}
			}()
			im, err = buildImage(c, c.Rng.Fork(), name, gz)
		}()
		if err != nil {
			// building images is C07's business; without an image there is nothing to read
			c.Note("C17: could not build the %s image: %v", name, err)
			continue
		}
		// sequential baseline: one reader, default cache. Files the sequential reader gets wrong are
		// another property's finding (C07/C10); they are left out of the concurrent comparison.
		dropped := seqBaseline(im)
		if dropped > 0 {
			c.Note("C17: %d files of the %s image are not read back correctly even sequentially; excluded", dropped, name)
			c.StatN("concurrent.files_excluded_sequentially_wrong", dropped)
		}
		if len(im.paths) == 0 {
			continue
		}
		for k, v := range imageRegimes(im.bytes) {
			c.StatN("concurrent.image_"+k+"."+name, v)
		}
		c.StatN("concurrent.image_files."+name, len(im.paths))
		c.StatN("concurrent.image_bytes."+name, len(im.bytes))
		imgs = append(imgs, im)
	}
	if len(imgs) == 0 {
		id := "concurrent/setup"
		c.Fail(id, "-", "no squashfs image could be built and read back sequentially", "")
		return
	}
	if !isRace {
		if err := saveImages(imagesPath(c), imgs); err != nil {
			c.Note("C17: cannot save the images for the -race child: %v", err)
		}
	}
	gs := []int{2, 3, 4, 8, 8, 16, 32}
	ps := []int{1, 2, 4, 4, 8, 16}
	caches := []string{"0", "1", "2", "few", "default"}
	var n int
	switch {
	case isRace && c.Args["scenario"] == "getsize":
		n = 2
	case isRace:
		n = c.N(12, 500)
	default:
		n = c.N(120, 4000)
	}
	if v := c.Args["runs"]; v != "" {
		fmt.Sscan(v, &n)
	}
	deadline := time.Duration(c.N(30, 90)) * time.Second
	prefix := "concurrent"
	if isRace {
		prefix = "race"
	}
	for i := 0; i < n; i++ {
		r := c.Rng.Fork()
		k := runCfg{
			img:      i % len(imgs),
			g:        gs[r.Intn(len(gs))],
			procs:    ps[r.Intn(len(ps))],
			cache:    caches[i%len(caches)],
			resize:   r.Chance(45),
			yieldPct: hx.Pick(r, []int{0, 5, 20, 50, 90}),
			tasks:    c.N(14, 24),
			seed:     r.U64(),
		}
		k.storm = k.resize && r.Chance(25)
		if i < 8 { // the boundary grid first: few/many goroutines x one/many processors
			k.g = []int{2, 32, 2, 32, 8, 8, 16, 3}[i]
			k.procs = []int{1, 1, 16, 16, 4, 2, 8, 1}[i]
			k.resize = i%2 == 0
		}
		if isRace {
			k.tasks = c.N(8, 12)
			if k.g > 16 {
				k.g = 16
			}
			if c.Args["scenario"] == "getsize" {
				k.resize, k.getSize, k.g = true, true, 4
			}
		}
		if i%6 == 5 && c.Args["scenario"] != "getsize" { // every sixth run: transient read failures
			k.faultPct = []int{2, 10}[(i/6)%2]
		}
		id := fmt.Sprintf("%s/%d", prefix, i)
		if !c.Want(id) {
			continue
		}
		res := runConcurrent(imgs[k.img], k, isRace || i%3 == 2, deadline)
		c.Stat(prefix + ".runs")
		c.Stat(fmt.Sprintf("%s.cache.%s", prefix, k.cache))
		c.Stat(fmt.Sprintf("%s.goroutines.%02d", prefix, k.g))
		c.Stat(fmt.Sprintf("%s.gomaxprocs.%02d", prefix, k.procs))
		if k.resize {
			c.Stat(prefix + ".with_concurrent_SetCacheSize")
		}
		if k.storm {
			c.Stat(prefix + ".with_resize_storm")
		}
		c.StatN(prefix+".cached_blocks_rehashed_unchanged", res.rehashed)
		if k.faultPct > 0 {
			c.Stat(prefix + ".with_transient_read_failures")
			c.StatN(prefix+".injected_read_failures", int(res.injected))
			c.StatN(prefix+".reader_tasks_refused_while_reads_failed", int(res.faulted))
		}
		c.StatN(prefix+".reader_tasks", int(res.tasks))
		c.StatN(prefix+".backend_reads", int(res.reads))
		c.Distinct(prefix + " " + k.String())
		if i < 1 {
			c.Sample(fmt.Sprintf("%s %s -> %d reader tasks, %d backend reads, %v", prefix, k, res.tasks, res.reads, res.wall.Round(time.Millisecond)))
		}
		if res.bad != "" {
			c.Fail(id, "-", res.bad, prefix+" "+k.String())
		} else {
			c.OK(id)
		}
		if i == n-1 {
			c.StatN(prefix+".same_file_multi_handle_tasks", int(atomic.LoadInt64(&sameFileTasks)))
		}
		if res.deadline {
			c.Note("C17: a run missed its deadline; its goroutines are stuck, no further concurrent runs in this process")
			return
		}
	}
}

// seqBaseline reads every file and directory once, sequentially; entries the sequential reader gets
// wrong are removed from the image description. Returns how many were removed.
func seqBaseline(im *image) (dropped int) {
	fsys, err := im.open(false, nil)
	if err != nil {
		im.paths = nil
		return len(im.files)
	}
	var keep []string
	for _, p := range im.paths {
		ok := func() (ok bool) {
			defer func() {
				if recover() != nil {
					ok = false
				}
			}()
			b, err := fsys.ReadFile(p)
			return err == nil && bytes.Equal(b, im.files[p])
		}()
		if ok {
			keep = append(keep, p)
		} else {
			dropped++
		}
	}
	im.paths = keep
	var dkeep []string
	for _, d := range im.dpath {
		ok := func() (ok bool) {
			defer func() {
				if recover() != nil {
					ok = false
				}
			}()
			ents, err := fsys.ReadDir(d)
			if err != nil {
				return false
			}
			var names []string
			for _, e := range ents {
				names = append(names, e.Name())
			}
			sort.Strings(names)
			return strings.Join(names, "\x00") == strings.Join(im.dirs[d], "\x00")
		}()
		if ok {
			dkeep = append(dkeep, d)
		} else {
			dropped++
		}
	}
	im.dpath = dkeep
	if len(im.dpath) == 0 {
		im.paths = nil
	}
	return dropped
}
