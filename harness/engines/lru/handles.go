package lru

// 5. handles: the read paths ABOVE the cache (File.Read = data blocks straight from the device or from
// the handle's own last block + the tail through one cache get; Seek; SetCacheSize), exercised
// deterministically: 1-4 handles — often on the SAME file — on a library-built image whose file
// contents follow a formula the Lean driver knows, their Read / Seek / SetCacheSize calls interleaved
// one at a time by one goroutine (sub-block reads of stored and of compressed blocks alternate between
// handles: the regime in which a buffer shared between handles shows). For every call the answer
// (length, EOF / error, hash of the bytes), the number of data blocks read from the DEVICE, whether the
// fragment block was fetched, and the cache's recency order afterwards are emitted for the Lean
// model `handleC` running on the Lean cache machine (op lru.handles). The oracle is independent of
// the model: bytes.Reader semantics over the source bytes, and cached blocks never change (immut.go).

import (
	"bytes"
	"fmt"
	"io"
	"os"
	"path/filepath"
	"sort"
	"strconv"
	"strings"

	"github.com/diskfs/go-diskfs/filesystem"
	"github.com/diskfs/go-diskfs/filesystem/squashfs"

	"verif/harness/internal/hx"
	"verif/harness/internal/memdev"
)

// contentByte is the formula of lean/Driver/Lru.lean `contentByte`: kind 0 compresses, kind 1 does not.
func contentByte(kind, seed, i int) byte {
	if kind == 0 {
		return byte((seed + i*7 + (i/256)*13 + (i/4096)*101) % 251)
	}
	x := uint64(i+seed*7919+1) * 0x9E3779B97F4A7C15
	x ^= x >> 30
	x *= 0xBF58476D1CE4E5B9
	x ^= x >> 27
	return byte(x >> 32)
}

func formulaContent(kind, seed, size int) []byte {
	b := make([]byte, size)
	for i := range b {
		b[i] = contentByte(kind, seed, i)
	}
	return b
}

func hashBytes(b []byte) uint64 {
	h := uint64(7)
	for _, x := range b {
		h = (h*31 + uint64(x)) % 4294967296
	}
	return h
}

type hFile struct {
	path       string
	kind, seed int
	data       []byte
	// layout, from the C07 accessors
	start   uint64
	sizes   []uint32
	comp    []bool
	fragIdx uint32
	fragOff uint32
	desc    string // the model's description of the file
	stored  bool   // has a data block stored uncompressed
}

type hImage struct {
	name      string
	bytes     []byte
	files     []*hFile
	fragStart []uint64
	fragLen   map[uint64]int // fragment block position -> decompressed length (from the files' tails)
}

func buildHandleImage(r *hx.Rng, name string, gzip bool) (*hImage, error) {
	im := &hImage{name: name, fragLen: map[uint64]int{}}
	const devSize = 16 << 20
	dev := memdev.New(devSize)
	dev.KeepData = false
	fsys, err := squashfs.Create(dev, devSize, 0, blockSize)
	if err != nil {
		return nil, fmt.Errorf("squashfs.Create: %v", err)
	}
	ws := fsys.Workspace()
	defer os.RemoveAll(ws)
	sizes := []int{1, 100, blockSize - 1, blockSize, blockSize + 1, 2 * blockSize, 2*blockSize + 777, 3*blockSize + 4095,
		5*blockSize + 13, 1 + r.Intn(3*blockSize), blockSize + 1 + r.Intn(2*blockSize), 0, 2000 + r.Intn(2000)}
	for i, sz := range sizes {
		f := &hFile{path: fmt.Sprintf("h%02d.bin", i), kind: i % 2, seed: r.Intn(100000)}
		if i == 5 || i == 8 {
			f.kind = 1 // incompressible multi-block files: stored as they are also in the gzip image
		}
		f.data = formulaContent(f.kind, f.seed, sz)
		if err := os.WriteFile(filepath.Join(ws, f.path), f.data, 0o644); err != nil {
			return nil, err
		}
		im.files = append(im.files, f)
	}
	opts := squashfs.FinalizeOptions{}
	if gzip {
		opts.Compression = &squashfs.CompressorGzip{CompressionLevel: 6}
	}
	if err := fsys.Finalize(opts); err != nil {
		return nil, fmt.Errorf("Finalize: %v", err)
	}
	end := int64(0)
	for _, e := range dev.Log {
		if !e.Sync && e.Off+int64(e.Len) > end {
			end = e.Off + int64(e.Len)
		}
	}
	if end == 0 || end > devSize {
		return nil, fmt.Errorf("image end %d", end)
	}
	end = (end + blockSize - 1) / blockSize * blockSize
	im.bytes = dev.Bytes(0, int(end))
	// layout through the C07 accessors on a reader of its own
	rd, _, err := im.open(nil)
	if err != nil {
		return nil, err
	}
	starts, _, _ := squashfs.VerifFragments(rd)
	im.fragStart = starts
	for _, f := range im.files {
		var size int64
		f.start, f.sizes, f.comp, f.fragIdx, f.fragOff, size, err = squashfs.VerifFileLayout(rd, f.path)
		if err != nil {
			return nil, fmt.Errorf("layout of %s: %v", f.path, err)
		}
		if size != int64(len(f.data)) {
			return nil, fmt.Errorf("layout of %s: size %d, source has %d", f.path, size, len(f.data))
		}
		bl := make([]string, len(f.sizes))
		for i := range f.sizes {
			c := 0
			if f.comp[i] {
				c = 1
			} else {
				f.stored = true
			}
			bl[i] = fmt.Sprintf("%d.%d", f.sizes[i], c)
		}
		bls := "-"
		if len(bl) > 0 {
			bls = strings.Join(bl, "/")
		}
		fr := "-"
		if f.fragIdx != 0xffffffff {
			if int(f.fragIdx) >= len(starts) {
				return nil, fmt.Errorf("layout of %s: fragment index %d of %d", f.path, f.fragIdx, len(starts))
			}
			pos := starts[f.fragIdx]
			fr = fmt.Sprintf("%d.%d", pos, f.fragOff)
			if e := int(f.fragOff) + len(f.data)%blockSize; e > im.fragLen[pos] {
				im.fragLen[pos] = e
			}
		}
		f.desc = fmt.Sprintf("%d:%d:%s:%s:%d.%d", len(f.data), f.start, bls, fr, f.kind, f.seed)
	}
	return im, nil
}

func (im *hImage) open(hook func(off int64, n int)) (*squashfs.FileSystem, *memdev.Dev, error) {
	d := memdev.New(int64(len(im.bytes)))
	d.KeepData = false
	d.RawWrite(im.bytes, 0)
	d.ReadOnly = true
	d.ReadHook = hook
	fsys, err := squashfs.Read(d, int64(len(im.bytes)), 0, blockSize)
	return fsys, d, err
}

type hOp struct {
	h      int
	kind   byte // r, s, c
	n      int
	whence int
	off    int64
}

func (o hOp) String() string {
	switch o.kind {
	case 'r':
		return fmt.Sprintf("%d.r%d", o.h, o.n)
	case 'c':
		return fmt.Sprintf("%d.c%d", o.h, o.off)
	}
	return fmt.Sprintf("%d.s%d.%d", o.h, o.whence, o.off)
}

func handles(c *hx.Ctx) {
	var imgs []*hImage
	for _, gz := range []bool{true, false} {
		name := map[bool]string{true: "gzip", false: "uncompressed"}[gz]
		var im *hImage
		var err error
		func() {
			defer func() {
				if p := recover(); p != nil {
					err = fmt.Errorf("panic: %v", p)
				}
			}()
			im, err = buildHandleImage(c.Rng.Fork(), name, gz)
		}()
		if err != nil {
			c.Note("C17: could not build the %s image of the handles family: %v", name, err)
			continue
		}
		stored, comp := 0, 0
		for _, f := range im.files {
			for _, cf := range f.comp {
				if cf {
					comp++
				} else {
					stored++
				}
			}
		}
		c.StatN("handles.image_data_blocks_stored."+name, stored)
		c.StatN("handles.image_data_blocks_compressed."+name, comp)
		c.StatN("handles.image_fragment_blocks."+name, len(im.fragStart))
		imgs = append(imgs, im)
	}
	if len(imgs) == 0 {
		c.Fail("handles/setup", "-", "no image for the handles family could be built", "")
		return
	}
	n := c.N(48, 1500)
	for i := 0; i < n; i++ {
		r := c.Rng.Fork()
		id := fmt.Sprintf("handles/%d", i)
		im := imgs[i%len(imgs)]
		nh := []int{2, 2, 3, 1, 4, 2}[i%6]
		// the files of the handles: mostly the same multi-block file
		multi := []int{}
		for j, f := range im.files {
			if len(f.sizes) >= 1 {
				multi = append(multi, j)
			}
		}
		first := hx.Pick(r, multi)
		if i%4 == 1 {
			first = r.Intn(len(im.files))
		}
		fi := make([]int, nh)
		for h := range fi {
			switch {
			case h == 0 || r.Chance(65):
				fi[h] = first
			default:
				fi[h] = r.Intn(len(im.files))
			}
		}
		cache := []string{"-", "0", "1", "2", "3"}[(i/2)%5]
		nops := 12 + r.Intn(c.N(40, 90))
		ops := make([]hOp, 0, nops)
		for len(ops) < nops {
			h := r.Intn(nh)
			if len(ops)%5 < 3 && nh > 1 { // stretches of strict alternation between the handles
				h = len(ops) % nh
			}
			size := len(im.files[fi[h]].data)
			switch {
			case r.Chance(6):
				ops = append(ops, hOp{h: h, kind: 'c', off: hx.Pick(r, []int64{0, blockSize, 2 * blockSize, 3 * blockSize, 128 << 20, -1, blockSize - 1, 16 * blockSize})})
			case r.Chance(18):
				w := r.Intn(3)
				var off int64
				switch w {
				case 0:
					off = int64(r.Intn(size + 2))
					if r.Chance(30) {
						off = int64(r.Intn(size/blockSize+1)*blockSize + hx.Pick(r, []int{0, 1, blockSize - 1, 17}))
					}
				case 1:
					off = int64(r.Intn(2*blockSize)) - blockSize
				default:
					off = -int64(r.Intn(size + 2))
					if r.Chance(10) {
						off = int64(r.Intn(5))
					}
				}
				if r.Chance(4) {
					off = -int64(size) - 1 - int64(r.Intn(100))
				}
				ops = append(ops, hOp{h: h, kind: 's', whence: w, off: off})
			default:
				nn := hx.Pick(r, []int{1, 7, 100, 511, 1000, 1 + r.Intn(2000), 1 + r.Intn(blockSize), blockSize, blockSize + 1, 2*blockSize + 7, 0, 3 * blockSize})
				ops = append(ops, hOp{h: h, kind: 'r', n: nn})
			}
		}
		if !c.Want(id) {
			continue
		}
		runHandles(c, id, im, fi, cache, ops)
	}
}

var handleSamples int

func runHandles(c *hx.Ctx, id string, im *hImage, fi []int, cache string, ops []hOp) {
	var reads []int64
	hook := func(off int64, n int) { reads = append(reads, off) }
	bad := ""
	fail := func(format string, a ...any) {
		if bad == "" {
			bad = fmt.Sprintf(format, a...)
		}
	}
	var fsys *squashfs.FileSystem
	var hs []filesystem.File
	panicked := false
	func() {
		defer func() {
			if p := recover(); p != nil {
				panicked = true
				fail("panic while opening: %v", p)
			}
		}()
		var err error
		fsys, _, err = im.open(hook)
		if err != nil {
			fail("squashfs.Read: %v", err)
			return
		}
		for _, j := range fi {
			f, err := fsys.OpenFile(im.files[j].path, os.O_RDONLY)
			if err != nil {
				fail("OpenFile %s: %v", im.files[j].path, err)
				return
			}
			hs = append(hs, f)
		}
	}()
	if bad != "" {
		c.Fail(id, "-", bad, "")
		return
	}
	l := fsys.CacheForVerif()
	w := newImmWatch()
	snap := func() string {
		ml, order, wf := l.Snapshot(1 << 20)
		if !wf {
			fail("recency list not well-formed")
		}
		return orderString(ml, order)
	}
	// what opening the handles left in the cache, least recently used first
	_, order, _ := l.Snapshot(1 << 20)
	pre := make([]string, len(order))
	for i, p := range order {
		pre[len(order)-1-i] = strconv.FormatInt(p, 10)
	}
	preS := "-"
	if len(pre) > 0 {
		preS = strings.Join(pre, ",")
	}
	maxArg := []string{}
	if cache != "-" {
		blocks, _ := strconv.Atoi(cache)
		fsys.SetCacheSize(blocks * blockSize)
		maxArg = []string{"max=" + cache}
	}
	isFrag := map[int64]bool{}
	for _, s := range im.fragStart {
		isFrag[int64(s)] = true
	}
	cur := make([]int64, len(hs)) // the specification's cursors (bytes.Reader over the source)
	out := make([]string, 0, len(ops))
	servedByLast, fragHits, fragMisses, subBlock, resizes, altStored := 0, 0, 0, 0, 0, 0
	lastReader := -1
	for k, o := range ops {
		reads = reads[:0]
		src := im.files[fi[o.h]].data
		tok := ""
		func() {
			defer func() {
				if p := recover(); p != nil {
					panicked = true
					fail("op %d (%s): panic: %v", k, o, p)
				}
			}()
			switch o.kind {
			case 'c':
				fsys.SetCacheSize(int(o.off))
				tok = "c"
				resizes++
			case 's':
				got, err := hs[o.h].Seek(o.off, o.whence)
				var t int64
				switch o.whence {
				case io.SeekStart:
					t = o.off
				case io.SeekCurrent:
					t = cur[o.h] + o.off
				default:
					t = int64(len(src)) + o.off
				}
				if t < 0 {
					tok = "sx"
					if err == nil {
						fail("op %d (%s): Seek to %d returned no error", k, o, t)
					}
				} else {
					tok = "s" + strconv.FormatInt(got, 10)
					if err != nil || got != t {
						fail("op %d (%s): Seek returned (%d, %v), want (%d, nil)", k, o, got, err, t)
					}
					cur[o.h] = t
				}
			case 'r':
				buf := make([]byte, o.n)
				for i := range buf {
					buf[i] = 0xA5
				}
				nr, err := hs[o.h].Read(buf)
				if nr < 0 || nr > len(buf) {
					fail("op %d (%s): Read returned n=%d", k, o, nr)
					nr = 0
				}
				flag := "-"
				switch {
				case err == io.EOF:
					flag = "E"
				case err != nil:
					flag = "x"
				}
				devReads, fragRead := 0, 0
				for _, off := range reads {
					if isFrag[off] {
						fragRead = 1
					} else {
						devReads++
					}
				}
				tok = fmt.Sprintf("r%d:%s:%d:d%df%d", nr, flag, hashBytes(buf[:nr]), devReads, fragRead)
				// the oracle: bytes.Reader over the source
				want := []byte{}
				if cur[o.h] < int64(len(src)) {
					hi := cur[o.h] + int64(o.n)
					if hi > int64(len(src)) {
						hi = int64(len(src))
					}
					want = src[cur[o.h]:hi]
				}
				switch {
				case flag == "x":
					fail("op %d (%s) at offset %d: Read returned error %v", k, o, cur[o.h], err)
				case !bytes.Equal(buf[:nr], want):
					fail("op %d (%s) at offset %d of %s: Read returned %d bytes, want %d; bytes differ from the source", k, o, cur[o.h], im.files[fi[o.h]].path, nr, len(want))
				case flag == "E" && cur[o.h]+int64(nr) < int64(len(src)):
					fail("op %d (%s): io.EOF at offset %d of %d", k, o, cur[o.h]+int64(nr), len(src))
				case o.n > 0 && cur[o.h] >= int64(len(src)) && flag != "E":
					fail("op %d (%s): no io.EOF at the end", k, o)
				}
				for i := nr; i < len(buf); i++ {
					if buf[i] != 0xA5 {
						fail("op %d (%s): Read wrote past the %d bytes it reported", k, o, nr)
						break
					}
				}
				inBlocks := cur[o.h] < int64(len(im.files[fi[o.h]].sizes))*blockSize
				if nr > 0 && inBlocks && devReads == 0 {
					servedByLast++
				}
				if nr > 0 && !inBlocks {
					if fragRead == 1 {
						fragMisses++
					} else {
						fragHits++
					}
				}
				if o.n < blockSize && nr > 0 {
					subBlock++
					if lastReader >= 0 && lastReader != o.h && fi[lastReader] == fi[o.h] && im.files[fi[o.h]].stored && inBlocks {
						altStored++
					}
				}
				lastReader = o.h
				cur[o.h] += int64(nr)
				// the caller owns its buffer: whatever it does with it must not reach any handle or the cache
				for i := range buf {
					buf[i] = 0x5A
				}
			}
		}()
		if panicked {
			break
		}
		if msg := w.observe(l); msg != "" {
			fail("op %d (%s): %s", k, o, msg)
		}
		out = append(out, tok+"@"+snap())
	}
	if msg := w.final(); msg != "" {
		fail("at the end: %s", msg)
	}
	pan := 0
	if panicked {
		pan = 1
	}
	opS := make([]string, len(ops))
	for i, o := range ops {
		opS[i] = o.String()
	}
	descs := make([]string, len(fi))
	same := 0
	seen := map[int]bool{}
	for i, j := range fi {
		descs[i] = im.files[j].desc
		if seen[j] {
			same++
		}
		seen[j] = true
	}
	var fr []string
	for pos, ln := range im.fragLen {
		fr = append(fr, fmt.Sprintf("%d:%d", pos, ln))
	}
	sort.Strings(fr)
	frS := "-"
	if len(fr) > 0 {
		frS = strings.Join(fr, ";")
	}
	args := append([]string{fmt.Sprintf("bs=%d", blockSize)}, maxArg...)
	args = append(args, "pre="+preS, "frags="+frS, "files="+strings.Join(descs, "|"), "ops="+strings.Join(opS, ","))
	c.Case(id, "lru.handles", args...)
	c.Impl(id, strings.Join(out, ","), "seq=1", fmt.Sprintf("panic=%d", pan))
	c.Stat("handles.cases")
	c.Stat(fmt.Sprintf("handles.handles.%d", len(fi)))
	c.Stat("handles.image." + im.name)
	c.Stat("handles.cache." + cache)
	if same > 0 {
		c.Stat("handles.two_or_more_handles_on_one_file")
	}
	c.StatN("handles.calls", len(ops))
	c.StatN("handles.reads_served_by_the_handles_last_block", servedByLast)
	c.StatN("handles.fragment_gets_hit", fragHits)
	c.StatN("handles.fragment_gets_missed", fragMisses)
	c.StatN("handles.sub_block_reads", subBlock)
	c.StatN("handles.sub_block_reads_alternating_between_handles_of_one_file_with_stored_blocks", altStored)
	c.StatN("handles.SetCacheSize_calls", resizes)
	c.StatN("handles.cached_blocks_rehashed", w.checks)
	if same > 0 && servedByLast > 0 && fragHits+fragMisses > 0 {
		c.Distinct(fmt.Sprintf("handles %s cache=%s files=%v ops=%s", im.name, cache, fi, strings.Join(opS, ",")))
	}
	if handleSamples < 1 && len(ops) <= 20 && same > 0 {
		handleSamples++
		c.Sample(fmt.Sprintf("lru.handles %s files=%s ops=%s -> %s", im.name, strings.Join(descs, "|"), strings.Join(opS, ","), strings.Join(out, ",")))
	}
	for _, f := range hs {
		_ = f.Close()
	}
	if bad != "" {
		c.Fail(id, "-", bad, fmt.Sprintf("lru.handles image=%s files=%v cache=%s ops=%s", im.name, fi, cache, strings.Join(opS, ",")))
	} else {
		c.OK(id)
	}
}
