package lru

import (
	"bytes"
	"context"
	"fmt"
	"os"
	"os/exec"
	"path/filepath"
	"regexp"
	"runtime"
	"sort"
	"strings"
	"time"

	"verif/harness/internal/hx"
)

// The -race part. lib/runner.py builds engines without -race, so vh-lru builds cmd/vh-lrurace
// (the same engine package) with `go build -race -tags verif` into its scratch directory and
// runs it as a child process with a deadline:
//
//	scenario=reads    the concurrent runs of concurrent.go on a lock-free device
//	                  (readers + SetCacheSize; GetCacheSize is never called)
//	scenario=getsize  dedicated replay: SetCacheSize and GetCacheSize called concurrently
//
// A "WARNING: DATA RACE" report on the child's stderr is an oracle failure. The race detector
// only sees the schedules that happen; it is a search aid, not part of the proof.

const tagGetCacheSize = "sqfs-lru-race-getcachesize"

func harnessDir() string {
	if d := os.Getenv("VERIF_HARNESS"); d != "" {
		return d
	}
	if _, file, _, ok := runtime.Caller(0); ok && filepath.IsAbs(file) {
		d := filepath.Dir(filepath.Dir(filepath.Dir(file))) // …/harness/engines/lru/race.go
		if _, err := os.Stat(filepath.Join(d, "go.mod")); err == nil {
			return d
		}
	}
	return "/verif/harness"
}

func goEnv() []string {
	var env []string
	for _, e := range os.Environ() {
		if strings.HasPrefix(e, "GOSUMDB=") || strings.HasPrefix(e, "GOFLAGS=") || strings.HasPrefix(e, "GOPROXY=") ||
			strings.HasPrefix(e, "GOTOOLCHAIN=") || strings.HasPrefix(e, "TMPDIR=") || strings.HasPrefix(e, "GOMEMLIMIT=") {
			continue
		}
		env = append(env, e)
	}
	return append(env, "GOFLAGS=-mod=mod", "GOPROXY=off", "GOTOOLCHAIN=auto", "CGO_ENABLED=1")
}

// buildRace builds the race binary; "" and a reason if that is not possible here.
func buildRace(c *hx.Ctx, timeout time.Duration) (bin string, why string) {
	hd := harnessDir()
	if _, err := os.Stat(filepath.Join(hd, "cmd", "vh-lrurace")); err != nil {
		return "", "harness sources not found at " + hd
	}
	dir := filepath.Join(c.Scratch, "racebuild")
	if err := os.MkdirAll(dir, 0o755); err != nil {
		return "", err.Error()
	}
	bin = filepath.Join(dir, "vh-lrurace")
	args := []string{"build"}
	repo := os.Getenv("VERIF_REPO")
	if repo != "" {
		if real, err := filepath.EvalSymlinks(repo); err == nil && real != "/repo" {
			mod, err := os.ReadFile(filepath.Join(hd, "go.mod"))
			if err != nil {
				return "", err.Error()
			}
			alt := filepath.Join(dir, "alt.mod")
			if err := os.WriteFile(alt, bytes.ReplaceAll(mod, []byte("=> /repo"), []byte("=> "+real)), 0o644); err != nil {
				return "", err.Error()
			}
			if sum, err := os.ReadFile(filepath.Join(real, "go.sum")); err == nil {
				_ = os.WriteFile(filepath.Join(dir, "alt.sum"), sum, 0o644)
			}
			args = append(args, "-modfile", alt)
		}
	}
	args = append(args, "-race", "-tags", "verif", "-o", bin, "./cmd/vh-lrurace")
	ctx, cancel := context.WithTimeout(context.Background(), timeout)
	defer cancel()
	cmd := exec.CommandContext(ctx, "go", args...)
	cmd.Dir = hd
	cmd.Env = goEnv()
	out, err := cmd.CombinedOutput()
	if err != nil {
		return "", fmt.Sprintf("go %s: %v: %.600s", strings.Join(args, " "), err, out)
	}
	return bin, ""
}

type raceReport struct {
	text  string
	funcs []string // functions of the library on the racing stacks
}

var reFunc = regexp.MustCompile(`github\.com/diskfs/go-diskfs/[^\s(]+(?:\([^\s)]*\))?\.[A-Za-z0-9_.()*]+`)

func parseRaces(stderr string) []raceReport {
	var out []raceReport
	parts := strings.Split(stderr, "WARNING: DATA RACE")
	for _, p := range parts[1:] {
		if i := strings.Index(p, "=================="); i >= 0 {
			p = p[:i]
		}
		seen := map[string]bool{}
		var fs []string
		for _, m := range reFunc.FindAllString(p, -1) {
			m = strings.TrimPrefix(m, "github.com/diskfs/go-diskfs/")
			if !seen[m] {
				seen[m] = true
				fs = append(fs, m)
			}
		}
		out = append(out, raceReport{text: "DATA RACE" + p, funcs: fs})
	}
	return out
}

// runRaceChild runs one scenario; returns the child's protocol lines and race reports.
func runRaceChild(c *hx.Ctx, bin, scenario string, timeout time.Duration) (stdout string, races []raceReport, note string) {
	dir := filepath.Join(c.Scratch, "race-"+scenario)
	_ = os.MkdirAll(dir, 0o755)
	ctx, cancel := context.WithTimeout(context.Background(), timeout)
	defer cancel()
	args := []string{"--seed", fmt.Sprint(c.Seed), "--tier", c.Tier, "--scratch", dir, "race=1", "scenario=" + scenario}
	if _, err := os.Stat(imagesPath(c)); err == nil {
		args = append(args, "images="+imagesPath(c))
	}
	cmd := exec.CommandContext(ctx, bin, args...)
	cmd.Dir = dir
	env := goEnv()
	env = append(env, "TMPDIR="+dir, "GORACE=halt_on_error=0 exitcode=0 history_size=4")
	cmd.Env = env
	var so, se bytes.Buffer
	cmd.Stdout, cmd.Stderr = &so, &se
	err := cmd.Run()
	if ctx.Err() != nil {
		note = fmt.Sprintf("child exceeded its deadline of %v", timeout)
	} else if err != nil {
		note = fmt.Sprintf("child failed: %v: %.1500s", err, se.String())
	}
	return so.String(), parseRaces(se.String()), note
}

func raceChild(c *hx.Ctx) {
	if c.Only != "" && !strings.HasPrefix(c.Only, "race") {
		return
	}
	if c.Args["norace"] == "1" || os.Getenv("VERIF_C17_NORACE") == "1" {
		c.Note("C17: -race part disabled by request")
		return
	}
	t0 := time.Now()
	bin, why := buildRace(c, time.Duration(c.N(75, 600))*time.Second)
	c.StatN("race.build_ms", int(time.Since(t0).Milliseconds()))
	if bin == "" {
		// degrade gracefully: the race detector is a search aid; its absence is reported, not failed
		c.Note("C17: the -race binary could not be built here, race runs skipped: %s", why)
		c.Stat("race.build_unavailable")
		return
	}
	defer os.RemoveAll(filepath.Dir(bin))
	for _, scenario := range []string{"reads", "getsize"} {
		stdout, races, note := runRaceChild(c, bin, scenario, time.Duration(c.N(60, 1100))*time.Second)
		finished := false
		for _, line := range strings.Split(stdout, "\n") {
			f := strings.Split(line, "\t")
			switch {
			case f[0] == "done":
				finished = true
			case f[0] == "stat" && len(f) == 3:
				var n int
				fmt.Sscan(f[2], &n)
				if strings.HasPrefix(f[1], "race.") || strings.HasPrefix(f[1], "concurrent.") {
					c.StatN("race-child."+scenario+"."+strings.TrimPrefix(f[1], "race."), n)
				}
			case f[0] == "oracle" && len(f) >= 3:
				id := "race-" + scenario + "/" + strings.TrimPrefix(f[1], "race/")
				if f[2] == "ok" {
					c.OK(id)
				} else {
					msg, repro := "", ""
					if len(f) > 4 {
						msg = f[4]
					}
					if len(f) > 5 {
						repro = f[5]
					}
					c.Fail(id, "-", "under -race: "+msg, repro)
				}
			case f[0] == "note" && len(f) >= 2:
				c.Note("race child: %s", f[1])
			}
		}
		if note != "" || !finished {
			c.Fail("race-"+scenario+"/child", "-", "the -race child did not complete: "+note, "vh-lrurace race=1 scenario="+scenario)
		}
		// race reports
		byKey := map[string]raceReport{}
		for _, r := range races {
			k := strings.Join(r.funcs, " ")
			if _, ok := byKey[k]; !ok {
				byKey[k] = r
			}
		}
		keys := make([]string, 0, len(byKey))
		for k := range byKey {
			keys = append(keys, k)
		}
		sort.Strings(keys)
		c.StatN("race."+scenario+".reports", len(races))
		getsizeSeen := false
		for i, k := range keys {
			r := byKey[k]
			isGetSize := strings.Contains(k, "GetCacheSize")
			if isGetSize && scenario == "getsize" {
				if !getsizeSeen {
					getsizeSeen = true
					c.Known(tagGetCacheSize, true, fmt.Sprintf("race detector: GetCacheSize reads lru.maxBlocks without the cache lock while setMaxBlocks writes it (%s)", k))
				}
				continue
			}
			c.Fail(fmt.Sprintf("race-%s/report%d", scenario, i), "-",
				fmt.Sprintf("data race reported by the race detector in: %s | %.1800s", k, r.text),
				"vh-lrurace race=1 scenario="+scenario)
		}
		if scenario == "getsize" && !getsizeSeen && note == "" && finished {
			c.Known(tagGetCacheSize, false, "no race report mentioning GetCacheSize in the dedicated scenario")
		}
		if scenario == "reads" && len(races) == 0 {
			c.OK("race-reads/no-report")
		}
	}
}
