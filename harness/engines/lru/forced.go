package lru

import (
	"fmt"
	"strings"
	"time"

	"github.com/diskfs/go-diskfs/filesystem/squashfs"

	"verif/harness/internal/hx"
)

// Forced interleavings on the real lru.
//
// Every goroutine runs its operations one at a time on command; a get's fetch callback parks
// (the goroutine then holds the block's lock but not the cache lock — program counter gFetch of
// the Lean machine) until the coordinator releases it. An event is a goroutine number and means
// "let that goroutine run until its operation returns, or it parks in fetch, or it blocks on a
// lock" — exactly the macro-step `advance` of the Lean driver's lru.forced. A get of a position
// whose cached block is locked by a parked goroutine must block (holding the cache lock); the
// generator then releases the holder and lets the waiter continue: events [waiter, holder, waiter].

type fworker struct {
	cmd     chan op
	parked  chan struct{}
	release chan struct{}
	done    chan getResult
}

type fstate int

const (
	fIdle fstate = iota
	fParked
)

func (w *fworker) loop(l *squashfs.LRUForVerif) {
	for o := range w.cmd {
		if o.kind == 's' {
			bad := doSetMax(l, int(o.v))
			tok := "u"
			if bad != "" {
				tok = "panic"
			}
			w.done <- getResult{tok: tok, bad: bad}
			continue
		}
		w.done <- doGet(l, o.v, o.kind == 'f', func() {
			w.parked <- struct{}{}
			<-w.release
		})
	}
}

// wait for goroutine w to finish its op or to park; ok=false on timeout
func (w *fworker) wait(d time.Duration) (res getResult, parked bool, ok bool) {
	t := time.NewTimer(d)
	defer t.Stop()
	select {
	case r := <-w.done:
		return r, false, true
	case <-w.parked:
		return getResult{}, true, true
	case <-t.C:
		return getResult{}, false, false
	}
}

func forced(c *hx.Ctx) {
	n := c.N(120, 2500)
	for i := 0; i < n; i++ {
		id := fmt.Sprintf("forced/%d", i)
		r := c.Rng.Fork()
		if !c.Want(id) {
			continue
		}
		runForced(c, id, r)
	}
}

func runForced(c *hx.Ctx, id string, r *hx.Rng) {
	const deadline = 10 * time.Second
	nt := 2 + r.Intn(3)
	maxB := hx.Pick(r, []int{0, 1, 1, 2, 2, 3, 4, -1})
	keys := 1 + r.Intn(4)
	progs := make([][]op, nt)
	for t := range progs {
		ln := 1 + r.Intn(6)
		for k := 0; k < ln; k++ {
			switch {
			case r.Chance(12):
				progs[t] = append(progs[t], op{'s', hx.Pick(r, []int64{0, 1, 2, 3, -1})})
			case r.Chance(10):
				progs[t] = append(progs[t], op{'f', int64(r.Intn(keys))})
			default:
				progs[t] = append(progs[t], op{'g', int64(r.Intn(keys))})
			}
		}
	}
	l := squashfs.NewLRUForVerif(maxB)
	ws := make([]*fworker, nt)
	for t := range ws {
		ws[t] = &fworker{cmd: make(chan op), parked: make(chan struct{}), release: make(chan struct{}), done: make(chan getResult, 1)}
		go ws[t].loop(l)
	}
	closed := false
	closeAll := func() {
		if !closed {
			closed = true
			for _, w := range ws {
				close(w.cmd)
			}
		}
	}
	st := make([]fstate, nt)
	next := make([]int, nt)      // index of the next op of each goroutine
	cur := make([]op, nt)        // op in flight
	rets := make([][]string, nt) // returned tokens
	lockedPos := map[int64]int{} // position -> goroutine parked in fetch holding the CACHED block of that position
	var events []string
	bad := ""
	inFlightEvicted := 0
	blockedWaits := 0
	doubleFetch := 0
	convoys := 0
	fail := func(f string, a ...any) {
		if bad == "" {
			bad = fmt.Sprintf(f, a...)
		}
	}
	alive := true
	refresh := func() { // forget positions whose block has been evicted (the parked holder now owns a ghost block)
		state, sbad := checkShape(l, -1)
		if state == "?" {
			fail("%s", sbad)
			alive = false
			return
		}
		in := map[int64]bool{}
		if i := strings.IndexByte(state, ':'); i >= 0 && state[i+1:] != "-" {
			for _, f := range strings.Split(state[i+1:], ".") {
				var p int64
				fmt.Sscan(f, &p)
				in[p] = true
			}
		}
		for p := range lockedPos {
			if !in[p] {
				delete(lockedPos, p)
				inFlightEvicted++
			}
		}
	}
	// settle records the outcome of an event on goroutine t; false = deadline missed
	settle := func(t int) bool {
		res, parked, ok := ws[t].wait(deadline)
		if !ok {
			fail("goroutine %d did not finish %s within %v", t, cur[t], deadline)
			return false
		}
		if parked {
			st[t] = fParked
			if h, dup := lockedPos[cur[t].v]; dup && h != t {
				fail("goroutines %d and %d are both fetching the cached block of position %d", h, t, cur[t].v)
			}
			lockedPos[cur[t].v] = t
			return true
		}
		st[t] = fIdle
		if cur[t].kind != 's' {
			if h, okk := lockedPos[cur[t].v]; okk && h == t {
				delete(lockedPos, cur[t].v)
			}
		}
		rets[t] = append(rets[t], res.tok)
		if res.bad != "" {
			fail("goroutine %d %s: %s", t, cur[t], res.bad)
		}
		// after a panic inside the cache its locks may be held forever: stop here
		return res.tok != "panic"
	}
	for step := 0; alive && step < 200; step++ {
		// candidates: parked goroutines (release) and idle goroutines with ops left (start)
		var cand []int
		for t := 0; t < nt; t++ {
			if st[t] == fParked || next[t] < len(progs[t]) {
				cand = append(cand, t)
			}
		}
		if len(cand) == 0 {
			break
		}
		t := hx.Pick(r, cand)
		if st[t] == fParked {
			events = append(events, fmt.Sprint(t))
			ws[t].release <- struct{}{}
			alive = settle(t)
			if alive {
				refresh()
			}
			continue
		}
		o := progs[t][next[t]]
		next[t]++
		cur[t] = o
		holder, willBlock := lockedPos[o.v]
		if o.kind == 's' {
			willBlock = false
		}
		events = append(events, fmt.Sprint(t))
		ws[t].cmd <- o
		if !willBlock {
			alive = settle(t)
			if alive {
				refresh()
			}
			continue
		}
		// the get must now block on the block's lock while holding the cache lock
		blockedWaits++
		if _, _, ok := ws[t].wait(3 * time.Millisecond); ok {
			fail("goroutine %d %s went ahead although goroutine %d holds the block's lock", t, o, holder)
			alive = false
			break
		}
		// convoy: while t waits for the block it still holds the cache lock, so any operation a third
		// goroutine starts now (a get of another position, a setMaxBlocks) must wait at the cache lock and
		// go ahead only after the hand-over (the Lean machine: the event is a no-op while cacheOwner = t).
		// The third goroutine's operation is chosen so that it cannot itself end up waiting for a block.
		u := -1
		if r.Chance(50) {
			var idle []int
			for x := 0; x < nt; x++ {
				if x == t || st[x] != fIdle || next[x] >= len(progs[x]) {
					continue
				}
				ox := progs[x][next[x]]
				if _, locked := lockedPos[ox.v]; ox.kind == 's' || (ox.v != o.v && !locked) {
					idle = append(idle, x)
				}
			}
			if len(idle) > 0 {
				u = hx.Pick(r, idle)
			}
		}
		if u >= 0 {
			cur[u] = progs[u][next[u]]
			next[u]++
			events = append(events, fmt.Sprint(u))
			ws[u].cmd <- cur[u]
			if _, _, ok := ws[u].wait(3 * time.Millisecond); ok {
				fail("goroutine %d %s went ahead although goroutine %d holds the cache lock while it waits for the block of position %d", u, cur[u], t, o.v)
				alive = false
				break
			}
			convoys++
		}
		events = append(events, fmt.Sprint(holder))
		ws[holder].release <- struct{}{}
		if alive = settle(holder); !alive {
			break
		}
		events = append(events, fmt.Sprint(t))
		if alive = settle(t); !alive {
			break
		}
		if st[t] == fParked {
			doubleFetch++
		}
		if u >= 0 {
			events = append(events, fmt.Sprint(u))
			if alive = settle(u); !alive {
				break
			}
		}
		refresh()
	}
	if alive {
		closeAll()
	}
	state, shapeBad := "?", ""
	if alive {
		state, shapeBad = checkShape(l, boundFromCache)
		if shapeBad != "" {
			fail("final cache: %s", shapeBad)
		}
	}
	ps := make([]string, nt)
	rs := make([]string, nt)
	done := 1
	for t := range progs {
		ps[t] = opsString(progs[t])
		rs[t] = strings.Join(rets[t], ".")
		if len(rets[t]) != len(progs[t]) {
			done = 0
		}
	}
	desc := fmt.Sprintf("max=%d progs=%s events=%s", maxB, strings.Join(ps, "/"), strings.Join(events, ","))
	if alive {
		c.Case(id, "lru.forced", fmt.Sprintf("max=%d", maxB), "progs="+strings.Join(ps, "/"), "events="+strings.Join(events, ","))
		c.Impl(id, "rets="+strings.Join(rs, "/"), "state="+state, fmt.Sprintf("done=%d", done), "panic=0")
	}
	c.Stat("forced.scenarios")
	c.StatN("forced.block_evicted_while_fetch_in_flight", inFlightEvicted)
	c.StatN("forced.get_blocked_on_block_lock", blockedWaits)
	c.StatN("forced.waiter_refetched_after_failed_fetch", doubleFetch)
	c.StatN("forced.third_goroutine_blocked_on_cache_lock", convoys)
	if inFlightEvicted > 0 || blockedWaits > 0 {
		c.Distinct("forced " + desc)
	}
	if inFlightEvicted > 0 && blockedWaits > 0 && forcedSamples < 2 {
		forcedSamples++
		c.Sample("lru.forced " + desc + " -> rets=" + strings.Join(rs, "/") + " state=" + state)
	}
	if bad != "" {
		c.Fail(id, "-", bad, "lru.forced "+desc)
	} else {
		c.OK(id)
	}
}
