// Package lru is the engine of property C17 (concurrent readers of one squashfs image).
//
//  1. traces: the REAL lru (through zz_verif_hooks_C17.go) is driven single-threaded with seeded
//     get / failing-get / setMaxBlocks sequences; every op's result and the cache's recency order
//     are emitted for the Lean machine to reproduce (correspondence), and checked by an oracle
//     that knows nothing of the model (data = fetch(pos), size bound, list well-formed, no panic).
//  2. forced: goroutines on the real lru are parked inside their fetch callbacks so that a chosen
//     interleaving (eviction while a fetch is in flight, two fetches of one position, …) really
//     happens; the Lean machine replays the same interleaving as a schedule.
//  3. concurrent: many goroutines read a real squashfs image (built by the library) through their
//     own handles while another goroutine resizes the cache; bytes must equal the source bytes,
//     everybody must finish before a deadline, nothing may panic.
//  4. race: the same concurrent runs in a child process built with `go build -race`.
package lru

import (
	"encoding/binary"
	"errors"
	"fmt"
	"sort"
	"strconv"
	"strings"
	"time"

	"github.com/diskfs/go-diskfs/filesystem/squashfs"

	"verif/harness/internal/hx"
)

// Run is the engine entry point. With race=1 (the -race child) only the concurrent part runs.
func Run(c *hx.Ctx) {
	defer func() {
		// a panic that escaped the per-call recovers (it must not lose the results so far)
		if p := recover(); p != nil {
			c.Fail("engine/panic", "-", fmt.Sprintf("panic outside a guarded call: %v", p), "")
		}
	}()
	if c.Args["race"] == "1" {
		concurrent(c, true)
		return
	}
	traces(c)
	forced(c)
	handles(c)
	concurrent(c, false)
	raceChild(c)
}

// ---- the fetch function of the engine (the Lean driver has the same `disk`) ----------------

func diskID(pos int64) uint64 {
	const m = 1000003
	return uint64(((pos*7919+13)%m + m) % m)
}

func diskData(pos int64) ([]byte, uint16) {
	id := diskID(pos)
	b := make([]byte, 8)
	binary.LittleEndian.PutUint64(b, id)
	return b, uint16(id)
}

var errFetch = errors.New("verif: injected fetch failure")

type op struct {
	kind byte // 'g' get, 'f' get whose fetch fails, 's' setMaxBlocks
	v    int64
}

func (o op) String() string { return string(o.kind) + strconv.FormatInt(o.v, 10) }

func opsString(ops []op) string {
	s := make([]string, len(ops))
	for i, o := range ops {
		s[i] = o.String()
	}
	return strings.Join(s, ",")
}

func orderString(mapLen int, order []int64) string {
	if len(order) == 0 {
		return fmt.Sprintf("%d:-", mapLen)
	}
	s := make([]string, len(order))
	for i, p := range order {
		s[i] = strconv.FormatInt(p, 10)
	}
	return fmt.Sprintf("%d:%s", mapLen, strings.Join(s, "."))
}

// getResult is what one real get returned, classified.
type getResult struct {
	tok     string // h<id> | m<id> | e | panic
	fetched int
	bad     string // oracle complaint, "" if fine
}

// doGet calls the real lru.get and checks the result against fetch(pos) — the data_correct oracle.
func doGet(l *squashfs.LRUForVerif, pos int64, fail bool, inFetch func()) (r getResult) {
	defer func() {
		if p := recover(); p != nil {
			r.tok = "panic"
			r.bad = fmt.Sprintf("panic: %v", p)
		}
	}()
	fetched := 0
	data, size, err := l.Get(pos, func() ([]byte, uint16, error) {
		fetched++
		if inFetch != nil {
			inFetch()
		}
		if fail {
			return nil, 0, errFetch
		}
		d, s := diskData(pos)
		return d, s, nil
	})
	r.fetched = fetched
	if fetched > 1 {
		r.bad = fmt.Sprintf("fetch called %d times by one get", fetched)
	}
	if err != nil {
		r.tok = "e"
		if !(fail && fetched == 1 && errors.Is(err, errFetch)) {
			r.bad = fmt.Sprintf("get(%d) returned error %v (fetch fails=%v, fetch calls=%d)", pos, err, fail, fetched)
		}
		if data != nil || size != 0 {
			r.bad = fmt.Sprintf("get(%d) returned data together with an error", pos)
		}
		return r
	}
	if fail && fetched > 0 {
		r.bad = fmt.Sprintf("get(%d): fetch failed but get returned no error", pos)
	}
	if len(data) != 8 {
		r.tok = "h?"
		r.bad = fmt.Sprintf("get(%d) returned %d bytes, want 8", pos, len(data))
		return r
	}
	id := binary.LittleEndian.Uint64(data)
	if fetched > 0 {
		r.tok = "m" + strconv.FormatUint(id, 10)
	} else {
		r.tok = "h" + strconv.FormatUint(id, 10)
	}
	if id != diskID(pos) || size != uint16(diskID(pos)) {
		r.bad = fmt.Sprintf("get(%d) returned data id %d size %d, fetch(%d) gives id %d size %d (fetch calls=%d)",
			pos, id, size, pos, diskID(pos), uint16(diskID(pos)), fetched)
	}
	return r
}

func doSetMax(l *squashfs.LRUForVerif, n int) (bad string) {
	defer func() {
		if p := recover(); p != nil {
			bad = fmt.Sprintf("panic: %v", p)
		}
	}()
	l.SetMaxBlocks(n)
	return ""
}

// checkShape is the lru_inv / size_bound oracle on a quiescent cache.
// bound = -1: no size check.
func checkShape(l *squashfs.LRUForVerif, bound int) (state string, bad string) {
	type snap struct {
		mapLen int
		order  []int64
		wf     bool
		mb     int
	}
	ch := make(chan snap, 1)
	go func() {
		defer func() { _ = recover() }()
		ml, o, wf := l.Snapshot(1 << 20)
		ch <- snap{ml, o, wf, l.MaxBlocks()}
	}()
	var sn snap
	select {
	case sn = <-ch:
	case <-time.After(5 * time.Second):
		// the snapshot takes the cache lock: somebody holds it forever (e.g. a panic inside get)
		return "?", "the cache lock is never released (snapshot of the cache timed out)"
	}
	mapLen, order, wf := sn.mapLen, sn.order, sn.wf
	state = orderString(mapLen, order)
	if !wf {
		return state, "recency list is not a well-formed circular list of the map's blocks"
	}
	if len(order) != mapLen {
		return state, fmt.Sprintf("len(cache)=%d but the recency list has %d blocks", mapLen, len(order))
	}
	seen := map[int64]bool{}
	for _, p := range order {
		if seen[p] {
			return state, fmt.Sprintf("position %d twice on the recency list", p)
		}
		seen[p] = true
	}
	if bound == boundFromCache {
		bound = max(1, sn.mb)
	}
	if bound >= 0 && mapLen > bound {
		return state, fmt.Sprintf("len(cache)=%d exceeds the bound %d", mapLen, bound)
	}
	return state, ""
}

// boundFromCache: check len(cache) <= max(1, maxBlocks) with maxBlocks read in the same snapshot
const boundFromCache = -2

func max(a, b int) int {
	if a > b {
		return a
	}
	return b
}

// ---- 1. single-threaded traces --------------------------------------------------------------

const defaultBlocks = 128 * 1024 * 1024 / 4096

func genOps(r *hx.Rng, n int) []op {
	keys := hx.Pick(r, []int{1, 2, 3, 4, 6, 8, 12, 40})
	base := hx.Pick(r, []int64{0, 0, 0, -3, 1 << 40, 96})
	failPct := hx.Pick(r, []int{0, 0, 5, 15})
	setPct := hx.Pick(r, []int{0, 3, 8, 25})
	sets := []int64{0, 0, 1, 1, 2, 3, 5, -1, -2, 9, 100, defaultBlocks}
	ops := make([]op, 0, n)
	for i := 0; i < n; i++ {
		switch {
		case r.Chance(setPct):
			ops = append(ops, op{'s', hx.Pick(r, sets)})
		case r.Chance(failPct):
			ops = append(ops, op{'f', base + int64(r.Intn(keys))})
		default:
			ops = append(ops, op{'g', base + int64(r.Intn(keys))})
		}
	}
	return ops
}

func traces(c *hx.Ctx) {
	sizes := []int{0, 1, 2, 3, 5, 8, defaultBlocks, -1, -4}
	n := c.N(160, 3000)
	for i := 0; i < n; i++ {
		r := c.Rng.Fork()
		maxB := sizes[i%len(sizes)]
		var ln int
		switch {
		case i < 2*len(sizes):
			ln = 1 + r.Intn(12) // short boundary traces first
		case i%7 == 0:
			ln = 600 + r.Intn(400)
		default:
			ln = 20 + r.Intn(280)
		}
		ops := genOps(r, ln)
		id := fmt.Sprintf("trace/%d", i)
		if !c.Want(id) {
			continue
		}
		runTrace(c, id, maxB, ops)
	}
}

func runTrace(c *hx.Ctx, id string, maxB int, ops []op) {
	l := squashfs.NewLRUForVerif(maxB)
	cur := maxB
	out := make([]string, 0, len(ops))
	bad, badAt := "", -1
	hits, misses, errs, evictions := 0, 0, 0, 0
	prevLen := 0
	for i, o := range ops {
		var tok string
		var problem string
		bound := -1
		switch o.kind {
		case 's':
			problem = doSetMax(l, int(o.v))
			tok = "u"
			if problem != "" {
				tok = "panic"
			}
			cur = int(o.v)
			bound = max(0, cur)
		default:
			g := doGet(l, o.v, o.kind == 'f', nil)
			tok, problem = g.tok, g.bad
			bound = max(1, cur)
			switch tok[0] {
			case 'h':
				hits++
			case 'm':
				misses++
			case 'e':
				errs++
			}
		}
		state, shapeBad := "?", ""
		if tok != "panic" {
			state, shapeBad = checkShape(l, bound)
			if state == "?" {
				if problem == "" {
					problem = shapeBad
				}
				if bad == "" {
					bad, badAt = problem, i
				}
				out = append(out, "stuck")
				break
			}
			if mb := l.MaxBlocks(); mb != cur && shapeBad == "" {
				shapeBad = fmt.Sprintf("maxBlocks=%d after the op, want %d", mb, cur)
			}
			ml := 0
			fmt.Sscanf(state, "%d:", &ml)
			if ml < prevLen || (ml == prevLen && tok[0] == 'm' && prevLen > 0) {
				evictions++
			}
			prevLen = ml
		}
		if problem == "" {
			problem = shapeBad
		}
		if problem != "" && bad == "" {
			bad, badAt = problem, i
		}
		if tok == "panic" {
			out = append(out, "panic")
			break
		}
		out = append(out, tok+":"+state)
	}
	opsS := opsString(ops)
	c.Case(id, "lru.trace", fmt.Sprintf("max=%d", maxB), "ops="+opsS)
	c.Impl(id, strings.Join(out, ","))
	c.Stat("trace.ops." + sizeClass(maxB))
	c.StatN("trace.hits", hits)
	c.StatN("trace.misses", misses)
	c.StatN("trace.fetch_errors", errs)
	c.StatN("trace.evicting_ops", evictions)
	if hits > 0 && misses > 0 {
		c.Distinct(fmt.Sprintf("trace max=%d %s", maxB, opsS))
	}
	if len(ops) >= 6 && len(ops) <= 12 && hits > 0 && misses > 0 && traceSamples < 1 {
		traceSamples++
		c.Sample(fmt.Sprintf("lru.trace max=%d ops=%s -> %s", maxB, opsS, strings.Join(out, ",")))
	}
	if bad != "" {
		c.Fail(id, "-", fmt.Sprintf("op %d (%s): %s", badAt, ops[badAt], bad),
			fmt.Sprintf("lru.trace max=%d ops=%s", maxB, opsString(ops[:badAt+1])))
	} else {
		c.OK(id)
	}
}

var traceSamples, forcedSamples int

func sizeClass(maxB int) string {
	switch {
	case maxB < 0:
		return "negative"
	case maxB == 0:
		return "0"
	case maxB == 1:
		return "1"
	case maxB < 100:
		return "few"
	}
	return "default"
}

func sortedKeys(m map[string]int) []string {
	k := make([]string, 0, len(m))
	for s := range m {
		k = append(k, s)
	}
	sort.Strings(k)
	return k
}
