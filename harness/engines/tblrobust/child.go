package tblrobust

import (
	"bufio"
	"encoding/hex"
	"fmt"
	"io"
	"os"
	"os/exec"
	"reflect"
	"runtime"
	"runtime/debug"
	"strconv"
	"strings"
	"syscall"
	"time"

	"github.com/diskfs/go-diskfs/partition"
	"github.com/diskfs/go-diskfs/partition/gpt"
	"github.com/diskfs/go-diskfs/partition/mbr"

	gc "verif/harness/engines/gptcommon"
	"verif/harness/internal/memdev"
)

// MemCap is the address-space cap (RLIMIT_AS) of the child that runs the real readers.
const MemCap = 2560 << 20

// Deadline for one reader call in the child.
const Deadline = 8 * time.Second

// ChildMain is the reader process: one request per line on stdin
//
//	<id> <reader> <lss> <size> <extents>
//
// and one answer per line on stdout: <id> <class> <allocBytes> <canonical result…>.
// A panic is caught and reported as class "panic"; running out of memory kills the process,
// which the parent observes as a crash of the request in flight.
func ChildMain() {
	cap := uint64(MemCap)
	if v, err := strconv.ParseUint(os.Getenv("VERIF_CHILD_CAP"), 10, 64); err == nil {
		cap = v
	}
	if cap > 0 {
		_ = syscall.Setrlimit(syscall.RLIMIT_AS, &syscall.Rlimit{Cur: cap, Max: cap})
	}
	debug.SetMemoryLimit(int64(MemCap))
	in := bufio.NewReaderSize(os.Stdin, 1<<20)
	out := bufio.NewWriter(os.Stdout)
	for {
		line, err := in.ReadString('\n')
		if len(line) > 0 {
			f := strings.Split(strings.TrimRight(line, "\n"), " ")
			if len(f) == 5 {
				fmt.Fprintln(out, serve(f))
				out.Flush()
			}
		}
		if err != nil {
			return
		}
	}
}

func serve(f []string) string {
	id, reader := f[0], f[1]
	lss, _ := strconv.Atoi(f[2])
	size, _ := strconv.ParseInt(f[3], 10, 64)
	d := memdev.New(size)
	d.KeepData = false
	if f[4] != "-" {
		for _, e := range strings.Split(f[4], ";") {
			o, h, _ := strings.Cut(e, ":")
			off, _ := strconv.ParseInt(o, 10, 64)
			b, _ := hex.DecodeString(h)
			d.RawWrite(b, off)
		}
	}
	var m0, m1 runtime.MemStats
	runtime.ReadMemStats(&m0)
	class, res := "ok", ""
	func() {
		defer func() {
			if e := recover(); e != nil {
				class, res = "panic", strings.ReplaceAll(fmt.Sprint(e), "\t", " ")
			}
		}()
		switch reader {
		case "gpt":
			t, err := gpt.Read(d, lss, lss)
			if err != nil {
				class, res = "err", "res=err"
			} else {
				res = "res=ok\t" + gc.LibTableStr(t) + "\tranges=" + gc.LibRangesStr(t)
			}
		case "mbr":
			t, err := mbr.Read(d, lss, lss)
			if err != nil {
				class, res = "err", "res=err"
			} else {
				res = "res=ok\t" + mbrStr(t)
			}
		case "part":
			t, err := partition.Read(d, lss, lss)
			switch x := t.(type) {
			case *gpt.Table:
				res = "res=ok\tkind=gpt\t" + gc.LibTableStr(x)
			case *mbr.Table:
				res = "res=ok\tkind=mbr\tparts=" + gc.MbrPartsStr(x.Partitions)
			default:
				class, res = "err", "res=err"
				_ = err
			}
		default:
			// "mbrt:<lbs>:<pbs>" = mbr.Read(d, lbs, pbs); "partt:<pbs>" = partition.Read(d, lss, pbs):
			// the Table level (Model/MbrTable.lean), sector sizes as stamped on the table and its partitions
			var a, b int
			if n, _ := fmt.Sscanf(reader, "mbrt:%d:%d", &a, &b); n == 2 {
				t, err := mbr.Read(d, a, b)
				if err != nil {
					class, res = "err", "res=err"
				} else {
					res = "res=ok\t" + mbrTableStr(t)
				}
			} else if n, _ := fmt.Sscanf(reader, "partt:%d", &b); n == 1 {
				t, err := partition.Read(d, lss, b)
				switch x := t.(type) {
				case *gpt.Table:
					res = "res=ok\tkind=gpt\t" + gc.LibTableStr(x)
				case *mbr.Table:
					res = "res=ok\tkind=mbr\t" + mbrTableStr(x)
				default:
					class, res = "err", "res=err"
					_ = err
				}
			}
		}
	}()
	runtime.ReadMemStats(&m1)
	return fmt.Sprintf("%s\t%s\t%d\t%s", id, class, m1.TotalAlloc-m0.TotalAlloc, res)
}

func mbrStr(t *mbr.Table) string {
	var v uint64
	fmt.Sscanf(t.UUID(), "%x", &v)
	rs := make([]string, len(t.Partitions))
	for i, p := range t.Partitions {
		rs[i] = fmt.Sprintf("%d:%d:%d", p.Index, p.GetStart(), p.GetSize())
	}
	return fmt.Sprintf("sig=%d\tparts=%s\tranges=%s", v, gc.MbrPartsStr(t.Partitions), strings.Join(rs, ";"))
}

func privInt(p any, name string) int64 {
	v := reflect.ValueOf(p)
	if v.Kind() == reflect.Ptr {
		v = v.Elem()
	}
	f := v.FieldByName(name)
	if !f.IsValid() {
		return -1
	}
	return f.Int()
}

// mbrTableStr: the table's sector sizes, the partitions, and per partition index:GetStart:GetSize:lss:pss
// (the private sector sizes with the defaults sectorSizes() applies) - the impl side of mbr.readt / part.readt.
func mbrTableStr(t *mbr.Table) string {
	rs := make([]string, len(t.Partitions))
	for i, p := range t.Partitions {
		l, ph := privInt(p, "logicalSectorSize"), privInt(p, "physicalSectorSize")
		if l == 0 {
			l = 512
		}
		if ph == 0 {
			ph = 512
		}
		rs[i] = fmt.Sprintf("%d:%d:%d:%d:%d", p.Index, p.GetStart(), p.GetSize(), l, ph)
	}
	return fmt.Sprintf("lss=%d\tpss=%d\tparts=%s\tranges=%s", t.LogicalSectorSize, t.PhysicalSectorSize,
		gc.MbrPartsStr(t.Partitions), strings.Join(rs, ";"))
}

// Answer is what the parent learns about one reader call.
type Answer struct {
	Class  string // ok | err | panic | crash | timeout
	Alloc  uint64
	Result string // canonical result (class ok/err) or the panic / crash message
}

// Child is the parent's handle on the reader process.
type Child struct {
	cmd    *exec.Cmd
	in     io.WriteCloser
	out    *bufio.Reader
	errBuf *tailBuf
	Spawns int
}

type tailBuf struct{ b []byte }

func (t *tailBuf) Write(p []byte) (int, error) {
	t.b = append(t.b, p...)
	if len(t.b) > 4096 {
		t.b = t.b[len(t.b)-4096:]
	}
	return len(p), nil
}

func (c *Child) start() error {
	exe, err := os.Executable()
	if err != nil {
		return err
	}
	c.cmd = exec.Command(exe, "tblrobust-child")
	c.cmd.Env = append(os.Environ(), "GOMEMLIMIT=2560MiB", "GOMAXPROCS=2", "GOTRACEBACK=single")
	c.in, _ = c.cmd.StdinPipe()
	so, _ := c.cmd.StdoutPipe()
	c.out = bufio.NewReaderSize(so, 1<<20)
	c.errBuf = &tailBuf{}
	c.cmd.Stderr = c.errBuf
	c.Spawns++
	return c.cmd.Start()
}

func (c *Child) kill() {
	if c.cmd != nil && c.cmd.Process != nil {
		_ = c.cmd.Process.Kill()
		_ = c.cmd.Wait()
	}
	c.cmd = nil
}

// Close ends the child.
func (c *Child) Close() {
	if c.cmd != nil {
		c.in.Close()
		done := make(chan struct{})
		go func() { _ = c.cmd.Wait(); close(done) }()
		select {
		case <-done:
		case <-time.After(2 * time.Second):
			_ = c.cmd.Process.Kill()
		}
		c.cmd = nil
	}
}

// Ask runs one reader on one image in the child.
func (c *Child) Ask(id, reader string, lss int, size int64, dev string) Answer {
	if c.cmd == nil {
		if err := c.start(); err != nil {
			return Answer{Class: "crash", Result: "cannot start child: " + err.Error()}
		}
	}
	req := fmt.Sprintf("%s %s %d %d %s\n", id, reader, lss, size, dev)
	if _, err := io.WriteString(c.in, req); err != nil {
		c.kill()
		return Answer{Class: "crash", Result: "child not accepting requests: " + err.Error()}
	}
	type rd struct {
		line string
		err  error
	}
	ch := make(chan rd, 1)
	out := c.out
	go func() {
		l, err := out.ReadString('\n')
		ch <- rd{l, err}
	}()
	select {
	case r := <-ch:
		if r.err != nil {
			// the child died while serving this request
			_ = c.cmd.Wait()
			msg := firstLine(string(c.errBuf.b))
			state := ""
			if c.cmd.ProcessState != nil {
				state = c.cmd.ProcessState.String()
			}
			c.cmd = nil
			return Answer{Class: "crash", Result: fmt.Sprintf("reader process died (%s): %s", state, msg)}
		}
		f := strings.SplitN(strings.TrimRight(r.line, "\n"), "\t", 4)
		if len(f) < 4 || f[0] != id {
			c.kill()
			return Answer{Class: "crash", Result: "protocol error: " + r.line}
		}
		a, _ := strconv.ParseUint(f[2], 10, 64)
		return Answer{Class: f[1], Alloc: a, Result: f[3]}
	case <-time.After(Deadline):
		c.kill()
		return Answer{Class: "timeout", Result: fmt.Sprintf("no answer within %v", Deadline)}
	}
}

func firstLine(s string) string {
	for _, l := range strings.Split(s, "\n") {
		if strings.TrimSpace(l) != "" {
			return strings.TrimSpace(l)
		}
	}
	return ""
}
