// Package tblrobust is the C15 engine: reading a partition table from untrusted bytes cannot crash.
// Adversarial images are enumerated (every header field x boundary values x CRC recomputed or not x
// primary / backup / both, all pairs of the size-determining fields, truncated devices, entry and
// MBR corruptions, seeded random images); the real readers run in a child process with an
// address-space cap and a deadline.
package tblrobust

import (
	"encoding/binary"
	"fmt"
	"hash/crc32"
	"strings"
	"unicode/utf16"

	gc "verif/harness/engines/gptcommon"
	"verif/harness/internal/hx"
	"verif/harness/internal/memdev"
)

type field struct {
	name       string
	off, width int
}

var hdrFields = []field{
	{"signature", 0, 8}, {"revision", 8, 4}, {"headerSize", 12, 4}, {"headerCRC", 16, 4}, {"reserved", 20, 4},
	{"myLBA", 24, 8}, {"alternateLBA", 32, 8}, {"firstUsable", 40, 8}, {"lastUsable", 48, 8}, {"guidLo", 56, 8}, {"guidHi", 64, 8},
	{"entryLBA", 72, 8}, {"entryCount", 80, 4}, {"entrySize", 84, 4}, {"arrayCRC", 88, 4},
}

func boundary(width int, lss int, size int64) []uint64 {
	if width == 4 {
		return []uint64{0, 1, 2, 127, 128, 129, 256, uint64(size) / 128, uint64(size)/128 + 1, 0x01000000, 0x02000000, 0x7FFFFFFF, 0x80000000, 0x80000001, 0xFFFFFFFE, 0xFFFFFFFF}
	}
	sec := uint64(size) / uint64(lss)
	return []uint64{0, 1, 2, sec - 1, sec, sec + 1, 0x7FFFFFFF, 0xFFFFFFFF, 0x100000000, 1 << 52, 1 << 54, 1<<55 + 2, (1 << 63) / uint64(lss), (1<<63)/uint64(lss) + 2,
		0x7FFFFFFFFFFFFFFF, 0x8000000000000000, 0x8000000000000001, 0xFFFFFFFFFFFFFFFE, 0xFFFFFFFFFFFFFFFF}
}

type image struct {
	id   string
	d    *memdev.Dev
	lss  int
	size int64
	desc string
	mbr  bool // also run mbr.Read
}

// hdrInfo is an independent parse of a header sector (enough to evaluate the trigger predicate and the CRC oracle).
type hdrInfo struct {
	valid          bool
	my, arrLBA     uint64
	count, entSize uint32
	arrCRC         uint32
}

func parseHdr(sec []byte) hdrInfo {
	if len(sec) < 92 || string(sec[0:8]) != "EFI PART" || binary.LittleEndian.Uint32(sec[8:12]) != 0x00010000 ||
		binary.LittleEndian.Uint32(sec[12:16]) != 92 || binary.LittleEndian.Uint32(sec[20:24]) != 0 {
		return hdrInfo{}
	}
	tmp := append([]byte(nil), sec[:92]...)
	copy(tmp[16:20], []byte{0, 0, 0, 0})
	if crc32.ChecksumIEEE(tmp) != binary.LittleEndian.Uint32(sec[16:20]) {
		return hdrInfo{}
	}
	return hdrInfo{valid: true, my: binary.LittleEndian.Uint64(sec[24:32]), arrLBA: binary.LittleEndian.Uint64(sec[72:80]),
		count: binary.LittleEndian.Uint32(sec[80:84]), entSize: binary.LittleEndian.Uint32(sec[84:88]), arrCRC: binary.LittleEndian.Uint32(sec[88:92])}
}

// headers returns the independently parsed primary and backup headers of an image.
func headers(im *image) (p, b hdrInfo) {
	l := int64(im.lss)
	if im.size >= 2*l {
		p = parseHdr(im.d.Bytes(l, im.lss))
		last := im.size/l - 1
		b = parseHdr(im.d.Bytes(last*l, im.lss))
		if b.valid && b.my != uint64(last) {
			b.valid = false
		}
	}
	return
}

// trigger of gpt-array-size-unbounded: a CRC-valid header whose entry count x entry size is negative as an int64
// or exceeds the device.
func trigger(im *image) bool {
	p, b := headers(im)
	for _, h := range []hdrInfo{p, b} {
		if !h.valid {
			continue
		}
		prod := uint64(h.count) * uint64(h.entSize)
		if int64(prod) < 0 || prod > uint64(im.size) {
			return true
		}
	}
	return false
}

// validArrays lists the canonical partition strings of every array that a CRC-valid header of the image
// references with a matching array CRC (independent decode: 128-byte entries).
func validArrays(im *image) []string {
	var out []string
	p, b := headers(im)
	for _, h := range []hdrInfo{p, b} {
		if !h.valid {
			continue
		}
		out = append(out, decodeWith(im, h)...)
	}
	return out
}

func decodeWith(im *image, h hdrInfo) []string {
	var out []string
	for once := true; once; once = false {
		n := uint64(h.count) * uint64(h.entSize)
		start := h.arrLBA * uint64(im.lss)
		if n > uint64(im.size) || h.arrLBA > uint64(im.size) || start+n > uint64(im.size) {
			continue
		}
		arr := im.d.Bytes(int64(start), int(n))
		if crc32.ChecksumIEEE(arr) != h.arrCRC {
			continue
		}
		if h.entSize != 128 {
			out = append(out, "-")
			continue
		}
		var ps []string
		for i := 0; i+128 <= len(arr); i += 128 {
			e := arr[i : i+128]
			z := true
			for _, x := range e[:16] {
				if x != 0 {
					z = false
				}
			}
			if z {
				continue
			}
			var u []uint16
			for j := 56; j < 128; j += 2 {
				c := binary.LittleEndian.Uint16(e[j:])
				if c == 0 {
					break
				}
				u = append(u, c)
			}
			st, en := binary.LittleEndian.Uint64(e[32:40]), binary.LittleEndian.Uint64(e[40:48])
			ps = append(ps, gc.PartStr(i/128+1, st, en, (en-st+1)*uint64(im.lss), diskGUID(e[0:16]), diskGUID(e[16:32]),
				binary.LittleEndian.Uint64(e[48:56]), string(utf16.Decode(u))))
		}
		if len(ps) == 0 {
			out = append(out, "-")
		} else {
			out = append(out, strings.Join(ps, ";"))
		}
	}
	return out
}

// scanArrays: the reader may locate the array through wrapped offset arithmetic; the clause only demands that the
// partitions come from bytes whose CRC32 a CRC-valid header vouches for. Look for such a range at any sector boundary.
func scanArrays(im *image, got string) bool {
	p, b := headers(im)
	for _, h := range []hdrInfo{p, b} {
		if !h.valid {
			continue
		}
		n := uint64(h.count) * uint64(h.entSize)
		if n > uint64(im.size) {
			continue
		}
		for off := int64(0); off+int64(n) <= im.size; off += int64(im.lss) {
			if crc32.ChecksumIEEE(im.d.Bytes(off, int(n))) != h.arrCRC {
				continue
			}
			alias := *im
			d2 := clone(im.d)
			alias.d = d2
			// re-point the header at the plain location and reuse the decoder
			h2 := h
			h2.arrLBA = uint64(off) / uint64(im.lss)
			for _, v := range decodeWith(&alias, h2) {
				if v == got {
					return true
				}
			}
		}
	}
	return false
}

func diskGUID(b []byte) [16]byte {
	var g [16]byte
	g[0], g[1], g[2], g[3] = b[3], b[2], b[1], b[0]
	g[4], g[5], g[6], g[7] = b[5], b[4], b[7], b[6]
	copy(g[8:], b[8:16])
	return g
}

type runner struct {
	c       *hx.Ctx
	cfg     gc.Cfg
	child   *Child
	crashes int
	broken  bool
	trigRun int
}

func (r *runner) run(im *image) {
	c := r.c
	if !c.Want(im.id) || r.broken {
		return
	}
	if r.crashes > 700 {
		r.broken = true
		c.Fail("too-many-crashes", "-", "more than 700 reader-process crashes; giving up", "")
		return
	}
	dev := gc.DevStr(im.d)
	trig := trigger(im)
	if trig && !r.cfg.ArrayBounded {
		// the known defect's trigger fires and the defect is present: every such image dies the same way
		// (and slowly); replay a bounded sample of them, count the rest
		if r.trigRun >= c.N(24, 600) {
			c.Stat("skipped.known-trigger(gpt-array-size-unbounded)")
			return
		}
		r.trigRun++
	}
	readers := []string{"gpt", "part"}
	if im.mbr {
		readers = append(readers, "mbr")
		// the Table level: mbr.Read / partition.Read with sector sizes of the caller's choosing (picked from the
		// image id, so that no draw of the image generator moves)
		h := uint64(1469598103934665603)
		for _, ch := range []byte(im.id) {
			h = (h ^ uint64(ch)) * 1099511628211
		}
		ss := []int{0, -1, 512, 4096, 1024, 520, 65536}
		readers = append(readers, fmt.Sprintf("mbrt:%d:%d", ss[h%7], ss[(h/7)%7]), fmt.Sprintf("partt:%d", ss[(h/49)%7]))
	}
	for _, rd := range readers {
		id := im.id + "/" + rd
		a := r.child.Ask(strings.ReplaceAll(id, " ", "_"), rd, im.lss, im.size, dev)
		c.Stat("outcome=" + a.Class)
		c.Stat("reader=" + rd)
		bound := uint64(2*im.size) + 1<<20
		var problem string
		switch a.Class {
		case "ok", "err":
			if a.Alloc > bound {
				problem = fmt.Sprintf("%s.Read allocated %d bytes reading a device of %d bytes", rd, a.Alloc, im.size)
			}
		case "panic":
			problem = rd + ".Read panicked: " + a.Result
		case "crash":
			problem = rd + ".Read killed the process (memory cap " + fmt.Sprint(MemCap) + "): " + a.Result
			r.crashes++
		case "timeout":
			problem = rd + ".Read did not return: " + a.Result
		}
		// parts only from CRC-valid arrays
		if problem == "" && a.Class == "ok" && rd != "mbr" && strings.Contains(a.Result, "backup=") {
			got := ""
			for _, f := range strings.Split(a.Result, "\t") {
				if strings.HasPrefix(f, "parts=") {
					got = strings.TrimPrefix(f, "parts=")
				}
			}
			okArr := false
			for _, v := range validArrays(im) {
				if v == got {
					okArr = true
				}
			}
			if !okArr {
				okArr = scanArrays(im, got)
			}
			if !okArr {
				problem = rd + ".Read returned partitions that no CRC-valid header/array pair of the image decodes to: " + got
			}
		}
		// model correspondence whenever the real reader produced an outcome
		if a.Class == "ok" || a.Class == "err" || a.Class == "panic" {
			op := map[string]string{"gpt": "gpt.read", "part": "part.read", "mbr": "mbr.read"}[rd]
			var a1, a2 int
			if n, _ := fmt.Sscanf(rd, "mbrt:%d:%d", &a1, &a2); n == 2 {
				c.Case(id, "mbr.readt", fmt.Sprintf("size=%d", im.size), fmt.Sprintf("lbs=%d", a1), fmt.Sprintf("pbs=%d", a2), "dev="+dev)
			} else if n, _ := fmt.Sscanf(rd, "partt:%d", &a2); n == 1 {
				c.Case(id, "part.readt", "cfg="+r.cfg.String(), fmt.Sprintf("size=%d", im.size), fmt.Sprintf("lss=%d", im.lss), fmt.Sprintf("pbs=%d", a2), "dev="+dev)
			} else {
				c.Case(id, op, "cfg="+r.cfg.String(), fmt.Sprintf("size=%d", im.size), fmt.Sprintf("lss=%d", im.lss), "dev="+dev)
			}
			if a.Class == "panic" {
				c.Impl(id, "res=panic")
			} else {
				c.Impl(id, a.Result)
			}
		}
		switch {
		case problem == "":
			c.OK(id)
		case trig && (strings.Contains(problem, "len out of range") || a.Class == "crash" || strings.Contains(problem, "allocated")):
			c.Fail(id, "gpt-array-size-unbounded", problem, im.desc)
		default:
			c.Fail(id, "-", problem, im.desc)
		}
	}
	c.Distinct(im.desc)
}

func clone(d *memdev.Dev) *memdev.Dev { n := d.Clone(); n.KeepData = false; return n }

// zapPrimary makes the primary header fail its CRC so that the reader consults the backup.
func zapPrimary(d *memdev.Dev, lss int) {
	b := d.Bytes(int64(lss)+16, 4)
	b[0] ^= 0xFF
	d.RawWrite(b, int64(lss)+16)
}

// Run is the engine entry point.
func Run(c *hx.Ctx) {
	cfg, probes := gc.ProbeCfg()
	c.Note("model cfg=%s", cfg)
	r := &runner{c: c, cfg: cfg, child: &Child{}}
	defer r.child.Close()

	// ---- witness of gpt-array-size-unbounded, replayed in the child
	{
		d, _ := gc.SmallValidImage(1<<20, 512)
		gc.PatchHeader(d, 512, 1, 80, 4, 0xFFFFFFFF, true) // 2^32-1 entries of 128 bytes: 512 GiB
		a := r.child.Ask("witness", "gpt", 512, 1<<20, gc.DevStr(d))
		p := probes["gpt-array-size-unbounded"]
		rep := p.Reproduced || a.Class == "crash" || a.Class == "panic" || a.Class == "timeout" || a.Alloc > 3<<20
		c.Known("gpt-array-size-unbounded", rep, fmt.Sprintf("1 MiB image, header entry count 0xFFFFFFFF with a matching header CRC: gpt.Read in a %d MiB process -> %s (%s); count = size = 0xFFFFFFFF: %s",
			MemCap>>20, a.Class, a.Result, p.Msg))
	}

	// sanity of the child mechanism itself: an empty device must give a plain error
	if a := r.child.Ask("selftest", "part", 512, 0, "-"); a.Class != "err" {
		c.Fail("selftest", "-", "the reader child process does not work: "+a.Class+" "+a.Result, "")
		return
	}
	rng := c.Rng.Fork()
	n := 0
	next := func(pre string) string { n++; return fmt.Sprintf("%s%d", pre, n) }
	for _, lss := range []int{512, 4096} {
		size := int64(96 * 1024)
		if lss == 4096 {
			size = 160 * 1024
		}
		base, err := gc.SmallValidImage(size, lss)
		if err != nil {
			c.Fail("setup", "-", "cannot build the base image: "+err.Error(), "")
			return
		}
		last := size/int64(lss) - 1
		// the unmodified image
		r.run(&image{id: next("base"), d: clone(base), lss: lss, size: size, desc: fmt.Sprintf("valid image lss=%d", lss), mbr: true})
		// ---- every header field x boundary values x CRC fixed or not x primary / backup / both
		for _, f := range hdrFields {
			for _, v := range boundary(f.width, lss, size) {
				for _, fix := range []bool{true, false} {
					for _, where := range []string{"primary", "backup", "both"} {
						if !c.Thorough() && where == "both" && !fix {
							continue
						}
						d := clone(base)
						if where != "backup" {
							gc.PatchHeader(d, lss, 1, f.off, f.width, v, fix)
						}
						if where != "primary" {
							gc.PatchHeader(d, lss, last, f.off, f.width, v, fix)
						}
						if where == "backup" {
							zapPrimary(d, lss)
						}
						c.Stat("class=single-field")
						r.run(&image{id: next("f"), d: d, lss: lss, size: size,
							desc: fmt.Sprintf("lss=%d %s header field %s=%#x crcFixed=%v", lss, where, f.name, v, fix)})
					}
				}
			}
		}
		// ---- all pairs of the size-determining fields, CRC fixed
		sz := []field{hdrFields[11], hdrFields[12], hdrFields[13], hdrFields[6]}
		for i := 0; i < len(sz); i++ {
			for j := i + 1; j < len(sz); j++ {
				for _, v1 := range boundary(sz[i].width, lss, size) {
					for _, v2 := range boundary(sz[j].width, lss, size) {
						if !c.Thorough() && rng.Intn(3) != 0 {
							continue
						}
						where := hx.Pick(rng, []string{"primary", "backup"})
						d := clone(base)
						lba := int64(1)
						if where == "backup" {
							lba = last
							zapPrimary(d, lss)
						}
						gc.PatchHeader(d, lss, lba, sz[i].off, sz[i].width, v1, false)
						gc.PatchHeader(d, lss, lba, sz[j].off, sz[j].width, v2, true)
						c.Stat("class=field-pair")
						r.run(&image{id: next("p"), d: d, lss: lss, size: size,
							desc: fmt.Sprintf("lss=%d %s header %s=%#x %s=%#x crcFixed", lss, where, sz[i].name, v1, sz[j].name, v2)})
					}
				}
			}
		}
		// ---- truncated devices
		l := int64(lss)
		for _, cut := range []int64{0, 1, 91, 92, 445, 446, 510, 511, 512, 513, l - 1, l, l + 1, l + 91, l + 92, 2*l - 1, 2 * l, 2*l + 1, 2*l + 127, 2*l + 128, 2*l + 16383, 2*l + 16384,
			size - 2*l, size - l - 1, size - l, size - 1} {
			if cut < 0 || cut > size {
				continue
			}
			d := memdev.New(cut)
			d.KeepData = false
			if cut > 0 {
				d.RawWrite(base.Bytes(0, int(cut)), 0)
			}
			c.Stat("class=truncated")
			r.run(&image{id: next("t"), d: d, lss: lss, size: cut, desc: fmt.Sprintf("lss=%d valid image truncated to %d bytes", lss, cut), mbr: true})
		}
		// ---- entry corruptions with the array CRC (and header CRC) recomputed: decode paths
		for k := 0; k < c.N(40, 2000); k++ {
			d := clone(base)
			arr := d.Bytes(2*l, 16384)
			e := arr[128*rng.Intn(4):]
			switch rng.Intn(5) {
			case 0: // unpaired surrogates / arbitrary units in the name
				for j := 56; j < 128; j += 2 {
					binary.LittleEndian.PutUint16(e[j:], uint16(hx.Pick(rng, []int{0xD800, 0xDBFF, 0xDC00, 0xDFFF, 0x41, 0xFFFF, 0xFFFE, 1, rng.Intn(65536)})))
				}
				e[0] |= 1
			case 1: // end < start, huge LBAs
				binary.LittleEndian.PutUint64(e[32:], hx.Pick(rng, boundary(8, lss, size)))
				binary.LittleEndian.PutUint64(e[40:], hx.Pick(rng, boundary(8, lss, size)))
				e[0] |= 1
			case 2:
				copy(e[:128], rng.Bytes(128))
			case 3: // type zero but the rest in use
				copy(e[:128], rng.Bytes(128))
				copy(e[:16], make([]byte, 16))
			default:
				copy(arr[128*rng.Intn(128):], rng.Bytes(1+rng.Intn(128)))
			}
			d.RawWrite(arr, 2*l)
			fixArr := rng.Chance(80)
			if fixArr {
				gc.PatchHeader(d, lss, 1, 88, 4, uint64(crc32.ChecksumIEEE(arr)), true)
			}
			c.Stat("class=entry-corruption")
			r.run(&image{id: next("e"), d: d, lss: lss, size: size, desc: fmt.Sprintf("lss=%d entry corruption #%d arrayCrcFixed=%v", lss, k, fixArr)})
		}
		// ---- MBR sector corruptions
		for k := 0; k < c.N(40, 1000); k++ {
			d := clone(base)
			m := d.Bytes(0, 512)
			switch rng.Intn(4) {
			case 0:
				m[446+16*rng.Intn(4)] = byte(rng.Intn(256))
			case 1:
				m[510+rng.Intn(2)] = byte(rng.Intn(256))
			case 2:
				copy(m[446:510], rng.Bytes(64))
				for s := 0; s < 4; s++ {
					m[446+16*s] = hx.Pick(rng, []byte{0, 0x80, 0x80, 0, 1})
				}
			default:
				copy(m[446+16*rng.Intn(4)+8:], []byte{0xFF, 0xFF, 0xFF, 0xFF, 0xFF, 0xFF, 0xFF, 0xFF})
			}
			d.RawWrite(m, 0)
			if rng.Bool() {
				zapPrimary(d, lss)
				gc.PatchHeader(d, lss, last, 16, 4, 0, false)
			}
			c.Stat("class=mbr-corruption")
			r.run(&image{id: next("m"), d: d, lss: lss, size: size, desc: fmt.Sprintf("lss=%d MBR sector corruption #%d", lss, k), mbr: true})
		}
	}
	// ---- seeded random images
	nr := c.N(700, 20000)
	for k := 0; k < nr; k++ {
		lss := hx.Pick(rng, []int{512, 512, 512, 512, 4096})
		size := int64(2+rng.Intn(24)) * int64(lss)
		if lss == 4096 {
			size = int64(2+rng.Intn(4)) * int64(lss)
		}
		if rng.Chance(10) {
			size += int64(rng.Intn(lss))
		}
		d := memdev.New(size)
		d.KeepData = false
		kind := rng.Intn(4)
		switch kind {
		case 0: // pure noise
			d.RawWrite(rng.Bytes(int(size)), 0)
		case 1, 2: // noise, but a header that passes signature / revision / size / CRC at LBA 1 (kind 1) or the last LBA (kind 2)
			d.RawWrite(rng.Bytes(int(size)), 0)
			lba := int64(1)
			if kind == 2 {
				lba = size/int64(lss) - 1
			}
			h := rng.Bytes(lss)
			copy(h[0:8], "EFI PART")
			copy(h[8:16], []byte{0, 0, 1, 0, 0x5c, 0, 0, 0})
			copy(h[20:24], []byte{0, 0, 0, 0})
			if kind == 2 {
				binary.LittleEndian.PutUint64(h[24:], uint64(lba))
			}
			// small random size fields half of the time so that the array is actually read
			if rng.Bool() {
				binary.LittleEndian.PutUint64(h[72:], uint64(rng.Intn(int(size)/lss+2)))
				binary.LittleEndian.PutUint32(h[80:], uint32(rng.Intn(40)))
				binary.LittleEndian.PutUint32(h[84:], uint32(hx.Pick(rng, []int{128, 128, 128, 0, 1, 64, 256, rng.Intn(1 << 12)})))
				if rng.Bool() {
					st := binary.LittleEndian.Uint64(h[72:]) * uint64(lss)
					n := uint64(binary.LittleEndian.Uint32(h[80:])) * uint64(binary.LittleEndian.Uint32(h[84:]))
					if st+n <= uint64(size) {
						full := make([]byte, size)
						copy(full, d.Bytes(0, int(size)))
						binary.LittleEndian.PutUint32(h[88:], crc32.ChecksumIEEE(full[st:st+n]))
					}
				}
			}
			d.RawWrite(h, lba*int64(lss))
			gc.PatchHeader(d, lss, lba, 20, 4, 0, true)
			if kind == 2 && rng.Bool() {
				// make LBA 1 a structurally fine header with a wrong CRC so that the backup is consulted
				d.RawWrite(h, int64(lss))
				zapPrimary(d, lss)
			}
		default: // noise with an MBR signature
			b := rng.Bytes(int(size))
			if len(b) >= 512 {
				b[510], b[511] = 0x55, 0xAA
				for s := 0; s < 4; s++ {
					b[446+16*s] = hx.Pick(rng, []byte{0, 0x80, 0, 0x80, 7})
				}
			}
			d.RawWrite(b, 0)
		}
		c.Stat(fmt.Sprintf("class=random-%d", kind))
		r.run(&image{id: next("r"), d: d, lss: lss, size: size, desc: fmt.Sprintf("random image kind=%d lss=%d size=%d seed-index=%d", kind, lss, size, k), mbr: true})
	}
	c.StatN("child-spawns", r.child.Spawns)
	c.StatN("child-crashes", r.crashes)
	c.Sample(fmt.Sprintf("single-field example: lss=512 primary header field entryCount=0xffffffff crcFixed=true; child spawns=%d crashes=%d", r.child.Spawns, r.crashes))
}
