// Package detect is the C12 engine: a filesystem created as type T — on the
// whole disk or in a GPT/MBR partition, over blank, random or a previous
// different filesystem's bytes — must be returned by GetFilesystem on a freshly
// opened disk as T with its label and contents; GPT is reported as GPT, MBR as
// MBR; a blank range has no filesystem.
package detect

import (
	"encoding/hex"
	"fmt"
	"sort"
	"strings"

	diskfs "github.com/diskfs/go-diskfs"
	"github.com/diskfs/go-diskfs/disk"
	"github.com/diskfs/go-diskfs/filesystem"
	"github.com/diskfs/go-diskfs/filesystem/ext4"
	"github.com/diskfs/go-diskfs/filesystem/fat12"
	"github.com/diskfs/go-diskfs/filesystem/fat16"
	"github.com/diskfs/go-diskfs/filesystem/fat32"
	"github.com/diskfs/go-diskfs/filesystem/iso9660"
	"github.com/diskfs/go-diskfs/filesystem/squashfs"
	"github.com/diskfs/go-diskfs/partition/gpt"
	"github.com/diskfs/go-diskfs/partition/mbr"

	ml "verif/harness/engines/modeslib"
	"verif/harness/internal/hx"
	"verif/harness/internal/memdev"
)

const (
	KB = int64(1024)
	MB = 1024 * KB
	GB = 1024 * MB
)

type cfg struct {
	place string // whole | gpt | mbr
	kind  string
	stale string // blank | random | <kind>
	size  int64  // bytes of the volume (whole disk or partition)
	label string
	class string // what this configuration is a boundary of
	empty bool   // label only, no files (volumes too small to hold the sample tree)
	ss    int64  // logical sector size the disk is opened with (0: the kind's usual one, see secSize)
	start int64  // first sector of the partition (0: partStartSec)
}

func mkcfg(place, kind, stale string, size int64, label, class string, empty bool) cfg {
	return cfg{place: place, kind: kind, stale: stale, size: size, label: label, class: class, empty: empty}
}

func (c cfg) String() string {
	e := ""
	if c.empty {
		e = " empty"
	}
	if c.ss != 0 {
		e += fmt.Sprintf(" ss=%d", c.ss)
	}
	if c.start != 0 {
		e += fmt.Sprintf(" startsec=%d", c.start)
	}
	return fmt.Sprintf("place=%s kind=%s stale=%s size=%d label=%q class=%s%s", c.place, c.kind, c.stale, c.size, c.label, c.class, e)
}

const partStartSec = 2048

// secSize: the logical sector size the disk must be opened with for CreateFilesystem to accept the
// kind (disk.CreateFilesystem hands Disk.LogicalBlocksize to the package's Create as its block size:
// iso9660 wants 2048/4096/8192, squashfs at least 4096, the others 512).
func secSize(kind string) int64 {
	switch kind {
	case "iso9660":
		return 2048
	case "squashfs":
		return 4096
	}
	return 512
}

func openDisk(dev *memdev.Dev, ss int64) (*disk.Disk, error) {
	if ss == 512 {
		return diskfs.OpenBackend(dev)
	}
	return diskfs.OpenBackend(dev, diskfs.WithSectorSize(diskfs.SectorSize(ss)))
}

// pairSize: a volume size at which kind can be created and at which the stale kind fits too.
func pairSize(kind, stale string) int64 {
	if kind == "fat12" {
		switch stale {
		case "ext4":
			return 15 * MB
		case "fat16":
			return 6 * MB
		}
		return 3 * MB
	}
	return midSize(kind)
}

// midSize: a size at which the kind can be created and (where possible) every other kind too.
func midSize(kind string) int64 {
	switch kind {
	case "fat12":
		return 3 * MB
	case "fat16":
		return 16 * MB
	case "fat32":
		return 40 * MB
	case "ext4":
		return 16 * MB
	default:
		return 16 * MB
	}
}

// clampFor: a size near `size` at which kind k can be created (used for stale content).
func clampFor(k string, size int64) int64 {
	switch k {
	case "fat12":
		if size > 7*MB {
			return 7 * MB
		}
		if size < 64*KB {
			return 64 * KB
		}
	case "fat16":
		if size < 5*MB {
			return 5 * MB
		}
		if size > 2000*MB {
			return 2000 * MB
		}
	case "fat32":
		if size < 1*MB {
			return 1 * MB
		}
	case "ext4":
		if size < 2*MB {
			return 2 * MB
		}
	case "iso9660", "squashfs":
		if size < 1*MB {
			return 1 * MB
		}
	}
	return size
}

func configs(c *hx.Ctx) []cfg {
	var out []cfg
	labels := []string{"VERIF", "", "A", "ELEVENCHARS", "MY DISK", "lower"}
	li := 0
	nextLabel := func() string { li++; return labels[li%len(labels)] }
	stales := []string{"blank", "random"}
	for _, k := range ml.Kinds {
		stales = append(stales, k.Name)
	}
	// 1. every type over every stale content, in each placement
	for _, pl := range []string{"whole", "gpt", "mbr"} {
		for _, k := range ml.Kinds {
			for _, st := range stales {
				if st == k.Name {
					continue
				}
				sz := pairSize(k.Name, st)
				out = append(out, mkcfg(pl, k.Name, st, sz, nextLabel(), "stale-matrix", false))
			}
		}
	}
	// 2. FAT thresholds: sweep sector counts around the places where the cluster count crosses 4085 / 65525
	step := int64(c.N(3, 1))
	sweep := func(kind string, loSec, hiSec, stepSec int64, class string) {
		for s := loSec; s <= hiSec; s += stepSec {
			for _, st := range []string{"blank", "random"} {
				if st == "random" && (s/stepSec)%3 != 0 {
					continue
				}
				out = append(out, mkcfg("whole", kind, st, s*512, nextLabel(), class, false))
			}
		}
	}
	sweep("fat16", 8150, 8330, step, "fat16-min-4085")       // spc=2: cluster count crosses 4085
	sweep("fat12", 8150, 8330, step*2, "fat12-at-fat16-min") // fat12 spc=4 here: small counts
	sweep("fat12", 16260, 16400, step, "fat12-max-4085")     // spc=4 just below 8 MiB: count crosses 4085
	sweep("fat12", 8100, 8200, step*2, "fat12-4MiB")         // spc 2 -> 4 switch at 4 MiB
	sweep("fat12", 4090, 4110, step, "fat12-2MiB")           // spc 1 -> 2 switch, media type switch
	sweep("fat12", 1000, 1030, step, "fat12-512KiB")         // root entries 112 -> 224
	// FAT16 maximum (2 GiB, spc=64): the count crosses 65525 a few clusters below 2 GiB
	for d := int64(0); d <= int64(c.N(6, 24)); d++ {
		out = append(out, mkcfg("whole", "fat16", "blank", 2*GB-d*64*512, nextLabel(), "fat16-max-65525", false))
	}
	for _, mb := range []int64{32, 33, 128, 129, 256, 257, 512, 513, 1024, 1025} { // spc switches
		out = append(out, mkcfg("whole", "fat16", "blank", mb*MB, nextLabel(), "fat16-spc-switch", false))
	}
	// FAT12 / FAT16 / FAT32 minimum sizes
	for _, s := range []int64{4, 5, 8, 16, 33, 34, 40, 64, 80, 100, 128, 200} {
		out = append(out, mkcfg("whole", "fat12", "blank", s*512, nextLabel(), "fat12-min", false))
		out = append(out, mkcfg("whole", "fat32", "blank", s*512, nextLabel(), "fat32-min", false))
	}
	// tiny volumes, label only: every sector count from the minimum on
	for sct := int64(4); sct <= int64(c.N(72, 200)); sct++ {
		out = append(out, cfg{place: "whole", kind: "fat12", stale: "blank", size: sct * 512, label: nextLabel(), class: "fat12-tiny", empty: true})
	}
	for sct := int64(64); sct <= int64(c.N(160, 400)); sct += 3 {
		out = append(out, cfg{place: "whole", kind: "fat32", stale: "random", size: sct * 512, label: nextLabel(), class: "fat32-tiny", empty: true})
	}
	out = append(out, mkcfg("whole", "fat12", "blank", 128*MB, nextLabel(), "fat12-max", false))
	out = append(out, mkcfg("whole", "fat12", "blank", 128*MB-512, nextLabel(), "fat12-max", false))
	out = append(out, mkcfg("whole", "fat12", "blank", 1440*KB, nextLabel(), "fat12-floppy", false))
	// FAT32 cluster-size switch at 260 MiB, small FAT32 whose count is below 65525, 4 GiB crossing
	for _, s := range []int64{1 * MB, 33 * MB, 64 * MB, 260 * MB, 260*MB + 512, 261 * MB, 512 * MB} {
		out = append(out, mkcfg("whole", "fat32", "random", s, nextLabel(), "fat32-sizes", false))
	}
	if c.Thorough() {
		for _, s := range []int64{4*GB - 512, 4 * GB, 4*GB + 4096, 8 * GB, 8*GB + 4096, 17 * GB} {
			out = append(out, mkcfg("whole", "fat32", "blank", s, nextLabel(), "fat32-large", false))
		}
		out = append(out, mkcfg("gpt", "fat32", "fat16", 5*GB, nextLabel(), "fat32-large", false))
	}
	// ext4 / iso9660 / squashfs sizes
	for _, s := range []int64{1 * MB, 2 * MB, 5 * MB, 64 * MB, 100 * MB, 513 * MB} {
		out = append(out, mkcfg("whole", "ext4", "blank", s, nextLabel(), "ext4-sizes", false))
		out = append(out, mkcfg("gpt", "ext4", "random", s, nextLabel(), "ext4-sizes", false))
	}
	for _, s := range []int64{16 * MB, 33 * MB, 100 * MB, 300 * MB, 600 * MB} {
		out = append(out, mkcfg("whole", "ext4", "iso9660", s, nextLabel(), "ext4-over-iso", false))
		out = append(out, mkcfg("mbr", "ext4", "iso9660", s, nextLabel(), "ext4-over-iso", false))
	}
	if c.Thorough() {
		out = append(out, mkcfg("whole", "ext4", "blank", 3*GB, nextLabel(), "ext4-sizes", false))
		out = append(out, mkcfg("whole", "ext4", "iso9660", 3*GB, nextLabel(), "ext4-over-iso", false))
	}
	for _, s := range []int64{38 * KB, 40 * KB, 64 * KB, 1 * MB, 700 * MB} {
		out = append(out, mkcfg("whole", "iso9660", "random", s, nextLabel(), "iso-sizes", false))
		out = append(out, mkcfg("whole", "squashfs", "random", s, nextLabel(), "sqfs-sizes", false))
		out = append(out, mkcfg("mbr", "squashfs", "blank", s, nextLabel(), "sqfs-sizes", false))
	}
	// 4. random configurations: log-uniform sizes inside each type's range, random stale content, placement, label
	r := c.Rng.Fork()
	lim := map[string][2]int64{"fat12": {20 * KB, 128 * MB}, "fat16": {4200 * KB, 2 * GB}, "fat32": {70 * KB, int64(c.N(1, 6)) * GB},
		"ext4": {12 * MB, int64(c.N(1, 3)) * GB}, "iso9660": {1 * MB, 1 * GB}, "squashfs": {64 * KB, 1 * GB}}
	for i := 0; i < c.N(250, 4000); i++ {
		k := hx.Pick(r, ml.Kinds).Name
		lo, hi := lim[k][0], lim[k][1]
		// log-uniform: pick an exponent, then a mantissa
		sz := lo
		for sz < hi && r.Chance(80) {
			sz += sz / int64(1+r.Intn(3))
		}
		if sz > hi {
			sz = hi
		}
		sz += int64(r.Intn(64)) * 512
		sz -= sz % 4096
		lb := []byte{}
		for j := r.Intn(12); j > 0; j-- {
			lb = append(lb, "ABCDEFGHIJKLMNOPQRSTUVWXYZ0123456789_-"[r.Intn(38)])
		}
		out = append(out, mkcfg(hx.Pick(r, []string{"whole", "whole", "gpt", "mbr"}), k, hx.Pick(r, stales), sz, string(lb), "random", false))
	}
	// 3. labels on every labelled type and placement
	for _, pl := range []string{"whole", "gpt", "mbr"} {
		for _, k := range []string{"fat12", "fat16", "fat32", "ext4"} {
			for _, l := range labels {
				out = append(out, mkcfg(pl, k, "blank", midSize(k), l, "labels", false))
			}
		}
	}
	// 5. regimes the classes above do not reach (appended last: the ids of the earlier configurations stay put)
	// (a) a partition that starts beyond 4 GiB on a sparse device: byte offsets no longer fit 32 bits
	for _, pl := range []string{"gpt", "mbr"} {
		for _, k := range ml.Kinds {
			out = append(out, cfg{place: pl, kind: k.Name, stale: hx.Pick(r, []string{"random", "fat16", "ext4"}), size: pairSize(k.Name, "ext4"),
				label: nextLabel(), class: "start-beyond-4GiB", start: (4*GB + 3*MB) / secSize(k.Name)})
		}
	}
	// (b) 4096-byte logical sectors for the kinds that are otherwise made at 512 (iso9660 at 4096, squashfs at 8192)
	for _, pl := range []string{"whole", "gpt", "mbr"} {
		for _, k := range ml.Kinds {
			ss := int64(4096)
			if k.Name == "squashfs" {
				ss = 8192
			}
			st := "random"
			if pl == "whole" {
				st = "fat16"
				if k.Name == "fat16" {
					st = "fat32"
				}
			}
			out = append(out, cfg{place: pl, kind: k.Name, stale: st, size: midSize(k.Name), label: nextLabel(), class: "ss4096", ss: ss})
		}
	}
	// (c) whole-disk sizes that are not a multiple of the sector size
	for _, k := range ml.Kinds {
		for _, odd := range []int64{1, 511, 2047} {
			out = append(out, cfg{place: "whole", kind: k.Name, stale: "blank", size: midSize(k.Name) + odd, label: nextLabel(), class: "odd-size"})
		}
	}
	// (d) labels at each type's maximum length (ext4: 16 bytes; iso9660 volume identifier: 32)
	out = append(out, cfg{place: "whole", kind: "ext4", stale: "blank", size: 16 * MB, label: "SIXTEENCHARLABEL", class: "labels-max"})
	out = append(out, cfg{place: "gpt", kind: "ext4", stale: "fat16", size: 16 * MB, label: "SIXTEENCHARLABEL", class: "labels-max"})
	out = append(out, cfg{place: "whole", kind: "iso9660", stale: "blank", size: 16 * MB, label: "THIRTYTWO_CHARACTER_VOLUME_IDENT", class: "labels-max"})
	// (e) a FAT32 volume reaching beyond 4 GiB (thorough has more of them)
	out = append(out, cfg{place: "whole", kind: "fat32", stale: "blank", size: 4*GB + 4096, label: nextLabel(), class: "fat32-beyond-4GiB"})
	return out
}

// knownTrigger names the recorded defect (if any) whose trigger predicate the configuration meets.
func knownTrigger(g cfg) string {
	if g.kind == "iso9660" && g.ss != 0 && g.ss != 2048 {
		// the defect C06 records as iso-blocksize-descriptors, seen from GetFilesystem
		return "iso-blocksize-unrecognised"
	}
	if g.kind == "iso9660" && g.place != "whole" {
		return "iso-start-ignored"
	}
	if g.kind == "ext4" && (g.stale == "fat12" || g.stale == "fat16" || g.stale == "fat32" || g.stale == "squashfs") {
		return "ext4-create-keeps-boot-area"
	}
	if g.kind == "squashfs" && g.stale == "iso9660" {
		return "iso-probed-before-squashfs"
	}
	if g.kind == "fat12" && g.empty {
		return "fat12-zero-cluster-volume-undetected" // applies only if the created volume has no data cluster
	}
	return ""
}

type world struct {
	dev        *memdev.Dev
	part       int
	start, end int64 // byte range of the volume
	ss         int64 // logical sector size the disk is opened with
}

func setup(g cfg) (*world, error) {
	w := &world{ss: secSize(g.kind)}
	if g.ss != 0 {
		w.ss = g.ss
	}
	ss := w.ss
	partStartSec := int64(partStartSec)
	if g.start != 0 {
		partStartSec = g.start
	}
	switch g.place {
	case "whole":
		w.dev = memdev.New(g.size)
		w.start, w.end = 0, g.size
	case "gpt":
		secs := g.size / ss
		devSize := (partStartSec + secs + 40) * ss
		w.dev = memdev.New(devSize)
		d, err := openDisk(w.dev, ss)
		if err != nil {
			return nil, err
		}
		t := ml.GPTOne(uint64(partStartSec), uint64(secs))
		t.LogicalSectorSize, t.PhysicalSectorSize = int(ss), int(ss)
		if err := d.Partition(t); err != nil {
			return nil, fmt.Errorf("partition: %w", err)
		}
		w.part = 1
		w.start, w.end = partStartSec*ss, (partStartSec+secs)*ss
	case "mbr":
		secs := g.size / ss
		devSize := (partStartSec + secs + 8) * ss
		w.dev = memdev.New(devSize)
		d, err := openDisk(w.dev, ss)
		if err != nil {
			return nil, err
		}
		t := ml.MBROne(uint32(partStartSec), uint32(secs))
		t.LogicalSectorSize, t.PhysicalSectorSize = int(ss), int(ss)
		if err := d.Partition(t); err != nil {
			return nil, fmt.Errorf("partition: %w", err)
		}
		w.part = 1
		w.start, w.end = partStartSec*ss, (partStartSec+secs)*ss
	}
	return w, nil
}

// layStale puts the previous content into the volume range.
func layStale(c *hx.Ctx, r *hx.Rng, w *world, g cfg) error {
	size := w.end - w.start
	switch g.stale {
	case "blank":
		return nil
	case "random":
		n := int64(72 * KB)
		if n > size {
			n = size
		}
		w.dev.RawWrite(r.Bytes(int(n)), w.start)
		return nil
	}
	ssz := clampFor(g.stale, size)
	if ssz > size {
		ssz = size
	}
	ssz -= ssz % 512
	tree := ml.SmallTree(0x55)
	var (
		fs  filesystem.FileSystem
		err error
	)
	switch g.stale {
	case "fat12":
		fs, err = fat12.Create(w.dev, ssz, w.start, 512, "STALE12", false)
	case "fat16":
		fs, err = fat16.Create(w.dev, ssz, w.start, 512, "STALE16", false)
	case "fat32":
		fs, err = fat32.Create(w.dev, ssz, w.start, 512, "STALE32", false)
	case "ext4":
		fs, err = ext4.Create(w.dev, ssz, w.start, 512, &ext4.Params{VolumeName: "STALEEXT"})
	case "iso9660":
		if w.start != 0 {
			// iso9660 ignores start (recorded under C06/C03); lay the stale image where a correct
			// implementation would: build it on a scratch device and copy it into the range
			return staleViaCopy(w, ssz, func(d *memdev.Dev) (filesystem.FileSystem, error) { return iso9660.Create(d, ssz, 0, 2048, "") }, tree)
		}
		fs, err = iso9660.Create(w.dev, ssz, w.start, 2048, "")
	case "squashfs":
		fs, err = squashfs.Create(w.dev, ssz, w.start, 4096)
	}
	if err != nil {
		return fmt.Errorf("stale %s create(size=%d): %w", g.stale, ssz, err)
	}
	defer fs.Close()
	if err := ml.Populate(fs, tree); err != nil {
		return fmt.Errorf("stale %s populate: %w", g.stale, err)
	}
	if err := ml.Finalize(fs, "STALEISO"); err != nil {
		return fmt.Errorf("stale %s finalize: %w", g.stale, err)
	}
	return nil
}

func staleViaCopy(w *world, ssz int64, mk func(d *memdev.Dev) (filesystem.FileSystem, error), tree []ml.File) error {
	tmp := memdev.New(ssz)
	fs, err := mk(tmp)
	if err != nil {
		return err
	}
	defer fs.Close()
	if err := ml.Populate(fs, tree); err != nil {
		return err
	}
	if err := ml.Finalize(fs, "STALEISO"); err != nil {
		return err
	}
	n := int64(256 * KB)
	if n > ssz {
		n = ssz
	}
	w.dev.RawWrite(tmp.Bytes(0, int(n)), w.start)
	return nil
}

// accepts runs each package's Read on the volume range and reports which accept ("1"), reject ("0") or panic ("p").
func accepts(dev *memdev.Dev, size, start, ss int64) string {
	try := func(f func() error) (res byte) {
		defer func() {
			if e := recover(); e != nil {
				res = 'p'
			}
		}()
		if f() == nil {
			return '1'
		}
		return '0'
	}
	var sb strings.Builder
	sb.WriteByte(try(func() error { _, e := fat32.Read(dev, size, start, ss); return e }))
	sb.WriteByte(try(func() error { _, e := fat16.Read(dev, size, start, ss); return e }))
	sb.WriteByte(try(func() error { _, e := fat12.Read(dev, size, start, ss); return e }))
	sb.WriteByte(try(func() error { _, e := iso9660.Read(dev, size, start, 0); return e }))
	sb.WriteByte(try(func() error { _, e := squashfs.Read(dev, size, start, ss); return e }))
	sb.WriteByte(try(func() error { _, e := ext4.Read(dev, size, start, ss); return e }))
	return sb.String()
}

func window(dev *memdev.Dev, base, off int64, n int) string {
	if base+off+int64(n) > dev.Size() {
		if base+off >= dev.Size() {
			return ""
		}
		n = int(dev.Size() - base - off)
	}
	return fmt.Sprintf("%d:%s", off, hex.EncodeToString(dev.Bytes(base+off, n)))
}

// emitCase gives the Lean model the header windows of the volume and the real Reads' verdicts.
func emitCase(c *hx.Ctx, id string, w *world, probe string) {
	size := w.end - w.start
	avail := w.dev.Size() - w.start
	acc, errs := acceptsErr(w.dev, size, w.start, w.ss)
	s0 := w.dev.Bytes(w.start, 512)
	wins := []string{window(w.dev, w.start, 0, 2048)}
	// FSInfo sector as fat32.Read locates it: fsInformationSector * bytesPerSector
	bps := int64(s0[11]) | int64(s0[12])<<8
	fsi := int64(s0[48]) | int64(s0[49])<<8
	if off := fsi * bps; off >= 2048 || off+512 > 2048 {
		if off >= 2048 {
			if x := window(w.dev, w.start, off, 512); x != "" {
				wins = append(wins, x)
			}
		}
	}
	// the first bytes of every volume descriptor iso9660.Read's loop looks at
	wins = append(wins, isoDescWindows(w)...)
	// FAT32's deep part - the comparison of the two FAT copies - is computed by the model itself whenever both
	// copies can be handed over ('m'); for iso9660 / squashfs / ext4 the model computes the part of the reader
	// described in Model/DetectMid.lean and is told at which stage the real reader stopped (mid.go)
	fw, fatOK := fatWindows(c, w, s0)
	if fatOK {
		wins = append(wins, fw...)
		c.Stat("fat32-deep-modelled")
		if acc[0] == '1' {
			c.Stat("fat32-deep-modelled-accept")
		}
	}
	stg, mid := stages(acc, errs, fatOK)
	if !ext4LogBlockSizeSane(w) && stg[5] != '1' {
		stg = stg[:5] + "u"
		mid = mid[:2] + "?"
	}
	for i, k := range []string{"iso9660", "squashfs", "ext4"} {
		c.Stat("mid." + k + "." + string(stg[3+i]))
		if stg[3+i] == 'u' {
			c.Note("%s: %s refusal not placed: %s", id, k, errs[3+i])
		}
	}
	c.Case(id, "detect.probe", fmt.Sprintf("size=%d", size), fmt.Sprintf("avail=%d", avail), fmt.Sprintf("ss=%d", w.ss),
		"win="+strings.Join(wins, ","), "stg="+stg, fmt.Sprintf("csum=%d", ext4Csum(w)))
	c.Impl(id, "acc="+acc, "probe="+probe, "mid="+mid)
}

// fatWindows: the non-zero parts of the two FAT copies as fat32.Read locates them from the boot sector
// (nothing when the boot sector does not look like FAT32's or the FATs are too large for a case line).
func fatWindows(c *hx.Ctx, w *world, s0 []byte) ([]string, bool) {
	if s0[510] != 0x55 || s0[511] != 0xAA || (s0[66] != 0x28 && s0[66] != 0x29) {
		return nil, false
	}
	bps := int64(s0[11]) | int64(s0[12])<<8
	res := int64(s0[14]) | int64(s0[15])<<8
	spf := int64(s0[36]) | int64(s0[37])<<8 | int64(s0[38])<<16 | int64(s0[39])<<24
	fatSize := (spf * bps) & 0xffffffff
	limit := int64(c.N(1<<20, 8<<20))
	if bps < 512 || fatSize < 8 || fatSize > limit {
		return nil, false
	}
	var out []string
	const gran = 256
	for _, lo := range []int64{res * bps, res*bps + fatSize} {
		hi := lo + fatSize
		if max := w.dev.Size() - w.start; hi > max {
			hi = max
		}
		if lo >= hi {
			continue
		}
		b := w.dev.Bytes(w.start+lo, int(hi-lo))
		run := int64(-1)
		for g := int64(0); g <= int64(len(b)); g += gran {
			nz := false
			if g < int64(len(b)) {
				e := g + gran
				if e > int64(len(b)) {
					e = int64(len(b))
				}
				for _, x := range b[g:e] {
					if x != 0 {
						nz = true
						break
					}
				}
			}
			if nz && run < 0 {
				run = g
			}
			if !nz && run >= 0 {
				e := g
				if e > int64(len(b)) {
					e = int64(len(b))
				}
				out = append(out, fmt.Sprintf("%d:%s", lo+run, hex.EncodeToString(b[run:e])))
				run = -1
			}
		}
		if run >= 0 {
			// a region cut inside its last granule: the loop above ends before it closes the run
			out = append(out, fmt.Sprintf("%d:%s", lo+run, hex.EncodeToString(b[run:])))
		}
	}
	return out, true
}

// ext4BootCase: what the write log of an ext4 Create (and everything done to the volume afterwards) did to
// bytes 0..1023 of the volume: clear=1 when the last write touching them is 1024 zero bytes at offset 0.
func ext4BootCase(c *hx.Ctx, id string, w *world) {
	last := -1
	for i, ev := range w.dev.Log {
		if ev.Sync || ev.Len == 0 {
			continue
		}
		if ev.Off < w.start+1024 && ev.Off+int64(ev.Len) > w.start {
			last = i
		}
	}
	clear := 0
	if last >= 0 {
		ev := w.dev.Log[last]
		if ev.Off == w.start && ev.Len == 1024 && ev.Data != nil {
			clear = 1
			for _, x := range ev.Data {
				if x != 0 {
					clear = 0
				}
			}
		}
	}
	c.Case(id, "detect.ext4boot")
	c.Impl(id, fmt.Sprintf("clear=%d", clear))
	c.Stat("ext4-boot-area-log")
}

func runCase(c *hx.Ctx, id string, g cfg, r *hx.Rng) {
	desc := g.String()
	defer func() {
		if e := recover(); e != nil {
			c.Fail(id, "-", fmt.Sprintf("panic: %v", e), desc)
		}
	}()
	w, err := setup(g)
	if err != nil {
		c.Fail(id, "-", "cannot set up device: "+err.Error(), desc)
		return
	}
	if err := layStale(c, r, w, g); err != nil {
		// a stale filesystem that cannot be made at this size is a generator matter, not a verdict:
		// whatever it left behind plus random bytes is the stale content
		c.Stat("stale-fallback-random")
		g2 := g
		g2.stale = "random"
		_ = layStale(c, r, w, g2)
	}
	kind, _ := ml.KindByName(g.kind)
	tree := ml.SmallTree(byte(len(id)))
	if g.empty {
		tree = nil
	}
	d, err := openDisk(w.dev, w.ss)
	if err != nil {
		c.Fail(id, "-", "OpenBackend: "+err.Error(), desc)
		return
	}
	if g.place != "whole" && d.Table == nil {
		c.Fail(id, "-", "table just written is not read back", desc)
		return
	}
	_, staleIsKind := ml.KindByName(g.stale)
	staleThere := staleIsKind && sigPresent(w, g.stale)
	w.dev.ResetLog()
	w.dev.Allowed = []memdev.Range{{Lo: w.start, Hi: w.end}}
	err = func() (err error) {
		defer func() {
			if e := recover(); e != nil {
				// a Create that crashes made no filesystem; the crash itself is not C12's subject
				err = fmt.Errorf("panic in create: %v", e)
				c.Stat("create-panicked")
			}
		}()
		return ml.MakeFS(d, w.part, kind, g.label, tree)
	}()
	oor := len(w.dev.OutOfRange)
	w.dev.Allowed = nil
	overflowed := err == nil && oor > 0 && knownTrigger(g) != "iso-start-ignored"
	if overflowed {
		c.Stat("create-overflowed." + g.kind)
	}
	if err != nil {
		// the property speaks about filesystems that were created; a refusal is counted, not judged
		c.Stat("create-refused." + g.class)
		c.Stat("create-refused")
		c.Note("%s refused: %s: %v", id, desc, err)
		return
	}
	if g.kind == "ext4" && c.Want(id+"/ext4boot") {
		ext4BootCase(c, id+"/ext4boot", w)
	}
	if g.kind == "squashfs" && c.Want(id+"/sqfslast") {
		sqfsLastCase(c, id+"/sqfslast", w)
	}
	surviveStat(c, w, g, staleThere)
	c.Stat("created." + g.kind)
	c.Stat("class." + g.class)
	c.Stat("stale." + g.stale)
	c.Stat("place." + g.place)
	// freshly opened disk
	d2, err := openDisk(w.dev, w.ss)
	if err != nil {
		c.Fail(id, "-", "re-open: "+err.Error(), desc)
		return
	}
	var problems []string
	tag := knownTrigger(g)
	// table type
	if g.place != "whole" {
		t, err := d2.GetPartitionTable()
		if err != nil {
			problems = append(problems, "partition table no longer readable: "+err.Error())
		} else if t.Type() != g.place {
			problems = append(problems, fmt.Sprintf("table reported as %s, want %s", t.Type(), g.place))
		}
	}
	probe := "none"
	fs, err := d2.GetFilesystem(w.part)
	if err != nil {
		problems = append(problems, "GetFilesystem: "+err.Error())
	} else {
		probe = ml.TypeName(fs.Type())
		if fs.Type() != kind.Type {
			problems = append(problems, fmt.Sprintf("detected as %s, created as %s", probe, g.kind))
		} else {
			if ml.HasLabel(g.kind) {
				want := g.label
				if want == "" && strings.HasPrefix(g.kind, "fat") {
					want = "NO NAME" // what an empty label means on FAT
				}
				if want == "" && g.kind == "ext4" {
					want = strings.TrimRight(fs.Label(), " ") // ext4 substitutes a default name for an empty one
				}
				if got := strings.TrimRight(fs.Label(), " "); got != strings.TrimRight(want, " ") {
					problems = append(problems, fmt.Sprintf("label %q, want %q", got, want))
				}
			}
			if g.kind == "iso9660" && g.label != "" {
				// the 32-byte volume identifier field comes back with its padding (NUL or space)
				if got := strings.TrimRight(fs.Label(), " \x00"); got != g.label {
					problems = append(problems, fmt.Sprintf("iso volume identifier %q, want %q", got, g.label))
				}
			}
			got, err := ml.ReadTree(fs)
			if err != nil {
				problems = append(problems, "reading contents: "+err.Error())
			} else if diff := ml.TreeDiff(tree, got); diff != "" {
				problems = append(problems, "contents: "+diff)
			}
		}
		fs.Close()
	}
	// the model mirrors the readers' acceptance tests on the bytes as they are, so every case is
	// compared — also those on which a recorded defect of some Create fires
	if _, terr := d2.GetPartition(w.part); g.place == "whole" || terr == nil {
		// (when the partition table itself is gone GetFilesystem never reaches the probe chain)
		emitCase(c, id, w, probe)
	}
	if len(problems) == 0 {
		c.OK(id)
		c.Distinct(desc)
		c.Sample(desc + " -> " + probe)
		return
	}
	msg := strings.Join(problems, "; ")
	// attribute to a recorded defect only when the failure is the one that defect explains
	switch tag {
	case "ext4-create-keeps-boot-area":
		// explained by the defect only if the stale type (whose boot area survived) is what was detected
		if probe != g.stale {
			tag = "-"
		}
	case "iso-probed-before-squashfs":
		if probe != "iso9660" {
			tag = "-"
		}
	case "fat12-zero-cluster-volume-undetected":
		// explained only when the boot sector Create wrote describes a volume without a data cluster
		s0 := w.dev.Bytes(w.start, 512)
		spc := int64(s0[13])
		tot := int64(s0[19]) | int64(s0[20])<<8
		meta := (int64(s0[14]) | int64(s0[15])<<8) + 2*(int64(s0[22])|int64(s0[23])<<8) + ((int64(s0[17])|int64(s0[18])<<8)*32+511)/512
		if !(probe == "none" && spc > 0 && tot >= meta && (tot-meta)/spc == 0) {
			tag = "-"
		}
	case "iso-blocksize-unrecognised":
		// explained only when nothing at all is found (the descriptors are not where any reader looks)
		if probe != "none" {
			tag = "-"
		}
	case "iso-start-ignored":
		// everything about an iso9660 in a partition goes wrong the same way: it was written at offset 0
	default:
		tag = "-"
	}
	if tag == "" {
		tag = "-"
	}
	if tag == "-" && overflowed {
		// the image did not fit the range it was given (writes fell outside it and were dropped or
		// landed elsewhere): that no intact filesystem of type T is found is a consequence of that;
		// staying inside the range is property C03's subject, not a recognition failure
		c.Stat("unjudged-overflow." + g.kind)
		c.Note("%s overflowed its range and is not recognised: %s: %s", id, desc, msg)
		return
	}
	c.Fail(id, tag, msg, desc)
}

// blank ranges and bare tables
func extras(c *hx.Ctx, r *hx.Rng) {
	chk := func(id, desc string, f func() string) {
		if !c.Want(id) {
			return
		}
		defer func() {
			if e := recover(); e != nil {
				c.Fail(id, "-", fmt.Sprintf("panic: %v", e), desc)
			}
		}()
		if msg := f(); msg != "" {
			c.Fail(id, "-", msg, desc)
		} else {
			c.OK(id)
			c.Distinct(desc)
		}
	}
	for i, sz := range []int64{4 * KB, 64 * KB, 1 * MB, 10 * MB, 300 * MB} {
		sz := sz
		id := fmt.Sprintf("blank/whole/%d", i)
		chk(id, fmt.Sprintf("blank whole disk size=%d", sz), func() string {
			dev := memdev.New(sz)
			d, err := diskfs.OpenBackend(dev)
			if err != nil {
				return "OpenBackend: " + err.Error()
			}
			if t, err := d.GetPartitionTable(); err == nil {
				tableModelCase(c, id, dev, 512, t.Type())
				return "blank disk has a partition table: " + t.Type()
			}
			tableModelCase(c, id, dev, 512, "none")
			if fs, err := d.GetFilesystem(0); err == nil {
				return "blank disk has a filesystem: " + ml.TypeName(fs.Type())
			}
			w := &world{dev: dev, start: 0, end: sz, ss: 512}
			emitCase(c, id, w, "none")
			return ""
		})
	}
	for i, pl := range []string{"gpt", "mbr"} {
		pl := pl
		for j, sz := range []int64{64 * KB, 1 * MB, 20 * MB} {
			sz := sz
			id := fmt.Sprintf("blank/%s/%d", pl, j)
			_ = i
			chk(id, fmt.Sprintf("blank %s partition size=%d", pl, sz), func() string {
				w, err := setup(cfg{place: pl, size: sz})
				if err != nil {
					return "setup: " + err.Error()
				}
				d, err := diskfs.OpenBackend(w.dev)
				if err != nil {
					return "OpenBackend: " + err.Error()
				}
				t, err := d.GetPartitionTable()
				if err != nil {
					return "table not found: " + err.Error()
				}
				if t.Type() != pl {
					return fmt.Sprintf("table reported as %s, want %s", t.Type(), pl)
				}
				if fs, err := d.GetFilesystem(1); err == nil {
					return "blank partition has a filesystem: " + ml.TypeName(fs.Type())
				}
				if pl == "mbr" {
					// the whole disk of an MBR-partitioned device is not a filesystem either
					// (fat16.Read does not look at the 0x55AA signature; the MBR has no BPB)
					if fs, err := d.GetFilesystem(0); err == nil {
						return "MBR sector taken for a filesystem: " + ml.TypeName(fs.Type())
					}
				}
				emitCase(c, id, w, "none")
				return ""
			})
		}
	}
	// GPT with several partitions / MBR with several partitions and types: the table type is stable
	for i := 0; i < c.N(6, 60); i++ {
		id := fmt.Sprintf("tables/%d", i)
		rr := r.Fork()
		chk(id, "table kinds", func() string {
			dev := memdev.New(64 * MB)
			d, err := diskfs.OpenBackend(dev)
			if err != nil {
				return err.Error()
			}
			n := 1 + rr.Intn(4)
			isGPT := rr.Bool()
			if isGPT {
				t := &gpt.Table{LogicalSectorSize: 512, PhysicalSectorSize: 512, ProtectiveMBR: true, GUID: ml.DiskGUID}
				for k := 0; k < n; k++ {
					st := uint64(2048 + k*8192)
					t.Partitions = append(t.Partitions, &gpt.Partition{Index: k + 1, Start: st, End: st + uint64(1+rr.Intn(8000)), Type: gpt.LinuxFilesystem, Name: fmt.Sprintf("p%d", k)})
				}
				if err := d.Partition(t); err != nil {
					return "partition: " + err.Error()
				}
			} else {
				t := &mbr.Table{LogicalSectorSize: 512, PhysicalSectorSize: 512}
				types := []mbr.Type{mbr.Linux, mbr.Fat32LBA, mbr.Fat16, mbr.NTFS, mbr.LinuxSwap}
				for k := 0; k < n; k++ {
					st := uint32(2048 + k*8192)
					t.Partitions = append(t.Partitions, &mbr.Partition{Index: k + 1, Type: hx.Pick(rr, types), Start: st, Size: uint32(1 + rr.Intn(8000)), Bootable: rr.Bool()})
				}
				if err := d.Partition(t); err != nil {
					return "partition: " + err.Error()
				}
			}
			d2, err := diskfs.OpenBackend(dev)
			if err != nil {
				return err.Error()
			}
			t, err := d2.GetPartitionTable()
			if err != nil {
				tableModelCase(c, id, dev, 512, "none")
				return "table not found: " + err.Error()
			}
			tableModelCase(c, id, dev, 512, t.Type())
			want := "mbr"
			if isGPT {
				want = "gpt"
			}
			if t.Type() != want {
				return fmt.Sprintf("table reported as %s, want %s", t.Type(), want)
			}
			if len(t.GetPartitions()) < n {
				return fmt.Sprintf("%d partitions read back, wrote %d", len(t.GetPartitions()), n)
			}
			c.Stat("tables." + want)
			return ""
		})
	}
}

// bootCases: the boot sector a reproducible FAT12/FAT16 Create writes vs the model's bootFat1x,
// and the geometry (cluster count, sectors per FAT, sectors per cluster) read back from it.
func bootCases(c *hx.Ctx, r *hx.Rng) {
	sizes := map[string][]int64{
		"fat12": {2048, 4096, 20 * KB, 360 * KB, 512 * KB, 512*KB + 512, 1440 * KB, 2 * MB, 2*MB + 512, 4 * MB, 4*MB + 512, 8*MB - 512, 8 * MB, 16 * MB, 16*MB + 512, 32 * MB, 33 * MB, 64 * MB, 65 * MB, 128 * MB, 128*MB + 512},
		"fat16": {4 * MB, 4218368, 4217856, 5 * MB, 32 * MB, 32*MB + 512, 128 * MB, 129 * MB, 256 * MB, 257 * MB, 512 * MB, 513 * MB, 1024 * MB, 1025 * MB, 2048 * MB, 2048*MB - 65536, 2048*MB - 3*65536},
	}
	for i := 0; i < c.N(80, 1500); i++ {
		sizes["fat12"] = append(sizes["fat12"], 2048+int64(r.Intn(16500))*512)
		sizes["fat16"] = append(sizes["fat16"], 4*MB+int64(r.Intn(400000))*512)
	}
	sizes["fat32"] = []int64{16 * KB, 48 * KB, 49 * KB, 64 * KB, 1 * MB, 33 * MB, 260 * MB, 260*MB + 512, 261 * MB, 1024 * MB, 4096 * MB, 8192 * MB, 8192*MB + 4096}
	if c.Thorough() {
		sizes["fat32"] = append(sizes["fat32"], 16384*MB, 16384*MB+4096, 40000*MB, 600000*MB, 2096000*MB)
	}
	for i := 0; i < c.N(40, 600); i++ {
		sz := int64(48 * KB)
		for sz < int64(c.N(8, 1500))*1024*MB && r.Chance(85) {
			sz += sz / int64(1+r.Intn(3))
		}
		sizes["fat32"] = append(sizes["fat32"], sz-sz%512+int64(r.Intn(8))*512)
	}
	labels := []string{"", "A", "ELEVENCHARS", "MY DISK", "lower"}
	for i, sz := range sizes["fat32"] {
		id := fmt.Sprintf("boot/fat32/%d", i)
		if !c.Want(id) {
			continue
		}
		label := labels[i%len(labels)]
		func() {
			l := label
			if l == "" {
				l = "NO NAME"
			}
			lb := []byte(fmt.Sprintf("%-11.11s", l))
			panicked := true
			defer func() {
				if e := recover(); e != nil || panicked {
					c.Stat("boot.create-panicked")
					c.Note("%s: fat32.Create(size=%d) panicked: %v", id, sz, e)
				}
			}()
			dev := memdev.New(sz + 4096)
			dev.KeepData = false
			_, err := fat32.Create(dev, sz, 0, 512, label, true)
			panicked = false
			c.Case(id, "detect.boot", "kind=fat32", fmt.Sprintf("size=%d", sz), "label="+hex.EncodeToString(lb))
			if err != nil {
				c.Impl(id, "refused")
				c.Stat("boot.refused.fat32")
				return
			}
			s0 := dev.Bytes(0, 512)
			spf := int64(s0[36]) | int64(s0[37])<<8 | int64(s0[38])<<16 | int64(s0[39])<<24
			var ws []string
			for _, e := range dev.Log {
				if !e.Sync {
					ws = append(ws, fmt.Sprintf("%d:%d", e.Off, e.Len))
				}
			}
			c.Impl(id, "s0="+hex.EncodeToString(s0), "fsis="+hex.EncodeToString(dev.Bytes(512, 512)), fmt.Sprintf("spf=%d", spf),
				fmt.Sprintf("spc=%d", s0[13]), "ws="+strings.Join(ws, ","))
			c.Stat("boot.created.fat32")
		}()
	}
	for _, k := range []string{"fat12", "fat16"} {
		for i, sz := range sizes[k] {
			id := fmt.Sprintf("boot/%s/%d", k, i)
			if !c.Want(id) {
				continue
			}
			label := labels[i%len(labels)]
			func() {
				defer func() {
					if e := recover(); e != nil {
						c.Stat("boot.create-panicked")
					}
				}()
				dev := memdev.New(sz + 4096)
				var err error
				if k == "fat12" {
					_, err = fat12.Create(dev, sz, 0, 512, label, true)
				} else {
					_, err = fat16.Create(dev, sz, 0, 512, label, true)
				}
				l := label
				if l == "" {
					l = "NO NAME"
				}
				lb := []byte(fmt.Sprintf("%-11.11s", l))
				c.Case(id, "detect.boot", "kind="+k, fmt.Sprintf("size=%d", sz), "label="+hex.EncodeToString(lb))
				if err != nil {
					c.Impl(id, "refused")
					c.Stat("boot.refused." + k)
					return
				}
				s0 := dev.Bytes(0, 512)
				spc := int64(s0[13])
				res := int64(s0[14]) | int64(s0[15])<<8
				re := int64(s0[17]) | int64(s0[18])<<8
				spf := int64(s0[22]) | int64(s0[23])<<8
				tot := int64(s0[19]) | int64(s0[20])<<8
				if tot == 0 {
					tot = int64(s0[32]) | int64(s0[33])<<8 | int64(s0[34])<<16 | int64(s0[35])<<24
				}
				count := (tot - res - 2*spf - (re*32+511)/512) / spc
				c.Impl(id, "s0="+hex.EncodeToString(s0), fmt.Sprintf("count=%d", count), fmt.Sprintf("spf=%d", spf), fmt.Sprintf("spc=%d", spc))
				c.Stat("boot.created." + k)
			}()
		}
	}
}

// Run is the engine entry point.
func Run(c *hx.Ctx) {
	bootCases(c, c.Rng.Fork())
	ext4GeoCases(c, hx.NewRng(c.Seed^0x65787434))
	cfgs := configs(c)
	c.StatN("configs-total", len(cfgs))
	// quick: a fixed third chosen by the seed (the stale matrix for the whole disk is always run)
	third := int(c.Seed % 3)
	ran := 0
	for i, g := range cfgs {
		id := fmt.Sprintf("d%d", i)
		rr := c.Rng.Fork()
		if !c.Want(id) {
			continue
		}
		if !c.Thorough() && c.Only == "" {
			// quick: everything small, a seed-chosen third of the large volumes
			if g.size > 300*MB && i%3 != third && g.class != "fat16-max-65525" && g.class != "fat32-beyond-4GiB" {
				continue
			}
		}
		ran++
		runCase(c, id, g, rr)
	}
	c.StatN("configs-run", ran)
	extras(c, c.Rng.Fork())
	fat32Extras(c, c.Rng.Fork())
	multiPart(c, c.Rng.Fork())
	tableOverTable(c, c.Rng.Fork())
	witnesses(c)
}

// witnesses replays the recorded findings' minimal inputs.
func witnesses(c *hx.Ctx) {
	if c.Only != "" {
		return
	}
	type wit struct {
		tag string
		g   cfg
	}
	for _, wt := range []wit{
		{"ext4-create-keeps-boot-area", mkcfg("whole", "ext4", "fat16", 16*MB, "W", "witness", false)},
		{"iso-start-ignored", mkcfg("gpt", "iso9660", "blank", 8*MB, "W", "witness", false)},
		{"iso-probed-before-squashfs", mkcfg("whole", "squashfs", "iso9660", 16*MB, "W", "witness", false)},
		{"fat12-zero-cluster-volume-undetected", mkcfg("whole", "fat12", "blank", 5120, "W", "witness", true)},
		{"iso-blocksize-unrecognised", cfg{place: "whole", kind: "iso9660", stale: "blank", size: 16 * MB, label: "W", class: "witness", ss: 4096}},
	} {
		res, msg := probeOnce(c, wt.g)
		// reproduced = the filesystem was created and is then not found as what it is
		reproduced := res != wt.g.kind && res != "create-error" && res != "setup-error"
		c.Known(wt.tag, reproduced, fmt.Sprintf("%s -> %s %s", wt.g, res, msg))
	}
}

func probeOnce(c *hx.Ctx, g cfg) (res, msg string) {
	defer func() {
		if e := recover(); e != nil {
			res, msg = "panic", fmt.Sprint(e)
		}
	}()
	w, err := setup(g)
	if err != nil {
		return "setup-error", err.Error()
	}
	if err := layStale(c, hx.NewRng(7), w, g); err != nil {
		return "setup-error", err.Error()
	}
	d, err := openDisk(w.dev, w.ss)
	if err != nil {
		return "setup-error", err.Error()
	}
	kind, _ := ml.KindByName(g.kind)
	tree := ml.SmallTree(1)
	if g.empty {
		tree = nil
	}
	if err := ml.MakeFS(d, w.part, kind, g.label, tree); err != nil {
		return "create-error", err.Error()
	}
	d2, err := openDisk(w.dev, w.ss)
	if err != nil {
		return "setup-error", err.Error()
	}
	fs, err := d2.GetFilesystem(w.part)
	if err != nil {
		return "none", err.Error()
	}
	defer fs.Close()
	return ml.TypeName(fs.Type()), ""
}

var _ = sort.Strings
var _ disk.Disk
