package detect

// Regimes of C12 that the configuration list (one filesystem in partition 1, a table written on a blank
// device) does not reach:
//   - several partitions holding different filesystem types, found again by their index (2, 3, 4 and,
//     for GPT, indices with gaps);
//   - a partition table written over the stale table of the other type (an MBR over a former GPT disk, a
//     GPT over a former MBR disk).

import (
	"fmt"
	"strings"

	diskfs "github.com/diskfs/go-diskfs"
	"github.com/diskfs/go-diskfs/partition/gpt"
	"github.com/diskfs/go-diskfs/partition/mbr"

	ml "verif/harness/engines/modeslib"
	"verif/harness/internal/hx"
	"verif/harness/internal/memdev"
)

type partSpec struct {
	index int
	kind  string
	secs  int64
}

// multiPart: one table, several partitions, a different filesystem in each, made in a shuffled order;
// on the re-opened disk every GetFilesystem(index) is the type made there, with its label and contents,
// and an index that is not in the table has no filesystem.
func multiPart(c *hx.Ctx, r *hx.Rng) {
	layouts := []struct {
		table string
		parts []partSpec
	}{
		{"gpt", []partSpec{{1, "fat12", 6144}, {2, "fat16", 32768}, {3, "ext4", 32768}}},
		{"mbr", []partSpec{{1, "fat16", 32768}, {2, "fat12", 6144}, {3, "ext4", 32768}, {4, "fat32", 81920}}},
		{"gpt", []partSpec{{1, "fat32", 81920}, {3, "fat12", 6144}, {7, "fat16", 32768}, {128, "ext4", 32768}}}, // indices with gaps
		// (MBR slots are filled by position whatever Partition.Index says - C02's mbr-slot-by-position - so MBR indices stay dense here)
	}
	for li, lay := range layouts {
		id := fmt.Sprintf("multi/%d", li)
		if !c.Want(id) {
			continue
		}
		var names []string
		for _, p := range lay.parts {
			names = append(names, fmt.Sprintf("%d:%s", p.index, p.kind))
		}
		desc := fmt.Sprintf("table=%s partitions=%s", lay.table, strings.Join(names, ","))
		func() {
			defer func() {
				if e := recover(); e != nil {
					c.Fail(id, "-", fmt.Sprintf("panic: %v", e), desc)
				}
			}()
			// lay the partitions out one after the other from sector 2048, 2048 sectors apart
			start := int64(2048)
			starts := map[int]int64{}
			for _, p := range lay.parts {
				starts[p.index] = start
				start += p.secs + 2048
			}
			dev := memdev.New((start + 64) * 512)
			// stale bytes everywhere a filesystem will go
			for _, p := range lay.parts {
				dev.RawWrite(r.Bytes(8192), starts[p.index]*512)
			}
			d, err := diskfs.OpenBackend(dev)
			if err != nil {
				c.Fail(id, "-", "OpenBackend: "+err.Error(), desc)
				return
			}
			if lay.table == "gpt" {
				t := &gpt.Table{LogicalSectorSize: 512, PhysicalSectorSize: 512, ProtectiveMBR: true, GUID: ml.DiskGUID}
				for _, p := range lay.parts {
					t.Partitions = append(t.Partitions, &gpt.Partition{Index: p.index, Start: uint64(starts[p.index]),
						End: uint64(starts[p.index] + p.secs - 1), Type: gpt.LinuxFilesystem, Name: fmt.Sprintf("p%d", p.index)})
				}
				err = d.Partition(t)
			} else {
				t := &mbr.Table{LogicalSectorSize: 512, PhysicalSectorSize: 512}
				for _, p := range lay.parts {
					t.Partitions = append(t.Partitions, &mbr.Partition{Index: p.index, Type: mbr.Linux, Start: uint32(starts[p.index]), Size: uint32(p.secs)})
				}
				err = d.Partition(t)
			}
			if err != nil {
				c.Stat("multi.partition-refused")
				c.Note("%s: Partition refused: %v", id, err)
				return
			}
			// make the filesystems in a shuffled order
			order := append([]partSpec(nil), lay.parts...)
			for i := len(order) - 1; i > 0; i-- {
				j := r.Intn(i + 1)
				order[i], order[j] = order[j], order[i]
			}
			for _, p := range order {
				k, _ := ml.KindByName(p.kind)
				if err := ml.MakeFS(d, p.index, k, fmt.Sprintf("PART%d", p.index), ml.SmallTree(byte(p.index))); err != nil {
					c.Stat("multi.create-refused")
					c.Note("%s: create %s in partition %d refused: %v", id, p.kind, p.index, err)
					return
				}
			}
			d2, err := diskfs.OpenBackend(dev)
			if err != nil {
				c.Fail(id, "-", "re-open: "+err.Error(), desc)
				return
			}
			var problems []string
			if t, err := d2.GetPartitionTable(); err != nil {
				problems = append(problems, "table not found: "+err.Error())
				tableModelCase(c, id, dev, 512, "none")
			} else {
				if t.Type() != lay.table {
					problems = append(problems, fmt.Sprintf("table reported as %s, want %s", t.Type(), lay.table))
				}
				tableModelCase(c, id, dev, 512, t.Type())
			}
			for _, p := range lay.parts {
				k, _ := ml.KindByName(p.kind)
				probe := "none"
				fs, err := d2.GetFilesystem(p.index)
				if err != nil {
					problems = append(problems, fmt.Sprintf("partition %d: GetFilesystem: %v", p.index, err))
				} else {
					probe = ml.TypeName(fs.Type())
					if fs.Type() != k.Type {
						problems = append(problems, fmt.Sprintf("partition %d: detected as %s, created as %s", p.index, probe, p.kind))
					} else {
						if got, want := strings.TrimRight(fs.Label(), " "), fmt.Sprintf("PART%d", p.index); got != want {
							problems = append(problems, fmt.Sprintf("partition %d: label %q, want %q", p.index, got, want))
						}
						if got, err := ml.ReadTree(fs); err != nil {
							problems = append(problems, fmt.Sprintf("partition %d: reading contents: %v", p.index, err))
						} else if diff := ml.TreeDiff(ml.SmallTree(byte(p.index)), got); diff != "" {
							problems = append(problems, fmt.Sprintf("partition %d: contents: %s", p.index, diff))
						}
					}
					fs.Close()
				}
				if _, perr := d2.GetPartition(p.index); perr == nil {
					w := &world{dev: dev, part: p.index, start: starts[p.index] * 512, end: (starts[p.index] + p.secs) * 512, ss: 512}
					emitCase(c, fmt.Sprintf("%s/p%d", id, p.index), w, probe)
				}
				c.Stat(fmt.Sprintf("multi.index-%d", p.index))
				c.Stat("multi.created." + p.kind)
			}
			// an index that is not in the table
			for _, absent := range []int{5, 9, 127} {
				in := false
				for _, p := range lay.parts {
					in = in || p.index == absent
				}
				if in {
					continue
				}
				if fs, err := d2.GetFilesystem(absent); err == nil {
					problems = append(problems, fmt.Sprintf("partition %d is not in the table and has a filesystem: %s", absent, ml.TypeName(fs.Type())))
				}
			}
			c.Stat("multi.tables." + lay.table)
			if len(problems) == 0 {
				c.OK(id)
				c.Distinct(desc)
				return
			}
			c.Fail(id, "-", strings.Join(problems, "; "), desc)
		}()
	}
}

// tableOverTable: a disk that carried a table of one type is partitioned with the other type through
// Disk.Partition; the re-opened disk reports the table written last.
func tableOverTable(c *hx.Ctx, r *hx.Rng) {
	for _, dir := range []string{"mbr-over-gpt", "gpt-over-mbr", "mbr-over-gpt-4k", "gpt-over-gpt-smaller", "gpt-noprotective"} {
		id := "restale/" + dir
		if !c.Want(id) {
			continue
		}
		ss := int64(512)
		if strings.HasSuffix(dir, "-4k") {
			ss = 4096
		}
		func() {
			defer func() {
				if e := recover(); e != nil {
					c.Fail(id, "-", fmt.Sprintf("panic: %v", e), dir)
				}
			}()
			dev := memdev.New(16384 * ss)
			mkGPT := func(n int) *gpt.Table {
				t := &gpt.Table{LogicalSectorSize: int(ss), PhysicalSectorSize: int(ss), ProtectiveMBR: true, GUID: ml.DiskGUID}
				for k := 0; k < n; k++ {
					st := uint64(2048 + k*2048)
					t.Partitions = append(t.Partitions, &gpt.Partition{Index: k + 1, Start: st, End: st + 1023, Type: gpt.LinuxFilesystem, Name: fmt.Sprintf("g%d", k)})
				}
				return t
			}
			mkMBR := func(n int) *mbr.Table {
				t := &mbr.Table{LogicalSectorSize: int(ss), PhysicalSectorSize: int(ss)}
				for k := 0; k < n; k++ {
					t.Partitions = append(t.Partitions, &mbr.Partition{Index: k + 1, Type: mbr.Linux, Start: uint32(4096 + k*2048), Size: 1000})
				}
				return t
			}
			apply := func(first bool) (string, int, error) {
				d, err := openDisk(dev, ss)
				if err != nil {
					return "", 0, err
				}
				var want string
				var n int
				switch {
				case dir == "gpt-over-mbr" && first, strings.HasPrefix(dir, "mbr-over-gpt") && !first:
					want, n = "mbr", 2
					if first {
						n = 3
					}
					err = d.Partition(mkMBR(n))
				case dir == "gpt-noprotective":
					// a GPT written without a protective MBR (sector 0 stays blank), twice: still a GPT disk
					want, n = "gpt", 2
					t := mkGPT(n)
					t.ProtectiveMBR = false
					err = d.Partition(t)
				case dir == "gpt-over-gpt-smaller":
					want, n = "gpt", 4
					if !first {
						n = 1
					}
					err = d.Partition(mkGPT(n))
				default:
					want, n = "gpt", 3
					if !first {
						n = 2
					}
					err = d.Partition(mkGPT(n))
				}
				return want, n, err
			}
			if _, _, err := apply(true); err != nil {
				c.Stat("restale.first-refused")
				c.Note("%s: first table refused: %v", id, err)
				return
			}
			want, n, err := apply(false)
			if err != nil {
				c.Stat("restale.second-refused")
				c.Note("%s: second table refused: %v", id, err)
				return
			}
			c.Stat("restale." + dir)
			d2, err := openDisk(dev, ss)
			if err != nil {
				c.Fail(id, "-", "re-open: "+err.Error(), dir)
				return
			}
			t, err := d2.GetPartitionTable()
			got := "none"
			if err == nil {
				got = t.Type()
			}
			tableModelCase(c, id, dev, ss, got)
			switch {
			case err != nil:
				c.Fail(id, knownRestale(dir, "none"), "no table found after "+dir+": "+err.Error(), dir)
			case t.Type() != want:
				c.Fail(id, knownRestale(dir, t.Type()), fmt.Sprintf("after %s the disk is reported as %s, want %s", dir, t.Type(), want), dir)
			case len(t.GetPartitions()) != n && want == "gpt":
				c.Fail(id, "-", fmt.Sprintf("after %s the table has %d partitions, wrote %d", dir, len(t.GetPartitions()), n), dir)
			default:
				c.OK(id)
				c.Distinct(dir)
			}
		}()
	}
}

// knownRestale names the recorded defect a failing table-over-table case is explained by ("-" if none).
func knownRestale(dir, got string) string {
	if strings.HasPrefix(dir, "mbr-over-gpt") && got == "gpt" {
		return "mbr-over-stale-gpt-reported-as-gpt"
	}
	return "-"
}

// tableModelCase: partition.Read's answer against the Lean probe (gpt.Read / mbr.Read verdicts and whether
// sector 0 is a legacy MBR - signature, a used entry, no protective entry - are observed on the same bytes)
func tableModelCase(c *hx.Ctx, id string, dev *memdev.Dev, ss int64, got string) {
	b2i := func(b bool) int {
		if b {
			return 1
		}
		return 0
	}
	ok := func(f func() error) (r bool) {
		defer func() {
			if recover() != nil {
				r = false
			}
		}()
		return f() == nil
	}
	gptOk := ok(func() error { _, e := gpt.Read(dev, int(ss), int(ss)); return e })
	mbrOk := ok(func() error { _, e := mbr.Read(dev, int(ss), int(ss)); return e })
	s0 := dev.Bytes(0, 512)
	legacy := false
	if s0[510] == 0x55 && s0[511] == 0xAA {
		used, prot := false, false
		for i := 0; i < 4; i++ {
			switch s0[446+16*i+4] {
			case 0:
			case 0xEE:
				prot = true
			default:
				used = true
			}
		}
		legacy = used && !prot
	}
	c.Case(id+"/table", "detect.table", fmt.Sprintf("gpt=%d", b2i(gptOk)), fmt.Sprintf("mbr=%d", b2i(mbrOk)), fmt.Sprintf("legacy=%d", b2i(legacy)))
	c.Impl(id+"/table", "table="+got)
	c.Stat(fmt.Sprintf("table-model.gpt%d-mbr%d-legacy%d", b2i(gptOk), b2i(mbrOk), b2i(legacy)))
	// the same question over the real acceptance conditions of the two readers (Model/DetectTable.lean)
	table2Case(c, id, dev, ss)
}
