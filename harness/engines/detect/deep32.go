package detect

import (
	"fmt"
	"strings"

	"github.com/diskfs/go-diskfs/filesystem/fat32"

	"verif/harness/internal/hx"
	"verif/harness/internal/memdev"
)

// fat32Extras: fat32.Read as a whole (header checks, FSInfo sector, geometry, comparison of the two FAT
// copies) against the model's verdictFat32Full on volumes whose FAT copies differ, whose device ends inside
// or before a FAT copy (the reader ignores the ReadAt errors and reuses one buffer), and intact ones.
func fat32Extras(c *hx.Ctx, r *hx.Rng) {
	n := c.N(60, 600)
	for i := 0; i < n; i++ {
		id := fmt.Sprintf("f32x%d", i)
		if !c.Want(id) {
			continue
		}
		size := int64(64+r.Intn(4096)) * 1024
		if r.Chance(15) {
			size = int64(33+r.Intn(30)) * MB
		}
		size -= size % 512
		ss := int64(512)
		if r.Chance(20) {
			ss = 4096
			size -= size % 4096
			if size < 200*1024 {
				size = 200 * 1024
			}
		}
		dev := memdev.New(size)
		dev.KeepData = false
		if r.Bool() {
			m := int64(96 * KB)
			if m > size {
				m = size
			}
			dev.RawWrite(r.Bytes(int(m)), 0)
		}
		var err error
		func() {
			defer func() {
				if e := recover(); e != nil {
					err = fmt.Errorf("panic: %v", e)
				}
			}()
			var fs *fat32.FileSystem
			fs, err = fat32.Create(dev, size, 0, ss, "X32", true)
			if err == nil {
				fs.Close()
			}
		}()
		if err != nil {
			c.Stat("fat32x-create-refused")
			continue
		}
		s0 := dev.Bytes(0, 512)
		bps := int64(s0[11]) | int64(s0[12])<<8
		res := int64(s0[14]) | int64(s0[15])<<8
		spf := int64(s0[36]) | int64(s0[37])<<8 | int64(s0[38])<<16 | int64(s0[39])<<24
		fatSize := spf * bps
		fat1 := res * bps
		fat2 := fat1 + fatSize
		kind := hx.Pick(r, []string{"intact", "flip2", "flip1", "flipboth", "cut2", "cut1", "cutfsi", "fsisig", "bootsig"})
		use := dev
		switch kind {
		case "flip2":
			o := fat2 + r.Int63n(fatSize)
			dev.RawWrite([]byte{dev.Bytes(o, 1)[0] ^ byte(1+r.Intn(255))}, o)
		case "flip1":
			o := fat1 + r.Int63n(fatSize)
			dev.RawWrite([]byte{dev.Bytes(o, 1)[0] ^ byte(1+r.Intn(255))}, o)
		case "flipboth":
			// the same change in both copies: still equal
			j := r.Int63n(fatSize)
			x := byte(1 + r.Intn(255))
			dev.RawWrite([]byte{dev.Bytes(fat1+j, 1)[0] ^ x}, fat1+j)
			dev.RawWrite([]byte{dev.Bytes(fat2+j, 1)[0] ^ x}, fat2+j)
		case "cut2", "cut1", "cutfsi":
			cut := fat2 + r.Int63n(fatSize)
			if kind == "cut1" {
				cut = fat1 + r.Int63n(fatSize)
			}
			if kind == "cutfsi" {
				cut = 4096 + r.Int63n(fat1-4096)
			}
			if r.Bool() {
				// stale bytes where the first copy is: a cut second copy must not hide a difference
				o := fat1 + r.Int63n(fatSize)
				dev.RawWrite([]byte{dev.Bytes(o, 1)[0] ^ 0x5a}, o)
			}
			use = memdev.New(cut)
			use.KeepData = false
			use.RawWrite(dev.Bytes(0, int(cut)), 0)
		case "fsisig":
			o := bps + hx.Pick(r, []int64{0, 3, 484, 487, 508, 510, 511})
			dev.RawWrite([]byte{dev.Bytes(o, 1)[0] ^ 0xff}, o)
		case "bootsig":
			o := hx.Pick(r, []int64{510, 511, 66, 42, 11, 12, 13, 16, 36})
			dev.RawWrite([]byte{dev.Bytes(o, 1)[0] ^ byte(1<<uint(r.Intn(8)))}, o)
		}
		acc := func() (res string) {
			defer func() {
				if e := recover(); e != nil {
					res = "p"
				}
			}()
			if _, e := fat32.Read(use, size, 0, ss); e == nil {
				return "1"
			}
			return "0"
		}()
		w := &world{dev: use, start: 0, end: size, ss: ss}
		s0 = use.Bytes(0, 512)
		wins := []string{window(use, 0, 0, 1536)}
		nb := int64(s0[11]) | int64(s0[12])<<8
		fsi := (int64(s0[48]) | int64(s0[49])<<8) * nb
		if fsi >= 1536 {
			if x := window(use, 0, fsi, 512); x != "" {
				wins = append(wins, x)
			}
		}
		fw, ok := fatWindows(c, w, s0)
		if !ok {
			// the changed boot sector no longer locates FATs the case line can carry: not compared
			c.Stat("fat32x-no-windows")
			continue
		}
		wins = append(wins, fw...)
		c.Case(id, "detect.fat32", fmt.Sprintf("size=%d", size), fmt.Sprintf("avail=%d", use.Size()), fmt.Sprintf("ss=%d", ss),
			"win="+strings.Join(wins, ","))
		c.Impl(id, "acc32="+acc)
		c.Stat("fat32x." + kind + "=" + acc)
	}
}
