package detect

// The parts of squashfs.Read / ext4.Read / iso9660.Read the Lean model computes itself (Model/DetectMid.lean):
// the engine tells the model at which STAGE the real reader stopped (from the wording of its error - a
// wording it does not know degrades that reader to the one-sided comparison, it never fails the check), the
// model answers with its own verdict and with "header + modelled part accept" (mid=), compared two-sided.
// Also: partition.Read over the real bytes (detect.table2), the geometry ext4.Create writes against the
// validity checks of ext4.Read (detect.ext4geo), squashfs Finalize's last write (detect.sqfslast).

import (
	"encoding/binary"
	"encoding/hex"
	"fmt"
	"hash/crc32"
	"strings"

	"github.com/diskfs/go-diskfs/filesystem/ext4"
	"github.com/diskfs/go-diskfs/filesystem/fat12"
	"github.com/diskfs/go-diskfs/filesystem/fat16"
	"github.com/diskfs/go-diskfs/filesystem/fat32"
	"github.com/diskfs/go-diskfs/filesystem/iso9660"
	"github.com/diskfs/go-diskfs/filesystem/squashfs"
	"github.com/diskfs/go-diskfs/partition"

	x "verif/harness/engines/ext4common"
	"verif/harness/internal/hx"
	"verif/harness/internal/memdev"
)

// acceptsErr: like accepts, with each reader's error text ("" when it accepted, "panic: …" when it panicked).
func acceptsErr(dev *memdev.Dev, size, start, ss int64) (string, [6]string) {
	var errs [6]string
	try := func(i int, f func() error) (res byte) {
		defer func() {
			if e := recover(); e != nil {
				res = 'p'
				errs[i] = fmt.Sprintf("panic: %v", e)
			}
		}()
		if err := f(); err != nil {
			errs[i] = err.Error()
			return '0'
		}
		return '1'
	}
	var sb strings.Builder
	sb.WriteByte(try(0, func() error { _, e := fat32.Read(dev, size, start, ss); return e }))
	sb.WriteByte(try(1, func() error { _, e := fat16.Read(dev, size, start, ss); return e }))
	sb.WriteByte(try(2, func() error { _, e := fat12.Read(dev, size, start, ss); return e }))
	sb.WriteByte(try(3, func() error { _, e := iso9660.Read(dev, size, start, 0); return e }))
	sb.WriteByte(try(4, func() error { _, e := squashfs.Read(dev, size, start, ss); return e }))
	sb.WriteByte(try(5, func() error { _, e := ext4.Read(dev, size, start, ss); return e }))
	return sb.String(), errs
}

func hasAny(s string, subs ...string) bool {
	for _, x := range subs {
		if strings.Contains(s, x) {
			return true
		}
	}
	return false
}

// stage of a refusal: 'h' inside the part the model computes, 'd' behind it, 'u' not placed.
func stageSqfs(e string) byte {
	switch {
	case hasAny(e, "blocksize", "unable to read bytes for superblock", "for superblock", "error parsing superblock", "unable to create compressor"):
		return 'h'
	case hasAny(e, "error reading fragments", "error reading xattr table", "error reading uids/gids", "unable to read root inode"):
		return 'd'
	}
	return 'u'
}

func stageExt4(e string) byte {
	switch {
	case hasAny(e, "sectorsize for ext4", "smaller than minimum allowed ext4 size", "boot sector bytes", "superblock bytes",
		"could not interpret superblock data", "without the extents feature", "inline_data feature", "invalid superblock:",
		"Group Descriptor Table size is zero", "could not read Group Descriptor Table bytes", "Group Descriptor Table bytes from file"):
		return 'h'
	case hasAny(e, "could not interpret Group Descriptor Table data"):
		return 'd'
	}
	return 'u'
}

func stageIso(e string) byte {
	switch {
	case hasAny(e, "blocksize", "larger than maximum allowed ISO9660 size", "requested size is too small", "could not read bytes from file",
		"only could read", "unable to read bytes for volume descriptor", "for volume descriptor", "mismatched ISO identifier",
		"mismatched ISO version", "unknown volume descriptor type", "no primary volume descriptor found"):
		return 'h'
	case hasAny(e, "unable to parse primary volume descriptor bytes"):
		// a descriptor's CONTENT failed inside the loop: a later descriptor may fail the modelled tests too, the
		// order of the two is not something the stage can express
		return 'u'
	case hasAny(e, "path table", "SUSP", "susp", "root directory", "Joliet", "joliet"):
		return 'd'
	}
	return 'u'
}

// stages: one character per kind in the order of accepts(): FAT32 'm' (FAT windows supplied) or its verdict,
// FAT16 / FAT12 their verdict, iso9660 / squashfs / ext4 '1', 'h', 'd', 'u' or 'p'.
func stages(acc string, errs [6]string, fat32Modelled bool) (stg, mid string) {
	b := []byte(acc)
	if fat32Modelled {
		b[0] = 'm'
	}
	var m []byte
	for i, f := range map[int]func(string) byte{3: stageIso, 4: stageSqfs, 5: stageExt4} {
		if acc[i] == '0' {
			b[i] = f(errs[i])
		}
	}
	for _, i := range []int{3, 4, 5} {
		switch b[i] {
		case '1', 'd':
			m = append(m, '1')
		case 'h':
			m = append(m, '0')
		default:
			m = append(m, '?')
		}
	}
	return string(b), string(m)
}

// isoDescWindows: the first 8 bytes of every volume descriptor the loop of iso9660.Read looks at.
func isoDescWindows(w *world) []string {
	var out []string
	for i := int64(0); i < 64; i++ {
		off := 32768 + 2048*i
		if w.start+off+8 > w.dev.Size() {
			break
		}
		b := w.dev.Bytes(w.start+off, 8)
		out = append(out, fmt.Sprintf("%d:%s", off, hex.EncodeToString(b)))
		if string(b[1:6]) != "CD001" || b[0] == 255 {
			break
		}
	}
	return out
}

// ext4Csum: is the crc32c at 0x3fc of the superblock the one of its first 0x3fc bytes (the library's raw
// register convention: start 0xffffffff, no final inversion)?  Computed with hash/crc32, not with the library.
func ext4Csum(w *world) int {
	if w.start+2048 > w.dev.Size() {
		return 0
	}
	sb := w.dev.Bytes(w.start+1024, 1024)
	raw := ^crc32.Checksum(sb[:0x3fc], crc32.MakeTable(crc32.Castagnoli))
	if raw == binary.LittleEndian.Uint32(sb[0x3fc:]) {
		return 1
	}
	return 0
}

// ext4LogBlockSizeSane: the model has no opinion on a log block size above 6 (64 KiB blocks)
func ext4LogBlockSizeSane(w *world) bool {
	if w.start+2048 > w.dev.Size() {
		return true
	}
	sb := w.dev.Bytes(w.start+1024, 1024)
	return binary.LittleEndian.Uint16(sb[0x38:]) != 0xEF53 || binary.LittleEndian.Uint32(sb[0x18:]) <= 6
}

// table2Case: partition.Read's answer against the model's tableRead on the bytes of the device: sector 0,
// the primary header and entry array, the backup array and header.
func table2Case(c *hx.Ctx, id string, dev *memdev.Dev, ss int64) {
	defer func() { _ = recover() }()
	size := dev.Size()
	var wins []string
	add := func(off, n int64) {
		if off < 0 {
			n += off
			off = 0
		}
		if off+n > size {
			n = size - off
		}
		if n > 0 {
			wins = append(wins, fmt.Sprintf("%d:%s", off, hex.EncodeToString(dev.Bytes(off, int(n)))))
		}
	}
	head := 2*ss + 16384
	tail := 16384 + ss
	if head+tail >= size {
		add(0, size)
	} else {
		add(0, head)
		add(size/ss*ss-tail, tail+size%ss)
	}
	got, n := "none", "-"
	func() {
		defer func() {
			if e := recover(); e != nil {
				got = "panic"
			}
		}()
		t, err := partition.Read(dev, int(ss), int(ss))
		if err == nil {
			got = t.Type()
			if got == "gpt" {
				n = fmt.Sprint(len(t.GetPartitions()))
			}
		}
	}()
	s0 := dev.Bytes(0, 512)
	legacy := 0
	if s0[510] == 0x55 && s0[511] == 0xAA {
		used, prot := false, false
		for i := 0; i < 4; i++ {
			switch s0[446+16*i+4] {
			case 0:
			case 0xEE:
				prot = true
			default:
				used = true
			}
		}
		if used && !prot {
			legacy = 1
		}
	}
	c.Case(id+"/table2", "detect.table2", fmt.Sprintf("size=%d", size), fmt.Sprintf("ss=%d", ss), "win="+strings.Join(wins, ","))
	c.Impl(id+"/table2", "table="+got, "n="+n, fmt.Sprintf("legacy=%d", legacy))
	c.Stat("table2." + got)
}

// ext4GeoCases: for a sweep of sizes and Create parameters, the geometry fields of the superblock ext4.Create
// wrote against the model's (Mkfs layout -> ext4MkGeo), whether ext4.Read's validity checks accept them (the
// real Read on the fresh image) and where it reads the descriptor table.
func ext4GeoCases(c *hx.Ctx, r *hx.Rng) {
	type gc struct {
		size int64
		spb  uint8
		bpg  uint32
		b64  *bool
	}
	cases := []gc{{1 * MB, 0, 0, nil}, {2 * MB, 0, 0, nil}, {5 * MB, 0, 0, nil}, {16 * MB, 0, 0, nil}, {16 * MB, 2, 0, nil}, {16 * MB, 4, 0, nil},
		{16 * MB, 8, 0, nil}, {16 * MB, 0, 256, nil}, {16 * MB, 0, 1024, nil}, {24 * MB, 2, 4096, x.B(false)}, {16 * MB, 0, 0, x.B(false)},
		{64 * MB, 0, 0, nil}, {64*MB + 512, 0, 0, nil}, {100 * MB, 8, 8192, nil}, {513 * MB, 0, 0, nil}}
	for i := 0; i < c.N(6, 60); i++ {
		g := gc{size: 3*MB + int64(r.Intn(40))*MB + int64(r.Intn(2048))*512, spb: hx.Pick(r, []uint8{0, 0, 2, 4, 8})}
		if r.Chance(30) {
			g.bpg = uint32(256 + 8*r.Intn(900))
		}
		if r.Chance(25) {
			g.b64 = x.B(false)
		}
		cases = append(cases, g)
	}
	for i, g := range cases {
		id := fmt.Sprintf("ext4geo/%d", i)
		if !c.Want(id) {
			continue
		}
		if g.size > 300*MB && !c.Thorough() && i%3 != int(c.Seed%3) {
			continue
		}
		cfg := x.Config{Size: g.size, SPB: g.spb, BPG: g.bpg, Bit64: g.b64}
		if g.size < 12*MB || i%4 == 3 {
			cfg.Journal = x.B(false) // the default journal alone needs 4096 blocks
		}
		if g.size < 12*MB || g.spb != 0 {
			cfg.Resize = x.B(false) // the resize inode is only laid out for 1 KiB blocks and needs room
		}
		func() {
			defer func() {
				if e := recover(); e != nil {
					c.Stat("ext4geo.panicked")
				}
			}()
			d, _, err, panicked := x.Create(cfg)
			if panicked || err != nil {
				// a refusal at the parameter checks is the ext4mkfs engine's subject; here only created volumes count
				c.Stat("ext4geo.create-refused")
				c.Note("%s: ext4.Create(%s) refused: %v", id, cfg, err)
				return
			}
			v, verr := x.ParseView(d, 0)
			if verr != nil {
				c.Stat("ext4geo.unparsed")
				return
			}
			gd := uint64(32)
			if v.Incompat&0x80 != 0 {
				gd = uint64(v.DescSize)
			}
			groups := (v.BlocksCount + uint64(v.BPG) - 1) / uint64(v.BPG)
			gdtStart := uint64(v.BlockSize)
			if v.BlockSize == 1024 {
				gdtStart = 2048
			}
			acc := 1
			if _, rerr := ext4.Read(d, g.size, 0, 512); rerr != nil && hasAny(rerr.Error(), "invalid superblock:", "Group Descriptor Table size is zero") {
				acc = 0
			}
			bit64 := x.On(g.b64, true)
			b2i := func(b bool) int {
				if b {
					return 1
				}
				return 0
			}
			c.Case(id, "detect.ext4geo", fmt.Sprintf("size=%d", g.size), fmt.Sprintf("spb=%d", g.spb), fmt.Sprintf("bpg=%d", g.bpg),
				"ratio=0", "icount=0", "logflex=0", fmt.Sprintf("resize=%d", b2i(x.On(cfg.Resize, true))), "flex=1", fmt.Sprintf("bit64=%d", b2i(bit64)))
			c.Impl(id, fmt.Sprintf("geo=%d,%d,%d,%d,%d,%d,%d,%d", v.BlockSize, v.InodeSize, v.IPG, v.BPG, v.FirstDataBlock, v.InodesCount, v.BlocksCount, gd),
				fmt.Sprintf("acc=%d", acc), fmt.Sprintf("gdt=%d:%d", gdtStart, gd*groups))
			c.Stat("ext4geo.created")
			if v.Incompat&0x40 == 0 || v.Incompat&0x8000 != 0 {
				c.Stat("ext4geo.gate-would-refuse")
			}
		}()
	}
}

// sqfsLastCase: the last write of a squashfs Finalize, relative to the volume: the model says the superblock
// (96 bytes at offset 0) comes last (Model/Sqfs/Regions.lean finalize), which is what makes bytes 0..95 of the
// volume the superblock whatever was written before.
func sqfsLastCase(c *hx.Ctx, id string, w *world) {
	last := -1
	for i, ev := range w.dev.Log {
		if !ev.Sync && ev.Len > 0 {
			last = i
		}
	}
	if last < 0 {
		return
	}
	ev := w.dev.Log[last]
	c.Case(id, "detect.sqfslast")
	c.Impl(id, fmt.Sprintf("last=%d:%d", ev.Off-w.start, ev.Len))
	c.Stat("sqfs-last-write-log")
}

// sigPresent: is the signature the reader of kind k looks for first present in the volume?
func sigPresent(w *world, k string) bool {
	at := func(off int64, want []byte) bool {
		if w.start+off+int64(len(want)) > w.dev.Size() {
			return false
		}
		return string(w.dev.Bytes(w.start+off, len(want))) == string(want)
	}
	switch k {
	case "fat12":
		return at(510, []byte{0x55, 0xAA}) && at(54, []byte("FAT12"))
	case "fat16":
		return at(510, []byte{0x55, 0xAA}) && at(54, []byte("FAT16"))
	case "fat32":
		return at(510, []byte{0x55, 0xAA}) && at(82, []byte("FAT32"))
	case "squashfs":
		return at(0, []byte("hsqs"))
	case "ext4":
		return at(1080, []byte{0x53, 0xEF})
	case "iso9660":
		return at(32769, []byte("CD001"))
	}
	return false
}

// surviveStat: which (old type, new type) pairs leave the OLD signature in place after the new Create - the
// pairs for which only the probe order keeps GetFilesystem from answering the old type
// (Props/C12 ext4_signature_survives_fat16 / _fat32, cex_order_ext4_before_fat16, cex_sqfs_over_iso).
func surviveStat(c *hx.Ctx, w *world, g cfg, staleWasThere bool) {
	if !staleWasThere || g.stale == g.kind {
		return
	}
	if sigPresent(w, g.stale) {
		c.Stat("survive." + g.stale + "-under-" + g.kind)
	} else {
		c.Stat("overwritten." + g.stale + "-under-" + g.kind)
	}
}
