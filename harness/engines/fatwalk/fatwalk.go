// Package fatwalk is the C18 correspondence engine for the FAT cluster-chain walk: random FAT12
// tables (cycles, out-of-range links, free and reserved values) are patched into a real image and
// the library's getClusterList is compared with the Lean walk, case by case.
package fatwalk

import (
	"fmt"
	"os"
	"strings"
	"time"

	"github.com/diskfs/go-diskfs/filesystem/fat12"

	"verif/harness/internal/hx"
	"verif/harness/internal/memdev"
)

func Run(c *hx.Ctx) {
	r := c.Rng
	size := int64(1474560)
	d := memdev.New(size)
	d.KeepData = false
	fsys, err := fat12.Create(d, size, 0, 512, "WALK", true)
	if err != nil {
		c.Fail("setup", "-", "fat12.Create: "+err.Error(), "")
		return
	}
	_ = fsys
	base := d.Bytes(0, int(size))
	// geometry of the library's own 1.44 MB layout, read from the BPB
	reserved := int(base[14]) | int(base[15])<<8
	spf := int(base[22]) | int(base[23])<<8
	fat1 := reserved * 512
	fat2 := fat1 + spf*512
	n := c.N(1500, 60000)
	for i := 0; i < n; i++ {
		id := fmt.Sprintf("w%d", i)
		// a small active region of the table; everything else free (0)
		m := 6 + r.Intn(40)
		next := make([]int, m+2)
		for cl := 2; cl < m+2; cl++ {
			switch r.Intn(10) {
			case 0:
				next[cl] = 0xFF8 + r.Intn(8) // EOC
			case 1:
				next[cl] = 0 // free
			case 2:
				next[cl] = 1 // reserved value
			case 3:
				next[cl] = 3000 + r.Intn(1000) // far outside the active region, mostly past the FAT
			case 4:
				next[cl] = cl // self loop
			default:
				next[cl] = 2 + r.Intn(m) // anywhere in the region (cycles likely)
			}
		}
		first := 2 + r.Intn(m)
		if r.Bool() {
			// a valid chain over a random permutation of the region, then 0..2 corrupted links
			perm := make([]int, m)
			for k := range perm {
				perm[k] = 2 + k
			}
			for k := m - 1; k > 0; k-- {
				j := r.Intn(k + 1)
				perm[k], perm[j] = perm[j], perm[k]
			}
			ln := 1 + r.Intn(m)
			for cl := 2; cl < m+2; cl++ {
				next[cl] = 0
			}
			for k := 0; k < ln; k++ {
				if k+1 < ln {
					next[perm[k]] = perm[k+1]
				} else {
					next[perm[k]] = 0xFFF
				}
			}
			first = perm[0]
			for k := r.Intn(3); k > 0; k-- {
				next[perm[r.Intn(ln)]] = []int{0, 1, perm[r.Intn(ln)], 3500, 0xFF7, 0xFF8}[r.Intn(6)]
			}
		}
		if r.Chance(5) {
			first = r.Intn(4000)
		}
		if !c.Want(id) {
			continue
		}
		img := append([]byte(nil), base...)
		tbl := make([]byte, spf*512)
		copy(tbl, img[fat1:fat1+spf*512])
		for cl := 2; cl < m+2; cl++ {
			put12(tbl, cl, next[cl])
		}
		copy(img[fat1:], tbl)
		copy(img[fat2:], tbl)
		dev := memdev.New(size)
		dev.KeepData = false
		dev.RawWrite(img, 0)
		type res struct {
			l   []uint32
			err error
			max uint32
			pan any
		}
		ch := make(chan res, 1)
		go func() {
			var out res
			defer func() {
				if e := recover(); e != nil {
					out.pan = e
				}
				ch <- out
			}()
			f, err := fat12.Read(dev, size, 0, 512)
			if err != nil {
				out.err = err
				return
			}
			out.max = f.VerifMaxCluster()
			out.l, out.err = f.VerifClusterList(uint32(first))
		}()
		var got res
		select {
		case got = <-ch:
		case <-time.After(5 * time.Second):
			c.Impl(id, "diverge")
			c.Fail(id, "-", "getClusterList did not return within 5 s (endless chain walk)", fmt.Sprintf("first=%d next=%v", first, next))
			// the walking goroutine cannot be stopped: end the engine here
			c.Note("stopping early after a hang")
			return
		}
		desc := fmt.Sprintf("first=%d next[2..]=%v", first, next[2:])
		if got.pan != nil {
			c.Impl(id, "panic")
			c.Fail(id, "-", fmt.Sprintf("panic: %v", got.pan), desc)
			continue
		}
		// the whole table as the reader sees it (12-bit entries of the FAT region), for the model
		maxc := int(got.max)
		full := make([]string, maxc+1)
		for cl := 0; cl <= maxc; cl++ {
			v := get12(tbl, cl)
			if cl < 2 {
				v = 0 // FAT[0], FAT[1] are media/EOC words: the table reads them as no cluster value
			}
			full[cl] = fmt.Sprint(v)
		}
		c.Case(id, "robust.walk", fmt.Sprintf("max=%d", maxc), fmt.Sprintf("first=%d", first), "eoc=4088", "table="+strings.Join(full, ","))
		if got.err != nil {
			c.Impl(id, "err")
			c.Stat("walk=err")
		} else {
			s := make([]string, len(got.l))
			for k, v := range got.l {
				s[k] = fmt.Sprint(v)
			}
			c.Impl(id, "ok:"+strings.Join(s, ","))
			c.Stat("walk=ok")
			if len(got.l) > 3 {
				c.Stat("walk=ok-long")
			}
		}
		// oracle: terminated (we are here), no panic, and a returned chain has no repeated cluster
		seen := map[uint32]bool{}
		dup := false
		for _, v := range got.l {
			if seen[v] {
				dup = true
			}
			seen[v] = true
		}
		if dup {
			c.Fail(id, "-", "returned chain visits a cluster twice", desc)
		} else {
			c.OK(id)
		}
		c.Distinct(desc)
		c.Sample(desc)
	}
	_ = os.Stdout
}

func put12(t []byte, cl, v int) {
	o := cl * 3 / 2
	if cl%2 == 0 {
		t[o] = byte(v)
		t[o+1] = t[o+1]&0xF0 | byte(v>>8)&0x0F
	} else {
		t[o] = t[o]&0x0F | byte(v<<4)
		t[o+1] = byte(v >> 4)
	}
}

func get12(t []byte, cl int) int {
	o := cl * 3 / 2
	if o+1 >= len(t) {
		return 0
	}
	if cl%2 == 0 {
		return int(t[o]) | int(t[o+1]&0x0F)<<8
	}
	return int(t[o]>>4) | int(t[o+1])<<4
}
