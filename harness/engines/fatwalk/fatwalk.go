// Package fatwalk is the C18 correspondence engine for the FAT cluster-chain walk: random FAT12
// tables (cycles, out-of-range links, free and reserved values) are patched into a real image and
// the library's getClusterList is compared with the Lean walk, case by case.
package fatwalk

import (
	"fmt"
	"os"
	"strings"
	"time"

	"github.com/diskfs/go-diskfs/filesystem/fat12"

	"verif/harness/internal/hx"
	"verif/harness/internal/memdev"
)

func Run(c *hx.Ctx) {
	r := c.Rng
	size := int64(1474560)
	d := memdev.New(size)
	d.KeepData = false
	fsys, err := fat12.Create(d, size, 0, 512, "WALK", true)
	if err != nil {
		c.Fail("setup", "-", "fat12.Create: "+err.Error(), "")
		return
	}
	_ = fsys
	base := d.Bytes(0, int(size))
	// geometry of the library's own 1.44 MB layout, read from the BPB
	reserved := int(base[14]) | int(base[15])<<8
	spf := int(base[22]) | int(base[23])<<8
	fat1 := reserved * 512
	fat2 := fat1 + spf*512
	// the largest valid cluster number of this layout (for the boundary families below)
	maxc := 0
	func() {
		defer func() { _ = recover() }()
		dev := memdev.New(size)
		dev.KeepData = false
		dev.RawWrite(base, 0)
		if f, err := fat12.Read(dev, size, 0, 512); err == nil {
			maxc = int(f.VerifMaxCluster())
		}
	}()
	n := c.N(1500, 60000)
	for i := 0; i < n; i++ {
		id := fmt.Sprintf("w%d", i)
		// entries outside the small active region (boundary families)
		extra := map[int]int{}
		family := ""
		// a small active region of the table; everything else free (0)
		m := 6 + r.Intn(40)
		next := make([]int, m+2)
		for cl := 2; cl < m+2; cl++ {
			switch r.Intn(10) {
			case 0:
				next[cl] = 0xFF8 + r.Intn(8) // EOC
			case 1:
				next[cl] = 0 // free
			case 2:
				next[cl] = 1 // reserved value
			case 3:
				next[cl] = 3000 + r.Intn(1000) // far outside the active region, mostly past the FAT
			case 4:
				next[cl] = cl // self loop
			default:
				next[cl] = 2 + r.Intn(m) // anywhere in the region (cycles likely)
			}
		}
		first := 2 + r.Intn(m)
		if r.Bool() {
			// a valid chain over a random permutation of the region, then 0..2 corrupted links
			perm := make([]int, m)
			for k := range perm {
				perm[k] = 2 + k
			}
			for k := m - 1; k > 0; k-- {
				j := r.Intn(k + 1)
				perm[k], perm[j] = perm[j], perm[k]
			}
			ln := 1 + r.Intn(m)
			for cl := 2; cl < m+2; cl++ {
				next[cl] = 0
			}
			for k := 0; k < ln; k++ {
				if k+1 < ln {
					next[perm[k]] = perm[k+1]
				} else {
					next[perm[k]] = 0xFFF
				}
			}
			first = perm[0]
			for k := r.Intn(3); k > 0; k-- {
				next[perm[r.Intn(ln)]] = []int{0, 1, perm[r.Intn(ln)], 3500, 0xFF7, 0xFF8}[r.Intn(6)]
			}
		}
		if r.Chance(5) {
			first = r.Intn(4000)
		}
		// regime families (regimes/C18.md): the random tables above live in clusters 2..47 and link either
		// inside that region or far beyond the table; the bounds of the walk are at maxCluster
		// top: the last entry the table physically holds (the library's MaxCluster may lie one beyond it)
		top := spf*512*2/3 - 1
		if maxc < top {
			top = maxc
		}
		switch {
		case maxc < 100:
		case i%20 == 7:
			// a link to the last entries of the table and to the first numbers past it; the last entries end
			// a chain, so a walk whose bound is off by one returns a chain where it must refuse (or refuses
			// the last valid cluster)
			family = "boundary-link"
			b := hx.Pick(r, []int{top - 1, top, top + 1, top + 2, maxc, maxc + 1})
			for cl := 2; cl < m+2; cl++ {
				next[cl] = 0
			}
			next[2], next[3] = 3, b
			first = 2
			extra[top-1], extra[top] = 0xFFF, 0xFFF
		case i%20 == 13:
			// the walk starts at the last entries, just past them, at the reserved numbers
			family = "boundary-first"
			first = hx.Pick(r, []int{0, 1, top - 1, top, top + 1, maxc, maxc + 1, maxc + 2, 0xFF7, 0xFF8})
			extra[top-1], extra[top] = 0xFFF, 0xFFF
		case i%100 == 19:
			// one chain through every entry of the table (the longest chain that is not a loop), and the
			// same chain closed into a loop of full length
			family = "full-chain"
			for cl := 2; cl < m+2; cl++ {
				next[cl] = cl + 1
			}
			for cl := m + 2; cl < top; cl++ {
				extra[cl] = cl + 1
			}
			extra[top] = 0xFFF
			if i%200 == 119 {
				family = "full-loop"
				extra[top] = 2
			}
			first = 2
		}
		if !c.Want(id) {
			continue
		}
		img := append([]byte(nil), base...)
		tbl := make([]byte, spf*512)
		copy(tbl, img[fat1:fat1+spf*512])
		for cl := 2; cl < m+2; cl++ {
			put12(tbl, cl, next[cl])
		}
		for cl, v := range extra {
			if cl >= m+2 && cl*3/2+1 < len(tbl) {
				put12(tbl, cl, v)
			}
		}
		copy(img[fat1:], tbl)
		copy(img[fat2:], tbl)
		dev := memdev.New(size)
		dev.KeepData = false
		dev.RawWrite(img, 0)
		type res struct {
			l   []uint32
			err error
			max uint32
			pan any
		}
		ch := make(chan res, 1)
		go func() {
			var out res
			defer func() {
				if e := recover(); e != nil {
					out.pan = e
				}
				ch <- out
			}()
			f, err := fat12.Read(dev, size, 0, 512)
			if err != nil {
				out.err = err
				return
			}
			out.max = f.VerifMaxCluster()
			out.l, out.err = f.VerifClusterList(uint32(first))
		}()
		var got res
		select {
		case got = <-ch:
		case <-time.After(5 * time.Second):
			c.Impl(id, "diverge")
			c.Fail(id, "-", "getClusterList did not return within 5 s (endless chain walk)", fmt.Sprintf("first=%d next=%v", first, next))
			// the walking goroutine cannot be stopped: end the engine here
			c.Note("stopping early after a hang")
			return
		}
		desc := fmt.Sprintf("first=%d next[2..]=%v", first, next[2:])
		if family != "" {
			c.Stat("family=" + family)
			desc = fmt.Sprintf("%s max=%d %s", family, maxc, desc)
			if family == "boundary-link" || family == "boundary-first" {
				desc += fmt.Sprintf(" (entries %d and %d, the last of the table, end a chain)", top-1, top)
			}
		}
		if got.pan != nil {
			c.Impl(id, "panic")
			c.Fail(id, "-", fmt.Sprintf("panic: %v", got.pan), desc)
			continue
		}
		// the whole table as the reader sees it (12-bit entries of the FAT region), for the model
		maxc := int(got.max)
		full := make([]string, maxc+1)
		for cl := 0; cl <= maxc; cl++ {
			v := get12(tbl, cl)
			if cl < 2 {
				v = 0 // FAT[0], FAT[1] are media/EOC words: the table reads them as no cluster value
			}
			full[cl] = fmt.Sprint(v)
		}
		c.Case(id, "robust.walk", fmt.Sprintf("max=%d", maxc), fmt.Sprintf("first=%d", first), "eoc=4088", "table="+strings.Join(full, ","))
		if got.err != nil {
			if os.Getenv("VERIF_C18_DEBUG") != "" && family != "" {
				fmt.Fprintf(os.Stderr, "%s %s first=%d: %v\n", id, family, first, got.err)
			}
			c.Impl(id, "err")
			c.Stat("walk=err")
		} else {
			s := make([]string, len(got.l))
			for k, v := range got.l {
				s[k] = fmt.Sprint(v)
			}
			c.Impl(id, "ok:"+strings.Join(s, ","))
			c.Stat("walk=ok")
			if len(got.l) > 3 {
				c.Stat("walk=ok-long")
			}
		}
		// oracle: terminated (we are here), no panic, and a returned chain has no repeated cluster
		seen := map[uint32]bool{}
		dup := false
		for _, v := range got.l {
			if seen[v] {
				dup = true
			}
			seen[v] = true
		}
		if dup {
			c.Fail(id, "-", "returned chain visits a cluster twice", desc)
		} else {
			c.OK(id)
		}
		c.Distinct(desc)
		c.Sample(desc)
	}
	_ = os.Stdout
}

func put12(t []byte, cl, v int) {
	o := cl * 3 / 2
	if cl%2 == 0 {
		t[o] = byte(v)
		t[o+1] = t[o+1]&0xF0 | byte(v>>8)&0x0F
	} else {
		t[o] = t[o]&0x0F | byte(v<<4)
		t[o+1] = byte(v >> 4)
	}
}

func get12(t []byte, cl int) int {
	o := cl * 3 / 2
	if o+1 >= len(t) {
		return 0
	}
	if cl%2 == 0 {
		return int(t[o]) | int(t[o+1]&0x0F)<<8
	}
	return int(t[o]>>4) | int(t[o+1])<<4
}
