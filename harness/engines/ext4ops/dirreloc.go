package ext4ops

// dirreloc<k> (history level, both modes): writeDirectory's growth and relocation of a directory.
//
// One directory gets names of about 200 bytes one by one while small files at the root are appended in between, so
// that every new block of the directory lands behind a foreign block: the directory's extent list grows to four
// extents and the fifth makes writeDirectory relocate it (allocate all blocks afresh, release the old ones and the
// one just taken). In the `mixed` variant the appends pause now and then, so that a new block can also be adjacent
// to the last one (mergeExtents). At the end half of the names are removed and one more is created: the entries
// then need fewer blocks than the directory owns (the padding branch).
//
// Around EVERY create the engine reads - from the image bytes, with its own decoders - the directory inode's extent
// list, the block bitmaps and the counters; for every step where the directory's block count changed, for a sample
// of the in-place steps and for the padding step it emits an `ext4dir.grow` case: the Lean mirror of writeDirectory
// (Model/Ext4/DirGrow.lean) gets the image before the call and len(dirBytes) (computed here from the entries found
// on the device with the packing rule of Directory.toBytes) and must arrive at the kind of step, the extent list,
// the bitmaps and the counters found in the image afterwards.
//
// Oracle: the listing of the directory after every step (live handle) equals the reference; counters = bitmaps
// after every step; every 10 steps and at the end e2fsck (mode=fsck) or the whole tree live and after re-opening
// the image (mode=tree).
// Stat keys: dir_grown, dir_relocated, dir_extents_4, dir_merged_adjacent, dir_padded.
//
// dirrelocfull: the same on a volume that is filled up when the directory has four extents, so that the relocation
// finds a block for the fifth extent but not the fresh blocks: the call is refused AFTER the extra block was taken
// (candidate finding ext4-dir-relocate-refused-leaks-blocks; see relocLeakListed).

import (
	"encoding/binary"
	"fmt"
	"strings"

	"github.com/diskfs/go-diskfs/filesystem/ext4"

	x "verif/harness/engines/ext4common"
	"verif/harness/internal/hx"
	"verif/harness/internal/memdev"
)

const tagRelocLeak = "ext4-dir-relocate-refused-leaks-blocks"

// relocLeakListed: the finding is listed in known_findings.json for C05 (the witness replay of dirrelocfull is
// reported with c.Known in mode=fsck, the C05 run; in mode=tree, C04's run, it only leaves a stat key and a note:
// the refused create leaves the tree as it was)
const relocLeakListed = true

type relocCfg struct {
	name    string
	cfg     x.Config
	creates int
	nameLen int
	mixed   bool // appends pause now and then: some new directory blocks are adjacent to the last one
}

func (e *engine) dirRelocs() {
	plain := x.Config{Name: "1k-nojournal", Size: 16 * MiB, Journal: x.B(false)}
	csum := x.Config{Name: "1k-csum", Size: 16 * MiB, Csum: x.B(true)}
	k2 := x.Config{Name: "2k-nojournal", Size: 16 * MiB, SPB: 4, Resize: x.B(false), Journal: x.B(false)}
	hs := []relocCfg{
		{name: "dirreloc0", cfg: plain, creates: 42, nameLen: 200},
		{name: "dirreloc1", cfg: csum, creates: 30, nameLen: 216, mixed: true},
		{name: "dirreloc2", cfg: k2, creates: 48, nameLen: 200},
	}
	if e.c.Thorough() {
		k4 := x.Config{Name: "4k-csum-nojournal", Size: 16 * MiB, SPB: 8, Resize: x.B(false), Csum: x.B(true), Journal: x.B(false)}
		start := x.Config{Name: "1k-csum-nojournal-start", Size: 16 * MiB, Start: 3 * MiB, Csum: x.B(true), Journal: x.B(false)}
		g3 := x.Config{Name: "1k-3groups", Size: 20 * MiB, Journal: x.B(false)}
		hs = append(hs,
			relocCfg{name: "dirreloc3", cfg: k4, creates: 150, nameLen: 250},
			relocCfg{name: "dirreloc4", cfg: start, creates: 90, nameLen: 180, mixed: true},
			relocCfg{name: "dirreloc5", cfg: g3, creates: 120, nameLen: 240},
			relocCfg{name: "dirreloc6", cfg: plain, creates: 100, nameLen: 120, mixed: true},
			relocCfg{name: "dirreloc7", cfg: x.Config{Name: "1k", Size: 16 * MiB}, creates: 64, nameLen: 247},
		)
	}
	for _, h := range hs {
		rng := e.c.Rng.Fork() // forked whether or not the history is wanted: --only must not shift the later histories
		if e.wantHist(h.name) {
			e.dirReloc(h, rng, false)
		}
	}
	rng := e.c.Rng.Fork()
	if e.wantHist("dirrelocfull") {
		small := x.Config{Name: "1k-nojournal-10m", Size: 10 * MiB, Journal: x.B(false)}
		e.dirReloc(relocCfg{name: "dirrelocfull", cfg: small, creates: 60, nameLen: 200}, rng, true)
	}
}

// dirSnap: what the image says about one directory and the block accounting at one moment
type dirSnap struct {
	ext    []ext4.V04Extent
	blocks int
	runs   []string // free runs of every group's block bitmap (over blocksPerGroup bits)
	sbfb   uint64
	gfb    string
	fdb    uint32
	bpg    uint32
	acctOK bool
	acctMs string
	sizes  []int // packed size of every live entry, in directory order
	marked map[uint64]bool
}

func snapDir(d *memdev.Dev, start int64, ino uint32, withMarked bool) (*dirSnap, error) {
	v, err := x.ParseView(d, start)
	if err != nil {
		return nil, err
	}
	tree, err := decodeInodeTree(v, d, start, ino)
	if err != nil {
		return nil, err
	}
	if tree.depth != 0 {
		return nil, fmt.Errorf("directory inode %d has an extent tree of depth %d", ino, tree.depth)
	}
	s := &dirSnap{ext: tree.flat(), sbfb: v.FreeBlocks, fdb: v.FirstDataBlock, bpg: v.BPG,
		gfb: u32sOf(v, func(g x.Group) uint32 { return g.FreeBlocks })}
	for _, ex := range s.ext {
		s.blocks += int(ex.Count)
	}
	if withMarked {
		s.marked = map[uint64]bool{}
	}
	for g := range v.Groups {
		bm := v.BlockBitmapBytes(g)
		s.runs = append(s.runs, runsStr(x.FreeRuns(bm, int(v.BPG))))
		if withMarked {
			for i := 0; i < v.BlocksInGroup(g); i++ {
				if bm[i/8]&(1<<(i%8)) != 0 {
					s.marked[v.GroupStart(g)+uint64(i)] = true
				}
			}
		}
	}
	s.acctOK, s.acctMs = v.Acct().Consistent()
	// the live entries, by the engine's own rec_len walk over the directory's blocks in file order
	bs := int(v.BlockSize)
	limit := bs
	if v.RoCompat&0x400 != 0 {
		limit -= 12
	}
	le := binary.LittleEndian
	for _, ex := range s.ext {
		for i := uint64(0); i < uint64(ex.Count); i++ {
			blk := d.Bytes(start+int64(ex.Start+i)*int64(bs), bs)
			for o := 0; o+8 <= limit; {
				in, rl, nl := le.Uint32(blk[o:]), int(le.Uint16(blk[o+4:])), int(blk[o+6])
				if rl < 8 || o+rl > limit || 8+nl > rl {
					return nil, fmt.Errorf("directory block %d: entry at %d has rec_len %d, name_len %d", ex.Start+i, o, rl, nl)
				}
				if in != 0 {
					s.sizes = append(s.sizes, (8+nl+3)/4*4)
				}
				o += rl
			}
		}
	}
	return s, nil
}

// packedBlocks: the number of blocks Directory.toBytes makes of entries with these packed sizes (an entry that
// does not fit into what is left of a block starts the next one)
func packedBlocks(sizes []int, limit int) int {
	if len(sizes) == 0 {
		return 0
	}
	n, used := 1, 0
	for _, sz := range sizes {
		if used+sz > limit {
			n++
			used = 0
		}
		used += sz
	}
	return n
}

func (e *engine) dirReloc(h relocCfg, rng *hx.Rng, full bool) {
	c := e.c
	cfg := h.cfg
	step := ""
	var trace []string
	repro := func() string {
		return fmt.Sprintf("history %s cfg=%s [%s]: mkdir grow; %d x (create a %d-byte name in grow; append about one block to a small file at the root%s)%s: %s (at %s)",
			h.name, cfg.Name, cfg.String(), h.creates, h.nameLen, map[bool]string{true: ", pausing 8 steps in 12", false: ""}[h.mixed],
			map[bool]string{true: "; when grow has 4 extents the volume is filled up to 2 free blocks", false: "; then remove half of the names and create one more"}[full],
			strings.Join(trace, " "), step)
	}
	d, fs, err, panicked := x.Create(cfg)
	if err != nil {
		c.Fail(h.name+"/create", "-", fmt.Sprintf("Create failed (panic=%v): %v", panicked, err), repro())
		return
	}
	view, verr := x.ParseView(d, cfg.Start)
	if verr != nil {
		c.Fail(h.name+"/create", "-", "cannot parse the superblock Create wrote: "+verr.Error(), repro())
		return
	}
	bs := int(view.BlockSize)
	limit := bs
	if view.RoCompat&0x400 != 0 {
		limit -= 12
	}
	r := newRef()
	rn := &runner{fs: fs, ref: r, bs: int64(bs)}
	c.Stat("histories.dirreloc." + cfg.Name)
	run := func(id string, o op) (bool, error) {
		step = o.String()
		out := rn.exec(o)
		switch {
		case out.panicked != "":
			c.Fail(id, "-", fmt.Sprintf("%s: %s: panic %s", cfg.Name, o.String(), out.panicked), repro())
		case out.problem != "":
			c.Fail(id, "-", fmt.Sprintf("%s: %s: %s", cfg.Name, o.String(), out.problem), repro())
		case out.refused != nil:
			return false, out.refused
		default:
			return true, nil
		}
		return false, nil
	}
	must := func(id string, o op) bool {
		ok, refused := run(id, o)
		if refused != nil {
			c.Fail(id, "-", fmt.Sprintf("%s: %s refused: %v", cfg.Name, o.String(), refused), repro())
		}
		return ok
	}
	if !must(h.name+"/mkdir", op{kind: "mkdir", path: "grow"}) {
		return
	}
	ino, ierr := fs.V04EntryInode("grow")
	if ierr != nil || ino == 0 {
		c.Fail(h.name+"/mkdir", "-", fmt.Sprintf("the new directory has no inode: %v", ierr), repro())
		return
	}
	fullCheck := func(id string) bool {
		if e.fsck {
			if ok, fout := x.FsckDev(d, cfg.Start, cfg.Size, c.Scratch, "reloc"); !ok {
				c.Fail(id, "-", fmt.Sprintf("%s after %s: e2fsck -f -n: %s", cfg.Name, step, x.FsckSummary(fout)), repro())
				return false
			}
			return true
		}
		if diff := observe(fs, r, false, map[string]bool{}); diff != "" {
			c.Fail(id, "-", fmt.Sprintf("%s after %s: live view differs from the reference tree: %s", cfg.Name, step, diff), repro())
			return false
		}
		fs2, err := reopen(d, cfg)
		if err != nil {
			c.Fail(id, "-", fmt.Sprintf("%s after %s: ext4.Read of the image failed: %v", cfg.Name, step, err), repro())
			return false
		}
		if diff := observe(fs2, r, false, map[string]bool{}); diff != "" {
			c.Fail(id, "-", fmt.Sprintf("%s after %s: view after re-opening the image differs from the reference tree: %s", cfg.Name, step, diff), repro())
			return false
		}
		return true
	}
	// one create in grow with the observation around it; false: the history ends
	nGrown, nReloc := 0, 0
	seen := map[string]bool{}
	stat := func(k string) {
		c.Stat(k)
		seen[k] = true
	}
	var names []string
	filled := false
	create := func(k int, id string, sample bool) bool {
		nm := fmt.Sprintf("n%03d_", k)
		for len(nm) < h.nameLen {
			nm += string(rune('a' + rng.Intn(26)))
		}
		pre, err := snapDir(d, cfg.Start, ino, filled)
		if err != nil {
			c.Fail(id, "-", fmt.Sprintf("%s before create #%d: %v", cfg.Name, k, err), repro())
			return false
		}
		ok, refused := run(id, op{kind: "create", path: join("grow", nm)})
		if !ok && refused == nil {
			return false
		}
		post, err := snapDir(d, cfg.Start, ino, filled)
		if err != nil {
			c.Fail(id, "-", fmt.Sprintf("%s after %s: %v", cfg.Name, step, err), repro())
			return false
		}
		need := packedBlocks(append(append([]int{}, pre.sizes...), (8+len(nm)+3)/4*4), limit)
		if refused != nil {
			if !filled {
				c.Fail(id, "-", fmt.Sprintf("%s: %s refused: %v", cfg.Name, step, refused), repro())
				return false
			}
			e.relocRefused(h, cfg, d, id, refused, pre, post, need, repro)
			return false
		}
		names = append(names, nm)
		if diff := observeDir(rn, "grow"); diff != "" {
			c.Fail(id, "-", fmt.Sprintf("%s after %s (directory of %d blocks in %d extents, before: %d in %d): %s", cfg.Name, step, post.blocks, len(post.ext), pre.blocks, len(pre.ext), diff), repro())
			return false
		}
		if !post.acctOK {
			c.Fail(id, "-", fmt.Sprintf("%s after %s: counters and bitmaps disagree: %s", cfg.Name, step, post.acctMs), repro())
			return false
		}
		if post.blocks < pre.blocks || post.blocks < need {
			c.Fail(id, "-", fmt.Sprintf("%s after %s: the directory has %d blocks, had %d, its entries need %d", cfg.Name, step, post.blocks, pre.blocks, need), repro())
			return false
		}
		// the kind of step, from what the image shows
		kind := "inplace"
		switch {
		case post.blocks == pre.blocks && need < pre.blocks:
			kind = "padded"
			stat("dir_padded")
		case post.blocks == pre.blocks:
		default:
			kept := map[[2]uint64]bool{}
			for _, ex := range post.ext {
				for i := uint64(0); i < uint64(ex.Count); i++ {
					kept[[2]uint64{uint64(ex.FileBlock) + i, ex.Start + i}] = true
				}
			}
			kind = "grown"
			for _, ex := range pre.ext {
				for i := uint64(0); i < uint64(ex.Count); i++ {
					if !kept[[2]uint64{uint64(ex.FileBlock) + i, ex.Start + i}] {
						kind = "relocated"
					}
				}
			}
			if kind == "grown" {
				nGrown++
				stat("dir_grown")
				if len(post.ext) == len(pre.ext) && len(pre.ext) > 0 {
					stat("dir_merged_adjacent")
				}
			} else {
				nReloc++
				stat("dir_relocated")
			}
			trace = append(trace, fmt.Sprintf("[#%d %s %d->%d blocks, %d->%d extents]", k, kind, pre.blocks, post.blocks, len(pre.ext), len(post.ext)))
		}
		if len(post.ext) == 4 {
			stat("dir_extents_4")
		}
		if (kind != "inplace" || sample) && c.Want(id) {
			var hint []string
			for _, ex := range post.ext {
				hint = append(hint, fmt.Sprint(ex.Start))
			}
			c.Case(id+"/dg", "ext4dir.grow", fmt.Sprintf("bs=%d", bs), fmt.Sprintf("fdb=%d", pre.fdb), fmt.Sprintf("bpg=%d", pre.bpg),
				"old="+extStr(pre.ext), fmt.Sprintf("nbytes=%d", need*bs), fmt.Sprintf("sbfb=%d", pre.sbfb), "gfb="+pre.gfb,
				"runs="+strings.Join(pre.runs, "/"), "hint="+joinOr(hint))
			c.Impl(id+"/dg", "kind="+kind, "ext="+extStr(post.ext), fmt.Sprintf("sbfb=%d", post.sbfb), "gfb="+post.gfb,
				"bruns="+strings.Join(post.runs, "/"), "orph=-", fmt.Sprintf("inv=%d", b2i(post.acctOK)))
			c.Stat("dirgrow.case." + kind)
		}
		return true
	}
	filler, appends := "", 0
	for k := 0; k < h.creates; k++ {
		id := fmt.Sprintf("%s/s%d", h.name, k)
		if !create(k, id, k%5 == 2) {
			return
		}
		if full && !filled {
			if s, err := snapDir(d, cfg.Start, ino, false); err == nil && len(s.ext) == 4 && packedBlocks(append(append([]int{}, s.sizes...), (8+h.nameLen+3)/4*4), limit) > s.blocks {
				// the next create needs a fifth extent: leave two free blocks
				if !e.relocFill(h, cfg, d, rn, id, must) {
					return
				}
				filled = true
				c.OK(id)
				continue
			}
		}
		if !filled && (!h.mixed || k%12 < 4) {
			// a foreign block behind the directory's last one; a new small file every 4 appends (at most 4 extents each)
			if appends%4 == 0 {
				filler = fmt.Sprintf("f%d", appends/4)
				if !must(id, op{kind: "create", path: filler}) {
					return
				}
			}
			appends++
			if !must(id, op{kind: "append", path: filler, chunks: [][]byte{rng.Bytes(bs + rng.Intn(bs/2))}}) {
				return
			}
		}
		if k%10 == 9 || k == h.creates-1 {
			if !fullCheck(id) {
				return
			}
		}
		c.OK(id)
	}
	if full {
		c.Note("%s: the volume was filled but no create was refused (%d relocations)", h.name, nReloc)
		return
	}
	// the padding branch: fewer names, then one more
	for i := 0; i < len(names); i += 2 {
		id := fmt.Sprintf("%s/r%d", h.name, i)
		if !must(id, op{kind: "remove", path: join("grow", names[i])}) {
			return
		}
		if diff := observeDir(rn, "grow"); diff != "" {
			c.Fail(id, "-", fmt.Sprintf("%s after %s: %s", cfg.Name, step, diff), repro())
			return
		}
	}
	id := h.name + "/again"
	if !create(h.creates, id, true) {
		return
	}
	if !fullCheck(id) {
		return
	}
	c.OK(id)
	if h.creates >= 30 && cfg.Name != "4k-csum-nojournal" && nReloc == 0 {
		c.Note("%s: no relocation in %d creates (%d growths)", h.name, h.creates, nGrown)
	}
	var ks []string
	for _, k := range []string{"dir_grown", "dir_relocated", "dir_extents_4", "dir_merged_adjacent", "dir_padded"} {
		if seen[k] {
			ks = append(ks, k)
		}
	}
	c.Distinct(fmt.Sprintf("%s|%s|%d|%d|%v|%s", h.name, cfg.Name, h.creates, h.nameLen, h.mixed, strings.Join(ks, ",")))
	if h.name == "dirreloc0" {
		c.Sample(repro())
	}
}

// relocFill: one big file takes all free blocks but two
func (e *engine) relocFill(h relocCfg, cfg x.Config, d *memdev.Dev, rn *runner, id string, must func(string, op) bool) bool {
	v, err := x.ParseView(d, cfg.Start)
	if err != nil || v.FreeBlocks < 8 {
		return false
	}
	if !must(id, op{kind: "create", path: "big"}) {
		return false
	}
	n := int(v.FreeBlocks-2) * int(v.BlockSize)
	if !must(id, op{kind: "append", path: "big", chunks: [][]byte{make([]byte, n)}}) {
		return false
	}
	if v2, err := x.ParseView(d, cfg.Start); err == nil {
		e.c.Note("%s: filled: %d blocks free", h.name, v2.FreeBlocks)
	}
	return true
}

// relocRefused: the create that needs the fifth extent on the filled volume was refused. Candidate finding
// ext4-dir-relocate-refused-leaks-blocks: trigger = the directory has four extents, needs one more block, there is a
// free block for it but fewer than `need` free blocks for the relocation; symptom = the call returns "could not
// allocate contiguous extents for directory", the directory's extent list is unchanged and blocks that were free
// before the call are marked afterwards.
func (e *engine) relocRefused(h relocCfg, cfg x.Config, d *memdev.Dev, id string, refused error, pre, post *dirSnap, need int, repro func() string) {
	c := e.c
	var orphans []string
	for b := range post.marked {
		if !pre.marked[b] {
			orphans = append(orphans, fmt.Sprint(b))
		}
	}
	trigger := len(pre.ext) == 4 && need == pre.blocks+1 && pre.sbfb >= 1 && pre.sbfb < uint64(need)
	symptom := strings.Contains(refused.Error(), "could not allocate contiguous extents for directory") &&
		extStr(pre.ext) == extStr(post.ext) && len(orphans) == need-pre.blocks && post.sbfb+uint64(len(orphans)) == pre.sbfb
	fsckSays := ""
	if e.fsck {
		ok, fout := x.FsckDev(d, cfg.Start, cfg.Size, c.Scratch, "reloc")
		fsckSays = fmt.Sprintf("; e2fsck clean=%v: %s", ok, x.FsckSummary(fout))
		symptom = symptom && !ok && strings.Contains(fout, "Block bitmap differences")
	}
	msg := fmt.Sprintf("%s: create in a directory of %d blocks in %d extents that needs %d blocks, %d blocks free: refused (%v); extent list afterwards %s, blocks marked by the refused call: [%s], free blocks %d -> %d%s",
		cfg.Name, pre.blocks, len(pre.ext), need, pre.sbfb, refused, extStr(post.ext), strings.Join(orphans, " "), pre.sbfb, post.sbfb, fsckSays)
	switch {
	case trigger && symptom:
		c.Stat("dirreloc.refused-leak-reproduced")
		c.Note("%s: %s", tagRelocLeak, msg)
		if relocLeakListed && e.fsck {
			c.Known(tagRelocLeak, true, msg)
		}
	case trigger && len(orphans) == 0 && extStr(pre.ext) == extStr(post.ext):
		c.Stat("dirreloc.refused-clean")
		if relocLeakListed && e.fsck {
			c.Known(tagRelocLeak, false, msg)
		}
	default:
		c.Note("%s: refused create outside the trigger of %s: %s", h.name, tagRelocLeak, msg)
		c.Stat("dirreloc.refused-other")
	}
	_ = repro
}
