package ext4ops

import (
	"encoding/binary"
	"fmt"
	"hash/crc32"
	"strings"

	"github.com/diskfs/go-diskfs/filesystem/ext4"

	x "verif/harness/engines/ext4common"
	"verif/harness/internal/hx"
	"verif/harness/internal/memdev"
)

// ---- Remove: accounting correspondence (mode=fsck) -----------------------------------------
//
// Before a Remove the engine reads, from the image bytes and with its own decoder, the inode the entry names:
// its data extents and the blocks that hold the nodes of its extent tree. The Lean accounting machine gets the
// bitmaps and counters of the image before the call and that block list (`ext4acc.remove`) and must arrive at
// the bitmaps and counters found in the image afterwards.

type rmPre struct {
	view   *x.View
	ino    uint32
	isDir  bool
	blocks []x.Run // absolute block number, count: data extents first, then extent-tree blocks
	bbm    string  // the bitmaps as they were before the call (a View reads the device lazily)
	ibm    string
}

// inodeBlocks decodes inode ino from the image: data extents and extent-tree node blocks (independent of the library).
func inodeBlocks(v *x.View, d *memdev.Dev, start int64, ino uint32) (data, tree []x.Run, err error) {
	if ino == 0 || ino > v.InodesCount {
		return nil, nil, fmt.Errorf("inode %d out of range", ino)
	}
	g := int((ino - 1) / v.IPG)
	idx := int64((ino - 1) % v.IPG)
	if g >= len(v.Groups) {
		return nil, nil, fmt.Errorf("inode %d: group %d does not exist", ino, g)
	}
	bs := int64(v.BlockSize)
	raw := d.Bytes(start+int64(v.Groups[g].InodeTable)*bs+idx*int64(v.InodeSize), 128)
	le := binary.LittleEndian
	if le.Uint32(raw[0x20:])&0x80000 == 0 {
		return nil, nil, nil // no extent tree (a symlink whose target lives in the inode)
	}
	var walk func(node []byte, depthWant int) error
	walk = func(node []byte, depthWant int) error {
		if le.Uint16(node[0:]) != 0xF30A {
			return fmt.Errorf("inode %d: bad extent header magic %#x", ino, le.Uint16(node[0:]))
		}
		n, depth := int(le.Uint16(node[2:])), int(le.Uint16(node[6:]))
		if depthWant >= 0 && depth != depthWant {
			return fmt.Errorf("inode %d: extent node depth %d, want %d", ino, depth, depthWant)
		}
		if 12+12*n > len(node) {
			return fmt.Errorf("inode %d: %d entries do not fit the node", ino, n)
		}
		for i := 0; i < n; i++ {
			e := node[12+12*i:]
			if depth == 0 {
				cnt := int(le.Uint16(e[4:]))
				if cnt > 32768 {
					cnt -= 32768
				}
				data = append(data, x.Run{Pos: int(uint64(le.Uint32(e[8:])) | uint64(le.Uint16(e[6:]))<<32), Count: cnt})
				continue
			}
			child := uint64(le.Uint32(e[4:])) | uint64(le.Uint16(e[8:]))<<32
			tree = append(tree, x.Run{Pos: int(child), Count: 1})
			if err := walk(d.Bytes(start+int64(child)*bs, int(bs)), depth-1); err != nil {
				return err
			}
		}
		return nil
	}
	if err := walk(raw[0x28:0x28+60], -1); err != nil {
		return nil, nil, err
	}
	return data, tree, nil
}

func (e *engine) preRemove(d *memdev.Dev, cfg x.Config, rn *runner, o op) *rmPre {
	defer func() { recover() }()
	n := rn.ref.lookup(o.path)
	if n == nil {
		return nil
	}
	v, err := x.ParseView(d, cfg.Start)
	if err != nil {
		return nil
	}
	ino, err := rn.fs.V04EntryInode(o.path)
	if err != nil || ino == 0 {
		return nil
	}
	data, tree, err := inodeBlocks(v, d, cfg.Start, ino)
	if err != nil {
		e.c.Note("preRemove %s: %v", o.path, err)
		return nil
	}
	return &rmPre{view: v, ino: ino, isDir: n.kind == kDir, blocks: append(data, tree...), bbm: bitmapsHex(v, false), ibm: bitmapsHex(v, true)}
}

func bitmapsHex(v *x.View, inode bool) string {
	s := make([]string, len(v.Groups))
	for g := range v.Groups {
		if inode {
			s[g] = hx.Hex(v.InodeBitmapBytes(g)[:(v.IPG+7)/8])
		} else {
			s[g] = hx.Hex(v.BlockBitmapBytes(g)[:(v.BPG+7)/8])
		}
	}
	return strings.Join(s, "/")
}

func freeRunsAll(v *x.View, inode bool) string {
	s := make([]string, len(v.Groups))
	for g := range v.Groups {
		if inode {
			s[g] = runsStr(x.FreeRuns(v.InodeBitmapBytes(g), int(v.IPG)))
		} else {
			s[g] = runsStr(x.FreeRuns(v.BlockBitmapBytes(g), int(v.BPG)))
		}
	}
	return strings.Join(s, "/")
}

func u32sOf(v *x.View, f func(x.Group) uint32) string {
	xs := make([]uint32, len(v.Groups))
	for g := range v.Groups {
		xs[g] = f(v.Groups[g])
	}
	return x.U32s(xs)
}

// emitRemove: the image before a successful Remove + the removed inode's blocks -> the image afterwards.
func emitRemove(c *hx.Ctx, id string, pre *rmPre, after *x.View) {
	v := pre.view
	if len(after.Groups) != len(v.Groups) {
		return
	}
	c.Case(id+"/rm", "ext4acc.remove",
		fmt.Sprintf("fdb=%d", v.FirstDataBlock), fmt.Sprintf("bpg=%d", v.BPG), fmt.Sprintf("ipg=%d", v.IPG),
		fmt.Sprintf("sbfb=%d", v.FreeBlocks), fmt.Sprintf("sbfi=%d", v.FreeInodes),
		"gfb="+u32sOf(v, func(g x.Group) uint32 { return g.FreeBlocks }),
		"gfi="+u32sOf(v, func(g x.Group) uint32 { return g.FreeInodes }),
		"gud="+u32sOf(v, func(g x.Group) uint32 { return g.UsedDirs }),
		"bbm="+pre.bbm, "ibm="+pre.ibm,
		fmt.Sprintf("ino=%d", pre.ino), fmt.Sprintf("dir=%d", b2i(pre.isDir)), "blocks="+runsStr(pre.blocks))
	ok, _ := after.Acct().Consistent()
	c.Impl(id+"/rm", fmt.Sprintf("sbfb=%d", after.FreeBlocks), fmt.Sprintf("sbfi=%d", after.FreeInodes),
		"gfb="+u32sOf(after, func(g x.Group) uint32 { return g.FreeBlocks }),
		"gfi="+u32sOf(after, func(g x.Group) uint32 { return g.FreeInodes }),
		"gud="+u32sOf(after, func(g x.Group) uint32 { return g.UsedDirs }),
		"bruns="+freeRunsAll(after, false), "iruns="+freeRunsAll(after, true), fmt.Sprintf("inv=%d", b2i(ok)))
	c.Stat("acct.remove")
	if len(pre.blocks) > 1 {
		c.Stat("acct.remove-multi-extent")
	}
	if pre.isDir {
		c.Stat("acct.remove-dir")
	}
}

// ---- link counts / used-directories counters (mode=fsck) ------------------------------------
//
// Around a Mkdir / create / Symlink that makes exactly one new inode, and around a Remove, the engine reads the
// parent directory's i_links_count and every group's bg_used_dirs_count from the image bytes (its own decoder)
// and lets the Lean bookkeeping (`ext4links.step`) compute the numbers after the call from those before it.

type lnkPre struct {
	kind   string // mk | rm
	dir    bool
	p, k   uint32
	plinks int
	klinks int
	used   string
	ipg    uint32
	path   string
}

func inodeLinks(v *x.View, d *memdev.Dev, start int64, ino uint32) (int, bool) {
	if ino == 0 || ino > v.InodesCount {
		return 0, false
	}
	g := int((ino - 1) / v.IPG)
	if g >= len(v.Groups) {
		return 0, false
	}
	raw := d.Bytes(start+int64(v.Groups[g].InodeTable)*int64(v.BlockSize)+int64((ino-1)%v.IPG)*int64(v.InodeSize), 128)
	return int(binary.LittleEndian.Uint16(raw[0x1A:])), true
}

func parentOf(p string) string {
	if i := strings.LastIndex(p, "/"); i >= 0 {
		return p[:i]
	}
	return "."
}

func (e *engine) preLinks(d *memdev.Dev, cfg x.Config, rn *runner, o op) *lnkPre {
	defer func() { recover() }()
	var kind string
	switch o.kind {
	case "mkdir", "create", "symlink":
		kind = "mk"
	case "remove":
		kind = "rm"
	default:
		return nil
	}
	par := parentOf(o.path)
	pn, n := rn.ref.lookup(par), rn.ref.lookup(o.path)
	if pn == nil || pn.kind != kDir || (kind == "mk") != (n == nil) {
		return nil // more than one new inode (nested Mkdir), or a call the reference refuses
	}
	v, err := x.ParseView(d, cfg.Start)
	if err != nil {
		return nil
	}
	pre := &lnkPre{kind: kind, path: o.path, ipg: v.IPG, p: 2, dir: o.kind == "mkdir" || (n != nil && n.kind == kDir)}
	if par != "." {
		if pre.p, err = rn.fs.V04EntryInode(par); err != nil || pre.p == 0 {
			return nil
		}
	}
	var ok bool
	if pre.plinks, ok = inodeLinks(v, d, cfg.Start, pre.p); !ok {
		return nil
	}
	if kind == "rm" {
		if pre.k, err = rn.fs.V04EntryInode(o.path); err != nil || pre.k == 0 {
			return nil
		}
		if pre.klinks, ok = inodeLinks(v, d, cfg.Start, pre.k); !ok {
			return nil
		}
	}
	pre.used = u32sOf(v, func(g x.Group) uint32 { return g.UsedDirs })
	return pre
}

func emitLinks(c *hx.Ctx, id string, pre *lnkPre, rn *runner, d *memdev.Dev, cfg x.Config, after *x.View) {
	defer func() { recover() }()
	if pre.kind == "mk" {
		k, err := rn.fs.V04EntryInode(pre.path)
		if err != nil || k == 0 {
			return
		}
		pre.k = k
	}
	pl, ok := inodeLinks(after, d, cfg.Start, pre.p)
	if !ok {
		return
	}
	c.Case(id+"/ln", "ext4links.step", "op="+pre.kind, fmt.Sprintf("dir=%d", b2i(pre.dir)), fmt.Sprintf("ipg=%d", pre.ipg),
		fmt.Sprintf("p=%d", pre.p), fmt.Sprintf("k=%d", pre.k), fmt.Sprintf("plinks=%d", pre.plinks), fmt.Sprintf("klinks=%d", pre.klinks), "used="+pre.used)
	used := u32sOf(after, func(g x.Group) uint32 { return g.UsedDirs })
	if pre.kind == "mk" {
		kl, _ := inodeLinks(after, d, cfg.Start, pre.k)
		c.Impl(id+"/ln", fmt.Sprintf("plinks=%d", pl), fmt.Sprintf("klinks=%d", kl), "used="+used)
	} else {
		// the inode is released: its bit in the inode bitmap is clear
		g, q := int((pre.k-1)/after.IPG), int((pre.k-1)%after.IPG)
		gone := after.InodeBitmapBytes(g)[q/8]&(1<<(q%8)) == 0
		c.Impl(id+"/ln", fmt.Sprintf("plinks=%d", pl), fmt.Sprintf("gone=%d", b2i(gone)), "used="+used)
	}
	c.Stat("links." + pre.kind)
	if pre.dir {
		c.Stat("links." + pre.kind + "-dir")
	}
}

// ---- Remove: the parent directory's blocks (mode=tree) --------------------------------------
//
// Before a Remove the engine reads the raw blocks of the directory that holds the name and lists its entries with
// its own rec_len walk; the Lean mirror of Remove's write-back (`ext4.dirrewrite`) gets those blocks and the
// entries that remain and must produce the blocks found in the image afterwards (checksum fields masked).

type dirPre struct {
	bs     int
	csum   bool
	seed   uint32 // the filesystem's checksum seed, derived from the superblock bytes by the engine
	ino    uint32 // the directory's inode number
	gen    uint32 // its i_generation, from the inode bytes
	blocks []uint64 // device block numbers of the directory, in file order
	old    []byte
	ents   []string // remaining entries as inode:type:hexname, in directory order
}

func dirBlocksOf(fs *ext4.FileSystem, ino uint32) []uint64 {
	ex, _, err := fs.V04InodeExtents(ino)
	if err != nil {
		return nil
	}
	var out []uint64
	for _, e := range ex {
		for i := uint64(0); i < uint64(e.Count); i++ {
			out = append(out, e.Start+i)
		}
	}
	return out
}

func (e *engine) preDir(d *memdev.Dev, cfg x.Config, rn *runner, o op) *dirPre {
	defer func() { recover() }()
	if rn.ref.lookup(o.path) == nil {
		return nil
	}
	v, err := x.ParseView(d, cfg.Start)
	if err != nil {
		return nil
	}
	pino := uint32(2)
	if par := parentOf(o.path); par != "." {
		if pino, err = rn.fs.V04EntryInode(par); err != nil || pino == 0 {
			return nil
		}
	}
	k, err := rn.fs.V04EntryInode(o.path)
	if err != nil || k == 0 {
		return nil
	}
	pre := &dirPre{bs: int(v.BlockSize), csum: v.RoCompat&0x400 != 0, blocks: dirBlocksOf(rn.fs, pino), ino: pino}
	if len(pre.blocks) == 0 || len(pre.blocks) > 64 {
		return nil
	}
	if pre.csum {
		// the checksum seed and the directory's generation, decoded here (not taken from the library): the Lean
		// write-back model computes every block's checksum tail from them and the tails are compared unmasked
		sb := d.Bytes(cfg.Start+1024, 1024)
		if v.Incompat&0x2000 != 0 {
			pre.seed = binary.LittleEndian.Uint32(sb[0x270:])
		} else {
			pre.seed = ^crc32.Update(0, crc32.MakeTable(crc32.Castagnoli), sb[0x68:0x78])
		}
		g := int((pino - 1) / v.IPG)
		if g >= len(v.Groups) {
			return nil
		}
		raw := d.Bytes(cfg.Start+int64(v.Groups[g].InodeTable)*int64(pre.bs)+int64((pino-1)%v.IPG)*int64(v.InodeSize), 128)
		pre.gen = binary.LittleEndian.Uint32(raw[0x64:])
	}
	limit := pre.bs
	if pre.csum {
		limit -= 12
	}
	le := binary.LittleEndian
	for _, b := range pre.blocks {
		blk := d.Bytes(cfg.Start+int64(b)*int64(pre.bs), pre.bs)
		pre.old = append(pre.old, blk...)
		for i := 0; i+8 <= limit; {
			ino, rl, nl, ty := le.Uint32(blk[i:]), int(le.Uint16(blk[i+4:])), int(blk[i+6]), blk[i+7]
			if rl < 8 || i+rl > limit || 8+nl > rl {
				return nil // not a linear directory block the walk understands
			}
			if ino != 0 && nl != 0 && ino != k {
				pre.ents = append(pre.ents, fmt.Sprintf("%d:%d:%x", ino, ty, blk[i+8:i+8+nl]))
			}
			i += rl
		}
	}
	return pre
}

func emitDirRewrite(c *hx.Ctx, id string, pre *dirPre, d *memdev.Dev, cfg x.Config, padded bool) {
	var after []byte
	for _, b := range pre.blocks {
		after = append(after, d.Bytes(cfg.Start+int64(b)*int64(pre.bs), pre.bs)...)
	}
	kv := []string{fmt.Sprintf("bs=%d", pre.bs), fmt.Sprintf("csum=%d", b2i(pre.csum)), fmt.Sprintf("pad=%d", b2i(padded)),
		"old=" + hx.Hex(pre.old), "ents=" + strings.Join(pre.ents, ",")}
	if pre.csum {
		// unmasked: the model carries the checksum seed, the directory's inode number and generation
		kv = append(kv, fmt.Sprintf("seed=%d", pre.seed), fmt.Sprintf("ino=%d", pre.ino), fmt.Sprintf("gen=%d", pre.gen))
		c.Stat("dirrewrite.csum-unmasked")
	}
	c.Case(id+"/dw", "ext4.dirrewrite", kv...)
	c.Impl(id+"/dw", "out="+hx.Hex(after))
	c.Stat("dirrewrite")
	if len(pre.blocks) > 1 {
		c.Stat("dirrewrite.multi-block")
	}
}
