package ext4ops

// Finding ext4-mkdir-full-leaves-entry (C05, listed): Mkdir - and Symlink with a target that needs a block - on a
// volume without a free block enters the name into the parent directory, raises the parent's link count and marks an
// inode, and only then fails to allocate the block of the new directory / of the target.

import (
	"fmt"
	"strings"

	x "verif/harness/engines/ext4common"
)

const tagMkdirFull = "ext4-mkdir-full-leaves-entry"

// defMkdirFull: the witness reproduced on the tree under test (set by probeDefects in mode=fsck)
var defMkdirFull bool

// mkdirFullSymptom: trigger = a Mkdir, or a Symlink whose target does not fit the inode, refused for lack of space;
// symptom = e2fsck finds the name in the directory with an inode that was never written
func mkdirFullSymptom(o op, refused error, fout string) bool {
	if refused == nil {
		return false
	}
	// Mkdir hides the cause of the refusal ("failed to create subdirectory <path>")
	if !isSpace(refused) && !(o.kind == "mkdir" && strings.Contains(refused.Error(), "failed to create subdirectory")) {
		return false
	}
	if o.kind != "mkdir" && !(o.kind == "symlink" && len(o.target) >= 60) {
		return false
	}
	return strings.Contains(fout, "has deleted/unused inode") && !strings.Contains(fout, "Block bitmap differences")
}

// witnessMkdirFull: one file takes every free block, then Mkdir(d)
func witnessMkdirFull(scratch string) (bool, string) {
	cfg := x.Config{Name: "witness", Size: 16 * MiB, Journal: x.B(false)}
	d, fs, err, _ := x.Create(cfg)
	if err != nil {
		return false, "cannot create volume: " + err.Error()
	}
	r := newRef()
	rn := &runner{fs: fs, ref: r, bs: 1024}
	if out := rn.exec(op{kind: "create", path: "big"}); out.refused != nil || out.panicked != "" {
		return false, fmt.Sprintf("create: %v %s", out.refused, out.panicked)
	}
	v, err := x.ParseView(d, cfg.Start)
	if err != nil {
		return false, err.Error()
	}
	if out := rn.exec(op{kind: "append", path: "big", chunks: [][]byte{make([]byte, int(v.FreeBlocks)*1024)}}); out.refused != nil || out.panicked != "" {
		return false, fmt.Sprintf("fill: %v %s", out.refused, out.panicked)
	}
	o := op{kind: "mkdir", path: "d"}
	out := rn.exec(o)
	if out.panicked != "" {
		return false, "Mkdir panics: " + out.panicked
	}
	if out.refused == nil {
		return false, "Mkdir on a volume without a free block is accepted"
	}
	ok, fout := x.FsckDev(d, cfg.Start, cfg.Size, scratch, "mf")
	what := fmt.Sprintf("0 blocks free, Mkdir(d) refused (%v); e2fsck clean=%v: %s", out.refused, ok, x.FsckSummary(fout))
	return !ok && mkdirFullSymptom(o, out.refused, fout), what
}
