package ext4ops

// Extent-tree families of the ext4ops engine.
//
//   deeptree<k> (history level): two files are appended alternately, one block per append, so that every append
//     adds one extent to each file's tree: the tree of each file goes from the 4-entry leaf in the inode to an index
//     root over one leaf (5th extent), to several leaves (leaf split under the root), to depth 2 (a fifth leaf under
//     the 4-entry root: the root's children move into two on-disk index nodes) and then splits leaves UNDER an
//     on-disk index node. After every round the tree of file a is re-read FROM THE DEVICE by the engine's own
//     decoder and compared with the Lean tree model (`ext4tree.hist`); every 25 rounds the image goes to e2fsck
//     (mode=fsck) or is re-opened and both files are read back in full (mode=tree).
//
//   exttree (function level, see exttreeUnit.go): extendExtentTree / parseExtents / toBytes through hooks.

import (
	"encoding/binary"
	"fmt"
	"os"
	"strings"

	"github.com/diskfs/go-diskfs/filesystem/ext4"

	x "verif/harness/engines/ext4common"
	"verif/harness/internal/memdev"
)

// dnode is one extent-tree node as the engine's own decoder finds it on the device.
type dnode struct {
	disk    uint64 // block the node was read from (0: the root in the inode)
	max     int
	depth   int
	extents []ext4.V04Extent // depth 0
	keys    []uint32         // depth > 0: file block of each child pointer
	kids    []*dnode         // depth > 0
}

// decodeNode parses one node (independent of the library) and everything below it from the device.
func decodeNode(d *memdev.Dev, start, bs int64, raw []byte, disk uint64, depthWant int) (*dnode, error) {
	le := binary.LittleEndian
	if le.Uint16(raw[0:]) != 0xF30A {
		return nil, fmt.Errorf("block %d: bad extent header magic %#x", disk, le.Uint16(raw[0:]))
	}
	n, max, depth := int(le.Uint16(raw[2:])), int(le.Uint16(raw[4:])), int(le.Uint16(raw[6:]))
	if depthWant >= 0 && depth != depthWant {
		return nil, fmt.Errorf("block %d: extent node depth %d, want %d", disk, depth, depthWant)
	}
	if 12+12*n > len(raw) {
		return nil, fmt.Errorf("block %d: %d entries do not fit the node", disk, n)
	}
	if depth > 5 {
		return nil, fmt.Errorf("block %d: depth %d", disk, depth)
	}
	nd := &dnode{disk: disk, max: max, depth: depth}
	for i := 0; i < n; i++ {
		e := raw[12+12*i:]
		if depth == 0 {
			nd.extents = append(nd.extents, ext4.V04Extent{FileBlock: le.Uint32(e[0:]), Count: le.Uint16(e[4:]),
				Start: uint64(le.Uint32(e[8:])) | uint64(le.Uint16(e[6:]))<<32})
			continue
		}
		child := uint64(le.Uint32(e[4:])) | uint64(le.Uint16(e[8:]))<<32
		if int64(child+1)*bs > int64(d.Size())-start {
			return nil, fmt.Errorf("block %d: child pointer %d beyond the device", disk, child)
		}
		k, err := decodeNode(d, start, bs, d.Bytes(start+int64(child)*bs, int(bs)), child, depth-1)
		if err != nil {
			return nil, err
		}
		nd.keys = append(nd.keys, le.Uint32(e[0:]))
		nd.kids = append(nd.kids, k)
	}
	return nd, nil
}

// decodeInodeTree reads inode ino's extent tree from the image bytes.
func decodeInodeTree(v *x.View, d *memdev.Dev, start int64, ino uint32) (*dnode, error) {
	if ino == 0 || ino > v.InodesCount {
		return nil, fmt.Errorf("inode %d out of range", ino)
	}
	g := int((ino - 1) / v.IPG)
	idx := int64((ino - 1) % v.IPG)
	if g >= len(v.Groups) {
		return nil, fmt.Errorf("inode %d: group %d does not exist", ino, g)
	}
	bs := int64(v.BlockSize)
	raw := d.Bytes(start+int64(v.Groups[g].InodeTable)*bs+idx*int64(v.InodeSize), 128)
	if binary.LittleEndian.Uint32(raw[0x20:])&0x80000 == 0 {
		return nil, fmt.Errorf("inode %d has no extent tree", ino)
	}
	return decodeNode(d, start, bs, raw[0x28:0x28+60], 0, -1)
}

// String is the canonical text of a tree, the same the Lean driver prints (comma separated tokens, prefix notation):
//   leaf:  L,disk,max,n,(fb,start,count)*n        index: I,disk,max,depth,n,(key,<node>)*n
func (n *dnode) String() string {
	var sb strings.Builder
	n.write(&sb)
	return sb.String()
}

func (n *dnode) write(sb *strings.Builder) {
	if n.depth == 0 {
		fmt.Fprintf(sb, "L,%d,%d,%d", n.disk, n.max, len(n.extents))
		for _, e := range n.extents {
			fmt.Fprintf(sb, ",%d,%d,%d", e.FileBlock, e.Start, e.Count)
		}
		return
	}
	fmt.Fprintf(sb, "I,%d,%d,%d,%d", n.disk, n.max, n.depth, len(n.kids))
	for i, k := range n.kids {
		fmt.Fprintf(sb, ",%d,", n.keys[i])
		k.write(sb)
	}
}

func (n *dnode) flat() []ext4.V04Extent {
	if n.depth == 0 {
		return n.extents
	}
	var out []ext4.V04Extent
	for _, k := range n.kids {
		out = append(out, k.flat()...)
	}
	return out
}

// leaves / indexBlocks: how many leaves the tree has, and how many index nodes live in blocks (not in the inode)
func (n *dnode) leaves() int {
	if n.depth == 0 {
		return 1
	}
	s := 0
	for _, k := range n.kids {
		s += k.leaves()
	}
	return s
}

func (n *dnode) treeBlocks() []uint64 {
	var out []uint64
	for _, k := range n.kids {
		out = append(out, k.disk)
		out = append(out, k.treeBlocks()...)
	}
	return out
}

// ---- the invariant of the Lean history theorems (TreeInv, Proofs/Ext4ExtInv.lean) on a decoded tree ------------

func (n *dnode) firstKey() (uint32, bool) {
	if n.depth == 0 {
		if len(n.extents) == 0 {
			return 0, false
		}
		return n.extents[0].FileBlock, true
	}
	if len(n.keys) == 0 {
		return 0, false
	}
	return n.keys[0], true
}

// goodKids: every child one level below, its key the first file block of the child, the child a good block node
func goodKids(n *dnode, bs int64) bool {
	for i, k := range n.kids {
		fk, ok := k.firstKey()
		if k.depth+1 != n.depth || !ok || fk != n.keys[i] || !goodNode(k, bs) {
			return false
		}
	}
	return true
}

// goodNode: a node that lives in a block: fan-out of a block, not over-full, not empty, block number not 0
func goodNode(n *dnode, bs int64) bool {
	cnt := len(n.extents)
	if n.depth > 0 {
		cnt = len(n.kids)
	}
	if n.max != int((bs-12)/12) || cnt > n.max || cnt == 0 || n.disk == 0 {
		return false
	}
	return n.depth == 0 || goodKids(n, bs)
}

// treeInv: the three components of TreeInv - the root in the inode over good nodes, strictly increasing file
// blocks, pairwise distinct node blocks - computed independently of the Lean checker (`ext4tree.inv`)
func treeInv(n *dnode, bs int64) (root, sorted, nodup bool) {
	if n.depth == 0 {
		root = n.max == 4 && n.disk == 0 && len(n.extents) <= 4
	} else {
		root = n.max == 4 && n.disk == 0 && len(n.kids) <= 4 && len(n.kids) > 0 && goodKids(n, bs)
	}
	sorted = true
	flat := n.flat()
	for i := 1; i < len(flat); i++ {
		if flat[i-1].FileBlock >= flat[i].FileBlock {
			sorted = false
		}
	}
	nodup = true
	seen := map[uint64]bool{}
	for _, b := range n.treeBlocks() {
		if seen[b] {
			nodup = false
		}
		seen[b] = true
	}
	return
}

// lcgPick: a picker of its own, so that the damaged copies do not disturb the random stream of the sequences
func lcgPick(seed uint64) func(int) int {
	v := seed*2862933555777941757 + 3037000493
	return func(n int) int {
		v = v*6364136223846793005 + 1442695040888963407
		return int((v >> 33) % uint64(n))
	}
}

func b01(b bool) string {
	if b {
		return "1"
	}
	return "0"
}

func (n *dnode) clone() *dnode {
	c := &dnode{disk: n.disk, max: n.max, depth: n.depth}
	c.extents = append(c.extents, n.extents...)
	c.keys = append(c.keys, n.keys...)
	for _, k := range n.kids {
		c.kids = append(c.kids, k.clone())
	}
	return c
}

func (n *dnode) below() []*dnode {
	var out []*dnode
	for _, k := range n.kids {
		out = append(out, k)
		out = append(out, k.below()...)
	}
	return out
}

// damage returns a copy of the tree with one field changed so that (most of the time) the invariant breaks
func damage(t *dnode, pick func(int) int) (*dnode, string) {
	c := t.clone()
	nodes := c.below()
	all := append([]*dnode{c}, nodes...)
	switch k := pick(7); {
	case k == 0 && len(nodes) > 0:
		nodes[pick(len(nodes))].disk = 0
		return c, "disk0"
	case k == 1 && len(nodes) > 1:
		i := pick(len(nodes) - 1)
		nodes[i+1].disk = nodes[i].disk
		return c, "dupdisk"
	case k == 2 && c.depth > 0:
		var ix []*dnode
		for _, n := range all {
			if n.depth > 0 && len(n.keys) > 0 {
				ix = append(ix, n)
			}
		}
		n := ix[pick(len(ix))]
		n.keys[pick(len(n.keys))] += 1
		return c, "key"
	case k == 3:
		var lv []*dnode
		for _, n := range all {
			if n.depth == 0 && len(n.extents) > 1 {
				lv = append(lv, n)
			}
		}
		if len(lv) > 0 {
			n := lv[pick(len(lv))]
			i := pick(len(n.extents) - 1)
			n.extents[i], n.extents[i+1] = n.extents[i+1], n.extents[i]
			return c, "swap"
		}
	case k == 4:
		n := all[pick(len(all))]
		n.max += 1 + pick(3)
		return c, "max"
	case k == 5 && len(nodes) > 0:
		n := nodes[pick(len(nodes))]
		if n.depth == 0 {
			n.extents = nil
			return c, "empty"
		}
	}
	c.disk = 7 // a root that claims to live in a block
	return c, "rootdisk"
}

// invCase emits the correspondence case of the invariant checker for one tree read from the device
func (n *dnode) invImpl(bs int64) []string {
	r, s, u := treeInv(n, bs)
	return []string{"root=" + b01(r), "sorted=" + b01(s), "nodup=" + b01(u), "inv=" + b01(r && s && u)}
}

// histCases: emit the ext4tree.hist correspondence cases (the Lean driver answers them)
const histCases = true

// ---- deeptree history ------------------------------------------------------------------------------

type deepCfg struct {
	name   string
	cfg    x.Config
	rounds int
	reopen bool // append through a fresh handle every round (the root comes from the inode on disk) or keep two handles
	sparse int  // emit the model case only every `sparse` rounds and when the number of nodes changes (0: every round)
}

func (e *engine) deepTrees() {
	c := e.c
	hs := []deepCfg{
		{name: "deeptree0", cfg: x.Config{Name: "1k-nojournal", Size: 16 * MiB, Journal: x.B(false)}, rounds: 330, reopen: true},
	}
	if c.Thorough() {
		hs = append(hs,
			deepCfg{name: "deeptree1", cfg: x.Config{Name: "1k", Size: 16 * MiB}, rounds: 430, reopen: false},
			deepCfg{name: "deeptree2", cfg: x.Config{Name: "2k-nojournal", Size: 16 * MiB, SPB: 4, Resize: x.B(false), Journal: x.B(false)}, rounds: 530, reopen: true},
		)
		if !e.fsck {
			// through File.Write up to the full second-level index node (finding ext4-extent-node-overfull-panic, listed for C04)
			hs = append(hs, deepCfg{name: "deeptree3", cfg: x.Config{Name: "1k-nojournal", Size: 16 * MiB, Journal: x.B(false)}, rounds: 3700, reopen: false, sparse: 97})
		}
	}
	for _, h := range hs {
		if e.wantHist(h.name) {
			e.deepTree(h)
		}
	}
}

func (e *engine) deepTree(h deepCfg) {
	c := e.c
	cfg := h.cfg
	scratch := c.Scratch
	round := 0
	repro := func() string {
		return fmt.Sprintf("history %s cfg=%s [%s]: create a, b; %d rounds of (append one block to a; append one block to b), reopen=%v",
			h.name, cfg.Name, cfg.String(), round+1, h.reopen)
	}
	d, fs, err, panicked := x.Create(cfg)
	if err != nil {
		c.Fail(h.name+"/create", "-", fmt.Sprintf("Create failed (panic=%v): %v", panicked, err), repro())
		return
	}
	view, verr := x.ParseView(d, cfg.Start)
	if verr != nil {
		c.Fail(h.name+"/create", "-", "cannot parse the superblock Create wrote: "+verr.Error(), repro())
		return
	}
	bs := int(view.BlockSize)
	r := newRef()
	rn := &runner{fs: fs, ref: r, bs: int64(bs)}
	for _, p := range []string{"a", "b"} {
		if out := rn.exec(op{kind: "create", path: p}); out.refused != nil || out.panicked != "" || out.problem != "" {
			c.Fail(h.name+"/create", "-", fmt.Sprintf("create %s: %v %s %s", p, out.refused, out.panicked, out.problem), repro())
			return
		}
	}
	c.Stat("histories.deeptree." + cfg.Name)
	var ha, hb *ext4.File
	if !h.reopen {
		var o outcome
		ha = rn.open("a", os.O_RDWR|os.O_APPEND, &o)
		hb = rn.open("b", os.O_RDWR|os.O_APPEND, &o)
		if ha == nil || hb == nil {
			c.Fail(h.name+"/create", "-", fmt.Sprintf("cannot open the two files: %v %s", o.refused, o.panicked), repro())
			return
		}
	}
	inoA, _ := fs.V04EntryInode("a")
	prev := "-" // canonical text of a's tree on the device before the round
	prevDepth, prevLeaves, prevNodes := 0, 0, 0
	var prevTree *dnode
	block := func(tag byte, k int) []byte {
		b := make([]byte, bs)
		for i := range b {
			b[i] = byte(int(tag) + k*7 + i*3)
		}
		return b
	}
	for round = 0; round < h.rounds; round++ {
		id := fmt.Sprintf("%s/r%d", h.name, round)
		failed := false
		fail := func(tag, msg string) {
			c.Fail(id, tag, fmt.Sprintf("%s round %d: %s", cfg.Name, round, msg), repro())
			failed = true
		}
		appendTo := func(p string, f *ext4.File, tag byte) {
			var out outcome
			if h.reopen {
				out = rn.exec(op{kind: "append", path: p, chunks: [][]byte{block(tag, round)}})
			} else {
				rn.writeChunk(f, r.lookup(p), block(tag, round), &out)
			}
			switch {
			case out.panicked != "":
				tag := "-"
				if p == "a" && asFoundFull && indexFullTrigger(prevTree, 1) && strings.Contains(out.panicked, "slice bounds out of range") {
					tag = tagIndexFull
				}
				fail(tag, fmt.Sprintf("append to %s: panic %s", p, out.panicked))
			case out.refused != nil && p == "a" && !asFoundFull && indexFullTrigger(prevTree, 1) && strings.Contains(out.refused.Error(), "not supported"):
				// the repaired code refuses the append that would split a leaf under a full index node: the history ends here
				c.Stat("deeptree.refused.index-full")
				failed = true
			case out.problem != "":
				fail("-", fmt.Sprintf("append to %s: %s", p, out.problem))
			case out.refused != nil:
				fail("-", fmt.Sprintf("append of one block to %s refused with %d bytes in the file: %v", p, len(r.lookup(p).data), out.refused))
			}
		}
		// the block bitmaps before a's append: what allocateExtents will choose from
		v1, err := x.ParseView(d, cfg.Start)
		if err != nil {
			fail("-", "superblock unreadable: "+err.Error())
			return
		}
		runs := make([]string, v1.GroupCount())
		for g := range runs {
			runs[g] = runsStr(x.FreeRuns(v1.BlockBitmapBytes(g), v1.BlocksInGroup(g)))
		}
		sbfree := v1.FreeBlocks
		// ownership: what a owns before its append (mode=fsck: `ext4own.grow`, incl. the tree's node blocks in i_blocks)
		var opre *ownPre
		if e.fsck && c.Want(id) {
			opre = ownSnapshot(d, cfg.Start, inoA)
		}
		if appendTo("a", ha, 'a'); failed {
			return
		}
		if opre != nil {
			emitOwnGrow(c, id, opre, d, cfg.Start)
		}
		// the tree of a as it is on the device now
		v2, err := x.ParseView(d, cfg.Start)
		if err != nil {
			fail("-", "superblock unreadable: "+err.Error())
			return
		}
		tree, err := decodeInodeTree(v2, d, cfg.Start, inoA)
		if err != nil {
			fail("-", "extent tree of a on the device: "+err.Error())
			return
		}
		if appendTo("b", hb, 'b'); failed {
			return
		}
		cur := tree.String()
		flat := tree.flat()
		// oracle on the device tree: one extent per append, file blocks 0,1,2,... in order
		if len(flat) != round+1 {
			fail("-", fmt.Sprintf("the tree of a on the device maps %d extents after %d appends: %s", len(flat), round+1, short(cur)))
			return
		}
		for i, ex := range flat {
			if int(ex.FileBlock) != i || ex.Count != 1 {
				fail("-", fmt.Sprintf("extent %d of a on the device is %d:%d:%d", i, ex.FileBlock, ex.Start, ex.Count))
				return
			}
		}
		if histCases && c.Want(id) && !e.fsck && (h.sparse == 0 || round%h.sparse == 0 || len(tree.treeBlocks()) != prevNodes) {
			// one block-allocating append = allocateExtents (one block: the fast path) + extendExtentTree: the Lean
			// model gets the tree and the bitmaps before it and must arrive at the tree found on the device afterwards
			c.Case(id, "ext4tree.hist", fmt.Sprintf("bs=%d", bs), "tree="+prev, fmt.Sprintf("fb=%d", round),
				fmt.Sprintf("fdb=%d", v1.FirstDataBlock), fmt.Sprintf("bpg=%d", v1.BPG), fmt.Sprintf("sbfree=%d", sbfree), "runs="+strings.Join(runs, "/"), fullArg())
			c.Impl(id, "tree="+cur, fmt.Sprintf("meta=%d", len(tree.treeBlocks())-prevNodes))
		}
		// the invariant the Lean history theorems preserve holds on the tree the library left on the device
		if r0, s0, u0 := treeInv(tree, int64(bs)); !(r0 && s0 && u0) {
			fail("-", fmt.Sprintf("the tree of a on the device breaks the invariant (root=%v sorted=%v nodup=%v): %s", r0, s0, u0, short(cur)))
			return
		}
		if histCases && !e.fsck && c.Want(id+"/i") && (round%5 == 0 || len(tree.treeBlocks()) != prevNodes) {
			c.Case(id+"/i", "ext4tree.inv", fmt.Sprintf("bs=%d", bs), "tree="+cur)
			c.Impl(id+"/i", tree.invImpl(int64(bs))...)
			dm, what := damage(tree, lcgPick(uint64(round)))
			c.Case(id+"/id", "ext4tree.inv", fmt.Sprintf("bs=%d", bs), "tree="+dm.String())
			c.Impl(id+"/id", dm.invImpl(int64(bs))...)
			c.Stat("exttree.inv.damaged." + what)
		}
		if tree.depth == 2 && prevDepth < 2 {
			c.Stat("ext_depth_2")
		}
		if tree.depth >= 1 && tree.depth == prevDepth && tree.leaves() > prevLeaves {
			if tree.depth >= 2 {
				c.Stat("leaf_split_under_index")
			} else {
				c.Stat("leaf_split_under_root")
			}
		}
		prev, prevDepth, prevLeaves, prevNodes, prevTree = cur, tree.depth, tree.leaves(), len(tree.treeBlocks()), tree
		if round%25 == 24 || round == h.rounds-1 {
			if e.fsck {
				if ok, fout := x.FsckDev(d, cfg.Start, cfg.Size, scratch, "deep"); !ok {
					fail("-", "e2fsck -f -n: "+x.FsckSummary(fout))
					return
				}
				// a View reads the bitmaps lazily: take a fresh one now that both appends are done
				if v3, err := x.ParseView(d, cfg.Start); err != nil {
					fail("-", "superblock unreadable: "+err.Error())
					return
				} else if ok, msg := v3.Acct().Consistent(); !ok {
					fail("-", "counters and bitmaps disagree: "+msg)
					return
				}
			} else {
				if diff := observe(fs, r, true, nil); diff != "" {
					fail("-", "live view differs from the reference tree: "+diff)
					return
				}
				fs2, err := reopen(d, cfg)
				if err != nil {
					fail("-", "ext4.Read of the image failed: "+err.Error())
					return
				}
				if diff := observe(fs2, r, true, nil); diff != "" {
					fail("-", "view after re-opening the image differs from the reference tree: "+diff)
					return
				}
			}
		}
		c.OK(id)
	}
	c.Distinct(fmt.Sprintf("%s|%s|%d|%v", h.name, cfg.Name, h.rounds, h.reopen))
	// the end: remove a (its tree blocks must be released), then check once more
	id := h.name + "/remove"
	// the blocks of the deep file (data and every node block of its depth-2 tree) go to the accounting machine's
	// Remove step, which must arrive at the bitmaps and counters of the image afterwards (`ext4acc.remove`)
	var rpre *rmPre
	if e.fsck && c.Want(id) {
		rpre = e.preRemove(d, cfg, rn, op{kind: "remove", path: "a"})
	}
	if out := rn.exec(op{kind: "remove", path: "a"}); out.refused != nil || out.panicked != "" {
		c.Fail(id, "-", fmt.Sprintf("Remove of the deep file: %v %s", out.refused, out.panicked), repro())
		return
	}
	if e.fsck {
		if ok, fout := x.FsckDev(d, cfg.Start, cfg.Size, scratch, "deep"); !ok {
			c.Fail(id, "-", "e2fsck -f -n after Remove of the deep file: "+x.FsckSummary(fout), repro())
			return
		}
		if va, err := x.ParseView(d, cfg.Start); err == nil && rpre != nil {
			emitRemove(c, id, rpre, va)
			c.Stat("acct.remove-deep-tree")
		}
	} else if diff := observe(fs, r, true, nil); diff != "" {
		c.Fail(id, "-", "after Remove of the deep file: "+diff, repro())
		return
	}
	c.OK(id)
}

