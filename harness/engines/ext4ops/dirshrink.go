package ext4ops

// dirshrink<k> (history level, quick tier): metadata_csum volumes at 1 KiB blocks; one directory gets 90 entries
// (three directory blocks), then most of them are removed again - from the front, from the back, in random order,
// alternately from both ends - so that the re-packed entries need fewer blocks than the directory owns and Remove's
// write-back appends empty directory blocks (each with its own checksum tail, seeded with the DIRECTORY's inode
// number and generation). After EVERY removal the directory is listed through the live handle and compared with
// the reference (a block with a wrong checksum makes the listing fail), every 12 removals the image goes to e2fsck
// (mode=fsck) or is re-opened and compared in full (mode=tree), and once more at the end.
// Stat keys: dir_blocks_gt1, dir_shrunk_below_blocks, csum_dir_multi_block.

import (
	"fmt"

	x "verif/harness/engines/ext4common"
	"verif/harness/internal/hx"
)

type shrinkCfg struct {
	name  string
	cfg   x.Config
	order string // front | back | random | ends
	names int    // length of the names
	keep  int    // entries left at the end
}

func (e *engine) dirShrinks() {
	csum := x.Config{Name: "1k-csum", Size: 16 * MiB, Csum: x.B(true)}
	csumNJ := x.Config{Name: "1k-csum-nojournal-start", Size: 16 * MiB, Start: 3 * MiB, Csum: x.B(true), Journal: x.B(false)}
	plain := x.Config{Name: "1k-nojournal", Size: 16 * MiB, Journal: x.B(false)}
	hs := []shrinkCfg{
		{name: "dirshrink0", cfg: csum, order: "front", names: 20, keep: 3},
		{name: "dirshrink1", cfg: csumNJ, order: "back", names: 20, keep: 0},
		{name: "dirshrink2", cfg: csum, order: "random", names: 24, keep: 5},
		{name: "dirshrink3", cfg: csumNJ, order: "ends", names: 16, keep: 2},
		{name: "dirshrink4", cfg: plain, order: "front", names: 20, keep: 1},
	}
	if e.c.Thorough() {
		k4 := x.Config{Name: "4k-csum-nojournal", Size: 16 * MiB, SPB: 8, Resize: x.B(false), Csum: x.B(true), Journal: x.B(false)}
		hs = append(hs,
			shrinkCfg{name: "dirshrink5", cfg: csum, order: "random", names: 60, keep: 0},
			shrinkCfg{name: "dirshrink6", cfg: k4, order: "front", names: 120, keep: 2},
			shrinkCfg{name: "dirshrink7", cfg: csumNJ, order: "random", names: 8, keep: 10},
		)
	}
	for _, h := range hs {
		rng := e.c.Rng.Fork() // forked whether or not the history is wanted: --only must not shift the later histories
		if e.wantHist(h.name) {
			e.dirShrink(h, rng)
		}
	}
}

func (e *engine) dirShrink(h shrinkCfg, rng *hx.Rng) {
	c := e.c
	cfg := h.cfg
	const entries = 90
	step := ""
	repro := func() string {
		return fmt.Sprintf("history %s cfg=%s [%s]: mkdir d; create %d files with %d-byte names in d; remove them in order %q down to %d (at %s)",
			h.name, cfg.Name, cfg.String(), entries, h.names, h.order, h.keep, step)
	}
	d, fs, err, panicked := x.Create(cfg)
	if err != nil {
		c.Fail(h.name+"/create", "-", fmt.Sprintf("Create failed (panic=%v): %v", panicked, err), repro())
		return
	}
	view, verr := x.ParseView(d, cfg.Start)
	if verr != nil {
		c.Fail(h.name+"/create", "-", "cannot parse the superblock Create wrote: "+verr.Error(), repro())
		return
	}
	bs := int64(view.BlockSize)
	csum := x.On(cfg.Csum, false)
	r := newRef()
	rn := &runner{fs: fs, ref: r, bs: bs}
	c.Stat("histories.dirshrink." + cfg.Name)
	run := func(id string, o op) bool {
		step = o.String()
		// Remove's write-back of the directory: the blocks before the call and the remaining entries go to the Lean
		// model, which must produce the blocks found afterwards - checksum tails included (the empty blocks behind the
		// re-packed entries carry the DIRECTORY's inode number and generation in their checksum)
		var dpre *dirPre
		if !e.fsck && o.kind == "remove" && c.Want(id) {
			dpre = e.preDir(d, cfg, rn, o)
		}
		out := rn.exec(o)
		if dpre != nil && out.panicked == "" && out.refused == nil && !e.def.rmStale {
			emitDirRewrite(c, id, dpre, d, cfg, true)
		}
		switch {
		case out.panicked != "":
			c.Fail(id, "-", fmt.Sprintf("%s: %s: panic %s", cfg.Name, o.String(), out.panicked), repro())
		case out.problem != "":
			c.Fail(id, "-", fmt.Sprintf("%s: %s: %s", cfg.Name, o.String(), out.problem), repro())
		case out.refused != nil:
			c.Fail(id, "-", fmt.Sprintf("%s: %s refused: %v", cfg.Name, o.String(), out.refused), repro())
		default:
			return true
		}
		return false
	}
	if !run(h.name+"/mkdir", op{kind: "mkdir", path: "d"}) {
		return
	}
	var names []string
	for i := 0; i < entries; i++ {
		nm := fmt.Sprintf("f%02d_", i)
		for len(nm) < h.names {
			nm += string(rune('a' + (i+len(nm))%26))
		}
		names = append(names, nm)
		if !run(fmt.Sprintf("%s/c%d", h.name, i), op{kind: "create", path: join("d", nm)}) {
			return
		}
	}
	// what a full check is: e2fsck, or the whole tree live and after re-opening the image
	full := func(id string) bool {
		if e.fsck {
			if ok, fout := x.FsckDev(d, cfg.Start, cfg.Size, c.Scratch, "shrink"); !ok {
				c.Fail(id, "-", fmt.Sprintf("%s after %s: e2fsck -f -n: %s", cfg.Name, step, x.FsckSummary(fout)), repro())
				return false
			}
			return true
		}
		if diff := observe(fs, r, false, map[string]bool{}); diff != "" {
			c.Fail(id, "-", fmt.Sprintf("%s after %s: live view differs from the reference tree: %s", cfg.Name, step, diff), repro())
			return false
		}
		fs2, err := reopen(d, cfg)
		if err != nil {
			c.Fail(id, "-", fmt.Sprintf("%s after %s: ext4.Read of the image failed: %v", cfg.Name, step, err), repro())
			return false
		}
		if diff := observe(fs2, r, false, map[string]bool{}); diff != "" {
			c.Fail(id, "-", fmt.Sprintf("%s after %s: view after re-opening the image differs from the reference tree: %s", cfg.Name, step, diff), repro())
			return false
		}
		return true
	}
	if !full(h.name + "/filled") {
		return
	}
	c.OK(h.name + "/filled")
	owned := parentBlocks(fs, "d/x")
	if owned > 1 {
		c.Stat("dir_blocks_gt1")
		if csum {
			c.Stat("csum_dir_multi_block")
		}
	}
	// the order of removal
	left := append([]string{}, names...)
	next := func(k int) string {
		i := 0
		switch h.order {
		case "back":
			i = len(left) - 1
		case "random":
			i = rng.Intn(len(left))
		case "ends":
			if k%2 == 1 {
				i = len(left) - 1
			}
		}
		nm := left[i]
		left = append(left[:i], left[i+1:]...)
		return nm
	}
	// bytes of a block the entries can use, and of one entry
	room := int(bs)
	if csum {
		room -= 12
	}
	entry := (8 + h.names + 3) / 4 * 4
	shrunk := false
	for k := 0; len(left) > h.keep; k++ {
		id := fmt.Sprintf("%s/r%d", h.name, k)
		nm := next(k)
		if !run(id, op{kind: "remove", path: join("d", nm)}) {
			return
		}
		// the listing of the directory after every removal, through the live handle
		if diff := observeDir(rn, "d"); diff != "" {
			c.Fail(id, "-", fmt.Sprintf("%s after %s (%d entries left, directory of %d blocks): %s", cfg.Name, step, len(left), owned, diff), repro())
			return
		}
		perBlock := room / entry
		need := (len(left) + 2 + perBlock - 1) / perBlock
		if need < owned && !shrunk {
			shrunk = true
			c.Stat("dir_shrunk_below_blocks")
		}
		if now := parentBlocks(fs, "d/x"); now != owned {
			c.Fail(id, "-", fmt.Sprintf("%s after %s: the directory has %d blocks, had %d (a directory never gives blocks back)", cfg.Name, step, now, owned), repro())
			return
		}
		if k%12 == 11 || len(left) == h.keep {
			if !full(id) {
				return
			}
		}
		c.OK(id)
	}
	// the directory is still usable: a new name goes in, everything is checked once more
	if !run(h.name+"/again", op{kind: "create", path: join("d", "again")}) {
		return
	}
	if !full(h.name + "/again") {
		return
	}
	c.OK(h.name + "/again")
	c.Distinct(fmt.Sprintf("%s|%s|%s|%d|%d", h.name, cfg.Name, h.order, h.names, h.keep))
}

// observeDir lists one directory through the live handle and compares it with the reference
func observeDir(rn *runner, dir string) (diff string) {
	defer func() {
		if e := recover(); e != nil {
			diff = fmt.Sprintf("panic while listing %q: %v", dir, e)
		}
	}()
	ents, err := rn.fs.ReadDir(dir)
	if err != nil {
		return fmt.Sprintf("ReadDir(%q): %v", dir, err)
	}
	want := rn.ref.lookup(dir)
	if len(ents) != len(want.kids) {
		return fmt.Sprintf("listing of %q has %d entries, want %d", dir, len(ents), len(want.kids))
	}
	for _, en := range ents {
		if _, ok := want.kids[en.Name()]; !ok {
			return fmt.Sprintf("listing of %q shows %q, which was removed or never created", dir, short(en.Name()))
		}
	}
	return ""
}
