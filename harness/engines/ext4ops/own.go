package ext4ops

// Ownership correspondence (Lean: Model/Ext4/Own.lean, theorems ownership_inv / remove_guard_from_ownership in
// Props/C05.lean): around every operation that makes an existing file grow - and every round of the deeptree
// histories, where the growth includes the node blocks of the extent tree at depth 1 and 2 - the engine decodes the
// file's inode from the image (data extents, extent-tree node blocks, i_blocks) before and after the call. The Lean
// machine gets the image before (bitmaps, counters), the blocks the file owned and the blocks it owns in addition
// afterwards, carries out its `grow` step (the file takes these blocks from the allocator; i_blocks goes up by
// their number) and must arrive at the bitmaps, counters and i_blocks found in the image afterwards, with the
// ownership invariant (owned blocks pairwise distinct and marked, i_blocks = number of owned blocks, counters =
// bitmaps) holding before and after (`ext4own.grow`).

import (
	"encoding/binary"
	"fmt"
	"sort"

	x "verif/harness/engines/ext4common"
	"verif/harness/internal/hx"
	"verif/harness/internal/memdev"
)

type ownPre struct {
	view    *x.View
	ino     uint32
	blocks  []uint64 // every block the file owns: data blocks and extent-tree node blocks
	iblocks uint64   // i_blocks in filesystem blocks
	bbm     string
	inv     bool   // the ownership invariant on this snapshot (evaluated at once: a View reads the device lazily)
	gfb     string
	sbfb    uint64
	bruns   string
}

// inodeIBlocks: the inode's i_blocks in filesystem blocks (the field counts 512-byte units unless HUGE_FILE_FL)
func inodeIBlocks(v *x.View, d *memdev.Dev, start int64, ino uint32) (uint64, bool) {
	if ino == 0 || ino > v.InodesCount {
		return 0, false
	}
	g := int((ino - 1) / v.IPG)
	if g >= len(v.Groups) {
		return 0, false
	}
	bs := int64(v.BlockSize)
	raw := d.Bytes(start+int64(v.Groups[g].InodeTable)*bs+int64((ino-1)%v.IPG)*int64(v.InodeSize), 128)
	le := binary.LittleEndian
	n := uint64(le.Uint32(raw[0x1C:])) | uint64(le.Uint16(raw[0x74:]))<<32
	if le.Uint32(raw[0x20:])&0x40000 != 0 {
		return n, true
	}
	per := uint64(bs / 512)
	return n / per, n%per == 0
}

func ownedOf(v *x.View, d *memdev.Dev, start int64, ino uint32) ([]uint64, error) {
	data, tree, err := inodeBlocks(v, d, start, ino)
	if err != nil {
		return nil, err
	}
	var out []uint64
	for _, r := range append(data, tree...) {
		for i := 0; i < r.Count; i++ {
			out = append(out, uint64(r.Pos+i))
		}
	}
	return out, nil
}

func ownSnapshot(d *memdev.Dev, start int64, ino uint32) *ownPre {
	v, err := x.ParseView(d, start)
	if err != nil {
		return nil
	}
	blocks, err := ownedOf(v, d, start, ino)
	if err != nil || len(blocks) > 3000 {
		return nil
	}
	ib, ok := inodeIBlocks(v, d, start, ino)
	if !ok {
		return nil
	}
	return &ownPre{view: v, ino: ino, blocks: blocks, iblocks: ib, bbm: bitmapsHex(v, false), inv: ownInvGo(v, blocks, ib),
		gfb: u32sOf(v, func(g x.Group) uint32 { return g.FreeBlocks }), sbfb: v.FreeBlocks, bruns: freeRunsAll(v, false)}
}

func (e *engine) preOwn(d *memdev.Dev, cfg x.Config, rn *runner, o op) *ownPre {
	defer func() { recover() }()
	if o.kind != "write" && o.kind != "append" {
		return nil
	}
	if n := rn.ref.lookup(o.path); n == nil || n.kind != kFile {
		return nil
	}
	ino, err := rn.fs.V04EntryInode(o.path)
	if err != nil || ino == 0 {
		return nil
	}
	return ownSnapshot(d, cfg.Start, ino)
}

// absRuns: sorted single blocks -> "start+count" runs that do not cross a block group boundary
func absRuns(blocks []uint64, fdb, bpg uint64) string {
	bs := append([]uint64(nil), blocks...)
	sort.Slice(bs, func(i, j int) bool { return bs[i] < bs[j] })
	var rs []x.Run
	for _, b := range bs {
		if n := len(rs); n > 0 && uint64(rs[n-1].Pos+rs[n-1].Count) == b && (b-fdb)%bpg != 0 {
			rs[n-1].Count++
			continue
		}
		rs = append(rs, x.Run{Pos: int(b), Count: 1})
	}
	return runsStr(rs)
}

// ownInvGo: the ownership invariant for one file on an image, evaluated by the engine
func ownInvGo(v *x.View, blocks []uint64, iblocks uint64) bool {
	seen := map[uint64]bool{}
	for _, b := range blocks {
		if seen[b] || b < uint64(v.FirstDataBlock) {
			return false
		}
		seen[b] = true
		g := int((b - uint64(v.FirstDataBlock)) / uint64(v.BPG))
		p := (b - uint64(v.FirstDataBlock)) % uint64(v.BPG)
		if g >= len(v.Groups) || v.BlockBitmapBytes(g)[p/8]>>(p%8)&1 == 0 {
			return false
		}
	}
	ok, _ := v.Acct().Consistent()
	return ok && iblocks == uint64(len(blocks))
}

// emitOwnGrow: the file of `pre` after an operation that may have made it grow
func emitOwnGrow(c *hx.Ctx, id string, pre *ownPre, d *memdev.Dev, start int64) {
	post := ownSnapshot(d, start, pre.ino)
	if post == nil || len(post.view.Groups) != len(pre.view.Groups) {
		return
	}
	had := map[uint64]bool{}
	for _, b := range pre.blocks {
		had[b] = true
	}
	var added []uint64
	kept := 0
	for _, b := range post.blocks {
		if had[b] {
			kept++
		} else {
			added = append(added, b)
		}
	}
	if kept != len(pre.blocks) || len(added) == 0 {
		return // nothing new, or the file gave blocks back: not a grow step
	}
	v := pre.view
	fdb, bpg := uint64(v.FirstDataBlock), uint64(v.BPG)
	c.Case(id+"/own", "ext4own.grow",
		fmt.Sprintf("fdb=%d", v.FirstDataBlock), fmt.Sprintf("bpg=%d", v.BPG), fmt.Sprintf("sbfb=%d", pre.sbfb),
		"gfb="+pre.gfb, "bbm="+pre.bbm,
		fmt.Sprintf("ino=%d", pre.ino), fmt.Sprintf("iblocks=%d", pre.iblocks), "blocks="+absRuns(pre.blocks, fdb, bpg),
		fmt.Sprintf("n=%d", len(added)), "new="+absRuns(added, fdb, bpg))
	a := post.view
	c.Impl(id+"/own", "ok=1", fmt.Sprintf("pre=%d", b2i(pre.inv)),
		fmt.Sprintf("sbfb=%d", post.sbfb), "gfb="+post.gfb,
		"bruns="+post.bruns, fmt.Sprintf("iblocks=%d", post.iblocks), fmt.Sprintf("owned=%d", len(post.blocks)),
		fmt.Sprintf("inv=%d", b2i(post.inv)))
	c.Stat("own.grow")
	data, tree, _ := inodeBlocks(a, d, start, pre.ino)
	_ = data
	if len(tree) > 0 {
		c.Stat("own.grow.with-tree-blocks")
	}
	if len(added) > 1 {
		c.Stat("own.grow.multi")
	}
}
