package ext4ops

import (
	"os"
	"path"
	"sort"
	"strings"
	"time"
)

// The in-memory reference tree of property C04: what a plain tree of files,
// directories and symlinks looks like after the same calls.

const (
	kFile = iota
	kDir
	kLink
)

type node struct {
	kind   int
	kids   map[string]*node
	data   []byte
	target string
	// attributes are compared only once a call changed them ("the changed attributes")
	hasMode          bool
	mode             os.FileMode // permission bits + setuid/setgid/sticky
	hasUID, hasGID   bool
	uid, gid         uint32
	hasTimes         bool
	ctime, atime, mt time.Time
}

func newDir() *node { return &node{kind: kDir, kids: map[string]*node{}} }

type ref struct{ root *node }

func newRef() *ref { return &ref{root: newDir()} }

func split(p string) []string {
	if p == "." || p == "" {
		return nil
	}
	return strings.Split(p, "/")
}

func (r *ref) lookup(p string) *node {
	n := r.root
	for _, s := range split(p) {
		if n.kind != kDir {
			return nil
		}
		n = n.kids[s]
		if n == nil {
			return nil
		}
	}
	return n
}

func (r *ref) parent(p string) (*node, string) {
	d := path.Dir(p)
	return r.lookup(d), path.Base(p)
}

// walk lists every path (io/fs style, "." excluded) in sorted order.
func (r *ref) walk() []string {
	var out []string
	var rec func(prefix string, n *node)
	rec = func(prefix string, n *node) {
		names := make([]string, 0, len(n.kids))
		for k := range n.kids {
			names = append(names, k)
		}
		sort.Strings(names)
		for _, k := range names {
			p := k
			if prefix != "" {
				p = prefix + "/" + k
			}
			out = append(out, p)
			if n.kids[k].kind == kDir {
				rec(p, n.kids[k])
			}
		}
	}
	rec("", r.root)
	return out
}

func (r *ref) dirs() []string {
	out := []string{"."}
	for _, p := range r.walk() {
		if r.lookup(p).kind == kDir {
			out = append(out, p)
		}
	}
	return out
}

func (r *ref) ofKind(k int) []string {
	var out []string
	for _, p := range r.walk() {
		if r.lookup(p).kind == k {
			out = append(out, p)
		}
	}
	return out
}

func (r *ref) totalBytes() int {
	t := 0
	for _, p := range r.walk() {
		t += len(r.lookup(p).data)
	}
	return t
}

// mkdirAll mirrors `mkdir -p`; false if a component exists and is not a directory.
func (r *ref) mkdirAll(p string) bool {
	n := r.root
	for _, s := range split(p) {
		c := n.kids[s]
		if c == nil {
			c = newDir()
			n.kids[s] = c
		} else if c.kind != kDir {
			return false
		}
		n = c
	}
	return true
}

func spliceAt(old []byte, off int64, data []byte) []byte {
	end := off + int64(len(data))
	if int64(len(old)) < end {
		nb := make([]byte, end)
		copy(nb, old)
		old = nb
	}
	copy(old[off:], data)
	return old
}

// resolve follows a symlink the way the library's Chmod/Chown/OpenFile do (target relative to the link's directory).
func (r *ref) resolve(p string, depth int) (string, *node) {
	n := r.lookup(p)
	if n == nil || n.kind != kLink || depth > 8 {
		return p, n
	}
	t := n.target
	if !path.IsAbs(t) {
		t = path.Clean(path.Join(path.Dir(p), t))
	}
	return r.resolve(t, depth+1)
}
