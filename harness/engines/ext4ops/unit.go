package ext4ops

import (
	"encoding/hex"
	"fmt"
	"io"
	"os"
	"sort"
	"strings"

	"github.com/diskfs/go-diskfs/filesystem/ext4"
	"github.com/diskfs/go-diskfs/util/bitmap"

	x "verif/harness/engines/ext4common"
	"verif/harness/internal/hx"
	"verif/harness/internal/memdev"
)

// ---- known-defect witnesses -----------------------------------------------------------

func smallVolume() (x.Config, *memdev.Dev, *ext4.FileSystem, error) {
	cfg := x.Config{Name: "witness", Size: 16 * MiB}
	d, fs, err, _ := x.Create(cfg)
	return cfg, d, fs, err
}

// witnessSkip: two files grown alternately in 1500-byte steps (the third write starts inside block 2,
// where the first extent of the file ends).
func witnessSkip() (reproduced bool, msg string) {
	_, _, fs, err := smallVolume()
	if err != nil {
		return false, "cannot create volume: " + err.Error()
	}
	f1, e1 := fs.OpenFile("f1", os.O_CREATE|os.O_RDWR)
	f2, e2 := fs.OpenFile("f2", os.O_CREATE|os.O_RDWR)
	if e1 != nil || e2 != nil {
		return false, fmt.Sprintf("cannot create files: %v %v", e1, e2)
	}
	for i := 0; i < 4; i++ {
		for _, f := range []*ext4.File{f1.(*ext4.File), f2.(*ext4.File)} {
			off := f.V04Offset()
			var werr error
			p := catch(func() { _, werr = f.Write(make([]byte, 1500)) })
			if p != "" {
				trig := skipTrigger(f.V04Extents(), 1024, f.V04Offset())
				return strings.Contains(p, "makeslice") && trig, fmt.Sprintf("round %d: Write of 1500 bytes at offset %d panics: %s (extent ending at the start block: %v)", i, off, p, trig)
			}
			if werr != nil {
				return false, "write refused: " + werr.Error()
			}
		}
	}
	return false, "four alternating rounds of 1500-byte writes succeed"
}

// witnessRemoveTree: after Remove the wrong inode bit is clear, so the next create re-uses a live inode.
func witnessRemoveTree() (reproduced bool, msg string) {
	_, _, fs, err := smallVolume()
	if err != nil {
		return false, "cannot create volume: " + err.Error()
	}
	r := newRef()
	rn := &runner{fs: fs, ref: r, bs: 1024}
	for _, o := range []op{
		{kind: "create", path: "f1"}, {kind: "create", path: "f2"},
		{kind: "append", path: "f2", chunks: [][]byte{[]byte(strings.Repeat("keep", 300))}},
		{kind: "remove", path: "f1"}, {kind: "create", path: "f3"},
	} {
		if out := rn.exec(o); out.refused != nil || out.panicked != "" || out.problem != "" {
			return false, fmt.Sprintf("%s: %v %s %s", o, out.refused, out.panicked, out.problem)
		}
	}
	if diff := observe(fs, r, false, nil); diff != "" {
		return true, "create f1, f2 (1200 bytes), remove f1, create f3: " + diff
	}
	return false, "tree intact after remove + create"
}

// witnessRemoveFsck: Remove of a 5000-byte file leaves the image dirty.
func witnessRemoveFsck(scratch string) (dirty bool, msg string) {
	cfg, d, fs, err := smallVolume()
	if err != nil {
		return false, "cannot create volume: " + err.Error()
	}
	r := newRef()
	rn := &runner{fs: fs, ref: r, bs: 1024}
	for _, o := range []op{
		{kind: "mkdir", path: "a"}, {kind: "create", path: "a/f1"},
		{kind: "append", path: "a/f1", chunks: [][]byte{make([]byte, 5000)}},
		{kind: "create", path: "a/f2"},
	} {
		if out := rn.exec(o); out.refused != nil || out.panicked != "" {
			return false, fmt.Sprintf("%s: %v %s", o, out.refused, out.panicked)
		}
	}
	if ok, out := x.FsckDev(d, cfg.Start, cfg.Size, scratch, "w"); !ok {
		return false, "dirty before Remove: " + x.FsckSummary(out)
	}
	if out := rn.exec(op{kind: "remove", path: "a/f1"}); out.refused != nil || out.panicked != "" {
		return false, fmt.Sprintf("remove: %v %s", out.refused, out.panicked)
	}
	ok, out := x.FsckDev(d, cfg.Start, cfg.Size, scratch, "w")
	if ok {
		return false, "clean after Remove of a 5000-byte file"
	}
	return true, "mkdir a, create a/f1 (5000 bytes), create a/f2, Remove a/f1: " + x.FsckSummary(out)
}

// witnessLeak: with no free block left, creating a name in a full directory block allocates an inode,
// fails to grow the directory and leaves the inode marked.
func witnessLeak(scratch string) (dirty bool, msg string) {
	cfg := x.Config{Name: "witness", Size: 16 * MiB, Journal: x.B(false)}
	d, fs, err, _ := x.Create(cfg)
	if err != nil {
		return false, "cannot create volume: " + err.Error()
	}
	r := newRef()
	rn := &runner{fs: fs, ref: r, bs: 1024}
	if out := rn.exec(op{kind: "create", path: "big"}); out.refused != nil {
		return false, "create: " + out.refused.Error()
	}
	// fill every free block with one write (at most one extent per group: the extent tree stays in the inode)
	v, err := x.ParseView(d, cfg.Start)
	if err != nil {
		return false, err.Error()
	}
	if out := rn.exec(op{kind: "append", path: "big", chunks: [][]byte{make([]byte, int(v.FreeBlocks)*1024)}}); out.refused != nil || out.panicked != "" {
		return false, fmt.Sprintf("fill: %v %s", out.refused, out.panicked)
	}
	if ok, out := x.FsckDev(d, cfg.Start, cfg.Size, scratch, "w"); !ok {
		return false, "dirty after filling: " + x.FsckSummary(out)
	}
	long := strings.Repeat("n", 200)
	for i := 0; i < 12; i++ {
		o := op{kind: "create", path: fmt.Sprintf("%s%d", long, i)}
		out := rn.exec(o)
		if out.panicked != "" {
			return false, "panic " + out.panicked
		}
		if out.refused != nil {
			ok, fo := x.FsckDev(d, cfg.Start, cfg.Size, scratch, "w")
			if ok {
				return false, "clean after the refused create: " + out.refused.Error()
			}
			return strings.Contains(fo, "Inode bitmap differences"), fmt.Sprintf("volume full, create #%d refused (%v): %s", i, out.refused, x.FsckSummary(fo))
		}
	}
	return false, "no create was refused"
}

// witnessWrap: a 255-byte name is written into the directory, after which the directory cannot be read.
func witnessWrap() (bool, string) {
	_, _, fs, err := smallVolume()
	if err != nil {
		return false, "cannot create volume: " + err.Error()
	}
	name := strings.Repeat("n", 255)
	var oerr error
	if p := catch(func() {
		f, e := fs.OpenFile(name, os.O_CREATE|os.O_RDWR)
		oerr = e
		if e == nil {
			f.Close()
		}
	}); p != "" {
		return strings.Contains(p, "slice bounds out of range [8:"), "creating a 255-byte name panics: " + p
	}
	if oerr != nil {
		return false, "255-byte name refused: " + oerr.Error()
	}
	var lerr error
	if p := catch(func() { _, lerr = fs.ReadDir(".") }); p != "" {
		return strings.Contains(p, "slice bounds out of range [8:"), "after creating a file with a 255-byte name ReadDir(.) panics: " + p
	}
	if lerr != nil {
		return false, "ReadDir: " + lerr.Error()
	}
	return false, "a 255-byte name is listed"
}

// witnessRmLink: Remove of a symlink whose target is stored in the inode (shorter than 60 bytes).
func witnessRmLink() (bool, string) {
	_, _, fs, err := smallVolume()
	if err != nil {
		return false, "cannot create volume: " + err.Error()
	}
	if err := fs.Symlink("target", "s1"); err != nil {
		return false, "Symlink: " + err.Error()
	}
	var rerr error
	if p := catch(func() { rerr = fs.Remove("s1") }); p != "" {
		return strings.Contains(p, "nil pointer"), "Symlink(target, s1); Remove(s1) panics: " + p
	}
	return false, fmt.Sprintf("Remove of an inline symlink returns %v", rerr)
}

// witnessExtCsum: with metadata_csum a file whose extent tree has an on-disk leaf block fails e2fsck's checksum test.
func witnessExtCsum(scratch string) (bool, string) {
	cfg := x.Config{Name: "witness", Size: 16 * MiB, Csum: x.B(true), Journal: x.B(false)}
	d, fs, err, _ := x.Create(cfg)
	if err != nil {
		return false, "cannot create volume: " + err.Error()
	}
	r := newRef()
	rn := &runner{fs: fs, ref: r, bs: 1024}
	ops := []op{{kind: "create", path: "f1"}, {kind: "create", path: "f2"}}
	for i := 0; i < 6; i++ {
		ops = append(ops, op{kind: "append", path: "f1", chunks: [][]byte{make([]byte, 2048)}}, op{kind: "append", path: "f2", chunks: [][]byte{make([]byte, 2048)}})
	}
	for _, o := range ops {
		if out := rn.exec(o); out.refused != nil || out.panicked != "" {
			return false, fmt.Sprintf("%s: %v %s", o, out.refused, out.panicked)
		}
	}
	ok, out := x.FsckDev(d, cfg.Start, cfg.Size, scratch, "w")
	if ok {
		return false, "clean with metadata_csum and 6-extent files"
	}
	return strings.Contains(out, "checksum does not match extent"), "metadata_csum, two files grown alternately in six 2048-byte steps (extent tree depth 1): " + x.FsckSummary(out)
}

// witnessLongLink: a symlink whose target does not fit into one block is accepted and written over several blocks.
func witnessLongLink(scratch string) (bool, string) {
	cfg, d, fs, err := smallVolume()
	if err != nil {
		return false, "cannot create volume: " + err.Error()
	}
	target := "z" + strings.Repeat("a", 1499)
	var serr error
	if p := catch(func() { serr = fs.Symlink(target, "s1") }); p != "" {
		return false, "Symlink panics: " + p
	}
	if serr != nil {
		return false, "a 1500-byte target on 1 KiB blocks is refused: " + serr.Error()
	}
	ok, out := x.FsckDev(d, cfg.Start, cfg.Size, scratch, "w")
	if ok {
		return false, "clean"
	}
	return strings.Contains(out, "is invalid"), "Symlink with a 1500-byte target on 1 KiB blocks is accepted: " + x.FsckSummary(out)
}

// safely runs a witness: a panic outside the witness's own expectation means "not reproduced as recorded"
// (the histories then report what is wrong).
func safely(f func() (bool, string)) (ok bool, msg string) {
	defer func() {
		if e := recover(); e != nil {
			ok, msg = false, fmt.Sprintf("witness could not be replayed: panic %v", e)
		}
	}()
	return f()
}

// witnessStale: a write that starts beyond EOF into a block that held other bytes before exposes those bytes.
func witnessStale() (bool, string) {
	cfg, d, fs, err := smallVolume()
	if err != nil {
		return false, "cannot create volume: " + err.Error()
	}
	ex, err := fs.V04AllocateExtents(1024, nil, false)
	if err != nil || len(ex) != 1 {
		return false, fmt.Sprintf("cannot allocate a block: %v", err)
	}
	junk := make([]byte, 1024)
	for i := range junk {
		junk[i] = 0xAA
	}
	d.RawWrite(junk, cfg.Start+int64(ex[0].Start)*1024)
	if err := fs.V04DeallocateExtents(ex); err != nil {
		return false, "cannot release the block: " + err.Error()
	}
	r := newRef()
	rn := &runner{fs: fs, ref: r, bs: 1024}
	for _, o := range []op{{kind: "create", path: "f1"}, {kind: "write", path: "f1", off: 500, chunks: [][]byte{[]byte("0123456789")}}} {
		if out := rn.exec(o); out.refused != nil || out.panicked != "" || out.problem != "" {
			return false, fmt.Sprintf("%s: %v %s %s", o, out.refused, out.panicked, out.problem)
		}
	}
	if diff := observe(fs, r, false, nil); diff != "" {
		return strings.Contains(diff, "want 0x0)"), "a block filled with 0xAA is released; create f1, write 10 bytes at offset 500: " + diff
	}
	return false, "bytes before the write offset read as zero"
}

// witnessStaleLink: a symlink target written into a block that held other bytes before keeps those bytes behind it.
func witnessStaleLink(scratch string) (bool, string) {
	cfg, d, fs, err := smallVolume()
	if err != nil {
		return false, "cannot create volume: " + err.Error()
	}
	ex, err := fs.V04AllocateExtents(1024, nil, false)
	if err != nil || len(ex) != 1 {
		return false, fmt.Sprintf("cannot allocate a block: %v", err)
	}
	junk := make([]byte, 1024)
	for i := range junk {
		junk[i] = 0xAA
	}
	d.RawWrite(junk, cfg.Start+int64(ex[0].Start)*1024)
	if err := fs.V04DeallocateExtents(ex); err != nil {
		return false, "cannot release the block: " + err.Error()
	}
	if err := fs.Symlink("z"+strings.Repeat("b", 99), "s1"); err != nil {
		return false, "Symlink: " + err.Error()
	}
	ok, out := x.FsckDev(d, cfg.Start, cfg.Size, scratch, "w")
	if ok {
		return false, "clean"
	}
	return strings.Contains(out, "is invalid"), "a block filled with 0xAA is released, then Symlink with a 100-byte target re-uses it: " + x.FsckSummary(out)
}

// trailTrigger is the trigger predicate of finding ext4-write-trailing-empty-writes: the write crosses the end
// of an extent (so no single WriteAt takes the whole buffer) and an extent at or behind the end of the written
// range would be addressed below device offset 0.
func trailTrigger(ex []ext4.V04Extent, bs, off int64, n int) bool {
	end := off + int64(n)
	crosses, negative := false, false
	for _, e := range ex {
		eend := (int64(e.FileBlock) + int64(e.Count)) * bs
		if off/bs < int64(e.FileBlock)+int64(e.Count) && eend < end {
			crosses = true
		}
		if end <= int64(e.FileBlock)*bs && int64(e.Start)*bs+end < int64(e.FileBlock)*bs {
			negative = true
		}
	}
	return crosses && negative
}

// witnessTrail: a 1024-byte write at offset 512 into a three-extent file whose last extent lies at a lower
// device block than its file block: both halves are written, then an empty WriteAt at a negative offset fails.
func witnessTrail() (bool, string) {
	es := []ext4.V04Extent{{FileBlock: 0, Start: 5, Count: 1}, {FileBlock: 1, Start: 7, Count: 2}, {FileBlock: 3, Start: 1, Count: 1}}
	d := memdev.New(64 * 1024)
	fl := ext4.V04SyntheticFile(d, 1024, es, 4096, 8, 512, 40)
	data := make([]byte, 1024)
	for i := range data {
		data[i] = byte(i%250 + 1)
	}
	var wn int
	var werr error
	if p := catch(func() { wn, werr = fl.Write(data) }); p != "" {
		return false, "Write panics: " + p
	}
	if werr == nil {
		return false, "a write crossing an extent boundary in front of a low-placed extent succeeds"
	}
	landed := string(d.Bytes(5*1024+512, 512)) == string(data[:512]) && string(d.Bytes(7*1024, 512)) == string(data[512:])
	return strings.Contains(werr.Error(), "negative offset") && wn == 1024 && landed,
		fmt.Sprintf("extents %s, 1 KiB blocks, Write of 1024 bytes at offset 512 returns (%d, %v) although every byte is on the device (%v)", extStr(es), wn, werr, landed)
}

// deallocTrigger is the trigger predicate of finding ext4-dealloc-block-group: the first data block is 0 (2 or
// 4 KiB blocks) and an extent contains the first block of a group other than the first.
func deallocTrigger(v *x.View, ex []ext4.V04Extent) bool {
	if v.FirstDataBlock != 0 {
		return false
	}
	for _, e := range ex {
		for b := e.Start; b < e.Start+uint64(e.Count); b++ {
			if b > 0 && b%uint64(v.BPG) == 0 {
				return true
			}
		}
	}
	return false
}

// witnessDealloc: on a volume with 2 KiB blocks and groups of 2048 blocks, an extent that contains the first
// block of a group is allocated and released again: the counters no longer match the bitmaps.
func witnessDealloc() (bool, string) {
	cfg := x.Config{Name: "witness", Size: 16 * MiB, SPB: 4, BPG: 2048, Resize: x.B(false), Journal: x.B(false)}
	d, fs, err, _ := x.Create(cfg)
	if err != nil {
		return false, "cannot create volume: " + err.Error()
	}
	v, err := x.ParseView(d, cfg.Start)
	if err != nil {
		return false, err.Error()
	}
	for i := 0; i < 64; i++ {
		got, aerr := fs.V04AllocateExtents(300*uint64(v.BlockSize), nil, false)
		if aerr != nil {
			break
		}
		if !deallocTrigger(v, got) {
			continue
		}
		derr := fs.V04DeallocateExtents(got)
		v2, err := x.ParseView(d, cfg.Start)
		if err != nil {
			return false, err.Error()
		}
		ok, m := v2.Acct().Consistent()
		if derr != nil {
			return strings.Contains(derr.Error(), "could not clear block bitmap"), fmt.Sprintf("2 KiB blocks, 2048 blocks per group: deallocateExtents(%s) fails: %v", extStr(got), derr)
		}
		if !ok {
			return true, fmt.Sprintf("2 KiB blocks, 2048 blocks per group: allocateExtents returns %s (contains the first block of a group); after deallocateExtents of it: %s", extStr(got), m)
		}
		return false, "releasing an extent that contains the first block of a group keeps the counters right"
	}
	return false, "no extent containing the first block of a group was handed out"
}

// asFoundDealloc: deallocateExtents takes the group of a block as (block-1)/blocksPerGroup (set by the witness)
var asFoundDealloc bool

// witnessRmStale: five files with 200-byte names in the root of a 1 KiB-block volume need two directory blocks;
// after Remove of the first the rest fits into one block, and the second block keeps its old entry.
func witnessRmStale(scratch string, fsck bool) (bool, string) {
	cfg, d, fs, err := smallVolume()
	if err != nil {
		return false, "cannot create volume: " + err.Error()
	}
	r := newRef()
	rn := &runner{fs: fs, ref: r, bs: 1024}
	var ops []op
	for i := 1; i <= 5; i++ {
		ops = append(ops, op{kind: "create", path: fmt.Sprintf("f%d_%s", i, strings.Repeat("n", 197))})
	}
	ops = append(ops, op{kind: "remove", path: ops[0].path})
	for _, o := range ops {
		if out := rn.exec(o); out.refused != nil || out.panicked != "" || out.problem != "" {
			return false, fmt.Sprintf("%s: %v %s %s", o, out.refused, out.panicked, out.problem)
		}
	}
	what := "five files with 200-byte names in the root (two directory blocks), Remove of the first (the rest fits one block): "
	if fsck {
		ok, out := x.FsckDev(d, cfg.Start, cfg.Size, scratch, "w")
		if ok {
			return false, "clean after Remove from a two-block directory"
		}
		return staleDirFsck(out), what + x.FsckSummary(out)
	}
	if diff := observe(fs, r, false, nil); diff != "" {
		return strings.Contains(diff, "listing of") || strings.Contains(diff, "ReadDir("), what + short(diff)
	}
	return false, "listing right after Remove from a two-block directory"
}

// witnessDirShrink: a two-block root directory loses a name (the rest fits one block, the directory keeps both),
// then a name is created in it: writeDirectory sets i_size and i_blocks to one block.
func witnessDirShrink(scratch string) (bool, string) {
	cfg, d, fs, err := smallVolume()
	if err != nil {
		return false, "cannot create volume: " + err.Error()
	}
	r := newRef()
	rn := &runner{fs: fs, ref: r, bs: 1024}
	var ops []op
	for i := 1; i <= 5; i++ {
		ops = append(ops, op{kind: "create", path: fmt.Sprintf("f%d_%s", i, strings.Repeat("n", 197))})
	}
	ops = append(ops, op{kind: "remove", path: ops[0].path}, op{kind: "create", path: "x"})
	for _, o := range ops {
		if out := rn.exec(o); out.refused != nil || out.panicked != "" || out.problem != "" {
			return false, fmt.Sprintf("%s: %v %s %s", o, out.refused, out.panicked, out.problem)
		}
	}
	ok, out := x.FsckDev(d, cfg.Start, cfg.Size, scratch, "w")
	if ok {
		return false, "clean after a create in a directory with a spare block"
	}
	return strings.Contains(out, "Inode 2, i_size is"), "five files with 200-byte names in the root (two directory blocks), Remove of the first, create x: " + x.FsckSummary(out)
}

// asFoundTrail: File.Write leaves its loop only when one WriteAt took the whole buffer (set by the witness);
// the Lean mirror runs with the same switch (cum=0) so that the correspondence is exact on either tree.
var asFoundTrail bool

// staleDirFsck: what e2fsck says about a directory block that still holds entries of names that were moved to an
// earlier block (the inode is then entered twice) or removed (the entry names a released inode)
func staleDirFsck(out string) bool {
	return strings.Contains(out, "ref count is") || strings.Contains(out, "Duplicate") || strings.Contains(out, "duplicate") ||
		strings.Contains(out, "deleted/unused inode") || strings.Contains(out, "Unattached") || strings.Contains(out, "unattached")
}

// asFoundStale: File.Write does not zero the gap in front of a write past EOF (set by the witness); the Lean
// mirror zero-fills exactly when the tree under test does (zf).
var asFoundStale bool

func (e *engine) probeDefects() {
	c := e.c
	if c.Only != "" && !strings.HasPrefix(c.Only, "finding") {
		// replaying a single case: still need to know which defects are present
	}
	var m string
	e.def.skip, m = safely(witnessSkip)
	asFoundLt = e.def.skip
	if !e.fsck {
		c.Known(tagSkip, e.def.skip, m)
	}
	treeBroken, tm := safely(witnessRemoveTree)
	dirty, fm := safely(func() (bool, string) { return witnessRemoveFsck(c.Scratch) })
	e.def.remove = treeBroken || dirty
	e.def.wrap, m = safely(witnessWrap)
	if !e.fsck {
		c.Known(tagWrap, e.def.wrap, m)
	}
	e.def.rmLink, m = safely(witnessRmLink)
	if !e.fsck {
		c.Known(tagRmLink, e.def.rmLink, m)
	}
	e.def.stale, m = safely(witnessStale)
	asFoundStale = e.def.stale
	staleMsg := m
	if !e.fsck {
		c.Known(tagStale, e.def.stale, m)
	}
	wrapPresent = e.def.wrap
	e.def.truncIgnored, m = safely(witnessTruncIgnored)
	if e.def.truncIgnored {
		c.Stat("probe.o_trunc-ignored")
		c.Note("OpenFile ignores O_TRUNC on this tree (%s): no O_TRUNC opens in the histories", m)
	} else {
		c.Stat("probe.o_trunc-honoured")
	}
	e.def.rmStale, m = safely(func() (bool, string) { return witnessRmStale(c.Scratch, e.fsck) })
	c.Known(tagRmStale, e.def.rmStale, m)
	e.def.trail, m = safely(witnessTrail)
	asFoundTrail = e.def.trail
	if !e.fsck {
		c.Known(tagTrail, e.def.trail, m)
	}
	asFoundFull, m = safely(witnessIndexFull)
	if burst, bm := safely(witnessBurstSplit); burst {
		asFoundFull, m = true, m+"; "+bm
	}
	if !e.fsck {
		c.Known(tagIndexFull, asFoundFull, m)
	}
	if e.fsck {
		c.Known(tagRemove, dirty, fm)
		e.def.leak, m = safely(func() (bool, string) { return witnessLeak(c.Scratch) })
		c.Known(tagLeak, e.def.leak, m)
		e.def.extCsum, m = safely(func() (bool, string) { return witnessExtCsum(c.Scratch) })
		c.Known(tagExtCsum, e.def.extCsum, m)
		e.def.longLink, m = safely(func() (bool, string) { return witnessLongLink(c.Scratch) })
		c.Known(tagLongLink, e.def.longLink, m)
		e.def.staleLink, m = safely(func() (bool, string) { return witnessStaleLink(c.Scratch) })
		c.Known(tagStaleLink, e.def.staleLink, m)
		c.Known(tagStale, e.def.stale, staleMsg)
		e.def.dirShrink, m = safely(func() (bool, string) { return witnessDirShrink(c.Scratch) })
		c.Known(tagDirShrink, e.def.dirShrink, m)
		e.def.dealloc, m = safely(witnessDealloc)
		asFoundDealloc = e.def.dealloc
		c.Known(tagDealloc, e.def.dealloc, m)
		defWriteLeak, m = safely(func() (bool, string) { return witnessWriteLeak(c.Scratch) })
		c.Known(tagWriteLeak, defWriteLeak, m)
		defMkdirFull, m = safely(func() (bool, string) { return witnessMkdirFull(c.Scratch) })
		c.Known(tagMkdirFull, defMkdirFull, m)
	} else {
		c.Known(tagRemove, treeBroken, tm)
	}
}

// ---- accounting correspondence (mode=fsck) ------------------------------------------------

func runsStr(rs []x.Run) string {
	if len(rs) == 0 {
		return "-"
	}
	s := make([]string, len(rs))
	for i, r := range rs {
		s[i] = fmt.Sprintf("%d+%d", r.Pos, r.Count)
	}
	return strings.Join(s, ",")
}

// emitAcct: counters before/after an operation together with the number of bits that changed in each
// bitmap; the Lean accounting machine replays the allocations / releases and must end with the same counters.
func emitAcct(c *hx.Ctx, id string, a, b x.Acct, kind string) {
	if len(a.GdFreeBlocks) != len(b.GdFreeBlocks) {
		return
	}
	db := make([]string, len(a.BmFreeBlocks))
	di := make([]string, len(a.BmFreeBlocks))
	for g := range a.BmFreeBlocks {
		db[g] = fmt.Sprint(b.BmFreeBlocks[g] - a.BmFreeBlocks[g])
		di[g] = fmt.Sprint(b.BmFreeInodes[g] - a.BmFreeInodes[g])
	}
	c.Case(id, "ext4acc.step", "op="+kind,
		"sbfb="+fmt.Sprint(a.SbFreeBlocks), "sbfi="+fmt.Sprint(a.SbFreeInodes),
		"gfb="+x.U32s(a.GdFreeBlocks), "gfi="+x.U32s(a.GdFreeInodes),
		"bmfb="+x.Ints(a.BmFreeBlocks), "bmfi="+x.Ints(a.BmFreeInodes),
		"db="+strings.Join(db, ","), "di="+strings.Join(di, ","))
	ok, _ := b.Consistent()
	c.Impl(id, "sbfb="+fmt.Sprint(b.SbFreeBlocks), "sbfi="+fmt.Sprint(b.SbFreeInodes),
		"gfb="+x.U32s(b.GdFreeBlocks), "gfi="+x.U32s(b.GdFreeInodes), fmt.Sprintf("inv=%d", b2i(ok)))
}

func b2i(b bool) int {
	if b {
		return 1
	}
	return 0
}

// ---- allocateExtents correspondence (mode=fsck) -----------------------------------------

// allocCases drives allocateExtents directly on real volumes in varied fill states and compares the extent it
// returns with the Lean first-fit model run on the bitmaps read from the image; refused requests must leave
// the image untouched and clean.
func allocCases(c *hx.Ctx) {
	r := c.Rng.Fork()
	n := c.N(8, 120)
	cfgs := []x.Config{
		{Name: "1k", Size: 16 * MiB},
		{Name: "1k-nojournal", Size: 16 * MiB, Journal: x.B(false)},
		{Name: "4k-nojournal", Size: 16 * MiB, SPB: 8, Resize: x.B(false), Journal: x.B(false)},
		{Name: "1k-3groups", Size: 20 * MiB, Journal: x.B(false)},
		{Name: "2k-4groups", Size: 16 * MiB, SPB: 4, BPG: 2048, Resize: x.B(false), Journal: x.B(false)},
	}
	deallocReported := 0
	for k := 0; k < n; k++ {
		cfg := cfgs[k%len(cfgs)]
		vid := fmt.Sprintf("alloc%d", k)
		if c.Only != "" && !strings.HasPrefix(c.Only, vid+"/") && c.Only != vid {
			r.Fork()
			continue
		}
		rr := r.Fork()
		d, fs, err, _ := x.Create(cfg)
		if err != nil {
			c.Fail(vid, "-", "Create: "+err.Error(), cfg.String())
			continue
		}
		var held [][]ext4.V04Extent
		// every other volume starts fragmented: many small extents, half of them released again, so that the free
		// list has many short runs (often of equal size) in front of the large one and a request larger than the
		// largest run goes down the slow path with ties for the sort to break
		if k%2 == 1 {
			bsz := uint64(1024)
			if v0, err := x.ParseView(d, cfg.Start); err == nil {
				bsz = uint64(v0.BlockSize)
			}
			var small [][]ext4.V04Extent
			for q := 0; q < 24+rr.Intn(30); q++ {
				var got []ext4.V04Extent
				var aerr error
				if p := catch(func() { got, aerr = fs.V04AllocateExtents(uint64(1+rr.Intn(6))*bsz, nil, false) }); p != "" || aerr != nil {
					break
				}
				small = append(small, got)
			}
			for q, ex := range small {
				if q%2 == 0 || rr.Chance(20) {
					catch(func() { _ = fs.V04DeallocateExtents(ex) })
				} else {
					held = append(held, ex)
				}
			}
			c.Stat("alloc.fragmented-volume")
		}
		for j := 0; j < 40; j++ {
			id := fmt.Sprintf("%s/a%d", vid, j)
			v, err := x.ParseView(d, cfg.Start)
			if err != nil {
				c.Fail(id, "-", "superblock unreadable: "+err.Error(), cfg.String())
				break
			}
			bs := int(v.BlockSize)
			// fragment: release something held, or allocate
			if len(held) > 0 && rr.Chance(30) {
				i := rr.Intn(len(held))
				var derr error
				trig := asFoundDealloc && deallocTrigger(v, held[i])
				preBbm := bitmapsHex(v, false)
				var marked = 1
				{
					seen := map[uint64]bool{}
					for _, e := range held[i] {
						for b := e.Start; b < e.Start+uint64(e.Count); b++ {
							rel := b - uint64(v.FirstDataBlock)
							g, q := int(rel/uint64(v.BPG)), int(rel%uint64(v.BPG))
							if b < uint64(v.FirstDataBlock) || g >= len(v.Groups) || seen[b] || v.BlockBitmapBytes(g)[q/8]&(1<<(q%8)) == 0 {
								marked = 0
							}
							seen[b] = true
						}
					}
				}
				preGfb := u32sOf(v, func(g x.Group) uint32 { return g.FreeBlocks })
				preSb := v.FreeBlocks
				if p := catch(func() { derr = fs.V04DeallocateExtents(held[i]) }); p != "" || derr != nil {
					if trig && p == "" && strings.Contains(derr.Error(), "could not clear block bitmap") {
						c.Stat("alloc.dealloc-block-group-defect")
						if deallocReported < 2 {
							deallocReported++
							c.Fail(id, tagDealloc, fmt.Sprintf("deallocateExtents(%v): %v", held[i], derr), cfg.String())
						}
						break
					}
					c.Fail(id, "-", fmt.Sprintf("deallocateExtents(%v): %v %s", held[i], derr, p), cfg.String())
					break
				}
				released := held[i]
				held = append(held[:i], held[i+1:]...)
				v2, _ := x.ParseView(d, cfg.Start)
				// model: the same blocks released from the same bitmaps (group arithmetic as the tree under test has it)
				if c.Want(id) {
					rs := make([]x.Run, len(released))
					for q, e := range released {
						rs[q] = x.Run{Pos: int(e.Start), Count: int(e.Count)}
					}
					c.Case(id+"/d", "ext4acc.dealloc", fmt.Sprintf("fdb=%d", v.FirstDataBlock), fmt.Sprintf("bpg=%d", v.BPG),
						fmt.Sprintf("sbfb=%d", preSb), "gfb="+preGfb, "bbm="+preBbm, "blocks="+runsStr(rs), fmt.Sprintf("fixed=%d", b2i(!asFoundDealloc)))
					c.Impl(id+"/d", fmt.Sprintf("marked=%d", marked), fmt.Sprintf("sbfb=%d", v2.FreeBlocks),
						"gfb="+u32sOf(v2, func(g x.Group) uint32 { return g.FreeBlocks }), "bruns="+freeRunsAll(v2, false))
				}
				if ok, m := v2.Acct().Consistent(); !ok {
					if trig {
						c.Stat("alloc.dealloc-block-group-defect")
						if deallocReported < 2 {
							deallocReported++
							c.Fail(id, tagDealloc, fmt.Sprintf("after deallocateExtents(%v): %s", released, m), cfg.String())
						}
						break
					}
					c.Fail(id, "-", "after deallocateExtents: "+m, cfg.String())
					break
				}
				c.OK(id)
				c.Stat("alloc.dealloc")
				continue
			}
			var nblk int
			switch y := rr.Intn(100); {
			case y < 40:
				nblk = 1 + rr.Intn(8)
			case y < 70:
				nblk = 1 + rr.Intn(600)
			case y < 90:
				nblk = 1 + rr.Intn(int(v.FreeBlocks)+1)
			default:
				nblk = int(v.FreeBlocks) + rr.Intn(50) // at or beyond what is free
			}
			if nblk == 0 {
				nblk = 1
			}
			var runs []string
			maxRun := 0
			var bmBefore [][]byte
			for g := range v.Groups {
				bmBefore = append(bmBefore, v.BlockBitmapBytes(g))
				rs := x.FreeRuns(bmBefore[g], int(v.BPG))
				for _, q := range rs {
					if q.Count > maxRun {
						maxRun = q.Count
					}
				}
				runs = append(runs, runsStr(rs))
			}
			d.ResetLog()
			var got []ext4.V04Extent
			var aerr error
			if p := catch(func() { got, aerr = fs.V04AllocateExtents(uint64(nblk)*uint64(bs), nil, false) }); p != "" {
				c.Fail(id, "-", fmt.Sprintf("allocateExtents(%d blocks) panics: %s", nblk, p), cfg.String())
				break
			}
			v2, _ := x.ParseView(d, cfg.Start)
			if ok, m := v2.Acct().Consistent(); !ok {
				c.Fail(id, "-", fmt.Sprintf("after allocateExtents(%d blocks) err=%v: %s", nblk, aerr, m), cfg.String())
				break
			}
			if aerr != nil {
				if len(d.Log) != 0 {
					c.Fail(id, "-", fmt.Sprintf("allocateExtents(%d blocks) refused (%v) but changed the image", nblk, aerr), cfg.String())
					break
				}
				c.Stat("alloc.refused")
			} else {
				// the returned extents: free before, inside the volume, disjoint, exactly nblk blocks
				tot := 0
				for _, e := range got {
					tot += int(e.Count)
					for b := e.Start; b < e.Start+uint64(e.Count); b++ {
						g := int((b - uint64(v.FirstDataBlock)) / uint64(v.BPG))
						i := int((b - uint64(v.FirstDataBlock)) % uint64(v.BPG))
						if b < uint64(v.FirstDataBlock) || b >= v.BlocksCount || g >= len(v.Groups) || bmBefore[g][i/8]&(1<<(i%8)) != 0 {
							c.Fail(id, "-", fmt.Sprintf("allocateExtents(%d blocks) handed out block %d which was in use or outside the volume", nblk, b), cfg.String())
							tot = -1 << 30
							break
						}
					}
				}
				if tot < 0 {
					break
				}
				if tot != nblk {
					c.Fail(id, "-", fmt.Sprintf("allocateExtents(%d blocks) returned %d blocks", nblk, tot), cfg.String())
					break
				}
				held = append(held, got)
				c.Stat("alloc.ok")
			}
			c.OK(id)
			// model: the fast path (one run large enough, first fit) is predicted exactly
			if nblk <= 32768 && c.Want(id) {
				c.Case(id, "ext4alloc.fast", fmt.Sprintf("n=%d", nblk), fmt.Sprintf("fdb=%d", v.FirstDataBlock), fmt.Sprintf("bpg=%d", v.BPG),
					fmt.Sprintf("sbfree=%d", v.FreeBlocks), "runs="+strings.Join(runs, "/"))
				switch {
				case aerr != nil && maxRun >= nblk && uint64(nblk) <= v.FreeBlocks:
					c.Impl(id, "refused-although-a-run-fits")
				case aerr != nil:
					c.Impl(id, "none")
				case len(got) == 1:
					c.Impl(id, fmt.Sprintf("ext=%d+%d", got[0].Start, got[0].Count))
				default:
					c.Impl(id, "none") // the fast path found nothing: the slow path answered (predicted below)
					c.Stat("alloc.slow-path")
				}
			}
			// model: the whole policy (fast path, else slow path over the sorted pieces) is predicted exactly; the
			// starts of the returned extents are passed along only to order pieces of EQUAL size (sort.Slice is
			// not stable)
			if c.Want(id) {
				var hint []string
				for _, e := range got {
					hint = append(hint, fmt.Sprint(e.Start))
				}
				c.Case(id+"/p", "ext4alloc.policy", fmt.Sprintf("n=%d", nblk), fmt.Sprintf("fdb=%d", v.FirstDataBlock), fmt.Sprintf("bpg=%d", v.BPG),
					fmt.Sprintf("sbfree=%d", v.FreeBlocks), "runs="+strings.Join(runs, "/"), "hint="+joinOr(hint))
				if aerr != nil {
					c.Impl(id+"/p", "none")
				} else {
					c.Impl(id+"/p", "ext="+extStr(got))
					if len(got) > 1 {
						c.Stat("alloc.policy-multi-extent")
					}
				}
			}
		}
		c.Distinct(fmt.Sprintf("alloc|%s|%d", cfg.Name, k))
	}
}

// ---- function-level correspondences (mode=tree) -------------------------------------------

func extStr(es []ext4.V04Extent) string {
	if len(es) == 0 {
		return "-"
	}
	s := make([]string, len(es))
	for i, e := range es {
		s[i] = fmt.Sprintf("%d:%d:%d", e.FileBlock, e.Start, e.Count)
	}
	return strings.Join(s, ",")
}

type rdlog struct{ offs []string }

// unitCases: File.Read / File.Write over synthetic extent lists, util/bitmap, directory packing.
func unitCases(c *hx.Ctx) {
	r := c.Rng.Fork()
	rwCases(c, r.Fork())
	bitmapCases(c, r.Fork())
	dirpackCases(c, r.Fork())
	exttreeCases(c, r.Fork())
}

// asFoundLt: the extent skip test is `<` in the tree under test (set by the witness); the Lean mirror is run with
// the same switch so that the correspondence is clean on either tree.
var asFoundLt bool

func rwCases(c *hx.Ctx, r *hx.Rng) {
	n := c.N(1500, 40000)
	for k := 0; k < n; k++ {
		id := fmt.Sprintf("rw%d", k)
		bs := hx.Pick(r, []int64{1024, 1024, 2048, 4096})
		// a contiguous-in-file extent list (what the library itself produces), 1 … 6 extents
		ne := 1 + r.Intn(6)
		if r.Chance(10) {
			ne = 0
		}
		var es []ext4.V04Extent
		fb := uint32(0)
		disk := uint64(10 + r.Intn(20))
		for i := 0; i < ne; i++ {
			cnt := uint16(1 + r.Intn(4))
			es = append(es, ext4.V04Extent{FileBlock: fb, Start: disk, Count: cnt})
			fb += uint32(cnt)
			disk += uint64(cnt) + uint64(r.Intn(5))
		}
		// sometimes a later extent lies at a LOWER device block than everything before it (a tail that re-used
		// blocks freed near the start of the volume): still disjoint (blocks 1..8 are below every other extent)
		if len(es) >= 2 && r.Chance(25) {
			i := 1 + r.Intn(len(es)-1)
			es[i].Start = uint64(1 + r.Intn(4))
		}
		write := r.Chance(45)
		// a sparse list (holes between extents, size beyond the last extent) for reads: File.Read zero-fills
		sparse := !write && len(es) > 0 && r.Chance(20)
		if sparse {
			shift := uint32(0)
			for i := range es {
				if r.Chance(50) {
					shift += uint32(1 + r.Intn(3))
				}
				es[i].FileBlock += shift
			}
			fb += shift
			if r.Chance(40) {
				fb += uint32(1 + r.Intn(3)) // a hole behind the last extent
			}
		}
		alloc := int64(fb) * bs
		var size int64
		switch y := r.Intn(10); {
		case y < 2 || alloc == 0:
			size = alloc
		case y < 9:
			size = alloc - r.Int63n(bs) // last block partly used
		default:
			size = r.Int63n(alloc + 1)
		}
		var off int64
		switch y := r.Intn(10); {
		case y < 3:
			off = int64(r.Intn(int(fb)+1)) * bs // block aligned, often an extent boundary
		case y < 6 && len(es) > 0:
			e := es[r.Intn(len(es))]
			off = int64(e.FileBlock+uint32(e.Count))*bs + r.Int63n(bs) // inside the block after an extent ends
			if r.Chance(30) {
				off = int64(e.FileBlock+uint32(e.Count))*bs - 1 - r.Int63n(bs)
			}
		default:
			off = r.Int63n(size + bs + 1)
		}
		if off < 0 {
			off = 0
		}
		nbytes := 1 + r.Intn(int(3*bs))
		if r.Chance(15) {
			nbytes = int(size) + 10
		}
		if r.Chance(5) {
			nbytes = 0
		}
		if write {
			// stay inside the allocated blocks (no allocator behind a synthetic file)
			if off+int64(nbytes) > alloc {
				if off >= alloc {
					if alloc == 0 {
						continue
					}
					off = r.Int63n(alloc)
				}
				nbytes = int(r.Int63n(alloc - off + 1))
			}
		}
		if !c.Want(id) {
			continue
		}
		devSize := int64(disk+64) * bs
		d := memdev.New(devSize)
		itb := uint64(disk + 32)
		blocks512 := uint64(fb) * uint64(bs) / 512
		fl := ext4.V04SyntheticFile(d, uint32(bs), es, uint64(size), blocks512, off, itb)
		opn := "read"
		if write {
			opn = "write"
		}
		c.Case(id, "ext4.rw", "op="+opn, fmt.Sprintf("bs=%d", bs), fmt.Sprintf("size=%d", size), fmt.Sprintf("off=%d", off),
			fmt.Sprintf("n=%d", nbytes), "ext="+extStr(es), fmt.Sprintf("lt=%d", b2i(asFoundLt)), fmt.Sprintf("cum=%d", b2i(!asFoundTrail)), fmt.Sprintf("zf=%d", b2i(!asFoundStale)))
		trig := skipTrigger(es, bs, off) && (write || off < size)
		desc := fmt.Sprintf("op=%s bs=%d size=%d off=%d n=%d ext=%s", opn, bs, size, off, nbytes, extStr(es))
		var ios []string
		if write {
			data := r.Bytes(nbytes)
			// the device holds a pattern, so that a missing zero fill and a stray write are both visible
			wfill := make([]byte, devSize)
			for i := range wfill {
				wfill[i] = byte(i*5+1) | 1
			}
			d.RawWrite(wfill, 0)
			d.ResetLog()
			var wn int
			var werr error
			p := catch(func() { wn, werr = fl.Write(data) })
			for _, ev := range d.Log {
				if ev.Sync || ev.Off >= int64(itb)*bs && ev.Off < int64(itb+1)*bs {
					continue
				}
				ios = append(ios, fmt.Sprintf("%d:%d", ev.Off, ev.Len))
			}
			switch {
			case p != "":
				c.Impl(id, "panic")
				if trig && strings.Contains(p, "makeslice") {
					knownSkip(c, id, "File.Write panics: "+p, desc)
				} else {
					c.Fail(id, "-", "File.Write panics: "+p, desc)
				}
				continue
			case werr != nil:
				c.Impl(id, "err", "io="+joinOr(ios), fmt.Sprintf("n=%d", wn), fmt.Sprintf("size=%d", fl.V04Size()), fmt.Sprintf("off=%d", fl.V04Offset()))
				if asFoundTrail && wn == nbytes && strings.Contains(werr.Error(), "negative offset") && trailTrigger(es, bs, off, nbytes) {
					c.Stat("rw.trailing-negative-offset")
					if trailReported < 3 {
						trailReported++
						c.Fail(id, tagTrail, "File.Write wrote every byte and returned an error: "+werr.Error(), desc)
					}
				} else {
					c.Fail(id, "-", "File.Write inside the allocated blocks refused: "+werr.Error(), desc)
				}
				continue
			}
			c.Impl(id, "io="+joinOr(ios), fmt.Sprintf("n=%d", wn), fmt.Sprintf("size=%d", fl.V04Size()), fmt.Sprintf("off=%d", fl.V04Offset()))
			// oracle: the bytes land where the extent list maps them (checked through an independent mapping)
			if wn != nbytes {
				c.Fail(id, "-", fmt.Sprintf("Write returned %d for %d bytes", wn, nbytes), desc)
				continue
			}
			bad := false
			for i := 0; i < nbytes; i++ {
				if _, ok := mapByte(es, bs, off+int64(i)); !ok {
					bad = true // a hole in the extent list: outside the property (the library never writes one)
					break
				}
			}
			for i := 0; !bad && i < nbytes; i += 1 + nbytes/64 {
				pos, ok := mapByte(es, bs, off+int64(i))
				if !ok || d.Bytes(pos, 1)[0] != data[i] {
					c.Fail(id, "-", fmt.Sprintf("byte %d of the write is not at the mapped device offset", i), desc)
					bad = true
					break
				}
			}
			// splice + frame: the device held a pattern; afterwards the buffer sits where the extent list maps
			// [off, off+n), the gap between the old end of file and off is zero (when the tree zero-fills), and
			// every other device byte (the scratch inode table block aside) is what it was
			if !bad {
				img := d.Bytes(0, int(devSize))
				want := append([]byte(nil), wfill...)
				if !asFoundStale {
					for q := size; q < off; q++ {
						if pos, ok := mapByte(es, bs, q); ok {
							want[pos] = 0
						}
					}
				}
				for i := 0; i < nbytes; i++ {
					pos, _ := mapByte(es, bs, off+int64(i))
					want[pos] = data[i]
				}
				for p := int64(0); p < devSize; p++ {
					if img[p] != want[p] && (p < int64(itb)*bs || p >= int64(itb+1)*bs) {
						c.Fail(id, "-", fmt.Sprintf("after File.Write device byte %d is %#x, want %#x (splice of the buffer at the mapped offsets, zero gap, nothing else)", p, img[p], want[p]), desc)
						bad = true
						break
					}
				}
			}
			if !bad {
				c.OK(id)
			}
		} else {
			// pattern: device byte at p is p*7+3
			fill := make([]byte, devSize)
			for i := range fill {
				fill[i] = byte(i*7 + 3)
			}
			d.RawWrite(fill, 0)
			d.ReadHook = func(o int64, n int) { ios = append(ios, fmt.Sprintf("%d:%d", o, n)) }
			buf := make([]byte, nbytes)
			var rn int
			var rerr error
			p := catch(func() { rn, rerr = fl.Read(buf) })
			d.ReadHook = nil
			switch {
			case p != "":
				c.Impl(id, "panic")
				if trig && strings.Contains(p, "makeslice") {
					knownSkip(c, id, "File.Read panics: "+p, desc)
				} else {
					c.Fail(id, "-", "File.Read panics: "+p, desc)
				}
				continue
			case rerr != nil && rerr != io.EOF:
				c.Impl(id, "err")
				c.Fail(id, "-", "File.Read failed: "+rerr.Error(), desc)
				continue
			}
			c.Impl(id, "io="+joinOr(ios), fmt.Sprintf("n=%d", rn), fmt.Sprintf("eof=%d", b2i(rerr == io.EOF)), fmt.Sprintf("off=%d", fl.V04Offset()), fmt.Sprintf("fnv=%d", fnv1a(buf[:rn])))
			// oracle: drop/take of the mapped byte string
			want := 0
			if off < size {
				want = nbytes
				if int64(want) > size-off {
					want = int(size - off)
				}
			}
			if rn != want {
				c.Fail(id, "-", fmt.Sprintf("Read returned %d bytes, want %d", rn, want), desc)
				continue
			}
			bad := false
			for i := 0; i < rn; i++ {
				// a file byte no extent maps (a hole) reads as zero
				pos, mapped := mapByte(es, bs, off+int64(i))
				wantB := byte(0)
				if mapped {
					wantB = byte(pos*7 + 3)
				}
				if buf[i] != wantB {
					c.Fail(id, "-", fmt.Sprintf("byte %d read is %#x, want %#x (mapped=%v, device offset %d)", i, buf[i], wantB, mapped, pos), desc)
					bad = true
					break
				}
			}
			if sparse {
				c.Stat("rw.read-sparse")
			}
			if !bad {
				c.OK(id)
			}
		}
		c.Stat("rw." + opn)
		if k%50 == 0 {
			c.Distinct("rw|" + desc)
		}
	}
}

var skipReported, trailReported int

// fnv1a is the digest of the bytes a Read returned (the Lean driver prints the same digest of the model's data)
func fnv1a(b []byte) uint32 {
	h := uint32(2166136261)
	for _, x := range b {
		h = (h ^ uint32(x)) * 16777619
	}
	return h
}

// knownSkip reports the first few synthetic inputs that hit the extent-skip defect as oracle failures under its
// tag and counts the rest (the defect's own witness is replayed separately).
func knownSkip(c *hx.Ctx, id, msg, desc string) {
	c.Stat("rw.extent-skip-panic")
	if skipReported < 3 {
		skipReported++
		c.Fail(id, tagSkip, msg, desc)
	}
}

func joinOr(s []string) string {
	if len(s) == 0 {
		return "-"
	}
	return strings.Join(s, ",")
}

// mapByte maps a file byte offset to the device offset through the flat extent list (independent of the library).
func mapByte(es []ext4.V04Extent, bs, off int64) (int64, bool) {
	blk := off / bs
	for _, e := range es {
		if blk >= int64(e.FileBlock) && blk < int64(e.FileBlock)+int64(e.Count) {
			return (int64(e.Start)+blk-int64(e.FileBlock))*bs + off%bs, true
		}
	}
	return 0, false
}

func bitmapCases(c *hx.Ctx, r *hx.Rng) {
	n := c.N(1200, 30000)
	for k := 0; k < n; k++ {
		id := fmt.Sprintf("bm%d", k)
		nb := 1 + r.Intn(12)
		if r.Chance(10) {
			nb = 128
		}
		if r.Chance(3) {
			nb = 0
		}
		b := r.Bytes(nb)
		switch r.Intn(5) {
		case 0:
			for i := range b {
				b[i] = 0xff
			}
			if nb > 0 && r.Chance(60) {
				i := r.Intn(nb * 8)
				b[i/8] &^= 1 << (i % 8)
			}
		case 1:
			for i := range b {
				b[i] = 0
			}
			if nb > 0 && r.Chance(60) {
				i := r.Intn(nb * 8)
				b[i/8] |= 1 << (i % 8)
			}
		case 2:
			for i := range b {
				b[i] |= byte(r.U64()) | byte(r.U64())
			}
		}
		opn := hx.Pick(r, []string{"set", "clear", "isset", "firstfree", "freelist", "firstset"})
		loc := r.Intn(nb*8 + 1)
		switch r.Intn(12) {
		case 0:
			loc = nb * 8 // first bit past the end
		case 1:
			loc = nb*8 + 1 + r.Intn(20)
		case 2:
			loc = -1 - r.Intn(3)
		case 3:
			loc = nb*8 - 1
		}
		if !c.Want(id) {
			continue
		}
		c.Case(id, "ext4.bitmap", "op="+opn, "bm="+hx.Hex(b), fmt.Sprintf("loc=%d", loc))
		bm := bitmap.FromBytes(b)
		desc := fmt.Sprintf("op=%s bm=%s loc=%d", opn, hx.Hex(b), loc)
		bit := func(bb []byte, i int) bool { return bb[i/8]&(1<<(i%8)) != 0 }
		var res string
		okOracle := true
		var omsg string
		p := catch(func() {
			switch opn {
			case "set", "clear":
				var err error
				if opn == "set" {
					err = bm.Set(loc)
				} else {
					err = bm.Clear(loc)
				}
				if err != nil {
					res = "err"
					if loc >= 0 && loc < nb*8 {
						okOracle, omsg = false, "in-range location refused"
					}
					return
				}
				after := bm.ToBytes()
				res = "bm=" + hx.Hex(after)
				if loc < 0 || loc >= nb*8 {
					okOracle, omsg = false, "out-of-range location accepted"
					return
				}
				for i := 0; i < nb*8; i++ {
					want := bit(b, i)
					if i == loc {
						want = opn == "set"
					}
					if bit(after, i) != want {
						okOracle, omsg = false, fmt.Sprintf("bit %d wrong after %s(%d)", i, opn, loc)
					}
				}
			case "isset":
				v, err := bm.IsSet(loc)
				if err != nil {
					res = "err"
					if loc >= 0 && loc < nb*8 {
						okOracle, omsg = false, "in-range location refused"
					}
					return
				}
				res = fmt.Sprintf("v=%d", b2i(v))
				if loc < 0 || loc >= nb*8 {
					okOracle, omsg = false, "out-of-range location answered"
				} else if v != bit(b, loc) {
					okOracle, omsg = false, "wrong bit value"
				}
			case "firstfree":
				v := bm.FirstFree(loc)
				res = fmt.Sprintf("v=%d", v)
				want := -1
				st := loc
				if st < 0 {
					st = 0
				}
				for i := st; i < nb*8; i++ {
					if !bit(b, i) {
						want = i
						break
					}
				}
				if v != want {
					okOracle, omsg = false, fmt.Sprintf("FirstFree(%d)=%d want %d", loc, v, want)
				}
			case "firstset":
				v := bm.FirstSet()
				res = fmt.Sprintf("v=%d", v)
				want := -1
				for i := 0; i < nb*8; i++ {
					if bit(b, i) {
						want = i
						break
					}
				}
				if v != want {
					okOracle, omsg = false, fmt.Sprintf("FirstSet()=%d want %d", v, want)
				}
			case "freelist":
				fl := bm.FreeList()
				var s []string
				for _, q := range fl {
					s = append(s, fmt.Sprintf("%d+%d", q.Position, q.Count))
				}
				res = "runs=" + joinOr(s)
				if res != "runs="+runsStr(x.FreeRuns(b, nb*8)) {
					okOracle, omsg = false, "FreeList differs from the maximal runs of clear bits"
				}
			}
		})
		if p != "" {
			c.Impl(id, "panic")
			// IsSet one byte past the end indexes out of range: util/bitmap's own off-by-one, not reachable
			// through ext4 (the allocators only ask about bits FirstFree/FreeList returned)
			if opn == "isset" && loc/8 == nb && loc >= 0 {
				c.Stat("bitmap.isset-at-end-panics")
			} else {
				c.Fail(id, "-", "util/bitmap panics: "+p, desc)
			}
			continue
		}
		c.Impl(id, res)
		if okOracle {
			c.OK(id)
		} else {
			c.Fail(id, "-", "util/bitmap: "+omsg, desc)
		}
		c.Stat("bitmap." + opn)
	}
}

var (
	wrapPresent  bool
	wrapReported int
)

func dirpackCases(c *hx.Ctx, r *hx.Rng) {
	n := c.N(250, 6000)
	for k := 0; k < n; k++ {
		id := fmt.Sprintf("dp%d", k)
		bs := hx.Pick(r, []uint32{1024, 1024, 2048, 4096})
		csum := r.Bool()
		ne := 1 + r.Intn(40)
		if r.Chance(15) {
			ne = 1 + r.Intn(3)
		}
		long := r.Chance(40)
		var es []ext4.V04DirEntry
		for i := 0; i < ne; i++ {
			nl := 1 + r.Intn(20)
			if long {
				nl = 1 + r.Intn(255)
			}
			if r.Chance(2) {
				nl = 248 + r.Intn(8)
			}
			nm := make([]byte, nl)
			for j := range nm {
				nm[j] = byte('a' + r.Intn(26))
			}
			es = append(es, ext4.V04DirEntry{Inode: uint32(2 + r.Intn(1<<20)), Name: string(nm), Type: uint8(1 + r.Intn(7))})
		}
		if !c.Want(id) {
			continue
		}
		seed, ino, gen := uint32(r.U64()), uint32(2+r.Intn(1000)), uint32(0)
		var ents []string
		for _, e := range es {
			ents = append(ents, fmt.Sprintf("%d:%d:%s", e.Inode, e.Type, hex.EncodeToString([]byte(e.Name))))
		}
		desc := fmt.Sprintf("bs=%d csum=%v entries=%d long=%v", bs, csum, ne, long)
		var packed []byte
		if p := catch(func() { packed = ext4.V04DirPack(es, bs, csum, seed, ino, gen) }); p != "" {
			c.Fail(id, "-", "Directory.toBytes panics: "+p, desc)
			continue
		}
		c.Case(id, "ext4.dirpack", fmt.Sprintf("bs=%d", bs), fmt.Sprintf("csum=%d", b2i(csum)), "ents="+strings.Join(ents, ","))
		masked := append([]byte(nil), packed...)
		if csum {
			for o := int(bs); o <= len(masked); o += int(bs) {
				copy(masked[o-4:o], []byte{0, 0, 0, 0})
			}
		}
		c.Impl(id, "out="+hx.Hex(masked))
		// oracle: whole blocks; rec_len chain of every block tiles it; the library's own parser returns the entries
		msg := ""
		if len(packed)%int(bs) != 0 || len(packed) == 0 {
			msg = fmt.Sprintf("packed length %d is not a positive multiple of the block size", len(packed))
		}
		for o := 0; msg == "" && o < len(packed); o += int(bs) {
			i, lim := o, o+int(bs)
			for i < lim {
				if i+8 > lim {
					msg = fmt.Sprintf("block %d: %d stray bytes after the last entry", o/int(bs), lim-i)
					break
				}
				rl := int(packed[i+4]) | int(packed[i+5])<<8
				if rl < 12 || rl%4 != 0 || i+rl > lim {
					msg = fmt.Sprintf("block %d: rec_len %d at offset %d does not tile the block", o/int(bs), rl, i-o)
					break
				}
				i += rl
			}
		}
		if msg == "" {
			var back []ext4.V04DirEntry
			var perr error
			if p := catch(func() { back, perr = ext4.V04DirParse(packed, csum, bs, ino, gen, seed) }); p != "" || perr != nil {
				msg = fmt.Sprintf("the library cannot parse what it packed: %v %s", perr, p)
				wrapName := false
				for _, e := range es {
					if len(e.Name) >= 248 {
						wrapName = true
					}
				}
				if wrapName && wrapPresent && strings.Contains(p, "slice bounds out of range [8:") {
					c.Stat("dirpack.namelen-wrap-panic")
					if wrapReported < 2 {
						wrapReported++
						c.Fail(id, tagWrap, "directory packing: "+msg, desc)
					}
					continue
				}
			} else {
				var got []ext4.V04DirEntry
				for _, e := range back {
					if e.Inode != 0 {
						got = append(got, e)
					}
				}
				if fmt.Sprint(got) != fmt.Sprint(es) {
					msg = "parse(pack(entries)) differs from the entries"
				}
			}
		}
		if msg != "" {
			c.Fail(id, "-", "directory packing: "+msg, desc)
		} else {
			c.OK(id)
		}
		c.Stat("dirpack")
		if k%10 == 0 {
			c.Distinct("dp|" + desc + fmt.Sprint(len(packed)))
		}
	}
}

var _ = sort.Strings
