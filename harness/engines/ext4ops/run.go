// Package ext4ops is the engine of property C04 (ext4 behaves like a plain tree) and, with
// mode=fsck, of the per-operation clause of C05 (every image stays clean for e2fsck).
//
// Seeded operation histories are applied to real volumes made by ext4.Create on an in-memory
// device and to an in-memory reference tree; after every operation the live handle and a fresh
// ext4.Read of the image bytes are compared with the reference (mode=tree), or the image is
// handed to e2fsck -f -n and, at the end, to debugfs (mode=fsck).
package ext4ops

import (
	"fmt"
	"os"
	"path/filepath"
	"runtime"
	"runtime/pprof"
	"sort"
	"strings"
	"sync"

	"github.com/diskfs/go-diskfs/filesystem/ext4"

	x "verif/harness/engines/ext4common"
	"verif/harness/internal/hx"
	"verif/harness/internal/memdev"
)

const (
	tagSkip      = "ext4-extent-skip-lt"
	tagRemove    = "ext4-remove-accounting"
	tagLeak      = "ext4-mkdirentry-leaks-inode"
	tagStale     = "ext4-hole-stale-bytes"
	tagWrap      = "ext4-long-name-panic"
	tagRmLink    = "ext4-remove-inline-symlink-nil"
	tagExtCsum   = "ext4-extent-block-csum"
	tagLongLink  = "ext4-symlink-target-over-block"
	tagStaleLink = "ext4-symlink-stale-block"
	tagTrail     = "ext4-write-trailing-empty-writes"
	tagDealloc   = "ext4-dealloc-block-group"
	tagRmStale   = "ext4-remove-stale-dir-block"
	tagDirShrink = "ext4-writedirectory-shrinks-size"
	// tagIndexFull (ext4-extent-node-overfull-panic) is declared in exttreeUnit.go
)

const MiB = int64(1 << 20)

func configs() []x.Config {
	return []x.Config{
		{Name: "1k", Size: 16 * MiB},
		{Name: "1k-start", Size: 16 * MiB, Start: 1*MiB + 1536},
		{Name: "1k-nojournal", Size: 16 * MiB, Journal: x.B(false)},
		{Name: "1k-csum", Size: 16 * MiB, Csum: x.B(true)},
		{Name: "1k-csum-nojournal-start", Size: 16 * MiB, Start: 3 * MiB, Csum: x.B(true), Journal: x.B(false)},
		{Name: "4k", Size: 16 * MiB, SPB: 8, Resize: x.B(false)},
		{Name: "4k-csum-nojournal", Size: 16 * MiB, SPB: 8, Resize: x.B(false), Csum: x.B(true), Journal: x.B(false)},
		{Name: "4k-start-nojournal", Size: 16 * MiB, Start: 512 * 77, SPB: 8, Resize: x.B(false), Journal: x.B(false)},
		{Name: "2k-nojournal", Size: 16 * MiB, SPB: 4, Resize: x.B(false), Journal: x.B(false)},
		{Name: "1k-fewinodes", Size: 16 * MiB, InodeCount: 40, Journal: x.B(false)},
		{Name: "1k-3groups", Size: 20 * MiB, Journal: x.B(false)},
	}
}

type defects struct {
	skip, remove, leak, wrap, rmLink, extCsum, longLink, staleLink, stale, trail, dealloc, rmStale, dirShrink bool
	// truncIgnored: OpenFile leaves an existing file as it is when O_TRUNC is given (finding ext4-openfile-ignores-trunc,
	// listed under C16, replayed by the syncfs engine). While it is present no O_TRUNC open is part of the histories.
	truncIgnored bool
}

type engine struct {
	c    *hx.Ctx
	fsck bool // mode=fsck: e2fsck/debugfs verdicts; else tree verdicts
	def  defects
}

func Run(c *hx.Ctx) {
	if pf := os.Getenv("VERIF_PROF"); pf != "" {
		f, _ := os.Create(pf)
		pprof.StartCPUProfile(f)
		defer pprof.StopCPUProfile()
	}
	e := &engine{c: c, fsck: c.Args["mode"] == "fsck"}
	e.probeDefects()
	if os.Getenv("VERIF_EXTTREE_DEV") != "" {
		if os.Getenv("VERIF_EXTTREE_DEV") == "enospc" {
			e.deepEnospcs()
			return
		}
		if os.Getenv("VERIF_EXTTREE_DEV") == "path" {
			e.pathWalks()
			return
		}
		if os.Getenv("VERIF_EXTTREE_DEV") == "shrink" {
			e.dirShrinks()
			return
		}
		exttreeCases(c, c.Rng.Fork())
		e.deepTrees()
		return
	}
	if !e.fsck {
		unitCases(c)
	} else {
		allocCases(c)
	}
	e.deepTrees()
	e.dirShrinks()
	e.dirRelocs()
	e.pathWalks()
	e.deepEnospcs()
	e.histories()
	e.truncCases() // after the histories: their random streams stay what they were before these cases existed
}

func reopen(d *memdev.Dev, cfg x.Config) (fs *ext4.FileSystem, err error) {
	defer func() {
		if e := recover(); e != nil {
			err = fmt.Errorf("panic: %v", e)
		}
	}()
	return ext4.Read(d, cfg.Size, cfg.Start, 512)
}

// ---- histories ---------------------------------------------------------------------

type hist struct {
	k    int
	id   string
	cfg  x.Config
	rng  *hx.Rng
	nops int
	kind string // normal | fill | manyfiles | dirgrow
}

func (e *engine) wantHist(id string) bool {
	o := e.c.Only
	return o == "" || o == id || strings.HasPrefix(o, id+"/")
}

func (e *engine) histories() {
	c := e.c
	n := c.N(88, 2500)
	if e.fsck {
		n = c.N(44, 2000)
	}
	cfgs := configs()
	var hs []hist
	for k := 0; k < n; k++ {
		h := hist{k: k, id: fmt.Sprintf("h%d", k), cfg: cfgs[k%len(cfgs)], rng: c.Rng.Fork(), nops: 30, kind: "normal"}
		switch {
		case k%13 == 5:
			h.kind = "fill"
		case k%13 == 9:
			h.kind = "manyfiles"
			h.nops = 45
		case k%13 == 2:
			// one directory grows block by block while file data is allocated in between, so that
			// its blocks are scattered (the directory is relocated when it would need a fifth extent)
			h.kind = "dirgrow"
			h.nops = 60
		}
		if c.Thorough() && k%7 == 3 {
			h.nops = 80
		}
		hs = append(hs, h)
	}
	workers := runtime.NumCPU()
	if workers > 12 {
		workers = 12
	}
	ch := make(chan hist)
	var wg sync.WaitGroup
	for w := 0; w < workers; w++ {
		wg.Add(1)
		go func(w int) {
			defer wg.Done()
			scratch := filepath.Join(c.Scratch, fmt.Sprintf("w%d", w))
			os.MkdirAll(scratch, 0o755)
			for h := range ch {
				e.runHistory(h, scratch)
			}
		}(w)
	}
	for _, h := range hs {
		if e.wantHist(h.id) {
			ch <- h
		}
	}
	close(ch)
	wg.Wait()
}

func (e *engine) runHistory(h hist, scratch string) {
	c := e.c
	cfg := h.cfg
	var trace []string
	repro := func() string {
		return fmt.Sprintf("history %s cfg=%s [%s] ops: %s", h.id, cfg.Name, cfg.String(), strings.Join(trace, " ; "))
	}
	d, fs, err, panicked := x.Create(cfg)
	if err != nil {
		c.Fail(h.id+"/create", "-", fmt.Sprintf("Create failed (panic=%v): %v", panicked, err), repro())
		return
	}
	view, verr := x.ParseView(d, cfg.Start)
	if verr != nil {
		c.Fail(h.id+"/create", "-", "cannot parse the superblock Create wrote: "+verr.Error(), repro())
		return
	}
	bs := int64(view.BlockSize)
	r := newRef()
	if e.fsck {
		if ok, out := x.FsckDev(d, cfg.Start, cfg.Size, scratch, "img"); !ok {
			c.Fail(h.id+"/create", "-", "e2fsck after Create: "+x.FsckSummary(out), repro())
			return
		}
		c.OK(h.id + "/create")
	}
	g := &gen{r: h.rng, ref: r, bs: bs, budget: 5 << 20, gaps: h.rng.Chance(50), longName: h.rng.Chance(30), maxName: 255, keepInlineLinks: e.def.rmLink,
		trunc: !e.def.truncIgnored}
	if e.def.wrap {
		g.maxName = 247
	}
	if e.fsck && e.def.longLink {
		g.maxTarget = int(bs) - 1
	}
	// Remove is part of a third of the histories; while the Remove defect is present it ends the history
	g.noRemove = !h.rng.Chance(35)
	switch h.kind {
	case "fill":
		g.budget = 0
	case "manyfiles":
		g.longName = true
	case "dirgrow":
		g.longName = true
	}
	if cfg.Journal != nil && !*cfg.Journal && g.budget > 0 {
		g.budget = 8 << 20
	}
	rn := &runner{fs: fs, ref: r, bs: bs, avoidSkip: e.def.skip}
	c.Stat("histories." + cfg.Name)
	prevAcct := view.Acct()
	partial := map[string]bool{} // directories a refused nested Mkdir may have made before it failed (mkdir -p semantics)
	gaps := map[string][][2]int64{} // per file: the ranges between the old end of file and the offset of a write past EOF
	for s := 0; s < h.nops; s++ {
		id := fmt.Sprintf("%s/s%d", h.id, s)
		var o op
		switch {
		case h.kind == "fill" && s >= 3 && s%2 == 1:
			// grow towards ENOSPC quickly
			files := r.ofKind(kFile)
			if len(files) == 0 {
				o = g.next()
			} else {
				o = op{kind: "append", path: hx.Pick(h.rng, files), chunks: [][]byte{h.rng.Bytes(1<<20 + h.rng.Intn(2<<20))}}
			}
		case h.kind == "dirgrow":
			switch {
			case s == 0:
				o = op{kind: "mkdir", path: "grow"}
			case s%2 == 1:
				nm := fmt.Sprintf("g%d_", s)
				for len(nm) < 200 {
					nm += string(rune('a' + h.rng.Intn(26)))
				}
				o = op{kind: "create", path: join("grow", nm)}
			default:
				files := r.ofKind(kFile)
				if len(files) == 0 {
					o = g.next()
				} else {
					o = op{kind: "append", path: files[len(files)-1], chunks: [][]byte{h.rng.Bytes(1200 + h.rng.Intn(1800))}}
				}
			}
		case h.kind == "manyfiles" && s%3 != 0:
			dirs := r.dirs()
			o = op{kind: "create", path: join(hx.Pick(h.rng, dirs), g.newName("f"))}
			if h.rng.Chance(20) {
				o = op{kind: "mkdir", path: join(hx.Pick(h.rng, dirs), g.newName("d"))}
			}
		default:
			o = g.next()
		}
		trace = append(trace, o.String())
		c.Stat("op." + o.kind)
		gapWrite := false
		if o.kind == "write" {
			if n := r.lookup(o.path); n != nil && o.off > int64(len(n.data)) {
				gapWrite = true
				gaps[o.path] = append(gaps[o.path], [2]int64{int64(len(n.data)), o.off})
			}
		}
		if o.kind == "remove" || o.kind == "create" || o.kind == "trunc" {
			delete(gaps, o.path)
		}
		// blocks of the parent directory before a Remove (trigger of finding ext4-remove-stale-dir-block)
		rmParentBlocks := 0
		if o.kind == "remove" && e.def.rmStale {
			rmParentBlocks = parentBlocks(fs, o.path)
		}
		var pre *rmPre
		var lpre *lnkPre
		if e.fsck && o.kind == "remove" {
			pre = e.preRemove(d, cfg, rn, o)
		}
		if e.fsck {
			lpre = e.preLinks(d, cfg, rn, o)
		}
		var opre *ownPre
		if e.fsck && c.Want(id) {
			opre = e.preOwn(d, cfg, rn, o)
		}
		var dpre *dirPre
		if !e.fsck && o.kind == "remove" {
			dpre = e.preDir(d, cfg, rn, o)
		}
		out := rn.exec(o)
		if o.expectRefusal() && out.refused != nil {
			out.refused = nil
			c.Stat("refused.as-expected")
		}
		stop, failed := false, false
		fail := func(tag, msg string) {
			c.Fail(id, tag, fmt.Sprintf("%s after %s: %s", cfg.Name, o.String(), msg), repro())
			stop, failed = true, true
		}
		if out.trimmed {
			c.Stat("trimmed.extent-skip")
		}
		// 1. what the call itself did
		switch {
		case out.skipLt:
			if e.fsck {
				stop = true
			} else {
				fail(tagSkip, "panic "+out.panicked+" (an extent ends exactly at the start block and is not skipped)")
			}
		case out.trailNeg:
			// the write was carried out in full and reported as failed: the tree has changed under a refused call
			if e.fsck {
				stop = true
			} else {
				fail(tagTrail, fmt.Sprintf("Write wrote every byte and returned an error: %v", out.refused))
			}
		case out.panicked != "":
			if e.fsck {
				stop = true // panics are C04's verdict
				c.Stat("panic-in-fsck-mode")
			} else {
				fail(e.classifyPanic(out.panicked, o, r), "panic "+out.panicked)
			}
		case out.problem != "":
			if e.fsck {
				stop = true
			} else {
				fail("-", out.problem)
			}
		case out.refused != nil:
			if isSpace(out.refused) {
				c.Stat("refused.space")
			} else {
				c.Stat("refused.other")
				c.Note("%s: %s refused: %v", id, o.String(), out.refused)
			}
		}
		// 2. the property's observation after the call
		if !stop {
			if e.fsck {
				e.fsckStep(id, cfg, d, o, out, &prevAcct, pre, lpre, rn, rmParentBlocks, scratch, fail)
				if opre != nil && out.refused == nil && !failed {
					emitOwnGrow(c, id, opre, d, cfg.Start)
				}
			} else if out.refused == nil {
				removeTaint := o.kind == "remove" && e.def.remove
				content := map[string]bool{o.path: true}
				if o.path2 != "" {
					content[o.path2] = true
				}
				if s%15 == 14 || s == h.nops-1 {
					content = nil
				}
				if removeTaint {
					content = map[string]bool{}
				}
				if dpre != nil && c.Want(id) {
					emitDirRewrite(c, id, dpre, d, cfg, !e.def.rmStale)
				}
				rmTag := func(diff string) string {
					tag := e.classifyTree(diff, o, r, gapWrite)
					if tag == "-" && rmParentBlocks >= 2 && staleDirDiff(diff, o.path) {
						tag = tagRmStale
					}
					return tag
				}
				if diff := observe(fs, r, !e.def.skip, content); diff != "" {
					fail(rmTag(diff), "live view differs from the reference tree: "+diff)
				} else if fs2, err := reopen(d, cfg); err != nil {
					fail("-", "ext4.Read of the image failed: "+err.Error())
				} else if diff := observe(fs2, r, !e.def.skip, content); diff != "" {
					fail(rmTag(diff), "view after re-opening the image differs from the reference tree: "+diff)
				}
				if removeTaint {
					c.Stat("history-ended.remove-defect")
					stop = true
				}
			}
			if !failed {
				c.OK(id)
			}
		}
		if out.refused != nil {
			stop = true // a refused call may have been carried out in part: the history ends here
			if o.kind == "mkdir" {
				for q := o.path; q != "." && q != ""; q = parentOf(q) {
					if r.lookup(q) == nil {
						partial[q] = true
					}
				}
			}
		}
		if stop {
			break
		}
	}
	nf := len(r.ofKind(kFile))
	c.Distinct(fmt.Sprintf("%s|%s|%d|%d|%v", cfg.Name, h.kind, nf, len(r.walk()), trace))
	if h.k < 4 {
		c.Sample(repro())
	}
	e.shapeStats(fs, r)
	if e.fsck {
		e.debugfsCheck(h, cfg, d, r, gaps, partial, scratch, repro)
	}
}

// parentBlocks: how many blocks the directory holding path has (0 when it cannot be told)
func parentBlocks(fs *ext4.FileSystem, p string) (n int) {
	defer func() {
		if recover() != nil {
			n = 0
		}
	}()
	ino := uint32(2)
	if par := parentOf(p); par != "." {
		var err error
		if ino, err = fs.V04EntryInode(par); err != nil || ino == 0 {
			return 0
		}
	}
	ex, _, err := fs.V04InodeExtents(ino)
	if err != nil {
		return 0
	}
	for _, e := range ex {
		n += int(e.Count)
	}
	return n
}

// staleDirDiff: the difference is in the listing of the directory the name was removed from (an entry twice, the
// removed entry still there, or the directory unreadable because an entry names the released inode)
func staleDirDiff(diff, removed string) bool {
	par := parentOf(removed)
	return strings.HasPrefix(diff, fmt.Sprintf("listing of %q", par)) || strings.HasPrefix(diff, fmt.Sprintf("ReadDir(%q)", par))
}

// classifyPanic names the known defect that explains a panic, if its trigger holds.
func (e *engine) classifyPanic(p string, o op, r *ref) string {
	if o.kind == "remove" && strings.Contains(p, "nil pointer") {
		if n := r.lookup(o.path); n != nil && n.kind == kLink && len(n.target) < 60 {
			return tagRmLink
		}
	}
	if strings.Contains(p, "slice bounds out of range [8:") && hasWrapName(r) {
		return tagWrap
	}
	return "-"
}

func hasWrapName(r *ref) bool {
	for _, p := range r.walk() {
		if i := strings.LastIndex(p, "/"); len(p)-i-1 >= 248 {
			return true
		}
	}
	return false
}

// classifyTree names the known defect that explains a tree difference, if its trigger holds.
func (e *engine) classifyTree(diff string, o op, r *ref, gapWrite bool) string {
	if e.def.stale && gapWrite && strings.Contains(diff, "contents of") && strings.Contains(diff, "want 0x0)") {
		return tagStale
	}
	if e.def.remove && o.kind == "remove" {
		return tagRemove
	}
	if strings.Contains(diff, "slice bounds out of range [8:") && hasWrapName(r) {
		return tagWrap
	}
	return "-"
}

// shapeStats records which structural classes the history reached (evidence only).
func (e *engine) shapeStats(fs *ext4.FileSystem, r *ref) {
	defer func() { recover() }()
	maxExt, maxDepth := 0, 0
	for _, p := range r.ofKind(kFile) {
		ino, err := fs.V04EntryInode(p)
		if err != nil || ino == 0 {
			continue
		}
		ex, depth, err := fs.V04InodeExtents(ino)
		if err != nil {
			continue
		}
		if len(ex) > maxExt {
			maxExt = len(ex)
		}
		if depth > maxDepth {
			maxDepth = depth
		}
	}
	switch {
	case maxDepth > 0:
		e.c.Stat("shape.extent-tree-depth>0")
	case maxExt > 1:
		e.c.Stat("shape.multi-extent-inline")
	default:
		e.c.Stat("shape.single-extent")
	}
	if maxExt > 4 {
		e.c.Stat("shape.more-than-4-extents")
	}
	for _, dpath := range r.dirs() {
		ino := uint32(2)
		if dpath != "." {
			ino, _ = fs.V04EntryInode(dpath)
		}
		if ino == 0 {
			continue
		}
		if ex, _, err := fs.V04InodeExtents(ino); err == nil {
			nb := 0
			for _, x := range ex {
				nb += int(x.Count)
			}
			if nb > 1 {
				e.c.Stat("shape.directory-past-one-block")
				break
			}
		}
	}
	big := 0
	for _, p := range r.ofKind(kFile) {
		if len(r.lookup(p).data) >= 1<<20 {
			big++
		}
	}
	if big > 0 {
		e.c.Stat("shape.file>=1MiB")
	}
	for _, p := range r.ofKind(kLink) {
		if len(r.lookup(p).target) >= 60 {
			e.c.Stat("shape.symlink>=60")
			break
		}
	}
}

// ---- mode=fsck ------------------------------------------------------------------------

func (e *engine) fsckStep(id string, cfg x.Config, d *memdev.Dev, o op, out outcome, prev *x.Acct, pre *rmPre, lpre *lnkPre, rn *runner, rmParentBlocks int, scratch string,
	fail func(tag, msg string)) {
	c := e.c
	ok, fout := x.FsckDev(d, cfg.Start, cfg.Size, scratch, "img")
	view, verr := x.ParseView(d, cfg.Start)
	var acct x.Acct
	accOK, accMsg := false, "superblock unreadable"
	if verr == nil {
		acct = view.Acct()
		accOK, accMsg = acct.Consistent()
	}
	refusedSpace := out.refused != nil && isSpace(out.refused)
	if !ok || !accOK {
		msg := "e2fsck -f -n: " + x.FsckSummary(fout)
		if ok {
			msg = "e2fsck accepts the image but counters and bitmaps disagree: " + accMsg
		}
		tag := "-"
		switch {
		case e.def.dirShrink && (o.kind == "create" || o.kind == "mkdir" || o.kind == "symlink") && out.refused == nil &&
			parentBlocks(rn.fs, o.path) >= 2 && strings.Contains(fout, ", i_size is") && strings.Contains(fout, ", i_blocks is") &&
			!strings.Contains(fout, "bitmap differences") && !strings.Contains(fout, "count wrong"):
			// a directory with a spare block (names were removed from it) got a new name: size and blocks cut to what the entries need
			tag = tagDirShrink
		case o.kind == "remove" && out.refused == nil && e.def.rmStale && rmParentBlocks >= 2 && staleDirFsck(fout):
			tag = tagRmStale
		case o.kind == "remove" && out.refused == nil && e.def.remove &&
			(strings.Contains(fout, "bitmap differences") || strings.Contains(fout, "Unattached inode") || strings.Contains(fout, "count wrong")):
			tag = tagRemove
		case e.def.extCsum && x.On(cfg.Csum, false) && strings.Contains(fout, "extent block passes checks, but checksum does not match"):
			tag = tagExtCsum
		case e.def.longLink && o.kind == "symlink" && out.refused == nil && len(o.target) >= int(view.BlockSize) && strings.Contains(fout, "is invalid"):
			tag = tagLongLink
		case e.def.staleLink && o.kind == "symlink" && out.refused == nil && len(o.target) >= 60 && len(o.target) < int(view.BlockSize) && strings.Contains(fout, "is invalid"):
			tag = tagStaleLink
		case defWriteLeak && (o.kind == "write" || o.kind == "append" || o.kind == "alt" || o.kind == "trunc") && writeLeakSymptom(out.refused, fout):
			// the data blocks of a write the extent tree code refused stay marked
			tag = tagWriteLeak
		case defMkdirFull && mkdirFullSymptom(o, out.refused, fout):
			// the name was entered and the inode marked before the block of the new directory / link target was refused
			tag = tagMkdirFull
		case refusedSpace && e.def.leak && (o.kind == "create" || o.kind == "mkdir" || o.kind == "symlink") &&
			strings.Contains(fout, "Inode bitmap differences") && !strings.Contains(fout, "Block bitmap differences"):
			tag = tagLeak
		}
		what := "accepted"
		if out.refused != nil {
			what = "refused (" + out.refused.Error() + ")"
		}
		fail(tag, fmt.Sprintf("first offending operation (%s): %s", what, msg))
		return
	}
	// accounting correspondence: counters before/after vs the Lean accounting machine
	if verr == nil && c.Want(id) {
		emitAcct(c, id, *prev, acct, o.kind)
		*prev = acct
		if pre != nil && out.refused == nil {
			emitRemove(c, id, pre, view)
		}
		if lpre != nil && out.refused == nil {
			emitLinks(c, id, lpre, rn, d, cfg, view)
		}
	}
}

// staleGapOnly reports whether got differs from want only inside the recorded gaps, where want is zero: the
// trigger and the symptom of finding ext4-hole-stale-bytes (a write past EOF exposes what the blocks held before).
func staleGapOnly(got, want []byte, gaps [][2]int64) bool {
	if len(got) != len(want) || len(gaps) == 0 {
		return false
	}
	diff := false
	for i := range got {
		if got[i] == want[i] {
			continue
		}
		diff = true
		in := false
		for _, g := range gaps {
			if int64(i) >= g[0] && int64(i) < g[1] {
				in = true
			}
		}
		if !in || want[i] != 0 {
			return false
		}
	}
	return diff
}

func (e *engine) debugfsCheck(h hist, cfg x.Config, d *memdev.Dev, r *ref, gaps map[string][][2]int64, partial map[string]bool, scratch string, repro func() string) {
	c := e.c
	id := h.id + "/debugfs"
	img := filepath.Join(scratch, "dbg.img")
	if err := x.WriteImage(d, cfg.Start, cfg.Size, img); err != nil {
		return
	}
	defer os.Remove(img)
	if ok, _ := x.Fsck(img); !ok {
		return // already reported at the offending step
	}
	files := r.ofKind(kFile)
	got, err := x.DebugfsDump(img, scratch, files)
	if err != nil {
		c.Fail(id, "-", err.Error(), repro())
		return
	}
	for _, p := range files {
		want := r.lookup(p).data
		if string(got[p]) != string(want) {
			tag := "-"
			if e.def.stale && staleGapOnly(got[p], want, gaps[p]) {
				tag = tagStale
			}
			c.Fail(id, tag, fmt.Sprintf("%s: debugfs extracts %q differently from what was written: %s", cfg.Name, shortPath(p), firstDiff(got[p], want)), repro())
			return
		}
	}
	for _, dir := range r.dirs() {
		if strings.ContainsAny(dir, "\"") {
			continue
		}
		names, err := x.DebugfsLs(img, strings.TrimPrefix(dir, "."))
		if err != nil {
			c.Fail(id, "-", err.Error(), repro())
			return
		}
		var want []string
		for k := range r.lookup(dir).kids {
			want = append(want, k)
		}
		// a refused Mkdir of a nested path may have made the outer directories: they are not in the reference
		if len(partial) > 0 {
			kept := names[:0]
			for _, nm := range names {
				if _, inRef := r.lookup(dir).kids[nm]; !inRef && partial[join(dir, nm)] {
					continue
				}
				kept = append(kept, nm)
			}
			names = kept
		}
		sort.Strings(want)
		if strings.Join(names, "|") != strings.Join(want, "|") {
			c.Fail(id, "-", fmt.Sprintf("%s: debugfs lists %q as [%s], written [%s]", cfg.Name, dir, short(strings.Join(names, " ")), short(strings.Join(want, " "))), repro())
			return
		}
	}
	c.OK(id)
	c.StatN("debugfs.files-compared", len(files))
}
