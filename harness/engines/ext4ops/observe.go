package ext4ops

import (
	"bytes"
	"fmt"
	"io"
	iofs "io/fs"
	"os"
	"sort"
	"strings"

	"github.com/diskfs/go-diskfs/filesystem/ext4"
)

const specialBits = os.ModeSetuid | os.ModeSetgid | os.ModeSticky

func kindName(k int) string { return [...]string{"file", "dir", "symlink"}[k] }

// readWhole reads a file through the File API in one Read call of exactly its size followed by an EOF probe
// (a single call from offset 0 walks every extent from its first byte).
func readWhole(fs *ext4.FileSystem, p string) (data []byte, err error) {
	defer func() {
		if e := recover(); e != nil {
			err = fmt.Errorf("panic: %v", e)
		}
	}()
	f, err := fs.OpenFile(p, os.O_RDONLY)
	if err != nil {
		return nil, fmt.Errorf("open: %w", err)
	}
	defer f.Close()
	st, err := f.(*ext4.File).Stat()
	if err != nil {
		return nil, fmt.Errorf("stat: %w", err)
	}
	size := st.Size()
	buf := make([]byte, size+16)
	total := 0
	for total < len(buf) {
		n, err := f.Read(buf[total:])
		total += n
		if err == io.EOF {
			break
		}
		if err != nil {
			return buf[:total], fmt.Errorf("read: %w", err)
		}
		if n == 0 {
			return buf[:total], fmt.Errorf("read returned 0, nil at %d of %d", total, size)
		}
	}
	return buf[:total], nil
}

// observe compares the whole reference tree with what fs shows: every listing, link target, size and
// changed attribute, and the contents of the files in `content` (nil = all files). useReadFile
// additionally reads through fs.ReadFile (io.ReadAll chunking). Returns "" when equal, else the first difference.
func observe(fs *ext4.FileSystem, r *ref, useReadFile bool, content map[string]bool) (diff string) {
	defer func() {
		if e := recover(); e != nil {
			diff = fmt.Sprintf("panic while observing: %v", e)
		}
	}()
	for _, d := range r.dirs() {
		ents, err := fs.ReadDir(d)
		if err != nil {
			return fmt.Sprintf("ReadDir(%q): %v", d, err)
		}
		want := r.lookup(d)
		var got, exp []string
		for _, e := range ents {
			k := "file"
			switch {
			case e.IsDir():
				k = "dir"
			case e.Type()&iofs.ModeSymlink != 0:
				k = "symlink"
			}
			got = append(got, e.Name()+":"+k)
		}
		for name, n := range want.kids {
			exp = append(exp, name+":"+kindName(n.kind))
		}
		sort.Strings(got)
		sort.Strings(exp)
		if strings.Join(got, "|") != strings.Join(exp, "|") {
			return fmt.Sprintf("listing of %q: got [%s] want [%s]", d, short(strings.Join(got, " ")), short(strings.Join(exp, " ")))
		}
	}
	for _, p := range r.walk() {
		n := r.lookup(p)
		st, err := fs.Stat(p)
		if err != nil {
			return fmt.Sprintf("Stat(%q): %v", p, err)
		}
		switch n.kind {
		case kFile:
			if st.Size() != int64(len(n.data)) {
				return fmt.Sprintf("size of %q: got %d want %d", p, st.Size(), len(n.data))
			}
			if content != nil && !content[p] {
				break
			}
			data, err := readWhole(fs, p)
			if err != nil {
				return fmt.Sprintf("reading %q (%d bytes): %v", p, len(n.data), err)
			}
			if !bytes.Equal(data, n.data) {
				return fmt.Sprintf("contents of %q: %s", p, firstDiff(data, n.data))
			}
			if useReadFile {
				d2, err := fs.ReadFile(p)
				if err != nil {
					return fmt.Sprintf("ReadFile(%q): %v", p, err)
				}
				if !bytes.Equal(d2, n.data) {
					return fmt.Sprintf("ReadFile contents of %q: %s", p, firstDiff(d2, n.data))
				}
			}
		case kLink:
			t, err := fs.ReadLink(p)
			if err != nil {
				return fmt.Sprintf("ReadLink(%q): %v", p, err)
			}
			if t != n.target {
				return fmt.Sprintf("link target of %q: got %q (%d bytes) want %q (%d bytes)", p, short(t), len(t), short(n.target), len(n.target))
			}
		case kDir:
			if !st.IsDir() {
				return fmt.Sprintf("Stat(%q) is not a directory", p)
			}
		}
		if n.hasMode {
			got := st.Mode() & (os.ModePerm | specialBits)
			if got != n.mode {
				return fmt.Sprintf("mode of %q: got %v want %v", p, got, n.mode)
			}
		}
		sys, _ := st.Sys().(*ext4.StatT)
		if n.hasUID || n.hasGID || n.hasTimes {
			if sys == nil {
				return fmt.Sprintf("Stat(%q).Sys() is not *ext4.StatT", p)
			}
		}
		if n.hasUID && sys.UID != n.uid {
			return fmt.Sprintf("uid of %q: got %d want %d", p, sys.UID, n.uid)
		}
		if n.hasGID && sys.GID != n.gid {
			return fmt.Sprintf("gid of %q: got %d want %d", p, sys.GID, n.gid)
		}
		if n.hasTimes {
			if !st.ModTime().Equal(n.mt) {
				return fmt.Sprintf("mtime of %q: got %v want %v", p, st.ModTime().UTC(), n.mt.UTC())
			}
			if !sys.AccessTime.Equal(n.atime) {
				return fmt.Sprintf("atime of %q: got %v want %v", p, sys.AccessTime.UTC(), n.atime.UTC())
			}
			if !sys.CreateTime.Equal(n.ctime) {
				return fmt.Sprintf("crtime of %q: got %v want %v", p, sys.CreateTime.UTC(), n.ctime.UTC())
			}
		}
	}
	return ""
}

func short(s string) string {
	if len(s) > 300 {
		return s[:300] + "…"
	}
	return s
}

func firstDiff(got, want []byte) string {
	n := len(got)
	if len(want) < n {
		n = len(want)
	}
	for i := 0; i < n; i++ {
		if got[i] != want[i] {
			return fmt.Sprintf("first difference at byte %d (got %#x want %#x), lengths got %d want %d", i, got[i], want[i], len(got), len(want))
		}
	}
	return fmt.Sprintf("lengths differ: got %d want %d", len(got), len(want))
}
