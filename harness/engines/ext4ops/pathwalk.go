package ext4ops

// pathwalk<k>: path resolution of the real library against the Lean path-walk mirror (Model/Ext4/PathWalk.lean,
// theorems pathwalk_lookup_spec / pathwalk_reaches_spec in Props/C04.lean) and against the reference tree.
//
// A nested tree is built through the public API (directories up to five levels deep, files, symlinks to directories
// and to files, names that are prefixes of each other, a directory with enough names for a second block). The engine
// then reads EVERY directory of the volume from the image with its own decoders (inode -> extents -> blocks -> rec_len
// walk, "." and ".." included) and resolves io/fs-valid paths - every path of the reference tree, ".", names that do
// not exist, paths THROUGH a file and THROUGH a symlink (links are not followed: the library refuses them), deep
// missing parents - with the library's getEntryAndParent (hook V04EntryInode). The Lean mirror gets the table of
// directories and the path (`ext4path.lookup`) and must name the same inode / absent / no-parent; the oracle demands
// that every path of the reference tree resolves to an inode whose type on disk is the reference's kind and that
// nothing else resolves.

import (
	"encoding/binary"
	"fmt"
	"sort"
	"strings"

	x "verif/harness/engines/ext4common"
	"verif/harness/internal/hx"
	"verif/harness/internal/memdev"
)

type pwEntry struct {
	name string
	ino  uint32
	ty   byte
}

// readDirsFromImage: every directory reachable from the root, parsed from the image (independent of the library)
func readDirsFromImage(d *memdev.Dev, start int64) (map[uint32][]pwEntry, error) {
	v, err := x.ParseView(d, start)
	if err != nil {
		return nil, err
	}
	bs := int(v.BlockSize)
	limit := bs
	if v.RoCompat&0x400 != 0 {
		limit -= 12
	}
	le := binary.LittleEndian
	out := map[uint32][]pwEntry{}
	queue := []uint32{2}
	for len(queue) > 0 {
		ino := queue[0]
		queue = queue[1:]
		if _, done := out[ino]; done {
			continue
		}
		data, _, err := inodeBlocks(v, d, start, ino)
		if err != nil {
			return nil, err
		}
		var es []pwEntry
		for _, r := range data {
			for k := 0; k < r.Count; k++ {
				blk := d.Bytes(start+int64(r.Pos+k)*int64(bs), bs)
				for i := 0; i+8 <= limit; {
					eino, rl, nl, ty := le.Uint32(blk[i:]), int(le.Uint16(blk[i+4:])), int(blk[i+6]), blk[i+7]
					if rl < 8 || i+rl > limit || 8+nl > rl {
						return nil, fmt.Errorf("directory inode %d: bad record at %d of block %d", ino, i, r.Pos+k)
					}
					if eino != 0 && nl != 0 {
						es = append(es, pwEntry{name: string(blk[i+8 : i+8+nl]), ino: eino, ty: ty})
					}
					i += rl
				}
			}
		}
		out[ino] = es
		for _, e := range es {
			if e.ty == 2 && e.name != "." && e.name != ".." {
				queue = append(queue, e.ino)
			}
		}
	}
	return out, nil
}

func dirsText(m map[uint32][]pwEntry) string {
	inos := make([]int, 0, len(m))
	for i := range m {
		inos = append(inos, int(i))
	}
	sort.Ints(inos)
	var ds []string
	for _, i := range inos {
		var es []string
		for _, e := range m[uint32(i)] {
			es = append(es, fmt.Sprintf("%x/%d/%d", e.name, e.ino, e.ty))
		}
		ds = append(ds, fmt.Sprintf("%d:%s", i, strings.Join(es, ",")))
	}
	return strings.Join(ds, ";")
}

func (e *engine) pathWalks() {
	c := e.c
	if e.fsck {
		return // C04's family (mode=tree)
	}
	cfgs := []x.Config{
		{Name: "1k-nojournal", Size: 16 * MiB, Journal: x.B(false)},
		{Name: "1k-csum", Size: 16 * MiB, Csum: x.B(true)},
	}
	if c.Thorough() {
		cfgs = append(cfgs,
			x.Config{Name: "4k-csum-nojournal", Size: 16 * MiB, SPB: 8, Resize: x.B(false), Csum: x.B(true), Journal: x.B(false)},
			x.Config{Name: "2k-nojournal", Size: 16 * MiB, SPB: 4, Resize: x.B(false), Journal: x.B(false)},
			x.Config{Name: "1k-start", Size: 16 * MiB, Start: 1*MiB + 1536},
			x.Config{Name: "1k-3groups", Size: 20 * MiB, Journal: x.B(false)},
		)
	}
	for k, cfg := range cfgs {
		name := fmt.Sprintf("pathwalk%d", k)
		rng := c.Rng.Fork() // forked whether or not the history is wanted: --only must not shift the later histories
		if e.wantHist(name) {
			e.pathWalk(name, cfg, rng)
		}
	}
}

func (e *engine) pathWalk(name string, cfg x.Config, rng *hx.Rng) {
	c := e.c
	var trace []string
	repro := func() string {
		return fmt.Sprintf("history %s cfg=%s [%s]: %s", name, cfg.Name, cfg.String(), strings.Join(trace, "; "))
	}
	d, fs, err, panicked := x.Create(cfg)
	if err != nil {
		c.Fail(name+"/create", "-", fmt.Sprintf("Create failed (panic=%v): %v", panicked, err), repro())
		return
	}
	view, verr := x.ParseView(d, cfg.Start)
	if verr != nil {
		c.Fail(name+"/create", "-", "cannot parse the superblock Create wrote: "+verr.Error(), repro())
		return
	}
	r := newRef()
	rn := &runner{fs: fs, ref: r, bs: int64(view.BlockSize)}
	c.Stat("histories.pathwalk." + cfg.Name)
	step := 0
	do := func(o op) bool {
		id := fmt.Sprintf("%s/b%d", name, step)
		step++
		trace = append(trace, o.String())
		if len(trace) > 60 {
			trace = append([]string{"…"}, trace[len(trace)-59:]...)
		}
		out := rn.exec(o)
		if out.panicked != "" || out.problem != "" || out.refused != nil {
			c.Fail(id, "-", fmt.Sprintf("%s: %s: refused=%v panic=%s %s", cfg.Name, o.String(), out.refused, out.panicked, out.problem), repro())
			return false
		}
		return true
	}
	// the tree: a chain of directories with siblings whose names are prefixes / extensions of each other
	names := []string{"a", "ab", "abc", "b", "a.b", "A", "dir with space", "x"}
	cur := "."
	var dirs []string
	depth := 3 + rng.Intn(3)
	for lvl := 0; lvl < depth; lvl++ {
		n := 2 + rng.Intn(3)
		var made []string
		for i := 0; i < n; i++ {
			nm := names[(lvl+i*3+rng.Intn(2))%len(names)]
			p := join(cur, nm)
			if r.lookup(p) != nil {
				continue
			}
			if !do(op{kind: "mkdir", path: p}) {
				return
			}
			made = append(made, p)
			dirs = append(dirs, p)
		}
		if len(made) == 0 {
			break
		}
		cur = made[rng.Intn(len(made))]
	}
	// files and symlinks in some of the directories
	var files, links []string
	for i, dp := range append([]string{"."}, dirs...) {
		if i > 0 && rng.Chance(30) {
			continue
		}
		for _, nm := range []string{"f", "ff", "a"} {
			p := join(dp, nm)
			if r.lookup(p) != nil || rng.Chance(35) {
				continue
			}
			if !do(op{kind: "create", path: p}) {
				return
			}
			files = append(files, p)
		}
		if len(dirs) > 0 && rng.Chance(60) {
			p := join(dp, "ln")
			if r.lookup(p) == nil {
				if !do(op{kind: "symlink", path: p, target: "/" + dirs[rng.Intn(len(dirs))]}) {
					return
				}
				links = append(links, p)
			}
		}
		if len(files) > 0 && rng.Chance(30) {
			p := join(dp, "lf")
			if r.lookup(p) == nil {
				if !do(op{kind: "symlink", path: p, target: "f"}) {
					return
				}
				links = append(links, p)
			}
		}
	}
	// one directory that needs a second block
	if len(dirs) > 0 {
		big := dirs[rng.Intn(len(dirs))]
		for i := 0; i < 24; i++ {
			if !do(op{kind: "create", path: join(big, fmt.Sprintf("long-name-%02d-%s", i, strings.Repeat("n", 40)))}) {
				return
			}
		}
		c.Stat("pathwalk.dir-multi-block")
	}
	table, err := readDirsFromImage(d, cfg.Start)
	if err != nil {
		c.Fail(name+"/dirs", "-", "the directories of the image cannot be parsed: "+err.Error(), repro())
		return
	}
	text := dirsText(table)
	typeOf := map[uint32]byte{2: 2}
	for _, es := range table {
		for _, en := range es {
			if en.name != "." && en.name != ".." {
				typeOf[en.ino] = en.ty
			}
		}
	}
	// the paths to resolve
	paths := append([]string{"."}, r.walk()...)
	for _, p := range r.walk() {
		n := r.lookup(p)
		switch {
		case n.kind == kDir:
			paths = append(paths, join(p, "missing"), join(p, "missing/deeper"), join(p, "f/x"))
		case n.kind == kFile && rng.Chance(50):
			paths = append(paths, join(p, "x"), join(p, "x/y")) // through a file
		case n.kind == kLink:
			paths = append(paths, join(p, "f"), join(p, "a"), join(p, "a/f")) // through a symlink: not followed
		}
	}
	paths = append(paths, "missing", "missing/f", "a/b/c/d/e/f/g")
	seen := map[string]bool{}
	k := 0
	for _, p := range paths {
		if seen[p] {
			continue
		}
		seen[p] = true
		id := fmt.Sprintf("%s/p%d", name, k)
		k++
		if !c.Want(id) {
			continue
		}
		var ino uint32
		var lerr error
		if pn := catch(func() { ino, lerr = fs.V04EntryInode(p) }); pn != "" {
			c.Fail(id, "-", fmt.Sprintf("%s: getEntryAndParent(%q) panics: %s", cfg.Name, p, pn), repro())
			return
		}
		res := "absent"
		switch {
		case lerr != nil:
			res = "noparent"
		case ino != 0:
			res = fmt.Sprintf("entry=%d", ino)
		}
		c.Case(id, "ext4path.lookup", "dirs="+text, "p="+hx.Hex([]byte(p)))
		c.Impl(id, res)
		// oracle: the reference tree decides what must resolve, and to what kind of inode
		n := r.lookup(p)
		want := map[int]byte{kFile: 1, kDir: 2, kLink: 7}
		switch {
		case n != nil && ino == 0:
			c.Fail(id, "-", fmt.Sprintf("%s: %q exists in the reference tree, the library finds %s (%v)", cfg.Name, p, res, lerr), repro())
			return
		case n != nil && typeOf[ino] != want[n.kind]:
			c.Fail(id, "-", fmt.Sprintf("%s: %q resolves to inode %d whose entry type on disk is %d, the reference has kind %d", cfg.Name, p, ino, typeOf[ino], n.kind), repro())
			return
		case n == nil && ino != 0:
			c.Fail(id, "-", fmt.Sprintf("%s: %q does not exist in the reference tree, the library resolves it to inode %d", cfg.Name, p, ino), repro())
			return
		}
		c.Stat("pathwalk." + strings.SplitN(res, "=", 2)[0])
		c.OK(id)
	}
	c.Distinct(fmt.Sprintf("%s|%s|%d|%d|%d|%d", name, cfg.Name, len(dirs), len(files), len(links), k))
	if name == "pathwalk0" {
		c.Sample(repro())
	}
}
