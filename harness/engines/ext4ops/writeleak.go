package ext4ops

// Finding ext4-write-refused-leaks-blocks (C05, listed): File.Write allocates the data blocks before extendExtentTree
// asks for the block of a tree node; when the new extents do not fit into the inode and no block is left for the
// node, the write is refused and the data blocks stay marked with no owner.

import (
	"fmt"
	"strings"

	x "verif/harness/engines/ext4common"
)

const tagWriteLeak = "ext4-write-refused-leaks-blocks"

// defWriteLeak: the witness reproduced on the tree under test (set by probeDefects in mode=fsck)
var defWriteLeak bool

// writeLeakSymptom: trigger = a write / append refused by the extent tree code after the allocation of the data
// blocks succeeded; symptom = e2fsck finds blocks marked that nothing uses (and nothing about inodes)
func writeLeakSymptom(refused error, fout string) bool {
	return refused != nil && strings.Contains(refused.Error(), "could not convert extents into tree") &&
		strings.Contains(fout, "Block bitmap differences") && !strings.Contains(fout, "Inode bitmap differences") &&
		!strings.Contains(fout, "Block bitmap differences:  +") && !strings.Contains(fout, "Block bitmap differences: +")
}

// witnessWriteLeak: 12 one-block files, the rest of the volume filled, every other small file removed (six single
// free blocks), then one Write of six blocks to a new file: six extents do not fit the inode and there is no block
// for a leaf.
func witnessWriteLeak(scratch string) (bool, string) {
	cfg, d, fs, err := smallVolume()
	if err != nil {
		return false, "cannot create volume: " + err.Error()
	}
	r := newRef()
	rn := &runner{fs: fs, ref: r, bs: 1024}
	do := func(o op) (outcome, bool) {
		out := rn.exec(o)
		return out, out.refused == nil && out.panicked == "" && out.problem == ""
	}
	for i := 0; i < 12; i++ {
		p := fmt.Sprintf("fq%d", i)
		if out, ok := do(op{kind: "create", path: p}); !ok {
			return false, fmt.Sprintf("create %s: %v %s", p, out.refused, out.panicked)
		}
		if out, ok := do(op{kind: "append", path: p, chunks: [][]byte{make([]byte, 1024)}}); !ok {
			return false, fmt.Sprintf("append %s: %v %s", p, out.refused, out.panicked)
		}
	}
	v, err := x.ParseView(d, cfg.Start)
	if err != nil {
		return false, "superblock unreadable: " + err.Error()
	}
	if out, ok := do(op{kind: "create", path: "big"}); !ok {
		return false, fmt.Sprintf("create big: %v %s", out.refused, out.panicked)
	}
	if out, ok := do(op{kind: "append", path: "big", chunks: [][]byte{make([]byte, int(v.FreeBlocks)*1024)}}); !ok {
		return false, fmt.Sprintf("fill: %v %s", out.refused, out.panicked)
	}
	for i := 0; i < 12; i += 2 {
		if out, ok := do(op{kind: "remove", path: fmt.Sprintf("fq%d", i)}); !ok {
			return false, fmt.Sprintf("remove fq%d: %v %s", i, out.refused, out.panicked)
		}
	}
	if out, ok := do(op{kind: "create", path: "frag"}); !ok {
		return false, fmt.Sprintf("create frag: %v %s", out.refused, out.panicked)
	}
	out, _ := do(op{kind: "append", path: "frag", chunks: [][]byte{make([]byte, 6*1024)}})
	if out.panicked != "" {
		return false, "the write panics: " + out.panicked
	}
	if out.refused == nil {
		return false, "a 6-block write over six single free blocks is accepted"
	}
	ok, fout := x.FsckDev(d, cfg.Start, cfg.Size, scratch, "wl")
	what := fmt.Sprintf("one Write of 6144 bytes over six single free blocks: refused (%v); e2fsck clean=%v: %s", out.refused, ok, x.FsckSummary(fout))
	return !ok && writeLeakSymptom(out.refused, fout), what
}
