package ext4ops

import (
	"fmt"
	"io"
	"os"
	"path"
	"strings"
	"time"

	"github.com/diskfs/go-diskfs/filesystem/ext4"

	"verif/harness/internal/hx"
)

type op struct {
	kind    string // mkdir create write append alt readat symlink remove chmod chown chtimes bad-*
	path    string
	path2   string
	off     int64
	n       int // readat length
	chunks  [][]byte
	chunks2 [][]byte
	target  string
	mode    os.FileMode
	uid     int
	gid     int
	tm      [3]time.Time
}

func lens(cs [][]byte) string {
	s := make([]string, len(cs))
	for i, c := range cs {
		s[i] = fmt.Sprint(len(c))
	}
	return strings.Join(s, "+")
}

func (o op) String() string {
	switch o.kind {
	case "mkdir", "create", "remove", "bad-remove-missing", "bad-remove-nonempty", "bad-open-missing", "bad-mkdir-through-file", "bad-create-nodir":
		return fmt.Sprintf("%s(%s)", o.kind, shortPath(o.path))
	case "write":
		return fmt.Sprintf("write(%s off=%d len=%s)", shortPath(o.path), o.off, lens(o.chunks))
	case "append":
		return fmt.Sprintf("append(%s len=%s)", shortPath(o.path), lens(o.chunks))
	case "trunc":
		return fmt.Sprintf("trunc(%s len=%s)", shortPath(o.path), lens(o.chunks))
	case "alt":
		return fmt.Sprintf("alt(%s len=%s ; %s len=%s)", shortPath(o.path), lens(o.chunks), shortPath(o.path2), lens(o.chunks2))
	case "readat":
		return fmt.Sprintf("readat(%s off=%d n=%d)", shortPath(o.path), o.off, o.n)
	case "symlink", "bad-symlink-exists":
		return fmt.Sprintf("%s(%s -> %d-byte target %q)", o.kind, shortPath(o.path), len(o.target), short60(o.target))
	case "chmod":
		return fmt.Sprintf("chmod(%s %o)", shortPath(o.path), uint32(o.mode.Perm())|specialToOctal(o.mode))
	case "chown":
		return fmt.Sprintf("chown(%s %d:%d)", shortPath(o.path), o.uid, o.gid)
	case "chtimes":
		return fmt.Sprintf("chtimes(%s c=%d a=%d m=%d)", shortPath(o.path), o.tm[0].UnixNano(), o.tm[1].UnixNano(), o.tm[2].UnixNano())
	}
	return o.kind
}

func specialToOctal(m os.FileMode) uint32 {
	var v uint32
	if m&os.ModeSetuid != 0 {
		v |= 0o4000
	}
	if m&os.ModeSetgid != 0 {
		v |= 0o2000
	}
	if m&os.ModeSticky != 0 {
		v |= 0o1000
	}
	return v
}

func short60(s string) string {
	if len(s) > 24 {
		return s[:24] + "…"
	}
	return s
}

func shortPath(p string) string {
	parts := strings.Split(p, "/")
	for i, s := range parts {
		if len(s) > 12 {
			parts[i] = fmt.Sprintf("%s…(%d)", s[:8], len(s))
		}
	}
	return strings.Join(parts, "/")
}

// ---- generation ------------------------------------------------------------------

type gen struct {
	r               *hx.Rng
	ref             *ref
	bs              int64
	seq             int
	budget          int  // soft cap on total file bytes (0 = none: run into ENOSPC)
	noRemove        bool // leave Remove out of this history
	gaps            bool // allow writes that start beyond EOF
	longName        bool // this history uses long names (directories grow past a block quickly)
	maxTarget       int  // longest symlink target generated (0 = 4095)
	maxName         int  // longest name generated (247 while the name-length wrap defect is present, else 255)
	keepInlineLinks bool // do not Remove symlinks with inline targets (known nil dereference)
	trunc           bool // OpenFile honours O_TRUNC on this tree (probe): re-opening an existing file with O_TRUNC is part of the histories
}

func (g *gen) newName(prefix string) string {
	g.seq++
	if g.longName && g.r.Chance(70) {
		n := 40 + g.r.Intn(200)
		if g.r.Chance(10) {
			n = 248 + g.r.Intn(8)
		}
		if n > g.maxName {
			n = g.maxName
		}
		s := fmt.Sprintf("%s%d_", prefix, g.seq)
		for len(s) < n {
			s += string(rune('a' + g.r.Intn(26)))
		}
		return s[:n]
	}
	return fmt.Sprintf("%s%d", prefix, g.seq)
}

func join(d, n string) string {
	if d == "." || d == "" {
		return n
	}
	return d + "/" + n
}

func (g *gen) pickLen() int {
	bs := int(g.bs)
	r := g.r
	switch x := r.Intn(100); {
	case x < 3:
		return 0
	case x < 20:
		return 1 + r.Intn(bs-1)
	case x < 38:
		return (1+r.Intn(6))*bs + r.Intn(3) - 1
	case x < 48:
		return 1500
	case x < 78:
		return 2*bs + r.Intn(64<<10)
	case x < 94:
		return 64<<10 + r.Intn(1<<20)
	default:
		return 1<<20 + r.Intn(2<<20)
	}
}

func (g *gen) chunksOf(n int) [][]byte {
	data := g.r.Bytes(n)
	k := 1
	if g.r.Chance(40) {
		k = 2 + g.r.Intn(3)
	}
	if n < k {
		return [][]byte{data}
	}
	var out [][]byte
	for i := 0; i < k-1; i++ {
		c := 1 + g.r.Intn(len(data))
		if g.r.Chance(30) {
			c = 1500
		}
		if c >= len(data) {
			break
		}
		out = append(out, data[:c])
		data = data[c:]
	}
	return append(out, data)
}

func (g *gen) pickTime() time.Time {
	// 1970 … 2100, nanosecond resolution
	sec := g.r.Int63n(4102444800)
	if g.r.Chance(20) {
		sec = g.r.Int63n(1 << 31)
	}
	return time.Unix(sec, g.r.Int63n(1000000000))
}

func (g *gen) symlinkTarget() string {
	r := g.r
	files := g.ref.ofKind(kFile)
	if len(files) > 0 && r.Chance(25) {
		// a resolvable relative target (never another symlink: the library recurses without a depth limit)
		return "" // filled by caller relative to link dir
	}
	var n int
	switch x := r.Intn(100); {
	case x < 45:
		n = 56 + r.Intn(8) // 56 … 63: both sides of the 60-byte inline limit
	case x < 60:
		n = 1 + r.Intn(55)
	case x < 80:
		n = 64 + r.Intn(400)
	case x < 92:
		n = int(g.bs) - 2 + r.Intn(5)
	default:
		n = int(g.bs) + r.Intn(3000-int(g.bs)%3000+1)
	}
	if n > 4095 {
		n = 4095
	}
	if g.maxTarget > 0 && n > g.maxTarget {
		n = g.maxTarget
	}
	b := make([]byte, n)
	for i := range b {
		b[i] = byte('a' + r.Intn(26))
		if i%9 == 8 {
			b[i] = '/'
		}
	}
	b[0] = 'z' // never resolves to an existing name (all generated names start with f/d/s)
	return string(b)
}

func relTo(dir, target string) string {
	// a relative path from dir to target using only ".." steps and the full path
	up := ""
	if dir != "." && dir != "" {
		up = strings.Repeat("../", len(strings.Split(dir, "/")))
	}
	return up + target
}

// next produces one operation that the reference accepts (or a bad-* one it refuses).
func (g *gen) next() op {
	r := g.r
	ref := g.ref
	for tries := 0; tries < 50; tries++ {
		files := ref.ofKind(kFile)
		dirs := ref.dirs()
		all := ref.walk()
		x := r.Intn(100)
		switch {
		case x < 8:
			d := hx.Pick(r, dirs)
			p := join(d, g.newName("d"))
			if r.Chance(25) {
				p = join(p, g.newName("d"))
			}
			if strings.Count(p, "/") > 5 {
				continue
			}
			return op{kind: "mkdir", path: p}
		case x < 22:
			d := hx.Pick(r, dirs)
			return op{kind: "create", path: join(d, g.newName("f"))}
		case x < 38:
			if len(files) == 0 {
				continue
			}
			p := hx.Pick(r, files)
			L := int64(len(ref.lookup(p).data))
			n := g.pickLen()
			if g.budget > 0 && ref.totalBytes()+n > g.budget {
				n = 1 + r.Intn(int(g.bs))
			}
			if g.trunc && r.Chance(25) {
				// the file is opened again with O_TRUNC (large files preferred: they have several extents, the
				// largest a tree below the inode) and gets new contents, now and then none at all
				for k := 0; k < 3; k++ {
					if q := hx.Pick(r, files); len(ref.lookup(q).data) > len(ref.lookup(p).data) {
						p = q
					}
				}
				if r.Chance(20) {
					return op{kind: "trunc", path: p}
				}
				return op{kind: "trunc", path: p, chunks: g.chunksOf(n)}
			}
			var off int64
			switch y := r.Intn(100); {
			case y < 15:
				off = 0
			case y < 40 && L > 0: // inside: overlap, maybe unchanged size
				off = r.Int63n(L)
				if r.Chance(50) && L-off > 0 {
					n = 1 + r.Intn(int(L-off)) // stays inside: size unchanged
				}
			case y < 55:
				off = L
			case y < 75 && L > 0: // block aligned inside or at the end
				off = r.Int63n(L/g.bs+1) * g.bs
				if off > L {
					off = L
				}
			case y < 80 && g.gaps:
				off = L + 1 + r.Int63n(3*g.bs)
			default:
				if L > 0 {
					off = r.Int63n(L + 1)
				}
			}
			return op{kind: "write", path: p, off: off, chunks: g.chunksOf(n)}
		case x < 52:
			if len(files) == 0 {
				continue
			}
			p := hx.Pick(r, files)
			n := g.pickLen()
			if g.budget > 0 && ref.totalBytes()+n > g.budget {
				n = 1 + r.Intn(int(g.bs))
			}
			return op{kind: "append", path: p, chunks: g.chunksOf(n)}
		case x < 56:
			if len(files) < 2 {
				continue
			}
			a := hx.Pick(r, files)
			b := hx.Pick(r, files)
			if a == b {
				continue
			}
			k := 2 + r.Intn(4)
			step := 1500
			if r.Chance(50) {
				step = 1 + r.Intn(3*int(g.bs))
			}
			var ca, cb [][]byte
			for i := 0; i < k; i++ {
				ca = append(ca, r.Bytes(step))
				cb = append(cb, r.Bytes(step))
			}
			return op{kind: "alt", path: a, path2: b, chunks: ca, chunks2: cb}
		case x < 64:
			if len(files) == 0 {
				continue
			}
			p := hx.Pick(r, files)
			L := int64(len(ref.lookup(p).data))
			off := int64(0)
			if L > 0 {
				off = r.Int63n(L + 2)
				if r.Chance(30) {
					off = r.Int63n(L/g.bs+1) * g.bs
				}
			}
			n := 1 + r.Intn(3*int(g.bs))
			if r.Chance(20) {
				n = 1 + r.Intn(200000)
			}
			return op{kind: "readat", path: p, off: off, n: n}
		case x < 72:
			d := hx.Pick(r, dirs)
			lp := join(d, g.newName("s"))
			t := g.symlinkTarget()
			if t == "" {
				t = relTo(d, hx.Pick(r, files))
			}
			return op{kind: "symlink", path: lp, target: t}
		case x < 78:
			if g.noRemove || len(all) == 0 {
				continue
			}
			p := hx.Pick(r, all)
			if r.Chance(30) {
				// prefer an empty directory now and then: Remove of a directory moves the parent's link count and
				// the used-directories counter
				var empty []string
				for _, q := range all {
					if m := ref.lookup(q); m != nil && m.kind == kDir && len(m.kids) == 0 {
						empty = append(empty, q)
					}
				}
				if len(empty) > 0 {
					p = hx.Pick(r, empty)
				}
			}
			n := ref.lookup(p)
			if n.kind == kDir && len(n.kids) > 0 {
				continue
			}
			if g.keepInlineLinks && n.kind == kLink && len(n.target) < 60 {
				continue
			}
			return op{kind: "remove", path: p}
		case x < 83:
			if len(all) == 0 {
				continue
			}
			p := hx.Pick(r, all)
			if rp, n := ref.resolve(p, 0); n == nil || rp == "" {
				continue // dangling symlink: the call is refused
			}
			m := os.FileMode(r.Intn(0o1000))
			if r.Chance(30) {
				m |= hx.Pick(r, []os.FileMode{os.ModeSetuid, os.ModeSetgid, os.ModeSticky, os.ModeSetuid | os.ModeSetgid | os.ModeSticky})
			}
			return op{kind: "chmod", path: p, mode: m}
		case x < 88:
			if len(all) == 0 {
				continue
			}
			p := hx.Pick(r, all)
			if _, n := ref.resolve(p, 0); n == nil {
				continue
			}
			uid, gid := r.Intn(70000), r.Intn(70000)
			if r.Chance(15) {
				uid = 1 << 16 * (1 + r.Intn(30000))
			}
			if r.Chance(15) {
				uid = -1
			}
			if r.Chance(15) {
				gid = -1
			}
			return op{kind: "chown", path: p, uid: uid, gid: gid}
		case x < 93:
			if len(all) == 0 {
				continue
			}
			p := hx.Pick(r, all)
			return op{kind: "chtimes", path: p, tm: [3]time.Time{g.pickTime(), g.pickTime(), g.pickTime()}}
		default:
			// calls the reference refuses; the library has to refuse them too
			switch r.Intn(6) {
			case 0:
				return op{kind: "bad-remove-missing", path: join(hx.Pick(r, dirs), "zz-missing")}
			case 1:
				for _, d := range dirs {
					if d != "." && len(ref.lookup(d).kids) > 0 {
						return op{kind: "bad-remove-nonempty", path: d}
					}
				}
			case 2:
				return op{kind: "bad-open-missing", path: join(hx.Pick(r, dirs), "zz-missing")}
			case 3:
				if len(files) > 0 {
					return op{kind: "bad-mkdir-through-file", path: join(hx.Pick(r, files), "zz-sub")}
				}
			case 4:
				return op{kind: "bad-create-nodir", path: join(join(hx.Pick(r, dirs), "zz-nodir"), "f")}
			case 5:
				if len(all) > 0 {
					return op{kind: "bad-symlink-exists", path: hx.Pick(r, all), target: "zz-target"}
				}
			}
		}
	}
	return op{kind: "create", path: g.newName("f")}
}

// ---- execution --------------------------------------------------------------------

type outcome struct {
	refused  error  // the library refused the call (reference untouched for the refused part)
	panicked string // a panic escaped the library
	skipLt   bool   // the failure is explained by the extent skip test (`<` for `<=`)
	trailNeg bool   // Write reported an error after writing every byte (empty trailing WriteAt at a negative offset)
	trimmed  bool   // part of the operation was left out to stay clear of a known defect
	problem  string // a direct oracle failure found while executing (short write, wrong read, …)
	touched  []string
}

func isSpace(err error) bool {
	if err == nil {
		return false
	}
	s := err.Error()
	return strings.Contains(s, "blocks free") || strings.Contains(s, "could not allocate") || strings.Contains(s, "no free inodes") ||
		strings.Contains(s, "internal nodes not supported") || strings.Contains(s, "cannot allocate more than")
}

// skipTrigger is the trigger predicate of finding ext4-extent-skip-lt: the transfer starts inside a
// block (not at its first byte) and some extent ends exactly at that block.
func skipTrigger(ex []ext4.V04Extent, bs, off int64) bool {
	if off%bs == 0 {
		return false
	}
	sb := uint64(off / bs)
	for _, e := range ex {
		if uint64(e.FileBlock)+uint64(e.Count) == sb {
			return true
		}
	}
	return false
}

type runner struct {
	fs        *ext4.FileSystem
	ref       *ref
	bs        int64
	avoidSkip bool // the extent-skip defect is present: stay clear of its trigger
}

func catch(f func()) (p string) {
	defer func() {
		if e := recover(); e != nil {
			p = fmt.Sprint(e)
		}
	}()
	f()
	return ""
}

// writeChunks writes chunks through one handle starting at the handle's offset, mirroring each
// accepted chunk into the reference node.
func (rn *runner) writeChunk(f *ext4.File, n *node, chunk []byte, out *outcome) bool {
	off := f.V04Offset()
	if rn.avoidSkip && skipTrigger(f.V04Extents(), rn.bs, off) {
		out.trimmed = true
		return false
	}
	var wn int
	var werr error
	p := catch(func() { wn, werr = f.Write(chunk) })
	if p != "" {
		out.panicked = "File.Write: " + p
		if strings.Contains(p, "makeslice") && skipTrigger(f.V04Extents(), rn.bs, f.V04Offset()) {
			out.skipLt = true
		}
		return false
	}
	if werr != nil {
		if wn == len(chunk) && strings.Contains(werr.Error(), "negative offset") && trailTrigger(f.V04Extents(), rn.bs, off, len(chunk)) {
			out.trailNeg = true
		}
		out.refused = werr
		return false
	}
	if wn != len(chunk) {
		out.problem = fmt.Sprintf("Write returned %d, nil for %d bytes at offset %d", wn, len(chunk), off)
		return false
	}
	n.data = spliceAt(n.data, off, chunk)
	return true
}

func (rn *runner) open(p string, flag int, out *outcome) *ext4.File {
	var f *ext4.File
	var err error
	pp := catch(func() {
		ff, e := rn.fs.OpenFile(p, flag)
		err = e
		if e == nil {
			f, _ = ff.(*ext4.File)
		}
	})
	if pp != "" {
		out.panicked = "OpenFile: " + pp
		return nil
	}
	if err != nil {
		out.refused = err
		return nil
	}
	if f == nil {
		out.problem = "OpenFile returned a nil / foreign handle without error"
	}
	return f
}

func (rn *runner) exec(o op) (out outcome) {
	fs, ref := rn.fs, rn.ref
	call := func(what string, f func() error) bool {
		var err error
		if p := catch(func() { err = f() }); p != "" {
			out.panicked = what + ": " + p
			return false
		}
		if err != nil {
			out.refused = err
			return false
		}
		return true
	}
	switch o.kind {
	case "mkdir":
		if call("Mkdir", func() error { return fs.Mkdir(o.path) }) {
			ref.mkdirAll(o.path)
		}
	case "create":
		f := rn.open(o.path, os.O_CREATE|os.O_RDWR, &out)
		if f != nil {
			d, name := ref.parent(o.path)
			d.kids[name] = &node{kind: kFile}
			f.Close()
		}
	case "write", "append":
		flag := os.O_RDWR
		if o.kind == "append" {
			flag |= os.O_APPEND
		}
		f := rn.open(o.path, flag, &out)
		if f == nil {
			return
		}
		defer f.Close()
		n := ref.lookup(o.path)
		if o.kind == "write" {
			var err error
			if p := catch(func() { _, err = f.Seek(o.off, io.SeekStart) }); p != "" || err != nil {
				out.problem = fmt.Sprintf("Seek(%d): %v %s", o.off, err, p)
				return
			}
		} else if f.V04Offset() != int64(len(n.data)) {
			out.problem = fmt.Sprintf("O_APPEND handle starts at offset %d, file has %d bytes", f.V04Offset(), len(n.data))
			return
		}
		for _, c := range o.chunks {
			if !rn.writeChunk(f, n, c, &out) {
				return
			}
		}
	case "trunc":
		// what CopyFileSystem does for a file the destination already holds: O_CREATE|O_TRUNC|O_RDWR, then the new bytes
		flag := os.O_RDWR | os.O_TRUNC
		if len(o.chunks)%2 == 1 {
			flag |= os.O_CREATE
		}
		f := rn.open(o.path, flag, &out)
		if f == nil {
			return
		}
		defer f.Close()
		n := ref.lookup(o.path)
		n.data = nil
		if f.V04Offset() != 0 || len(f.V04Extents()) != 0 {
			out.problem = fmt.Sprintf("handle opened with O_TRUNC starts at offset %d with %d extents", f.V04Offset(), len(f.V04Extents()))
			return
		}
		for _, c := range o.chunks {
			if !rn.writeChunk(f, n, c, &out) {
				return
			}
		}
	case "alt":
		fa := rn.open(o.path, os.O_RDWR|os.O_APPEND, &out)
		if fa == nil {
			return
		}
		defer fa.Close()
		fb := rn.open(o.path2, os.O_RDWR|os.O_APPEND, &out)
		if fb == nil {
			return
		}
		defer fb.Close()
		na, nb := ref.lookup(o.path), ref.lookup(o.path2)
		for i := range o.chunks {
			if !rn.writeChunk(fa, na, o.chunks[i], &out) {
				return
			}
			if !rn.writeChunk(fb, nb, o.chunks2[i], &out) {
				return
			}
		}
	case "readat":
		f := rn.open(o.path, os.O_RDONLY, &out)
		if f == nil {
			return
		}
		defer f.Close()
		n := ref.lookup(o.path)
		if _, err := f.Seek(o.off, io.SeekStart); err != nil {
			out.problem = fmt.Sprintf("Seek(%d): %v", o.off, err)
			return
		}
		if rn.avoidSkip && o.off < int64(len(n.data)) && skipTrigger(f.V04Extents(), rn.bs, o.off) {
			out.trimmed = true
			return
		}
		want := []byte{}
		if o.off < int64(len(n.data)) {
			end := o.off + int64(o.n)
			if end > int64(len(n.data)) {
				end = int64(len(n.data))
			}
			want = n.data[o.off:end]
		}
		buf := make([]byte, o.n)
		got := 0
		var rerr error
		for got < len(want) {
			var k int
			p := catch(func() { k, rerr = f.Read(buf[got:]) })
			if p != "" {
				out.panicked = "File.Read: " + p
				if strings.Contains(p, "makeslice") && skipTrigger(f.V04Extents(), rn.bs, f.V04Offset()) {
					out.skipLt = true
				}
				return
			}
			got += k
			if rerr != nil || k == 0 {
				break
			}
		}
		if rerr != nil && rerr != io.EOF {
			out.problem = fmt.Sprintf("Read at %d of a %d-byte file the library wrote failed: %v", o.off, len(n.data), rerr)
			return
		}
		if got != len(want) || string(buf[:got]) != string(want) {
			out.problem = fmt.Sprintf("Read(%d bytes at %d) of a %d-byte file: got %d bytes, want %d; %s", o.n, o.off, len(n.data), got, len(want), firstDiff(buf[:got], want))
		}
	case "symlink":
		if call("Symlink", func() error { return fs.Symlink(o.target, o.path) }) {
			d, name := ref.parent(o.path)
			d.kids[name] = &node{kind: kLink, target: o.target}
		}
	case "remove":
		if call("Remove", func() error { return fs.Remove(o.path) }) {
			d, name := ref.parent(o.path)
			delete(d.kids, name)
		}
	case "chmod":
		if call("Chmod", func() error { return fs.Chmod(o.path, o.mode) }) {
			_, n := ref.resolve(o.path, 0)
			n.hasMode, n.mode = true, o.mode&(os.ModePerm|specialBits)
		}
	case "chown":
		if call("Chown", func() error { return fs.Chown(o.path, o.uid, o.gid) }) {
			_, n := ref.resolve(o.path, 0)
			if o.uid != -1 {
				n.hasUID, n.uid = true, uint32(o.uid)
			}
			if o.gid != -1 {
				n.hasGID, n.gid = true, uint32(o.gid)
			}
		}
	case "chtimes":
		if call("Chtimes", func() error { return fs.Chtimes(o.path, o.tm[0], o.tm[1], o.tm[2]) }) {
			n := ref.lookup(o.path)
			n.hasTimes, n.ctime, n.atime, n.mt = true, o.tm[0], o.tm[1], o.tm[2]
		}
	case "bad-remove-missing", "bad-remove-nonempty":
		if call("Remove", func() error { return fs.Remove(o.path) }) {
			out.problem = "Remove of a missing name / non-empty directory was accepted"
		}
	case "bad-open-missing":
		if f := rn.open(o.path, os.O_RDWR, &out); f != nil {
			out.problem = "OpenFile without O_CREATE of a missing name was accepted"
		}
	case "bad-mkdir-through-file":
		if call("Mkdir", func() error { return fs.Mkdir(o.path) }) {
			out.problem = "Mkdir below a regular file was accepted"
		}
	case "bad-create-nodir":
		if f := rn.open(o.path, os.O_CREATE|os.O_RDWR, &out); f != nil {
			out.problem = "creating a file in a missing directory was accepted"
		}
	case "bad-symlink-exists":
		if call("Symlink", func() error { return fs.Symlink(o.target, o.path) }) {
			out.problem = "Symlink over an existing name was accepted"
		}
	}
	return
}

// expectRefusal reports whether the reference itself refuses the op.
func (o op) expectRefusal() bool { return strings.HasPrefix(o.kind, "bad-") }

var _ = path.Base
