package ext4ops

// Function-level cases of the extent-tree mirror (Lean: Model/Ext4/ExtTree.lean):
//
//   exttree<k>/s<i>  growth sequences: the real extendExtentTree (hook V04bExtend) is driven on a real volume with
//                    generated extents; after every step the root is taken from the handle and EVERY node below it
//                    is re-read FROM THE DEVICE (the blocks the pointers name, parsed by the engine's own decoder)
//                    and the whole tree is compared with the Lean model's (`ext4tree.extend`); the blocks the tree
//                    nodes get are predicted from the block bitmaps (the allocator's fast path).
//   exttree<k>/s<i>/f  blocks() and extentTreeBlocks of the real code on that tree vs `flatten` / `treeBlocks`.
//   extcodec/<i>     toBytes / parseExtents on generated nodes and on damaged node bytes (`ext4tree.enc`, `.parse`).

import (
	"fmt"
	"os"
	"strings"

	"github.com/diskfs/go-diskfs/filesystem/ext4"

	x "verif/harness/engines/ext4common"
	"verif/harness/internal/hx"
	"verif/harness/internal/memdev"
)

const tagIndexFull = "ext4-extent-node-overfull-panic"

// asFoundFull: a leaf split under a full on-disk index node panics in the tree under test (set by the witness); the
// Lean mirror is run with the same switch (`full=0` as found, `full=1` repaired: the call is refused).
var asFoundFull bool

func fullArg() string {
	if asFoundFull {
		return "full=0"
	}
	return "full=1"
}

// witnessIndexFull: one extent per extendExtentTree call on a 1 KiB volume until the second-level index node under
// the root is full (84 leaves) and its last leaf splits: about 3650 calls.
func witnessIndexFull() (bool, string) {
	cfg := x.Config{Name: "witness", Size: 16 * MiB, Journal: x.B(false)}
	_, fs, err, _ := x.Create(cfg)
	if err != nil {
		return false, "Create failed: " + err.Error()
	}
	ff, err := fs.OpenFile("t", os.O_CREATE|os.O_RDWR)
	if err != nil {
		return false, "cannot create a file: " + err.Error()
	}
	f := ff.(*ext4.File)
	for i := 0; i < 4000; i++ {
		var xerr error
		p := catch(func() {
			_, xerr = f.V04bExtend([]ext4.V04Extent{{FileBlock: uint32(i), Start: uint64(1<<30 + 2*i), Count: 1}})
		})
		if p != "" {
			return strings.Contains(p, "slice bounds out of range"), fmt.Sprintf("extendExtentTree panics at the %dth one-extent call on a file of a 1 KiB-block volume: %s", i+1, p)
		}
		if xerr != nil {
			return false, fmt.Sprintf("the %dth one-extent call is refused: %v", i+1, xerr)
		}
	}
	return false, "4000 one-extent calls accepted"
}

// witnessBurstSplit: the second trigger of the same finding: 4 extents in the inode, then 200 in one call: a half of
// the 204 does not fit a 1 KiB block (84 entries).
func witnessBurstSplit() (bool, string) {
	cfg := x.Config{Name: "witness", Size: 16 * MiB, Journal: x.B(false)}
	_, fs, err, _ := x.Create(cfg)
	if err != nil {
		return false, "Create failed: " + err.Error()
	}
	ff, err := fs.OpenFile("t", os.O_CREATE|os.O_RDWR)
	if err != nil {
		return false, "cannot create a file: " + err.Error()
	}
	f := ff.(*ext4.File)
	mk := func(from, n int) []ext4.V04Extent {
		var out []ext4.V04Extent
		for i := from; i < from+n; i++ {
			out = append(out, ext4.V04Extent{FileBlock: uint32(i), Start: uint64(1<<30 + 2*i), Count: 1})
		}
		return out
	}
	var xerr error
	if p := catch(func() { _, xerr = f.V04bExtend(mk(0, 4)) }); p != "" || xerr != nil {
		return false, fmt.Sprintf("the first four extents: %v %s", xerr, p)
	}
	p := catch(func() { _, xerr = f.V04bExtend(mk(4, 200)) })
	if p != "" {
		return strings.Contains(p, "slice bounds out of range"), "extendExtentTree with 200 extents for a 4-extent root leaf (1 KiB blocks) panics: " + p
	}
	return false, fmt.Sprintf("extendExtentTree with 200 extents for a 4-extent root leaf: %v", xerr)
}

// splitOverfullTrigger: the leaf the new extents go to cannot take them and a half of all of them does not fit a block
func splitOverfullTrigger(t *dnode, nAdd int, bs int64) bool {
	if t == nil {
		return false
	}
	l := t
	for l.depth > 0 && len(l.kids) > 0 {
		l = l.kids[len(l.kids)-1]
	}
	total := len(l.extents) + nAdd
	mx := int(bs-12) / 12
	if l.depth != 0 || total <= l.max {
		return false
	}
	if t.depth == 0 && total <= mx {
		return false // promoted into one leaf
	}
	return total-total/2 > mx
}

// liveTree: the root as the handle holds it, every node below it as it is on the device
func liveTree(f *ext4.File, d *memdev.Dev, start, bs int64) (*dnode, error) {
	root := f.V04bRoot()
	if root == nil {
		return nil, nil
	}
	nd := &dnode{disk: root.Disk, max: int(root.Max), depth: int(root.Depth)}
	if root.Leaf {
		nd.depth = 0
		nd.extents = root.Extents
		return nd, nil
	}
	for _, p := range root.Ptrs {
		if p.Disk == 0 || int64(p.Disk+1)*bs > d.Size()-start {
			return nil, fmt.Errorf("root pointer to block %d", p.Disk)
		}
		k, err := decodeNode(d, start, bs, d.Bytes(start+int64(p.Disk)*bs, int(bs)), p.Disk, int(root.Depth)-1)
		if err != nil {
			return nil, err
		}
		nd.keys = append(nd.keys, p.FileBlock)
		nd.kids = append(nd.kids, k)
	}
	return nd, nil
}

func treeText(n *dnode) string {
	if n == nil {
		return "-"
	}
	return n.String()
}

func extErr(err error, panicked string) string {
	switch {
	case panicked != "":
		return "panic"
	case err == nil:
		return ""
	case strings.Contains(err.Error(), "block number not found"), strings.Contains(err.Error(), "could not find old child"):
		return "err=notfound"
	case strings.Contains(err.Error(), "not supported"), strings.Contains(err.Error(), "cannot create root internal node"):
		return "err=unsupported"
	case strings.Contains(err.Error(), "allocate"), strings.Contains(err.Error(), "blocks free"):
		return "err=nospace"
	}
	return "err=other:" + err.Error()
}

type treeSeq struct {
	name    string
	cfg     x.Config
	steps   int
	mode    string // mixed | single | burst | full
	frag    bool   // fragment the free space first
	sparse  int    // emit a case every `sparse` steps only (and at every step that changes the node count); 0: every step
}

func exttreeCases(c *hx.Ctx, r *hx.Rng) {
	k1 := x.Config{Name: "1k-nojournal", Size: 16 * MiB, Journal: x.B(false)}
	k1s := x.Config{Name: "1k-start", Size: 16 * MiB, Start: 1*MiB + 1536}
	k2 := x.Config{Name: "2k-nojournal", Size: 16 * MiB, SPB: 4, Resize: x.B(false), Journal: x.B(false)}
	k3g := x.Config{Name: "1k-3groups", Size: 20 * MiB, Journal: x.B(false)}
	seqs := []treeSeq{
		{name: "exttree0", cfg: k1, steps: 300, mode: "single"},
		{name: "exttree1", cfg: k1s, steps: 170, mode: "mixed", frag: true},
		{name: "exttree2", cfg: k3g, steps: 12, mode: "burst"},
		{name: "exttree3", cfg: k1, steps: 4200, mode: "full", sparse: 211},
	}
	if c.Thorough() {
		seqs = append(seqs,
			treeSeq{name: "exttree4", cfg: k2, steps: 560, mode: "single", frag: true},
			treeSeq{name: "exttree5", cfg: k2, steps: 400, mode: "mixed"},
			treeSeq{name: "exttree6", cfg: k1, steps: 40, mode: "burst", frag: true},
			treeSeq{name: "exttree7", cfg: k1s, steps: 600, mode: "mixed", frag: true},
		)
	}
	for _, s := range seqs {
		if c.Only == "" || c.Only == s.name || strings.HasPrefix(c.Only, s.name+"/") {
			exttreeSeq(c, r.Fork(), s)
		}
	}
	extcodecCases(c, r.Fork())
}

func exttreeSeq(c *hx.Ctx, r *hx.Rng, s treeSeq) {
	cfg := s.cfg
	d, fs, err, _ := x.Create(cfg)
	if err != nil {
		c.Fail(s.name+"/create", "-", "Create failed: "+err.Error(), cfg.String())
		return
	}
	v0, err := x.ParseView(d, cfg.Start)
	if err != nil {
		c.Fail(s.name+"/create", "-", "superblock unreadable: "+err.Error(), cfg.String())
		return
	}
	bs := int64(v0.BlockSize)
	var f *ext4.File
	if p := catch(func() {
		ff, e := fs.OpenFile("t", os.O_CREATE|os.O_RDWR)
		err = e
		if e == nil {
			f, _ = ff.(*ext4.File)
		}
	}); p != "" || err != nil || f == nil {
		c.Fail(s.name+"/create", "-", fmt.Sprintf("cannot create the file: %v %s", err, p), cfg.String())
		return
	}
	if s.frag {
		// take 40 single blocks and give every other one back: the first free runs are single blocks, so that a
		// split that needs two adjacent blocks has to pass them
		var held []ext4.V04Extent
		for i := 0; i < 40; i++ {
			got, err := fs.V04AllocateExtents(uint64(bs), nil, false)
			if err != nil || len(got) != 1 {
				break
			}
			held = append(held, got[0])
		}
		for i := 0; i < len(held); i += 2 {
			fs.V04DeallocateExtents([]ext4.V04Extent{held[i]})
		}
	}
	c.Stat("exttree.sequences." + s.mode)
	nextFB := uint32(0)
	dataBlock := uint64(1 << 30) // synthetic data blocks: extendExtentTree never looks at them
	var trace []string
	prevNodes := 0
	lastKnown, lastCnt, lastMax := false, 0, 0 // entries and max of the rightmost leaf, as far as the engine knows
	for step := 0; step < s.steps; step++ {
		id := fmt.Sprintf("%s/s%d", s.name, step)
		// what to add
		n := 1
		switch s.mode {
		case "mixed":
			switch {
			case r.Chance(15):
				n = 2 + r.Intn(3)
			case r.Chance(3):
				n = 5 + r.Intn(40)
			}
		case "burst":
			n = 1 + r.Intn(int(bs-12)/12+20)
		}
		if step == 0 && n > 4 {
			n = 1 + r.Intn(4) // createRootExtentTree refuses more than four extents
		}
		var added []ext4.V04Extent
		for i := 0; i < n; i++ {
			if s.mode != "single" && s.mode != "full" && r.Chance(10) {
				nextFB += uint32(1 + r.Intn(50)) // a hole in the file
			}
			cnt := uint16(1)
			if s.mode != "single" && s.mode != "full" {
				cnt = uint16(1 + r.Intn(5))
				if r.Chance(3) {
					cnt = 32768
				}
			}
			added = append(added, ext4.V04Extent{FileBlock: nextFB, Start: dataBlock, Count: cnt})
			nextFB += uint32(cnt)
			dataBlock += uint64(cnt) + uint64(r.Intn(3))
		}
		if trace = append(trace, fmt.Sprint(n)); s.mode == "single" || s.mode == "full" {
			trace = []string{fmt.Sprintf("1 (x%d)", step+1)}
		}
		repro := func() string {
			return fmt.Sprintf("sequence %s cfg=%s [%s] frag=%v: extendExtentTree with %s extents per step (step %d adds %s)",
				s.name, cfg.Name, cfg.String(), s.frag, strings.Join(trace, ","), step, short(extStr(added)))
		}
		emit := s.sparse == 0 || step%s.sparse == 0
		if !emit && lastKnown && lastCnt+n <= lastMax {
			// sparse sequences: a step that only appends to the last leaf is carried out without looking at the device
			var xerr error
			if p := catch(func() { _, xerr = f.V04bExtend(added) }); p != "" || xerr != nil {
				c.Fail(id, "-", fmt.Sprintf("extendExtentTree on a leaf with room: %v %s", xerr, p), repro())
				return
			}
			lastCnt += n
			c.Stat("exttree.step.not-compared")
			continue
		}
		before, err := liveTree(f, d, cfg.Start, bs)
		if err != nil {
			c.Fail(id, "-", "tree before the step unreadable on the device: "+err.Error(), repro())
			return
		}
		v1, err := x.ParseView(d, cfg.Start)
		if err != nil {
			c.Fail(id, "-", "superblock unreadable: "+err.Error(), repro())
			return
		}
		runs := make([]string, v1.GroupCount())
		for g := range runs {
			runs[g] = runsStr(x.FreeRuns(v1.BlockBitmapBytes(g), v1.BlocksInGroup(g)))
		}
		var meta uint64
		var xerr error
		panicked := catch(func() { meta, xerr = f.V04bExtend(added) })
		res := extErr(xerr, panicked)
		after, aerr := liveTree(f, d, cfg.Start, bs)
		if res == "" && aerr != nil {
			c.Fail(id, "-", "tree after the step unreadable on the device: "+aerr.Error(), repro())
			return
		}
		nodes := 0
		if after != nil && aerr == nil {
			nodes = len(after.treeBlocks())
		}
		if res != "" || nodes != prevNodes {
			emit = true // the call failed or changed the structure
		}
		prevNodes = nodes
		if lastKnown = false; after != nil && aerr == nil {
			l := after
			for l.depth > 0 && len(l.kids) > 0 {
				l = l.kids[len(l.kids)-1]
			}
			lastKnown, lastCnt, lastMax = l.depth == 0, len(l.extents), l.max
		}
		if res == "panic" {
			// a panic is a property failure of the real code; the one explained by the full index node is listed
			tag := "-"
			if before != nil && (indexFullTrigger(before, len(added)) || splitOverfullTrigger(before, len(added), bs)) && strings.Contains(panicked, "slice bounds out of range") {
				tag = tagIndexFull
			}
			if emit && c.Want(id) {
				c.Case(id, "ext4tree.extend", fmt.Sprintf("bs=%d", bs), "tree="+treeText(before), "add="+extStr(added),
					fmt.Sprintf("fdb=%d", v1.FirstDataBlock), fmt.Sprintf("bpg=%d", v1.BPG), fmt.Sprintf("sbfree=%d", v1.FreeBlocks), "runs="+strings.Join(runs, "/"), fullArg())
				c.Impl(id, "panic")
			}
			c.Stat("exttree.panic")
			c.Fail(id, tag, "extendExtentTree panics: "+panicked, repro())
			return
		}
		if emit && c.Want(id) {
			c.Case(id, "ext4tree.extend", fmt.Sprintf("bs=%d", bs), "tree="+treeText(before), "add="+extStr(added),
				fmt.Sprintf("fdb=%d", v1.FirstDataBlock), fmt.Sprintf("bpg=%d", v1.BPG), fmt.Sprintf("sbfree=%d", v1.FreeBlocks), "runs="+strings.Join(runs, "/"), fullArg())
			if res != "" {
				c.Impl(id, res)
			} else {
				c.Impl(id, "tree="+treeText(after), fmt.Sprintf("meta=%d", meta))
			}
		}
		if res != "" {
			c.Stat("exttree.refused." + strings.TrimPrefix(res, "err="))
			if strings.HasPrefix(res, "err=other") {
				c.Fail(id, "-", "extendExtentTree refused: "+xerr.Error(), repro())
			} else {
				c.OK(id)
			}
			return
		}
		// property oracle on the real code: the file's extent list only grows at the end
		if emit {
			want := append(append([]ext4.V04Extent{}, flatOf(before)...), added...)
			if got := after.flat(); extStr(got) != extStr(want) {
				c.Fail(id, "-", fmt.Sprintf("the tree on the device maps [%s], before the step [%s] + added [%s]", short(extStr(got)), short(extStr(flatOf(before))), extStr(added)), repro())
				return
			}
			var blocks []ext4.V04Extent
			var tb []uint64
			var berr, terr error
			if p := catch(func() { blocks, berr = f.V04bBlocks(); tb, terr = f.V04bTreeBlocks() }); p != "" || berr != nil || terr != nil {
				c.Fail(id, "-", fmt.Sprintf("blocks() / extentTreeBlocks on the tree the library built: %v %v %s", berr, terr, p), repro())
				return
			}
			if extStr(blocks) != extStr(want) {
				c.Fail(id, "-", fmt.Sprintf("blocks() returns [%s], want [%s]", short(extStr(blocks)), short(extStr(want))), repro())
				return
			}
			if c.Want(id+"/f") && (step%7 == 0 || nodes != len(beforeBlocks(before))) {
				tbs := make([]string, len(tb))
				for i, b := range tb {
					tbs[i] = fmt.Sprint(b)
				}
				c.Case(id+"/f", "ext4tree.flat", "tree="+treeText(after))
				c.Impl(id+"/f", "ext="+extStr(blocks), "nodes="+joinOr(tbs))
			}
			// the invariant the Lean history theorems assume and preserve (TreeInv): the library's own tree has it, and
			// the Lean checker agrees with the engine's on it and on a damaged copy
			if r0, s0, u0 := treeInv(after, bs); !(r0 && s0 && u0) {
				c.Fail(id, "-", fmt.Sprintf("the tree on the device breaks the invariant (root=%v sorted=%v nodup=%v): %s", r0, s0, u0, short(treeText(after))), repro())
				return
			}
			if c.Want(id+"/i") && (step%7 == 0 || nodes != len(beforeBlocks(before))) {
				c.Case(id+"/i", "ext4tree.inv", fmt.Sprintf("bs=%d", bs), "tree="+treeText(after))
				c.Impl(id+"/i", after.invImpl(bs)...)
				dm, what := damage(after, lcgPick(uint64(step)*131+uint64(len(s.name))))
				c.Case(id+"/id", "ext4tree.inv", fmt.Sprintf("bs=%d", bs), "tree="+treeText(dm))
				c.Impl(id+"/id", dm.invImpl(bs)...)
				c.Stat("exttree.inv.damaged." + what)
			}
			if int(meta) != nodes-len(beforeBlocks(before)) {
				c.Fail(id, "-", fmt.Sprintf("extendExtentTree reports %d new tree blocks, the tree has %d more", meta, nodes-len(beforeBlocks(before))), repro())
				return
			}
			shape(c, before, after)
			c.Distinct(fmt.Sprintf("%s|%d|%d|%d", cfg.Name, after.depth, nodes, n))
		}
		c.OK(id)
	}
}

func beforeBlocks(n *dnode) []uint64 {
	if n == nil {
		return nil
	}
	return n.treeBlocks()
}

func flatOf(n *dnode) []ext4.V04Extent {
	if n == nil {
		return nil
	}
	return n.flat()
}

// indexFullTrigger: the leaf the new extents go to is full and its parent, an index node that lives in a block, is
// full as well (finding ext4-extent-index-full-panic)
func indexFullTrigger(t *dnode, nAdd int) bool {
	if t == nil || t.depth < 2 || len(t.kids) == 0 {
		return false
	}
	m := t.kids[len(t.kids)-1]
	for m.depth > 1 && len(m.kids) > 0 {
		m = m.kids[len(m.kids)-1]
	}
	if m.depth != 1 || len(m.kids) == 0 || len(m.kids) < m.max {
		return false
	}
	l := m.kids[len(m.kids)-1]
	return len(l.extents)+nAdd > l.max
}

// shape: which restructuring the step was (evidence)
func shape(c *hx.Ctx, before, after *dnode) {
	bd, bl, bn := -1, 0, 0
	if before != nil {
		bd, bl, bn = before.depth, before.leaves(), len(before.treeBlocks())
	}
	switch {
	case bd < 0:
		c.Stat("exttree.step.create-root")
	case bd == 0 && after.depth == 0:
		c.Stat("exttree.step.append-root-leaf")
	case bd == 0 && after.depth == 1 && after.leaves() == 1:
		c.Stat("exttree.step.promote-leaf")
	case bd == 0 && after.depth == 1:
		c.Stat("exttree.step.split-root-leaf")
	case after.depth == bd && after.leaves() == bl:
		c.Stat(fmt.Sprintf("exttree.step.append-leaf-depth%d", bd))
	case after.depth == bd && bd == 1:
		c.Stat("exttree.step.leaf-split-under-root")
	case after.depth == bd:
		c.Stat("exttree.step.leaf-split-under-index")
	case after.depth == bd+1:
		c.Stat(fmt.Sprintf("exttree.step.grow-to-depth%d", after.depth))
	}
	_ = bn
}

// ---- node codec ------------------------------------------------------------------------------------

func ptrStr(ps []ext4.V04bPtr) string {
	if len(ps) == 0 {
		return "-"
	}
	s := make([]string, len(ps))
	for i, p := range ps {
		s[i] = fmt.Sprintf("%d:%d", p.FileBlock, p.Disk)
	}
	return strings.Join(s, ",")
}

func extcodecCases(c *hx.Ctx, r *hx.Rng) {
	n := c.N(260, 3000)
	pick64 := func() uint64 {
		switch r.Intn(6) {
		case 0:
			return uint64(r.Intn(100000))
		case 1:
			return 1<<32 - 1 - uint64(r.Intn(3))
		case 2:
			return 1<<32 + uint64(r.Intn(1000))
		case 3:
			return 1<<48 - 1 - uint64(r.Intn(3))
		case 4:
			return r.U64() & (1<<48 - 1)
		}
		return uint64(r.Intn(1 << 20))
	}
	pick32 := func() uint32 {
		switch r.Intn(4) {
		case 0:
			return 1<<32 - 1 - uint32(r.Intn(3))
		case 1:
			return uint32(r.U64())
		}
		return uint32(r.Intn(1 << 16))
	}
	for i := 0; i < n; i++ {
		id := fmt.Sprintf("extcodec/%d", i)
		if !c.Want(id) {
			continue
		}
		max := hx.Pick(r, []int{4, 4, 84, 84, 169, 340, 1 + r.Intn(30)})
		cnt := r.Intn(max + 1)
		switch {
		case r.Chance(20):
			cnt = max
		case r.Chance(6):
			cnt = max + 1 + r.Intn(3) // more entries than the buffer has room for
		}
		leaf := r.Chance(55)
		depth := 0
		if !leaf {
			depth = 1 + r.Intn(4)
		}
		node := ext4.V04bNode{Leaf: leaf, Depth: uint16(depth), Entries: uint16(cnt), Max: uint16(max)}
		for j := 0; j < cnt; j++ {
			if leaf {
				c16 := uint16(1 + r.Intn(40))
				if r.Chance(10) {
					c16 = uint16(r.U64())
				}
				node.Extents = append(node.Extents, ext4.V04Extent{FileBlock: pick32(), Start: pick64(), Count: c16})
			} else {
				node.Ptrs = append(node.Ptrs, ext4.V04bPtr{FileBlock: pick32(), Disk: pick64()})
			}
		}
		var enc []byte
		p := catch(func() { enc = ext4.V04bEncode(node, 1024) })
		if leaf {
			c.Case(id, "ext4tree.enc", "kind=leaf", fmt.Sprintf("max=%d", max), "ents="+extStr(node.Extents))
			c.Stat("extcodec.enc-leaf")
		} else {
			c.Case(id, "ext4tree.enc", "kind=index", fmt.Sprintf("max=%d", max), fmt.Sprintf("depth=%d", depth), "ptrs="+ptrStr(node.Ptrs))
			c.Stat("extcodec.enc-index")
		}
		if p != "" {
			c.Impl(id, "panic")
			if cnt > max {
				c.Stat("extcodec.enc-overfull")
				c.OK(id) // toBytes is an internal function: its callers must not hand it more entries than max (mirrored: `none`)
			} else {
				c.Fail(id, "-", "toBytes panics on a node with entries <= max: "+p, fmt.Sprintf("%+v", node))
			}
			continue
		}
		c.Impl(id, "out="+hx.Hex(enc))
		if len(enc) != 12+12*max {
			c.Fail(id, "-", fmt.Sprintf("toBytes returns %d bytes for max=%d", len(enc), max), fmt.Sprintf("%+v", node))
			continue
		}
		// parse: the encoded node, sometimes damaged
		b := append([]byte(nil), enc...)
		damaged := ""
		switch {
		case r.Chance(8):
			b = b[:r.Intn(24)]
			damaged = "short"
		case r.Chance(8):
			b[r.Intn(2)] ^= byte(1 + r.Intn(255))
			damaged = "magic"
		case r.Chance(8):
			v := (len(b)-12)/12 + 1 + r.Intn(5)
			b[2], b[3] = byte(v), byte(v>>8)
			damaged = "entries"
		case r.Chance(8):
			b = append(b, r.Bytes(1+r.Intn(30))...) // trailing bytes (the checksum tail of a block)
			damaged = "tail"
		case r.Chance(5):
			b[6] ^= 1 // leaf <-> index: the entries are read in the other layout
			damaged = "depth"
		}
		var pn *ext4.V04bNode
		var perr error
		pp := catch(func() { pn, perr = ext4.V04bParse(b, 1024) })
		pid := id + "/p"
		c.Case(pid, "ext4tree.parse", "b="+hx.Hex(b))
		switch {
		case pp != "":
			c.Impl(pid, "panic")
			c.Fail(pid, "-", "parseExtents panics: "+pp, hx.Hex(b))
			continue
		case perr != nil:
			switch {
			case strings.Contains(perr.Error(), "minimum required"):
				c.Impl(pid, "err=short")
			case strings.Contains(perr.Error(), "signature"):
				c.Impl(pid, "err=magic")
			case strings.Contains(perr.Error(), "announces"):
				c.Impl(pid, "err=entries")
			default:
				c.Impl(pid, "err=other")
			}
			c.Stat("extcodec.parse-refused." + damaged)
		case pn.Leaf:
			c.Impl(pid, "leaf", fmt.Sprintf("max=%d", pn.Max), "ents="+extStr(pn.Extents))
		default:
			c.Impl(pid, "index", fmt.Sprintf("max=%d", pn.Max), fmt.Sprintf("depth=%d", pn.Depth), "ptrs="+ptrStr(pn.Ptrs))
		}
		// round trip on the real code: an undamaged node whose fields fit their on-disk widths comes back unchanged
		if damaged == "" || damaged == "tail" {
			fits := cnt >= 1
			for _, e := range node.Extents {
				fits = fits && e.Start < 1<<48
			}
			for _, q := range node.Ptrs {
				fits = fits && q.Disk < 1<<48
			}
			if fits {
				ok := perr == nil && pn != nil && pn.Leaf == leaf && int(pn.Max) == max && int(pn.Depth) == depth &&
					extStr(pn.Extents) == extStr(node.Extents) && ptrStr(pn.Ptrs) == ptrStr(node.Ptrs)
				if !ok {
					c.Fail(pid, "-", fmt.Sprintf("parseExtents(toBytes(node)) differs from the node: %v %+v", perr, pn), fmt.Sprintf("%+v", node))
					continue
				}
				c.Stat("extcodec.roundtrip")
			}
		}
		c.Distinct(fmt.Sprintf("codec|%v|%d|%d|%s", leaf, max, cnt, damaged))
		c.OK(id)
	}
}
