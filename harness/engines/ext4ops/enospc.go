package ext4ops

// deepenospc: a refused append must leave the file as it was. File a is grown one block at a time (file b in
// between, so that every append is an extent) until its tree is one append away from depth 2: four leaves under the
// root in the inode, the last one full. Then the volume is filled until exactly `left` blocks are free and a gets one
// more block: the data block and the block for the split leaf can still be had, the two blocks for the new index
// nodes cannot. The call must fail without touching the file: read back live and after re-opening the image.

import (
	"fmt"
	"strings"

	x "verif/harness/engines/ext4common"
)

// deepEnospcs: quick: the witness of finding ext4-extent-split-enospc-loses-extents (2 blocks free); thorough: 0..4
func (e *engine) deepEnospcs() {
	if e.fsck {
		return // the clause is C04's: a refused call leaves the tree as it was
	}
	lefts := []int{2}
	if e.c.Thorough() {
		lefts = []int{0, 1, 2, 3, 4}
	}
	for _, l := range lefts {
		e.deepEnospc(l)
	}
}

func (e *engine) deepEnospc(left int) {
	c := e.c
	name := fmt.Sprintf("deepenospc%d", left)
	if !e.wantHist(name) {
		return
	}
	cfg := x.Config{Name: "1k-nojournal", Size: 16 * MiB, Journal: x.B(false)}
	step := "create"
	repro := func() string {
		return fmt.Sprintf("history %s cfg=%s [%s]: create a, b; append one block to a and to b alternately until a's extent tree has four leaves under the root and the last one is full; fill the volume down to %d free blocks; append one block to a (at %s)", name, cfg.Name, cfg.String(), left, step)
	}
	d, fs, err, panicked := x.Create(cfg)
	if err != nil {
		c.Fail(name+"/create", "-", fmt.Sprintf("Create failed (panic=%v): %v", panicked, err), repro())
		return
	}
	view, verr := x.ParseView(d, cfg.Start)
	if verr != nil {
		c.Fail(name+"/create", "-", "superblock unreadable: "+verr.Error(), repro())
		return
	}
	bs := int(view.BlockSize)
	r := newRef()
	rn := &runner{fs: fs, ref: r, bs: int64(bs)}
	must := func(id string, o op) bool {
		step = o.String()
		out := rn.exec(o)
		if out.refused != nil || out.panicked != "" || out.problem != "" {
			c.Fail(id, "-", fmt.Sprintf("%s: %v %s %s", o.String(), out.refused, out.panicked, out.problem), repro())
			return false
		}
		return true
	}
	for _, p := range []string{"a", "b"} {
		if !must(name+"/create", op{kind: "create", path: p}) {
			return
		}
	}
	inoA, _ := fs.V04EntryInode("a")
	block := func(tag byte, k int) []byte {
		b := make([]byte, bs)
		for i := range b {
			b[i] = byte(int(tag) + k*7 + i*3)
		}
		return b
	}
	ready := false
	for round := 0; round < 600 && !ready; round++ {
		if !must(fmt.Sprintf("%s/r%d", name, round), op{kind: "append", path: "a", chunks: [][]byte{block('a', round)}}) ||
			!must(fmt.Sprintf("%s/r%d", name, round), op{kind: "append", path: "b", chunks: [][]byte{block('b', round)}}) {
			return
		}
		if round < 160 {
			continue // four full leaves of 84 extents cannot be there yet
		}
		v, err := x.ParseView(d, cfg.Start)
		if err != nil {
			return
		}
		t, err := decodeInodeTree(v, d, cfg.Start, inoA)
		if err != nil {
			c.Fail(name+"/grow", "-", "extent tree of a unreadable: "+err.Error(), repro())
			return
		}
		if t.depth == 1 && len(t.kids) == 4 {
			l := t.kids[3]
			ready = l.depth == 0 && len(l.extents) == l.max
		}
	}
	if !ready {
		c.Note("%s: the tree of a never had four leaves with a full last one", name)
		return
	}
	// fill: one big file takes everything but `left` blocks
	v, _ := x.ParseView(d, cfg.Start)
	if !must(name+"/fill", op{kind: "create", path: "big"}) {
		return
	}
	if n := int(v.FreeBlocks) - left; n > 0 {
		if !must(name+"/fill", op{kind: "append", path: "big", chunks: [][]byte{make([]byte, n*bs)}}) {
			return
		}
	}
	v, _ = x.ParseView(d, cfg.Start)
	for k := 0; int(v.FreeBlocks) > left && k < 8; k++ { // the big file's own tree may have taken fewer / more blocks
		if !must(name+"/fill", op{kind: "append", path: "big", chunks: [][]byte{make([]byte, bs)}}) {
			return
		}
		v, _ = x.ParseView(d, cfg.Start)
	}
	if int(v.FreeBlocks) != left {
		c.Note("%s: %d blocks free after the fill, wanted %d", name, v.FreeBlocks, left)
		return
	}
	c.Stat("deepenospc.ready")
	before, _ := decodeInodeTree(v, d, cfg.Start, inoA)
	// the append that cannot complete
	id := name + "/append"
	o := op{kind: "append", path: "a", chunks: [][]byte{block('a', 9999)}}
	step = o.String()
	out := rn.exec(o)
	if out.panicked != "" {
		c.Fail(id, "-", "panic: "+out.panicked, repro())
		return
	}
	if out.refused == nil {
		c.Stat("deepenospc.accepted")
	} else {
		c.Stat("deepenospc.refused")
	}
	v2, _ := x.ParseView(d, cfg.Start)
	after, aerr := decodeInodeTree(v2, d, cfg.Start, inoA)
	what := fmt.Sprintf("append with %d blocks free: refused=%v; a's tree on the device maps %d extents before", left, out.refused, len(before.flat()))
	if aerr == nil {
		what += fmt.Sprintf(", %d after; free blocks %d -> %d", len(after.flat()), v.FreeBlocks, v2.FreeBlocks)
	} else {
		what += ", unreadable after: " + aerr.Error()
	}
	// the listed defect: the leaf was split on the device, then the two blocks for the root's index nodes could not be had
	tag := "-"
	if out.refused != nil && strings.Contains(out.refused.Error(), "split internal nodes") && (left == 2 || left == 3) &&
		aerr == nil && len(after.flat()) < len(before.flat()) {
		tag = tagSplitEnospc
	}
	// the reference tree knows what a must hold (rn.exec updates it only for accepted writes)
	if diff := observe(fs, r, true, nil); diff != "" {
		c.Fail(id, tag, "live view differs from the reference tree after the call: "+diff+" ("+what+")", repro())
		return
	}
	fs2, err := reopen(d, cfg)
	if err != nil {
		c.Fail(id, tag, "ext4.Read of the image failed after the call: "+err.Error()+" ("+what+")", repro())
		return
	}
	if diff := observe(fs2, r, true, nil); diff != "" {
		c.Fail(id, tag, "view after re-opening the image differs from the reference tree: "+diff+" ("+what+")", repro())
		return
	}
	c.Note("%s: %s: the file is intact", name, what)
	c.OK(id)
}

const tagSplitEnospc = "ext4-extent-split-enospc-loses-extents"
