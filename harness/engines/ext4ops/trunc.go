package ext4ops

// O_TRUNC on an existing file (finding ext4-openfile-ignores-trunc, listed under C16 and replayed there by the syncfs
// engine; owner of the repair: the ext4 writer).
//
// witnessTruncIgnored is this engine's probe: while OpenFile ignores the flag no O_TRUNC open is generated (the
// reference tree cuts the file, the library would not: every such step would fail for the listed reason). Once the
// flag is honoured
//   - the histories re-open existing files with O_TRUNC (op `trunc`, ops.go) and
//   - trunc<k> (below) cuts files whose extents no longer fit the inode (extent tree of depth >= 1: the node blocks
//     have to be given back as well): two files grown alternately, then each cut on open and given new contents;
//     demanded: the handle starts empty at offset 0, the tree equals the reference live and after re-opening the image
//     (mode=tree), the image is clean for e2fsck with counters = bitmaps after every step and, once both files are
//     empty again, every counter and every bitmap population is back at its value from before the files grew
//     (mode=fsck; the accounting machine replays each step as `ext4acc.step`).
// Stat keys: probe.o_trunc-honoured / probe.o_trunc-ignored, op.trunc, trunc.file-with-tree-blocks,
// trunc.counters-restored.

import (
	"fmt"
	"io"
	"os"
	"path/filepath"
	"strings"

	x "verif/harness/engines/ext4common"
	"verif/harness/internal/hx"
)

// witnessTruncIgnored: 5000 bytes, then O_CREATE|O_TRUNC|O_RDWR and two bytes: the file must hold the two bytes only
func witnessTruncIgnored() (bool, string) {
	_, _, fs, err := smallVolume()
	if err != nil {
		return false, "cannot create volume: " + err.Error()
	}
	f, err := fs.OpenFile("a.bin", os.O_CREATE|os.O_RDWR)
	if err != nil {
		return false, "create: " + err.Error()
	}
	if _, err := f.Write(make([]byte, 5000)); err != nil {
		return false, "write: " + err.Error()
	}
	f.Close()
	f, err = fs.OpenFile("a.bin", os.O_CREATE|os.O_TRUNC|os.O_RDWR)
	if err != nil {
		return false, "open with O_TRUNC refused: " + err.Error()
	}
	if _, err := f.Write([]byte("hi")); err != nil {
		return false, "write after O_TRUNC: " + err.Error()
	}
	f.Close()
	g, err := fs.OpenFile("a.bin", os.O_RDONLY)
	if err != nil {
		return false, "re-open: " + err.Error()
	}
	defer g.Close()
	got, err := io.ReadAll(g)
	if err != nil {
		return false, "read: " + err.Error()
	}
	return len(got) > 2 && string(got[:2]) == "hi", fmt.Sprintf("5000-byte file re-opened with O_CREATE|O_TRUNC|O_RDWR, 2 bytes written: %d bytes afterwards", len(got))
}

func (e *engine) truncCases() {
	cfgs := []x.Config{
		{Name: "1k-nojournal", Size: 16 * MiB, Journal: x.B(false)},
		{Name: "1k-csum", Size: 16 * MiB, Csum: x.B(true)},
		{Name: "4k-csum-nojournal", Size: 16 * MiB, SPB: 8, Resize: x.B(false), Csum: x.B(true), Journal: x.B(false)},
		{Name: "1k-3groups", Size: 20 * MiB, Journal: x.B(false)},
		{Name: "1k-start", Size: 16 * MiB, Start: 1*MiB + 1536},
		{Name: "2k-nojournal", Size: 16 * MiB, SPB: 4, Resize: x.B(false), Journal: x.B(false)},
	}
	n := e.c.N(3, 12)
	for k := 0; k < n; k++ {
		rng := e.c.Rng.Fork()
		id := fmt.Sprintf("trunc%d", k)
		if e.def.truncIgnored || !e.wantHist(id) {
			continue
		}
		e.truncCase(id, cfgs[k%len(cfgs)], k, rng)
	}
}

func (e *engine) truncCase(hid string, cfg x.Config, k int, rng *hx.Rng) {
	c := e.c
	var trace []string
	repro := func() string {
		return fmt.Sprintf("history %s cfg=%s [%s] ops: %v", hid, cfg.Name, cfg.String(), trace)
	}
	scratch := filepath.Join(c.Scratch, hid)
	os.MkdirAll(scratch, 0o755)
	defer os.RemoveAll(scratch)
	d, fs, err, panicked := x.Create(cfg)
	if err != nil {
		c.Fail(hid+"/create", "-", fmt.Sprintf("Create failed (panic=%v): %v", panicked, err), repro())
		return
	}
	view, verr := x.ParseView(d, cfg.Start)
	if verr != nil {
		c.Fail(hid+"/create", "-", "cannot parse the superblock Create wrote: "+verr.Error(), repro())
		return
	}
	bs := int64(view.BlockSize)
	r := newRef()
	rn := &runner{fs: fs, ref: r, bs: bs, avoidSkip: e.def.skip}
	c.Stat("trunc.histories." + cfg.Name)
	prev := view.Acct()
	step := 0
	// do: one operation, then the mode's observation; false ends the history
	do := func(o op) bool {
		id := fmt.Sprintf("%s/s%d", hid, step)
		step++
		trace = append(trace, o.String())
		c.Stat("op." + o.kind)
		out := rn.exec(o)
		switch {
		case out.panicked != "":
			c.Fail(id, "-", fmt.Sprintf("%s after %s: panic %s", cfg.Name, o, out.panicked), repro())
			return false
		case out.problem != "":
			c.Fail(id, "-", fmt.Sprintf("%s after %s: %s", cfg.Name, o, out.problem), repro())
			return false
		case out.refused != nil:
			c.Fail(id, "-", fmt.Sprintf("%s: %s refused on a volume with room: %v", cfg.Name, o, out.refused), repro())
			return false
		}
		if e.fsck {
			ok, fout := x.FsckDev(d, cfg.Start, cfg.Size, scratch, "img")
			v, err := x.ParseView(d, cfg.Start)
			if err != nil {
				c.Fail(id, "-", fmt.Sprintf("%s after %s: superblock unreadable: %v", cfg.Name, o, err), repro())
				return false
			}
			acct := v.Acct()
			accOK, accMsg := acct.Consistent()
			if !ok || !accOK {
				msg := "e2fsck -f -n: " + x.FsckSummary(fout)
				if ok {
					msg = "e2fsck accepts the image but counters and bitmaps disagree: " + accMsg
				}
				tag := "-"
				if e.def.extCsum && x.On(cfg.Csum, false) && strings.Contains(fout, "extent block passes checks, but checksum does not match extent") {
					tag = tagExtCsum
				}
				c.Fail(id, tag, fmt.Sprintf("%s after %s: %s", cfg.Name, o, msg), repro())
				return false
			}
			if c.Want(id) {
				emitAcct(c, id, prev, acct, o.kind)
			}
			prev = acct
		} else {
			if diff := observe(fs, r, !e.def.skip, nil); diff != "" {
				c.Fail(id, "-", fmt.Sprintf("%s after %s: live view differs from the reference tree: %s", cfg.Name, o, diff), repro())
				return false
			}
			fs2, err := reopen(d, cfg)
			if err != nil {
				c.Fail(id, "-", fmt.Sprintf("%s after %s: ext4.Read of the image failed: %v", cfg.Name, o, err), repro())
				return false
			}
			if diff := observe(fs2, r, !e.def.skip, nil); diff != "" {
				c.Fail(id, "-", fmt.Sprintf("%s after %s: view after re-opening the image differs from the reference tree: %s", cfg.Name, o, diff), repro())
				return false
			}
		}
		c.OK(id)
		return true
	}
	if !do(op{kind: "create", path: "a.bin"}) || !do(op{kind: "create", path: "b.bin"}) {
		return
	}
	base := prev // both files exist and are empty
	// grown alternately, the files get an extent per round: from the fifth on a leaf block below the inode
	rounds := 6 + rng.Intn(8)
	if k%3 == 2 || (e.fsck && e.def.extCsum && x.On(cfg.Csum, false)) {
		// everything still fits the inode (always so where e2fsck rejects the checksum of every extent block:
		// finding ext4-extent-block-csum)
		rounds = 3
	}
	var ca, cb [][]byte
	for i := 0; i < rounds; i++ {
		ca = append(ca, rng.Bytes(int(bs)*(1+rng.Intn(3))))
		cb = append(cb, rng.Bytes(int(bs)*(1+rng.Intn(3))))
	}
	if !do(op{kind: "alt", path: "a.bin", path2: "b.bin", chunks: ca, chunks2: cb}) {
		return
	}
	depth := func(p string) int {
		ino, err := fs.V04EntryInode(p)
		if err != nil || ino == 0 {
			return -1
		}
		_, dp, err := fs.V04InodeExtents(ino)
		if err != nil {
			return -1
		}
		return dp
	}
	if depth("a.bin") > 0 {
		c.Stat("trunc.file-with-tree-blocks")
	}
	// a.bin: new contents, shorter than the old; then grown again through other handles
	if !do(op{kind: "trunc", path: "a.bin", chunks: [][]byte{rng.Bytes(1 + rng.Intn(3*int(bs)))}}) {
		return
	}
	if !do(op{kind: "append", path: "a.bin", chunks: [][]byte{rng.Bytes(1 + rng.Intn(6*int(bs)))}}) {
		return
	}
	if !do(op{kind: "readat", path: "b.bin", off: 0, n: len(r.lookup("b.bin").data)}) {
		return
	}
	// b.bin: cut and left empty; a.bin: cut again, two chunks; then cut and left empty
	if !do(op{kind: "trunc", path: "b.bin"}) {
		return
	}
	if !do(op{kind: "trunc", path: "a.bin", chunks: [][]byte{rng.Bytes(int(bs)), rng.Bytes(1 + rng.Intn(5*int(bs)))}}) {
		return
	}
	if !do(op{kind: "trunc", path: "a.bin"}) {
		return
	}
	if e.fsck {
		id := hid + "/restored"
		same := prev.SbFreeBlocks == base.SbFreeBlocks && prev.SbFreeInodes == base.SbFreeInodes &&
			fmt.Sprint(prev.GdFreeBlocks) == fmt.Sprint(base.GdFreeBlocks) && fmt.Sprint(prev.BmFreeBlocks) == fmt.Sprint(base.BmFreeBlocks) &&
			fmt.Sprint(prev.GdFreeInodes) == fmt.Sprint(base.GdFreeInodes) && fmt.Sprint(prev.BmFreeInodes) == fmt.Sprint(base.BmFreeInodes)
		if !same {
			c.Fail(id, "-", fmt.Sprintf("%s: both files cut to length 0 again, but the free counts differ from those before they grew: superblock %d (was %d) blocks, groups %v (was %v), bitmaps %v (was %v)",
				cfg.Name, prev.SbFreeBlocks, base.SbFreeBlocks, prev.GdFreeBlocks, base.GdFreeBlocks, prev.BmFreeBlocks, base.BmFreeBlocks), repro())
			return
		}
		c.OK(id)
		c.Stat("trunc.counters-restored")
	}
	// the released blocks are handed out again
	do(op{kind: "append", path: "b.bin", chunks: [][]byte{rng.Bytes(int(bs)*7 + 13)}})
	c.Distinct(fmt.Sprintf("trunc|%s|%d|%v", cfg.Name, rounds, trace))
}
