package partio

// Partitions whose SIZE reaches 4 GiB (the byte size Size*lss no longer fits 32 bits): exactly 4 GiB, 4 GiB + one
// sector, 4 GiB + 1 MiB, MBR and GPT, 512- and 4096-byte logical sectors.  ReadContents streams into a counting /
// sampling writer, WriteContents is fed by a pattern-generating reader, CopyPartitionRaw copies one such partition
// into another.  The device is the sparse memdev: the partition holds a non-zero pattern in its first and last
// 4 KiB and in one 4 KiB window of every MiB and zeros elsewhere, so a 4 GiB partition costs ~16 MiB of pages; every
// byte is counted, the windows are compared byte for byte, the bytes between them are spot-checked.
// Oracle only (a 4 GiB request list is not worth feeding to the model driver; the small cases carry the
// correspondence).

import (
	"fmt"
	"io"
	"sort"
	"strings"
	"time"

	"github.com/diskfs/go-diskfs/backend"
	"github.com/diskfs/go-diskfs/disk"
	"github.com/diskfs/go-diskfs/partition/gpt"
	"github.com/diskfs/go-diskfs/partition/mbr"
	dsync "github.com/diskfs/go-diskfs/sync"

	"verif/harness/internal/hx"
	"verif/harness/internal/memdev"
)

const (
	bigWin  = 4096
	bigMiB  = 1 << 20
	fourGiB = int64(1) << 32
)

// bigPat is the content of a big partition as a function of the offset relative to its start.
type bigPat struct {
	size int64
	salt int64
}

func (p bigPat) winOff(m int64) int64 { return ((m*37 + p.salt) % 255) * bigWin }

func (p bigPat) inWin(rel int64) bool {
	if rel < bigWin || rel >= p.size-bigWin {
		return true
	}
	o := p.winOff(rel / bigMiB)
	r := rel % bigMiB
	return r >= o && r < o+bigWin
}

func (p bigPat) at(rel int64) byte {
	if !p.inWin(rel) {
		return 0
	}
	return byte(1 + (rel*131+(rel>>12)*7+p.salt)%255)
}

// windows lists the non-zero windows [lo,hi) (relative), ascending, merged where they touch.
func (p bigPat) windows() [][2]int64 {
	raw := [][2]int64{{0, bigWin}, {p.size - bigWin, p.size}}
	for m := int64(0); m*bigMiB < p.size; m++ {
		lo := m*bigMiB + p.winOff(m)
		raw = append(raw, [2]int64{lo, lo + bigWin})
	}
	sort.Slice(raw, func(i, j int) bool { return raw[i][0] < raw[j][0] })
	var out [][2]int64
	for _, w := range raw {
		lo, hi := w[0], w[1]
		if lo < 0 {
			lo = 0
		}
		if hi > p.size {
			hi = p.size
		}
		if lo >= hi {
			continue
		}
		if n := len(out); n > 0 && lo <= out[n-1][1] {
			if hi > out[n-1][1] {
				out[n-1][1] = hi
			}
			continue
		}
		out = append(out, [2]int64{lo, hi})
	}
	return out
}

// fillBuf writes the pattern for [rel, rel+len(b)) into b.
func (p bigPat) fillBuf(b []byte, rel int64) {
	clear(b)
	end := rel + int64(len(b))
	mark := func(lo, hi int64) {
		if lo < rel {
			lo = rel
		}
		if hi > end {
			hi = end
		}
		for x := lo; x < hi; x++ {
			b[x-rel] = p.at(x)
		}
	}
	mark(0, bigWin)
	mark(p.size-bigWin, p.size)
	for m := rel / bigMiB; m*bigMiB < end; m++ {
		lo := m*bigMiB + p.winOff(m)
		mark(lo, lo+bigWin)
	}
}

// fill puts the pattern on the device at byte offset base (plus a non-zero guard on either side).
func (p bigPat) fill(d *memdev.Dev, base int64) {
	for _, w := range p.windows() {
		b := make([]byte, w[1]-w[0])
		p.fillBuf(b, w[0])
		d.RawWrite(b, base+w[0])
	}
	p.guards(d, base)
}

// guards puts 4 KiB of 0xEE in front of and behind [base, base+size).
func (p bigPat) guards(d *memdev.Dev, base int64) {
	g := make([]byte, bigWin)
	for i := range g {
		g[i] = 0xEE
	}
	if base >= bigWin {
		d.RawWrite(g, base-bigWin)
	}
	d.RawWrite(g, base+p.size)
}

// sampleWriter is the io.Writer ReadContents streams into: counts every byte, compares the windows byte for byte
// and the first and last byte of every piece elsewhere.
type sampleWriter struct {
	p      bigPat
	n      int64
	bad    int64 // first differing relative offset, -1 if none
	pieces int64
	tmp    []byte
}

func (w *sampleWriter) Write(b []byte) (int, error) {
	rel := w.n
	w.n += int64(len(b))
	w.pieces++
	if len(b) == 0 || w.bad >= 0 {
		return len(b), nil
	}
	end := rel + int64(len(b))
	if rel >= w.p.size {
		w.bad = rel // bytes beyond the partition
		return len(b), nil
	}
	chk := func(lo, hi int64) {
		if lo < rel {
			lo = rel
		}
		if hi > end {
			hi = end
		}
		for x := lo; x < hi && w.bad < 0; x++ {
			if b[x-rel] != w.p.at(x) {
				w.bad = x
			}
		}
	}
	chk(0, bigWin)
	chk(w.p.size-bigWin, w.p.size)
	for m := rel / bigMiB; m*bigMiB < end; m++ {
		lo := m*bigMiB + w.p.winOff(m)
		chk(lo, lo+bigWin)
	}
	chk(rel, rel+1)
	chk(end-1, end)
	chk((rel+end)/2, (rel+end)/2+1)
	return len(b), nil
}

// patReader supplies `supply` bytes of the pattern (zeros beyond the pattern's size).
type patReader struct {
	p      bigPat
	supply int64
	pos    int64
}

func (r *patReader) Read(b []byte) (int, error) {
	if r.pos >= r.supply {
		return 0, io.EOF
	}
	n := int64(len(b))
	if n > r.supply-r.pos {
		n = r.supply - r.pos
	}
	r.p.fillBuf(b[:n], r.pos)
	if r.pos+n > r.p.size { // oversupply: recognisable non-zero bytes
		lo := r.p.size - r.pos
		if lo < 0 {
			lo = 0
		}
		for x := lo; x < n; x++ {
			b[x] = 0xD7
		}
	}
	r.pos += n
	return int(n), nil
}

// bigDev is memdev without the per-write log (a 4 GiB stream is a million WriteAt calls): every write is
// range-checked against the window it may touch and counted, then applied.
type bigDev struct {
	*memdev.Dev
	lo, hi  int64
	outside []memdev.Range
	nw      int64
	bytes   int64
}

func (b *bigDev) WriteAt(p []byte, off int64) (int, error) {
	b.nw++
	b.bytes += int64(len(p))
	if len(p) > 0 && (off < b.lo || off+int64(len(p)) > b.hi) && len(b.outside) < 8 {
		b.outside = append(b.outside, memdev.Range{Lo: off, Hi: off + int64(len(p))})
	}
	b.Dev.RawWrite(p, off)
	return len(p), nil
}

func (b *bigDev) Writable() (backend.WritableFile, error) { return b, nil }

var _ backend.Storage = (*bigDev)(nil)

// compareWindows checks the device bytes at base against the pattern (windows byte for byte, plus the guards).
func (p bigPat) compareWindows(d *memdev.Dev, base int64) string {
	for _, w := range p.windows() {
		got := d.Bytes(base+w[0], int(w[1]-w[0]))
		exp := make([]byte, len(got))
		p.fillBuf(exp, w[0])
		for i := range got {
			if got[i] != exp[i] {
				return fmt.Sprintf("byte %d of the partition is %#x, want %#x", w[0]+int64(i), got[i], exp[i])
			}
		}
	}
	return ""
}

func guardsIntact(d *memdev.Dev, base, size int64) string {
	for _, off := range []int64{base - bigWin, base + size} {
		if off < 0 {
			continue
		}
		for i, x := range d.Bytes(off, bigWin) {
			if x != 0xEE {
				return fmt.Sprintf("guard byte %d outside the partition [%d,%d) changed", off+int64(i), base, base+size)
			}
		}
	}
	return ""
}

type bigCase struct {
	kind    string
	lss     int
	pss     int
	extra   int64 // bytes beyond 4 GiB
	op      string
	supply  string // write: exact | over | under
	dstMore int64  // copy: target is this many bytes larger than the source
}

func (b bigCase) id() string {
	s := fmt.Sprintf("big-%s-lss%d-4g+%d-%s", b.kind, b.lss, b.extra, b.op)
	if b.op == "write" {
		s += "-" + b.supply
	}
	return s
}

func bigExtras(lss int) []int64 { return []int64{0, int64(lss), bigMiB} }

// partioBig: quick = the MBR read at exactly 4 GiB plus one more read, one write and one copy chosen by the seed;
// thorough = the whole matrix.
func partioBig(c *hx.Ctx) {
	r := hx.NewRng(c.Seed*1000003 + 0xb16) // own stream: the case list does not depend on what ran before (replay)
	var cases []bigCase
	if c.Thorough() {
		for _, kind := range []string{"mbr", "gpt"} {
			for _, lss := range []int{512, 4096} {
				for _, ex := range bigExtras(lss) {
					cases = append(cases, bigCase{kind: kind, lss: lss, pss: 4096, extra: ex, op: "read"})
					cases = append(cases, bigCase{kind: kind, lss: lss, pss: 4096, extra: ex, op: "write", supply: "exact"})
				}
				cases = append(cases, bigCase{kind: kind, lss: lss, pss: 4096, extra: hx.Pick(r, bigExtras(lss)), op: "write", supply: "over"})
				cases = append(cases, bigCase{kind: kind, lss: lss, pss: 512, extra: hx.Pick(r, bigExtras(lss)), op: "write", supply: "under"})
				cases = append(cases, bigCase{kind: kind, lss: lss, pss: 512, extra: hx.Pick(r, bigExtras(lss)), op: "read"})
				cases = append(cases, bigCase{kind: kind, lss: lss, pss: 4096, extra: hx.Pick(r, bigExtras(lss)), op: "copy", dstMore: int64(r.Intn(3)) * bigMiB})
			}
		}
	} else {
		lssA := hx.Pick(r, []int{512, 4096})
		cases = append(cases, bigCase{kind: "mbr", lss: lssA, pss: 4096, extra: 0, op: "read"})
		lssB := hx.Pick(r, []int{512, 4096})
		cases = append(cases, bigCase{kind: hx.Pick(r, []string{"mbr", "gpt", "gpt"}), lss: lssB, pss: 4096, extra: hx.Pick(r, bigExtras(lssB)[1:]), op: "read"})
		lssC := hx.Pick(r, []int{512, 4096})
		cases = append(cases, bigCase{kind: hx.Pick(r, []string{"mbr", "gpt"}), lss: lssC, pss: 4096, extra: hx.Pick(r, bigExtras(lssC)), op: "write",
			supply: hx.Pick(r, []string{"exact", "exact", "over"})})
		lssD := hx.Pick(r, []int{512, 4096})
		cases = append(cases, bigCase{kind: hx.Pick(r, []string{"mbr", "gpt"}), lss: lssD, pss: 4096, extra: hx.Pick(r, bigExtras(lssD)), op: "copy",
			dstMore: int64(r.Intn(2)) * bigMiB})
	}
	for _, bc := range cases {
		salt := int64(r.Intn(251))
		if !c.Want(bc.id()) {
			continue
		}
		runBig(c, bc, salt)
	}
}

// mkBig builds a table with one (or two) big partitions on a sparse device and returns the disk as re-read.
func mkBig(bc bigCase, sizes []int64) (*memdev.Dev, *disk.Disk, []int64, error) {
	L := int64(bc.lss)
	start := int64(2048)
	var offs []int64
	cur := start
	for _, s := range sizes {
		offs = append(offs, cur*L)
		cur += s/L + 8
	}
	devSize := (cur + 64) * L
	devSize += bigMiB - devSize%bigMiB
	d := memdev.New(devSize)
	switch bc.kind {
	case "gpt":
		t := &gpt.Table{LogicalSectorSize: bc.lss, PhysicalSectorSize: bc.pss, ProtectiveMBR: true, GUID: "5CA3360B-5DE6-4FCF-B4CE-419CEE433B51"}
		for i, s := range sizes {
			st := uint64(offs[i] / L)
			t.Partitions = append(t.Partitions, &gpt.Partition{Index: i + 1, Start: st, End: st + uint64(s/L) - 1, Type: gpt.LinuxFilesystem,
				GUID: fmt.Sprintf("7F8AF2A9-1B1E-4A5E-9D4E-3C0E0A9B8F%02X", i), Name: fmt.Sprintf("big%d", i)})
		}
		if err := t.Write(d, devSize); err != nil {
			return nil, nil, nil, err
		}
	default:
		t := &mbr.Table{LogicalSectorSize: bc.lss, PhysicalSectorSize: bc.pss}
		for i, s := range sizes {
			t.Partitions = append(t.Partitions, &mbr.Partition{Index: i + 1, Type: mbr.Linux, Start: uint32(offs[i] / L), Size: uint32(s / L)})
		}
		if err := t.Write(d, devSize); err != nil {
			return nil, nil, nil, err
		}
	}
	dk := &disk.Disk{Backend: d, Size: devSize, LogicalBlocksize: L, PhysicalBlocksize: int64(bc.pss)}
	if _, err := dk.GetPartitionTable(); err != nil {
		return nil, nil, nil, err
	}
	d.ResetLog()
	return d, dk, offs, nil
}

func runBig(c *hx.Ctx, bc bigCase, salt int64) {
	id := bc.id()
	size := fourGiB + bc.extra
	desc := fmt.Sprintf("big kind=%s lss=%d pss=%d size=%d (4 GiB + %d) op=%s supply=%s dstMore=%d salt=%d", bc.kind, bc.lss, bc.pss, size, bc.extra, bc.op, bc.supply, bc.dstMore, salt)
	type result struct {
		problems []string
	}
	done := make(chan result, 1)
	go func() {
		var problems []string
		defer func() {
			if e := recover(); e != nil {
				problems = append(problems, fmt.Sprintf("panic: %v", e))
			}
			done <- result{problems}
		}()
		pat := bigPat{size: size, salt: salt}
		switch bc.op {
		case "read":
			d, dk, offs, err := mkBig(bc, []int64{size})
			if err != nil {
				problems = append(problems, "cannot set up the partition: "+err.Error())
				return
			}
			pat.fill(d, offs[0])
			p, err := dk.GetPartition(1)
			if err != nil {
				problems = append(problems, "GetPartition: "+err.Error())
				return
			}
			w := &sampleWriter{p: pat, bad: -1}
			n, rerr := p.ReadContents(d, w)
			if rerr != nil || n != size || w.n != size {
				problems = append(problems, fmt.Sprintf("ReadContents returned n=%d err=%v and handed %d bytes to the writer, want exactly the %d bytes of the partition at %d", n, rerr, w.n, size, offs[0]))
			}
			if w.bad >= 0 {
				problems = append(problems, fmt.Sprintf("byte %d handed to the writer differs from the partition's content", w.bad))
			}
			if len(d.Log) != 0 {
				problems = append(problems, "ReadContents wrote to the device")
			}
		case "write":
			d, dk, offs, err := mkBig(bc, []int64{size})
			if err != nil {
				problems = append(problems, "cannot set up the partition: "+err.Error())
				return
			}
			pat.guards(d, offs[0]) // the partition itself is blank
			p, err := dk.GetPartition(1)
			if err != nil {
				problems = append(problems, "GetPartition: "+err.Error())
				return
			}
			supply := size
			switch bc.supply {
			case "over":
				supply = size + int64(bc.lss)
			case "under":
				supply = size - int64(bc.lss)
			}
			bd := &bigDev{Dev: d, lo: offs[0], hi: offs[0] + size}
			n, werr := p.WriteContents(bd, &patReader{p: pat, supply: supply})
			if (werr == nil) != (supply == size) {
				problems = append(problems, fmt.Sprintf("err=%v but supplied=%d size=%d", werr, supply, size))
			}
			if len(bd.outside) > 0 {
				problems = append(problems, fmt.Sprintf("WriteAt outside the partition [%d,%d): %v", bd.lo, bd.hi, bd.outside))
			}
			if g := guardsIntact(d, offs[0], size); g != "" {
				problems = append(problems, g)
			}
			if werr == nil && int64(n) != size {
				problems = append(problems, fmt.Sprintf("reported %d bytes written, partition is %d", n, size))
			}
			switch bc.supply {
			case "exact": // the whole pattern landed
				if m := pat.compareWindows(d, offs[0]); m != "" {
					problems = append(problems, "after a full write: "+m)
				}
			case "under": // everything supplied landed
				if bd.bytes != supply {
					problems = append(problems, fmt.Sprintf("%d bytes reached the device, %d were supplied", bd.bytes, supply))
				}
			}
		case "copy":
			dsz := size + bc.dstMore
			d, dk, offs, err := mkBig(bc, []int64{size, dsz})
			if err != nil {
				problems = append(problems, "cannot set up the partitions: "+err.Error())
				return
			}
			pat.fill(d, offs[0])
			bigPat{size: dsz, salt: salt + 1}.fill(d, offs[1]) // stale content in the target
			bd := &bigDev{Dev: d, lo: offs[1], hi: offs[1] + dsz}
			dk.Backend = bd
			cerr := dsync.CopyPartitionRaw(dk, 1, 2)
			if cerr != nil {
				problems = append(problems, "copy into a large-enough target failed: "+cerr.Error())
			}
			if len(bd.outside) > 0 {
				problems = append(problems, fmt.Sprintf("WriteAt outside the target partition [%d,%d): %v", bd.lo, bd.hi, bd.outside))
			}
			if g := guardsIntact(d, offs[1], dsz); g != "" {
				problems = append(problems, g)
			}
			if cerr == nil {
				if bd.bytes != size {
					problems = append(problems, fmt.Sprintf("%d bytes were written to the target, the source partition has %d", bd.bytes, size))
				}
				if m := pat.compareWindows(d, offs[1]); m != "" {
					problems = append(problems, "target's leading bytes differ from the source partition: "+m)
				}
			}
			if m := pat.compareWindows(d, offs[0]); m != "" {
				problems = append(problems, "the source partition changed: "+m)
			}
		}
	}()
	limit := time.Duration(c.N(180, 600)) * time.Second
	select {
	case res := <-done:
		if len(res.problems) > 0 {
			c.Fail(id, "-", strings.Join(res.problems, "; "), desc)
		} else {
			c.OK(id)
		}
	case <-time.After(limit):
		c.Fail(id, "-", fmt.Sprintf("%s of a partition of %d bytes did not return within %v", bc.op, size, limit), desc)
	}
	c.Stat("part_size_ge_4g." + bc.op)
	c.Stat(fmt.Sprintf("part_size_ge_4g.%s.%s", bc.op, bc.kind))
	c.Distinct(desc)
	c.Sample(desc)
}
