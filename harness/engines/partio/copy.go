package partio

import (
	"bytes"
	"fmt"
	"io"
	"log"
	"time"

	"github.com/diskfs/go-diskfs/disk"
	"github.com/diskfs/go-diskfs/partition/gpt"
	"github.com/diskfs/go-diskfs/partition/mbr"
	dsync "github.com/diskfs/go-diskfs/sync"

	"verif/harness/internal/hx"
	"verif/harness/internal/memdev"
)

// partioCopy: CopyPartitionRaw leaves the target's leading bytes equal to the source partition.
func partioCopy(c *hx.Ctx) {
	log.SetOutput(io.Discard)
	r := c.Rng
	n := c.N(150, 4000)
	for i := 0; i < n; i++ {
		id := fmt.Sprintf("cp%d", i)
		kind := hx.Pick(r, []string{"gpt", "mbr"})
		lss := hx.Pick(r, []int{512, 512, 4096})
		pss := hx.Pick(r, []int{512, 4096})
		boundary := uint64(1<<32) / uint64(lss)
		s1 := 64 + uint64(r.Intn(2000))
		if r.Chance(35) {
			s1 = boundary + uint64(r.Intn(1000))
		}
		z1 := uint64(1 + r.Intn(40))
		gap := uint64(r.Intn(50))
		s2 := s1 + z1 + gap
		if r.Chance(30) {
			s2 = boundary*2 + uint64(r.Intn(5000))
		}
		var z2 uint64
		switch r.Intn(4) {
		case 0:
			z2 = z1
		case 1:
			if z1 > 1 {
				z2 = z1 - uint64(1+r.Intn(int(z1-1)))
			} else {
				z2 = z1
			}
		default:
			z2 = z1 + uint64(r.Intn(30))
		}
		if !c.Want(id) {
			continue
		}
		desc := fmt.Sprintf("copy kind=%s lss=%d pss=%d src=[%d,+%d) dst=[%d,+%d) sectors", kind, lss, pss, s1, z1, s2, z2)
		func() {
			defer func() {
				if e := recover(); e != nil {
					c.Fail(id, "-", fmt.Sprintf("panic: %v", e), desc)
				}
			}()
			devSize := int64(s2+z2+100)*int64(lss) + 1<<20
			devSize -= devSize % int64(lss)
			d := memdev.New(devSize)
			switch kind {
			case "gpt":
				t := &gpt.Table{LogicalSectorSize: lss, PhysicalSectorSize: pss, ProtectiveMBR: true,
					GUID: "5CA3360B-5DE6-4FCF-B4CE-419CEE433B51",
					Partitions: []*gpt.Partition{
						{Index: 1, Start: s1, End: s1 + z1 - 1, Type: gpt.LinuxFilesystem, GUID: "7F8AF2A9-1B1E-4A5E-9D4E-3C0E0A9B8F11", Name: "a"},
						{Index: 2, Start: s2, End: s2 + z2 - 1, Type: gpt.LinuxFilesystem, GUID: "7F8AF2A9-1B1E-4A5E-9D4E-3C0E0A9B8F12", Name: "b"}}}
				if err := t.Write(d, devSize); err != nil {
					c.Fail(id, "-", "table write: "+err.Error(), desc)
					return
				}
			default:
				t := &mbr.Table{LogicalSectorSize: lss, PhysicalSectorSize: pss,
					Partitions: []*mbr.Partition{
						{Index: 1, Type: mbr.Linux, Start: uint32(s1), Size: uint32(z1)},
						{Index: 2, Type: mbr.Linux, Start: uint32(s2), Size: uint32(z2)}}}
				if err := t.Write(d, devSize); err != nil {
					c.Fail(id, "-", "table write: "+err.Error(), desc)
					return
				}
			}
			srcOff, srcLen := int64(s1)*int64(lss), int64(z1)*int64(lss)
			dstOff, dstLen := int64(s2)*int64(lss), int64(z2)*int64(lss)
			d.RawWrite(r.Bytes(int(srcLen)), srcOff)
			d.RawWrite(r.Bytes(int(dstLen)), dstOff)
			before := d.Clone()
			dk := &disk.Disk{Backend: d, Size: devSize, LogicalBlocksize: int64(lss), PhysicalBlocksize: int64(pss)}
			if _, err := dk.GetPartitionTable(); err != nil {
				c.Fail(id, "-", "GetPartitionTable: "+err.Error(), desc)
				return
			}
			d.ResetLog()
			done := make(chan error, 1)
			go func() {
				defer func() {
					if e := recover(); e != nil {
						done <- fmt.Errorf("panic: %v", e)
					}
				}()
				done <- dsync.CopyPartitionRaw(dk, 1, 2)
			}()
			var err error
			select {
			case err = <-done:
			case <-time.After(20 * time.Second):
				c.Fail(id, "-", "CopyPartitionRaw did not return within 20 s", desc)
				return
			}
			var problems []string
			if off := memdev.DiffOutside(before, d, dstOff, dstOff+dstLen); off >= 0 {
				problems = append(problems, fmt.Sprintf("byte %d outside the target partition [%d,%d) changed", off, dstOff, dstOff+dstLen))
			}
			if z2 >= z1 {
				if err != nil {
					problems = append(problems, "copy into a large-enough target failed: "+err.Error())
				} else if !bytes.Equal(d.Bytes(dstOff, int(srcLen)), before.Bytes(srcOff, int(srcLen))) {
					problems = append(problems, "target's leading bytes differ from the source partition")
				}
				c.Stat("copy.fits")
			} else {
				if err == nil {
					problems = append(problems, "copy into a smaller target reported success")
				}
				c.Stat("copy.too-small")
			}
			if len(problems) > 0 {
				c.Fail(id, "-", fmt.Sprint(problems), desc)
			} else {
				c.OK(id)
			}
			c.Distinct(desc)
			if i < 2 {
				c.Sample(desc)
			}
		}()
	}
}
