package partio

// Disk level of C13: Disk.WritePartitionContents / ReadPartitionContents / sync.CopyPartitionRaw pick a
// partition out of Disk.Table (index lookup over sparse GPT slots, the four MBR slots, index 0 / negative /
// unused / duplicate indices, no table at all) and then stream.  Every case is run on the real code and on
// the Lean model (Model/PartDisk.lean: getPartition, reconcile, partWrite, partRead, copyRaw); the direct
// oracle compares device bytes with what the caller asked for.

import (
	"bytes"
	"errors"
	"fmt"
	"reflect"
	"strings"
	"time"

	"github.com/diskfs/go-diskfs/disk"
	"github.com/diskfs/go-diskfs/partition"
	"github.com/diskfs/go-diskfs/partition/gpt"
	"github.com/diskfs/go-diskfs/partition/mbr"
	"github.com/diskfs/go-diskfs/partition/part"
	dsync "github.com/diskfs/go-diskfs/sync"

	"verif/harness/internal/hx"
	"verif/harness/internal/memdev"
)

const unstampedTag = "partition-unstamped-after-write"

// patByte is the device fill; the Lean driver computes the same function (Driver/PartIO.lean pat).
func patByte(seed uint64, i int64) byte {
	return byte((uint64(i)*167 + uint64(i)/251*13 + seed) % 256)
}

func patFill(d *memdev.Dev, seed uint64, lo, hi int64) {
	b := make([]byte, hi-lo)
	for i := range b {
		b[i] = patByte(seed, lo+int64(i))
	}
	d.RawWrite(b, lo)
}

// what the caller means by a partition: index and byte range (or "must be refused")
type want struct {
	index      int
	off, size  int64
	refuse     bool // WriteContents has to refuse it (start/end/size cannot be reconciled)
	oneChunkRd bool // GPT partition whose Size was never set: ReadContents is not judged
}

func unexportedInt(p any, name string) int64 {
	v := reflect.ValueOf(p)
	if v.Kind() == reflect.Ptr {
		v = v.Elem()
	}
	f := v.FieldByName(name)
	if !f.IsValid() {
		return -1
	}
	return f.Int()
}

// partsStr describes Disk.Table.GetPartitions() exactly as the library holds it now.
func partsStr(t partition.Table) string {
	if t == nil {
		return "-"
	}
	var out []string
	for _, p := range t.GetPartitions() {
		switch q := p.(type) {
		case *gpt.Partition:
			out = append(out, fmt.Sprintf("gpt,%d,%d,%d,%d,%d,%d", q.Index, q.Start, q.End, q.Size,
				unexportedInt(q, "logicalSectorSize"), unexportedInt(q, "physicalSectorSize")))
		case *mbr.Partition:
			out = append(out, fmt.Sprintf("mbr,%d,%d,0,%d,%d,%d", q.Index, q.Start, q.Size,
				unexportedInt(q, "logicalSectorSize"), unexportedInt(q, "physicalSectorSize")))
		}
	}
	if len(out) == 0 {
		return "-"
	}
	return strings.Join(out, ";")
}

func stamped(t partition.Table, lss int) bool {
	if t == nil {
		return true
	}
	for _, p := range t.GetPartitions() {
		l := unexportedInt(p, "logicalSectorSize")
		if l == 0 {
			l = 512
		}
		if int(l) != lss {
			return false
		}
	}
	return true
}

// copyRangesOverlap: do the bytes ReadContents(from) reads and the bytes WriteContents(to) may write overlap
// (from != to)?  Read side: [GetStart, GetStart+GetSize), at least one physical chunk (a GPT partition whose Size is
// 0 reads one chunk).  Write side: [GetStart, GetStart + the larger of Size and the size computed from End).
func copyRangesOverlap(dk *disk.Disk, from, to int, pss int) bool {
	if from == to || dk.Table == nil {
		return false
	}
	sp, err1 := dk.GetPartition(from)
	tp, err2 := dk.GetPartition(to)
	if err1 != nil || err2 != nil {
		return false
	}
	chunk := int64(4096)
	if int64(pss) > chunk {
		chunk = int64(pss)
	}
	s0, sl := sp.GetStart(), sp.GetSize()
	if sl < chunk {
		sl = chunk
	}
	t0, tl := tp.GetStart(), tp.GetSize()
	if g, ok := tp.(*gpt.Partition); ok && g.End >= g.Start {
		l := unexportedInt(g, "logicalSectorSize")
		if l <= 0 {
			l = 512
		}
		if byEnd := int64(g.End-g.Start+1) * l; byEnd > tl {
			tl = byEnd
		}
	}
	return s0 < t0+tl && t0 < s0+sl
}

type dcase struct {
	kind      string
	mode      string // read | partition | hand | none
	lss, pss  int
	devSize   int64
	fillLo    int64
	fillHi    int64
	seed      uint64
	wants     []want
	dev       *memdev.Dev
	dk        *disk.Disk
	desc      string
	unstamped bool // the recorded defect's trigger: table handed to Disk.Partition, sector size != 512, partitions not stamped
}

func firstWant(ws []want, idx int) *want {
	for i := range ws {
		if ws[i].index == idx {
			return &ws[i]
		}
	}
	return nil
}

// mkDisk builds the device, the table and Disk.Table for one case.
func mkDisk(r *hx.Rng) (*dcase, error) {
	dc := &dcase{kind: hx.Pick(r, []string{"gpt", "mbr"}), lss: hx.Pick(r, []int{512, 512, 4096}), pss: hx.Pick(r, []int{512, 4096, 1024})}
	switch r.Intn(10) {
	case 0:
		dc.mode = "none"
	case 1, 2, 3:
		dc.mode = "hand"
		dc.lss, dc.pss = 512, 512 // hand-built partitions are never stamped: the defaults apply
	case 4, 5:
		dc.mode = "partition"
	default:
		dc.mode = "read"
	}
	boundary := uint64(1<<32) / uint64(dc.lss)
	var base uint64
	switch r.Intn(4) {
	case 0:
		base = boundary - uint64(1+r.Intn(30))
	case 1:
		base = boundary*uint64(1+r.Intn(3)) + uint64(r.Intn(5000))
	default:
		base = 64 + uint64(r.Intn(3000))
	}
	if dc.kind == "mbr" && base+400 >= 1<<32 {
		base = 1<<32 - 500
	}
	np := 1 + r.Intn(5)
	if dc.kind == "mbr" {
		np = r.Intn(5)
	}
	type geo struct{ start, size uint64 }
	var gs []geo
	cur := base
	for k := 0; k < np; k++ {
		cur += uint64(r.Intn(6))
		z := uint64(1 + r.Intn(24))
		gs = append(gs, geo{cur, z})
		cur += z
	}
	// shuffle the order in the table (GPT only: MBR slots are positional)
	if dc.kind == "gpt" {
		for a := len(gs) - 1; a > 0; a-- {
			b := r.Intn(a + 1)
			gs[a], gs[b] = gs[b], gs[a]
		}
	}
	dc.fillLo = int64(base)*int64(dc.lss) - 8192
	dc.fillHi = int64(cur+8)*int64(dc.lss) + 8192
	dc.devSize = dc.fillHi + 40*int64(dc.lss) + 1<<20
	dc.devSize -= dc.devSize % int64(dc.lss)
	dc.dev = memdev.New(dc.devSize)
	dc.seed = r.U64() % 251
	dc.dk = &disk.Disk{Backend: dc.dev, Size: dc.devSize, LogicalBlocksize: int64(dc.lss), PhysicalBlocksize: int64(dc.pss)}
	// distinct sparse indices
	idxs := map[int]bool{}
	pickIdx := func() int {
		for {
			var i int
			switch {
			case dc.kind == "mbr":
				i = len(idxs) + 1
			case r.Chance(30):
				i = 1 + r.Intn(6)
			case r.Chance(10):
				i = 128
			default:
				i = 1 + r.Intn(128)
			}
			if !idxs[i] {
				idxs[i] = true
				return i
			}
		}
	}
	switch dc.mode {
	case "none":
		dc.dk.Table = nil
	case "read", "partition":
		var tbl partition.Table
		if dc.kind == "gpt" {
			t := &gpt.Table{LogicalSectorSize: dc.lss, PhysicalSectorSize: dc.pss, ProtectiveMBR: true, GUID: "5CA3360B-5DE6-4FCF-B4CE-419CEE433B51"}
			for k, g := range gs {
				i := pickIdx()
				p := &gpt.Partition{Index: i, Start: g.start, End: g.start + g.size - 1, Type: gpt.LinuxFilesystem,
					GUID: fmt.Sprintf("7F8AF2A9-1B1E-4A5E-9D4E-3C0E0A9B8F%02X", k), Name: fmt.Sprintf("p%d", i)}
				if r.Chance(30) { // the size spelling
					p.End, p.Size = 0, g.size*uint64(dc.lss)
				}
				t.Partitions = append(t.Partitions, p)
				dc.wants = append(dc.wants, want{index: i, off: int64(g.start) * int64(dc.lss), size: int64(g.size) * int64(dc.lss)})
			}
			tbl = t
		} else {
			t := &mbr.Table{LogicalSectorSize: dc.lss, PhysicalSectorSize: dc.pss}
			for _, g := range gs {
				i := pickIdx()
				t.Partitions = append(t.Partitions, &mbr.Partition{Index: i, Type: mbr.Linux, Start: uint32(g.start), Size: uint32(g.size)})
				dc.wants = append(dc.wants, want{index: i, off: int64(g.start) * int64(dc.lss), size: int64(g.size) * int64(dc.lss)})
			}
			if dc.mode == "read" {
				for i := len(gs) + 1; i <= 4; i++ { // the empty slots read back as partitions of size 0
					dc.wants = append(dc.wants, want{index: i})
				}
			}
			tbl = t
		}
		if dc.mode == "partition" {
			if err := dc.dk.Partition(tbl); err != nil {
				return dc, fmt.Errorf("Disk.Partition: %w", err)
			}
			dc.unstamped = !stamped(dc.dk.Table, dc.lss)
		} else {
			if err := tbl.Write(dc.dev, dc.devSize); err != nil {
				return dc, fmt.Errorf("Table.Write: %w", err)
			}
			if _, err := dc.dk.GetPartitionTable(); err != nil {
				return dc, fmt.Errorf("GetPartitionTable: %w", err)
			}
		}
	case "hand":
		// Disk.Table set by the caller; partitions in every spelling, arbitrary indices (0, negative, duplicates)
		handIdx := func() int {
			switch r.Intn(8) {
			case 0:
				return 0
			case 1:
				return -1 - r.Intn(3)
			case 2:
				if len(dc.wants) > 0 {
					return dc.wants[r.Intn(len(dc.wants))].index // duplicate: the first one wins
				}
			}
			return 1 + r.Intn(200)
		}
		if dc.kind == "gpt" {
			t := &gpt.Table{LogicalSectorSize: 512, PhysicalSectorSize: 512}
			for _, g := range gs {
				i := handIdx()
				p := &gpt.Partition{Index: i, Start: g.start, Type: gpt.LinuxFilesystem}
				w := want{index: i, off: int64(g.start) * 512, size: int64(g.size) * 512}
				switch r.Intn(8) {
				case 0, 1: // start + end
					p.End = g.start + g.size - 1
					w.oneChunkRd = true
				case 2, 3: // start + size
					p.Size = g.size * 512
				case 4: // inconsistent
					p.End, p.Size = g.start+g.size-1, g.size*512+512
					w.refuse = true
				case 5: // size not a multiple of the sector
					p.Size = g.size*512 - 7
					w.refuse = true
				case 6: // end before start
					p.End = g.start - 1 - uint64(r.Intn(3))
					if r.Bool() {
						p.Size = g.size * 512
					}
					w.refuse = true
					w.oneChunkRd = p.Size == 0
				default: // all three, consistent
					p.End, p.Size = g.start+g.size-1, g.size*512
				}
				t.Partitions = append(t.Partitions, p)
				dc.wants = append(dc.wants, w)
			}
			dc.dk.Table = t
		} else {
			t := &mbr.Table{LogicalSectorSize: 512, PhysicalSectorSize: 512}
			for _, g := range gs {
				i := handIdx()
				t.Partitions = append(t.Partitions, &mbr.Partition{Index: i, Type: mbr.Linux, Start: uint32(g.start), Size: uint32(g.size)})
				dc.wants = append(dc.wants, want{index: i, off: int64(g.start) * 512, size: int64(g.size) * 512})
			}
			dc.dk.Table = t
		}
	}
	patFill(dc.dev, dc.seed, dc.fillLo, dc.fillHi)
	dc.dev.ResetLog()
	dc.desc = fmt.Sprintf("disk kind=%s mode=%s lss=%d pss=%d dev=%d table=[%s]", dc.kind, dc.mode, dc.lss, dc.pss, dc.devSize, partsStr(dc.dk.Table))
	return dc, nil
}

func (dc *dcase) pickIndex(r *hx.Rng) int {
	if len(dc.wants) > 0 && r.Chance(72) {
		return dc.wants[r.Intn(len(dc.wants))].index
	}
	switch r.Intn(5) {
	case 0:
		return 0
	case 1:
		return -1
	case 2:
		return 129
	case 3:
		return 1 + r.Intn(128)
	}
	return 5
}

func (dc *dcase) common(idx ...int) []string {
	tbl := "1"
	if dc.dk.Table == nil {
		tbl = "0"
	}
	a := []string{"tbl=" + tbl, "parts=" + partsStr(dc.dk.Table), fmt.Sprintf("dev=%d", dc.devSize), fmt.Sprintf("seed=%d", dc.seed),
		fmt.Sprintf("fills=%d:%d", dc.fillLo, dc.fillHi-dc.fillLo)}
	return a
}

func errClass(err error) string {
	var np *disk.NoPartitionTableError
	var ip *disk.InvalidPartitionError
	switch {
	case errors.As(err, &np):
		return "notable"
	case errors.As(err, &ip):
		return "badindex"
	case err != nil && strings.Contains(err.Error(), "cannot reconcile"):
		return "reconcile"
	}
	return "done"
}

func sumBytes(b []byte) int {
	s := 0
	for _, x := range b {
		s += int(x)
	}
	return s
}

// verdict: report a failure under the recorded defect's tag only when its trigger holds
func (dc *dcase) fail(c *hx.Ctx, id, msg string) {
	tag := "-"
	if dc.unstamped {
		tag = unstampedTag
	}
	c.Fail(id, tag, msg, dc.desc)
}

func partioDisk(c *hx.Ctx) {
	probeUnstamped(c)
	r := c.Rng
	n := c.N(260, 12000)
	for i := 0; i < n; i++ {
		id := fmt.Sprintf("dk%d", i)
		seed := r.U64()
		if !c.Want(id) {
			continue
		}
		runDiskCase(c, id, hx.NewRng(seed))
	}
}

func runDiskCase(c *hx.Ctx, id string, r *hx.Rng) {
	var dc *dcase
	defer func() {
		if e := recover(); e != nil {
			desc := ""
			if dc != nil {
				desc = dc.desc
			}
			c.Fail(id, "-", fmt.Sprintf("panic: %v", e), desc)
		}
	}()
	var err error
	dc, err = mkDisk(r)
	if err != nil {
		c.Fail(id, "-", "cannot set up the disk: "+err.Error(), dc.desc)
		return
	}
	d, dk := dc.dev, dc.dk
	before := d.Clone()
	c.Stat("disk.mode=" + dc.mode)
	c.Stat("disk.kind=" + dc.kind)
	if dc.unstamped {
		c.Stat("disk.unstamped")
	}

	// ---- ReadPartitionContents
	{
		idx := dc.pickIndex(r)
		var out bytes.Buffer
		var reqs []string
		c.Case(id+"/rd", "partio.dread", append(dc.common(), fmt.Sprintf("idx=%d", idx))...)
		d.ReadHook = func(off int64, n int) { reqs = append(reqs, fmt.Sprintf("%d:%d", off, n)) }
		rn, rerr := dk.ReadPartitionContents(idx, &out)
		d.ReadHook = nil
		cls := errClass(rerr)
		if cls == "done" {
			rs := "-"
			if len(reqs) > 0 {
				rs = strings.Join(reqs, ",")
			}
			c.Impl(id+"/rd", "res=done", "rs="+rs, fmt.Sprintf("n=%d", rn), fmt.Sprintf("len=%d", out.Len()), fmt.Sprintf("sum=%d", sumBytes(out.Bytes())))
		} else {
			c.Impl(id+"/rd", "res="+cls)
		}
		w := firstWant(dc.wants, idx)
		switch {
		case len(d.Log) != 0:
			dc.fail(c, id+"/read", "ReadPartitionContents wrote to the device")
		case dk.Table == nil:
			if cls != "notable" || rn != -1 {
				dc.fail(c, id+"/read", fmt.Sprintf("no table: got n=%d err=%v", rn, rerr))
			} else {
				c.OK(id + "/read")
			}
		case w == nil:
			if cls != "badindex" || rn != -1 || out.Len() != 0 {
				dc.fail(c, id+"/read", fmt.Sprintf("index %d is not in the table: got n=%d len=%d err=%v", idx, rn, out.Len(), rerr))
			} else {
				c.OK(id + "/read")
			}
		case w.oneChunkRd, w.refuse:
			// Size never set (GetSize() is 0: one physical chunk is read) or start/end/size contradict each
			// other: there is no single range the caller can be said to mean; correspondence only
			c.Stat("disk.read.not-judged")
			c.OK(id + "/read")
		default:
			exp := before.Bytes(w.off, int(w.size))
			if rerr != nil || rn != w.size || !bytes.Equal(out.Bytes(), exp) {
				dc.fail(c, id+"/read", fmt.Sprintf("ReadPartitionContents(%d) returned n=%d len=%d err=%v, want exactly the %d bytes at %d", idx, rn, out.Len(), rerr, w.size, w.off))
			} else {
				c.OK(id + "/read")
			}
		}
		c.Stat("disk.read=" + cls)
	}

	// ---- CopyPartitionRaw (the partitions of a table never overlap here)
	if dk.Table != nil {
		from, to := dc.pickIndex(r), dc.pickIndex(r)
		if from == to && dc.mode == "hand" {
			to = from + 1000
		}
		// The model composes the two goroutines of CopyPartitionRaw sequentially (documented assumption of C13;
		// copy_correct assumes disjoint ranges).  When the bytes the source's ReadContents will read and the bytes
		// the target's WriteContents may write overlap (only hand-built partitions whose Size contradicts End get
		// there), the outcome of the verification pass depends on the interleaving of ReadAt and WriteAt: such a
		// pair is run and judged by the oracle below but not compared with the model.
		modelled := !copyRangesOverlap(dk, from, to, dc.pss)
		if !modelled {
			c.Stat("disk.copy.overlap-not-modelled")
		} else if c.Thorough() {
			// the model's copy (device as a closure over the write list, verification pass included) costs ~0.1 s
			// per case in the driver: in the thorough tier every 6th copy is compared with the model (all of them in
			// the quick tier); the oracle below judges every one
			var k int
			fmt.Sscanf(id, "dk%d", &k)
			if k%6 != 0 {
				modelled = false
				c.Stat("disk.copy.model-sampled-out")
			}
		}
		if modelled {
			c.Case(id+"/cp", "partio.copy", append(dc.common(), fmt.Sprintf("from=%d", from), fmt.Sprintf("to=%d", to))...)
		}
		d.ResetLog()
		done := make(chan error, 1)
		go func() {
			defer func() {
				if e := recover(); e != nil {
					done <- fmt.Errorf("panic: %v", e)
				}
			}()
			done <- dsync.CopyPartitionRaw(dk, from, to)
		}()
		var cerr error
		select {
		case cerr = <-done:
		case <-time.After(30 * time.Second):
			if modelled {
				c.Impl(id+"/cp", "ws=timeout")
			}
			dc.fail(c, id+"/copy", "CopyPartitionRaw did not return within 30 s")
			return
		}
		out := "ok"
		switch {
		case cerr == nil:
		case strings.Contains(cerr.Error(), "panic:"):
			out = "panic"
		case strings.Contains(cerr.Error(), "failed to write raw data"):
			out = "errwrite"
		case strings.Contains(cerr.Error(), "failed to read raw data"):
			out = "errread"
		case strings.Contains(cerr.Error(), "mismatched read/write sizes"):
			out = "errmismatch"
		case strings.Contains(cerr.Error(), "verification failed"):
			out = "errverify"
		default:
			out = "other"
		}
		if modelled {
			c.Impl(id+"/cp", "ws="+wlog(d), "out="+out)
		}
		ws, wt := firstWant(dc.wants, from), firstWant(dc.wants, to)
		var problems []string
		if wt == nil || wt.refuse {
			if off := memdev.DiffOutside(before, d, 0, 0); off >= 0 {
				problems = append(problems, fmt.Sprintf("no usable target, yet byte %d changed", off))
			}
			if cerr == nil {
				problems = append(problems, "copy without a usable target reported success")
			}
		} else {
			if off := memdev.DiffOutside(before, d, wt.off, wt.off+wt.size); off >= 0 {
				problems = append(problems, fmt.Sprintf("byte %d outside the target partition [%d,%d) changed", off, wt.off, wt.off+wt.size))
			}
			switch {
			case ws == nil:
				if cerr == nil {
					problems = append(problems, "copy from an index that is not in the table reported success")
				}
			case ws.oneChunkRd, ws.refuse:
				c.Stat("disk.copy.source-not-judged")
			case ws.size <= wt.size:
				if cerr != nil {
					problems = append(problems, "copy into a large-enough target failed: "+cerr.Error())
				} else if !bytes.Equal(d.Bytes(wt.off, int(ws.size)), before.Bytes(ws.off, int(ws.size))) {
					problems = append(problems, "target's leading bytes differ from the source partition")
				}
			default:
				if cerr == nil {
					problems = append(problems, "copy into a smaller target reported success")
				}
			}
		}
		if len(problems) > 0 {
			dc.fail(c, id+"/copy", strings.Join(problems, "; "))
		} else {
			c.OK(id + "/copy")
		}
		c.Stat("disk.copy=" + out)
	}

	// ---- WritePartitionContents
	{
		idx := dc.pickIndex(r)
		w := firstWant(dc.wants, idx)
		size := int64(4096)
		if w != nil {
			size = w.size
		}
		var supplied int64
		switch r.Intn(5) {
		case 0:
			supplied = r.Int63n(size + 1)
		case 1:
			supplied = size + 1 + r.Int63n(2*int64(dc.pss))
		default:
			supplied = size
		}
		data := r.Bytes(int(supplied))
		np := r.Intn(10)
		pieces := make([]int, np)
		for j := range pieces {
			if r.Bool() {
				pieces[j] = 1 + r.Intn(9)
			} else {
				pieces[j] = 1 + r.Intn(dc.pss)
			}
		}
		cr := &chunkReader{data: append([]byte(nil), data...), pieces: pieces, eofWithData: r.Bool()}
		pre := d.Clone()
		d.ResetLog()
		common := append(dc.common(), fmt.Sprintf("idx=%d", idx))
		wn, werr := dk.WritePartitionContents(idx, cr)
		c.Case(id+"/wr", "partio.dwrite", append(common, "chunks="+ints(cr.got))...)
		cls := errClass(werr)
		if cls == "done" {
			okStr := "0"
			if werr == nil {
				okStr = "1"
			}
			c.Impl(id+"/wr", "res=done", "ws="+wlog(d), fmt.Sprintf("total=%d", wn), "ok="+okStr)
		} else {
			c.Impl(id+"/wr", "res="+cls)
		}
		var problems []string
		switch {
		case dk.Table == nil, w == nil, w.refuse:
			if werr == nil {
				problems = append(problems, "write without a usable partition reported success")
			}
			if off := memdev.DiffOutside(pre, d, 0, 0); off >= 0 {
				problems = append(problems, fmt.Sprintf("no usable partition, yet byte %d changed", off))
			}
		default:
			if (werr == nil) != (supplied == w.size) {
				problems = append(problems, fmt.Sprintf("err=%v but supplied=%d size=%d", werr, supplied, w.size))
			}
			if off := memdev.DiffOutside(pre, d, w.off, w.off+w.size); off >= 0 {
				problems = append(problems, fmt.Sprintf("byte at %d outside partition %d [%d,%d) changed", off, idx, w.off, w.off+w.size))
			}
			if werr == nil && (wn != w.size || !bytes.Equal(d.Bytes(w.off, int(w.size)), data)) {
				problems = append(problems, "partition bytes differ from the supplied bytes")
			}
			if werr != nil && supplied < w.size && !bytes.Equal(d.Bytes(w.off, int(supplied)), data) {
				problems = append(problems, "short input: leading partition bytes differ from the supplied bytes")
			}
		}
		if len(d.OutOfRange) > 0 {
			problems = append(problems, fmt.Sprintf("write beyond the device: %v", d.OutOfRange))
		}
		if len(problems) > 0 {
			dc.fail(c, id+"/write", strings.Join(problems, "; "))
		} else {
			c.OK(id + "/write")
		}
		c.Stat("disk.write=" + cls)
	}
	c.Distinct(dc.desc)
	c.Sample(dc.desc)
}

// probeUnstamped replays the witness of the recorded finding: a table handed to Disk.Partition on a disk
// with 4096-byte sectors, then WritePartitionContents without re-reading the table.
func probeUnstamped(c *hx.Ctx) {
	reproduced, msg := false, ""
	func() {
		defer func() {
			if e := recover(); e != nil {
				reproduced, msg = true, fmt.Sprintf("panic: %v", e)
			}
		}()
		const lss = 4096
		size := int64(16 << 20)
		d := memdev.New(size)
		dk := &disk.Disk{Backend: d, Size: size, LogicalBlocksize: lss, PhysicalBlocksize: lss}
		t := &mbr.Table{LogicalSectorSize: lss, PhysicalSectorSize: lss, Partitions: []*mbr.Partition{{Index: 1, Type: mbr.Linux, Start: 100, Size: 4}}}
		if err := dk.Partition(t); err != nil {
			msg = "Disk.Partition: " + err.Error()
			return
		}
		data := bytes.Repeat([]byte{0xAB}, 4*lss)
		before := d.Clone()
		n, err := dk.WritePartitionContents(1, bytes.NewReader(data))
		var p part.Partition
		p, _ = dk.GetPartition(1)
		off := memdev.DiffOutside(before, d, 100*lss, 104*lss)
		if err != nil || off >= 0 || !bytes.Equal(d.Bytes(100*lss, 4*lss), data) {
			reproduced = true
			msg = fmt.Sprintf("MBR {Start:100, Size:4} handed to Disk.Partition on a 4096-byte-sector disk: WritePartitionContents(1, 16384 bytes) returned n=%d err=%v, first changed byte outside [409600,425984) at %d; GetStart()=%d GetSize()=%d", n, err, off, p.GetStart(), p.GetSize())
		} else {
			msg = "partition written at byte 409600 as asked"
		}
	}()
	c.Known(unstampedTag, reproduced, msg)
}
